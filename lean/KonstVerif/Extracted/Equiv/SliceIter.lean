import KonstVerif.Extracted.Gen.SliceIter
import KonstVerif.Extracted.Equiv.SliceFns
import KonstVerif.Model.SliceIter
/-
  Extracted (regenerated from /repo) = Model/SliceIter.lean (+ Model/Slice.lean for as_chunks/as_rchunks),
  group `SliceIter`: konst::slice::{as_chunks, as_rchunks}, some_if_nonempty, the constructors
  windows/chunks/rchunks/chunks_exact/rchunks_exact/array_chunks and `next`/`next_back`/`remainder` of the
  twelve iterator structs.

  Shape of the statements.  The model has an explicit panic outcome (`Step.panic`, `none` from a
  constructor / from `asChunks`); the extracted functions return `Res`.  For every function there are two
  theorems:

  * `<f>_res`: `Extracted.f args = optRes (…model…)` / `= stepRes … (…model…)`: the extracted function
    panics EXACTLY when the model says panic and otherwise returns exactly the model's value (through the
    conversion maps below).  Only machine bounds are assumed (where checked multiplication occurs).
  * `<f>_eq`: under the no-panic hypotheses (`size ≥ 1`, …) the conclusion is `= .ok (…)` together with
    the fact that the model does not panic.

  Conversion maps.  The model's iterator state is `It σ = ⟨fwd, fields⟩` (`fwd = true`: the forward struct,
  `fwd = false`: the `*Rev` struct) with `fields` a structure of element lists, exactly like the generated
  structures, so `X.toIt : Extracted.X T → It (SliceIter.X T)` and `X.ofIt` (forgets `fwd`, which a step
  never changes) are field-by-field copies.  No "original slice" parameter is needed: the model's states
  hold element lists, not views.  `as_chunks`/`as_rchunks` (model: views + count over the length) are
  related through `asChunksApply`/`asRchunksApply` (`View.apply` + the model's `retype`).

  `*Rev` structs.  `XRev::next` is the text of `X::next_back` and vice versa, but over a different
  (generated) structure type, so there is no term-level reduction without redoing the case analysis; the
  Rev theorems are proved by the same script as the forward twin and share its model-side block lemma
  (`X.nextBlock_ne_panic` / `X.nextBackBlock_ne_panic`).  In the model the Rev type is `fwd = false`, i.e.
  `It.next` runs `nextBackBlock`.

  Hypotheses used (nothing else): `l.length < 2^64` for the checked products `arrs_len * N` (as_chunks,
  array_chunks) and `(len - 1) / chunk_size * chunk_size` (Chunks::next_back, ChunksRev::next); for `_eq`
  additionally `size ≥ 1` (constructors, Windows::next_back, Chunks::next_back, RChunks::next_back and Rev
  twins), `slice ≠ Some(&[])` (Chunks::next_back) and `slice ≠ [] → chunk_size ≤ slice.len()`
  (the `len - chunk_size` blocks of ChunksExact/RChunksExact).
-/
namespace Extracted.Equiv
open Rs Konst Konst.Slice

/-! ### shared conversions -/

/-- model `Option` (`none` = panic) as a `Res` -/
def optRes {α : Type} : Option α → Res α
  | some a => .ok a
  | none => .panic

/-- model `Step` as the `Res (Option (item × state))` an extracted `next`/`next_back` returns -/
def stepRes {ι σ τ : Type} (f : σ → τ) : SliceIter.Step ι σ → Res (Option (ι × τ))
  | .panic => .panic
  | .none => .ok none
  | .some x s => .ok (some (x, f s))

/-- the `Option` of a non-panicking `Step` -/
def stepOpt {ι σ τ : Type} (f : σ → τ) : SliceIter.Step ι σ → Option (ι × τ)
  | .some x s => some (x, f s)
  | _ => none

theorem stepRes_of_ne_panic {ι σ τ : Type} (f : σ → τ) (s : SliceIter.Step ι σ) (h : s ≠ .panic) :
    stepRes f s = .ok (stepOpt f s) := by
  cases s <;> simp_all [stepRes, stepOpt]

@[simp] theorem stepRes_mapState {ι σ τ υ : Type} (g : σ → τ) (f : τ → υ)
    (s : SliceIter.Step ι σ) :
    stepRes f (s.mapState g) = stepRes (fun x => f (g x)) s := by
  cases s <;> rfl

theorem mapState_ne_panic {ι σ τ : Type} (g : σ → τ) (s : SliceIter.Step ι σ) :
    s.mapState g ≠ .panic ↔ s ≠ .panic := by
  cases s <;> simp [SliceIter.Step.mapState]

/-- `chunksOf` (prelude, recursive) is the model's `retype` (positional) -/
theorem chunksOf_eq_retype {α : Type} (n k : Nat) (l : List α) :
    Rs.chunksOf n k l = SliceIter.retype n k l := by
  induction k generalizing l with
  | zero => simp [Rs.chunksOf, SliceIter.retype]
  | succ k ih =>
    simp only [Rs.chunksOf, ih, SliceIter.retype, List.range_succ_eq_map, List.map_cons, List.map_map,
      Nat.zero_mul, List.drop_zero]
    congr 1
    apply List.map_congr_left
    intro i _
    simp only [Function.comp, List.drop_drop]
    congr 2
    rw [Nat.succ_mul]; omega

/-! ### `as_chunks`, `as_rchunks` -/

/-- the value of `as_chunks` denoted by the model's (arrays view, count, remainder view) -/
def asChunksApply {T : Type} (N : Nat) (l : List T) (v : View × Nat × View) : List (List T) × List T :=
  (SliceIter.retype N v.2.1 (v.1.apply l), v.2.2.apply l)

/-- the value of `as_rchunks` denoted by the model's (remainder view, arrays view, count) -/
def asRchunksApply {T : Type} (N : Nat) (l : List T) (v : View × View × Nat) : List T × List (List T) :=
  (v.1.apply l, SliceIter.retype N v.2.2 (v.2.1.apply l))

theorem as_chunks_res {T : Type} (N : Nat) (l : List T) (hb : l.length < 2 ^ 64) :
    Extracted.as_chunks N l = optRes ((asChunks l.length N).map (asChunksApply N l)) := by
  unfold Extracted.as_chunks asChunks
  by_cases hN : N = 0
  · simp [hN, optRes]
  · have hm : l.length / N * N ≤ l.length := Nat.div_mul_le_self _ _
    have hm' : l.length / N * N < 2 ^ 64 := by omega
    simp [hN, optRes, Rs.udiv, Rs.umul, hm', split_at_eq, splitAt, asChunksApply, Rs.rawPartsArrays,
      sliceUpTo, sliceUpToImpl, overflowingSub, hm, View.apply, chunksOf_eq_retype]

theorem as_chunks_eq {T : Type} (N : Nat) (l : List T) (hN : 1 ≤ N) (hb : l.length < 2 ^ 64) :
    ∃ v, asChunks l.length N = some v ∧ Extracted.as_chunks N l = .ok (asChunksApply N l v) := by
  rw [as_chunks_res N l hb]
  have : N ≠ 0 := by omega
  simp [asChunks, this, optRes]

theorem as_chunks_panic {T : Type} (l : List T) : Extracted.as_chunks 0 l = .panic := by
  simp [Extracted.as_chunks]

example : Extracted.as_chunks 2 [1, 2, 3, 4, 5] = .ok ([[1, 2], [3, 4]], [5]) := by
  rw [as_chunks_res _ _ (by decide)]; decide

theorem as_rchunks_res {T : Type} (N : Nat) (l : List T) :
    Extracted.as_rchunks N l = optRes ((asRchunks l.length N).map (asRchunksApply N l)) := by
  unfold Extracted.as_rchunks asRchunks
  by_cases hN : N = 0
  · simp [hN, optRes]
  · have hm : l.length % N ≤ l.length := Nat.mod_le _ _
    have hd : l.length / N * N ≤ l.length - l.length % N := by
      have := Nat.div_add_mod l.length N
      rw [Nat.mul_comm] at this; omega
    simp [hN, optRes, Rs.udiv, Rs.urem, split_at_eq, splitAt, asRchunksApply, Rs.rawPartsArrays,
      sliceFrom, sliceFromImpl, overflowingSub, hm, hd, View.apply, chunksOf_eq_retype]

theorem as_rchunks_eq {T : Type} (N : Nat) (l : List T) (hN : 1 ≤ N) :
    ∃ v, asRchunks l.length N = some v ∧ Extracted.as_rchunks N l = .ok (asRchunksApply N l v) := by
  rw [as_rchunks_res N l]
  have : N ≠ 0 := by omega
  simp [asRchunks, this, optRes]

theorem as_rchunks_panic {T : Type} (l : List T) : Extracted.as_rchunks 0 l = .panic := by
  simp [Extracted.as_rchunks]

example : Extracted.as_rchunks 2 [1, 2, 3, 4, 5] = .ok ([1], [[2, 3], [4, 5]]) := by
  rw [as_rchunks_res]; decide

/-! ### `some_if_nonempty` -/

theorem some_if_nonempty_eq {T : Type} (s : List T) :
    Extracted.some_if_nonempty s = .ok (SliceIter.someIfNonempty s) := by
  cases s <;> rfl

example : Extracted.some_if_nonempty [1, 2] = .ok (some [1, 2]) := by
  rw [some_if_nonempty_eq]; rfl
example : Extracted.some_if_nonempty ([] : List Nat) = .ok none := by
  rw [some_if_nonempty_eq]; rfl

/-! ### `Windows` / `WindowsRev` -/

def Windows.toModel {T : Type} (w : Extracted.Windows T) : SliceIter.Windows T := ⟨w.slice, w.size⟩
def Windows.ofModel {T : Type} (w : SliceIter.Windows T) : Extracted.Windows T := ⟨w.slice, w.size⟩
def Windows.toIt {T : Type} (w : Extracted.Windows T) : SliceIter.It (SliceIter.Windows T) :=
  ⟨true, Windows.toModel w⟩
def Windows.ofIt {T : Type} (it : SliceIter.It (SliceIter.Windows T)) : Extracted.Windows T :=
  Windows.ofModel it.fields
def WindowsRev.toModel {T : Type} (w : Extracted.WindowsRev T) : SliceIter.Windows T := ⟨w.slice, w.size⟩
def WindowsRev.ofModel {T : Type} (w : SliceIter.Windows T) : Extracted.WindowsRev T := ⟨w.slice, w.size⟩
def WindowsRev.toIt {T : Type} (w : Extracted.WindowsRev T) : SliceIter.It (SliceIter.Windows T) :=
  ⟨false, WindowsRev.toModel w⟩
def WindowsRev.ofIt {T : Type} (it : SliceIter.It (SliceIter.Windows T)) : Extracted.WindowsRev T :=
  WindowsRev.ofModel it.fields

theorem windows_res {T : Type} (l : List T) (size : Nat) :
    Extracted.windows l size = optRes ((SliceIter.windows l size).map Windows.ofIt) := by
  unfold Extracted.windows SliceIter.windows
  by_cases h : size = 0 <;> simp [h, optRes, Windows.ofIt, Windows.ofModel]

theorem windows_eq {T : Type} (l : List T) (size : Nat) (hs : 1 ≤ size) :
    ∃ w, Extracted.windows l size = .ok w ∧ SliceIter.windows l size = some (Windows.toIt w) := by
  have : size ≠ 0 := by omega
  simp [Extracted.windows, SliceIter.windows, this, Windows.toIt, Windows.toModel]

theorem windows_panic {T : Type} (l : List T) : Extracted.windows l 0 = .panic := by
  simp [Extracted.windows]

example : Extracted.windows [1, 2, 3] 2 = .ok ⟨[1, 2, 3], 2⟩ := by
  rw [windows_res]; rfl

theorem Windows_next_res {T : Type} (w : Extracted.Windows T) :
    Extracted.Windows.next w
      = stepRes Windows.ofIt (SliceIter.It.next SliceIter.Windows.blocks (Windows.toIt w)) := by
  unfold Extracted.Windows.next Windows.toIt Windows.toModel Windows.ofIt Windows.ofModel
  simp only [slice_up_to_eq, slice_from_eq, Ctl.call_ok, SliceIter.It.next,
    SliceIter.Windows.blocks, SliceIter.Windows.nextBlock, SliceIter.sliceUpToL, SliceIter.sliceFromL]
  by_cases h : w.slice.length < w.size <;> simp [h, stepRes, SliceIter.Step.mapState]

/-- from a `_res` statement to the `= .ok` form, given that the model does not panic -/
theorem ok_of_res {ι σ τ : Type} {r : Res (Option (ι × τ))} {f : σ → τ} {s : SliceIter.Step ι σ}
    (h : r = stepRes f s) (hp : s ≠ .panic) : r = .ok (stepOpt f s) ∧ s ≠ .panic :=
  ⟨by rw [h, stepRes_of_ne_panic f s hp], hp⟩

theorem Windows.nextBlock_ne_panic {T : Type} (w : SliceIter.Windows T) :
    SliceIter.Windows.nextBlock w ≠ .panic := by
  unfold SliceIter.Windows.nextBlock; split <;> simp

theorem Windows.nextBackBlock_ne_panic {T : Type} (w : SliceIter.Windows T) (hs : 1 ≤ w.size) :
    SliceIter.Windows.nextBackBlock w ≠ .panic := by
  unfold SliceIter.Windows.nextBackBlock
  by_cases h : w.slice.length < w.size
  · simp [h]
  · have h1 : w.size ≤ w.slice.length := by omega
    have h2 : 1 ≤ w.slice.length := by omega
    simp [h, SliceIter.checkedSub, h1, h2]

theorem Windows_next_eq {T : Type} (w : Extracted.Windows T) :
    Extracted.Windows.next w
      = .ok (stepOpt Windows.ofIt (SliceIter.It.next SliceIter.Windows.blocks (Windows.toIt w)))
    ∧ SliceIter.It.next SliceIter.Windows.blocks (Windows.toIt w) ≠ .panic :=
  ok_of_res (Windows_next_res w) (by
    simp [SliceIter.It.next, Windows.toIt, SliceIter.Windows.blocks, mapState_ne_panic,
      Windows.nextBlock_ne_panic])

example : Extracted.Windows.next ⟨[1, 2, 3], 2⟩ = .ok (some ([1, 2], ⟨[2, 3], 2⟩)) := by
  rw [Windows_next_res]; rfl
example : Extracted.Windows.next ⟨[1], 2⟩ = .ok none := by
  rw [Windows_next_res]; rfl

/-- no machine bound needed: `len - size`, `len - 1` are the only arithmetic.  Panics (in code and model)
    exactly for `size = 0` on the empty slice (`0 - 1`). -/
theorem Windows_next_back_res {T : Type} (w : Extracted.Windows T) :
    Extracted.Windows.next_back w
      = stepRes Windows.ofIt (SliceIter.It.nextBack SliceIter.Windows.blocks (Windows.toIt w)) := by
  unfold Extracted.Windows.next_back Windows.toIt Windows.toModel Windows.ofIt Windows.ofModel
  simp only [slice_up_to_eq, slice_from_eq, Ctl.call_ok, SliceIter.It.nextBack,
    SliceIter.Windows.blocks, SliceIter.Windows.nextBackBlock, SliceIter.sliceUpToL, SliceIter.sliceFromL]
  by_cases h : w.slice.length < w.size
  · simp [h, stepRes, SliceIter.Step.mapState]
  · have h1 : w.size ≤ w.slice.length := by omega
    by_cases h2 : 1 ≤ w.slice.length <;>
      simp [h, h1, h2, Rs.usub, SliceIter.checkedSub, stepRes, SliceIter.Step.mapState]

theorem Windows_next_back_eq {T : Type} (w : Extracted.Windows T) (hs : 1 ≤ w.size) :
    Extracted.Windows.next_back w
      = .ok (stepOpt Windows.ofIt (SliceIter.It.nextBack SliceIter.Windows.blocks (Windows.toIt w)))
    ∧ SliceIter.It.nextBack SliceIter.Windows.blocks (Windows.toIt w) ≠ .panic :=
  ok_of_res (Windows_next_back_res w) (by
    simp only [SliceIter.It.nextBack, Windows.toIt, SliceIter.Windows.blocks, mapState_ne_panic, ↓reduceIte]
    exact Windows.nextBackBlock_ne_panic _ hs)

example : Extracted.Windows.next_back ⟨[1, 2, 3], 2⟩ = .ok (some ([2, 3], ⟨[1, 2], 2⟩)) := by
  rw [Windows_next_back_res]; rfl
example : Extracted.Windows.next_back ⟨([] : List Nat), 0⟩ = .panic := by
  rw [Windows_next_back_res]; rfl

/-- `WindowsRev::next` is the text of `Windows::next_back` (the model: `It.next` at `fwd = false`) -/
theorem WindowsRev_next_res {T : Type} (w : Extracted.WindowsRev T) :
    Extracted.WindowsRev.next w
      = stepRes WindowsRev.ofIt (SliceIter.It.next SliceIter.Windows.blocks (WindowsRev.toIt w)) := by
  unfold Extracted.WindowsRev.next WindowsRev.toIt WindowsRev.toModel WindowsRev.ofIt WindowsRev.ofModel
  simp only [slice_up_to_eq, slice_from_eq, Ctl.call_ok, SliceIter.It.next,
    SliceIter.Windows.blocks, SliceIter.Windows.nextBackBlock, SliceIter.sliceUpToL, SliceIter.sliceFromL]
  by_cases h : w.slice.length < w.size
  · simp [h, stepRes, SliceIter.Step.mapState]
  · have h1 : w.size ≤ w.slice.length := by omega
    by_cases h2 : 1 ≤ w.slice.length <;>
      simp [h, h1, h2, Rs.usub, SliceIter.checkedSub, stepRes, SliceIter.Step.mapState]

theorem WindowsRev_next_eq {T : Type} (w : Extracted.WindowsRev T) (hs : 1 ≤ w.size) :
    Extracted.WindowsRev.next w
      = .ok (stepOpt WindowsRev.ofIt (SliceIter.It.next SliceIter.Windows.blocks (WindowsRev.toIt w)))
    ∧ SliceIter.It.next SliceIter.Windows.blocks (WindowsRev.toIt w) ≠ .panic :=
  ok_of_res (WindowsRev_next_res w) (by
    simp only [SliceIter.It.next, WindowsRev.toIt, SliceIter.Windows.blocks, mapState_ne_panic]
    exact Windows.nextBackBlock_ne_panic _ hs)

example : Extracted.WindowsRev.next ⟨[1, 2, 3], 2⟩ = .ok (some ([2, 3], ⟨[1, 2], 2⟩)) := by
  rw [WindowsRev_next_res]; rfl

/-- `WindowsRev::next_back` is the text of `Windows::next` -/
theorem WindowsRev_next_back_res {T : Type} (w : Extracted.WindowsRev T) :
    Extracted.WindowsRev.next_back w
      = stepRes WindowsRev.ofIt (SliceIter.It.nextBack SliceIter.Windows.blocks (WindowsRev.toIt w)) := by
  unfold Extracted.WindowsRev.next_back WindowsRev.toIt WindowsRev.toModel WindowsRev.ofIt
    WindowsRev.ofModel
  simp only [slice_up_to_eq, slice_from_eq, Ctl.call_ok, SliceIter.It.nextBack,
    SliceIter.Windows.blocks, SliceIter.Windows.nextBlock, SliceIter.sliceUpToL, SliceIter.sliceFromL]
  by_cases h : w.slice.length < w.size <;> simp [h, stepRes, SliceIter.Step.mapState]

theorem WindowsRev_next_back_eq {T : Type} (w : Extracted.WindowsRev T) :
    Extracted.WindowsRev.next_back w
      = .ok (stepOpt WindowsRev.ofIt
          (SliceIter.It.nextBack SliceIter.Windows.blocks (WindowsRev.toIt w)))
    ∧ SliceIter.It.nextBack SliceIter.Windows.blocks (WindowsRev.toIt w) ≠ .panic :=
  ok_of_res (WindowsRev_next_back_res w) (by
    simp [SliceIter.It.nextBack, WindowsRev.toIt, SliceIter.Windows.blocks, mapState_ne_panic,
      Windows.nextBlock_ne_panic])

example : Extracted.WindowsRev.next_back ⟨[1, 2, 3], 2⟩ = .ok (some ([1, 2], ⟨[2, 3], 2⟩)) := by
  rw [WindowsRev_next_back_res]; rfl

/-! ### `Chunks` / `ChunksRev` -/

def Chunks.toModel {T : Type} (c : Extracted.Chunks T) : SliceIter.Chunks T :=
  ⟨c.slice, c.chunk_size⟩
def Chunks.ofModel {T : Type} (c : SliceIter.Chunks T) : Extracted.Chunks T :=
  ⟨c.slice, c.chunkSize⟩
def Chunks.toIt {T : Type} (c : Extracted.Chunks T) :
    SliceIter.It (SliceIter.Chunks T) :=
  ⟨true, Chunks.toModel c⟩
def Chunks.ofIt {T : Type} (it : SliceIter.It (SliceIter.Chunks T)) :
    Extracted.Chunks T :=
  Chunks.ofModel it.fields

def ChunksRev.toModel {T : Type} (c : Extracted.ChunksRev T) : SliceIter.Chunks T :=
  ⟨c.slice, c.chunk_size⟩
def ChunksRev.ofModel {T : Type} (c : SliceIter.Chunks T) : Extracted.ChunksRev T :=
  ⟨c.slice, c.chunkSize⟩
def ChunksRev.toIt {T : Type} (c : Extracted.ChunksRev T) :
    SliceIter.It (SliceIter.Chunks T) :=
  ⟨false, ChunksRev.toModel c⟩
def ChunksRev.ofIt {T : Type} (it : SliceIter.It (SliceIter.Chunks T)) :
    Extracted.ChunksRev T :=
  ChunksRev.ofModel it.fields

theorem chunks_res {T : Type} (l : List T) (n : Nat) :
    Extracted.chunks l n = optRes ((SliceIter.chunks l n).map Chunks.ofIt) := by
  unfold Extracted.chunks SliceIter.chunks
  by_cases h : n = 0 <;> simp [h, optRes, Chunks.ofIt, Chunks.ofModel, some_if_nonempty_eq]

theorem chunks_eq {T : Type} (l : List T) (n : Nat) (hn : 1 ≤ n) :
    ∃ c, Extracted.chunks l n = .ok c ∧ SliceIter.chunks l n = some (Chunks.toIt c) := by
  have : n ≠ 0 := by omega
  simp [Extracted.chunks, SliceIter.chunks, this, Chunks.toIt, Chunks.toModel, some_if_nonempty_eq]

theorem chunks_panic {T : Type} (l : List T) : Extracted.chunks l 0 = .panic := by
  simp [Extracted.chunks]

example : Extracted.chunks [1, 2, 3] 2 = .ok ⟨some [1, 2, 3], 2⟩ := by
  rw [chunks_res]; rfl
example : Extracted.chunks ([] : List Nat) 2 = .ok ⟨none, 2⟩ := by
  rw [chunks_res]; rfl

theorem Chunks.nextBlock_ne_panic {T : Type} (c : SliceIter.Chunks T) :
    SliceIter.Chunks.nextBlock c ≠ .panic := by
  rcases c with ⟨_ | s, n⟩ <;> simp [SliceIter.Chunks.nextBlock, SliceIter.splitAtL]

theorem Chunks.nextBackBlock_ne_panic {T : Type} (c : SliceIter.Chunks T) (hs : 1 ≤ c.chunkSize)
    (hne : c.slice ≠ some []) : SliceIter.Chunks.nextBackBlock c ≠ .panic := by
  rcases c with ⟨_ | s, n⟩
  · simp [SliceIter.Chunks.nextBackBlock]
  · have h1 : 1 ≤ s.length := by
      cases s with
      | nil => simp at hne
      | cons => simp
    have hn : n ≠ 0 := by simp at hs; omega
    simp [SliceIter.Chunks.nextBackBlock, SliceIter.checkedSub, SliceIter.checkedDiv, h1, hn,
      SliceIter.splitAtL]

theorem Chunks_next_res {T : Type} (c : Extracted.Chunks T) :
    Extracted.Chunks.next c
      = stepRes Chunks.ofIt
          (SliceIter.It.next SliceIter.Chunks.blocks (Chunks.toIt c)) := by
  unfold Extracted.Chunks.next
  unfold Chunks.toIt Chunks.toModel Chunks.ofIt Chunks.ofModel
  simp only [SliceIter.It.next, SliceIter.Chunks.blocks, SliceIter.Chunks.nextBlock]
  simp only [split_at_eq, some_if_nonempty_eq, Ctl.call_ok, SliceIter.splitAtL, splitAt]
  rcases c with ⟨_ | s, n⟩ <;> simp [stepRes, SliceIter.Step.mapState]

theorem Chunks_next_eq {T : Type} (c : Extracted.Chunks T) :
    Extracted.Chunks.next c
      = .ok (stepOpt Chunks.ofIt
          (SliceIter.It.next SliceIter.Chunks.blocks (Chunks.toIt c)))
    ∧ SliceIter.It.next SliceIter.Chunks.blocks (Chunks.toIt c) ≠ .panic :=
  ok_of_res (Chunks_next_res c) (by
    simp only [SliceIter.It.next, Chunks.toIt, SliceIter.Chunks.blocks, mapState_ne_panic,
      ↓reduceIte]
    exact Chunks.nextBlock_ne_panic _)

example : Extracted.Chunks.next ⟨some [1, 2, 3], 2⟩ = .ok (some ([1, 2], ⟨some [3], 2⟩)) := by
  rw [Chunks_next_res]; rfl
example : Extracted.Chunks.next ⟨some [1, 2], 2⟩ = .ok (some ([1, 2], ⟨none, 2⟩)) := by
  rw [Chunks_next_res]; rfl
example : Extracted.Chunks.next (⟨none, 2⟩ : Extracted.Chunks Nat) = .ok none := by
  rw [Chunks_next_res]; rfl

/-- the product `(len - 1) / chunk_size * chunk_size` is checked in the code: it is `≤ len - 1`, so `len < 2^64`
    (true of every Rust slice) excludes the overflow panic.  Code and model panic exactly for
    `chunk_size = 0` or `slice = Some(&[])` (which the constructors / steps never produce). -/
theorem Chunks_next_back_res {T : Type} (c : Extracted.Chunks T)
    (hb : ∀ s, c.slice = some s → s.length < 2 ^ 64) :
    Extracted.Chunks.next_back c
      = stepRes Chunks.ofIt
          (SliceIter.It.nextBack SliceIter.Chunks.blocks (Chunks.toIt c)) := by
  unfold Extracted.Chunks.next_back
  unfold Chunks.toIt Chunks.toModel Chunks.ofIt Chunks.ofModel
  simp only [SliceIter.It.nextBack, SliceIter.Chunks.blocks, SliceIter.Chunks.nextBackBlock]
  simp only [split_at_eq, some_if_nonempty_eq, Ctl.call_ok, SliceIter.splitAtL, splitAt]
  rcases c with ⟨_ | s, n⟩
  · simp [stepRes, SliceIter.Step.mapState]
  · have hl := hb s rfl
    have hm : (s.length - 1) / n * n ≤ s.length - 1 := Nat.div_mul_le_self _ _
    have hm' : (s.length - 1) / n * n < 2 ^ 64 := by omega
    by_cases h1 : 1 ≤ s.length <;> by_cases hn : n = 0 <;>
      simp [h1, hn, hm', Rs.usub, Rs.udiv, Rs.umul, SliceIter.checkedSub, SliceIter.checkedDiv,
        stepRes, SliceIter.Step.mapState]

theorem Chunks_next_back_eq {T : Type} (c : Extracted.Chunks T)
    (hb : ∀ s, c.slice = some s → s.length < 2 ^ 64)
    (hs : 1 ≤ c.chunk_size)
    (hne : c.slice ≠ some []) :
    Extracted.Chunks.next_back c
      = .ok (stepOpt Chunks.ofIt
          (SliceIter.It.nextBack SliceIter.Chunks.blocks (Chunks.toIt c)))
    ∧ SliceIter.It.nextBack SliceIter.Chunks.blocks (Chunks.toIt c) ≠ .panic :=
  ok_of_res (Chunks_next_back_res c hb) (by
    simp only [SliceIter.It.nextBack, Chunks.toIt, SliceIter.Chunks.blocks, mapState_ne_panic,
      ↓reduceIte]
    exact Chunks.nextBackBlock_ne_panic _ hs hne)

example : Extracted.Chunks.next_back ⟨some [1, 2, 3], 2⟩ = .ok (some ([3], ⟨some [1, 2], 2⟩)) := by
  rw [Chunks_next_back_res _ (by simp)]; rfl
example : Extracted.Chunks.next_back ⟨some [1, 2, 3], 0⟩ = .panic := by
  rw [Chunks_next_back_res _ (by simp)]; rfl

/-- `ChunksRev::next` is the text of `Chunks::next_back` (model: `It.next` at `fwd = false`) -/
theorem ChunksRev_next_res {T : Type} (c : Extracted.ChunksRev T)
    (hb : ∀ s, c.slice = some s → s.length < 2 ^ 64) :
    Extracted.ChunksRev.next c
      = stepRes ChunksRev.ofIt
          (SliceIter.It.next SliceIter.Chunks.blocks (ChunksRev.toIt c)) := by
  unfold Extracted.ChunksRev.next
  unfold ChunksRev.toIt ChunksRev.toModel ChunksRev.ofIt ChunksRev.ofModel
  simp only [SliceIter.It.next, SliceIter.Chunks.blocks, SliceIter.Chunks.nextBackBlock]
  simp only [split_at_eq, some_if_nonempty_eq, Ctl.call_ok, SliceIter.splitAtL, splitAt]
  rcases c with ⟨_ | s, n⟩
  · simp [stepRes, SliceIter.Step.mapState]
  · have hl := hb s rfl
    have hm : (s.length - 1) / n * n ≤ s.length - 1 := Nat.div_mul_le_self _ _
    have hm' : (s.length - 1) / n * n < 2 ^ 64 := by omega
    by_cases h1 : 1 ≤ s.length <;> by_cases hn : n = 0 <;>
      simp [h1, hn, hm', Rs.usub, Rs.udiv, Rs.umul, SliceIter.checkedSub, SliceIter.checkedDiv,
        stepRes, SliceIter.Step.mapState]

theorem ChunksRev_next_eq {T : Type} (c : Extracted.ChunksRev T)
    (hb : ∀ s, c.slice = some s → s.length < 2 ^ 64)
    (hs : 1 ≤ c.chunk_size)
    (hne : c.slice ≠ some []) :
    Extracted.ChunksRev.next c
      = .ok (stepOpt ChunksRev.ofIt
          (SliceIter.It.next SliceIter.Chunks.blocks (ChunksRev.toIt c)))
    ∧ SliceIter.It.next SliceIter.Chunks.blocks (ChunksRev.toIt c) ≠ .panic :=
  ok_of_res (ChunksRev_next_res c hb) (by
    simp only [SliceIter.It.next, ChunksRev.toIt, SliceIter.Chunks.blocks, mapState_ne_panic,
      Bool.false_eq_true, ↓reduceIte]
    exact Chunks.nextBackBlock_ne_panic _ hs hne)

example : Extracted.ChunksRev.next ⟨some [1, 2, 3], 2⟩ = .ok (some ([3], ⟨some [1, 2], 2⟩)) := by
  rw [ChunksRev_next_res _ (by simp)]; rfl

/-- `ChunksRev::next_back` is the text of `Chunks::next` -/
theorem ChunksRev_next_back_res {T : Type} (c : Extracted.ChunksRev T) :
    Extracted.ChunksRev.next_back c
      = stepRes ChunksRev.ofIt
          (SliceIter.It.nextBack SliceIter.Chunks.blocks (ChunksRev.toIt c)) := by
  unfold Extracted.ChunksRev.next_back
  unfold ChunksRev.toIt ChunksRev.toModel ChunksRev.ofIt ChunksRev.ofModel
  simp only [SliceIter.It.nextBack, SliceIter.Chunks.blocks, SliceIter.Chunks.nextBlock]
  simp only [split_at_eq, some_if_nonempty_eq, Ctl.call_ok, SliceIter.splitAtL, splitAt]
  rcases c with ⟨_ | s, n⟩ <;> simp [stepRes, SliceIter.Step.mapState]

theorem ChunksRev_next_back_eq {T : Type} (c : Extracted.ChunksRev T) :
    Extracted.ChunksRev.next_back c
      = .ok (stepOpt ChunksRev.ofIt
          (SliceIter.It.nextBack SliceIter.Chunks.blocks (ChunksRev.toIt c)))
    ∧ SliceIter.It.nextBack SliceIter.Chunks.blocks (ChunksRev.toIt c) ≠ .panic :=
  ok_of_res (ChunksRev_next_back_res c) (by
    simp only [SliceIter.It.nextBack, ChunksRev.toIt, SliceIter.Chunks.blocks, mapState_ne_panic,
      Bool.false_eq_true, ↓reduceIte]
    exact Chunks.nextBlock_ne_panic _)

example : Extracted.ChunksRev.next_back ⟨some [1, 2, 3], 2⟩ = .ok (some ([1, 2], ⟨some [3], 2⟩)) := by
  rw [ChunksRev_next_back_res]; rfl

/-! ### `RChunks` / `RChunksRev` -/

def RChunks.toModel {T : Type} (c : Extracted.RChunks T) : SliceIter.RChunks T :=
  ⟨c.slice, c.chunk_size⟩
def RChunks.ofModel {T : Type} (c : SliceIter.RChunks T) : Extracted.RChunks T :=
  ⟨c.slice, c.chunkSize⟩
def RChunks.toIt {T : Type} (c : Extracted.RChunks T) :
    SliceIter.It (SliceIter.RChunks T) :=
  ⟨true, RChunks.toModel c⟩
def RChunks.ofIt {T : Type} (it : SliceIter.It (SliceIter.RChunks T)) :
    Extracted.RChunks T :=
  RChunks.ofModel it.fields

def RChunksRev.toModel {T : Type} (c : Extracted.RChunksRev T) : SliceIter.RChunks T :=
  ⟨c.slice, c.chunk_size⟩
def RChunksRev.ofModel {T : Type} (c : SliceIter.RChunks T) : Extracted.RChunksRev T :=
  ⟨c.slice, c.chunkSize⟩
def RChunksRev.toIt {T : Type} (c : Extracted.RChunksRev T) :
    SliceIter.It (SliceIter.RChunks T) :=
  ⟨false, RChunksRev.toModel c⟩
def RChunksRev.ofIt {T : Type} (it : SliceIter.It (SliceIter.RChunks T)) :
    Extracted.RChunksRev T :=
  RChunksRev.ofModel it.fields

theorem rchunks_res {T : Type} (l : List T) (n : Nat) :
    Extracted.rchunks l n = optRes ((SliceIter.rchunks l n).map RChunks.ofIt) := by
  unfold Extracted.rchunks SliceIter.rchunks
  by_cases h : n = 0 <;> simp [h, optRes, RChunks.ofIt, RChunks.ofModel, some_if_nonempty_eq]

theorem rchunks_eq {T : Type} (l : List T) (n : Nat) (hn : 1 ≤ n) :
    ∃ c, Extracted.rchunks l n = .ok c ∧ SliceIter.rchunks l n = some (RChunks.toIt c) := by
  have : n ≠ 0 := by omega
  simp [Extracted.rchunks, SliceIter.rchunks, this, RChunks.toIt, RChunks.toModel, some_if_nonempty_eq]

theorem rchunks_panic {T : Type} (l : List T) : Extracted.rchunks l 0 = .panic := by
  simp [Extracted.rchunks]

example : Extracted.rchunks [1, 2, 3] 2 = .ok ⟨some [1, 2, 3], 2⟩ := by
  rw [rchunks_res]; rfl

theorem RChunks.nextBlock_ne_panic {T : Type} (c : SliceIter.RChunks T) :
    SliceIter.RChunks.nextBlock c ≠ .panic := by
  rcases c with ⟨_ | s, n⟩ <;> simp [SliceIter.RChunks.nextBlock, SliceIter.splitAtL]

theorem RChunks.nextBackBlock_ne_panic {T : Type} (c : SliceIter.RChunks T) (hs : 1 ≤ c.chunkSize) :
    SliceIter.RChunks.nextBackBlock c ≠ .panic := by
  rcases c with ⟨_ | s, n⟩
  · simp [SliceIter.RChunks.nextBackBlock]
  · have hn : n ≠ 0 := by simp at hs; omega
    simp [SliceIter.RChunks.nextBackBlock, SliceIter.checkedRem, hn, SliceIter.splitAtL]

/-- `saturating_sub` never panics; no bound needed -/
theorem RChunks_next_res {T : Type} (c : Extracted.RChunks T) :
    Extracted.RChunks.next c
      = stepRes RChunks.ofIt
          (SliceIter.It.next SliceIter.RChunks.blocks (RChunks.toIt c)) := by
  unfold Extracted.RChunks.next
  unfold RChunks.toIt RChunks.toModel RChunks.ofIt RChunks.ofModel
  simp only [SliceIter.It.next, SliceIter.RChunks.blocks, SliceIter.RChunks.nextBlock]
  simp only [split_at_eq, some_if_nonempty_eq, Ctl.call_ok, SliceIter.splitAtL, splitAt,
    Rs.uSaturatingSub]
  rcases c with ⟨_ | s, n⟩ <;> simp [stepRes, SliceIter.Step.mapState]

theorem RChunks_next_eq {T : Type} (c : Extracted.RChunks T) :
    Extracted.RChunks.next c
      = .ok (stepOpt RChunks.ofIt
          (SliceIter.It.next SliceIter.RChunks.blocks (RChunks.toIt c)))
    ∧ SliceIter.It.next SliceIter.RChunks.blocks (RChunks.toIt c) ≠ .panic :=
  ok_of_res (RChunks_next_res c) (by
    simp only [SliceIter.It.next, RChunks.toIt, SliceIter.RChunks.blocks, mapState_ne_panic,
      ↓reduceIte]
    exact RChunks.nextBlock_ne_panic _)

example : Extracted.RChunks.next ⟨some [1, 2, 3], 2⟩ = .ok (some ([2, 3], ⟨some [1], 2⟩)) := by
  rw [RChunks_next_res]; rfl
example : Extracted.RChunks.next ⟨some [1], 2⟩ = .ok (some ([1], ⟨none, 2⟩)) := by
  rw [RChunks_next_res]; rfl

/-- code and model panic exactly for `chunk_size = 0` (`len % 0`) on a `Some` slice -/
theorem RChunks_next_back_res {T : Type} (c : Extracted.RChunks T) :
    Extracted.RChunks.next_back c
      = stepRes RChunks.ofIt
          (SliceIter.It.nextBack SliceIter.RChunks.blocks (RChunks.toIt c)) := by
  unfold Extracted.RChunks.next_back
  unfold RChunks.toIt RChunks.toModel RChunks.ofIt RChunks.ofModel
  simp only [SliceIter.It.nextBack, SliceIter.RChunks.blocks, SliceIter.RChunks.nextBackBlock]
  simp only [split_at_eq, some_if_nonempty_eq, Ctl.call_ok, SliceIter.splitAtL, splitAt]
  rcases c with ⟨_ | s, n⟩
  · simp [stepRes, SliceIter.Step.mapState]
  · by_cases hn : n = 0 <;>
      simp [hn, Rs.urem, SliceIter.checkedRem, stepRes, SliceIter.Step.mapState]

theorem RChunks_next_back_eq {T : Type} (c : Extracted.RChunks T)
    (hs : 1 ≤ c.chunk_size) :
    Extracted.RChunks.next_back c
      = .ok (stepOpt RChunks.ofIt
          (SliceIter.It.nextBack SliceIter.RChunks.blocks (RChunks.toIt c)))
    ∧ SliceIter.It.nextBack SliceIter.RChunks.blocks (RChunks.toIt c) ≠ .panic :=
  ok_of_res (RChunks_next_back_res c) (by
    simp only [SliceIter.It.nextBack, RChunks.toIt, SliceIter.RChunks.blocks, mapState_ne_panic,
      ↓reduceIte]
    exact RChunks.nextBackBlock_ne_panic _ hs)

example : Extracted.RChunks.next_back ⟨some [1, 2, 3], 2⟩ = .ok (some ([1], ⟨some [2, 3], 2⟩)) := by
  rw [RChunks_next_back_res]; rfl
example : Extracted.RChunks.next_back ⟨some [1, 2, 3, 4], 2⟩ = .ok (some ([1, 2], ⟨some [3, 4], 2⟩)) := by
  rw [RChunks_next_back_res]; rfl
example : Extracted.RChunks.next_back ⟨some [1, 2, 3], 0⟩ = .panic := by
  rw [RChunks_next_back_res]; rfl

/-- `RChunksRev::next` is the text of `RChunks::next_back` (model: `It.next` at `fwd = false`) -/
theorem RChunksRev_next_res {T : Type} (c : Extracted.RChunksRev T) :
    Extracted.RChunksRev.next c
      = stepRes RChunksRev.ofIt
          (SliceIter.It.next SliceIter.RChunks.blocks (RChunksRev.toIt c)) := by
  unfold Extracted.RChunksRev.next
  unfold RChunksRev.toIt RChunksRev.toModel RChunksRev.ofIt RChunksRev.ofModel
  simp only [SliceIter.It.next, SliceIter.RChunks.blocks, SliceIter.RChunks.nextBackBlock]
  simp only [split_at_eq, some_if_nonempty_eq, Ctl.call_ok, SliceIter.splitAtL, splitAt]
  rcases c with ⟨_ | s, n⟩
  · simp [stepRes, SliceIter.Step.mapState]
  · by_cases hn : n = 0 <;>
      simp [hn, Rs.urem, SliceIter.checkedRem, stepRes, SliceIter.Step.mapState]

theorem RChunksRev_next_eq {T : Type} (c : Extracted.RChunksRev T)
    (hs : 1 ≤ c.chunk_size) :
    Extracted.RChunksRev.next c
      = .ok (stepOpt RChunksRev.ofIt
          (SliceIter.It.next SliceIter.RChunks.blocks (RChunksRev.toIt c)))
    ∧ SliceIter.It.next SliceIter.RChunks.blocks (RChunksRev.toIt c) ≠ .panic :=
  ok_of_res (RChunksRev_next_res c) (by
    simp only [SliceIter.It.next, RChunksRev.toIt, SliceIter.RChunks.blocks, mapState_ne_panic,
      Bool.false_eq_true, ↓reduceIte]
    exact RChunks.nextBackBlock_ne_panic _ hs)

example : Extracted.RChunksRev.next ⟨some [1, 2, 3], 2⟩ = .ok (some ([1], ⟨some [2, 3], 2⟩)) := by
  rw [RChunksRev_next_res]; rfl

/-- `RChunksRev::next_back` is the text of `RChunks::next` -/
theorem RChunksRev_next_back_res {T : Type} (c : Extracted.RChunksRev T) :
    Extracted.RChunksRev.next_back c
      = stepRes RChunksRev.ofIt
          (SliceIter.It.nextBack SliceIter.RChunks.blocks (RChunksRev.toIt c)) := by
  unfold Extracted.RChunksRev.next_back
  unfold RChunksRev.toIt RChunksRev.toModel RChunksRev.ofIt RChunksRev.ofModel
  simp only [SliceIter.It.nextBack, SliceIter.RChunks.blocks, SliceIter.RChunks.nextBlock]
  simp only [split_at_eq, some_if_nonempty_eq, Ctl.call_ok, SliceIter.splitAtL, splitAt,
    Rs.uSaturatingSub]
  rcases c with ⟨_ | s, n⟩ <;> simp [stepRes, SliceIter.Step.mapState]

theorem RChunksRev_next_back_eq {T : Type} (c : Extracted.RChunksRev T) :
    Extracted.RChunksRev.next_back c
      = .ok (stepOpt RChunksRev.ofIt
          (SliceIter.It.nextBack SliceIter.RChunks.blocks (RChunksRev.toIt c)))
    ∧ SliceIter.It.nextBack SliceIter.RChunks.blocks (RChunksRev.toIt c) ≠ .panic :=
  ok_of_res (RChunksRev_next_back_res c) (by
    simp only [SliceIter.It.nextBack, RChunksRev.toIt, SliceIter.RChunks.blocks, mapState_ne_panic,
      Bool.false_eq_true, ↓reduceIte]
    exact RChunks.nextBlock_ne_panic _)

example : Extracted.RChunksRev.next_back ⟨some [1, 2, 3], 2⟩ = .ok (some ([2, 3], ⟨some [1], 2⟩)) := by
  rw [RChunksRev_next_back_res]; rfl

/-! ### `ChunksExact` / `ChunksExactRev` -/

def ChunksExact.toModel {T : Type} (c : Extracted.ChunksExact T) : SliceIter.ChunksExact T :=
  ⟨c.slice, c.rem, c.chunk_size⟩
def ChunksExact.ofModel {T : Type} (c : SliceIter.ChunksExact T) : Extracted.ChunksExact T :=
  ⟨c.slice, c.rem, c.chunkSize⟩
def ChunksExact.toIt {T : Type} (c : Extracted.ChunksExact T) :
    SliceIter.It (SliceIter.ChunksExact T) :=
  ⟨true, ChunksExact.toModel c⟩
def ChunksExact.ofIt {T : Type} (it : SliceIter.It (SliceIter.ChunksExact T)) :
    Extracted.ChunksExact T :=
  ChunksExact.ofModel it.fields

def ChunksExactRev.toModel {T : Type} (c : Extracted.ChunksExactRev T) : SliceIter.ChunksExact T :=
  ⟨c.slice, c.rem, c.chunk_size⟩
def ChunksExactRev.ofModel {T : Type} (c : SliceIter.ChunksExact T) : Extracted.ChunksExactRev T :=
  ⟨c.slice, c.rem, c.chunkSize⟩
def ChunksExactRev.toIt {T : Type} (c : Extracted.ChunksExactRev T) :
    SliceIter.It (SliceIter.ChunksExact T) :=
  ⟨false, ChunksExactRev.toModel c⟩
def ChunksExactRev.ofIt {T : Type} (it : SliceIter.It (SliceIter.ChunksExact T)) :
    Extracted.ChunksExactRev T :=
  ChunksExactRev.ofModel it.fields

/-- no machine bound needed (`len % n ≤ len`, so `len - len % n` cannot panic) -/
theorem chunks_exact_res {T : Type} (l : List T) (n : Nat) :
    Extracted.chunks_exact l n = optRes ((SliceIter.chunksExact l n).map ChunksExact.ofIt) := by
  unfold Extracted.chunks_exact SliceIter.chunksExact
  have hm : l.length % n ≤ l.length := Nat.mod_le _ _
  by_cases h : n = 0 <;>
    simp [h, optRes, ChunksExact.ofIt, ChunksExact.ofModel, Rs.urem, Rs.usub, hm,
      SliceIter.checkedRem, SliceIter.checkedSub,
      split_at_eq,
      SliceIter.splitAtL, splitAt]

theorem chunks_exact_eq {T : Type} (l : List T) (n : Nat) (hn : 1 ≤ n) :
    ∃ c, Extracted.chunks_exact l n = .ok c
      ∧ SliceIter.chunksExact l n = some (ChunksExact.toIt c) := by
  have h : n ≠ 0 := by omega
  have hm : l.length % n ≤ l.length := Nat.mod_le _ _
  simp [Extracted.chunks_exact, SliceIter.chunksExact, h, ChunksExact.toIt, ChunksExact.toModel,
    Rs.urem, Rs.usub, hm,
      SliceIter.checkedRem, SliceIter.checkedSub, split_at_eq,
    SliceIter.splitAtL, splitAt]

theorem chunks_exact_panic {T : Type} (l : List T) : Extracted.chunks_exact l 0 = .panic := by
  simp [Extracted.chunks_exact]

example : Extracted.chunks_exact [1, 2, 3, 4, 5] 2 = .ok ⟨[1, 2, 3, 4], [5], 2⟩ := by
  rw [chunks_exact_res]; rfl

theorem ChunksExact.nextBlock_ne_panic {T : Type} (c : SliceIter.ChunksExact T) :
    SliceIter.ChunksExact.nextBlock c ≠ .panic := by
  unfold SliceIter.ChunksExact.nextBlock; split <;> simp [SliceIter.splitAtL]

theorem ChunksExact.nextBackBlock_ne_panic {T : Type} (c : SliceIter.ChunksExact T)
    (hk : c.slice ≠ [] → c.chunkSize ≤ c.slice.length) :
    SliceIter.ChunksExact.nextBackBlock c ≠ .panic := by
  unfold SliceIter.ChunksExact.nextBackBlock
  by_cases h : c.slice = []
  · simp [h]
  · simp [h, SliceIter.checkedSub, hk h, SliceIter.splitAtL]

theorem ChunksExact_next_res {T : Type} (c : Extracted.ChunksExact T) :
    Extracted.ChunksExact.next c
      = stepRes ChunksExact.ofIt
          (SliceIter.It.next SliceIter.ChunksExact.blocks (ChunksExact.toIt c)) := by
  unfold Extracted.ChunksExact.next
  unfold ChunksExact.toIt ChunksExact.toModel ChunksExact.ofIt ChunksExact.ofModel
  simp only [SliceIter.It.next, SliceIter.ChunksExact.blocks, SliceIter.ChunksExact.nextBlock]
  simp only [split_at_eq, Ctl.call_ok, SliceIter.splitAtL, splitAt]
  by_cases h : c.slice = [] <;> simp [h, stepRes, SliceIter.Step.mapState]

theorem ChunksExact_next_eq {T : Type} (c : Extracted.ChunksExact T) :
    Extracted.ChunksExact.next c
      = .ok (stepOpt ChunksExact.ofIt
          (SliceIter.It.next SliceIter.ChunksExact.blocks (ChunksExact.toIt c)))
    ∧ SliceIter.It.next SliceIter.ChunksExact.blocks (ChunksExact.toIt c) ≠ .panic :=
  ok_of_res (ChunksExact_next_res c) (by
    simp only [SliceIter.It.next, ChunksExact.toIt, SliceIter.ChunksExact.blocks, mapState_ne_panic,
      ↓reduceIte]
    exact ChunksExact.nextBlock_ne_panic _)

example : Extracted.ChunksExact.next ⟨[1, 2, 3, 4], [5], 2⟩ = .ok (some ([1, 2], ⟨[3, 4], [5], 2⟩)) := by
  rw [ChunksExact_next_res]; rfl
example : Extracted.ChunksExact.next ⟨[], [5], 2⟩ = .ok none := by
  rw [ChunksExact_next_res]; rfl

/-- `len - chunk_size` panics (in code and model) exactly when the non-empty `slice` is shorter than
    `chunk_size`; the constructor's invariant `chunk_size ∣ slice.len()` excludes that -/
theorem ChunksExact_next_back_res {T : Type} (c : Extracted.ChunksExact T) :
    Extracted.ChunksExact.next_back c
      = stepRes ChunksExact.ofIt
          (SliceIter.It.nextBack SliceIter.ChunksExact.blocks (ChunksExact.toIt c)) := by
  unfold Extracted.ChunksExact.next_back
  unfold ChunksExact.toIt ChunksExact.toModel ChunksExact.ofIt ChunksExact.ofModel
  simp only [SliceIter.It.nextBack, SliceIter.ChunksExact.blocks, SliceIter.ChunksExact.nextBackBlock]
  simp only [split_at_eq, Ctl.call_ok, SliceIter.splitAtL, splitAt]
  by_cases h : c.slice = []
  · simp [h, stepRes, SliceIter.Step.mapState]
  · by_cases hk : c.chunk_size ≤ c.slice.length <;>
      simp [h, hk, Rs.usub, SliceIter.checkedSub, stepRes, SliceIter.Step.mapState]

theorem ChunksExact_next_back_eq {T : Type} (c : Extracted.ChunksExact T)
    (hk : c.slice ≠ [] → c.chunk_size ≤ c.slice.length) :
    Extracted.ChunksExact.next_back c
      = .ok (stepOpt ChunksExact.ofIt
          (SliceIter.It.nextBack SliceIter.ChunksExact.blocks (ChunksExact.toIt c)))
    ∧ SliceIter.It.nextBack SliceIter.ChunksExact.blocks (ChunksExact.toIt c) ≠ .panic :=
  ok_of_res (ChunksExact_next_back_res c) (by
    simp only [SliceIter.It.nextBack, ChunksExact.toIt, SliceIter.ChunksExact.blocks, mapState_ne_panic,
      ↓reduceIte]
    exact ChunksExact.nextBackBlock_ne_panic _ hk)

example : Extracted.ChunksExact.next_back ⟨[1, 2, 3, 4], [5], 2⟩ = .ok (some ([3, 4], ⟨[1, 2], [5], 2⟩)) := by
  rw [ChunksExact_next_back_res]; rfl
example : Extracted.ChunksExact.next_back ⟨[1], [5], 2⟩ = .panic := by
  rw [ChunksExact_next_back_res]; rfl

/-- `ChunksExactRev::next` is the text of `ChunksExact::next_back` -/
theorem ChunksExactRev_next_res {T : Type} (c : Extracted.ChunksExactRev T) :
    Extracted.ChunksExactRev.next c
      = stepRes ChunksExactRev.ofIt
          (SliceIter.It.next SliceIter.ChunksExact.blocks (ChunksExactRev.toIt c)) := by
  unfold Extracted.ChunksExactRev.next
  unfold ChunksExactRev.toIt ChunksExactRev.toModel ChunksExactRev.ofIt ChunksExactRev.ofModel
  simp only [SliceIter.It.next, SliceIter.ChunksExact.blocks, SliceIter.ChunksExact.nextBackBlock]
  simp only [split_at_eq, Ctl.call_ok, SliceIter.splitAtL, splitAt]
  by_cases h : c.slice = []
  · simp [h, stepRes, SliceIter.Step.mapState]
  · by_cases hk : c.chunk_size ≤ c.slice.length <;>
      simp [h, hk, Rs.usub, SliceIter.checkedSub, stepRes, SliceIter.Step.mapState]

theorem ChunksExactRev_next_eq {T : Type} (c : Extracted.ChunksExactRev T)
    (hk : c.slice ≠ [] → c.chunk_size ≤ c.slice.length) :
    Extracted.ChunksExactRev.next c
      = .ok (stepOpt ChunksExactRev.ofIt
          (SliceIter.It.next SliceIter.ChunksExact.blocks (ChunksExactRev.toIt c)))
    ∧ SliceIter.It.next SliceIter.ChunksExact.blocks (ChunksExactRev.toIt c) ≠ .panic :=
  ok_of_res (ChunksExactRev_next_res c) (by
    simp only [SliceIter.It.next, ChunksExactRev.toIt, SliceIter.ChunksExact.blocks, mapState_ne_panic,
      Bool.false_eq_true, ↓reduceIte]
    exact ChunksExact.nextBackBlock_ne_panic _ hk)

example : Extracted.ChunksExactRev.next ⟨[1, 2, 3, 4], [5], 2⟩ = .ok (some ([3, 4], ⟨[1, 2], [5], 2⟩)) := by
  rw [ChunksExactRev_next_res]; rfl

/-- `ChunksExactRev::next_back` is the text of `ChunksExact::next` -/
theorem ChunksExactRev_next_back_res {T : Type} (c : Extracted.ChunksExactRev T) :
    Extracted.ChunksExactRev.next_back c
      = stepRes ChunksExactRev.ofIt
          (SliceIter.It.nextBack SliceIter.ChunksExact.blocks (ChunksExactRev.toIt c)) := by
  unfold Extracted.ChunksExactRev.next_back
  unfold ChunksExactRev.toIt ChunksExactRev.toModel ChunksExactRev.ofIt ChunksExactRev.ofModel
  simp only [SliceIter.It.nextBack, SliceIter.ChunksExact.blocks, SliceIter.ChunksExact.nextBlock]
  simp only [split_at_eq, Ctl.call_ok, SliceIter.splitAtL, splitAt]
  by_cases h : c.slice = [] <;> simp [h, stepRes, SliceIter.Step.mapState]

theorem ChunksExactRev_next_back_eq {T : Type} (c : Extracted.ChunksExactRev T) :
    Extracted.ChunksExactRev.next_back c
      = .ok (stepOpt ChunksExactRev.ofIt
          (SliceIter.It.nextBack SliceIter.ChunksExact.blocks (ChunksExactRev.toIt c)))
    ∧ SliceIter.It.nextBack SliceIter.ChunksExact.blocks (ChunksExactRev.toIt c) ≠ .panic :=
  ok_of_res (ChunksExactRev_next_back_res c) (by
    simp only [SliceIter.It.nextBack, ChunksExactRev.toIt, SliceIter.ChunksExact.blocks, mapState_ne_panic,
      Bool.false_eq_true, ↓reduceIte]
    exact ChunksExact.nextBlock_ne_panic _)

example : Extracted.ChunksExactRev.next_back ⟨[1, 2, 3, 4], [5], 2⟩ = .ok (some ([1, 2], ⟨[3, 4], [5], 2⟩)) := by
  rw [ChunksExactRev_next_back_res]; rfl

theorem ChunksExact_remainder_eq {T : Type} (c : Extracted.ChunksExact T) :
    Extracted.ChunksExact.remainder c
      = .ok (SliceIter.ChunksExact.remainder (ChunksExact.toIt c)) := rfl

theorem ChunksExactRev_remainder_eq {T : Type} (c : Extracted.ChunksExactRev T) :
    Extracted.ChunksExactRev.remainder c
      = .ok (SliceIter.ChunksExact.remainder (ChunksExactRev.toIt c)) := rfl

/-! ### `RChunksExact` / `RChunksExactRev` -/

def RChunksExact.toModel {T : Type} (c : Extracted.RChunksExact T) : SliceIter.RChunksExact T :=
  ⟨c.slice, c.rem, c.chunk_size⟩
def RChunksExact.ofModel {T : Type} (c : SliceIter.RChunksExact T) : Extracted.RChunksExact T :=
  ⟨c.slice, c.rem, c.chunkSize⟩
def RChunksExact.toIt {T : Type} (c : Extracted.RChunksExact T) :
    SliceIter.It (SliceIter.RChunksExact T) :=
  ⟨true, RChunksExact.toModel c⟩
def RChunksExact.ofIt {T : Type} (it : SliceIter.It (SliceIter.RChunksExact T)) :
    Extracted.RChunksExact T :=
  RChunksExact.ofModel it.fields

def RChunksExactRev.toModel {T : Type} (c : Extracted.RChunksExactRev T) : SliceIter.RChunksExact T :=
  ⟨c.slice, c.rem, c.chunk_size⟩
def RChunksExactRev.ofModel {T : Type} (c : SliceIter.RChunksExact T) : Extracted.RChunksExactRev T :=
  ⟨c.slice, c.rem, c.chunkSize⟩
def RChunksExactRev.toIt {T : Type} (c : Extracted.RChunksExactRev T) :
    SliceIter.It (SliceIter.RChunksExact T) :=
  ⟨false, RChunksExactRev.toModel c⟩
def RChunksExactRev.ofIt {T : Type} (it : SliceIter.It (SliceIter.RChunksExact T)) :
    Extracted.RChunksExactRev T :=
  RChunksExactRev.ofModel it.fields

/-- no machine bound needed -/
theorem rchunks_exact_res {T : Type} (l : List T) (n : Nat) :
    Extracted.rchunks_exact l n = optRes ((SliceIter.rchunksExact l n).map RChunksExact.ofIt) := by
  unfold Extracted.rchunks_exact SliceIter.rchunksExact
  by_cases h : n = 0 <;>
    simp [h, optRes, RChunksExact.ofIt, RChunksExact.ofModel, Rs.urem, SliceIter.checkedRem,
      split_at_eq,
      SliceIter.splitAtL, splitAt]

theorem rchunks_exact_eq {T : Type} (l : List T) (n : Nat) (hn : 1 ≤ n) :
    ∃ c, Extracted.rchunks_exact l n = .ok c
      ∧ SliceIter.rchunksExact l n = some (RChunksExact.toIt c) := by
  have h : n ≠ 0 := by omega
  simp [Extracted.rchunks_exact, SliceIter.rchunksExact, h, RChunksExact.toIt, RChunksExact.toModel,
    Rs.urem, SliceIter.checkedRem, split_at_eq,
    SliceIter.splitAtL, splitAt]

theorem rchunks_exact_panic {T : Type} (l : List T) : Extracted.rchunks_exact l 0 = .panic := by
  simp [Extracted.rchunks_exact]

example : Extracted.rchunks_exact [1, 2, 3, 4, 5] 2 = .ok ⟨[2, 3, 4, 5], [1], 2⟩ := by
  rw [rchunks_exact_res]; rfl

theorem RChunksExact.nextBackBlock_ne_panic {T : Type} (c : SliceIter.RChunksExact T) :
    SliceIter.RChunksExact.nextBackBlock c ≠ .panic := by
  unfold SliceIter.RChunksExact.nextBackBlock; split <;> simp [SliceIter.splitAtL]

theorem RChunksExact.nextBlock_ne_panic {T : Type} (c : SliceIter.RChunksExact T)
    (hk : c.slice ≠ [] → c.chunkSize ≤ c.slice.length) :
    SliceIter.RChunksExact.nextBlock c ≠ .panic := by
  unfold SliceIter.RChunksExact.nextBlock
  by_cases h : c.slice = []
  · simp [h]
  · simp [h, SliceIter.checkedSub, hk h, SliceIter.splitAtL]

/-- `len - chunk_size` panics (in code and model) exactly when the non-empty `slice` is shorter than
    `chunk_size`; the constructor's invariant `chunk_size ∣ slice.len()` excludes that -/
theorem RChunksExact_next_res {T : Type} (c : Extracted.RChunksExact T) :
    Extracted.RChunksExact.next c
      = stepRes RChunksExact.ofIt
          (SliceIter.It.next SliceIter.RChunksExact.blocks (RChunksExact.toIt c)) := by
  unfold Extracted.RChunksExact.next
  unfold RChunksExact.toIt RChunksExact.toModel RChunksExact.ofIt RChunksExact.ofModel
  simp only [SliceIter.It.next, SliceIter.RChunksExact.blocks, SliceIter.RChunksExact.nextBlock]
  simp only [split_at_eq, Ctl.call_ok, SliceIter.splitAtL, splitAt]
  by_cases h : c.slice = []
  · simp [h, stepRes, SliceIter.Step.mapState]
  · by_cases hk : c.chunk_size ≤ c.slice.length <;>
      simp [h, hk, Rs.usub, SliceIter.checkedSub, stepRes, SliceIter.Step.mapState]

theorem RChunksExact_next_eq {T : Type} (c : Extracted.RChunksExact T)
    (hk : c.slice ≠ [] → c.chunk_size ≤ c.slice.length) :
    Extracted.RChunksExact.next c
      = .ok (stepOpt RChunksExact.ofIt
          (SliceIter.It.next SliceIter.RChunksExact.blocks (RChunksExact.toIt c)))
    ∧ SliceIter.It.next SliceIter.RChunksExact.blocks (RChunksExact.toIt c) ≠ .panic :=
  ok_of_res (RChunksExact_next_res c) (by
    simp only [SliceIter.It.next, RChunksExact.toIt, SliceIter.RChunksExact.blocks, mapState_ne_panic,
      ↓reduceIte]
    exact RChunksExact.nextBlock_ne_panic _ hk)

example : Extracted.RChunksExact.next ⟨[2, 3, 4, 5], [1], 2⟩ = .ok (some ([4, 5], ⟨[2, 3], [1], 2⟩)) := by
  rw [RChunksExact_next_res]; rfl

theorem RChunksExact_next_back_res {T : Type} (c : Extracted.RChunksExact T) :
    Extracted.RChunksExact.next_back c
      = stepRes RChunksExact.ofIt
          (SliceIter.It.nextBack SliceIter.RChunksExact.blocks (RChunksExact.toIt c)) := by
  unfold Extracted.RChunksExact.next_back
  unfold RChunksExact.toIt RChunksExact.toModel RChunksExact.ofIt RChunksExact.ofModel
  simp only [SliceIter.It.nextBack, SliceIter.RChunksExact.blocks, SliceIter.RChunksExact.nextBackBlock]
  simp only [split_at_eq, Ctl.call_ok, SliceIter.splitAtL, splitAt]
  by_cases h : c.slice = [] <;> simp [h, stepRes, SliceIter.Step.mapState]

theorem RChunksExact_next_back_eq {T : Type} (c : Extracted.RChunksExact T) :
    Extracted.RChunksExact.next_back c
      = .ok (stepOpt RChunksExact.ofIt
          (SliceIter.It.nextBack SliceIter.RChunksExact.blocks (RChunksExact.toIt c)))
    ∧ SliceIter.It.nextBack SliceIter.RChunksExact.blocks (RChunksExact.toIt c) ≠ .panic :=
  ok_of_res (RChunksExact_next_back_res c) (by
    simp only [SliceIter.It.nextBack, RChunksExact.toIt, SliceIter.RChunksExact.blocks, mapState_ne_panic,
      ↓reduceIte]
    exact RChunksExact.nextBackBlock_ne_panic _)

example : Extracted.RChunksExact.next_back ⟨[2, 3, 4, 5], [1], 2⟩ = .ok (some ([2, 3], ⟨[4, 5], [1], 2⟩)) := by
  rw [RChunksExact_next_back_res]; rfl

/-- `RChunksExactRev::next` is the text of `RChunksExact::next_back` -/
theorem RChunksExactRev_next_res {T : Type} (c : Extracted.RChunksExactRev T) :
    Extracted.RChunksExactRev.next c
      = stepRes RChunksExactRev.ofIt
          (SliceIter.It.next SliceIter.RChunksExact.blocks (RChunksExactRev.toIt c)) := by
  unfold Extracted.RChunksExactRev.next
  unfold RChunksExactRev.toIt RChunksExactRev.toModel RChunksExactRev.ofIt RChunksExactRev.ofModel
  simp only [SliceIter.It.next, SliceIter.RChunksExact.blocks, SliceIter.RChunksExact.nextBackBlock]
  simp only [split_at_eq, Ctl.call_ok, SliceIter.splitAtL, splitAt]
  by_cases h : c.slice = [] <;> simp [h, stepRes, SliceIter.Step.mapState]

theorem RChunksExactRev_next_eq {T : Type} (c : Extracted.RChunksExactRev T) :
    Extracted.RChunksExactRev.next c
      = .ok (stepOpt RChunksExactRev.ofIt
          (SliceIter.It.next SliceIter.RChunksExact.blocks (RChunksExactRev.toIt c)))
    ∧ SliceIter.It.next SliceIter.RChunksExact.blocks (RChunksExactRev.toIt c) ≠ .panic :=
  ok_of_res (RChunksExactRev_next_res c) (by
    simp only [SliceIter.It.next, RChunksExactRev.toIt, SliceIter.RChunksExact.blocks, mapState_ne_panic,
      Bool.false_eq_true, ↓reduceIte]
    exact RChunksExact.nextBackBlock_ne_panic _)

example : Extracted.RChunksExactRev.next ⟨[2, 3, 4, 5], [1], 2⟩ = .ok (some ([2, 3], ⟨[4, 5], [1], 2⟩)) := by
  rw [RChunksExactRev_next_res]; rfl

/-- `RChunksExactRev::next_back` is the text of `RChunksExact::next` -/
theorem RChunksExactRev_next_back_res {T : Type} (c : Extracted.RChunksExactRev T) :
    Extracted.RChunksExactRev.next_back c
      = stepRes RChunksExactRev.ofIt
          (SliceIter.It.nextBack SliceIter.RChunksExact.blocks (RChunksExactRev.toIt c)) := by
  unfold Extracted.RChunksExactRev.next_back
  unfold RChunksExactRev.toIt RChunksExactRev.toModel RChunksExactRev.ofIt RChunksExactRev.ofModel
  simp only [SliceIter.It.nextBack, SliceIter.RChunksExact.blocks, SliceIter.RChunksExact.nextBlock]
  simp only [split_at_eq, Ctl.call_ok, SliceIter.splitAtL, splitAt]
  by_cases h : c.slice = []
  · simp [h, stepRes, SliceIter.Step.mapState]
  · by_cases hk : c.chunk_size ≤ c.slice.length <;>
      simp [h, hk, Rs.usub, SliceIter.checkedSub, stepRes, SliceIter.Step.mapState]

theorem RChunksExactRev_next_back_eq {T : Type} (c : Extracted.RChunksExactRev T)
    (hk : c.slice ≠ [] → c.chunk_size ≤ c.slice.length) :
    Extracted.RChunksExactRev.next_back c
      = .ok (stepOpt RChunksExactRev.ofIt
          (SliceIter.It.nextBack SliceIter.RChunksExact.blocks (RChunksExactRev.toIt c)))
    ∧ SliceIter.It.nextBack SliceIter.RChunksExact.blocks (RChunksExactRev.toIt c) ≠ .panic :=
  ok_of_res (RChunksExactRev_next_back_res c) (by
    simp only [SliceIter.It.nextBack, RChunksExactRev.toIt, SliceIter.RChunksExact.blocks, mapState_ne_panic,
      Bool.false_eq_true, ↓reduceIte]
    exact RChunksExact.nextBlock_ne_panic _ hk)

example : Extracted.RChunksExactRev.next_back ⟨[2, 3, 4, 5], [1], 2⟩ = .ok (some ([4, 5], ⟨[2, 3], [1], 2⟩)) := by
  rw [RChunksExactRev_next_back_res]; rfl

theorem RChunksExact_remainder_eq {T : Type} (c : Extracted.RChunksExact T) :
    Extracted.RChunksExact.remainder c
      = .ok (SliceIter.RChunksExact.remainder (RChunksExact.toIt c)) := rfl

theorem RChunksExactRev_remainder_eq {T : Type} (c : Extracted.RChunksExactRev T) :
    Extracted.RChunksExactRev.remainder c
      = .ok (SliceIter.RChunksExact.remainder (RChunksExactRev.toIt c)) := rfl

/-! ### `ArrayChunks` / `ArrayChunksRev`  (the const parameter `N` is a type index of the generated
    structures; the model's state does not carry it) -/

def ArrayChunks.toModel {T : Type} {N : Nat} (c : Extracted.ArrayChunks T N) : SliceIter.ArrayChunks T :=
  ⟨c.arrays, c.rem⟩
def ArrayChunks.ofModel {T : Type} (N : Nat) (c : SliceIter.ArrayChunks T) : Extracted.ArrayChunks T N :=
  ⟨c.arrays, c.rem⟩
def ArrayChunks.toIt {T : Type} {N : Nat} (c : Extracted.ArrayChunks T N) :
    SliceIter.It (SliceIter.ArrayChunks T) :=
  ⟨true, ArrayChunks.toModel c⟩
def ArrayChunks.ofIt {T : Type} (N : Nat) (it : SliceIter.It (SliceIter.ArrayChunks T)) :
    Extracted.ArrayChunks T N :=
  ArrayChunks.ofModel N it.fields

def ArrayChunksRev.toModel {T : Type} {N : Nat} (c : Extracted.ArrayChunksRev T N) : SliceIter.ArrayChunks T :=
  ⟨c.arrays, c.rem⟩
def ArrayChunksRev.ofModel {T : Type} (N : Nat) (c : SliceIter.ArrayChunks T) : Extracted.ArrayChunksRev T N :=
  ⟨c.arrays, c.rem⟩
def ArrayChunksRev.toIt {T : Type} {N : Nat} (c : Extracted.ArrayChunksRev T N) :
    SliceIter.It (SliceIter.ArrayChunks T) :=
  ⟨false, ArrayChunksRev.toModel c⟩
def ArrayChunksRev.ofIt {T : Type} (N : Nat) (it : SliceIter.It (SliceIter.ArrayChunks T)) :
    Extracted.ArrayChunksRev T N :=
  ArrayChunksRev.ofModel N it.fields

/-- `l.length < 2^64` for the checked product `arrs_len * N` inside `as_chunks` -/
theorem array_chunks_res {T : Type} (N : Nat) (l : List T) (hb : l.length < 2 ^ 64) :
    Extracted.array_chunks N l = optRes ((SliceIter.arrayChunks l N).map (ArrayChunks.ofIt N)) := by
  unfold Extracted.array_chunks SliceIter.arrayChunks
  rw [as_chunks_res N l hb]
  cases h : asChunks l.length N with
  | none => simp [optRes]
  | some v =>
    obtain ⟨a, k, r⟩ := v
    simp [optRes, asChunksApply, ArrayChunks.ofIt, ArrayChunks.ofModel]

theorem array_chunks_eq {T : Type} (N : Nat) (l : List T) (hN : 1 ≤ N) (hb : l.length < 2 ^ 64) :
    ∃ c, Extracted.array_chunks N l = .ok c ∧ SliceIter.arrayChunks l N = some (ArrayChunks.toIt c) := by
  rw [array_chunks_res N l hb]
  have h : N ≠ 0 := by omega
  simp [SliceIter.arrayChunks, asChunks, h, optRes, ArrayChunks.ofIt, ArrayChunks.ofModel,
    ArrayChunks.toIt, ArrayChunks.toModel]

theorem array_chunks_panic {T : Type} (l : List T) : Extracted.array_chunks 0 l = .panic := by
  simp [Extracted.array_chunks, as_chunks_panic]

example : Extracted.array_chunks 2 [1, 2, 3, 4, 5] = .ok ⟨[[1, 2], [3, 4]], [5]⟩ := by
  rw [array_chunks_res _ _ (by decide)]; rfl

theorem ArrayChunks.nextBlock_ne_panic {T : Type} (c : SliceIter.ArrayChunks T) :
    SliceIter.ArrayChunks.nextBlock c ≠ .panic := by
  unfold SliceIter.ArrayChunks.nextBlock; split <;> simp

theorem ArrayChunks.nextBackBlock_ne_panic {T : Type} (c : SliceIter.ArrayChunks T) :
    SliceIter.ArrayChunks.nextBackBlock c ≠ .panic := by
  unfold SliceIter.ArrayChunks.nextBackBlock; split <;> simp

theorem ArrayChunks_next_res {T : Type} {N : Nat} (c : Extracted.ArrayChunks T N) :
    Extracted.ArrayChunks.next N c
      = stepRes (ArrayChunks.ofIt N)
          (SliceIter.It.next SliceIter.ArrayChunks.blocks (ArrayChunks.toIt c)) := by
  unfold Extracted.ArrayChunks.next
  unfold ArrayChunks.toIt ArrayChunks.toModel ArrayChunks.ofIt ArrayChunks.ofModel
  simp only [SliceIter.It.next, SliceIter.ArrayChunks.blocks, SliceIter.ArrayChunks.nextBlock]
  rcases c with ⟨_ | ⟨x, xs⟩, r⟩ <;> simp [stepRes, SliceIter.Step.mapState]

theorem ArrayChunks_next_eq {T : Type} {N : Nat} (c : Extracted.ArrayChunks T N) :
    Extracted.ArrayChunks.next N c
      = .ok (stepOpt (ArrayChunks.ofIt N)
          (SliceIter.It.next SliceIter.ArrayChunks.blocks (ArrayChunks.toIt c)))
    ∧ SliceIter.It.next SliceIter.ArrayChunks.blocks (ArrayChunks.toIt c) ≠ .panic :=
  ok_of_res (ArrayChunks_next_res c) (by
    simp only [SliceIter.It.next, ArrayChunks.toIt, SliceIter.ArrayChunks.blocks, mapState_ne_panic,
      ↓reduceIte]
    exact ArrayChunks.nextBlock_ne_panic _)

example : Extracted.ArrayChunks.next 2 ⟨[[1, 2], [3, 4]], [5]⟩ = .ok (some ([1, 2], ⟨[[3, 4]], [5]⟩)) := by
  rw [ArrayChunks_next_res]; rfl

/-- the generated `| _, _ => Ctl.panic` arm (non-empty slice without a last element) is unreachable -/
theorem ArrayChunks_next_back_res {T : Type} {N : Nat} (c : Extracted.ArrayChunks T N) :
    Extracted.ArrayChunks.next_back N c
      = stepRes (ArrayChunks.ofIt N)
          (SliceIter.It.nextBack SliceIter.ArrayChunks.blocks (ArrayChunks.toIt c)) := by
  unfold Extracted.ArrayChunks.next_back
  unfold ArrayChunks.toIt ArrayChunks.toModel ArrayChunks.ofIt ArrayChunks.ofModel
  simp only [SliceIter.It.nextBack, SliceIter.ArrayChunks.blocks, SliceIter.ArrayChunks.nextBackBlock]
  by_cases h : c.arrays = []
  · simp [h, Rs.unsnoc, stepRes, SliceIter.Step.mapState]
  · have hu : Rs.unsnoc c.arrays = some (c.arrays.dropLast, c.arrays.getLast h) := by
      simp [Rs.unsnoc, List.getLast?_eq_some_getLast h]
    simp [h, hu, stepRes, SliceIter.Step.mapState]

theorem ArrayChunks_next_back_eq {T : Type} {N : Nat} (c : Extracted.ArrayChunks T N) :
    Extracted.ArrayChunks.next_back N c
      = .ok (stepOpt (ArrayChunks.ofIt N)
          (SliceIter.It.nextBack SliceIter.ArrayChunks.blocks (ArrayChunks.toIt c)))
    ∧ SliceIter.It.nextBack SliceIter.ArrayChunks.blocks (ArrayChunks.toIt c) ≠ .panic :=
  ok_of_res (ArrayChunks_next_back_res c) (by
    simp only [SliceIter.It.nextBack, ArrayChunks.toIt, SliceIter.ArrayChunks.blocks, mapState_ne_panic,
      ↓reduceIte]
    exact ArrayChunks.nextBackBlock_ne_panic _)

example : Extracted.ArrayChunks.next_back 2 ⟨[[1, 2], [3, 4]], [5]⟩ = .ok (some ([3, 4], ⟨[[1, 2]], [5]⟩)) := by
  rw [ArrayChunks_next_back_res]; rfl

/-- `ArrayChunksRev::next` is the text of `ArrayChunks::next_back` -/
theorem ArrayChunksRev_next_res {T : Type} {N : Nat} (c : Extracted.ArrayChunksRev T N) :
    Extracted.ArrayChunksRev.next N c
      = stepRes (ArrayChunksRev.ofIt N)
          (SliceIter.It.next SliceIter.ArrayChunks.blocks (ArrayChunksRev.toIt c)) := by
  unfold Extracted.ArrayChunksRev.next
  unfold ArrayChunksRev.toIt ArrayChunksRev.toModel ArrayChunksRev.ofIt ArrayChunksRev.ofModel
  simp only [SliceIter.It.next, SliceIter.ArrayChunks.blocks, SliceIter.ArrayChunks.nextBackBlock]
  by_cases h : c.arrays = []
  · simp [h, Rs.unsnoc, stepRes, SliceIter.Step.mapState]
  · have hu : Rs.unsnoc c.arrays = some (c.arrays.dropLast, c.arrays.getLast h) := by
      simp [Rs.unsnoc, List.getLast?_eq_some_getLast h]
    simp [h, hu, stepRes, SliceIter.Step.mapState]

theorem ArrayChunksRev_next_eq {T : Type} {N : Nat} (c : Extracted.ArrayChunksRev T N) :
    Extracted.ArrayChunksRev.next N c
      = .ok (stepOpt (ArrayChunksRev.ofIt N)
          (SliceIter.It.next SliceIter.ArrayChunks.blocks (ArrayChunksRev.toIt c)))
    ∧ SliceIter.It.next SliceIter.ArrayChunks.blocks (ArrayChunksRev.toIt c) ≠ .panic :=
  ok_of_res (ArrayChunksRev_next_res c) (by
    simp only [SliceIter.It.next, ArrayChunksRev.toIt, SliceIter.ArrayChunks.blocks, mapState_ne_panic,
      Bool.false_eq_true, ↓reduceIte]
    exact ArrayChunks.nextBackBlock_ne_panic _)

example : Extracted.ArrayChunksRev.next 2 ⟨[[1, 2], [3, 4]], [5]⟩ = .ok (some ([3, 4], ⟨[[1, 2]], [5]⟩)) := by
  rw [ArrayChunksRev_next_res]; rfl

/-- `ArrayChunksRev::next_back` is the text of `ArrayChunks::next` -/
theorem ArrayChunksRev_next_back_res {T : Type} {N : Nat} (c : Extracted.ArrayChunksRev T N) :
    Extracted.ArrayChunksRev.next_back N c
      = stepRes (ArrayChunksRev.ofIt N)
          (SliceIter.It.nextBack SliceIter.ArrayChunks.blocks (ArrayChunksRev.toIt c)) := by
  unfold Extracted.ArrayChunksRev.next_back
  unfold ArrayChunksRev.toIt ArrayChunksRev.toModel ArrayChunksRev.ofIt ArrayChunksRev.ofModel
  simp only [SliceIter.It.nextBack, SliceIter.ArrayChunks.blocks, SliceIter.ArrayChunks.nextBlock]
  rcases c with ⟨_ | ⟨x, xs⟩, r⟩ <;> simp [stepRes, SliceIter.Step.mapState]

theorem ArrayChunksRev_next_back_eq {T : Type} {N : Nat} (c : Extracted.ArrayChunksRev T N) :
    Extracted.ArrayChunksRev.next_back N c
      = .ok (stepOpt (ArrayChunksRev.ofIt N)
          (SliceIter.It.nextBack SliceIter.ArrayChunks.blocks (ArrayChunksRev.toIt c)))
    ∧ SliceIter.It.nextBack SliceIter.ArrayChunks.blocks (ArrayChunksRev.toIt c) ≠ .panic :=
  ok_of_res (ArrayChunksRev_next_back_res c) (by
    simp only [SliceIter.It.nextBack, ArrayChunksRev.toIt, SliceIter.ArrayChunks.blocks, mapState_ne_panic,
      Bool.false_eq_true, ↓reduceIte]
    exact ArrayChunks.nextBlock_ne_panic _)

example : Extracted.ArrayChunksRev.next_back 2 ⟨[[1, 2], [3, 4]], [5]⟩ = .ok (some ([1, 2], ⟨[[3, 4]], [5]⟩)) := by
  rw [ArrayChunksRev_next_back_res]; rfl

/-- `remainder` exists only on `ArrayChunks` (not on `ArrayChunksRev`), in the source and in the model -/
theorem ArrayChunks_remainder_eq {T : Type} {N : Nat} (c : Extracted.ArrayChunks T N) :
    Extracted.ArrayChunks.remainder N c = .ok (SliceIter.ArrayChunks.remainder (ArrayChunks.toIt c)) := rfl

end Extracted.Equiv
