import KonstVerif.Extracted.Gen.StrFns
import KonstVerif.Extracted.Equiv.SliceFns
import KonstVerif.Extracted.Equiv.Bytes2
import KonstVerif.Extracted.Equiv.BytesTrim
import KonstVerif.Extracted.Equiv.Str
import KonstVerif.Model.StrFns
import KonstVerif.Model.Utf8
/-
  Extracted (regenerated from /repo) = Model, for the str-level functions of `konst::string`
  (group `StrFns`, 22 functions):

    * search (C04):     find, contains, rfind, rcontains, find_skip, find_keep, rfind_skip, rfind_keep
    * prefix/suffix/trim (C05): starts_with, ends_with, strip_prefix, strip_suffix, trim, trim_start,
                        trim_end, trim_matches, trim_start_matches, trim_end_matches
    * index based (C03): get_up_to, get_from, get_range, split_at

  A `&str` is its byte list; a pattern (`PatternNorm::new(pat).as_bytes()`) is its byte list.
  The pattern functions are related to `Konst.StrFns.*` (Model/StrFns.lean), whose `View` results are
  applied to the haystack.  The index-based functions are related to `Konst.Utf8.getUpTo/getFrom/getRange/
  splitAt` (Model/Utf8.lean, the definitions Props/C03.lean is about); `split_at` is additionally related to
  `Konst.StrFns.splitAt` (same function with an anonymous panic, used by the split_once model).

  Hypotheses: explicit fuel and the machine bounds of the byte-level callee theorems (Equiv/Bytes*.lean);
  `∀ b ∈ s, b < 256` where the code casts a byte `as i8` (char-boundary tests).
  `__from_u8_subslice_of_str` is the identity on the bytes (`from_u8_subslice_of_str_eq`).
-/
namespace Extracted.Equiv
open Rs Konst

/-! ### `starts_with`, `ends_with` -/

theorem str_starts_with_eq (fuel : Nat) (left pat : List Nat) (hf : pat.length + 1 ≤ fuel) :
    Extracted.str_starts_with fuel left pat = .ok (StrFns.startsWith left pat) := by
  unfold Extracted.str_starts_with StrFns.startsWith
  simp [bytes_start_with_eq fuel left pat hf]

example : Extracted.str_starts_with 3 [104, 105, 33] [104, 105] = .ok true := by
  rw [str_starts_with_eq 3 _ _ (by decide)]; decide

theorem str_ends_with_eq (fuel : Nat) (left pat : List Nat) (hf : pat.length + 1 ≤ fuel) :
    Extracted.str_ends_with fuel left pat = .ok (StrFns.endsWith left pat) := by
  unfold Extracted.str_ends_with StrFns.endsWith
  simp [bytes_end_with_eq fuel left pat hf]

example : Extracted.str_ends_with 3 [104, 105, 33] [104, 105] = .ok false := by
  rw [str_ends_with_eq 3 _ _ (by decide)]; decide

/-! ### `find`, `contains`, `rfind`, `rcontains` -/

theorem str_find_eq (fuel : Nat) (left pat : List Nat)
    (hb : left.length + pat.length + 1 < 2 ^ 64) (hf : left.length + pat.length + 2 ≤ fuel) :
    Extracted.str_find fuel left pat = .ok (StrFns.find left pat) := by
  unfold Extracted.str_find StrFns.find
  simp [bytes_find_eq fuel left pat hb hf]

example : Extracted.str_find 7 [97, 98, 99, 98] [98] = .ok (some 1) := by
  rw [str_find_eq 7 _ _ (by decide) (by decide)]; decide

theorem str_contains_eq (fuel : Nat) (left pat : List Nat)
    (hb : left.length + pat.length + 1 < 2 ^ 64) (hf : left.length + pat.length + 2 ≤ fuel) :
    Extracted.str_contains fuel left pat = .ok (StrFns.contains left pat) := by
  unfold Extracted.str_contains StrFns.contains
  simp only [bytes_find_eq fuel left pat hb hf, Ctl.call_ok, Ctl.bind_eq, Ctl.bind_val]
  cases Bytes.bytesFind left pat <;> simp

example : Extracted.str_contains 8 [97, 98, 99, 98] [99, 98] = .ok true := by
  rw [str_contains_eq 8 _ _ (by decide) (by decide)]; decide

theorem str_rfind_eq (fuel : Nat) (left pat : List Nat)
    (hb : left.length < 2 ^ 64) (hf : left.length + 1 ≤ fuel) :
    Extracted.str_rfind fuel left pat = .ok (StrFns.rfind left pat) := by
  unfold Extracted.str_rfind StrFns.rfind
  simp [bytes_rfind_eq fuel left pat hb hf]

example : Extracted.str_rfind 5 [97, 98, 99, 98] [98] = .ok (some 3) := by
  rw [str_rfind_eq 5 _ _ (by decide) (by decide)]; decide

theorem str_rcontains_eq (fuel : Nat) (left pat : List Nat)
    (hb : left.length < 2 ^ 64) (hf : left.length + 1 ≤ fuel) :
    Extracted.str_rcontains fuel left pat = .ok (StrFns.rcontains left pat) := by
  unfold Extracted.str_rcontains StrFns.rcontains
  simp only [bytes_rfind_eq fuel left pat hb hf, Ctl.call_ok, Ctl.bind_eq, Ctl.bind_val]
  cases Bytes.bytesRfind left pat <;> simp

example : Extracted.str_rcontains 5 [97, 98, 99, 98] [100] = .ok false := by
  rw [str_rcontains_eq 5 _ _ (by decide) (by decide)]; decide

/-! ### `get_up_to`, `get_from`, `get_range` (model: `Konst.Utf8`) -/

theorem str_get_up_to_eq (string : List Nat) (len : Nat) (hb : ∀ b ∈ string, b < 256) :
    Extracted.str_get_up_to string len
      = .ok (Option.map (fun v => v.apply string) (Utf8.getUpTo string len)) := by
  unfold Extracted.str_get_up_to Utf8.getUpTo
  simp only [get_up_to_eq, is_char_boundary_bytes_eq _ _ hb, from_u8_subslice_of_str_eq, Ctl.call_ok,
    Ctl.bind_eq, Ctl.bind_val, Ctl.pure_eq]
  cases Slice.getUpTo string.length len with
  | none => simp
  | some x => cases Utf8.isCharBoundaryBytes string len <;> simp

example : Extracted.str_get_up_to [0x41, 0xE2, 0x82, 0xAC] 1 = .ok (some [0x41]) := by
  rw [str_get_up_to_eq _ _ (by decide)]; decide
example : Extracted.str_get_up_to [0x41, 0xE2, 0x82, 0xAC] 2 = .ok none := by
  rw [str_get_up_to_eq _ _ (by decide)]; decide
example : Extracted.str_get_up_to [0x41, 0xE2, 0x82, 0xAC] 5 = .ok none := by
  rw [str_get_up_to_eq _ _ (by decide)]; decide

theorem str_get_from_eq (string : List Nat) (from_ : Nat) (hb : ∀ b ∈ string, b < 256) :
    Extracted.str_get_from string from_
      = .ok (Option.map (fun v => v.apply string) (Utf8.getFrom string from_)) := by
  unfold Extracted.str_get_from Utf8.getFrom
  simp only [get_from_eq, is_char_boundary_bytes_eq _ _ hb, from_u8_subslice_of_str_eq, Ctl.call_ok,
    Ctl.bind_eq, Ctl.bind_val, Ctl.pure_eq]
  cases Slice.getFrom string.length from_ with
  | none => simp
  | some x => cases Utf8.isCharBoundaryBytes string from_ <;> simp

example : Extracted.str_get_from [0x41, 0xE2, 0x82, 0xAC] 1 = .ok (some [0xE2, 0x82, 0xAC]) := by
  rw [str_get_from_eq _ _ (by decide)]; decide
example : Extracted.str_get_from [0x41, 0xE2, 0x82, 0xAC] 3 = .ok none := by
  rw [str_get_from_eq _ _ (by decide)]; decide
example : Extracted.str_get_from [0x41, 0xE2, 0x82, 0xAC] 4 = .ok (some []) := by
  rw [str_get_from_eq _ _ (by decide)]; decide

theorem str_get_range_eq (string : List Nat) (start end_ : Nat) (hb : ∀ b ∈ string, b < 256) :
    Extracted.str_get_range string start end_
      = .ok (Option.map (fun v => v.apply string) (Utf8.getRange string start end_)) := by
  unfold Extracted.str_get_range Utf8.getRange
  simp only [get_range_eq, is_char_boundary_bytes_eq _ _ hb, from_u8_subslice_of_str_eq, Ctl.call_ok,
    Ctl.bind_eq, Ctl.bind_val, Ctl.pure_eq]
  cases Slice.getRange string.length start end_ with
  | none => simp
  | some x =>
    cases Utf8.isCharBoundaryBytes string start <;> cases Utf8.isCharBoundaryBytes string end_ <;> simp

example : Extracted.str_get_range [0x41, 0xE2, 0x82, 0xAC, 0x42] 1 4 = .ok (some [0xE2, 0x82, 0xAC]) := by
  rw [str_get_range_eq _ _ _ (by decide)]; decide
example : Extracted.str_get_range [0x41, 0xE2, 0x82, 0xAC, 0x42] 1 3 = .ok none := by
  rw [str_get_range_eq _ _ _ (by decide)]; decide
example : Extracted.str_get_range [0x41, 0xE2, 0x82, 0xAC, 0x42] 4 1 = .ok none := by
  rw [str_get_range_eq _ _ _ (by decide)]; decide

/-! ### `split_at` (panics on a non-boundary `at`) -/

/-- the model's `Except Panic (View × View)` as the result of the extraction on the string `s`
    (pair version of `resOfExcept` of Equiv/Str.lean) -/
def resOfExceptPair (s : List Nat) : Except Utf8.Panic (View × View) → Res (List Nat × List Nat)
  | .ok (a, b) => .ok (a.apply s, b.apply s)
  | .error _ => .panic

@[simp] theorem resOfExceptPair_ok (s : List Nat) (a b : View) :
    resOfExceptPair s (.ok (a, b)) = .ok (a.apply s, b.apply s) := rfl
@[simp] theorem resOfExceptPair_error (s : List Nat) (e : Utf8.Panic) :
    resOfExceptPair s (.error e) = .panic := rfl

/-- `split_at`: both views on a boundary (or past the end: the forgiving test), the
    `non_char_boundary_panic` of `str_up_to` otherwise -/
theorem str_split_at_eq (string : List Nat) (at_ : Nat) (hb : ∀ b ∈ string, b < 256) :
    Extracted.str_split_at string at_ = resOfExceptPair string (Utf8.splitAt string at_) := by
  unfold Extracted.str_split_at Utf8.splitAt
  simp only [str_up_to_eq _ _ hb, str_from_eq _ _ hb]
  unfold Utf8.strUpTo Utf8.strFrom
  cases Utf8.isCharBoundaryForgiving string at_ <;> rfl

/-- the two branches of `str_split_at_eq` spelled out -/
theorem str_split_at_ok (string : List Nat) (at_ : Nat) (hb : ∀ b ∈ string, b < 256)
    (h : Utf8.isCharBoundaryForgiving string at_ = true) :
    Extracted.str_split_at string at_
      = .ok ((Slice.sliceUpTo string.length at_).apply string,
             (Slice.sliceFrom string.length at_).apply string) := by
  rw [str_split_at_eq _ _ hb]
  unfold Utf8.splitAt Utf8.strUpTo Utf8.strFrom
  rw [h]; rfl

theorem str_split_at_panic (string : List Nat) (at_ : Nat) (hb : ∀ b ∈ string, b < 256)
    (h : Utf8.isCharBoundaryForgiving string at_ = false) :
    Extracted.str_split_at string at_ = .panic := by
  rw [str_split_at_eq _ _ hb]
  unfold Utf8.splitAt Utf8.strUpTo
  rw [h]; rfl

example : Extracted.str_split_at [0x41, 0xE2, 0x82, 0xAC] 1 = .ok ([0x41], [0xE2, 0x82, 0xAC]) := by decide
example : Extracted.str_split_at [0x41, 0xE2, 0x82, 0xAC] 2 = .panic := by decide
example : Extracted.str_split_at [0x41, 0xE2, 0x82, 0xAC] 9 = .ok ([0x41, 0xE2, 0x82, 0xAC], []) := by decide
example : Extracted.str_split_at [0x41, 0xE2, 0x82, 0xAC] 2
    = resOfExceptPair [0x41, 0xE2, 0x82, 0xAC] (Utf8.splitAt [0x41, 0xE2, 0x82, 0xAC] 2) :=
  str_split_at_eq _ _ (by decide)

/-- `Konst.StrFns` re-declares the forgiving test (through `bytes[position]?`); it is the `Konst.Utf8` one -/
theorem strFns_isCharBoundaryForgiving_eq (bytes : List Nat) (position : Nat) :
    StrFns.isCharBoundaryForgiving bytes position = Utf8.isCharBoundaryForgiving bytes position := by
  unfold StrFns.isCharBoundaryForgiving Utf8.isCharBoundaryForgiving
  by_cases h : position < bytes.length
  · have hget : bytes[position]? = some bytes[position] := List.getElem?_eq_getElem h
    have h' : ¬ position ≥ bytes.length := by omega
    simp only [hget, List.getD, Option.getD_some, h', decide_false, Bool.false_or]
    rfl
  · have h' : position ≥ bytes.length := by omega
    simp [h']

/-- the `Konst.StrFns` model's `Except Unit (View × View)` (anonymous panic) as a result on `s` -/
def resOfExceptUnitPair (s : List Nat) : Except Unit (View × View) → Res (List Nat × List Nat)
  | .ok (a, b) => .ok (a.apply s, b.apply s)
  | .error _ => .panic

/-- `split_at` against the `Konst.StrFns.splitAt` model (the one `splitOnce`/`rsplitOnce` use) -/
theorem str_split_at_eq_strfns (string : List Nat) (at_ : Nat) (hb : ∀ b ∈ string, b < 256) :
    Extracted.str_split_at string at_ = resOfExceptUnitPair string (StrFns.splitAt string at_) := by
  rw [str_split_at_eq _ _ hb]
  unfold Utf8.splitAt Utf8.strUpTo Utf8.strFrom StrFns.splitAt StrFns.strUpTo StrFns.strFrom
  rw [strFns_isCharBoundaryForgiving_eq]
  cases Utf8.isCharBoundaryForgiving string at_ <;> rfl

example : Extracted.str_split_at [0x41, 0xE2, 0x82, 0xAC] 3
    = resOfExceptUnitPair [0x41, 0xE2, 0x82, 0xAC] (StrFns.splitAt [0x41, 0xE2, 0x82, 0xAC] 3) :=
  str_split_at_eq_strfns _ _ (by decide)

/-! ### `strip_prefix`, `strip_suffix` -/

/-- `__bytes_strip_prefix` hands back a suffix of its argument -/
theorem stripPrefixL_suffix {left pre r : List Nat} (h : Bytes.stripPrefixL left pre = some r) :
    r <:+ left := by
  rw [Lemmas.Bytes.stripPrefixL_eq] at h
  unfold Spec.Bytes.stripPrefixSpec at h
  by_cases hp : pre.isPrefixOf left = true
  · simp only [hp, ↓reduceIte, Option.some.injEq] at h
    subst h
    exact List.drop_suffix _ _
  · simp [hp] at h

/-- `__bytes_strip_suffix` hands back a prefix of its argument -/
theorem stripSuffixL_prefix {left suf r : List Nat} (h : Bytes.stripSuffixL left suf = some r) :
    r <+: left := by
  rw [Lemmas.Bytes.stripSuffixL_eq] at h
  unfold Spec.Bytes.stripSuffixSpec at h
  by_cases hp : suf.isSuffixOf left = true
  · simp only [hp, ↓reduceIte, Option.some.injEq] at h
    subst h
    exact List.take_prefix _ _
  · simp [hp] at h

theorem str_strip_prefix_eq (fuel : Nat) (string pattern : List Nat) (hf : pattern.length + 1 ≤ fuel) :
    Extracted.str_strip_prefix fuel string pattern
      = .ok (Option.map (fun v => v.apply string) (StrFns.stripPrefix string pattern)) := by
  unfold Extracted.str_strip_prefix StrFns.stripPrefix Bytes.stripPrefix
  simp only [bytes_strip_prefix_eq fuel string pattern hf, from_u8_subslice_of_str_eq, Ctl.call_ok,
    Ctl.bind_eq, Ctl.bind_val, Ctl.pure_eq]
  cases hr : Bytes.stripPrefixL string pattern with
  | none => simp
  | some r => simp [Lemmas.Bytes.suffixView_apply (stripPrefixL_suffix hr)]

example : Extracted.str_strip_prefix 3 [104, 105, 33] [104, 105] = .ok (some [33]) := by
  rw [str_strip_prefix_eq 3 _ _ (by decide)]; decide
example : Extracted.str_strip_prefix 3 [104, 105, 33] [105] = .ok none := by
  rw [str_strip_prefix_eq 3 _ _ (by decide)]; decide

theorem str_strip_suffix_eq (fuel : Nat) (string pattern : List Nat) (hf : pattern.length + 1 ≤ fuel) :
    Extracted.str_strip_suffix fuel string pattern
      = .ok (Option.map (fun v => v.apply string) (StrFns.stripSuffix string pattern)) := by
  unfold Extracted.str_strip_suffix StrFns.stripSuffix Bytes.stripSuffix
  simp only [bytes_strip_suffix_eq fuel string pattern hf, from_u8_subslice_of_str_eq, Ctl.call_ok,
    Ctl.bind_eq, Ctl.bind_val, Ctl.pure_eq]
  cases hr : Bytes.stripSuffixL string pattern with
  | none => simp
  | some r => simp [Lemmas.Bytes.prefixView_apply (stripSuffixL_prefix hr)]

example : Extracted.str_strip_suffix 3 [104, 105, 33] [105, 33] = .ok (some [104]) := by
  rw [str_strip_suffix_eq 3 _ _ (by decide)]; decide
example : Extracted.str_strip_suffix 3 [104, 105, 33] [105] = .ok none := by
  rw [str_strip_suffix_eq 3 _ _ (by decide)]; decide

/-! ### `trim`, `trim_start`, `trim_end` -/

theorem str_trim_eq (fuel : Nat) (this : List Nat) (hf : this.length + 1 ≤ fuel) :
    Extracted.str_trim fuel this = .ok ((StrFns.trim this).apply this) := by
  unfold Extracted.str_trim StrFns.trim
  simp [bytes_trim_eq fuel this hf, from_u8_subslice_of_str_eq]

example : Extracted.str_trim 6 [32, 12, 120, 9, 13] = .ok [120] := by
  rw [str_trim_eq 6 _ (by decide)]; decide

theorem str_trim_start_eq (fuel : Nat) (this : List Nat) (hf : this.length + 1 ≤ fuel) :
    Extracted.str_trim_start fuel this = .ok ((StrFns.trimStart this).apply this) := by
  unfold Extracted.str_trim_start StrFns.trimStart Bytes.bytesTrimStart
  simp [bytes_trim_start_eq fuel this hf, from_u8_subslice_of_str_eq,
    Lemmas.Bytes.suffixView_apply (bytesTrimStartL_suffix this)]

example : Extracted.str_trim_start 6 [32, 12, 120, 9, 13] = .ok [120, 9, 13] := by
  rw [str_trim_start_eq 6 _ (by decide)]; decide

theorem str_trim_end_eq (fuel : Nat) (this : List Nat) (hf : this.length + 1 ≤ fuel) :
    Extracted.str_trim_end fuel this = .ok ((StrFns.trimEnd this).apply this) := by
  unfold Extracted.str_trim_end StrFns.trimEnd Bytes.bytesTrimEnd
  simp [bytes_trim_end_eq fuel this hf, from_u8_subslice_of_str_eq,
    Lemmas.Bytes.prefixView_apply (bytesTrimEndL_prefix this)]

example : Extracted.str_trim_end 6 [32, 12, 120, 9, 13] = .ok [32, 12, 120] := by
  rw [str_trim_end_eq 6 _ (by decide)]; decide

/-! ### `trim_matches`, `trim_start_matches`, `trim_end_matches` -/

theorem str_trim_matches_eq (fuel : Nat) (this needle : List Nat)
    (hf : this.length + needle.length + 1 ≤ fuel) :
    Extracted.str_trim_matches fuel this needle = .ok ((StrFns.trimMatches this needle).apply this) := by
  unfold Extracted.str_trim_matches StrFns.trimMatches
  simp [bytes_trim_matches_eq fuel this needle hf, from_u8_subslice_of_str_eq]

example : Extracted.str_trim_matches 9 [1, 1, 1, 5, 1, 1] [1, 1] = .ok [1, 5] := by
  rw [str_trim_matches_eq 9 _ _ (by decide)]; decide

theorem str_trim_start_matches_eq (fuel : Nat) (this needle : List Nat)
    (hf : this.length + needle.length + 1 ≤ fuel) :
    Extracted.str_trim_start_matches fuel this needle
      = .ok ((StrFns.trimStartMatches this needle).apply this) := by
  unfold Extracted.str_trim_start_matches StrFns.trimStartMatches Bytes.trimStartMatches
  simp [bytes_trim_start_matches_eq fuel this needle hf, from_u8_subslice_of_str_eq,
    Lemmas.Bytes.suffixView_apply (trimStartMatchesL_suffix this needle)]

example : Extracted.str_trim_start_matches 9 [1, 2, 1, 2, 1, 3] [1, 2] = .ok [1, 3] := by
  rw [str_trim_start_matches_eq 9 _ _ (by decide)]; decide

theorem str_trim_end_matches_eq (fuel : Nat) (this needle : List Nat)
    (hf : this.length + needle.length + 1 ≤ fuel) :
    Extracted.str_trim_end_matches fuel this needle
      = .ok ((StrFns.trimEndMatches this needle).apply this) := by
  unfold Extracted.str_trim_end_matches StrFns.trimEndMatches Bytes.trimEndMatches
  simp [bytes_trim_end_matches_eq fuel this needle hf, from_u8_subslice_of_str_eq,
    Lemmas.Bytes.prefixView_apply (trimEndMatchesL_prefix this needle)]

example : Extracted.str_trim_end_matches 9 [3, 1, 1, 2, 1, 2] [1, 2] = .ok [3, 1] := by
  rw [str_trim_end_matches_eq 9 _ _ (by decide)]; decide

/-! ### `find_skip`, `find_keep`, `rfind_skip`, `rfind_keep` -/

theorem str_find_skip_eq (fuel : Nat) (this needle : List Nat)
    (hb : this.length + needle.length + 1 < 2 ^ 64) (hf : this.length + needle.length + 2 ≤ fuel) :
    Extracted.str_find_skip fuel this needle
      = .ok (Option.map (fun v => v.apply this) (StrFns.findSkip this needle)) := by
  unfold Extracted.str_find_skip StrFns.findSkip
  simp only [bytes_find_skip_eq fuel this needle hb hf, from_u8_subslice_of_str_eq, Ctl.call_ok,
    Ctl.bind_eq, Ctl.bind_val, Ctl.pure_eq]
  cases Bytes.findSkip this needle <;> simp

example : Extracted.str_find_skip 8 [1, 2, 3, 4] [2, 3] = .ok (some [4]) := by
  rw [str_find_skip_eq 8 _ _ (by decide) (by decide)]; decide

theorem str_find_keep_eq (fuel : Nat) (this needle : List Nat)
    (hb : this.length + needle.length + 1 < 2 ^ 64) (hf : this.length + needle.length + 2 ≤ fuel) :
    Extracted.str_find_keep fuel this needle
      = .ok (Option.map (fun v => v.apply this) (StrFns.findKeep this needle)) := by
  unfold Extracted.str_find_keep StrFns.findKeep
  simp only [bytes_find_keep_eq fuel this needle hb hf, from_u8_subslice_of_str_eq, Ctl.call_ok,
    Ctl.bind_eq, Ctl.bind_val, Ctl.pure_eq]
  cases Bytes.findKeep this needle <;> simp

example : Extracted.str_find_keep 8 [1, 2, 3, 4] [2, 3] = .ok (some [2, 3, 4]) := by
  rw [str_find_keep_eq 8 _ _ (by decide) (by decide)]; decide

theorem str_rfind_skip_eq (fuel : Nat) (this needle : List Nat)
    (hb : this.length < 2 ^ 64) (hf : this.length + 1 ≤ fuel) :
    Extracted.str_rfind_skip fuel this needle
      = .ok (Option.map (fun v => v.apply this) (StrFns.rfindSkip this needle)) := by
  unfold Extracted.str_rfind_skip StrFns.rfindSkip
  simp only [bytes_rfind_skip_eq fuel this needle hb hf, from_u8_subslice_of_str_eq, Ctl.call_ok,
    Ctl.bind_eq, Ctl.bind_val, Ctl.pure_eq]
  cases Bytes.rfindSkip this needle <;> simp

example : Extracted.str_rfind_skip 6 [1, 2, 3, 2, 3] [2, 3] = .ok (some [1, 2, 3]) := by
  rw [str_rfind_skip_eq 6 _ _ (by decide) (by decide)]; decide

theorem str_rfind_keep_eq (fuel : Nat) (this needle : List Nat)
    (hb : this.length < 2 ^ 64) (hf : this.length + 1 ≤ fuel) :
    Extracted.str_rfind_keep fuel this needle
      = .ok (Option.map (fun v => v.apply this) (StrFns.rfindKeep this needle)) := by
  unfold Extracted.str_rfind_keep StrFns.rfindKeep
  simp only [bytes_rfind_keep_eq fuel this needle hb hf, from_u8_subslice_of_str_eq, Ctl.call_ok,
    Ctl.bind_eq, Ctl.bind_val, Ctl.pure_eq]
  cases Bytes.rfindKeep this needle <;> simp

example : Extracted.str_rfind_keep 7 [1, 2, 3, 2, 3, 4] [2, 3] = .ok (some [1, 2, 3, 2, 3]) := by
  rw [str_rfind_keep_eq 7 _ _ (by decide) (by decide)]; decide

end Extracted.Equiv
