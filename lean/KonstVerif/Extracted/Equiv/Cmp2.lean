import KonstVerif.Extracted.Gen.Cmp2
import KonstVerif.Extracted.Equiv.Cmp
import KonstVerif.Model.Cmp
import KonstVerif.Spec.Cmp
/-
  Extracted (regenerated from /repo) = Model, and = std, for the scalar and `Option` comparison
  functions of group `Cmp2` (C16): `cmp_u8 … cmp_char`, `eq_option_* / cmp_option_*` for `u8`, `i8`,
  `bool`, `char`, and `eq_option_bytes` / `cmp_option_bytes`.

  Shape of the model (`Model/Cmp.lean`): every scalar (`uN`, `iN`, `bool` with `false = 0`,
  `true = 1`, `char` = its scalar value) is a mathematical integer, `cmp_int!` is `cmpInt`,
  `CmpWrapper::const_eq` is `eqPrim`, and the `Option` functions are `eqOption eq` / `cmpOption cmp`
  over a payload comparison that may panic (`Option` as result type = "value or panic").  The
  extraction keeps `u8`/`u64`/`usize`/`char` as `Nat`, `i8`/`i128` as `Int` and `bool` as `Bool`;
  they are handed to the model through the value- and order-preserving embeddings `Int.ofNat`, `id`
  and `boolInt`.

  Two theorems per function:
    `<f>_eq`   regenerated definition = model definition (all functions here are total: no panic,
               no fuel for the scalar ones; `∃ v, model = some v ∧ extracted = .ok v` where the model
               has a panic channel)
    `<f>_std`  regenerated definition = the std meaning directly (`Spec/Cmp.lean`): `compare` on
               `Nat`/`Int`/`Bool` (`false < true`), `optCmp compare` (`None < Some`), `stdEq` (`==`).
  `eq_option_bytes` / `cmp_option_bytes` call the loops of `eq_bytes` / `cmp_bytes`; they reuse
  `eq_bytes_eq` / `cmp_bytes_eq` with the same bound and fuel hypotheses, asked only for the
  `(Some(l), Some(r))` arm (no `_std` variant: that is `Props/C16.lean` (`eqSlice_iff`,
  `cmpSlice_eq_lex`, `cmpOption_eq_std`) composed with the `_eq` theorem, not a one-liner here).
-/
namespace Extracted.Equiv
open Rs Konst Konst.Cmp Konst.Spec.Cmp

/-! ### the embeddings into the model's `Int` -/

/-- `bool` as the model's integer: `false = 0`, `true = 1` (`b as u8`) -/
def boolInt (b : Bool) : Int := Int.ofNat (boolAsU8 b)

theorem ofNat_lt (a b : Nat) : Int.ofNat a < Int.ofNat b ↔ a < b := Int.ofNat_lt
theorem id_lt (a b : Int) : id a < id b ↔ a < b := Iff.rfl
theorem boolInt_inj (a b : Bool) : boolInt a = boolInt b ↔ a = b := by
  cases a <;> cases b <;> decide
theorem boolInt_lt (a b : Bool) : boolInt a < boolInt b ↔ a < b := by
  cases a <;> cases b <;> decide

/-! ### std's `Ord::cmp` on the carrier types, as the `if == / if <` cascade -/

theorem compare_nat (l r : Nat) :
    compare l r = if l = r then Ordering.eq else if l < r then Ordering.lt else Ordering.gt := by
  by_cases h : l = r
  · simp [h]
  · by_cases hlt : l < r
    · simp [h, hlt, Nat.compare_eq_lt.2 hlt]
    · have hgt : r < l := by omega
      simp [h, hlt, Nat.compare_eq_gt.2 hgt]

theorem compare_int (l r : Int) :
    compare l r = if l = r then Ordering.eq else if l < r then Ordering.lt else Ordering.gt := by
  by_cases h : l = r
  · simp [h]
  · by_cases hlt : l < r
    · simp [h, hlt, Int.compare_eq_lt.2 hlt]
    · have hgt : r < l := by omega
      simp [h, hlt, Int.compare_eq_gt.2 hgt]

theorem compare_bool (l r : Bool) :
    compare l r = if l = r then Ordering.eq else if l < r then Ordering.lt else Ordering.gt := by
  cases l <;> cases r <;> decide

/-- the model's `cmp_int!` is std's `Ord::cmp` (`Props/C16.lean` `cmpInt_eq_std`, restated here so
    that this file does not depend on `Props/`) -/
theorem cmpInt_compare (l r : Int) : cmpInt l r = compare l r := by
  rw [compare_int]; rfl

/-! ### the function bodies, once for every carrier type

  The seven `cmp_*` are the same text, as are the four `eq_option_*` and the four `cmp_option_*`;
  `cmpScalarFn` / `eqOptionFn` / `cmpOptionFn` are that text over an arbitrary carrier type and each
  generated definition is an instance (`*_fn`: by `rfl` for the scalar functions; the `match` of
  every `Option` function is its own auxiliary matcher, so those are `rfl` after `cases` on the two
  arguments). -/

def cmpScalarFn {α : Type} [DecidableEq α] [LT α] [DecidableLT α] (left right : α) : Res Ordering :=
  Ctl.run (ρ := Ordering) do
  let t1_ ← (if (decide (left = right)) then do
        pure Ordering.eq
      else do
        (if (decide (left < right)) then do
            pure Ordering.lt
          else do
            pure Ordering.gt))
  pure t1_

def eqOptionFn {α : Type} [DecidableEq α] (left right : Option α) : Res Bool := Ctl.run (ρ := Bool) do
  let t1_ ← (match left, right with
      | (some l), (some r) => do
          pure (decide (l = r))
      | none, none => do
          pure true
      | _, _ => do
          pure false)
  pure t1_

def cmpOptionFn {α : Type} [DecidableEq α] [LT α] [DecidableLT α] (left right : Option α) : Res Ordering :=
  Ctl.run (ρ := Ordering) do
  let t2_ ← (match left, right with
      | (some l), (some r) => do
          let t1_ ← (if (decide (l = r)) then do
                pure Ordering.eq
              else do
                (if (decide (l < r)) then do
                    pure Ordering.lt
                  else do
                    pure Ordering.gt))
          pure t1_
      | (some _), none => do
          pure Ordering.gt
      | none, (some _) => do
          pure Ordering.lt
      | none, none => do
          pure Ordering.eq)
  pure t2_

theorem cmp_u8_fn : Extracted.cmp_u8 = cmpScalarFn (α := Nat) := rfl
theorem cmp_i8_fn : Extracted.cmp_i8 = cmpScalarFn (α := Int) := rfl
theorem cmp_u64_fn : Extracted.cmp_u64 = cmpScalarFn (α := Nat) := rfl
theorem cmp_i128_fn : Extracted.cmp_i128 = cmpScalarFn (α := Int) := rfl
theorem cmp_usize_fn : Extracted.cmp_usize = cmpScalarFn (α := Nat) := rfl
theorem cmp_bool_fn : Extracted.cmp_bool = cmpScalarFn (α := Bool) := rfl
theorem cmp_char_fn : Extracted.cmp_char = cmpScalarFn (α := Nat) := rfl
theorem eq_option_u8_fn : Extracted.eq_option_u8 = eqOptionFn (α := Nat) := by
  funext l r; cases l <;> cases r <;> rfl
theorem eq_option_i8_fn : Extracted.eq_option_i8 = eqOptionFn (α := Int) := by
  funext l r; cases l <;> cases r <;> rfl
theorem eq_option_bool_fn : Extracted.eq_option_bool = eqOptionFn (α := Bool) := by
  funext l r; cases l <;> cases r <;> rfl
theorem eq_option_char_fn : Extracted.eq_option_char = eqOptionFn (α := Nat) := by
  funext l r; cases l <;> cases r <;> rfl
theorem cmp_option_u8_fn : Extracted.cmp_option_u8 = cmpOptionFn (α := Nat) := by
  funext l r; cases l <;> cases r <;> rfl
theorem cmp_option_i8_fn : Extracted.cmp_option_i8 = cmpOptionFn (α := Int) := by
  funext l r; cases l <;> cases r <;> rfl
theorem cmp_option_bool_fn : Extracted.cmp_option_bool = cmpOptionFn (α := Bool) := by
  funext l r; cases l <;> cases r <;> rfl
theorem cmp_option_char_fn : Extracted.cmp_option_char = cmpOptionFn (α := Nat) := by
  funext l r; cases l <;> cases r <;> rfl

/-- the cascade `if l == r {Equal} else if l < r {Less} else {Greater}` as a value -/
theorem cmpScalarFn_val {α : Type} [DecidableEq α] [LT α] [DecidableLT α] (l r : α) :
    cmpScalarFn l r = .ok (if l = r then Ordering.eq else if l < r then Ordering.lt else Ordering.gt) := by
  unfold cmpScalarFn
  by_cases h : l = r
  · simp [h]
  · by_cases hlt : l < r <;> simp [h, hlt]

/-- `cmp_*` = the model's `cmp_int!`; `f` embeds the carrier type into the model's `Int` -/
theorem cmpScalarFn_eq {α : Type} [DecidableEq α] [LT α] [DecidableLT α] (f : α → Int)
    (hinj : ∀ a b, f a = f b ↔ a = b) (hlt : ∀ a b, f a < f b ↔ a < b) (l r : α) :
    cmpScalarFn l r = .ok (cmpInt (f l) (f r)) := by
  rw [cmpScalarFn_val]
  simp only [cmpInt, hinj, hlt]

/-- `eq_option_*` = the model's `eqOption` over `const_eq` (`eqPrim`, which never panics) -/
theorem eqOptionFn_eq {α : Type} [DecidableEq α] (f : α → Int) (hinj : ∀ a b, f a = f b ↔ a = b)
    (left right : Option α) :
    ∃ b, eqOption (fun a b => some (eqPrim a b)) (left.map f) (right.map f) = some b ∧
      eqOptionFn left right = .ok b := by
  unfold eqOptionFn
  cases left <;> cases right <;> simp [eqOption, eqPrim, hinj]

/-- `eq_option_*` = `==` on `Option` -/
theorem eqOptionFn_std {α : Type} [DecidableEq α] (left right : Option α) :
    eqOptionFn left right = .ok (stdEq left right) := by
  unfold eqOptionFn stdEq
  cases left <;> cases right <;> simp

/-- `cmp_option_*` = the model's `cmpOption` over `cmp_int!` (`cmpInt`, which never panics) -/
theorem cmpOptionFn_eq {α : Type} [DecidableEq α] [LT α] [DecidableLT α] (f : α → Int)
    (hinj : ∀ a b, f a = f b ↔ a = b) (hlt : ∀ a b, f a < f b ↔ a < b) (left right : Option α) :
    ∃ c, cmpOption (fun a b => some (cmpInt a b)) (left.map f) (right.map f) = some c ∧
      cmpOptionFn left right = .ok c := by
  cases left with
  | none => cases right <;> simp [cmpOptionFn, cmpOption]
  | some l =>
    cases right with
    | none => simp [cmpOptionFn, cmpOption]
    | some r =>
      have h := cmpScalarFn_eq f hinj hlt l r
      unfold cmpScalarFn at h
      refine ⟨cmpInt (f l) (f r), by simp [cmpOption], ?_⟩
      unfold cmpOptionFn
      simpa using h

/-- `cmp_option_*` = `None < Some(_)`, `Some` by the cascade on the payloads -/
theorem cmpOptionFn_val {α : Type} [DecidableEq α] [LT α] [DecidableLT α] (left right : Option α) :
    cmpOptionFn left right = .ok (optCmp
      (fun l r => if l = r then Ordering.eq else if l < r then Ordering.lt else Ordering.gt) left right) := by
  cases left with
  | none => cases right <;> simp [cmpOptionFn, optCmp]
  | some l =>
    cases right with
    | none => simp [cmpOptionFn, optCmp]
    | some r =>
      have h := cmpScalarFn_val l r
      unfold cmpScalarFn at h
      unfold cmpOptionFn
      simpa [optCmp] using h

/-! ### the equivalence theorems: scalars -/

/-! #### `u8` -/

theorem cmp_u8_eq (left right : Nat) :
    Extracted.cmp_u8 left right = .ok (cmpInt (Int.ofNat left) (Int.ofNat right)) :=
  cmpScalarFn_eq Int.ofNat ofNat_inj ofNat_lt left right

theorem cmp_u8_std (left right : Nat) : Extracted.cmp_u8 left right = .ok (compare left right) := by
  rw [cmp_u8_fn, cmpScalarFn_val, compare_nat]

example : Extracted.cmp_u8 3 200 = .ok .lt := by decide
example : Extracted.cmp_u8 255 0 = .ok (cmpInt 255 0) := cmp_u8_eq 255 0
example : Extracted.cmp_u8 7 7 = .ok .eq := by decide

/-! #### `i8` -/

theorem cmp_i8_eq (left right : Int) : Extracted.cmp_i8 left right = .ok (cmpInt left right) :=
  cmpScalarFn_eq id id_inj id_lt left right

theorem cmp_i8_std (left right : Int) : Extracted.cmp_i8 left right = .ok (compare left right) := by
  rw [cmp_i8_fn, cmpScalarFn_val, compare_int]

example : Extracted.cmp_i8 (-128) 127 = .ok .lt := by decide
example : Extracted.cmp_i8 (-1) (-2) = .ok (cmpInt (-1) (-2)) := cmp_i8_eq (-1) (-2)

/-! #### `u64` -/

theorem cmp_u64_eq (left right : Nat) :
    Extracted.cmp_u64 left right = .ok (cmpInt (Int.ofNat left) (Int.ofNat right)) :=
  cmpScalarFn_eq Int.ofNat ofNat_inj ofNat_lt left right

theorem cmp_u64_std (left right : Nat) : Extracted.cmp_u64 left right = .ok (compare left right) := by
  rw [cmp_u64_fn, cmpScalarFn_val, compare_nat]

example : Extracted.cmp_u64 18446744073709551615 0 = .ok .gt := by decide

/-! #### `i128` -/

theorem cmp_i128_eq (left right : Int) : Extracted.cmp_i128 left right = .ok (cmpInt left right) :=
  cmpScalarFn_eq id id_inj id_lt left right

theorem cmp_i128_std (left right : Int) : Extracted.cmp_i128 left right = .ok (compare left right) := by
  rw [cmp_i128_fn, cmpScalarFn_val, compare_int]

example : Extracted.cmp_i128 (-170141183460469231731687303715884105728)
    170141183460469231731687303715884105727 = .ok .lt := by decide

/-! #### `usize` -/

theorem cmp_usize_eq (left right : Nat) :
    Extracted.cmp_usize left right = .ok (cmpInt (Int.ofNat left) (Int.ofNat right)) :=
  cmpScalarFn_eq Int.ofNat ofNat_inj ofNat_lt left right

theorem cmp_usize_std (left right : Nat) : Extracted.cmp_usize left right = .ok (compare left right) := by
  rw [cmp_usize_fn, cmpScalarFn_val, compare_nat]

example : Extracted.cmp_usize 5 5 = .ok .eq := by decide

/-! #### `bool` (`false < true`) -/

theorem cmp_bool_eq (left right : Bool) :
    Extracted.cmp_bool left right = .ok (cmpInt (boolInt left) (boolInt right)) :=
  cmpScalarFn_eq boolInt boolInt_inj boolInt_lt left right

theorem cmp_bool_std (left right : Bool) : Extracted.cmp_bool left right = .ok (compare left right) := by
  rw [cmp_bool_fn, cmpScalarFn_val, compare_bool]

/-- `false < true`, spelled out -/
theorem cmp_bool_table :
    Extracted.cmp_bool false false = .ok .eq ∧ Extracted.cmp_bool false true = .ok .lt ∧
    Extracted.cmp_bool true false = .ok .gt ∧ Extracted.cmp_bool true true = .ok .eq := by decide

example : Extracted.cmp_bool false true = .ok (cmpInt 0 1) := cmp_bool_eq false true

/-! #### `char` (scalar value) -/

theorem cmp_char_eq (left right : Nat) :
    Extracted.cmp_char left right = .ok (cmpInt (Int.ofNat left) (Int.ofNat right)) :=
  cmpScalarFn_eq Int.ofNat ofNat_inj ofNat_lt left right

theorem cmp_char_std (left right : Nat) : Extracted.cmp_char left right = .ok (compare left right) := by
  rw [cmp_char_fn, cmpScalarFn_val, compare_nat]

example : Extracted.cmp_char 0x10FFFF 0x61 = .ok .gt := by decide

/-! ### the equivalence theorems: `Option` of a scalar -/

/-! #### `Option<u8>` -/

theorem eq_option_u8_eq (left right : Option Nat) :
    ∃ b, eqOption (fun a b => some (eqPrim a b)) (left.map Int.ofNat) (right.map Int.ofNat) = some b ∧
      Extracted.eq_option_u8 left right = .ok b := by
  rw [eq_option_u8_fn]
  exact eqOptionFn_eq Int.ofNat ofNat_inj left right

theorem eq_option_u8_std (left right : Option Nat) :
    Extracted.eq_option_u8 left right = .ok (stdEq left right) := by
  rw [eq_option_u8_fn]
  exact eqOptionFn_std left right

theorem cmp_option_u8_eq (left right : Option Nat) :
    ∃ c, cmpOption (fun a b => some (cmpInt a b)) (left.map Int.ofNat) (right.map Int.ofNat) = some c ∧
      Extracted.cmp_option_u8 left right = .ok c := by
  rw [cmp_option_u8_fn]
  exact cmpOptionFn_eq Int.ofNat ofNat_inj ofNat_lt left right

theorem cmp_option_u8_std (left right : Option Nat) :
    Extracted.cmp_option_u8 left right = .ok (optCmp compare left right) := by
  rw [cmp_option_u8_fn, cmpOptionFn_val]
  simp only [← compare_nat]

example : Extracted.eq_option_u8 (some 3) (some 3) = .ok true := by decide
example : Extracted.eq_option_u8 (some 3) none = .ok false := by decide
example : Extracted.cmp_option_u8 none (some 0) = .ok .lt := by decide
example : Extracted.cmp_option_u8 (some 9) (some 200) = .ok .lt := by decide
example : ∃ c, cmpOption (fun a b => some (cmpInt a b)) (some 9) none = some c ∧
    Extracted.cmp_option_u8 (some 9) none = .ok c := cmp_option_u8_eq (some 9) none

/-! #### `Option<i8>` -/

theorem eq_option_i8_eq (left right : Option Int) :
    ∃ b, eqOption (fun a b => some (eqPrim a b)) left right = some b ∧
      Extracted.eq_option_i8 left right = .ok b := by
  rw [eq_option_i8_fn]
  have h := eqOptionFn_eq id id_inj left right
  simp only [Option.map_id_fun, id_eq] at h
  exact h

theorem eq_option_i8_std (left right : Option Int) :
    Extracted.eq_option_i8 left right = .ok (stdEq left right) := by
  rw [eq_option_i8_fn]
  exact eqOptionFn_std left right

theorem cmp_option_i8_eq (left right : Option Int) :
    ∃ c, cmpOption (fun a b => some (cmpInt a b)) left right = some c ∧
      Extracted.cmp_option_i8 left right = .ok c := by
  rw [cmp_option_i8_fn]
  have h := cmpOptionFn_eq id id_inj id_lt left right
  simp only [Option.map_id_fun, id_eq] at h
  exact h

theorem cmp_option_i8_std (left right : Option Int) :
    Extracted.cmp_option_i8 left right = .ok (optCmp compare left right) := by
  rw [cmp_option_i8_fn, cmpOptionFn_val]
  simp only [← compare_int]

example : Extracted.eq_option_i8 (some (-1)) (some 1) = .ok false := by decide
example : Extracted.cmp_option_i8 (some (-128)) (some 127) = .ok .lt := by decide
example : Extracted.cmp_option_i8 (some (-128)) none = .ok .gt := by decide

/-! #### `Option<bool>` -/

theorem eq_option_bool_eq (left right : Option Bool) :
    ∃ b, eqOption (fun a b => some (eqPrim a b)) (left.map boolInt) (right.map boolInt) = some b ∧
      Extracted.eq_option_bool left right = .ok b := by
  rw [eq_option_bool_fn]
  exact eqOptionFn_eq boolInt boolInt_inj left right

theorem eq_option_bool_std (left right : Option Bool) :
    Extracted.eq_option_bool left right = .ok (stdEq left right) := by
  rw [eq_option_bool_fn]
  exact eqOptionFn_std left right

theorem cmp_option_bool_eq (left right : Option Bool) :
    ∃ c, cmpOption (fun a b => some (cmpInt a b)) (left.map boolInt) (right.map boolInt) = some c ∧
      Extracted.cmp_option_bool left right = .ok c := by
  rw [cmp_option_bool_fn]
  exact cmpOptionFn_eq boolInt boolInt_inj boolInt_lt left right

theorem cmp_option_bool_std (left right : Option Bool) :
    Extracted.cmp_option_bool left right = .ok (optCmp compare left right) := by
  rw [cmp_option_bool_fn, cmpOptionFn_val]
  simp only [← compare_bool]

example : Extracted.eq_option_bool none none = .ok true := by decide
example : Extracted.cmp_option_bool (some false) (some true) = .ok .lt := by decide
example : Extracted.cmp_option_bool none (some false) = .ok .lt := by decide

/-! #### `Option<char>` -/

theorem eq_option_char_eq (left right : Option Nat) :
    ∃ b, eqOption (fun a b => some (eqPrim a b)) (left.map Int.ofNat) (right.map Int.ofNat) = some b ∧
      Extracted.eq_option_char left right = .ok b := by
  rw [eq_option_char_fn]
  exact eqOptionFn_eq Int.ofNat ofNat_inj left right

theorem eq_option_char_std (left right : Option Nat) :
    Extracted.eq_option_char left right = .ok (stdEq left right) := by
  rw [eq_option_char_fn]
  exact eqOptionFn_std left right

theorem cmp_option_char_eq (left right : Option Nat) :
    ∃ c, cmpOption (fun a b => some (cmpInt a b)) (left.map Int.ofNat) (right.map Int.ofNat) = some c ∧
      Extracted.cmp_option_char left right = .ok c := by
  rw [cmp_option_char_fn]
  exact cmpOptionFn_eq Int.ofNat ofNat_inj ofNat_lt left right

theorem cmp_option_char_std (left right : Option Nat) :
    Extracted.cmp_option_char left right = .ok (optCmp compare left right) := by
  rw [cmp_option_char_fn, cmpOptionFn_val]
  simp only [← compare_nat]

example : Extracted.eq_option_char (some 0x61) (some 0x62) = .ok false := by decide
example : Extracted.cmp_option_char (some 0x10FFFF) (some 0x61) = .ok .gt := by decide

/-! ### `Option<&[u8]>`: the `(Some(l), Some(r))` arm runs the loops of `eq_bytes` / `cmp_bytes`

  Bound and fuel hypotheses exactly as for `eq_bytes_eq` / `cmp_bytes_eq`, required only when both
  arguments are `Some` (the other arms neither loop nor index). -/

theorem eq_option_bytes_eq (fuel : Nat) (left right : Option (List Nat))
    (hb : ∀ l r, left = some l → right = some r → min l.length r.length < 2 ^ 64)
    (hf : ∀ l r, left = some l → right = some r → min l.length r.length + 1 ≤ fuel) :
    ∃ b, eqOption eqSlice (left.map (List.map Int.ofNat)) (right.map (List.map Int.ofNat)) = some b ∧
      Extracted.eq_option_bytes fuel left right = .ok b := by
  unfold Extracted.eq_option_bytes
  cases left with
  | none => cases right <;> simp [eqOption]
  | some l =>
    cases right with
    | none => simp [eqOption]
    | some r =>
      obtain ⟨b, h1, h2⟩ := eq_bytes_eq fuel l r (hb l r rfl rfl) (hf l r rfl rfl)
      exact ⟨b, by simpa [eqOption] using h1, by simp [h2]⟩

example : ∃ b, eqOption eqSlice (some [1, 2, 3]) (some [1, 2, 4]) = some b ∧
    Extracted.eq_option_bytes 4 (some [1, 2, 3]) (some [1, 2, 4]) = .ok b :=
  eq_option_bytes_eq 4 (some [1, 2, 3]) (some [1, 2, 4])
    (by intro l r hl hr; cases hl; cases hr; decide) (by intro l r hl hr; cases hl; cases hr; decide)
example : Extracted.eq_option_bytes 4 (some [1, 2, 3]) (some [1, 2, 4]) = .ok false := by decide
example : Extracted.eq_option_bytes 4 (some [1, 2, 3]) (some [1, 2, 3]) = .ok true := by decide
example : Extracted.eq_option_bytes 0 none none = .ok true := by decide
example : Extracted.eq_option_bytes 0 (some []) none = .ok false := by decide

theorem cmp_option_bytes_eq (fuel : Nat) (left right : Option (List Nat))
    (hb : ∀ l r, left = some l → right = some r → min l.length r.length < 2 ^ 64)
    (hf : ∀ l r, left = some l → right = some r → min l.length r.length + 1 ≤ fuel) :
    ∃ c, cmpOption cmpSlice (left.map (List.map Int.ofNat)) (right.map (List.map Int.ofNat)) = some c ∧
      Extracted.cmp_option_bytes fuel left right = .ok c := by
  unfold Extracted.cmp_option_bytes
  cases left with
  | none => cases right <;> simp [cmpOption]
  | some l =>
    cases right with
    | none => simp [cmpOption]
    | some r =>
      obtain ⟨c, h1, h2⟩ := cmp_bytes_eq fuel l r (hb l r rfl rfl) (hf l r rfl rfl)
      exact ⟨c, by simpa [cmpOption] using h1, by simp [h2]⟩

example : ∃ c, cmpOption cmpSlice (some [1, 9]) (some [1, 2, 0]) = some c ∧
    Extracted.cmp_option_bytes 3 (some [1, 9]) (some [1, 2, 0]) = .ok c :=
  cmp_option_bytes_eq 3 (some [1, 9]) (some [1, 2, 0])
    (by intro l r hl hr; cases hl; cases hr; decide) (by intro l r hl hr; cases hl; cases hr; decide)
example : Extracted.cmp_option_bytes 3 (some [1, 9]) (some [1, 2, 0]) = .ok .gt := by decide
example : Extracted.cmp_option_bytes 3 (some [1, 2]) (some [1, 2, 0]) = .ok .lt := by decide
example : Extracted.cmp_option_bytes 0 none (some [1]) = .ok .lt := by decide
example : Extracted.cmp_option_bytes 0 (some []) none = .ok .gt := by decide

end Extracted.Equiv
