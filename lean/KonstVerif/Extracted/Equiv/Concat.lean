import KonstVerif.Extracted.Gen.Concat
import KonstVerif.Extracted.Equiv.Slice
import KonstVerif.Extracted.Equiv.Chr
import KonstVerif.Model.Concat
import KonstVerif.Props.C20
/-
  Extracted (regenerated from /repo) = Model, for the const fns behind `string::str_concat!` /
  `string::str_join!` (C20): `konst_kernel::string::string_for_konst::{concat_sum_lengths, concat_strs,
  join_sum_lengths, join_strs}`, the dispatch helpers `__ElemDispatch<char|str>::{len, as_bytesable}`,
  `__SepArg::len`, and `Utf8Encoded::{as_bytes, as_str}`.

  The model (`Model/Concat.lean`) returns `Out α = ok | panic reason`; the extraction returns
  `Res α = ok | panic | ub | nofuel`.  `outToRes` forgets the reason of the panic; every theorem below
  says `extracted = outToRes (model)`, i.e. the extracted function returns `.ok v` exactly when the model
  says `.ok v` and `.panic` exactly when the model says `.panic _` (never `ub`, never `nofuel`).

  Conversions between the generated and the model's types: `toConcatArg`, `toSepArg` (constructor-wise),
  `toModelUtf8`/`ofModelUtf8` (field-wise; `Extracted.Utf8Encoded`, `Konst.Chr.Utf8Encoded` and
  `Konst.Concat.Utf8Encoded` are three copies of the same two-field record).
-/
namespace Extracted.Equiv
open Rs Konst Konst.Concat

/-! ## conversions -/

/-- forget why the const evaluation stopped -/
def outToRes {α : Type} : Out α → Res α
  | .ok a => .ok a
  | .panic _ => .panic

@[simp] theorem outToRes_ok {α : Type} (a : α) : outToRes (Out.ok a) = .ok a := rfl
@[simp] theorem outToRes_panic {α : Type} (p : Panic) : outToRes (Out.panic p : Out α) = .panic := rfl

/-- the result of the model (`[u8; N]` as a byte list) as the generated `ArrayStr<N>` -/
def outToArrayStr (N : Nat) (o : Out (List Nat)) : Res (Extracted.ArrayStr N) :=
  outToRes (o >>= fun b => pure (Extracted.ArrayStr.mk b))

@[simp] theorem outToArrayStr_ok (N : Nat) (b : List Nat) : outToArrayStr N (.ok b) = .ok ⟨b⟩ := rfl
@[simp] theorem outToArrayStr_panic (N : Nat) (p : Panic) : outToArrayStr N (.panic p) = .panic := rfl

/-- generated `__StrConcatArg` ↦ the model's -/
def toConcatArg : Extracted.StrConcatArg → ConcatArg
  | .Char cs => .chars cs
  | .Str ss => .strs ss

/-- generated `__SepArg` ↦ the model's -/
def toSepArg : Extracted.SepArg → Konst.Concat.SepArg
  | .Char c => .chr c
  | .Str s => .str s

/-- generated `Utf8Encoded` ↦ the one of `Model/Concat.lean` (same two fields) -/
def toModelUtf8 (e : Extracted.Utf8Encoded) : Konst.Concat.Utf8Encoded := ⟨e.encoded, e.len⟩
/-- and back -/
def ofModelUtf8 (e : Konst.Concat.Utf8Encoded) : Extracted.Utf8Encoded := ⟨e.encoded, e.len⟩

@[simp] theorem toModelUtf8_ofModelUtf8 (e : Konst.Concat.Utf8Encoded) : toModelUtf8 (ofModelUtf8 e) = e := rfl

/-- the two hand-written copies of `encode_utf8` (`Model/Chr.lean` for C07, `Model/Concat.lean` for C20) agree -/
theorem cc_encodeUtf8_models (c : Nat) :
    toExtracted (Konst.Chr.encodeUtf8 c) = ofModelUtf8 (Konst.Concat.encodeUtf8 c) := by
  unfold Konst.Chr.encodeUtf8 Konst.Concat.encodeUtf8 toExtracted ofModelUtf8
  by_cases h1 : c ≤ 127
  · simp only [h1, ↓reduceIte]; rfl
  · by_cases h2 : c ≤ 0x7FF
    · simp only [h1, h2, ↓reduceIte]; rfl
    · by_cases h3 : c ≤ 0xFFFF
      · simp only [h1, h2, h3, ↓reduceIte]; rfl
      · simp only [h1, h2, h3, ↓reduceIte]; rfl

theorem cc_lenUtf8 (c : Nat) : Rs.charLenUtf8 c = lenUtf8 c := rfl

/-! ## helpers: `Utf8Encoded::{as_bytes, as_str}`, `__ElemDispatch`, `__SepArg::len` -/

/-- `Utf8Encoded::as_bytes`, for every record (also when `len > 4`: `slice_up_to` then returns the whole
    array, and so does `List.take`) -/
theorem Utf8Encoded_as_bytes_eq (self : Extracted.Utf8Encoded) :
    Extracted.Utf8Encoded.as_bytes self = .ok (toModelUtf8 self).asBytes := by
  unfold Extracted.Utf8Encoded.as_bytes
  simp only [slice_up_to_eq, id, Ctl.call_ok, Ctl.run_val]
  congr 1
  unfold Konst.Slice.sliceUpTo Konst.Slice.sliceUpToImpl Konst.overflowingSub View.apply
    Konst.Concat.Utf8Encoded.asBytes toModelUtf8
  by_cases h : self.len ≤ self.encoded.length
  · simp [h]
  · simp only [h, ↓reduceIte, Option.getD_none, List.drop_zero, List.take_length]
    exact (List.take_of_length_le (by omega)).symm

example : Extracted.Utf8Encoded.as_bytes ⟨[0xE2, 0x82, 0xAC, 0], 3⟩ = .ok [0xE2, 0x82, 0xAC] := by decide

/-- `Utf8Encoded::as_str`: the same bytes (`from_utf8_unchecked` is the identity on the bytes; the generated
    code does not model its validity precondition) -/
theorem Utf8Encoded_as_str_eq (self : Extracted.Utf8Encoded) :
    Extracted.Utf8Encoded.as_str self = .ok (toModelUtf8 self).asBytes := by
  unfold Extracted.Utf8Encoded.as_str
  simp only [Utf8Encoded_as_bytes_eq, Ctl.call_ok, Ctl.run_val]

example : Extracted.Utf8Encoded.as_str ⟨[0xC3, 0xA9, 0, 0], 2⟩ = .ok [0xC3, 0xA9] := by decide

/-- `__SepArg::len` -/
theorem SepArg_fn_len_eq (self : Extracted.SepArg) :
    Extracted.SepArg.fn_len self = .ok (toSepArg self).len := by
  cases self <;> rfl

example : Extracted.SepArg.fn_len (.Char 0x20AC) = .ok 3 := by decide
example : Extracted.SepArg.fn_len (.Str [1, 2]) = .ok 2 := by decide

/-- `__ElemDispatch<char>::as_bytesable = encode_utf8`, for every `u32` value (every `char` is one) -/
theorem ElemDispatch_char_as_bytesable_eq (c : Nat) (hc : c < 2 ^ 32) :
    Extracted.ElemDispatch_char.as_bytesable c = .ok (ofModelUtf8 (Konst.Concat.encodeUtf8 c)) := by
  unfold Extracted.ElemDispatch_char.as_bytesable
  simp only [encode_utf8_eq c hc, cc_encodeUtf8_models, Ctl.call_ok, Ctl.run_val]

example : Extracted.ElemDispatch_char.as_bytesable 0x20AC = .ok ⟨[0xE2, 0x82, 0xAC, 0], 3⟩ := by decide

/-- `__ElemDispatch<char>::len = char::len_utf8` -/
theorem ElemDispatch_char_fn_len_eq (c : Nat) :
    Extracted.ElemDispatch_char.fn_len c = .ok (Elem.chr c).len := rfl

/-- `__ElemDispatch<str>::as_bytesable`: the str itself -/
theorem ElemDispatch_str_as_bytesable_eq (s : List Nat) :
    Extracted.ElemDispatch_str.as_bytesable s = .ok (Elem.str s).bytes := rfl

/-- `__ElemDispatch<str>::len = str::len` -/
theorem ElemDispatch_str_fn_len_eq (s : List Nat) :
    Extracted.ElemDispatch_str.fn_len s = .ok (Elem.str s).len := rfl

example : Extracted.ElemDispatch_char.fn_len 0x1F600 = .ok 4 := by decide
example : Extracted.ElemDispatch_str.fn_len [0x68, 0x69] = .ok 2 := by decide

/-- what the fill loops do with one `char`: `__ElemDispatch(c).as_bytesable().as_bytes()` -/
theorem cc_char_bytes (c : Nat) :
    Extracted.Utf8Encoded.as_bytes (ofModelUtf8 (Konst.Concat.encodeUtf8 c)) = .ok (Elem.chr c).bytes := by
  rw [Utf8Encoded_as_bytes_eq]; rfl

/-! ## `concat_sum_lengths` -/

/-- the shape shared by the two `for_range!` loops of `concat_sum_lengths` (they differ in the `len` they call) -/
def cc_sbody {ε α : Type} (g : α → Res Nat) (end_ : Nat) (slices : List α) :
    (Nat × Nat) → Ctl (LoopExit ε (Nat × Nat) (Nat × Nat)) (Nat × Nat) := fun (start, sum) => do
  if (decide (start < end_)) then do
      let i := start
      let start ← Rs.uadd 64 start (1 : Nat)
      let t1_ ← Rs.index slices i
      let t2_ ← Ctl.call (g t1_)
      let sum ← Rs.uadd 64 sum t2_
      pure (start, sum)
  else Ctl.exit (.brk (start, sum))

theorem cc_sum_loop1 (end_ : Nat) (slices : List Nat) :
    Extracted.concat_sum_lengths.loop1 end_ slices = cc_sbody Extracted.ElemDispatch_char.fn_len end_ slices := rfl
theorem cc_sum_loop2 (end_ : Nat) (slices : List (List Nat)) :
    Extracted.concat_sum_lengths.loop2 end_ slices = cc_sbody Extracted.ElemDispatch_str.fn_len end_ slices := rfl

/-- result of a counting loop: the final counter is the end of the range -/
def cc_ctl2 {ε : Type} (len : Nat) : Out Nat → Ctl ε (Nat × Nat)
  | .ok s => .val (len, s)
  | .panic _ => .panic

/-- the `for_range!` loop of `concat_sum_lengths` from any state (`n` = fuel of the loop) -/
theorem cc_sum_loop {ε α : Type} (g : α → Res Nat) (e : α → Elem) (hg : ∀ x, g x = .ok (e x).len)
    (n : Nat) (slices : List α) (i sum : Nat) (hl : slices.length < 2 ^ 64) (hi : i ≤ slices.length)
    (hn : slices.length - i + 1 ≤ n) :
    Rs.loop n (cc_sbody (ε := ε) g slices.length slices) (i, sum)
      = cc_ctl2 slices.length (sumLoop ((slices.drop i).map e) sum) := by
  induction n generalizing i sum with
  | zero => omega
  | succ n ih =>
    rw [Rs.loop_succ]
    by_cases hc : i < slices.length
    · have h1 : i + 1 < 2 ^ 64 := by omega
      rw [List.drop_eq_getElem_cons hc]
      simp only [cc_sbody, hc, decide_true, ↓reduceIte, Rs.uadd, h1, Ctl.bind_eq, Ctl.bind_val, Rs.index,
        List.getElem?_eq_getElem hc, hg, Ctl.call_ok, List.map_cons, sumLoop, ckAdd, USIZE, Ctl.pure_eq]
      by_cases hs : sum + (e slices[i]).len < 2 ^ 64
      · simp only [hs, ↓reduceIte, Ctl.bind_val, Out.ok_bind]
        exact ih (i := i + 1) (sum := sum + (e slices[i]).len) (by omega) (by omega)
      · simp only [hs, ↓reduceIte, Ctl.bind_panic, Out.panic_bind, cc_ctl2]
    · have : i = slices.length := by omega
      subst this
      simp [cc_sbody, sumLoop, cc_ctl2]

/-- hypotheses on the machine range of a `__StrConcatArg`: the outer slice has a `usize` length (any Rust
    slice has), every `char` is a `u32` value (any `char` is: scalar values are `< 0x110000`) -/
def ConcatArgOk : Extracted.StrConcatArg → Prop
  | .Char cs => cs.length < 2 ^ 64 ∧ ∀ c ∈ cs, c < 2 ^ 32
  | .Str ss => ss.length < 2 ^ 64

/-- `concat_sum_lengths`: the sum of the byte lengths, or a panic (`sum += …` overflows) exactly when the
    model says so; needs only the slice length to be a `usize` and one unit of fuel per element + 1 -/
theorem concat_sum_lengths_eq (fuel : Nat) (arg : Extracted.StrConcatArg)
    (hl : (toConcatArg arg).elems.length < 2 ^ 64) (hf : (toConcatArg arg).elems.length + 1 ≤ fuel) :
    Extracted.concat_sum_lengths fuel arg = outToRes (concatSumLengths (toConcatArg arg)) := by
  unfold Extracted.concat_sum_lengths concatSumLengths
  cases arg with
  | Char cs =>
    simp only [toConcatArg, ConcatArg.elems, List.length_map] at hl hf
    have := cc_sum_loop (ε := Nat) Extracted.ElemDispatch_char.fn_len Elem.chr ElemDispatch_char_fn_len_eq
      fuel cs 0 0 hl (by omega) (by omega)
    simp only [cc_sum_loop1, this, List.drop_zero, toConcatArg, ConcatArg.elems]
    cases sumLoop (List.map Elem.chr cs) 0 <;> simp [cc_ctl2]
  | Str ss =>
    simp only [toConcatArg, ConcatArg.elems, List.length_map] at hl hf
    have := cc_sum_loop (ε := Nat) Extracted.ElemDispatch_str.fn_len Elem.str ElemDispatch_str_fn_len_eq
      fuel ss 0 0 hl (by omega) (by omega)
    simp only [cc_sum_loop2, this, List.drop_zero, toConcatArg, ConcatArg.elems]
    cases sumLoop (List.map Elem.str ss) 0 <;> simp [cc_ctl2]

example : Extracted.concat_sum_lengths 4 (.Char [0x41, 0xE9, 0x20AC]) = .ok 6 :=
  concat_sum_lengths_eq 4 _ (by decide) (by decide)
example : Extracted.concat_sum_lengths 3 (.Str [[0x68, 0x69], [0xE2, 0x82, 0xAC]]) = .ok 5 := by decide

/-! ## `concat_strs` -/

/-- the shape shared by all the `for_range!{i in 0..slice.len() => out[out_i] = slice[i]; out_i += 1;}` loops
    (`concat_strs.loop2/loop4`, `join_strs.loop1/loop3/loop4`, and `slice_concat_slices.loop2` for any element
    type: same text, different exit types) -/
def cc_wbody {ε α : Type} (end_ : Nat) (slice : List α) :
    (Nat × (List α) × Nat) → Ctl (LoopExit ε (Nat × (List α) × Nat) (Nat × (List α) × Nat))
      (Nat × (List α) × Nat) := fun (start, out, out_i) => do
  if (decide (start < end_)) then do
      let i := start
      let start ← Rs.uadd 64 start (1 : Nat)
      let t4_ ← Rs.index slice i
      let out ← Rs.setIndex out out_i t4_
      let out_i ← Rs.uadd 64 out_i (1 : Nat)
      pure (start, out, out_i)
  else Ctl.exit (.brk (start, out, out_i))

theorem cc_concat_loop2 (N end_ : Nat) (slice : List Nat) :
    Extracted.concat_strs.loop2 N end_ slice = cc_wbody end_ slice := rfl
theorem cc_concat_loop4 (N end_ : Nat) (slice : List Nat) :
    Extracted.concat_strs.loop4 N end_ slice = cc_wbody end_ slice := rfl

/-- result of a fill loop: the final counter is the end of the range -/
def cc_ctl3 {ε α : Type} (len : Nat) : Out (List α × Nat) → Ctl ε (Nat × List α × Nat)
  | .ok (o, k) => .val (len, o, k)
  | .panic _ => .panic

@[simp] theorem cc_ctl3_ok {ε α : Type} (len : Nat) (o : List α) (k : Nat) :
    (cc_ctl3 len (.ok (o, k)) : Ctl ε _) = .val (len, o, k) := rfl
@[simp] theorem cc_ctl3_panic {ε α : Type} (len : Nat) (p : Panic) :
    (cc_ctl3 len (.panic p : Out (List α × Nat)) : Ctl ε _) = .panic := rfl

/-- the inner byte-copy loop from any state.  `i ≤ oi` (the write index is at least the read index) makes
    `start += 1` unable to overflow before `out[out_i]` is out of bounds, so no bound on `slice.len()` is
    needed beyond the buffer length `N < 2^64`. -/
theorem cc_write_loop {ε α : Type} (n : Nat) (slice : List α) (i : Nat) (out : List α) (oi : Nat)
    (hN : out.length < 2 ^ 64) (hi : i ≤ slice.length) (hio : i ≤ oi) (hn : slice.length - i + 1 ≤ n) :
    Rs.loop n (cc_wbody (ε := ε) slice.length slice) (i, out, oi)
      = cc_ctl3 slice.length (writeBytes (slice.drop i) out oi) := by
  induction n generalizing i out oi with
  | zero => omega
  | succ n ih =>
    rw [Rs.loop_succ]
    by_cases hc : i < slice.length
    · rw [List.drop_eq_getElem_cons hc]
      by_cases ho : oi < out.length
      · have h1 : i + 1 < 2 ^ 64 := by omega
        have h2 : oi + 1 < 2 ^ 64 := by omega
        simp only [cc_wbody, hc, decide_true, ↓reduceIte, Rs.uadd, h1, h2, Ctl.bind_eq, Ctl.bind_val, Rs.index,
          List.getElem?_eq_getElem hc, Rs.setIndex, ho, writeBytes, Ctl.pure_eq]
        exact ih (i := i + 1) (out := out.set oi slice[i]) (oi := oi + 1) (by simpa using hN) (by omega)
          (by omega) (by omega)
      · simp only [cc_wbody, hc, decide_true, ↓reduceIte, Rs.uadd, Ctl.bind_eq, Rs.index,
          List.getElem?_eq_getElem hc, Rs.setIndex, ho, writeBytes, cc_ctl3_panic]
        by_cases h1 : i + 1 < 2 ^ 64 <;> simp [h1]
    · have : i = slice.length := by omega
      subst this
      simp [cc_wbody, writeBytes]

theorem cc_writeBytes_length {α : Type} (bs out : List α) (oi : Nat) (o : List α) (k : Nat)
    (h : writeBytes bs out oi = .ok (o, k)) : o.length = out.length ∧ k = oi + bs.length := by
  induction bs generalizing out oi with
  | nil => simp [writeBytes] at h; simp [h.1, h.2]
  | cons b bs ih =>
    by_cases ho : oi < out.length
    · simp only [writeBytes, ho, ↓reduceIte] at h
      have := ih _ _ h
      simp at this ⊢
      omega
    · simp [writeBytes, ho] at h

/-- one `write_str!`-style block: `let (start, out, out_i) ← loop …; pure (start', out, out_i)` -/
theorem cc_write_block {ε α : Type} (F : Nat) (slice out : List α) (oi : Nat)
    (hN : out.length < 2 ^ 64) (hF : slice.length + 1 ≤ F) :
    Rs.loop F (cc_wbody (ε := ε) slice.length slice) (0, out, oi)
      = cc_ctl3 slice.length (writeBytes slice out oi) := by
  have := cc_write_loop (ε := ε) F slice 0 out oi hN (by omega) (by omega) (by omega)
  simpa using this

/-- the outer loop of the `Char` arm of `concat_strs` (`F` = fuel handed to the inner loops) -/
theorem cc_concat_loop1 (N F n : Nat) (cs : List Nat) (i : Nat) (out : List Nat) (oi : Nat)
    (hcs : ∀ c ∈ cs, c < 2 ^ 32) (hl : cs.length < 2 ^ 64) (hN : out.length < 2 ^ 64) (hF : 5 ≤ F)
    (hi : i ≤ cs.length) (hn : cs.length - i + 1 ≤ n) :
    Rs.loop n (Extracted.concat_strs.loop1 N F cs.length cs) (i, out, oi)
      = cc_ctl3 cs.length (fillLoop ((cs.drop i).map Elem.chr) out oi) := by
  induction n generalizing i out oi with
  | zero => omega
  | succ n ih =>
    rw [Rs.loop_succ]
    by_cases hc : i < cs.length
    · have h1 : i + 1 < 2 ^ 64 := by omega
      have hci : cs[i] < 2 ^ 32 := hcs _ (List.getElem_mem hc)
      have hlen : (Elem.chr cs[i]).bytes.length + 1 ≤ F := by
        have : (Elem.chr cs[i]).bytes.length ≤ 4 := by
          simp only [Elem.bytes, Konst.Concat.Utf8Encoded.asBytes, Konst.Concat.encodeUtf8]
          split
          · simp
          · split
            · simp
            · split <;> simp
        omega
      rw [List.drop_eq_getElem_cons hc]
      simp only [Extracted.concat_strs.loop1, hc, decide_true, ↓reduceIte, Rs.uadd, h1, Ctl.bind_eq, Ctl.bind_val,
        Rs.index, List.getElem?_eq_getElem hc, ElemDispatch_char_as_bytesable_eq _ hci, Ctl.call_ok, cc_char_bytes,
        cc_concat_loop2, cc_write_block F _ out oi hN hlen, List.map_cons, fillLoop, Ctl.pure_eq]
      cases hw : writeBytes (Elem.chr cs[i]).bytes out oi with
      | panic p => simp
      | ok r =>
        obtain ⟨o, k⟩ := r
        have ho := (cc_writeBytes_length _ _ _ _ _ hw).1
        simp only [cc_ctl3_ok, Ctl.bind_val, Out.ok_bind]
        exact ih (i := i + 1) (out := o) (oi := k) (by omega) (by omega) (by omega)
    · have : i = cs.length := by omega
      subst this
      simp [Extracted.concat_strs.loop1, fillLoop]

/-- the outer loop of the `Str` arm of `concat_strs` -/
theorem cc_concat_loop3 (N F n : Nat) (ss : List (List Nat)) (i : Nat) (out : List Nat) (oi : Nat)
    (hl : ss.length < 2 ^ 64) (hN : out.length < 2 ^ 64) (hF : ∀ s ∈ ss, s.length + 1 ≤ F)
    (hi : i ≤ ss.length) (hn : ss.length - i + 1 ≤ n) :
    Rs.loop n (Extracted.concat_strs.loop3 N F ss.length ss) (i, out, oi)
      = cc_ctl3 ss.length (fillLoop ((ss.drop i).map Elem.str) out oi) := by
  induction n generalizing i out oi with
  | zero => omega
  | succ n ih =>
    rw [Rs.loop_succ]
    by_cases hc : i < ss.length
    · have h1 : i + 1 < 2 ^ 64 := by omega
      have hlen : ss[i].length + 1 ≤ F := hF _ (List.getElem_mem hc)
      rw [List.drop_eq_getElem_cons hc]
      simp only [Extracted.concat_strs.loop3, hc, decide_true, ↓reduceIte, Rs.uadd, h1, Ctl.bind_eq, Ctl.bind_val,
        Rs.index, List.getElem?_eq_getElem hc, ElemDispatch_str_as_bytesable_eq, Ctl.call_ok, Elem.bytes,
        cc_concat_loop4, cc_write_block F _ out oi hN hlen, List.map_cons, fillLoop, Ctl.pure_eq]
      cases hw : writeBytes ss[i] out oi with
      | panic p => simp
      | ok r =>
        obtain ⟨o, k⟩ := r
        have ho := (cc_writeBytes_length _ _ _ _ _ hw).1
        simp only [cc_ctl3_ok, Ctl.bind_val, Out.ok_bind]
        exact ih (i := i + 1) (out := o) (oi := k) (by omega) (by omega) (by omega)
    · have : i = ss.length := by omega
      subst this
      simp [Extracted.concat_strs.loop3, fillLoop]

/-- sufficient fuel for `concat_strs`: one unit per element of the outer slice + 1, and (the same `fuel` is
    handed to the inner loops) one per byte of every piece + 1 (`5` covers every `char`) -/
def ConcatFuelOk (fuel : Nat) : Extracted.StrConcatArg → Prop
  | .Char cs => cs.length + 1 ≤ fuel ∧ 5 ≤ fuel
  | .Str ss => ss.length + 1 ≤ fuel ∧ ∀ s ∈ ss, s.length + 1 ≤ fuel

/-- `concat_strs::<N>`, for every `N : usize` and every argument: the buffer the model computes (the written
    bytes followed by the untouched zeros when `N` is large enough), a panic at `out[out_i] = …` exactly when
    the model says `Panic.index` (`N` smaller than the total length). -/
theorem concat_strs_eq (N fuel : Nat) (arg : Extracted.StrConcatArg) (hN : N < 2 ^ 64)
    (ha : ConcatArgOk arg) (hf : ConcatFuelOk fuel arg) :
    Extracted.concat_strs N fuel arg = outToArrayStr N (concatStrs N (toConcatArg arg)) := by
  unfold Extracted.concat_strs concatStrs
  cases arg with
  | Char cs =>
    obtain ⟨hl, hcs⟩ := ha
    obtain ⟨hf1, hf2⟩ := hf
    have := cc_concat_loop1 N fuel fuel cs 0 (List.replicate N 0) 0 hcs hl (by simpa using hN) hf2
      (by omega) (by omega)
    rw [List.drop_zero] at this
    simp only [this, toConcatArg, ConcatArg.elems, Rs.repeatN]
    cases fillLoop (List.map Elem.chr cs) (List.replicate N 0) 0 with
    | panic p => simp
    | ok r => obtain ⟨o, k⟩ := r; simp
  | Str ss =>
    obtain ⟨hf1, hf2⟩ := hf
    have := cc_concat_loop3 N fuel fuel ss 0 (List.replicate N 0) 0 ha (by simpa using hN) hf2
      (by omega) (by omega)
    rw [List.drop_zero] at this
    simp only [this, toConcatArg, ConcatArg.elems, Rs.repeatN]
    cases fillLoop (List.map Elem.str ss) (List.replicate N 0) 0 with
    | panic p => simp
    | ok r => obtain ⟨o, k⟩ := r; simp

example : Extracted.concat_strs 6 5 (.Char [0x41, 0xE9, 0x20AC]) = .ok ⟨[0x41, 0xC3, 0xA9, 0xE2, 0x82, 0xAC]⟩ := by
  rw [concat_strs_eq 6 5 _ (by decide) (by simp [ConcatArgOk]) (by simp [ConcatFuelOk])]; rfl
example : Extracted.concat_strs 7 4 (.Str [[0x68, 0x69], [0xE2, 0x82, 0xAC]])
    = .ok ⟨[0x68, 0x69, 0xE2, 0x82, 0xAC, 0, 0]⟩ := by
  rw [concat_strs_eq 7 4 _ (by decide) (by simp [ConcatArgOk]) (by simp [ConcatFuelOk])]; rfl
example : Extracted.concat_strs 4 4 (.Str [[0x68, 0x69], [0xE2, 0x82, 0xAC]]) = .panic := by
  rw [concat_strs_eq 4 4 _ (by decide) (by simp [ConcatArgOk]) (by simp [ConcatFuelOk])]; rfl

/-! ## `join_sum_lengths` -/

/-- `join_sum_lengths`: `0` for the empty slice, otherwise the checked
    `concat_sum_lengths(Str(slice)) + sep.len() * (slice.len() - 1)`; a panic exactly when the model says
    `Panic.overflow` (in the sum loop, the product or the final sum — same order of evaluation) -/
theorem join_sum_lengths_eq (fuel : Nat) (arg : Extracted.StrJoinArgs)
    (hl : arg.slice.length < 2 ^ 64) (hf : arg.slice.length + 1 ≤ fuel) :
    Extracted.join_sum_lengths fuel arg = outToRes (joinSumLengths (toSepArg arg.sep) arg.slice) := by
  obtain ⟨sep, slice⟩ := arg
  simp only at hl hf
  unfold Extracted.join_sum_lengths joinSumLengths
  by_cases he : slice.isEmpty = true
  · simp [he]
  · have hpos : 1 ≤ slice.length := by
      cases slice with
      | nil => simp at he
      | cons a l => simp
    have hc := concat_sum_lengths_eq fuel (.Str slice) (by simpa [toConcatArg, ConcatArg.elems] using hl)
      (by simpa [toConcatArg, ConcatArg.elems] using hf)
    simp only [he, Bool.false_eq_true, ↓reduceIte, hc, toConcatArg, SepArg_fn_len_eq, Ctl.call_ok, Ctl.bind_eq,
      Ctl.bind_val, Rs.usub, hpos, Rs.umul, Rs.uadd, ckMul, ckAdd, USIZE]
    cases concatSumLengths (.strs slice) with
    | panic p => simp
    | ok a =>
      simp only [outToRes_ok, Ctl.call_ok, Ctl.bind_val, Out.ok_bind]
      by_cases h1 : (toSepArg sep).len * (slice.length - 1) < 2 ^ 64
      · simp only [h1, ↓reduceIte, Ctl.bind_val, Out.ok_bind]
        by_cases h2 : a + (toSepArg sep).len * (slice.length - 1) < 2 ^ 64 <;> simp [h2]
      · simp [h1]

example : Extracted.join_sum_lengths 4 ⟨.Char 0x20AC, [[0x61], [0x62, 0x63], []]⟩ = .ok 9 := by
  rw [join_sum_lengths_eq 4 _ (by decide) (by decide)]; rfl
example : Extracted.join_sum_lengths 1 ⟨.Str [0x2C, 0x20], []⟩ = .ok 0 := by
  rw [join_sum_lengths_eq 1 _ (by decide) (by decide)]; rfl

/-! ## `join_strs` -/

theorem cc_join_loop1 (N end_ : Nat) (slice : List Nat) :
    Extracted.join_strs.loop1 N end_ slice = cc_wbody end_ slice := rfl
theorem cc_join_loop3 (N end_ : Nat) (slice : List Nat) :
    Extracted.join_strs.loop3 N end_ slice = cc_wbody end_ slice := rfl
theorem cc_join_loop4 (N end_ : Nat) (slice : List Nat) :
    Extracted.join_strs.loop4 N end_ slice = cc_wbody end_ slice := rfl

/-- the `for_range!{si in 0..rem_slices.len() => write_str!{sep} write_str!{rem_slices[si]}}` loop -/
theorem cc_join_loop2 (N F n : Nat) (sep : List Nat) (rem : List (List Nat)) (i : Nat) (out : List Nat) (oi : Nat)
    (hl : rem.length < 2 ^ 64) (hN : out.length < 2 ^ 64) (hFs : sep.length + 1 ≤ F)
    (hF : ∀ s ∈ rem, s.length + 1 ≤ F) (hi : i ≤ rem.length) (hn : rem.length - i + 1 ≤ n) :
    Rs.loop n (Extracted.join_strs.loop2 N F rem.length sep rem) (i, out, oi)
      = cc_ctl3 rem.length (joinRemLoop sep (rem.drop i) out oi) := by
  induction n generalizing i out oi with
  | zero => omega
  | succ n ih =>
    rw [Rs.loop_succ]
    by_cases hc : i < rem.length
    · have h1 : i + 1 < 2 ^ 64 := by omega
      have hlen : rem[i].length + 1 ≤ F := hF _ (List.getElem_mem hc)
      rw [List.drop_eq_getElem_cons hc]
      simp only [Extracted.join_strs.loop2, hc, decide_true, ↓reduceIte, Rs.uadd, h1, Ctl.bind_eq, Ctl.bind_val,
        cc_join_loop3, cc_write_block F sep out oi hN hFs, joinRemLoop, Ctl.pure_eq]
      cases hw : writeBytes sep out oi with
      | panic p => simp
      | ok r =>
        obtain ⟨o, k⟩ := r
        have ho := (cc_writeBytes_length _ _ _ _ _ hw).1
        simp only [cc_ctl3_ok, Ctl.bind_val, Out.ok_bind, Rs.index, List.getElem?_eq_getElem hc, cc_join_loop4,
          cc_write_block F rem[i] o k (by omega) hlen]
        cases hw2 : writeBytes rem[i] o k with
        | panic p => simp
        | ok r2 =>
          obtain ⟨o2, k2⟩ := r2
          have ho2 := (cc_writeBytes_length _ _ _ _ _ hw2).1
          simp only [cc_ctl3_ok, Ctl.bind_val, Out.ok_bind]
          exact ih (i := i + 1) (out := o2) (oi := k2) (by omega) (by omega) (by omega)
    · have : i = rem.length := by omega
      subst this
      simp [Extracted.join_strs.loop2, joinRemLoop]

/-- machine range of a `StrJoinArgs`: the slice has a `usize` length, a `char` separator is a `u32` value -/
def JoinArgOk (arg : Extracted.StrJoinArgs) : Prop :=
  arg.slice.length < 2 ^ 64 ∧ (match arg.sep with | .Char c => c < 2 ^ 32 | .Str _ => True)

/-- sufficient fuel for `join_strs` (the same `fuel` goes to all four loops): the number of pieces, and one
    unit per byte of every piece and of the separator + 1 -/
def JoinFuelOk (fuel : Nat) (arg : Extracted.StrJoinArgs) : Prop :=
  arg.slice.length ≤ fuel ∧ (∀ s ∈ arg.slice, s.length + 1 ≤ fuel) ∧ (toSepArg arg.sep).bytes.length + 1 ≤ fuel

/-- `join_strs` with a `&str` separator -/
theorem cc_join_strs_str (N fuel : Nat) (s : List Nat) (slices : List (List Nat)) (hN : N < 2 ^ 64)
    (hl : slices.length < 2 ^ 64) (hf1 : slices.length ≤ fuel) (hf2 : ∀ x ∈ slices, x.length + 1 ≤ fuel)
    (hf3 : s.length + 1 ≤ fuel) :
    Extracted.join_strs N fuel ⟨.Str s, slices⟩ = outToArrayStr N (joinStrs N (.str s) slices) := by
  unfold Extracted.join_strs joinStrs
  cases slices with
  | nil => simp [Rs.repeatN]
  | cons first rem =>
    have hfirst : first.length + 1 ≤ fuel := hf2 _ (by simp)
    have hrem : ∀ x ∈ rem, x.length + 1 ≤ fuel := fun x hx => hf2 x (by simp [hx])
    simp only [List.length_cons] at hl hf1
    simp only [Ctl.pure_eq, Ctl.bind_eq, Ctl.bind_val, Rs.repeatN, cc_join_loop1, SepArg.bytes,
      cc_write_block fuel first (List.replicate N 0) 0 (by simpa using hN) hfirst]
    cases hw : writeBytes first (List.replicate N 0) 0 with
    | panic p => simp
    | ok r =>
      obtain ⟨o, k⟩ := r
      have ho := (cc_writeBytes_length _ _ _ _ _ hw).1
      simp only [List.length_replicate] at ho
      have := cc_join_loop2 N fuel fuel s rem 0 o k (by omega) (by omega) hf3 hrem (by omega) (by omega)
      rw [List.drop_zero] at this
      simp only [cc_ctl3_ok, Ctl.bind_val, Out.ok_bind, this]
      cases joinRemLoop s rem o k with
      | panic p => simp
      | ok r2 => obtain ⟨o2, k2⟩ := r2; simp

/-- a `char` separator is encoded first (`utf8e = encode_utf8(c); utf8e.as_str()`), the rest is the same code -/
theorem cc_join_strs_char (N fuel : Nat) (c : Nat) (slices : List (List Nat)) (hc : c < 2 ^ 32) :
    Extracted.join_strs N fuel ⟨.Char c, slices⟩
      = Extracted.join_strs N fuel ⟨.Str (Konst.Concat.encodeUtf8 c).asBytes, slices⟩ := by
  unfold Extracted.join_strs
  simp only [encode_utf8_eq c hc, cc_encodeUtf8_models, Ctl.call_ok, Ctl.bind_eq, Ctl.bind_val,
    Utf8Encoded_as_str_eq, toModelUtf8_ofModelUtf8, Ctl.pure_eq]

/-- `join_strs::<N>`, for every `N : usize` and every argument: the buffer the model computes (the joined bytes
    followed by the untouched zeros), a panic at `out[out_i] = …` exactly when the model says `Panic.index` -/
theorem join_strs_eq (N fuel : Nat) (arg : Extracted.StrJoinArgs) (hN : N < 2 ^ 64)
    (ha : JoinArgOk arg) (hf : JoinFuelOk fuel arg) :
    Extracted.join_strs N fuel arg = outToArrayStr N (joinStrs N (toSepArg arg.sep) arg.slice) := by
  obtain ⟨sep, slices⟩ := arg
  obtain ⟨hl, hc⟩ := ha
  obtain ⟨hf1, hf2, hf3⟩ := hf
  cases sep with
  | Str s => exact cc_join_strs_str N fuel s slices hN hl hf1 hf2 hf3
  | Char c =>
    rw [cc_join_strs_char N fuel c slices hc,
      cc_join_strs_str N fuel (Konst.Concat.encodeUtf8 c).asBytes slices hN hl hf1 hf2 hf3]
    rfl

example : Extracted.join_strs 9 5 ⟨.Char 0x20AC, [[0x61], [0x62, 0x63], []]⟩
    = .ok ⟨[0x61, 0xE2, 0x82, 0xAC, 0x62, 0x63, 0xE2, 0x82, 0xAC]⟩ := by
  rw [join_strs_eq 9 5 _ (by decide) (by simp [JoinArgOk]) (by simp [JoinFuelOk]; decide)]; rfl
example : Extracted.join_strs 6 3 ⟨.Str [0x2C, 0x20], [[0x61], [0x62]]⟩ = .ok ⟨[0x61, 0x2C, 0x20, 0x62, 0, 0]⟩ := by
  rw [join_strs_eq 6 3 _ (by decide) (by simp [JoinArgOk]) (by simp [JoinFuelOk, toSepArg, SepArg.bytes])]; rfl
example : Extracted.join_strs 3 3 ⟨.Str [0x2C, 0x20], [[0x61], [0x62]]⟩ = .panic := by
  rw [join_strs_eq 3 3 _ (by decide) (by simp [JoinArgOk]) (by simp [JoinFuelOk, toSepArg, SepArg.bytes])]; rfl

/-! ## corollaries: closed forms and std-level statements (via the property theorems of `Props/C20.lean`)

  `written a` = the concatenation of the pieces' bytes (`Lemmas/Concat.lean`); `stdJoin sep ss = List.intercalate sep ss`,
  `stdConcat ss = ss.flatten`, `stdCollectChars cs = Utf8.encs cs` are the reference semantics of `Spec/Concat.lean`. -/

open Konst.Spec Konst.Spec.Concat Konst.Props.C20

/-- total number of bytes of the pieces -/
def totalLen (arg : Extracted.StrConcatArg) : Nat := (written (toConcatArg arg)).length

theorem cc_written_Str (ss : List (List Nat)) : written (toConcatArg (.Str ss)) = ss.flatten := by
  simp [written, toConcatArg, ConcatArg.elems, Elem.bytes, Function.comp_def]

/-- `concat_sum_lengths` returns the total byte length when it fits a `usize` … -/
theorem concat_sum_lengths_total (fuel : Nat) (arg : Extracted.StrConcatArg)
    (hl : (toConcatArg arg).elems.length < 2 ^ 64) (hf : (toConcatArg arg).elems.length + 1 ≤ fuel)
    (ht : totalLen arg < 2 ^ 64) :
    Extracted.concat_sum_lengths fuel arg = .ok (totalLen arg) := by
  rw [concat_sum_lengths_eq fuel arg hl hf, concatSumLengths_eq, if_pos (by simpa [USIZE, totalLen] using ht)]
  rfl

/-- … and panics (arithmetic overflow) otherwise -/
theorem concat_sum_lengths_overflow (fuel : Nat) (arg : Extracted.StrConcatArg)
    (hl : (toConcatArg arg).elems.length < 2 ^ 64) (hf : (toConcatArg arg).elems.length + 1 ≤ fuel)
    (ht : ¬ totalLen arg < 2 ^ 64) :
    Extracted.concat_sum_lengths fuel arg = .panic := by
  rw [concat_sum_lengths_eq fuel arg hl hf, concatSumLengths_eq, if_neg (by simpa [USIZE, totalLen] using ht)]
  rfl

/-- `concat_strs::<N>` with `N ≥` the total length: the concatenated bytes followed by `N - total` zeros -/
theorem concat_strs_padded (N fuel : Nat) (arg : Extracted.StrConcatArg) (hN : N < 2 ^ 64)
    (ha : ConcatArgOk arg) (hf : ConcatFuelOk fuel arg) (ht : totalLen arg ≤ N) :
    Extracted.concat_strs N fuel arg
      = .ok ⟨written (toConcatArg arg) ++ List.replicate (N - totalLen arg) 0⟩ := by
  rw [concat_strs_eq N fuel arg hN ha hf, concatStrs_eq,
    if_pos (show (written (toConcatArg arg)).length ≤ N from ht)]
  rfl

/-- `concat_strs::<LEN>` with `LEN` = the total length (what `str_concat!` instantiates): exactly the
    concatenated bytes -/
theorem concat_strs_exact (fuel : Nat) (arg : Extracted.StrConcatArg) (hN : totalLen arg < 2 ^ 64)
    (ha : ConcatArgOk arg) (hf : ConcatFuelOk fuel arg) :
    Extracted.concat_strs (totalLen arg) fuel arg = .ok ⟨written (toConcatArg arg)⟩ := by
  rw [concat_strs_padded _ fuel arg hN ha hf (Nat.le_refl _)]
  simp

/-- `concat_strs::<N>` with `N <` the total length panics (index out of bounds at `out[out_i] = …`) -/
theorem concat_strs_too_small (N fuel : Nat) (arg : Extracted.StrConcatArg) (hN : N < 2 ^ 64)
    (ha : ConcatArgOk arg) (hf : ConcatFuelOk fuel arg) (ht : N < totalLen arg) :
    Extracted.concat_strs N fuel arg = .panic := by
  rw [concat_strs_eq N fuel arg hN ha hf, concatStrs_eq, if_neg (by unfold totalLen at ht; omega)]
  rfl

/-- std level, `&str` pieces: `concat_strs::<LEN>(Str(pieces))` holds `pieces.concat()` -/
theorem concat_strs_Str_flatten (fuel : Nat) (ss : List (List Nat)) (hN : ss.flatten.length < 2 ^ 64)
    (hl : ss.length < 2 ^ 64) (hf : ConcatFuelOk fuel (.Str ss)) :
    Extracted.concat_strs ss.flatten.length fuel (.Str ss) = .ok ⟨stdConcat ss⟩ := by
  have e : totalLen (.Str ss) = ss.flatten.length := by rw [totalLen, cc_written_Str]
  have := concat_strs_exact fuel (.Str ss) (by rw [e]; exact hN) hl hf
  rw [e, cc_written_Str] at this
  exact this

/-- std level, `char` pieces (scalar values): `concat_strs::<LEN>(Char(cs))` holds `cs.iter().collect::<String>()` -/
theorem concat_strs_Char_collect (fuel : Nat) (cs : List Nat) (hs : ∀ c ∈ cs, Utf8.isScalar c = true)
    (hN : (stdCollectChars cs).length < 2 ^ 64) (hl : cs.length < 2 ^ 64) (hf : ConcatFuelOk fuel (.Char cs)) :
    Extracted.concat_strs (stdCollectChars cs).length fuel (.Char cs) = .ok ⟨stdCollectChars cs⟩ := by
  have hw : written (toConcatArg (.Char cs)) = stdCollectChars cs := written_eq_std (.chars cs) hs
  have hc : ∀ c ∈ cs, c < 2 ^ 32 := fun c h => by
    have := Konst.Lemmas.Concat.scalar_lt c (hs c h); omega
  have e : totalLen (.Char cs) = (stdCollectChars cs).length := by rw [totalLen, hw]
  have := concat_strs_exact fuel (.Char cs) (by rw [e]; exact hN) ⟨hl, hc⟩ hf
  rw [e, hw] at this
  exact this

/-- the separator bytes the join functions see -/
def sepBytes (sep : Extracted.SepArg) : List Nat := (toSepArg sep).bytes

theorem sepBytes_Str (s : List Nat) : sepBytes (.Str s) = s := rfl
/-- for a scalar value the separator bytes are its RFC 3629 encoding -/
theorem sepBytes_Char (c : Nat) (h : Utf8.isScalar c = true) : sepBytes (.Char c) = Utf8.enc c :=
  sepBytes_eq_std (.chr c) h

/-- `join_sum_lengths` = the length of `slice.join(sep)` when it fits a `usize` … -/
theorem join_sum_lengths_total (fuel : Nat) (arg : Extracted.StrJoinArgs)
    (hl : arg.slice.length < 2 ^ 64) (hf : arg.slice.length + 1 ≤ fuel)
    (ht : (stdJoin (sepBytes arg.sep) arg.slice).length < 2 ^ 64) :
    Extracted.join_sum_lengths fuel arg = .ok (stdJoin (sepBytes arg.sep) arg.slice).length := by
  rw [join_sum_lengths_eq fuel arg hl hf, joinSumLengths_eq, if_pos (by simpa [USIZE, sepBytes] using ht)]
  rfl

/-- … and panics (arithmetic overflow) otherwise -/
theorem join_sum_lengths_overflow (fuel : Nat) (arg : Extracted.StrJoinArgs)
    (hl : arg.slice.length < 2 ^ 64) (hf : arg.slice.length + 1 ≤ fuel)
    (ht : ¬ (stdJoin (sepBytes arg.sep) arg.slice).length < 2 ^ 64) :
    Extracted.join_sum_lengths fuel arg = .panic := by
  rw [join_sum_lengths_eq fuel arg hl hf, joinSumLengths_eq, if_neg (by simpa [USIZE, sepBytes] using ht)]
  rfl

/-- `join_strs::<N>` with `N ≥` the joined length: `slice.join(sep)` followed by `N - len` zeros -/
theorem join_strs_padded (N fuel : Nat) (arg : Extracted.StrJoinArgs) (hN : N < 2 ^ 64)
    (ha : JoinArgOk arg) (hf : JoinFuelOk fuel arg) (ht : (stdJoin (sepBytes arg.sep) arg.slice).length ≤ N) :
    Extracted.join_strs N fuel arg
      = .ok ⟨stdJoin (sepBytes arg.sep) arg.slice
              ++ List.replicate (N - (stdJoin (sepBytes arg.sep) arg.slice).length) 0⟩ := by
  rw [join_strs_eq N fuel arg hN ha hf, joinStrs_eq,
    if_pos (show (stdJoin (toSepArg arg.sep).bytes arg.slice).length ≤ N from ht)]
  rfl

/-- `join_strs::<LEN>` with `LEN` = the joined length (what `str_join!` instantiates): exactly
    `slice.join(sep)` = `List.intercalate sep slice` -/
theorem join_strs_exact (fuel : Nat) (arg : Extracted.StrJoinArgs)
    (hN : (stdJoin (sepBytes arg.sep) arg.slice).length < 2 ^ 64) (ha : JoinArgOk arg) (hf : JoinFuelOk fuel arg) :
    Extracted.join_strs (stdJoin (sepBytes arg.sep) arg.slice).length fuel arg
      = .ok ⟨List.intercalate (sepBytes arg.sep) arg.slice⟩ := by
  rw [join_strs_padded _ fuel arg hN ha hf (Nat.le_refl _)]
  simp [stdJoin]

/-- `join_strs::<N>` with `N <` the joined length panics (index out of bounds at `out[out_i] = …`) -/
theorem join_strs_too_small (N fuel : Nat) (arg : Extracted.StrJoinArgs) (hN : N < 2 ^ 64)
    (ha : JoinArgOk arg) (hf : JoinFuelOk fuel arg) (ht : N < (stdJoin (sepBytes arg.sep) arg.slice).length) :
    Extracted.join_strs N fuel arg = .panic := by
  rw [join_strs_eq N fuel arg hN ha hf, joinStrs_eq, if_neg (by unfold sepBytes at ht; omega)]
  rfl

example : Extracted.concat_strs 5 4 (.Str [[0x68, 0x69], [0xE2, 0x82, 0xAC]]) = .ok ⟨[0x68, 0x69, 0xE2, 0x82, 0xAC]⟩ :=
  concat_strs_Str_flatten 4 [[0x68, 0x69], [0xE2, 0x82, 0xAC]] (by decide) (by decide) (by simp [ConcatFuelOk])
example : Extracted.join_strs 4 3 ⟨.Str [0x2C, 0x20], [[0x61], [0x62]]⟩ = .ok ⟨[0x61, 0x2C, 0x20, 0x62]⟩ :=
  join_strs_exact 3 ⟨.Str [0x2C, 0x20], [[0x61], [0x62]]⟩ (by decide) (by simp [JoinArgOk])
    (by simp [JoinFuelOk, toSepArg, SepArg.bytes])
example : Extracted.concat_strs 6 5 (.Char [0x41, 0xE9, 0x20AC]) = .ok ⟨[0x41, 0xC3, 0xA9, 0xE2, 0x82, 0xAC]⟩ :=
  concat_strs_Char_collect 5 [0x41, 0xE9, 0x20AC] (by decide) (by decide) (by decide) (by simp [ConcatFuelOk])

end Extracted.Equiv
