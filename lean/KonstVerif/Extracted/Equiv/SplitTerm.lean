import KonstVerif.Extracted.Gen.SplitTerm
import KonstVerif.Extracted.Equiv.StrFns
import KonstVerif.Extracted.Equiv.Str
import KonstVerif.Model.Split
import KonstVerif.Lemmas.Bytes
/-
  Extracted (regenerated from /repo) = Model, for `konst::string::split_terminator_items`
  (group `SplitTerm`, 6 functions): `split_terminator`, `rsplit_terminator`, `SplitTerminator::next`,
  `SplitTerminator::remainder`, `RSplitTerminator::next`, `RSplitTerminator::remainder`, against
  `Konst.Split.splitTerminator / rsplitTerminator / TIter.next / TIter.remainder / TIter.rnext /
  TIter.remainder` (Model/Split.lean, section "split_terminator_items.rs").

  Conversions (namespace `Extracted.Equiv.SplitTerm`).
    * The model's `&str` is a `Konst.Split.Str` = (byte offset inside the ORIGINAL haystack, bytes); the
      generated structures hold the bytes only (`List Nat`).  Model -> extraction FORGETS the offset
      (`Str.bytes`); extraction -> model takes the offset as an explicit parameter `off` (any value: the
      theorems hold for every offset, i.e. the code does not depend on it).
    * `emptyOfModel/emptyToModel`, `stateOfModel/stateToModel`: bijections (same constructors).
    * `iterOfModel / riterOfModel : TIter → SplitTerminator / RSplitTerminator` (the model uses ONE
      structure `TIter` for both Rust structs, which have the same two fields),
      `iterToModel / riterToModel off : SplitTerminator / RSplitTerminator → TIter`;
      `iterOfModel (iterToModel off s) = s`.
    * `resNext / resRNext`: the model's `E (Option (Str × TIter))` as the result of the extraction:
      `.ok none ↦ .ok none`, `.ok (some (p, it)) ↦ .ok (some (p.bytes, iterOfModel it))`,
      `.error _ ↦ .panic` (the model's panics: `non_char_boundary_panic` of `str_from` / `str_up_to` /
      `split_at`, and the `position -= 1` underflow of `__find_prev_char_boundary`).
      A piece / remainder the model obtains by `Str.cut x v` has the bytes `v.apply x.bytes`, so this is the
      `View.apply` conversion of the guide.

  Shape of the theorems: the code panics EXACTLY when the model returns `.error`; no UTF-8 validity
  hypothesis is needed for `next` (both sides panic on the same non-boundary cuts).  Each `next` theorem is
  given in two (equivalent) forms:
    * `<T>.next_eq fuel off self`: for every generated state `self` and every offset `off`,
        `Extracted.<T>.next fuel self = resNext ((iterToModel off self).next)`;
    * `<T>.next_sim fuel it`: for every model state `it`,
        `Extracted.<T>.next fuel (iterOfModel it) = resNext it.next`
      (the commuting square with the abstraction map `iterOfModel`, the form that composes along a run).

  Hypotheses.
    * `hb : ∀ b ∈ this, b < 256`: the code casts `bytes[i] as i8` in the char-boundary tests.
    * forwards: `hl : this.length + d + 1 < 2 ^ 64`, `hf : this.length + d + 2 ≤ fuel`, where `d` is the
      length of the delimiter (`delimLen`; 0 in the `Empty` states): bound and fuel of `string::find`
      (`str_find_eq`); it also keeps the checked `pos + delim.len()` in range, and covers
      `__find_next_char_boundary(bytes, 0)` (`find_next_char_boundary_eq`).
    * backwards: `hl : this.length < 2 ^ 64`, `hf : this.length + 1 ≤ fuel`: those of `string::rfind`
      (`str_rfind_eq`); `pos + delim.len() ≤ this.len()` always; covers `__find_prev_char_boundary`.
-/
namespace Extracted.Equiv
open Rs Konst

namespace SplitTerm

/-! ### conversions -/

def emptyOfModel : Split.EmptyState → Extracted.TEmptyState
  | .start => .Start
  | .cont => .Continue

def emptyToModel : Extracted.TEmptyState → Split.EmptyState
  | .Start => .start
  | .Continue => .cont

def stateOfModel : Split.TState → Extracted.TState
  | .normal delim => .Normal delim
  | .empty es => .Empty (emptyOfModel es)

def stateToModel : Extracted.TState → Split.TState
  | .Normal delim => .normal delim
  | .Empty es => .empty (emptyToModel es)

/-- the model's iterator as the generated `SplitTerminator`: the offset of `this` is forgotten -/
def iterOfModel (it : Split.TIter) : Extracted.SplitTerminator :=
  { this_ := it.this.bytes, state := stateOfModel it.state }

/-- the model's iterator as the generated `RSplitTerminator` (same fields) -/
def riterOfModel (it : Split.TIter) : Extracted.RSplitTerminator :=
  { this_ := it.this.bytes, state := stateOfModel it.state }

/-- the generated `SplitTerminator` as the model's iterator, `this` placed at offset `off` of the haystack -/
def iterToModel (off : Nat) (s : Extracted.SplitTerminator) : Split.TIter :=
  { this := ⟨off, s.this_⟩, state := stateToModel s.state }

def riterToModel (off : Nat) (s : Extracted.RSplitTerminator) : Split.TIter :=
  { this := ⟨off, s.this_⟩, state := stateToModel s.state }

@[simp] theorem emptyOfModel_toModel (e : Extracted.TEmptyState) : emptyOfModel (emptyToModel e) = e := by
  cases e <;> rfl
@[simp] theorem emptyToModel_ofModel (e : Split.EmptyState) : emptyToModel (emptyOfModel e) = e := by
  cases e <;> rfl
@[simp] theorem stateOfModel_toModel (s : Extracted.TState) : stateOfModel (stateToModel s) = s := by
  cases s <;> simp [stateToModel, stateOfModel]
@[simp] theorem stateToModel_ofModel (s : Split.TState) : stateToModel (stateOfModel s) = s := by
  cases s <;> simp [stateToModel, stateOfModel]
@[simp] theorem iterOfModel_toModel (off : Nat) (s : Extracted.SplitTerminator) :
    iterOfModel (iterToModel off s) = s := by
  cases s; simp [iterOfModel, iterToModel]
@[simp] theorem riterOfModel_toModel (off : Nat) (s : Extracted.RSplitTerminator) :
    riterOfModel (riterToModel off s) = s := by
  cases s; simp [riterOfModel, riterToModel]
/-- the other round trip: only the offset is re-chosen -/
theorem iterToModel_ofModel (it : Split.TIter) : iterToModel it.this.off (iterOfModel it) = it := by
  cases it; simp [iterOfModel, iterToModel]
theorem riterToModel_ofModel (it : Split.TIter) : riterToModel it.this.off (riterOfModel it) = it := by
  cases it; simp [riterOfModel, riterToModel]

/-- length of the delimiter a state carries (0 for the `Empty` states) -/
def delimLen : Extracted.TState → Nat
  | .Normal delim => delim.length
  | .Empty _ => 0

/-- result of the model's `TIter.next` as the result of `SplitTerminator::next` -/
def resNext : Split.E (Option (Split.Str × Split.TIter)) →
    Res (Option (List Nat × Extracted.SplitTerminator))
  | .ok none => .ok none
  | .ok (some (p, it)) => .ok (some (p.bytes, iterOfModel it))
  | .error _ => .panic

/-- result of the model's `TIter.rnext` as the result of `RSplitTerminator::next` -/
def resRNext : Split.E (Option (Split.Str × Split.TIter)) →
    Res (Option (List Nat × Extracted.RSplitTerminator))
  | .ok none => .ok none
  | .ok (some (p, it)) => .ok (some (p.bytes, riterOfModel it))
  | .error _ => .panic

@[simp] theorem resNext_none : resNext (.ok none) = .ok none := rfl
@[simp] theorem resNext_some (p : Split.Str) (it : Split.TIter) :
    resNext (.ok (some (p, it))) = .ok (some (p.bytes, iterOfModel it)) := rfl
@[simp] theorem resNext_error (e : Utf8.Panic) : resNext (.error e) = .panic := rfl
@[simp] theorem resRNext_none : resRNext (.ok none) = .ok none := rfl
@[simp] theorem resRNext_some (p : Split.Str) (it : Split.TIter) :
    resRNext (.ok (some (p, it))) = .ok (some (p.bytes, riterOfModel it)) := rfl
@[simp] theorem resRNext_error (e : Utf8.Panic) : resRNext (.error e) = .panic := rfl

/-- every position `string::find` reports is at most `left.len()` -/
theorem find_le (left pat : List Nat) (k : Nat) (h : StrFns.find left pat = some k) :
    k ≤ left.length :=
  ((Lemmas.Bytes.findLoop_spec left pat (left.length + 1) 0 (by omega) (by intro j hj; omega)).1 k h).2.1

/-- every position `string::rfind` reports leaves room for the pattern (also for the empty pattern, where
    the code returns `left.len().saturating_sub(1)`) -/
theorem rfind_add_le (left pat : List Nat) (k : Nat) (h : StrFns.rfind left pat = some k) :
    k + pat.length ≤ left.length := by
  unfold StrFns.rfind Bytes.bytesRfind at h
  by_cases he : pat.isEmpty = true
  · simp only [he, ↓reduceIte, Option.some.injEq] at h
    have : pat.length = 0 := by simpa using he
    omega
  · simp only [he, Bool.false_eq_true, ↓reduceIte] at h
    by_cases hlen : pat.length > left.length
    · simp [hlen] at h
    · simp only [hlen, ↓reduceIte] at h
      have := rfindLoop_lt left pat _ k h
      omega

end SplitTerm

open SplitTerm

/-! ### `split_terminator`, `rsplit_terminator` -/

/-- `split_terminator`: the model's initial state (`this` at offset 0 of itself) -/
theorem split_terminator_eq (this delim : List Nat) :
    Extracted.split_terminator this delim = .ok (iterOfModel (Split.splitTerminator this delim)) := by
  unfold Extracted.split_terminator Split.splitTerminator iterOfModel
  cases delim <;> rfl

example : Extracted.split_terminator [97, 44, 98] [44]
    = .ok { this_ := [97, 44, 98], state := .Normal [44] } := by decide
example : Extracted.split_terminator [97, 44, 98] []
    = .ok (iterOfModel (Split.splitTerminator [97, 44, 98] [])) := split_terminator_eq _ _

/-- the model's initial state is the generated one placed at offset 0 -/
theorem splitTerminator_toModel (this delim : List Nat) :
    iterToModel 0 (iterOfModel (Split.splitTerminator this delim)) = Split.splitTerminator this delim :=
  iterToModel_ofModel (Split.splitTerminator this delim)

theorem rsplit_terminator_eq (this delim : List Nat) :
    Extracted.rsplit_terminator this delim = .ok (riterOfModel (Split.rsplitTerminator this delim)) := by
  unfold Extracted.rsplit_terminator
  rw [split_terminator_eq]
  rfl

example : Extracted.rsplit_terminator [97, 44, 98] [44]
    = .ok { this_ := [97, 44, 98], state := .Normal [44] } := by decide

/-! ### `SplitTerminator::next` -/

/-- `SplitTerminator::next` simulates the model's `TIter.next` through the abstraction map `iterOfModel`;
    the code panics exactly when the model returns `.error` -/
theorem SplitTerminator.next_sim (fuel : Nat) (it : Split.TIter)
    (hb : ∀ b ∈ it.this.bytes, b < 256)
    (hl : it.this.bytes.length + delimLen (stateOfModel it.state) + 1 < 2 ^ 64)
    (hf : it.this.bytes.length + delimLen (stateOfModel it.state) + 2 ≤ fuel) :
    Extracted.SplitTerminator.next fuel (iterOfModel it) = resNext it.next := by
  obtain ⟨⟨off, bytes⟩, state⟩ := it
  cases state with
  | empty es =>
    cases es with
    | start => rfl
    | cont =>
      simp only [delimLen, stateOfModel] at hl hf hb
      by_cases he : bytes.isEmpty = true
      · simp [Extracted.SplitTerminator.next, Split.TIter.next, iterOfModel, stateOfModel, emptyOfModel, he]
      · unfold Extracted.SplitTerminator.next Split.TIter.next
        simp only [iterOfModel, stateOfModel, emptyOfModel, he,
          find_next_char_boundary_eq fuel bytes 0 hb (by omega) (by omega) (by omega),
          str_split_at_eq _ _ hb]
        simp only [Bool.false_eq_true, ↓reduceIte, Ctl.call_ok, Ctl.bind_eq, Ctl.bind_val, Split.splitAtStr]
        cases Utf8.splitAt bytes (Utf8.findNextCharBoundary bytes 0) with
        | error e => rfl
        | ok p => rfl
  | normal delim =>
    simp only [delimLen, stateOfModel] at hl hf hb
    by_cases he : bytes.isEmpty = true
    · simp [Extracted.SplitTerminator.next, Split.TIter.next, iterOfModel, stateOfModel, he]
    · unfold Extracted.SplitTerminator.next Split.TIter.next
      simp only [iterOfModel, stateOfModel, he, str_find_eq fuel bytes delim hl hf,
        Bool.false_eq_true, ↓reduceIte, Ctl.call_ok, Ctl.bind_eq, Ctl.bind_val]
      cases hr : StrFns.find bytes delim with
      | none =>
        simp only [Ctl.pure_eq, Ctl.bind_val, str_from_eq _ _ hb, str_up_to_eq _ _ hb]
        cases Utf8.strFrom bytes bytes.length <;> cases Utf8.strUpTo bytes bytes.length <;> rfl
      | some pos =>
        have hk : pos ≤ bytes.length := find_le bytes delim pos hr
        have hadd : pos + delim.length < 2 ^ 64 := by omega
        simp only [Rs.uadd, hadd, ↓reduceIte, Ctl.pure_eq, Ctl.bind_val, str_from_eq _ _ hb,
          str_up_to_eq _ _ hb]
        cases Utf8.strFrom bytes (pos + delim.length) <;> cases Utf8.strUpTo bytes pos <;> rfl

/-- `SplitTerminator::next` on any generated state, against the model's `TIter.next` on the same state with
    `this` placed at an arbitrary offset `off` of the haystack -/
theorem SplitTerminator.next_eq (fuel off : Nat) (self : Extracted.SplitTerminator)
    (hb : ∀ b ∈ self.this_, b < 256)
    (hl : self.this_.length + delimLen self.state + 1 < 2 ^ 64)
    (hf : self.this_.length + delimLen self.state + 2 ≤ fuel) :
    Extracted.SplitTerminator.next fuel self = resNext (iterToModel off self).next := by
  have h := SplitTerminator.next_sim fuel (iterToModel off self) hb
    (by simpa [iterToModel] using hl) (by simpa [iterToModel] using hf)
  rwa [iterOfModel_toModel] at h

example : Extracted.SplitTerminator.next 9 { this_ := [97, 44, 98, 44], state := .Normal [44] }
    = .ok (some ([97], { this_ := [98, 44], state := .Normal [44] })) := by
  rw [SplitTerminator.next_eq 9 0 _ (by decide) (by decide) (by decide)]; decide
/-- no terminator left: the rest is yielded, the remainder becomes empty -/
example : Extracted.SplitTerminator.next 9 { this_ := [98], state := .Normal [44] }
    = .ok (some ([98], { this_ := [], state := .Normal [44] })) := by
  rw [SplitTerminator.next_eq 9 7 _ (by decide) (by decide) (by decide)]; decide
example : Extracted.SplitTerminator.next 9 { this_ := [], state := .Normal [44] } = .ok none := by
  rw [SplitTerminator.next_eq 9 0 _ (by decide) (by decide) (by decide)]; decide
/-- a delimiter (not UTF-8) found inside a multi-byte char: `str_from` panics, in code and model -/
example : Extracted.SplitTerminator.next 9 { this_ := [0x41, 0xE2, 0x82, 0xAC], state := .Normal [0xE2] }
    = .panic := by
  rw [SplitTerminator.next_eq 9 0 _ (by decide) (by decide) (by decide)]; decide
/-- empty delimiter: `""` first, then one char at a time -/
example : Extracted.SplitTerminator.next 9 { this_ := [0xE2, 0x82, 0xAC, 0x41], state := .Empty .Start }
    = .ok (some ([], { this_ := [0xE2, 0x82, 0xAC, 0x41], state := .Empty .Continue })) := by decide
example : Extracted.SplitTerminator.next 9 { this_ := [0xE2, 0x82, 0xAC, 0x41], state := .Empty .Continue }
    = .ok (some ([0xE2, 0x82, 0xAC], { this_ := [0x41], state := .Empty .Continue })) := by decide
example : Extracted.SplitTerminator.next 9 { this_ := [0xE2, 0x82, 0xAC, 0x41], state := .Empty .Continue }
    = resNext (iterToModel 0 { this_ := [0xE2, 0x82, 0xAC, 0x41], state := .Empty .Continue }).next :=
  SplitTerminator.next_eq 9 0 _ (by decide) (by decide) (by decide)

/-! ### `RSplitTerminator::next` -/

/-- `RSplitTerminator::next` simulates the model's `TIter.rnext` through the abstraction map
    `riterOfModel`; the code panics exactly when the model returns `.error` (a non-boundary cut, or the
    `position -= 1` underflow inside `__find_prev_char_boundary`) -/
theorem RSplitTerminator.next_sim (fuel : Nat) (it : Split.TIter)
    (hb : ∀ b ∈ it.this.bytes, b < 256)
    (hl : it.this.bytes.length < 2 ^ 64)
    (hf : it.this.bytes.length + 1 ≤ fuel) :
    Extracted.RSplitTerminator.next fuel (riterOfModel it) = resRNext it.rnext := by
  obtain ⟨⟨off, bytes⟩, state⟩ := it
  cases state with
  | empty es =>
    cases es with
    | start => rfl
    | cont =>
      simp only at hl hf hb
      by_cases he : bytes.isEmpty = true
      · simp [Extracted.RSplitTerminator.next, Split.TIter.rnext, riterOfModel, stateOfModel, emptyOfModel, he]
      · unfold Extracted.RSplitTerminator.next Split.TIter.rnext
        simp only [riterOfModel, stateOfModel, emptyOfModel, he,
          find_prev_char_boundary_eq fuel bytes bytes.length hb (by omega),
          str_split_at_eq _ _ hb, Bool.false_eq_true, ↓reduceIte]
        cases Utf8.findPrevCharBoundary bytes bytes.length with
        | none => rfl
        | some k =>
          simp only [resOfOption_some, Ctl.call_ok, Ctl.bind_eq, Ctl.bind_val, Split.splitAtStr]
          cases Utf8.splitAt bytes k with
          | error e => rfl
          | ok p => rfl
  | normal delim =>
    simp only at hl hf hb
    by_cases he : bytes.isEmpty = true
    · simp [Extracted.RSplitTerminator.next, Split.TIter.rnext, riterOfModel, stateOfModel, he]
    · unfold Extracted.RSplitTerminator.next Split.TIter.rnext
      simp only [riterOfModel, stateOfModel, he, str_rfind_eq fuel bytes delim hl hf,
        Bool.false_eq_true, ↓reduceIte, Ctl.call_ok, Ctl.bind_eq, Ctl.bind_val]
      cases hr : StrFns.rfind bytes delim with
      | none =>
        simp only [Ctl.pure_eq, Ctl.bind_val, str_from_eq _ _ hb, str_up_to_eq _ _ hb]
        cases Utf8.strUpTo bytes 0 <;> cases Utf8.strFrom bytes 0 <;> rfl
      | some pos =>
        have hk : pos + delim.length ≤ bytes.length := rfind_add_le bytes delim pos hr
        have hadd : pos + delim.length < 2 ^ 64 := by omega
        simp only [Rs.uadd, hadd, ↓reduceIte, Ctl.pure_eq, Ctl.bind_val, str_from_eq _ _ hb,
          str_up_to_eq _ _ hb]
        cases Utf8.strUpTo bytes pos <;> cases Utf8.strFrom bytes (pos + delim.length) <;> rfl

/-- `RSplitTerminator::next` on any generated state, against the model's `TIter.rnext` on the same state
    with `this` placed at an arbitrary offset `off` of the haystack -/
theorem RSplitTerminator.next_eq (fuel off : Nat) (self : Extracted.RSplitTerminator)
    (hb : ∀ b ∈ self.this_, b < 256)
    (hl : self.this_.length < 2 ^ 64)
    (hf : self.this_.length + 1 ≤ fuel) :
    Extracted.RSplitTerminator.next fuel self = resRNext (riterToModel off self).rnext := by
  have h := RSplitTerminator.next_sim fuel (riterToModel off self) hb hl hf
  rwa [riterOfModel_toModel] at h

example : Extracted.RSplitTerminator.next 9 { this_ := [97, 44, 98, 44], state := .Normal [44] }
    = .ok (some ([], { this_ := [97, 44, 98], state := .Normal [44] })) := by
  rw [RSplitTerminator.next_eq 9 0 _ (by decide) (by decide) (by decide)]; decide
example : Extracted.RSplitTerminator.next 9 { this_ := [97, 44, 98], state := .Normal [44] }
    = .ok (some ([98], { this_ := [97], state := .Normal [44] })) := by
  rw [RSplitTerminator.next_eq 9 0 _ (by decide) (by decide) (by decide)]; decide
/-- no delimiter left: `(0, 0)`, the whole rest is yielded, the remainder becomes empty -/
example : Extracted.RSplitTerminator.next 9 { this_ := [97], state := .Normal [44] }
    = .ok (some ([97], { this_ := [], state := .Normal [44] })) := by
  rw [RSplitTerminator.next_eq 9 3 _ (by decide) (by decide) (by decide)]; decide
example : Extracted.RSplitTerminator.next 9 { this_ := [0x41, 0xE2, 0x82, 0xAC], state := .Empty .Continue }
    = .ok (some ([0xE2, 0x82, 0xAC], { this_ := [0x41], state := .Empty .Continue })) := by decide
/-- not UTF-8 (starts with continuation bytes): `__find_prev_char_boundary` underflows; code and model panic -/
example : Extracted.RSplitTerminator.next 9 { this_ := [0x82, 0xAC], state := .Empty .Continue } = .panic := by
  rw [RSplitTerminator.next_eq 9 0 _ (by decide) (by decide) (by decide)]; decide

/-! ### `remainder` -/

theorem SplitTerminator.remainder_eq (off : Nat) (self : Extracted.SplitTerminator) :
    Extracted.SplitTerminator.remainder self = .ok (iterToModel off self).remainder.bytes := rfl

theorem SplitTerminator.remainder_sim (it : Split.TIter) :
    Extracted.SplitTerminator.remainder (iterOfModel it) = .ok it.remainder.bytes := rfl

theorem RSplitTerminator.remainder_eq (off : Nat) (self : Extracted.RSplitTerminator) :
    Extracted.RSplitTerminator.remainder self = .ok (riterToModel off self).remainder.bytes := rfl

theorem RSplitTerminator.remainder_sim (it : Split.TIter) :
    Extracted.RSplitTerminator.remainder (riterOfModel it) = .ok it.remainder.bytes := rfl

example : Extracted.SplitTerminator.remainder { this_ := [98, 44], state := .Normal [44] } = .ok [98, 44] :=
  SplitTerminator.remainder_eq 2 _

end Extracted.Equiv
