import KonstVerif.Extracted.Gen.ParsePrim
/-
  `parse_with!(parser, T)` dispatches (through `<T as HasParser>::Parser`) to `StdParser::<T>::parse_with`, generated
  by `impl_std_parser_one!` in konst/src/parsing/get_parser.rs.  For every outcome — value, error (with the offset and
  direction `Parser::parse_T` stamps on it), panic, out of fuel — the regenerated definition IS the corresponding
  `Parser::parse_T`, whose equivalence with the model is proved in Equiv/ParseInt.lean (C12, C13, C14).
  (added after seeded change C13-r4-1: the helper rebuilt the error with the incoming parser's direction)
-/
namespace Extracted.Equiv
open Rs

/-- `x >>= pure` in the embedding -/
theorem pw_run_call {α : Type} (r : Res α) :
    Ctl.run (ρ := α) (do let t ← Ctl.call r; pure t) = r := by
  cases r <;> rfl

theorem StdParser_u8_parse_with_eq (fuel : Nat) (p : Extracted.Parser) :
    Extracted.StdParser_u8.parse_with fuel p = Extracted.Parser.parse_u8 fuel p := pw_run_call _
theorem StdParser_i8_parse_with_eq (fuel : Nat) (p : Extracted.Parser) :
    Extracted.StdParser_i8.parse_with fuel p = Extracted.Parser.parse_i8 fuel p := pw_run_call _
theorem StdParser_u32_parse_with_eq (fuel : Nat) (p : Extracted.Parser) :
    Extracted.StdParser_u32.parse_with fuel p = Extracted.Parser.parse_u32 fuel p := pw_run_call _
theorem StdParser_i64_parse_with_eq (fuel : Nat) (p : Extracted.Parser) :
    Extracted.StdParser_i64.parse_with fuel p = Extracted.Parser.parse_i64 fuel p := pw_run_call _
theorem StdParser_u128_parse_with_eq (fuel : Nat) (p : Extracted.Parser) :
    Extracted.StdParser_u128.parse_with fuel p = Extracted.Parser.parse_u128 fuel p := pw_run_call _
theorem StdParser_i128_parse_with_eq (fuel : Nat) (p : Extracted.Parser) :
    Extracted.StdParser_i128.parse_with fuel p = Extracted.Parser.parse_i128 fuel p := pw_run_call _
theorem StdParser_usize_parse_with_eq (fuel : Nat) (p : Extracted.Parser) :
    Extracted.StdParser_usize.parse_with fuel p = Extracted.Parser.parse_usize fuel p := pw_run_call _
theorem StdParser_bool_parse_with_eq (p : Extracted.Parser) :
    Extracted.StdParser_bool.parse_with p = Extracted.Parser.parse_bool p := pw_run_call _

/- a failing parse after an operation that worked from the end: the error is the one `parse_u8` builds -/
example : Extracted.StdParser_u8.parse_with 10
      ({ parse_direction := .FromEnd, yielded_last_split := false, start_offset := 100, str := [55, 48, 48, 48, 48, 120] } : Extracted.Parser)
    = Extracted.Parser.parse_u8 10
      ({ parse_direction := .FromEnd, yielded_last_split := false, start_offset := 100, str := [55, 48, 48, 48, 48, 120] } : Extracted.Parser) :=
  StdParser_u8_parse_with_eq _ _

end Extracted.Equiv
