import KonstVerif.Extracted.Equiv.ProbesIter
import KonstVerif.Props.C10
/-
  SECTION (b) of the `ProbesIter` equivalences, kept in its own file because the hand-written model may change:
  every probe of `Equiv/ProbesIter.lean` is related to the model of the emitted code
  `Konst.Iter.konstEval chain consumer source` (Model/IterDsl.lean, the object of Props/C10.lean) on the chain
  the probe's macro invocation denotes, with naturals encoded as `Val.n`, inner slices as `toSeq`, and closures
  transported through `vn`/`unn`.

  Shape: `<fn>_model : ∃ r, Extracted.<fn> fuel args = .ok r ∧ konstEval <chain> <cons> <encoded source> = <enc r>`
  under the hypotheses of `<fn>_eq`.  The model side is evaluated with `Props/C10.konst_eq_std_normalised`
  (the exact characterisation valid for every chain), then list algebra.
-/
namespace Extracted.Equiv
open Konst.Iter Konst.Iter.Spec Konst.Iter.Lemmas Konst.Props.C10

/-- a `u32`/`usize` item as a model value -/
def vn (x : Nat) : Val := .n (x : Int)
/-- inverse of `vn` (total) -/
def unn : Val → Nat
  | .n i => i.toNat
  | .pair _ _ => 0
/-- an inner slice as an iterable model value -/
def vseq (l : List Nat) : Val := toSeq (l.map vn)

@[simp] theorem unn_vn (x : Nat) : unn (vn x) = x := by simp [unn, vn]

theorem unseq_toSeq (l : List Val) : unseq (toSeq l) = l := by
  induction l with
  | nil => rfl
  | cons a r ih => simp [toSeq, unseq, ih]

@[simp] theorem unseq_vseq (l : List Nat) : unseq (vseq l) = l.map vn := unseq_toSeq _

theorem filter_vn (p : Nat → Bool) (l : List Nat) :
    (l.map vn).filter (fun v => p (unn v)) = (l.filter p).map vn := by
  induction l with
  | nil => rfl
  | cons x l ih => by_cases h : p x <;> simp [h, ih]

theorem map_vn (g : Nat → Nat) (l : List Nat) :
    (l.map vn).map (fun v => vn (g (unn v))) = (l.map g).map vn := by
  simp [List.map_map, Function.comp_def]

theorem filterMap_vn (g : Nat → Option Nat) (l : List Nat) :
    (l.map vn).filterMap (fun v => (g (unn v)).map vn) = (l.filterMap g).map vn := by
  induction l with
  | nil => rfl
  | cons x l ih => cases h : g x <;> simp [h, ih]

theorem foldl_vn (f : Nat → Nat → Nat) (l : List Nat) (acc : Nat) :
    (l.map vn).foldl (fun a b => vn (f (unn a) (unn b))) (vn acc) = vn (l.foldl f acc) := by
  induction l generalizing acc with
  | nil => rfl
  | cons x l ih => simp [ih]

theorem dropWhile_vn (p : Nat → Bool) (l : List Nat) :
    (l.map vn).dropWhile (fun v => p (unn v)) = (l.dropWhile p).map vn := by
  induction l with
  | nil => rfl
  | cons x l ih => by_cases h : p x <;> simp [h, ih]

theorem takeWhile_vn (p : Nat → Bool) (l : List Nat) :
    (l.map vn).takeWhile (fun v => p (unn v)) = (l.takeWhile p).map vn := by
  induction l with
  | nil => rfl
  | cons x l ih => by_cases h : p x <;> simp [h, ih]

theorem find_vn (p : Nat → Bool) (l : List Nat) :
    (l.map vn).find? (fun v => p (unn v)) = (l.find? p).map vn := by
  induction l with
  | nil => rfl
  | cons x l ih => by_cases h : p x <;> simp [h, ih]

theorem findIdx_vn (p : Nat → Bool) (l : List Nat) :
    (l.map vn).findIdx? (fun v => p (unn v)) = l.findIdx? p := by
  induction l with
  | nil => rfl
  | cons x l ih => by_cases h : p x <;> simp [List.findIdx?_cons, h, ih]

theorem all_vn (p : Nat → Bool) (l : List Nat) :
    (l.map vn).all (fun v => p (unn v)) = l.all p := by
  simp [List.all_map, Function.comp_def]

theorem any_vn (p : Nat → Bool) (l : List Nat) :
    (l.map vn).any (fun v => p (unn v)) = l.any p := by
  simp [List.any_map, Function.comp_def]

theorem flatMap_vseq (ls : List (List Nat)) :
    (ls.map vseq).flatMap unseq = ls.flatten.map vn := by
  induction ls with
  | nil => rfl
  | cons x ls ih => simp [List.flatMap_cons, ih]

theorem enumFrom_vn (i : Nat) (l : List Nat) :
    enumFrom i (l.map vn) = (l.zipIdx i).map (fun p => Val.pair (vn p.2) (vn p.1)) := by
  induction l generalizing i with
  | nil => rfl
  | cons x l ih => simp [enumFrom, List.zipIdx_cons, ih, vn]

/-! ### the probes -/

theorem it_fold_filter_map_model (fuel : Nat) (xs : List Nat) (hf : xs.length + 1 ≤ fuel) :
    ∃ r, Extracted.it_fold_filter_map fuel xs = .ok r ∧
      konstEval [.copied, .filter (fun v => unn v % 2 == 0), .map (fun v => vn (unn v / 2))]
        (.fold (vn 0) (fun a b => vn (unn a ^^^ unn b))) (xs.map vn) = .val (vn r) := by
  refine ⟨_, it_fold_filter_map_eq fuel xs hf, ?_⟩
  rw [konst_eq_std_normalised]
  simp only [hasRev, Cons.isRev, Bool.or_false, walk, Bool.false_eq_true, ↓reduceIte, fwd, stdEval, applyAd,
    iterConsume, stdConsume]
  rw [filter_vn (fun x => x % 2 == 0), map_vn (· / 2), foldl_vn (· ^^^ ·)]

theorem it_take_next_model (fuel : Nat) (xs : List Nat) (n : Nat) (hf : 1 ≤ fuel) :
    ∃ r, Extracted.it_take_next fuel xs n = .ok r ∧
      konstEval [.copied, .take n] .next (xs.map vn) = .opt (r.map vn) := by
  refine ⟨_, it_take_next_eq fuel xs n hf, ?_⟩
  rw [konst_eq_std_normalised]
  simp [hasRev, Cons.isRev, walk, fwd, stdEval, applyAd, iterConsume, stdConsume, ← List.map_take]

theorem it_skip_count_model (fuel : Nat) (xs : List Nat) (n : Nat) (hf : xs.length + 1 ≤ fuel)
    (hb : (xs.drop n).length < 2 ^ 64) :
    ∃ r, Extracted.it_skip_count fuel xs n = .ok r ∧
      konstEval [.skip n] .count (xs.map vn) = .nat r := by
  refine ⟨_, it_skip_count_eq fuel xs n hf hb, ?_⟩
  rw [konst_eq_std_normalised]
  simp [hasRev, Cons.isRev, walk, fwd, stdEval, applyAd, iterConsume, stdConsume]

/-- F7: the model agrees with the code (the last element), std does not (`(xs.take 2).getLast?`) -/
theorem it_take_rev_next_model (fuel : Nat) (xs : List Nat) (hf : 1 ≤ fuel) :
    ∃ r, Extracted.it_take_rev_next fuel xs = .ok r ∧
      konstEval [.copied, .take 2, .rev] .next (xs.map vn) = .opt (r.map vn) ∧
      stdResult [.copied, .take 2, .rev] .next (xs.map vn) = .opt (((xs.take 2).getLast?).map vn) := by
  refine ⟨_, it_take_rev_next_eq fuel xs hf, ?_, ?_⟩
  · rw [konst_eq_std_normalised]
    simp [hasRev, Cons.isRev, walk, fwd, stdEval, applyAd, iterConsume, stdConsume, List.head?_take,
      List.getLast?_map]
  · simp [stdResult, stdEval, applyAd, stdConsume, ← List.map_take, List.getLast?_map]

theorem it_rev_find_model (fuel : Nat) (xs : List Nat) (k : Nat) (hf : xs.length + 1 ≤ fuel) :
    ∃ r, Extracted.it_rev_find fuel xs k = .ok r ∧
      konstEval [.copied, .rev] (.find (fun v => unn v == k)) (xs.map vn) = .opt (r.map vn) := by
  refine ⟨_, it_rev_find_eq fuel xs k hf, ?_⟩
  rw [konst_eq_std_normalised]
  simp only [hasRev, Cons.isRev, Bool.or_false, walk, ↓reduceIte, fwd, stdEval, applyAd, iterConsume,
    stdConsume, ← List.map_reverse]
  rw [find_vn (· == k)]

theorem it_position_model (fuel : Nat) (xs : List Nat) (k : Nat) (hf : xs.length + 1 ≤ fuel)
    (hb : xs.length < 2 ^ 64) :
    ∃ r, Extracted.it_position fuel xs k = .ok r ∧
      konstEval [.copied] (.position (fun v => unn v == k)) (xs.map vn) = .onat r := by
  refine ⟨_, it_position_eq fuel xs k hf hb, ?_⟩
  rw [konst_eq_std_normalised]
  simp only [hasRev, Cons.isRev, Bool.or_false, walk, Bool.false_eq_true, ↓reduceIte, fwd, stdEval, applyAd,
    iterConsume, stdConsume]
  rw [findIdx_vn (· == k)]

theorem it_rposition_model (fuel : Nat) (xs : List Nat) (k : Nat) (hf : xs.length + 1 ≤ fuel)
    (hb : xs.length < 2 ^ 64) :
    ∃ r, Extracted.it_rposition fuel xs k = .ok r ∧
      konstEval [.copied] (.rposition (fun v => unn v == k)) (xs.map vn) = .onat r := by
  refine ⟨_, it_rposition_eq fuel xs k hf hb, ?_⟩
  rw [konst_eq_std_normalised]
  simp only [hasRev, Cons.isRev, Bool.or_true, walk, ↓reduceIte, fwd, stdEval, applyAd, iterConsume,
    ← List.map_reverse]
  rw [findIdx_vn (· == k)]

theorem it_all_model (fuel : Nat) (xs : List Nat) (k : Nat) (hf : xs.length + 1 ≤ fuel) :
    ∃ r, Extracted.it_all fuel xs k = .ok r ∧
      konstEval [.copied] (.all (fun v => decide (unn v < k))) (xs.map vn) = .bool r := by
  refine ⟨_, it_all_eq fuel xs k hf, ?_⟩
  rw [konst_eq_std_normalised]
  simp only [hasRev, Cons.isRev, Bool.or_false, walk, Bool.false_eq_true, ↓reduceIte, fwd, stdEval, applyAd,
    iterConsume, stdConsume]
  rw [all_vn (fun x => decide (x < k))]

theorem it_any_model (fuel : Nat) (xs : List Nat) (k : Nat) (hf : xs.length + 1 ≤ fuel) :
    ∃ r, Extracted.it_any fuel xs k = .ok r ∧
      konstEval [.copied] (.any (fun v => unn v == k)) (xs.map vn) = .bool r := by
  refine ⟨_, it_any_eq fuel xs k hf, ?_⟩
  rw [konst_eq_std_normalised]
  simp only [hasRev, Cons.isRev, Bool.or_false, walk, Bool.false_eq_true, ↓reduceIte, fwd, stdEval, applyAd,
    iterConsume, stdConsume]
  rw [any_vn (· == k)]

theorem it_nth_model (fuel : Nat) (xs : List Nat) (n : Nat) (hf : xs.length + 1 ≤ fuel) :
    ∃ r, Extracted.it_nth fuel xs n = .ok r ∧
      konstEval [.copied] (.nth n) (xs.map vn) = .opt (r.map vn) := by
  refine ⟨_, it_nth_eq fuel xs n hf, ?_⟩
  rw [konst_eq_std_normalised]
  simp [hasRev, Cons.isRev, walk, fwd, stdEval, applyAd, iterConsume, stdConsume]

theorem it_take_while_skip_while_count_model (fuel : Nat) (xs : List Nat) (a b : Nat)
    (hf : xs.length + 1 ≤ fuel)
    (hb : ((xs.dropWhile (fun x => decide (x < a))).takeWhile (fun x => decide (x < b))).length
            < 2 ^ 64) :
    ∃ r, Extracted.it_take_while_skip_while_count fuel xs a b = .ok r ∧
      konstEval [.copied, .skipWhile (fun v => decide (unn v < a)), .takeWhile (fun v => decide (unn v < b))]
        .count (xs.map vn) = .nat r := by
  refine ⟨_, it_take_while_skip_while_count_eq fuel xs a b hf hb, ?_⟩
  rw [konst_eq_std_normalised]
  simp only [hasRev, Cons.isRev, Bool.or_false, walk, Bool.false_eq_true, ↓reduceIte, fwd, stdEval, applyAd,
    iterConsume, stdConsume]
  rw [dropWhile_vn (fun x => decide (x < a)), takeWhile_vn (fun x => decide (x < b)), List.length_map]

theorem it_enumerate_find_map_model (fuel : Nat) (xs : List Nat) (k : Nat) (hf : xs.length + 1 ≤ fuel)
    (hb : xs.length < 2 ^ 64) :
    ∃ r, Extracted.it_enumerate_find_map fuel xs k = .ok r ∧
      konstEval [.copied, .enumerate]
        (.findMap (fun v => match v with
          | .pair i x => if unn x == k then some i else none
          | _ => none)) (xs.map vn) = .opt (r.map vn) := by
  refine ⟨_, it_enumerate_find_map_eq fuel xs k hf hb, ?_⟩
  rw [konst_eq_std_normalised]
  simp only [hasRev, Cons.isRev, Bool.or_false, walk, Bool.false_eq_true, ↓reduceIte, fwd, stdEval, applyAd,
    iterConsume, stdConsume, enumFrom_vn]
  congr 1
  generalize xs.zipIdx = ps
  induction ps with
  | nil => rfl
  | cons p ps ih =>
    simp only [List.map_cons, List.findSome?_cons, unn_vn]
    by_cases h : (p.1 == k) = true
    · simp only [h, ↓reduceIte, Option.map_some]
    · simp only [h]; exact ih

theorem it_filter_map_rfold_model (fuel : Nat) (xs : List Nat) (hf : xs.length + 1 ≤ fuel) :
    ∃ r, Extracted.it_filter_map_rfold fuel xs = .ok r ∧
      konstEval
        [.copied, .filterMap (fun v => (if unn v % 3 == 0 then none else some (unn v % 7)).map vn)]
        (.rfold (vn 1) (fun a b => vn ((unn a * 3 + unn b) % 1000))) (xs.map vn) = .val (vn r) := by
  refine ⟨_, it_filter_map_rfold_eq fuel xs hf, ?_⟩
  rw [konst_eq_std_normalised]
  simp only [hasRev, Cons.isRev, Bool.or_true, walk, ↓reduceIte, fwd, stdEval, applyAd, iterConsume,
    ← List.map_reverse]
  rw [filterMap_vn (fun x => if x % 3 == 0 then none else some (x % 7)),
    foldl_vn (fun a b => (a * 3 + b) % 1000), List.filterMap_reverse, List.foldl_reverse]

theorem it_flat_map_count_model (fuel : Nat) (xss : List (List Nat)) (k : Nat)
    (hf : xss.length + 1 ≤ fuel) (hfi : ∀ xs ∈ xss, xs.length + 1 ≤ fuel)
    (hb : ((xss.flatMap id).filter (· == k)).length < 2 ^ 64) :
    ∃ r, Extracted.it_flat_map_count fuel xss k = .ok r ∧
      konstEval [.flatMap unseq, .copied, .filter (fun v => unn v == k)] .count (xss.map vseq)
        = .nat r := by
  refine ⟨_, it_flat_map_count_eq fuel xss k hf hfi hb, ?_⟩
  rw [konst_eq_std_normalised]
  simp only [hasRev, Cons.isRev, Bool.or_false, walk, Bool.false_eq_true, ↓reduceIte, fwd, stdEval, applyAd,
    iterConsume, stdConsume]
  rw [flatMap_vseq, filter_vn (· == k), List.length_map, List.flatMap_id]

theorem it_flatten_nth_model (fuel : Nat) (xss : List (List Nat)) (n : Nat)
    (hf : xss.length + 1 ≤ fuel) (hfi : ∀ xs ∈ xss, xs.length + 1 ≤ fuel) :
    ∃ r, Extracted.it_flatten_nth fuel xss n = .ok r ∧
      konstEval [.copied, .flatten, .copied] (.nth n) (xss.map vseq) = .opt (r.map vn) := by
  refine ⟨_, it_flatten_nth_eq fuel xss n hf hfi, ?_⟩
  rw [konst_eq_std_normalised]
  simp only [hasRev, Cons.isRev, Bool.or_false, walk, Bool.false_eq_true, ↓reduceIte, fwd, stdEval, applyAd,
    iterConsume, stdConsume]
  rw [flatMap_vseq, List.getElem?_map]

/-- `for_each!`: the model's value is the log of the items reaching the body; the probe's body folds them
    with `^` -/
theorem it_for_each_sum_model (fuel : Nat) (xs : List Nat) (hf : xs.length + 1 ≤ fuel) :
    ∃ log : List Nat, konstEval [.copied, .skip 1] .forEach (xs.map vn) = .items (log.map vn) ∧
      Extracted.it_for_each_sum fuel xs = .ok (log.foldl (· ^^^ ·) 0) := by
  refine ⟨xs.drop 1, ?_, it_for_each_sum_eq fuel xs hf⟩
  rw [konst_eq_std_normalised]
  simp [hasRev, Cons.isRev, walk, fwd, stdEval, applyAd, iterConsume, stdConsume]

example : konstEval [.copied, .take 2, .rev] .next ([7, 8, 9].map vn) = .opt (some (vn 9)) := by decide

end Extracted.Equiv
