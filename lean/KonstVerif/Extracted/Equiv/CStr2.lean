import KonstVerif.Extracted.Equiv.CStr
/-
  Extracted (regenerated from /repo) = Model, for konst::ffi::cstr (C20, conversion half):
  `to_bytes_with_nul` (the `unsafe` pointer walk `while *start.add(i) != 0 { i += 1 }` followed by
  `from_raw_parts(start, i + 1)`) and `to_bytes` (`[rem @ .., 0] => rem, _ => unreachable!()`).

  The generated code takes the `&CStr` as a byte list `mem`: its bytes INCLUDING the terminating nul, i.e. the
  allocation the pointer `this.as_ptr()` points to the start of.  `Rs.ptrRead mem k` (the read `*start.add(k)`)
  is `.ub` outside `mem`.  The model (`Model/CStr.lean`) walks "the memory beginning at the CStr's first byte"
  and returns `View`s into it (`none` / `.oob` = the walk left the allocation).

  Statements, for EVERY `mem` (no invariant assumed):
    * `cstr_to_bytes_with_nul_model`: generated = model (`some v ↦ .ok (v.apply mem)`, `none ↦ .ub`);
    * `cstr_to_bytes_model`:          generated = model (`.ok v ↦ .ok (v.apply mem)`, `.oob ↦ .ub`,
                                       `.unreachable ↦ .panic`; `toBytes_ne_unreachable`: never the case).
  Under the `&CStr` invariant `IsCStr mem` (`Spec/Concat.lean`, the hypothesis of `Props.C20.cstr_bytes_eq`;
  equivalently `mem = body ++ [0]` with `0 ∉ body`: `isCStr_iff_snoc`):
    * `cstr_to_bytes_with_nul_eq`: `= .ok mem` (= std's `to_bytes_with_nul`), the model's view being `⟨0, mem.length⟩`;
    * `cstr_to_bytes_eq`:          `= .ok mem.dropLast` (= std's `to_bytes`), the model's view `⟨0, mem.length - 1⟩`.
  When the invariant is violated by the absence of any nul:
    * `cstr_to_bytes_with_nul_ub`, `cstr_to_bytes_ub`: `= .ub` — the unsafe code relies on exactly the
      presence of a nul inside the allocation (`cstr_to_bytes_with_nul_ub_iff`).
-/
namespace Extracted.Equiv
open Rs Konst Konst.Slice Konst.CStr Konst.Lemmas.CStr Konst.Spec.Concat

/-! ### the pointer walk -/

theorem run_ub {ρ : Type} : Ctl.run (.ub : Ctl ρ ρ) = .ub := rfl

/-- the model's walk stops inside the memory, on a nul -/
theorem walk_some {l : List Nat} {i k : Nat} (h : walk l i = some k) :
    i ≤ k ∧ k - i < l.length ∧ l[k - i]? = some 0 := by
  rw [walk_eq] at h
  cases hf : firstNul l with
  | none => simp [hf] at h
  | some j =>
    simp only [hf, Option.map_some, Option.some.injEq] at h
    subst h
    have e : i + j - i = j := by omega
    rw [e]
    exact ⟨by omega, firstNul_lt hf, firstNul_getElem? hf⟩

/-- `walk_some` from the start of the memory -/
theorem walk_zero_some {l : List Nat} {k : Nat} (h : walk l 0 = some k) : k < l.length ∧ l[k]? = some 0 := by
  simpa using (walk_some h).2

/-- the model's walk leaves the memory exactly when it holds no nul -/
theorem walk_none_iff (l : List Nat) (i : Nat) : walk l i = none ↔ 0 ∉ l := by
  induction l generalizing i with
  | nil => simp [walk]
  | cons b r ih =>
    simp only [walk, List.mem_cons, not_or]
    by_cases hb : b = 0
    · simp [hb]
    · simp only [ne_eq, hb, not_false_eq_true, ↓reduceIte, ih]
      constructor
      · intro h; exact ⟨fun e => hb e.symm, h⟩
      · intro h; exact h.2

/-- the loop `while *start.add(i) != 0 { i += 1 }` of `to_bytes_with_nul` from state `i`, with enough fuel:
    it ends normally in the state the model's walk ends in, and is undefined behaviour (a read past the end of
    `mem`) when the model's walk is `none` -/
theorem to_bytes_with_nul_loop (n : Nat) (mem : List Nat) (i : Nat)
    (hb : mem.length < 2 ^ 64) (hn : mem.length + 1 ≤ n + i) (hi : i ≤ mem.length) :
    (∀ k, walk (mem.drop i) i = some k →
        Rs.loop n (Extracted.cstr_to_bytes_with_nul.loop1 mem) i = (Ctl.val k : Ctl (List Nat) Nat)) ∧
    (walk (mem.drop i) i = none →
        Rs.loop n (Extracted.cstr_to_bytes_with_nul.loop1 mem) i = (Ctl.ub : Ctl (List Nat) Nat)) := by
  induction n generalizing i with
  | zero => omega
  | succ n ih =>
    rw [Rs.loop_succ]
    by_cases hc : i < mem.length
    · have h1 : i + 1 < 2 ^ 64 := by omega
      have hidx : mem[i]? = some mem[i] := List.getElem?_eq_getElem hc
      rw [List.drop_eq_getElem_cons hc]
      simp only [Extracted.cstr_to_bytes_with_nul.loop1, Rs.ptrRead, hidx, Rs.uadd, h1, ↓reduceIte,
        Ctl.bind_eq, Ctl.bind_val, walk]
      by_cases h0 : mem[i] = 0
      · simp [h0]
      · simp only [ne_eq, h0, not_false_eq_true, decide_true, ↓reduceIte]
        exact ih (i := i + 1) (by omega) (by omega)
    · have hlen : mem.drop i = [] := List.drop_eq_nil_of_le (by omega)
      have hidx : mem[i]? = none := List.getElem?_eq_none (by omega)
      simp [Extracted.cstr_to_bytes_with_nul.loop1, Rs.ptrRead, hidx, hlen, walk]

/-! ### `to_bytes_with_nul` -/

/-- model `Option View` (`none` = the walk left the allocation) as the result of the generated function -/
def toBytesWithNulRes (mem : List Nat) : Option View → Res (List Nat)
  | some v => .ok (v.apply mem)
  | none => .ub

/-- generated = model for EVERY memory `mem` (no invariant): the model's view applied to `mem`, and undefined
    behaviour exactly when the model says the walk leaves the allocation.  (No overflow of `i += 1` / `i + 1`, the
    `from_raw_parts(start, i + 1)` stays inside `mem`, the fuel suffices.) -/
theorem cstr_to_bytes_with_nul_model (fuel : Nat) (mem : List Nat)
    (hb : mem.length < 2 ^ 64) (hf : mem.length + 1 ≤ fuel) :
    Extracted.cstr_to_bytes_with_nul fuel mem = toBytesWithNulRes mem (toBytesWithNul mem) := by
  unfold Extracted.cstr_to_bytes_with_nul toBytesWithNul
  have ⟨h1, h2⟩ := to_bytes_with_nul_loop fuel mem 0 hb (by omega) (by omega)
  rw [List.drop_zero] at h1 h2
  cases hw : walk mem 0 with
  | none => simp [h2 hw, toBytesWithNulRes, run_ub]
  | some k =>
    have ⟨hk, _⟩ := walk_zero_some hw
    have hk1 : k + 1 < 2 ^ 64 := by omega
    have hk2 : k + 1 ≤ mem.length := by omega
    simp [h1 k hw, Rs.uadd, hk1, Rs.rawParts, hk2, toBytesWithNulRes, View.apply]

/-- the `&CStr` invariant of the specification (`IsCStr`: non-empty, first nul at the last index) is
    "`body ++ [0]` with no nul in `body`" -/
theorem isCStr_snoc {body : List Nat} (h0 : 0 ∉ body) : IsCStr (body ++ [0]) := by
  refine ⟨?_, by simp⟩
  induction body with
  | nil => simp [firstNul]
  | cons b r ih =>
    simp only [List.mem_cons, not_or] at h0
    have hb : b ≠ 0 := fun e => h0.1 e.symm
    simp only [List.cons_append, firstNul, hb, ↓reduceIte, ih h0.2, Option.map_some, List.length_cons,
      List.length_append, List.length_nil]
    congr 1

theorem isCStr_iff_snoc (c : List Nat) : IsCStr c ↔ ∃ body, c = body ++ [0] ∧ 0 ∉ body := by
  constructor
  · intro h
    have hlast := isCStr_getLast h
    have hc : c = c.dropLast ++ [0] := by
      have := List.dropLast_concat_getLast h.2
      rw [List.getLast?_eq_some_getLast h.2, Option.some.injEq] at hlast
      rw [hlast] at this
      exact this.symm
    refine ⟨c.dropLast, hc, ?_⟩
    intro hm
    obtain ⟨j, hj, hj0⟩ := List.getElem_of_mem hm
    have hjl : j < c.length - 1 := by simpa using hj
    have := firstNul_before h.1 j hjl
    apply this
    rw [List.getElem_dropLast] at hj0
    rw [List.getElem?_eq_getElem (by omega), hj0]
  · rintro ⟨body, rfl, h0⟩
    exact isCStr_snoc h0

/-- under the `&CStr` invariant: the model's view is the whole CStr … -/
theorem toBytesWithNul_isCStr {mem : List Nat} (hc : IsCStr mem) :
    toBytesWithNul mem = some ⟨0, mem.length⟩ := by
  have hpos : 0 < mem.length := List.length_pos_iff.mpr hc.2
  simp only [toBytesWithNul, walk_eq, hc.1, Option.map_some]
  congr 2; omega

/-- … and the generated `to_bytes_with_nul` returns normally with exactly the CStr's bytes (nul included), which is
    std's `CStr::to_bytes_with_nul` (`stdToBytesWithNul mem = mem`): the pointer walk never reads outside `mem`.
    In terms of the model: `= .ok (v.apply mem)` for the `v` with `toBytesWithNul mem = some v`. -/
theorem cstr_to_bytes_with_nul_eq (fuel : Nat) (mem : List Nat) (hc : IsCStr mem)
    (hb : mem.length < 2 ^ 64) (hf : mem.length + 1 ≤ fuel) :
    Extracted.cstr_to_bytes_with_nul fuel mem = .ok mem ∧
    ∃ v, toBytesWithNul mem = some v ∧ v.apply mem = stdToBytesWithNul mem ∧
      Extracted.cstr_to_bytes_with_nul fuel mem = .ok (v.apply mem) := by
  have hm := cstr_to_bytes_with_nul_model fuel mem hb hf
  rw [toBytesWithNul_isCStr hc] at hm
  have ha : (⟨0, mem.length⟩ : View).apply mem = mem := by simp [View.apply]
  refine ⟨by rw [hm, toBytesWithNulRes, ha], ⟨0, mem.length⟩, toBytesWithNul_isCStr hc, ?_, hm⟩
  rw [ha, stdToBytesWithNul]

/-- the same with the invariant spelled out: `mem = body ++ [0]`, `0 ∉ body` -/
theorem cstr_to_bytes_with_nul_eq_snoc (fuel : Nat) (body : List Nat) (h0 : 0 ∉ body)
    (hb : body.length + 1 < 2 ^ 64) (hf : body.length + 2 ≤ fuel) :
    Extracted.cstr_to_bytes_with_nul fuel (body ++ [0]) = .ok (body ++ [0]) :=
  (cstr_to_bytes_with_nul_eq fuel (body ++ [0]) (isCStr_snoc h0) (by simpa using hb) (by simpa using hf)).1

/-- the invariant violated by the absence of a nul: the walk reads `*start.add(mem.length)`, outside the
    allocation — undefined behaviour.  This is the assumption the `unsafe` block relies on. -/
theorem cstr_to_bytes_with_nul_ub (fuel : Nat) (mem : List Nat) (h0 : 0 ∉ mem)
    (hb : mem.length < 2 ^ 64) (hf : mem.length + 1 ≤ fuel) :
    Extracted.cstr_to_bytes_with_nul fuel mem = .ub := by
  rw [cstr_to_bytes_with_nul_model fuel mem hb hf, toBytesWithNul, (walk_none_iff mem 0).mpr h0]
  rfl

/-- exactly: undefined behaviour iff `mem` holds no nul; otherwise a normal return (for memories that are not
    CStrs but hold a nul, e.g. `[97, 0, 98]`, the result is the prefix up to the first nul) -/
theorem cstr_to_bytes_with_nul_ub_iff (fuel : Nat) (mem : List Nat)
    (hb : mem.length < 2 ^ 64) (hf : mem.length + 1 ≤ fuel) :
    Extracted.cstr_to_bytes_with_nul fuel mem = .ub ↔ 0 ∉ mem := by
  constructor
  · intro h
    rw [cstr_to_bytes_with_nul_model fuel mem hb hf, toBytesWithNul] at h
    rw [← walk_none_iff mem 0]
    cases hw : walk mem 0 with
    | none => rfl
    | some k => simp [hw, toBytesWithNulRes] at h
  · exact fun h => cstr_to_bytes_with_nul_ub fuel mem h hb hf

/-! ### `to_bytes` -/

/-- model `ToBytes` as the result of the generated function: `.unreachable` (the `_ => unreachable!()` arm) is a
    panic, `.oob` undefined behaviour -/
def toBytesRes (mem : List Nat) : ToBytes → Res (List Nat)
  | .ok v => .ok (v.apply mem)
  | .unreachable => .panic
  | .oob => .ub

/-- generated = model for EVERY memory `mem` -/
theorem cstr_to_bytes_model (fuel : Nat) (mem : List Nat)
    (hb : mem.length < 2 ^ 64) (hf : mem.length + 1 ≤ fuel) :
    Extracted.cstr_to_bytes fuel mem = toBytesRes mem (toBytes mem) := by
  unfold Extracted.cstr_to_bytes toBytes
  rw [cstr_to_bytes_with_nul_model fuel mem hb hf]
  unfold toBytesWithNul
  cases hw : walk mem 0 with
  | none => simp [toBytesWithNulRes, toBytesRes, run_ub]
  | some k =>
    have ⟨hk, _⟩ := walk_zero_some hw
    have hdl : (List.take (k + 1) mem).dropLast = List.take k mem := by
      rw [List.dropLast_eq_take, List.length_take, List.take_take]
      congr 1; omega
    simp only [Option.map_some, toBytesWithNulRes, View.apply, List.drop_zero, Ctl.call_ok, Ctl.bind_eq,
      Ctl.bind_val, Rs.unsnoc]
    cases hl : (List.take (k + 1) mem).getLast? with
    | none => simp [toBytesRes]
    | some x =>
      by_cases hx : x = 0
      · subst hx
        simp [toBytesRes, View.apply, hdl]
      · simp only [hx, decide_false, Bool.false_eq_true, ↓reduceIte, Ctl.run_panic]
        split
        · rename_i heq
          simp only [Option.some.injEq] at heq
          exact absurd heq hx
        · rfl

/-- the `_ => unreachable!()` arm of `to_bytes` is never taken, whatever the memory: when the walk stops, it
    stops on a nul, which is the last element of the `from_raw_parts(start, i + 1)` slice -/
theorem toBytes_ne_unreachable (mem : List Nat) : toBytes mem ≠ .unreachable := by
  unfold toBytes toBytesWithNul
  cases hw : walk mem 0 with
  | none => simp
  | some k =>
    have ⟨hk, hk0⟩ := walk_zero_some hw
    have hl : (List.take (k + 1) mem).getLast? = some 0 := by
      rw [List.getLast?_eq_getElem?, List.length_take, List.getElem?_take]
      have e : min (k + 1) mem.length - 1 = k := by omega
      simpa [e] using hk0
    simp [View.apply, hl]

/-- the generated `to_bytes` never panics (never reaches `unreachable!()`), for every memory -/
theorem cstr_to_bytes_ne_panic (fuel : Nat) (mem : List Nat)
    (hb : mem.length < 2 ^ 64) (hf : mem.length + 1 ≤ fuel) :
    Extracted.cstr_to_bytes fuel mem ≠ .panic := by
  rw [cstr_to_bytes_model fuel mem hb hf]
  have := toBytes_ne_unreachable mem
  cases h : toBytes mem with
  | ok v => simp [toBytesRes]
  | unreachable => exact absurd h this
  | oob => simp [toBytesRes]

/-- under the `&CStr` invariant the model's `to_bytes` is the view of everything but the nul -/
theorem toBytes_isCStr {mem : List Nat} (hc : IsCStr mem) : toBytes mem = .ok ⟨0, mem.length - 1⟩ := by
  have h2 : (⟨0, mem.length⟩ : View).apply mem = mem := by simp [View.apply]
  simp only [toBytes, toBytesWithNul_isCStr hc, h2, isCStr_getLast hc]

/-- under the `&CStr` invariant the generated `to_bytes` returns normally (never the `unreachable!()` arm, no
    undefined behaviour) with the CStr's bytes without the nul = std's `CStr::to_bytes`
    (`stdToBytes mem = mem.dropLast`) = the model's `toBytes` view applied to `mem` -/
theorem cstr_to_bytes_eq (fuel : Nat) (mem : List Nat) (hc : IsCStr mem)
    (hb : mem.length < 2 ^ 64) (hf : mem.length + 1 ≤ fuel) :
    Extracted.cstr_to_bytes fuel mem = .ok mem.dropLast ∧
    ∃ v, toBytes mem = .ok v ∧ v.apply mem = stdToBytes mem ∧
      Extracted.cstr_to_bytes fuel mem = .ok (v.apply mem) := by
  have hm := cstr_to_bytes_model fuel mem hb hf
  rw [toBytes_isCStr hc] at hm
  have ha : (⟨0, mem.length - 1⟩ : View).apply mem = mem.dropLast := by
    simp [View.apply, List.dropLast_eq_take]
  refine ⟨by rw [hm, toBytesRes, ha], ⟨0, mem.length - 1⟩, toBytes_isCStr hc, ?_, hm⟩
  rw [ha, stdToBytes]

/-- the same with the invariant spelled out: `mem = body ++ [0]`, `0 ∉ body`; the result is `body` -/
theorem cstr_to_bytes_eq_snoc (fuel : Nat) (body : List Nat) (h0 : 0 ∉ body)
    (hb : body.length + 1 < 2 ^ 64) (hf : body.length + 2 ≤ fuel) :
    Extracted.cstr_to_bytes fuel (body ++ [0]) = .ok body := by
  have := (cstr_to_bytes_eq fuel (body ++ [0]) (isCStr_snoc h0) (by simpa using hb) (by simpa using hf)).1
  simpa using this

/-- no nul in `mem`: `to_bytes` inherits the undefined behaviour of the walk -/
theorem cstr_to_bytes_ub (fuel : Nat) (mem : List Nat) (h0 : 0 ∉ mem)
    (hb : mem.length < 2 ^ 64) (hf : mem.length + 1 ≤ fuel) :
    Extracted.cstr_to_bytes fuel mem = .ub := by
  rw [cstr_to_bytes_model fuel mem hb hf, toBytes, toBytesWithNul, (walk_none_iff mem 0).mpr h0]
  rfl

/-! ### concrete instances (c"hi", c"", and the non-CStr memories `[1, 2]`, `[97, 0, 98]`) -/

example : IsCStr [104, 105, 0] := ⟨by decide, by decide⟩
example : IsCStr [0] := ⟨by decide, by decide⟩

example : Extracted.cstr_to_bytes_with_nul 4 [104, 105, 0] = .ok [104, 105, 0] :=
  (cstr_to_bytes_with_nul_eq 4 [104, 105, 0] ⟨by decide, by decide⟩ (by decide) (by decide)).1
example : Extracted.cstr_to_bytes_with_nul 4 [104, 105, 0] = .ok [104, 105, 0] :=
  cstr_to_bytes_with_nul_eq_snoc 4 [104, 105] (by decide) (by decide) (by decide)
example : Extracted.cstr_to_bytes_with_nul 2 [0] = .ok [0] :=
  (cstr_to_bytes_with_nul_eq 2 [0] ⟨by decide, by decide⟩ (by decide) (by decide)).1
example : Extracted.cstr_to_bytes_with_nul 3 [1, 2] = .ub :=
  cstr_to_bytes_with_nul_ub 3 [1, 2] (by decide) (by decide) (by decide)
example : Extracted.cstr_to_bytes_with_nul 1 [] = .ub :=
  cstr_to_bytes_with_nul_ub 1 [] (by decide) (by decide) (by decide)
/-- not a CStr but holds a nul: the prefix up to the first nul (what the model says) -/
example : Extracted.cstr_to_bytes_with_nul 4 [97, 0, 98] = .ok [97, 0] :=
  cstr_to_bytes_with_nul_model 4 [97, 0, 98] (by decide) (by decide)
/-- too little fuel is reported as such, not as a result -/
example : Extracted.cstr_to_bytes_with_nul 2 [104, 105, 0] = .nofuel := by decide
/-- the definitions also evaluate directly -/
example : Extracted.cstr_to_bytes_with_nul 10 [104, 105, 0] = .ok [104, 105, 0] := by decide
example : Extracted.cstr_to_bytes_with_nul 10 [1, 2] = .ub := by decide

example : Extracted.cstr_to_bytes 4 [104, 105, 0] = .ok [104, 105] :=
  (cstr_to_bytes_eq 4 [104, 105, 0] ⟨by decide, by decide⟩ (by decide) (by decide)).1
example : Extracted.cstr_to_bytes 4 [104, 105, 0] = .ok [104, 105] :=
  cstr_to_bytes_eq_snoc 4 [104, 105] (by decide) (by decide) (by decide)
example : Extracted.cstr_to_bytes 2 [0] = .ok [] :=
  (cstr_to_bytes_eq 2 [0] ⟨by decide, by decide⟩ (by decide) (by decide)).1
example : Extracted.cstr_to_bytes 3 [1, 2] = .ub :=
  cstr_to_bytes_ub 3 [1, 2] (by decide) (by decide) (by decide)
example : Extracted.cstr_to_bytes 4 [97, 0, 98] = .ok [97] :=
  cstr_to_bytes_model 4 [97, 0, 98] (by decide) (by decide)
example : Extracted.cstr_to_bytes 10 [104, 105, 0] = .ok [104, 105] := by decide
example : Extracted.cstr_to_bytes 10 [1, 2] = .ub := by decide

end Extracted.Equiv
