import KonstVerif.Extracted.Gen.ParseInt2
import KonstVerif.Extracted.Equiv.ParseInt
import KonstVerif.Extracted.Equiv.ParsePrim
import KonstVerif.Extracted.Equiv.ParseWith
/-
  Extracted (regenerated from /repo) = Model, for the remaining instances of `parse_integer!` /
  `define_parse_methods!` / `impl_std_parser_one!` (group `ParseInt2`): `Parser::parse_T`,
  `konst::primitive::parse_T` and `StdParser::<T>::parse_with` for T ∈ {u16, u64, i16, i32, isize}
  (`isize` is 64 bits wide, as `usize`: `Konst.USIZE`).

  Nothing is proved afresh here: the generated definitions are instances of the SAME texts as their siblings in
  `Equiv/ParseInt.lean` — `intLoop bits T` (loop body), `parseU bits` (unsigned), `parseI bits MAX MIN` (signed) — BY
  `rfl` (`parse_*_loop1_eq`, `parse_*_shape`), so `parseU_eq` / `parseI_eq` (proved once for every `bits ≥ 4`
  from the loop lemma `intLoop_spec`) give the `_eq` theorems, `parseInt_resOf_ok` the `_ok` theorems;
  `prim_parse_T` is an instance of `primShape` (`Equiv/ParsePrim.lean`), so `primInt_eq` / `primInt_ok` apply;
  `StdParser_T.parse_with` is `Parser.parse_T` by `pw_run_call` (`Equiv/ParseWith.lean`).

  Statements and hypotheses are those of the siblings with the type's width / signedness:
  `start_offset + str.len() < 2^32`, bytes `< 256` (resp. `Spec.Utf8.Valid` in the `_ok` theorems), fuel `≥ str.len()`.
-/
set_option linter.unusedVariables false
namespace Extracted.Equiv
open Rs Konst

/-! ### the generated definitions are instances of `intLoop` / `parseU` / `parseI` -/

theorem parse_u16_loop1_eq : Extracted.Parser.parse_u16.loop1 = intLoop 16 Nat := rfl
theorem parse_u64_loop1_eq : Extracted.Parser.parse_u64.loop1 = intLoop 64 Nat := rfl
theorem parse_i16_loop1_eq : Extracted.Parser.parse_i16.loop1 = intLoop 16 Int := rfl
theorem parse_i32_loop1_eq : Extracted.Parser.parse_i32.loop1 = intLoop 32 Int := rfl
theorem parse_isize_loop1_eq : Extracted.Parser.parse_isize.loop1 = intLoop 64 Int := rfl

theorem parse_u16_shape : Extracted.Parser.parse_u16 = parseU 16 := rfl
theorem parse_u64_shape : Extracted.Parser.parse_u64 = parseU 64 := rfl
theorem parse_i16_shape : Extracted.Parser.parse_i16 = parseI 16 32767 (-32768) := rfl
theorem parse_i32_shape : Extracted.Parser.parse_i32 = parseI 32 2147483647 (-2147483648) := rfl
theorem parse_isize_shape : Extracted.Parser.parse_isize = parseI 64 9223372036854775807 (-9223372036854775808) := rfl

/-- `prim_shape` of `Equiv/ParsePrim.lean` (local there): both sides are run on every result of the called method -/
local macro "prim_shape2 " f:ident p:term : tactic =>
  `(tactic| (unfold $f primShape
             rw [show Parser.new _ = .ok (newParser _) from rfl]
             simp only [Ctl.call_ok, Ctl.bind_eq, Ctl.bind_val]
             generalize $p = r
             cases r with
             | ok a => cases a <;> rfl
             | _ => rfl))

theorem prim_parse_u16_shape (fuel : Nat) (s : List Nat) :
    Extracted.prim_parse_u16 fuel s = primShape ({ _priv := () } : ParseIntError) (Parser.parse_u16 fuel) s := by
  prim_shape2 Extracted.prim_parse_u16 (Parser.parse_u16 fuel (newParser s))
theorem prim_parse_u64_shape (fuel : Nat) (s : List Nat) :
    Extracted.prim_parse_u64 fuel s = primShape ({ _priv := () } : ParseIntError) (Parser.parse_u64 fuel) s := by
  prim_shape2 Extracted.prim_parse_u64 (Parser.parse_u64 fuel (newParser s))
theorem prim_parse_i16_shape (fuel : Nat) (s : List Nat) :
    Extracted.prim_parse_i16 fuel s = primShape ({ _priv := () } : ParseIntError) (Parser.parse_i16 fuel) s := by
  prim_shape2 Extracted.prim_parse_i16 (Parser.parse_i16 fuel (newParser s))
theorem prim_parse_i32_shape (fuel : Nat) (s : List Nat) :
    Extracted.prim_parse_i32 fuel s = primShape ({ _priv := () } : ParseIntError) (Parser.parse_i32 fuel) s := by
  prim_shape2 Extracted.prim_parse_i32 (Parser.parse_i32 fuel (newParser s))
theorem prim_parse_isize_shape (fuel : Nat) (s : List Nat) :
    Extracted.prim_parse_isize fuel s = primShape ({ _priv := () } : ParseIntError) (Parser.parse_isize fuel) s := by
  prim_shape2 Extracted.prim_parse_isize (Parser.parse_isize fuel (newParser s))

/-! ### `u16` -/

/-- `Parser::parse_u16` = the model's `parseInt · false 16` (see `Parser.parse_u8_eq`) -/
theorem Parser.parse_u16_eq (fuel : Nat) (p : Parser)
    (hoff : p.start_offset + p.str.length < 2 ^ 32) (hb : ∀ b ∈ p.str, b < 256)
    (hf : p.str.length ≤ fuel) :
    Extracted.Parser.parse_u16 fuel p = resOf natVal (Konst.Parser.parseInt (toParser p) false 16) := by
  rw [parse_u16_shape]; exact parseU_eq 16 (by decide) fuel p hoff hb hf

/-- `Parser::parse_u16` on a `&str` never panics: it returns `Ok`/`Err` as the model does -/
theorem Parser.parse_u16_ok (fuel : Nat) (p : Parser)
    (hoff : p.start_offset + p.str.length < 2 ^ 32) (hv : Konst.Spec.Utf8.Valid p.str)
    (hf : p.str.length ≤ fuel) :
    let r := Konst.Parser.parseInt (toParser p) false 16
    (∃ q v t, r = .ok q v ∧ natVal v = some t ∧ Extracted.Parser.parse_u16 fuel p = .ok (.ok (t, ofParser q))) ∨
    (∃ e, r = .err e ∧ Extracted.Parser.parse_u16 fuel p = .ok (.error (ofError e))) := by
  rw [Parser.parse_u16_eq fuel p hoff (pi_valid_lt_256 hv) hf]
  exact parseInt_resOf_ok natVal p false 16 hv fun n hn => natVal_some n (hn rfl)

/- "65535," at offset 7 (direction and flag arbitrary) and "65536" -/
example : Extracted.Parser.parse_u16 6 ⟨.FromEnd, true, 7, [54, 53, 53, 51, 53, 44]⟩
    = resOf natVal (Konst.Parser.parseInt (toParser ⟨.FromEnd, true, 7, [54, 53, 53, 51, 53, 44]⟩) false 16) :=
  Parser.parse_u16_eq _ _ (by decide) (by decide) (by decide)
example : Extracted.Parser.parse_u16 6 ⟨.FromEnd, true, 7, [54, 53, 53, 51, 53, 44]⟩
    = .ok (.ok (65535, ⟨.FromStart, true, 12, [44]⟩)) := by rfl
example : Extracted.Parser.parse_u16 5 ⟨.FromStart, false, 0, [54, 53, 53, 51, 54]⟩
    = .ok (.error ⟨0, 5, .FromStart, .ParseInteger, [], ()⟩) := by rfl

/-- `konst::primitive::parse_u16` = the model's `parseWhole false 16` (see `prim_parse_u8_eq`) -/
theorem prim_parse_u16_eq (fuel : Nat) (s : List Nat)
    (hlen : s.length < 2 ^ 32) (hb : ∀ b ∈ s, b < 256) (hf : s.length ≤ fuel) :
    Extracted.prim_parse_u16 fuel s =
      if Konst.Parser.parseInt (Konst.Parser.new s) false 16 = .panic then .panic
      else wholeRes ({ _priv := () } : ParseIntError) (fun n => natVal (.int n)) (ParseInt.parseWhole false 16 s) := by
  rw [prim_parse_u16_shape]
  exact primInt_eq natVal false 16 _ s
    (Parser.parse_u16_eq fuel (newParser s) (by simpa [newParser] using hlen) hb hf)
    fun n hn => natVal_some n (hn rfl)

/-- `konst::primitive::parse_u16` on a `&str` never panics: `Ok(n)` / `Err(..)` exactly as `parseWhole` says -/
theorem prim_parse_u16_ok (fuel : Nat) (s : List Nat)
    (hlen : s.length < 2 ^ 32) (hv : Konst.Spec.Utf8.Valid s) (hf : s.length ≤ fuel) :
    (∃ n : Nat, ParseInt.parseWhole false 16 s = some (n : Int) ∧ Extracted.prim_parse_u16 fuel s = .ok (.ok n)) ∨
    (ParseInt.parseWhole false 16 s = none ∧ Extracted.prim_parse_u16 fuel s = .ok (.error { _priv := () })) :=
  primInt_ok natVal (fun t : Nat => (t : Int)) false 16 _ s
    (prim_parse_u16_eq fuel s hlen (pi_valid_lt_256 hv) hf) hv
    fun n hn => ⟨n.toNat, natVal_int n (parseWhole_unsigned_nonneg 16 s n hn)⟩

/- "65535", "65536", "65535x" -/
example : Extracted.prim_parse_u16 5 [54, 53, 53, 51, 53] =
    if Konst.Parser.parseInt (Konst.Parser.new [54, 53, 53, 51, 53]) false 16 = .panic then .panic
    else wholeRes ({ _priv := () } : ParseIntError) (fun n => natVal (.int n)) (ParseInt.parseWhole false 16 [54, 53, 53, 51, 53]) :=
  prim_parse_u16_eq _ _ (by decide) (by decide) (by decide)
example : Extracted.prim_parse_u16 5 [54, 53, 53, 51, 53] = .ok (.ok (65535)) := by rfl
example : Extracted.prim_parse_u16 5 [54, 53, 53, 51, 54] = .ok (.error { _priv := () }) := by rfl
example : Extracted.prim_parse_u16 6 [54, 53, 53, 51, 53, 120] = .ok (.error { _priv := () }) := by rfl

/-- `StdParser::<u16>::parse_with` IS `Parser::parse_u16`, for every outcome -/
theorem StdParser_u16_parse_with_eq (fuel : Nat) (p : Extracted.Parser) :
    Extracted.StdParser_u16.parse_with fuel p = Extracted.Parser.parse_u16 fuel p := pw_run_call _

example : Extracted.StdParser_u16.parse_with 6 ⟨.FromEnd, true, 7, [54, 53, 53, 51, 53, 44]⟩
    = Extracted.Parser.parse_u16 6 ⟨.FromEnd, true, 7, [54, 53, 53, 51, 53, 44]⟩ := StdParser_u16_parse_with_eq _ _
example : Extracted.StdParser_u16.parse_with 6 ⟨.FromEnd, true, 7, [54, 53, 53, 51, 53, 44]⟩
    = .ok (.ok (65535, ⟨.FromStart, true, 12, [44]⟩)) := by rfl

/-! ### `u64` -/

/-- `Parser::parse_u64` = the model's `parseInt · false 64` (see `Parser.parse_u8_eq`) -/
theorem Parser.parse_u64_eq (fuel : Nat) (p : Parser)
    (hoff : p.start_offset + p.str.length < 2 ^ 32) (hb : ∀ b ∈ p.str, b < 256)
    (hf : p.str.length ≤ fuel) :
    Extracted.Parser.parse_u64 fuel p = resOf natVal (Konst.Parser.parseInt (toParser p) false 64) := by
  rw [parse_u64_shape]; exact parseU_eq 64 (by decide) fuel p hoff hb hf

/-- `Parser::parse_u64` on a `&str` never panics: it returns `Ok`/`Err` as the model does -/
theorem Parser.parse_u64_ok (fuel : Nat) (p : Parser)
    (hoff : p.start_offset + p.str.length < 2 ^ 32) (hv : Konst.Spec.Utf8.Valid p.str)
    (hf : p.str.length ≤ fuel) :
    let r := Konst.Parser.parseInt (toParser p) false 64
    (∃ q v t, r = .ok q v ∧ natVal v = some t ∧ Extracted.Parser.parse_u64 fuel p = .ok (.ok (t, ofParser q))) ∨
    (∃ e, r = .err e ∧ Extracted.Parser.parse_u64 fuel p = .ok (.error (ofError e))) := by
  rw [Parser.parse_u64_eq fuel p hoff (pi_valid_lt_256 hv) hf]
  exact parseInt_resOf_ok natVal p false 64 hv fun n hn => natVal_some n (hn rfl)

/- "18446744073709551615;" at offset 7 (direction and flag arbitrary) and "18446744073709551616" -/
example : Extracted.Parser.parse_u64 21 ⟨.FromEnd, true, 7, [49, 56, 52, 52, 54, 55, 52, 52, 48, 55, 51, 55, 48, 57, 53, 53, 49, 54, 49, 53, 59]⟩
    = resOf natVal (Konst.Parser.parseInt (toParser ⟨.FromEnd, true, 7, [49, 56, 52, 52, 54, 55, 52, 52, 48, 55, 51, 55, 48, 57, 53, 53, 49, 54, 49, 53, 59]⟩) false 64) :=
  Parser.parse_u64_eq _ _ (by decide) (by decide) (by decide)
example : Extracted.Parser.parse_u64 21 ⟨.FromEnd, true, 7, [49, 56, 52, 52, 54, 55, 52, 52, 48, 55, 51, 55, 48, 57, 53, 53, 49, 54, 49, 53, 59]⟩
    = .ok (.ok (18446744073709551615, ⟨.FromStart, true, 27, [59]⟩)) := by rfl
example : Extracted.Parser.parse_u64 20 ⟨.FromStart, false, 0, [49, 56, 52, 52, 54, 55, 52, 52, 48, 55, 51, 55, 48, 57, 53, 53, 49, 54, 49, 54]⟩
    = .ok (.error ⟨0, 20, .FromStart, .ParseInteger, [], ()⟩) := by rfl

/-- `konst::primitive::parse_u64` = the model's `parseWhole false 64` (see `prim_parse_u8_eq`) -/
theorem prim_parse_u64_eq (fuel : Nat) (s : List Nat)
    (hlen : s.length < 2 ^ 32) (hb : ∀ b ∈ s, b < 256) (hf : s.length ≤ fuel) :
    Extracted.prim_parse_u64 fuel s =
      if Konst.Parser.parseInt (Konst.Parser.new s) false 64 = .panic then .panic
      else wholeRes ({ _priv := () } : ParseIntError) (fun n => natVal (.int n)) (ParseInt.parseWhole false 64 s) := by
  rw [prim_parse_u64_shape]
  exact primInt_eq natVal false 64 _ s
    (Parser.parse_u64_eq fuel (newParser s) (by simpa [newParser] using hlen) hb hf)
    fun n hn => natVal_some n (hn rfl)

/-- `konst::primitive::parse_u64` on a `&str` never panics: `Ok(n)` / `Err(..)` exactly as `parseWhole` says -/
theorem prim_parse_u64_ok (fuel : Nat) (s : List Nat)
    (hlen : s.length < 2 ^ 32) (hv : Konst.Spec.Utf8.Valid s) (hf : s.length ≤ fuel) :
    (∃ n : Nat, ParseInt.parseWhole false 64 s = some (n : Int) ∧ Extracted.prim_parse_u64 fuel s = .ok (.ok n)) ∨
    (ParseInt.parseWhole false 64 s = none ∧ Extracted.prim_parse_u64 fuel s = .ok (.error { _priv := () })) :=
  primInt_ok natVal (fun t : Nat => (t : Int)) false 64 _ s
    (prim_parse_u64_eq fuel s hlen (pi_valid_lt_256 hv) hf) hv
    fun n hn => ⟨n.toNat, natVal_int n (parseWhole_unsigned_nonneg 64 s n hn)⟩

/- "18446744073709551615", "18446744073709551616", "18446744073709551615x" -/
example : Extracted.prim_parse_u64 20 [49, 56, 52, 52, 54, 55, 52, 52, 48, 55, 51, 55, 48, 57, 53, 53, 49, 54, 49, 53] =
    if Konst.Parser.parseInt (Konst.Parser.new [49, 56, 52, 52, 54, 55, 52, 52, 48, 55, 51, 55, 48, 57, 53, 53, 49, 54, 49, 53]) false 64 = .panic then .panic
    else wholeRes ({ _priv := () } : ParseIntError) (fun n => natVal (.int n)) (ParseInt.parseWhole false 64 [49, 56, 52, 52, 54, 55, 52, 52, 48, 55, 51, 55, 48, 57, 53, 53, 49, 54, 49, 53]) :=
  prim_parse_u64_eq _ _ (by decide) (by decide) (by decide)
example : Extracted.prim_parse_u64 20 [49, 56, 52, 52, 54, 55, 52, 52, 48, 55, 51, 55, 48, 57, 53, 53, 49, 54, 49, 53] = .ok (.ok (18446744073709551615)) := by rfl
example : Extracted.prim_parse_u64 20 [49, 56, 52, 52, 54, 55, 52, 52, 48, 55, 51, 55, 48, 57, 53, 53, 49, 54, 49, 54] = .ok (.error { _priv := () }) := by rfl
example : Extracted.prim_parse_u64 21 [49, 56, 52, 52, 54, 55, 52, 52, 48, 55, 51, 55, 48, 57, 53, 53, 49, 54, 49, 53, 120] = .ok (.error { _priv := () }) := by rfl

/-- `StdParser::<u64>::parse_with` IS `Parser::parse_u64`, for every outcome -/
theorem StdParser_u64_parse_with_eq (fuel : Nat) (p : Extracted.Parser) :
    Extracted.StdParser_u64.parse_with fuel p = Extracted.Parser.parse_u64 fuel p := pw_run_call _

example : Extracted.StdParser_u64.parse_with 21 ⟨.FromEnd, true, 7, [49, 56, 52, 52, 54, 55, 52, 52, 48, 55, 51, 55, 48, 57, 53, 53, 49, 54, 49, 53, 59]⟩
    = Extracted.Parser.parse_u64 21 ⟨.FromEnd, true, 7, [49, 56, 52, 52, 54, 55, 52, 52, 48, 55, 51, 55, 48, 57, 53, 53, 49, 54, 49, 53, 59]⟩ := StdParser_u64_parse_with_eq _ _
example : Extracted.StdParser_u64.parse_with 21 ⟨.FromEnd, true, 7, [49, 56, 52, 52, 54, 55, 52, 52, 48, 55, 51, 55, 48, 57, 53, 53, 49, 54, 49, 53, 59]⟩
    = .ok (.ok (18446744073709551615, ⟨.FromStart, true, 27, [59]⟩)) := by rfl

/-! ### `i16` -/

/-- `Parser::parse_i16` = the model's `parseInt · true 16` (see `Parser.parse_u8_eq`) -/
theorem Parser.parse_i16_eq (fuel : Nat) (p : Parser)
    (hoff : p.start_offset + p.str.length < 2 ^ 32) (hb : ∀ b ∈ p.str, b < 256)
    (hf : p.str.length ≤ fuel) :
    Extracted.Parser.parse_i16 fuel p = resOf intVal (Konst.Parser.parseInt (toParser p) true 16) := by
  rw [parse_i16_shape]; exact parseI_eq 16 (by decide) _ _ (by decide) (by decide) fuel p hoff hb hf

/-- `Parser::parse_i16` on a `&str` never panics: it returns `Ok`/`Err` as the model does -/
theorem Parser.parse_i16_ok (fuel : Nat) (p : Parser)
    (hoff : p.start_offset + p.str.length < 2 ^ 32) (hv : Konst.Spec.Utf8.Valid p.str)
    (hf : p.str.length ≤ fuel) :
    let r := Konst.Parser.parseInt (toParser p) true 16
    (∃ q v t, r = .ok q v ∧ intVal v = some t ∧ Extracted.Parser.parse_i16 fuel p = .ok (.ok (t, ofParser q))) ∨
    (∃ e, r = .err e ∧ Extracted.Parser.parse_i16 fuel p = .ok (.error (ofError e))) := by
  rw [Parser.parse_i16_eq fuel p hoff (pi_valid_lt_256 hv) hf]
  exact parseInt_resOf_ok intVal p true 16 hv fun n _ => intVal_some n

/- "-32768" at offset 7 (direction and flag arbitrary) and "32768" -/
example : Extracted.Parser.parse_i16 6 ⟨.FromEnd, true, 7, [45, 51, 50, 55, 54, 56]⟩
    = resOf intVal (Konst.Parser.parseInt (toParser ⟨.FromEnd, true, 7, [45, 51, 50, 55, 54, 56]⟩) true 16) :=
  Parser.parse_i16_eq _ _ (by decide) (by decide) (by decide)
example : Extracted.Parser.parse_i16 6 ⟨.FromEnd, true, 7, [45, 51, 50, 55, 54, 56]⟩
    = .ok (.ok (-32768, ⟨.FromStart, true, 13, []⟩)) := by rfl
example : Extracted.Parser.parse_i16 5 ⟨.FromStart, false, 0, [51, 50, 55, 54, 56]⟩
    = .ok (.error ⟨0, 5, .FromStart, .ParseInteger, [], ()⟩) := by rfl

/-- `konst::primitive::parse_i16` = the model's `parseWhole true 16` (see `prim_parse_u8_eq`) -/
theorem prim_parse_i16_eq (fuel : Nat) (s : List Nat)
    (hlen : s.length < 2 ^ 32) (hb : ∀ b ∈ s, b < 256) (hf : s.length ≤ fuel) :
    Extracted.prim_parse_i16 fuel s =
      if Konst.Parser.parseInt (Konst.Parser.new s) true 16 = .panic then .panic
      else wholeRes ({ _priv := () } : ParseIntError) (fun n => intVal (.int n)) (ParseInt.parseWhole true 16 s) := by
  rw [prim_parse_i16_shape]
  exact primInt_eq intVal true 16 _ s
    (Parser.parse_i16_eq fuel (newParser s) (by simpa [newParser] using hlen) hb hf)
    fun n _ => intVal_some n

/-- `konst::primitive::parse_i16` on a `&str` never panics: `Ok(n)` / `Err(..)` exactly as `parseWhole` says -/
theorem prim_parse_i16_ok (fuel : Nat) (s : List Nat)
    (hlen : s.length < 2 ^ 32) (hv : Konst.Spec.Utf8.Valid s) (hf : s.length ≤ fuel) :
    (∃ n : Int, ParseInt.parseWhole true 16 s = some n ∧ Extracted.prim_parse_i16 fuel s = .ok (.ok n)) ∨
    (ParseInt.parseWhole true 16 s = none ∧ Extracted.prim_parse_i16 fuel s = .ok (.error { _priv := () })) :=
  primInt_ok intVal id true 16 _ s
    (prim_parse_i16_eq fuel s hlen (pi_valid_lt_256 hv) hf) hv
    fun n _ => ⟨n, rfl, rfl⟩

/- "-32768", "32768", "-32768x" -/
example : Extracted.prim_parse_i16 6 [45, 51, 50, 55, 54, 56] =
    if Konst.Parser.parseInt (Konst.Parser.new [45, 51, 50, 55, 54, 56]) true 16 = .panic then .panic
    else wholeRes ({ _priv := () } : ParseIntError) (fun n => intVal (.int n)) (ParseInt.parseWhole true 16 [45, 51, 50, 55, 54, 56]) :=
  prim_parse_i16_eq _ _ (by decide) (by decide) (by decide)
example : Extracted.prim_parse_i16 6 [45, 51, 50, 55, 54, 56] = .ok (.ok (-32768)) := by rfl
example : Extracted.prim_parse_i16 5 [51, 50, 55, 54, 56] = .ok (.error { _priv := () }) := by rfl
example : Extracted.prim_parse_i16 7 [45, 51, 50, 55, 54, 56, 120] = .ok (.error { _priv := () }) := by rfl

/-- `StdParser::<i16>::parse_with` IS `Parser::parse_i16`, for every outcome -/
theorem StdParser_i16_parse_with_eq (fuel : Nat) (p : Extracted.Parser) :
    Extracted.StdParser_i16.parse_with fuel p = Extracted.Parser.parse_i16 fuel p := pw_run_call _

example : Extracted.StdParser_i16.parse_with 6 ⟨.FromEnd, true, 7, [45, 51, 50, 55, 54, 56]⟩
    = Extracted.Parser.parse_i16 6 ⟨.FromEnd, true, 7, [45, 51, 50, 55, 54, 56]⟩ := StdParser_i16_parse_with_eq _ _
example : Extracted.StdParser_i16.parse_with 6 ⟨.FromEnd, true, 7, [45, 51, 50, 55, 54, 56]⟩
    = .ok (.ok (-32768, ⟨.FromStart, true, 13, []⟩)) := by rfl

/-! ### `i32` -/

/-- `Parser::parse_i32` = the model's `parseInt · true 32` (see `Parser.parse_u8_eq`) -/
theorem Parser.parse_i32_eq (fuel : Nat) (p : Parser)
    (hoff : p.start_offset + p.str.length < 2 ^ 32) (hb : ∀ b ∈ p.str, b < 256)
    (hf : p.str.length ≤ fuel) :
    Extracted.Parser.parse_i32 fuel p = resOf intVal (Konst.Parser.parseInt (toParser p) true 32) := by
  rw [parse_i32_shape]; exact parseI_eq 32 (by decide) _ _ (by decide) (by decide) fuel p hoff hb hf

/-- `Parser::parse_i32` on a `&str` never panics: it returns `Ok`/`Err` as the model does -/
theorem Parser.parse_i32_ok (fuel : Nat) (p : Parser)
    (hoff : p.start_offset + p.str.length < 2 ^ 32) (hv : Konst.Spec.Utf8.Valid p.str)
    (hf : p.str.length ≤ fuel) :
    let r := Konst.Parser.parseInt (toParser p) true 32
    (∃ q v t, r = .ok q v ∧ intVal v = some t ∧ Extracted.Parser.parse_i32 fuel p = .ok (.ok (t, ofParser q))) ∨
    (∃ e, r = .err e ∧ Extracted.Parser.parse_i32 fuel p = .ok (.error (ofError e))) := by
  rw [Parser.parse_i32_eq fuel p hoff (pi_valid_lt_256 hv) hf]
  exact parseInt_resOf_ok intVal p true 32 hv fun n _ => intVal_some n

/- "-2147483648 " at offset 7 (direction and flag arbitrary) and "2147483648" -/
example : Extracted.Parser.parse_i32 12 ⟨.FromEnd, true, 7, [45, 50, 49, 52, 55, 52, 56, 51, 54, 52, 56, 32]⟩
    = resOf intVal (Konst.Parser.parseInt (toParser ⟨.FromEnd, true, 7, [45, 50, 49, 52, 55, 52, 56, 51, 54, 52, 56, 32]⟩) true 32) :=
  Parser.parse_i32_eq _ _ (by decide) (by decide) (by decide)
example : Extracted.Parser.parse_i32 12 ⟨.FromEnd, true, 7, [45, 50, 49, 52, 55, 52, 56, 51, 54, 52, 56, 32]⟩
    = .ok (.ok (-2147483648, ⟨.FromStart, true, 18, [32]⟩)) := by rfl
example : Extracted.Parser.parse_i32 10 ⟨.FromStart, false, 0, [50, 49, 52, 55, 52, 56, 51, 54, 52, 56]⟩
    = .ok (.error ⟨0, 10, .FromStart, .ParseInteger, [], ()⟩) := by rfl

/-- `konst::primitive::parse_i32` = the model's `parseWhole true 32` (see `prim_parse_u8_eq`) -/
theorem prim_parse_i32_eq (fuel : Nat) (s : List Nat)
    (hlen : s.length < 2 ^ 32) (hb : ∀ b ∈ s, b < 256) (hf : s.length ≤ fuel) :
    Extracted.prim_parse_i32 fuel s =
      if Konst.Parser.parseInt (Konst.Parser.new s) true 32 = .panic then .panic
      else wholeRes ({ _priv := () } : ParseIntError) (fun n => intVal (.int n)) (ParseInt.parseWhole true 32 s) := by
  rw [prim_parse_i32_shape]
  exact primInt_eq intVal true 32 _ s
    (Parser.parse_i32_eq fuel (newParser s) (by simpa [newParser] using hlen) hb hf)
    fun n _ => intVal_some n

/-- `konst::primitive::parse_i32` on a `&str` never panics: `Ok(n)` / `Err(..)` exactly as `parseWhole` says -/
theorem prim_parse_i32_ok (fuel : Nat) (s : List Nat)
    (hlen : s.length < 2 ^ 32) (hv : Konst.Spec.Utf8.Valid s) (hf : s.length ≤ fuel) :
    (∃ n : Int, ParseInt.parseWhole true 32 s = some n ∧ Extracted.prim_parse_i32 fuel s = .ok (.ok n)) ∨
    (ParseInt.parseWhole true 32 s = none ∧ Extracted.prim_parse_i32 fuel s = .ok (.error { _priv := () })) :=
  primInt_ok intVal id true 32 _ s
    (prim_parse_i32_eq fuel s hlen (pi_valid_lt_256 hv) hf) hv
    fun n _ => ⟨n, rfl, rfl⟩

/- "-2147483648", "2147483648", "-2147483648x" -/
example : Extracted.prim_parse_i32 11 [45, 50, 49, 52, 55, 52, 56, 51, 54, 52, 56] =
    if Konst.Parser.parseInt (Konst.Parser.new [45, 50, 49, 52, 55, 52, 56, 51, 54, 52, 56]) true 32 = .panic then .panic
    else wholeRes ({ _priv := () } : ParseIntError) (fun n => intVal (.int n)) (ParseInt.parseWhole true 32 [45, 50, 49, 52, 55, 52, 56, 51, 54, 52, 56]) :=
  prim_parse_i32_eq _ _ (by decide) (by decide) (by decide)
example : Extracted.prim_parse_i32 11 [45, 50, 49, 52, 55, 52, 56, 51, 54, 52, 56] = .ok (.ok (-2147483648)) := by rfl
example : Extracted.prim_parse_i32 10 [50, 49, 52, 55, 52, 56, 51, 54, 52, 56] = .ok (.error { _priv := () }) := by rfl
example : Extracted.prim_parse_i32 12 [45, 50, 49, 52, 55, 52, 56, 51, 54, 52, 56, 120] = .ok (.error { _priv := () }) := by rfl

/-- `StdParser::<i32>::parse_with` IS `Parser::parse_i32`, for every outcome -/
theorem StdParser_i32_parse_with_eq (fuel : Nat) (p : Extracted.Parser) :
    Extracted.StdParser_i32.parse_with fuel p = Extracted.Parser.parse_i32 fuel p := pw_run_call _

example : Extracted.StdParser_i32.parse_with 12 ⟨.FromEnd, true, 7, [45, 50, 49, 52, 55, 52, 56, 51, 54, 52, 56, 32]⟩
    = Extracted.Parser.parse_i32 12 ⟨.FromEnd, true, 7, [45, 50, 49, 52, 55, 52, 56, 51, 54, 52, 56, 32]⟩ := StdParser_i32_parse_with_eq _ _
example : Extracted.StdParser_i32.parse_with 12 ⟨.FromEnd, true, 7, [45, 50, 49, 52, 55, 52, 56, 51, 54, 52, 56, 32]⟩
    = .ok (.ok (-2147483648, ⟨.FromStart, true, 18, [32]⟩)) := by rfl

/-! ### `isize` -/

/-- `isize` is 64 bits wide (`Konst.USIZE`) -/
theorem Parser.parse_isize_eq (fuel : Nat) (p : Parser)
    (hoff : p.start_offset + p.str.length < 2 ^ 32) (hb : ∀ b ∈ p.str, b < 256)
    (hf : p.str.length ≤ fuel) :
    Extracted.Parser.parse_isize fuel p = resOf intVal (Konst.Parser.parseInt (toParser p) true 64) := by
  rw [parse_isize_shape]; exact parseI_eq 64 (by decide) _ _ (by decide) (by decide) fuel p hoff hb hf

/-- `Parser::parse_isize` on a `&str` never panics: it returns `Ok`/`Err` as the model does -/
theorem Parser.parse_isize_ok (fuel : Nat) (p : Parser)
    (hoff : p.start_offset + p.str.length < 2 ^ 32) (hv : Konst.Spec.Utf8.Valid p.str)
    (hf : p.str.length ≤ fuel) :
    let r := Konst.Parser.parseInt (toParser p) true 64
    (∃ q v t, r = .ok q v ∧ intVal v = some t ∧ Extracted.Parser.parse_isize fuel p = .ok (.ok (t, ofParser q))) ∨
    (∃ e, r = .err e ∧ Extracted.Parser.parse_isize fuel p = .ok (.error (ofError e))) := by
  rw [Parser.parse_isize_eq fuel p hoff (pi_valid_lt_256 hv) hf]
  exact parseInt_resOf_ok intVal p true 64 hv fun n _ => intVal_some n

/- "-9223372036854775808" at offset 7 (direction and flag arbitrary) and "9223372036854775808" -/
example : Extracted.Parser.parse_isize 20 ⟨.FromEnd, true, 7, [45, 57, 50, 50, 51, 51, 55, 50, 48, 51, 54, 56, 53, 52, 55, 55, 53, 56, 48, 56]⟩
    = resOf intVal (Konst.Parser.parseInt (toParser ⟨.FromEnd, true, 7, [45, 57, 50, 50, 51, 51, 55, 50, 48, 51, 54, 56, 53, 52, 55, 55, 53, 56, 48, 56]⟩) true 64) :=
  Parser.parse_isize_eq _ _ (by decide) (by decide) (by decide)
example : Extracted.Parser.parse_isize 20 ⟨.FromEnd, true, 7, [45, 57, 50, 50, 51, 51, 55, 50, 48, 51, 54, 56, 53, 52, 55, 55, 53, 56, 48, 56]⟩
    = .ok (.ok (-9223372036854775808, ⟨.FromStart, true, 27, []⟩)) := by rfl
example : Extracted.Parser.parse_isize 19 ⟨.FromStart, false, 0, [57, 50, 50, 51, 51, 55, 50, 48, 51, 54, 56, 53, 52, 55, 55, 53, 56, 48, 56]⟩
    = .ok (.error ⟨0, 19, .FromStart, .ParseInteger, [], ()⟩) := by rfl

/-- `konst::primitive::parse_isize` = the model's `parseWhole true 64` (see `prim_parse_u8_eq`) -/
theorem prim_parse_isize_eq (fuel : Nat) (s : List Nat)
    (hlen : s.length < 2 ^ 32) (hb : ∀ b ∈ s, b < 256) (hf : s.length ≤ fuel) :
    Extracted.prim_parse_isize fuel s =
      if Konst.Parser.parseInt (Konst.Parser.new s) true 64 = .panic then .panic
      else wholeRes ({ _priv := () } : ParseIntError) (fun n => intVal (.int n)) (ParseInt.parseWhole true 64 s) := by
  rw [prim_parse_isize_shape]
  exact primInt_eq intVal true 64 _ s
    (Parser.parse_isize_eq fuel (newParser s) (by simpa [newParser] using hlen) hb hf)
    fun n _ => intVal_some n

/-- `konst::primitive::parse_isize` on a `&str` never panics: `Ok(n)` / `Err(..)` exactly as `parseWhole` says -/
theorem prim_parse_isize_ok (fuel : Nat) (s : List Nat)
    (hlen : s.length < 2 ^ 32) (hv : Konst.Spec.Utf8.Valid s) (hf : s.length ≤ fuel) :
    (∃ n : Int, ParseInt.parseWhole true 64 s = some n ∧ Extracted.prim_parse_isize fuel s = .ok (.ok n)) ∨
    (ParseInt.parseWhole true 64 s = none ∧ Extracted.prim_parse_isize fuel s = .ok (.error { _priv := () })) :=
  primInt_ok intVal id true 64 _ s
    (prim_parse_isize_eq fuel s hlen (pi_valid_lt_256 hv) hf) hv
    fun n _ => ⟨n, rfl, rfl⟩

/- "-9223372036854775808", "9223372036854775808", "-9223372036854775808x" -/
example : Extracted.prim_parse_isize 20 [45, 57, 50, 50, 51, 51, 55, 50, 48, 51, 54, 56, 53, 52, 55, 55, 53, 56, 48, 56] =
    if Konst.Parser.parseInt (Konst.Parser.new [45, 57, 50, 50, 51, 51, 55, 50, 48, 51, 54, 56, 53, 52, 55, 55, 53, 56, 48, 56]) true 64 = .panic then .panic
    else wholeRes ({ _priv := () } : ParseIntError) (fun n => intVal (.int n)) (ParseInt.parseWhole true 64 [45, 57, 50, 50, 51, 51, 55, 50, 48, 51, 54, 56, 53, 52, 55, 55, 53, 56, 48, 56]) :=
  prim_parse_isize_eq _ _ (by decide) (by decide) (by decide)
example : Extracted.prim_parse_isize 20 [45, 57, 50, 50, 51, 51, 55, 50, 48, 51, 54, 56, 53, 52, 55, 55, 53, 56, 48, 56] = .ok (.ok (-9223372036854775808)) := by rfl
example : Extracted.prim_parse_isize 19 [57, 50, 50, 51, 51, 55, 50, 48, 51, 54, 56, 53, 52, 55, 55, 53, 56, 48, 56] = .ok (.error { _priv := () }) := by rfl
example : Extracted.prim_parse_isize 21 [45, 57, 50, 50, 51, 51, 55, 50, 48, 51, 54, 56, 53, 52, 55, 55, 53, 56, 48, 56, 120] = .ok (.error { _priv := () }) := by rfl

/-- `StdParser::<isize>::parse_with` IS `Parser::parse_isize`, for every outcome -/
theorem StdParser_isize_parse_with_eq (fuel : Nat) (p : Extracted.Parser) :
    Extracted.StdParser_isize.parse_with fuel p = Extracted.Parser.parse_isize fuel p := pw_run_call _

example : Extracted.StdParser_isize.parse_with 20 ⟨.FromEnd, true, 7, [45, 57, 50, 50, 51, 51, 55, 50, 48, 51, 54, 56, 53, 52, 55, 55, 53, 56, 48, 56]⟩
    = Extracted.Parser.parse_isize 20 ⟨.FromEnd, true, 7, [45, 57, 50, 50, 51, 51, 55, 50, 48, 51, 54, 56, 53, 52, 55, 55, 53, 56, 48, 56]⟩ := StdParser_isize_parse_with_eq _ _
example : Extracted.StdParser_isize.parse_with 20 ⟨.FromEnd, true, 7, [45, 57, 50, 50, 51, 51, 55, 50, 48, 51, 54, 56, 53, 52, 55, 55, 53, 56, 48, 56]⟩
    = .ok (.ok (-9223372036854775808, ⟨.FromStart, true, 27, []⟩)) := by rfl

end Extracted.Equiv
