import KonstVerif.Extracted.Gen.CStr
import KonstVerif.Extracted.Equiv.Slice
import KonstVerif.Model.CStr
import KonstVerif.Lemmas.CStr
/-
  Extracted (regenerated from /repo) = Model, for konst::ffi::cstr (C20, constructor half):
  `from_bytes_until_nul_inner`, `from_bytes_until_nul`, `from_bytes_with_nul` and its local
  `make_not_null_term_err`.

  The generated code returns `&CStr` values as byte lists (the bytes INCLUDING the terminating nul) inside the
  generated result structures; the model returns `View`s into `bytes` inside `Option` / `WithNul`.  The
  conversions below are the explicit dictionary between the two; a view is applied to the argument with
  `View.apply`.

  `= .ok …` also says: the `unsafe { CStr::from_bytes_with_nul_unchecked(sub) }` call is never undefined
  behaviour (`sub` = the bytes up to and including the FIRST nul: ends in 0, no earlier 0), no index panic,
  no arithmetic overflow, the fuel suffices.

  Like the model (which mirrors konst, not std), `from_bytes_with_nul(b"a\0b")` is `NotNulTerminated`
  (std: `InteriorNul(1)`); see the examples at the end.
-/
namespace Extracted.Equiv
open Rs Konst Konst.Slice Konst.CStr Konst.Lemmas.CStr Konst.Spec.Concat

/-! ### conversions model result → generated result -/

/-- model `Option (View × Nat)` (cstr view, length_with_nul) as the generated
    `Result<CStrAndLen, FromBytesUntilNulError>` -/
def cstrInnerRes (bytes : List Nat) :
    Option (View × Nat) → Except Extracted.FromBytesUntilNulError Extracted.CStrAndLen
  | some (v, n) => .ok { cstr := v.apply bytes, length_with_nul := n }
  | none => .error (Extracted.FromBytesUntilNulError.mk ())

/-- model `Option View` as the generated `Result<&CStr, FromBytesUntilNulError>` -/
def cstrUntilNulRes (bytes : List Nat) :
    Option View → Except Extracted.FromBytesUntilNulError (List Nat)
  | some v => .ok (v.apply bytes)
  | none => .error (Extracted.FromBytesUntilNulError.mk ())

/-- model `HuntNulError` as the generated one -/
def huntNulError : Konst.CStr.HuntNulError → Extracted.HuntNulError
  | .internalNul p => .InternalNul p
  | .notNulTerminated => .NotNulTerminated

/-- model `WithNul` as the result of calling the generated `Result<T, FromBytesWithNulError>` function
    (`f` turns the model's view into the `T`); the model's `panic` is a panic -/
def withNulRes {T : Type} (f : View → T) :
    WithNul → Res (Except Extracted.FromBytesWithNulError T)
  | .ok v => .ok (.ok (f v))
  | .err k => .ok (.error { kind := huntNulError k })
  | .panic => .panic

/-! ### `from_bytes_until_nul_inner` -/

/-- `CStr::from_bytes_with_nul_unchecked(&bytes[..i+1])` is defined when `bytes[i]` is the first nul -/
theorem cstr_unchecked_take {ε : Type} (bytes : List Nat) (i : Nat) (hi : i < bytes.length)
    (h0 : bytes[i] = 0) (hpre : 0 ∉ bytes.take i) :
    (Rs.cstrFromBytesWithNulUnchecked (bytes.take (i + 1)) : Ctl ε (List Nat)) =
      .val (bytes.take (i + 1)) := by
  have ht : bytes.take (i + 1) = bytes.take i ++ [0] := by
    rw [List.take_succ_eq_append_getElem hi, h0]
  unfold Rs.cstrFromBytesWithNulUnchecked
  rw [ht]
  simp [hpre]

/-- the `while start < end` loop of `from_bytes_until_nul_inner` from state `i`
    (no nul among the first `i` bytes), with enough fuel -/
theorem until_nul_loop (n : Nat) (bytes : List Nat) (i : Nat)
    (hb : bytes.length < 2 ^ 64) (hn : bytes.length + 1 ≤ n + i) (hi : i ≤ bytes.length)
    (hpre : 0 ∉ bytes.take i) :
    (∀ r, untilNulLoop bytes.length (bytes.drop i) i = some r →
        Rs.loop n (Extracted.cstr_from_bytes_until_nul_inner.loop1 bytes.length bytes) i =
          Ctl.exit (cstrInnerRes bytes (some r))) ∧
    (untilNulLoop bytes.length (bytes.drop i) i = none →
        ∃ j, Rs.loop n (Extracted.cstr_from_bytes_until_nul_inner.loop1 bytes.length bytes) i =
          (Ctl.val j : Ctl (Except Extracted.FromBytesUntilNulError Extracted.CStrAndLen) Nat)) := by
  induction n generalizing i with
  | zero => omega
  | succ n ih =>
    rw [Rs.loop_succ]
    by_cases hc : i < bytes.length
    · have h1 : i + 1 < 2 ^ 64 := by omega
      have hidx : bytes[i]? = some bytes[i] := List.getElem?_eq_getElem hc
      rw [List.drop_eq_getElem_cons hc]
      simp only [Extracted.cstr_from_bytes_until_nul_inner.loop1, hc, decide_true, ↓reduceIte, Rs.uadd, h1,
        Rs.index, hidx, Ctl.bind_eq, Ctl.bind_val, untilNulLoop]
      by_cases h0 : bytes[i] = 0
      · have hs : sliceUpTo bytes.length (i + 1) = ⟨0, i + 1⟩ := sliceUpTo_le (by omega)
        have ha : (View.mk 0 (i + 1)).apply bytes = bytes.take (i + 1) := by simp [View.apply]
        simp [h0, slice_up_to_eq, hs, ha, cstr_unchecked_take bytes i hc h0 hpre, cstrInnerRes]
      · simp only [h0, decide_false, Bool.false_eq_true, ↓reduceIte, Ctl.pure_eq, Ctl.bind_val]
        refine ih (i := i + 1) (by omega) (by omega) ?_
        rw [List.take_succ_eq_append_getElem hc]
        simp only [List.mem_append, List.mem_singleton, not_or]
        exact ⟨hpre, fun e => h0 e.symm⟩
    · have hlen : bytes.drop i = [] := List.drop_eq_nil_of_le (by omega)
      simp [Extracted.cstr_from_bytes_until_nul_inner.loop1, hc, hlen, untilNulLoop]

theorem cstr_from_bytes_until_nul_inner_eq (fuel : Nat) (bytes : List Nat)
    (hb : bytes.length < 2 ^ 64) (hf : bytes.length + 1 ≤ fuel) :
    Extracted.cstr_from_bytes_until_nul_inner fuel bytes =
      .ok (cstrInnerRes bytes (fromBytesUntilNulInner bytes)) := by
  unfold Extracted.cstr_from_bytes_until_nul_inner fromBytesUntilNulInner
  have ⟨h1, h2⟩ := until_nul_loop fuel bytes 0 hb (by omega) (by omega) (by simp)
  rw [List.drop_zero] at h1 h2
  cases hr : untilNulLoop bytes.length bytes 0 with
  | some r => simp [h1 r hr]
  | none =>
    obtain ⟨j, hj⟩ := h2 hr
    simp [hj, cstrInnerRes]

/-! ### `from_bytes_until_nul` -/

theorem cstr_from_bytes_until_nul_eq (fuel : Nat) (bytes : List Nat)
    (hb : bytes.length < 2 ^ 64) (hf : bytes.length + 1 ≤ fuel) :
    Extracted.cstr_from_bytes_until_nul fuel bytes =
      .ok (cstrUntilNulRes bytes (fromBytesUntilNul bytes)) := by
  unfold Extracted.cstr_from_bytes_until_nul fromBytesUntilNul
  rw [cstr_from_bytes_until_nul_inner_eq fuel bytes hb hf]
  cases fromBytesUntilNulInner bytes with
  | none => simp [cstrInnerRes, cstrUntilNulRes]
  | some r =>
    obtain ⟨v, n⟩ := r
    simp [cstrInnerRes, cstrUntilNulRes]

/-! ### `from_bytes_with_nul::make_not_null_term_err` and `from_bytes_with_nul` -/

/-- `make_not_null_term_err::<T>()` is the model's `.err .notNulTerminated` (arms 2 and 3 of
    `fromBytesWithNul`), whatever the `T` -/
theorem cstr_make_not_null_term_err_eq {T : Type} (f : View → T) :
    (Extracted.cstr_make_not_null_term_err : Res (Except Extracted.FromBytesWithNulError T)) =
      withNulRes f (.err .notNulTerminated) := by
  simp [Extracted.cstr_make_not_null_term_err, withNulRes, huntNulError]

/-- the `.panic` outcome of the model (the `bytes[bytes.len() - 1]` bounds check in the guard of arm 2) is
    unreachable: the guard is only evaluated when a nul was found, so `bytes` is not empty -/
theorem fromBytesWithNul_ne_panic (bytes : List Nat) : fromBytesWithNul bytes ≠ .panic := by
  unfold fromBytesWithNul
  rw [fromBytesUntilNulInner_eq]
  cases hk : firstNul bytes with
  | none => simp
  | some k =>
    have hlt := firstNul_lt hk
    have hne : bytes ≠ [] := by intro e; rw [e] at hlt; simp at hlt
    obtain ⟨l, hl⟩ : ∃ l, bytes.getLast? = some l := ⟨bytes.getLast hne, List.getLast?_eq_some_getLast hne⟩
    simp only [Option.map_some, hl]
    split
    · simp
    · split <;> simp

/-- main statement: the generated function is the model's `WithNul` (panic ↦ panic, which cannot happen:
    `fromBytesWithNul_ne_panic`; the `= .ok …` form is `cstr_from_bytes_with_nul_ok` below) -/
theorem cstr_from_bytes_with_nul_eq (fuel : Nat) (bytes : List Nat)
    (hb : bytes.length < 2 ^ 64) (hf : bytes.length + 1 ≤ fuel) :
    Extracted.cstr_from_bytes_with_nul fuel bytes =
      withNulRes (fun v => v.apply bytes) (fromBytesWithNul bytes) := by
  unfold Extracted.cstr_from_bytes_with_nul fromBytesWithNul
  rw [cstr_from_bytes_until_nul_inner_eq fuel bytes hb hf, fromBytesUntilNulInner_eq]
  cases hk : firstNul bytes with
  | none =>
    simp [cstrInnerRes, cstr_make_not_null_term_err_eq (fun v : View => v.apply bytes), withNulRes]
  | some k =>
    have hlt := firstNul_lt hk
    have hne : bytes ≠ [] := by intro e; rw [e] at hlt; simp at hlt
    have h1 : 1 ≤ bytes.length := by omega
    have hlast : bytes.getLast? = some (bytes.getLast hne) := List.getLast?_eq_some_getLast hne
    have hidx : bytes[bytes.length - 1]? = some (bytes.getLast hne) := by
      rw [← hlast, List.getLast?_eq_getElem?]
    simp only [Option.map_some, cstrInnerRes, Ctl.call_ok, Ctl.bind_eq, Ctl.bind_val, hlast]
    by_cases hlen : k + 1 = bytes.length
    · simp [hlen, withNulRes]
    · simp only [hlen, decide_false, Bool.false_eq_true, ↓reduceIte, Rs.usub, h1, Ctl.bind_val, Rs.index, hidx]
      by_cases hl0 : bytes.getLast hne = 0
      · simp [hl0, withNulRes, huntNulError]
      · simp [hl0, cstr_make_not_null_term_err_eq (fun v : View => v.apply bytes), withNulRes]

/-- model `WithNul` as the generated `Result<&CStr, FromBytesWithNulError>`; `none` for the (unreachable)
    model outcome `panic` -/
def withNulExcept? (bytes : List Nat) :
    WithNul → Option (Except Extracted.FromBytesWithNulError (List Nat))
  | .ok v => some (.ok (v.apply bytes))
  | .err k => some (.error { kind := huntNulError k })
  | .panic => none

/-- `= .ok …` form: the generated function returns normally, with the model's value -/
theorem cstr_from_bytes_with_nul_ok (fuel : Nat) (bytes : List Nat)
    (hb : bytes.length < 2 ^ 64) (hf : bytes.length + 1 ≤ fuel) :
    ∃ e, withNulExcept? bytes (fromBytesWithNul bytes) = some e ∧
      Extracted.cstr_from_bytes_with_nul fuel bytes = .ok e := by
  rw [cstr_from_bytes_with_nul_eq fuel bytes hb hf]
  have hp := fromBytesWithNul_ne_panic bytes
  cases hr : fromBytesWithNul bytes with
  | ok v => exact ⟨_, rfl, rfl⟩
  | err k => exact ⟨_, rfl, rfl⟩
  | panic => exact absurd hr hp

/-! ### concrete instances (b"ab\0", b"a\0b", b"ab", b"", b"\0") -/

example : Extracted.cstr_from_bytes_until_nul_inner 4 [97, 98, 0] =
    .ok (.ok { cstr := [97, 98, 0], length_with_nul := 3 }) :=
  cstr_from_bytes_until_nul_inner_eq 4 [97, 98, 0] (by decide) (by decide)
example : Extracted.cstr_from_bytes_until_nul_inner 4 [97, 0, 98] =
    .ok (.ok { cstr := [97, 0], length_with_nul := 2 }) :=
  cstr_from_bytes_until_nul_inner_eq 4 [97, 0, 98] (by decide) (by decide)
example : Extracted.cstr_from_bytes_until_nul_inner 3 [97, 98] = .ok (.error ⟨()⟩) :=
  cstr_from_bytes_until_nul_inner_eq 3 [97, 98] (by decide) (by decide)
example : Extracted.cstr_from_bytes_until_nul_inner 1 [] = .ok (.error ⟨()⟩) :=
  cstr_from_bytes_until_nul_inner_eq 1 [] (by decide) (by decide)
example : Extracted.cstr_from_bytes_until_nul_inner 2 [0] =
    .ok (.ok { cstr := [0], length_with_nul := 1 }) :=
  cstr_from_bytes_until_nul_inner_eq 2 [0] (by decide) (by decide)

example : Extracted.cstr_from_bytes_until_nul 4 [97, 98, 0] = .ok (.ok [97, 98, 0]) :=
  cstr_from_bytes_until_nul_eq 4 [97, 98, 0] (by decide) (by decide)
example : Extracted.cstr_from_bytes_until_nul 4 [97, 0, 98] = .ok (.ok [97, 0]) :=
  cstr_from_bytes_until_nul_eq 4 [97, 0, 98] (by decide) (by decide)
example : Extracted.cstr_from_bytes_until_nul 3 [97, 98] = .ok (.error ⟨()⟩) :=
  cstr_from_bytes_until_nul_eq 3 [97, 98] (by decide) (by decide)
example : Extracted.cstr_from_bytes_until_nul 1 [] = .ok (.error ⟨()⟩) :=
  cstr_from_bytes_until_nul_eq 1 [] (by decide) (by decide)
example : Extracted.cstr_from_bytes_until_nul 2 [0] = .ok (.ok [0]) :=
  cstr_from_bytes_until_nul_eq 2 [0] (by decide) (by decide)

example : Extracted.cstr_from_bytes_with_nul 4 [97, 98, 0] = .ok (.ok [97, 98, 0]) :=
  cstr_from_bytes_with_nul_eq 4 [97, 98, 0] (by decide) (by decide)
/-- konst: `NotNulTerminated` (std's `CStr::from_bytes_with_nul(b"a\0b")` is `InteriorNul(1)`) -/
example : Extracted.cstr_from_bytes_with_nul 4 [97, 0, 98] = .ok (.error ⟨.NotNulTerminated⟩) :=
  cstr_from_bytes_with_nul_eq 4 [97, 0, 98] (by decide) (by decide)
example : Extracted.cstr_from_bytes_with_nul 4 [97, 0, 0] = .ok (.error ⟨.InternalNul 1⟩) :=
  cstr_from_bytes_with_nul_eq 4 [97, 0, 0] (by decide) (by decide)
example : Extracted.cstr_from_bytes_with_nul 3 [97, 98] = .ok (.error ⟨.NotNulTerminated⟩) :=
  cstr_from_bytes_with_nul_eq 3 [97, 98] (by decide) (by decide)
example : Extracted.cstr_from_bytes_with_nul 1 [] = .ok (.error ⟨.NotNulTerminated⟩) :=
  cstr_from_bytes_with_nul_eq 1 [] (by decide) (by decide)
example : Extracted.cstr_from_bytes_with_nul 2 [0] = .ok (.ok [0]) :=
  cstr_from_bytes_with_nul_eq 2 [0] (by decide) (by decide)

example : (Extracted.cstr_make_not_null_term_err : Res (Except Extracted.FromBytesWithNulError (List Nat))) =
    .ok (.error ⟨.NotNulTerminated⟩) :=
  cstr_make_not_null_term_err_eq (fun v => v.apply [97, 98])

end Extracted.Equiv
