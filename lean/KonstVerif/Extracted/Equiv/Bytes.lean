import KonstVerif.Extracted.Gen.Bytes
import KonstVerif.Extracted.Equiv.Slice
import KonstVerif.Model.Bytes
/-
  Extracted (regenerated from /repo) = Model, for the byte-slice search functions (C04/C05).
-/
namespace Extracted.Equiv
open Rs Konst Konst.Bytes

/-- the loop of `__bytes_strip_prefix`, from any state, with enough fuel -/
theorem strip_prefix_loop (fuel : Nat) (left pre : List Nat) (hf : pre.length + 1 ≤ fuel) :
    (stripPrefixLoop left pre = none →
        Rs.loop fuel Extracted.bytes_strip_prefix.loop1 (left, pre) = Ctl.exit none) ∧
    (∀ r, stripPrefixLoop left pre = some r →
        ∃ q, Rs.loop fuel Extracted.bytes_strip_prefix.loop1 (left, pre) = Ctl.val (r, q)) := by
  induction fuel generalizing left pre with
  | zero => omega
  | succ n ih =>
    rw [Rs.loop_succ]
    cases left with
    | nil => cases pre <;> simp [Extracted.bytes_strip_prefix.loop1, stripPrefixLoop]
    | cons lb l =>
      cases pre with
      | nil => simp [Extracted.bytes_strip_prefix.loop1, stripPrefixLoop]
      | cons rb p =>
        have ih' := ih l p (by simp at hf; omega)
        simp only [stripPrefixLoop]
        by_cases h : lb = rb
        · subst h
          simpa [Extracted.bytes_strip_prefix.loop1] using ih'
        · simp [Extracted.bytes_strip_prefix.loop1, h]

theorem bytes_strip_prefix_eq (fuel : Nat) (left pre : List Nat) (hf : pre.length + 1 ≤ fuel) :
    Extracted.bytes_strip_prefix fuel left pre = .ok (stripPrefixL left pre) := by
  unfold Extracted.bytes_strip_prefix stripPrefixL
  by_cases hlen : left.length < pre.length
  · simp [hlen]
  · have ⟨h1, h2⟩ := strip_prefix_loop fuel left pre hf
    cases hs : stripPrefixLoop left pre with
    | none => simp [hlen, h1 hs]
    | some r =>
      obtain ⟨q, hq⟩ := h2 r hs
      simp [hlen, hq]

theorem bytes_start_with_eq (fuel : Nat) (left pat : List Nat) (hf : pat.length + 1 ≤ fuel) :
    Extracted.bytes_start_with fuel left pat = .ok (startsWith left pat) := by
  unfold Extracted.bytes_start_with startsWith
  rw [bytes_strip_prefix_eq fuel left pat hf]
  cases stripPrefixL left pat <;> simp

/-- the `while i + pattern.len() <= left.len()` loop of `__bytes_find`
    (`n` = fuel of the extracted loop, `m` = fuel of the model's loop, `F` = fuel handed to callees) -/
theorem find_loop (F n m : Nat) (left pat : List Nat) (i : Nat)
    (hb : left.length + pat.length + 1 < 2 ^ 64) (hF : pat.length + 1 ≤ F)
    (hn : left.length + 2 ≤ n + i) (hm : left.length + 1 ≤ m + i) (hi : i ≤ left.length + 1) :
    (∀ k, findLoop left pat m i = some k →
        Rs.loop n (Extracted.bytes_find.loop1 F pat left) i = Ctl.exit (some k)) ∧
    (findLoop left pat m i = none →
        ∃ j, Rs.loop n (Extracted.bytes_find.loop1 F pat left) i = Ctl.val j) := by
  induction n generalizing i m with
  | zero => omega
  | succ n ih =>
    rw [Rs.loop_succ]
    have hadd : i + pat.length < 2 ^ 64 := by omega
    simp only [Extracted.bytes_find.loop1, Rs.uadd, hadd, ↓reduceIte, Ctl.bind_eq, Ctl.bind_val]
    by_cases hc : i + pat.length ≤ left.length
    · have h1 : i + 1 < 2 ^ 64 := by omega
      cases m with
      | zero => omega
      | succ m =>
        simp only [findLoop, hc, decide_true, ↓reduceIte, slice_from_eq, Ctl.call_ok, Ctl.bind_val,
          bytes_start_with_eq F _ pat hF, h1, Ctl.pure_eq]
        by_cases hs : startsWith (sliceFromL left i) pat = true
        · simp [sliceFromL] at hs
          simp [sliceFromL, hs]
        · simp [sliceFromL] at hs
          simp only [sliceFromL, hs, Bool.false_eq_true, ↓reduceIte, Ctl.bind_val]
          exact ih (i := i + 1) (m := m) (by omega) (by omega) (by omega)
    · cases m <;> simp [findLoop, hc]

theorem bytes_find_eq (fuel : Nat) (left pat : List Nat)
    (hb : left.length + pat.length + 1 < 2 ^ 64) (hf : left.length + pat.length + 2 ≤ fuel) :
    Extracted.bytes_find fuel left pat = .ok (bytesFind left pat) := by
  unfold Extracted.bytes_find bytesFind
  have ⟨h1, h2⟩ := find_loop fuel fuel (left.length + 1) left pat 0 hb (by omega) (by omega) (by omega) (by omega)
  cases hr : findLoop left pat (left.length + 1) 0 with
  | some k => simp [h1 k hr]
  | none =>
    obtain ⟨j, hj⟩ := h2 hr
    simp [hj]

end Extracted.Equiv
