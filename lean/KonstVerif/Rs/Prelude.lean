/-
  Rs.Prelude — the target language of the translator `rs2lean` (DESIGN.md section 11).
  Import-free (core Lean only).  Everything here is *semantics of Rust constructs* that the
  generated definitions in `KonstVerif/Extracted/Gen/*.lean` are written in:

    * `Res α`      result of calling a translated function: `ok v | panic | ub | nofuel`
    * `Ctl ε α`    result of running a statement list: a value, a non-local exit (`return`,
                   `break`, `continue` — whatever `ε` says), a panic, undefined behaviour,
                   or the explicit loop fuel ran out
    * `LoopExit`   the exits of a loop / labelled block body; exits nest outwards with `.out`
    * checked machine arithmetic (`uadd`, `usub`, … panic on overflow exactly like const
      evaluation and `overflow-checks = true`), `overflowing_*`/`wrapping_*`/`saturating_*`, casts
    * slices as lists: indexing panics out of bounds; `from_raw_parts` is `ub` outside the slice
-/
namespace Rs

/-- result of a translated function -/
inductive Res (α : Type) where
  | ok (a : α)
  | panic
  | ub
  | nofuel
deriving Repr, DecidableEq

/-- result of a statement list; `exit e` is a non-local exit travelling outwards -/
inductive Ctl (ε α : Type) where
  | val (a : α)
  | exit (e : ε)
  | panic
  | ub
  | nofuel

/-- the exits of a loop body (or labelled block body): leave an *enclosing* construct (`out`),
    `break` with the loop's result, `continue` with the loop state -/
inductive LoopExit (ε σ β : Type) where
  | out (e : ε)
  | brk (b : β)
  | cont (s : σ)

namespace Ctl

@[inline] def bind {ε α β : Type} : Ctl ε α → (α → Ctl ε β) → Ctl ε β
  | .val a, f => f a
  | .exit e, _ => .exit e
  | .panic, _ => .panic
  | .ub, _ => .ub
  | .nofuel, _ => .nofuel

instance {ε : Type} : Monad (Ctl ε) where
  pure := .val
  bind := Ctl.bind

/-- a function body: falling off the end and `return` both produce the result -/
@[inline] def run {ρ : Type} : Ctl ρ ρ → Res ρ
  | .val a => .ok a
  | .exit a => .ok a
  | .panic => .panic
  | .ub => .ub
  | .nofuel => .nofuel

/-- calling a translated function from inside a statement list -/
@[inline] def call {ε α : Type} : Res α → Ctl ε α
  | .ok a => .val a
  | .panic => .panic
  | .ub => .ub
  | .nofuel => .nofuel

@[simp] theorem pure_eq {ε α : Type} (a : α) : (pure a : Ctl ε α) = .val a := rfl
@[simp] theorem bind_eq {ε α β : Type} (x : Ctl ε α) (f : α → Ctl ε β) : (x >>= f) = x.bind f := rfl
@[simp] theorem bind_val {ε α β : Type} (a : α) (f : α → Ctl ε β) : (Ctl.val a).bind f = f a := rfl
@[simp] theorem bind_exit {ε α β : Type} (e : ε) (f : α → Ctl ε β) : (Ctl.exit e : Ctl ε α).bind f = .exit e := rfl
@[simp] theorem bind_panic {ε α β : Type} (f : α → Ctl ε β) : (Ctl.panic : Ctl ε α).bind f = .panic := rfl
@[simp] theorem bind_ub {ε α β : Type} (f : α → Ctl ε β) : (Ctl.ub : Ctl ε α).bind f = .ub := rfl
@[simp] theorem bind_nofuel {ε α β : Type} (f : α → Ctl ε β) : (Ctl.nofuel : Ctl ε α).bind f = .nofuel := rfl
@[simp] theorem run_val {ρ : Type} (a : ρ) : run (.val a) = .ok a := rfl
@[simp] theorem run_exit {ρ : Type} (a : ρ) : run (.exit a) = .ok a := rfl
@[simp] theorem run_panic {ρ : Type} : run (.panic : Ctl ρ ρ) = .panic := rfl
@[simp] theorem call_ok {ε α : Type} (a : α) : (call (.ok a) : Ctl ε α) = .val a := rfl
@[simp] theorem call_panic {ε α : Type} : (call (.panic : Res α) : Ctl ε α) = .panic := rfl
@[simp] theorem call_ub {ε α : Type} : (call (.ub : Res α) : Ctl ε α) = .ub := rfl
@[simp] theorem call_nofuel {ε α : Type} : (call (.nofuel : Res α) : Ctl ε α) = .nofuel := rfl

theorem bind_ite {ε α β : Type} (c : Prop) [Decidable c] (x y : Ctl ε α) (f : α → Ctl ε β) :
    (if c then x else y).bind f = if c then x.bind f else y.bind f := by
  split <;> rfl

end Ctl

/-- `loop`/`while`: iterate `body` on the loop state; one unit of fuel per iteration.
    `val s'` (falling off the end of the body) and `continue` go round again. -/
def loop {ε σ β : Type} : Nat → (σ → Ctl (LoopExit ε σ β) σ) → σ → Ctl ε β
  | 0, _, _ => .nofuel
  | n + 1, body, s =>
    match body s with
    | .val s' => loop n body s'
    | .exit (.cont s') => loop n body s'
    | .exit (.brk b) => .val b
    | .exit (.out e) => .exit e
    | .panic => .panic
    | .ub => .ub
    | .nofuel => .nofuel

/-- labelled block `'l: { … break 'l v … }`: runs once -/
@[inline] def block {ε β : Type} : Ctl (LoopExit ε Unit β) β → Ctl ε β
  | .val b => .val b
  | .exit (.brk b) => .val b
  | .exit (.cont _) => .panic        -- `continue` cannot target a block (rustc rejects it)
  | .exit (.out e) => .exit e
  | .panic => .panic
  | .ub => .ub
  | .nofuel => .nofuel

theorem loop_succ {ε σ β : Type} (n : Nat) (body : σ → Ctl (LoopExit ε σ β) σ) (s : σ) :
    loop (n + 1) body s =
      match body s with
      | .val s' => loop n body s'
      | .exit (.cont s') => loop n body s'
      | .exit (.brk b) => .val b
      | .exit (.out e) => .exit e
      | .panic => .panic
      | .ub => .ub
      | .nofuel => .nofuel := rfl

@[simp] theorem loop_zero {ε σ β : Type} (body : σ → Ctl (LoopExit ε σ β) σ) (s : σ) :
    loop 0 body s = .nofuel := rfl

/-! ### machine integers: unsigned as `Nat`, signed as `Int`; `bits` is the width of the Rust type -/

def umax (bits : Nat) : Nat := 2 ^ bits - 1
def imin (bits : Nat) : Int := -(2 ^ (bits - 1) : Int)
def imax (bits : Nat) : Int := (2 ^ (bits - 1) : Int) - 1

@[inline] def uadd {ε : Type} (bits a b : Nat) : Ctl ε Nat :=
  if a + b < 2 ^ bits then .val (a + b) else .panic
@[inline] def usub {ε : Type} (_bits a b : Nat) : Ctl ε Nat :=
  if b ≤ a then .val (a - b) else .panic
@[inline] def umul {ε : Type} (bits a b : Nat) : Ctl ε Nat :=
  if a * b < 2 ^ bits then .val (a * b) else .panic
@[inline] def udiv {ε : Type} (_bits a b : Nat) : Ctl ε Nat :=
  if b = 0 then .panic else .val (a / b)
@[inline] def urem {ε : Type} (_bits a b : Nat) : Ctl ε Nat :=
  if b = 0 then .panic else .val (a % b)
/-- `a << k`: panics iff `k ≥ bits`; bits shifted out are lost -/
@[inline] def ushl {ε : Type} (bits a k : Nat) : Ctl ε Nat :=
  if k < bits then .val ((a <<< k) % 2 ^ bits) else .panic
@[inline] def ushr {ε : Type} (bits a k : Nat) : Ctl ε Nat :=
  if k < bits then .val (a >>> k) else .panic
@[inline] def unot (bits a : Nat) : Nat := 2 ^ bits - 1 - a

@[inline] def inRange (bits : Nat) (r : Int) : Bool := decide (imin bits ≤ r) && decide (r ≤ imax bits)
@[inline] def iadd {ε : Type} (bits : Nat) (a b : Int) : Ctl ε Int :=
  if inRange bits (a + b) then .val (a + b) else .panic
@[inline] def isub {ε : Type} (bits : Nat) (a b : Int) : Ctl ε Int :=
  if inRange bits (a - b) then .val (a - b) else .panic
@[inline] def imul {ε : Type} (bits : Nat) (a b : Int) : Ctl ε Int :=
  if inRange bits (a * b) then .val (a * b) else .panic
@[inline] def ineg {ε : Type} (bits : Nat) (a : Int) : Ctl ε Int :=
  if inRange bits (-a) then .val (-a) else .panic
/-- Rust `/` truncates toward zero -/
@[inline] def idiv {ε : Type} (bits : Nat) (a b : Int) : Ctl ε Int :=
  if b = 0 then .panic else if inRange bits (Int.tdiv a b) then .val (Int.tdiv a b) else .panic
@[inline] def irem {ε : Type} (bits : Nat) (a b : Int) : Ctl ε Int :=
  if b = 0 then .panic else if inRange bits (Int.tdiv a b) then .val (Int.tmod a b) else .panic

/-- wrap an integer into the unsigned range of `bits` -/
@[inline] def wrapU (bits : Nat) (r : Int) : Nat := (r % (2 ^ bits : Int)).toNat
/-- wrap an integer into the signed range of `bits` -/
@[inline] def wrapI (bits : Nat) (r : Int) : Int :=
  let m := r % (2 ^ bits : Int)
  if m ≤ imax bits then m else m - (2 ^ bits : Int)

@[inline] def uOverflowingAdd (bits a b : Nat) : Nat × Bool := ((a + b) % 2 ^ bits, decide (2 ^ bits ≤ a + b))
@[inline] def uOverflowingSub (bits a b : Nat) : Nat × Bool :=
  if b ≤ a then (a - b, false) else (a + 2 ^ bits - b, true)
@[inline] def uOverflowingMul (bits a b : Nat) : Nat × Bool := ((a * b) % 2 ^ bits, decide (2 ^ bits ≤ a * b))
@[inline] def iOverflowingAdd (bits : Nat) (a b : Int) : Int × Bool := (wrapI bits (a + b), !inRange bits (a + b))
@[inline] def iOverflowingSub (bits : Nat) (a b : Int) : Int × Bool := (wrapI bits (a - b), !inRange bits (a - b))
@[inline] def iOverflowingMul (bits : Nat) (a b : Int) : Int × Bool := (wrapI bits (a * b), !inRange bits (a * b))
@[inline] def uWrappingAdd (bits a b : Nat) : Nat := (a + b) % 2 ^ bits
@[inline] def uWrappingSub (bits a b : Nat) : Nat := (uOverflowingSub bits a b).1
@[inline] def uWrappingMul (bits a b : Nat) : Nat := (a * b) % 2 ^ bits
@[inline] def uWrappingNeg (bits a : Nat) : Nat := (2 ^ bits - a) % 2 ^ bits
@[inline] def iWrappingAdd (bits : Nat) (a b : Int) : Int := wrapI bits (a + b)
@[inline] def iWrappingSub (bits : Nat) (a b : Int) : Int := wrapI bits (a - b)
@[inline] def iWrappingMul (bits : Nat) (a b : Int) : Int := wrapI bits (a * b)
@[inline] def iWrappingNeg (bits : Nat) (a : Int) : Int := wrapI bits (-a)
@[inline] def uSaturatingSub (_bits a b : Nat) : Nat := a - b
@[inline] def uSaturatingAdd (bits a b : Nat) : Nat := if a + b < 2 ^ bits then a + b else 2 ^ bits - 1
@[inline] def uCheckedAdd (bits a b : Nat) : Option Nat := if a + b < 2 ^ bits then some (a + b) else none
@[inline] def uCheckedSub (_bits a b : Nat) : Option Nat := if b ≤ a then some (a - b) else none
@[inline] def uCheckedMul (bits a b : Nat) : Option Nat := if a * b < 2 ^ bits then some (a * b) else none
@[inline] def iCheckedAdd (bits : Nat) (a b : Int) : Option Int := if inRange bits (a + b) then some (a + b) else none
@[inline] def iCheckedSub (bits : Nat) (a b : Int) : Option Int := if inRange bits (a - b) then some (a - b) else none

/-! casts (`as`): always total, wrapping -/
@[inline] def castUU (toBits a : Nat) : Nat := a % 2 ^ toBits
@[inline] def castUI (toBits : Nat) (a : Nat) : Int := wrapI toBits (a : Int)
@[inline] def castIU (toBits : Nat) (a : Int) : Nat := wrapU toBits a
@[inline] def castII (toBits : Nat) (a : Int) : Int := wrapI toBits a
@[inline] def boolToNat (b : Bool) : Nat := if b then 1 else 0
/-- `o as iN` for `o : core::cmp::Ordering`, a `#[repr(i8)]` enum with the explicit discriminants
    `Less = -1`, `Equal = 0`, `Greater = 1`: the cast yields the discriminant (in range of every signed width) -/
@[inline] def orderingToInt : Ordering → Int
  | .lt => -1
  | .eq => 0
  | .gt => 1

/-! ### slices (values only: a slice is the list of its elements) -/

/-- `s[i]`: panics out of bounds -/
@[inline] def index {ε α : Type} (s : List α) (i : Nat) : Ctl ε α :=
  match s[i]? with
  | some x => .val x
  | none => .panic

/-- `s[i] = v` -/
@[inline] def setIndex {ε α : Type} (s : List α) (i : Nat) (v : α) : Ctl ε (List α) :=
  if i < s.length then .val (s.set i v) else .panic

/-- `core::slice::from_raw_parts(s.as_ptr().offset(off), n)`: undefined behaviour unless the
    range lies inside the slice the pointer was derived from -/
@[inline] def rawParts {ε α : Type} (s : List α) (off n : Nat) : Ctl ε (List α) :=
  if off + n ≤ s.length then .val ((s.drop off).take n) else .ub

/-- `k` consecutive chunks of `n` elements -/
def chunksOf {α : Type} (n : Nat) : Nat → List α → List (List α)
  | 0, _ => []
  | k + 1, l => l.take n :: chunksOf n k (l.drop n)

/-- `from_raw_parts(s.as_ptr() as *const [T; N], n)`: the first `n * N` elements viewed as `n` arrays of `N`;
    undefined behaviour unless they lie inside the slice -/
@[inline] def rawPartsArrays {ε α : Type} (s : List α) (N n : Nat) : Ctl ε (List (List α)) :=
  if n * N ≤ s.length then .val (chunksOf N n s) else .ub

/-- `[rem @ .., last]` -/
@[inline] def unsnoc {α : Type} (s : List α) : Option (List α × α) :=
  match s.getLast? with
  | some x => some (s.dropLast, x)
  | none => none

/-- the view for slice patterns with several elements after the rest pattern, `[rem @ .., a, b]`:
    `.snoc init initView last` where `init` is the list without its last element and `initView` the same view
    of `init` -/
inductive SnocView (α : Type) where
  | nil : SnocView α
  | snoc (init : List α) (initView : SnocView α) (last : α) : SnocView α

/-- `snocViewRev r` views `r.reverse` -/
def snocViewRev {α : Type} : List α → SnocView α
  | [] => .nil
  | x :: r => .snoc r.reverse (snocViewRev r) x

def snocView {α : Type} (s : List α) : SnocView α := snocViewRev s.reverse

theorem snocView_nil {α : Type} : snocView ([] : List α) = .nil := rfl

theorem snocView_append_singleton {α : Type} (s : List α) (x : α) :
    snocView (s ++ [x]) = .snoc s (snocView s) x := by
  simp [snocView, snocViewRev]

/-- `[x; n]` -/
@[inline] def repeatN {α : Type} (x : α) (n : Nat) : List α := List.replicate n x

/-- `*p.add(k)` for a pointer `p` to the start of the slice `s`: undefined behaviour outside the allocation -/
@[inline] def ptrRead {ε α : Type} (s : List α) (k : Nat) : Ctl ε α :=
  match s[k]? with
  | some x => .val x
  | none => .ub

/-- `char::len_utf8` -/
@[inline] def charLenUtf8 (c : Nat) : Nat :=
  if c < 0x80 then 1 else if c < 0x800 then 2 else if c < 0x10000 then 3 else 4

/-- `char::from_u32_unchecked` / `transmute::<u32, char>`: ub unless a scalar value -/
@[inline] def charFromU32Unchecked {ε : Type} (n : Nat) : Ctl ε Nat :=
  if n < 0xD800 ∨ (0xE000 ≤ n ∧ n ≤ 0x10FFFF) then .val n else .ub

/-! ### `MaybeUninit<T>` as `Option T` (`none` = uninitialised) -/

/-- `uninit_array::<T, N>()` -/
@[inline] def uninitArray {α : Type} (n : Nat) : List (Option α) := List.replicate n none

/-- `MaybeUninit::assume_init_read` / `ptr::read` of a slot: undefined behaviour on an uninitialised slot -/
@[inline] def assumeInitRead {ε α : Type} (x : Option α) : Ctl ε α :=
  match x with
  | some v => .val v
  | none => .ub

/-- `from_raw_parts(arr.as_ptr().add(off).cast::<T>(), n)` on an array of `MaybeUninit<T>`: undefined behaviour
    unless the range is inside the array and every slot in it is initialised -/
@[inline] def rawPartsInit {ε α : Type} (arr : List (Option α)) (off n : Nat) : Ctl ε (List α) :=
  if off + n ≤ arr.length ∧ ((arr.drop off).take n).all Option.isSome then
    .val (((arr.drop off).take n).filterMap id)
  else .ub

/-- reading a whole `[MaybeUninit<T>; N]` as `[T; N]` (`assume_init` of the array / the `repr(C)` read in
    `ArrayBuilder::build`): undefined behaviour unless there are exactly `n` slots and all are initialised -/
@[inline] def assumeInitArray {ε α : Type} (arr : List (Option α)) (n : Nat) : Ctl ε (List α) :=
  if arr.length = n ∧ arr.all Option.isSome then .val (arr.filterMap id) else .ub

/-- `CStr::from_bytes_with_nul_unchecked`: undefined behaviour unless the bytes end with a nul and contain no
    other nul.  A `&CStr` is modelled as its bytes including the terminating nul. -/
@[inline] def cstrFromBytesWithNulUnchecked {ε : Type} (b : List Nat) : Ctl ε (List Nat) :=
  if b.getLast? = some 0 ∧ ¬ (0 ∈ b.dropLast) then .val b else .ub

end Rs
