import KonstVerif.Rs.Prelude
/-!
  Rewrite rules of the version-to-version bridge (`vlib/bridge.py`, DESIGN.md section 11 "Bridge"): the commutations
  under which a regenerated definition is still the committed one.  Stated on the `decide` of a test (the form rs2lean
  emits for every Rust comparison) so that `simp only` never reorients the bridged equation itself.
-/
namespace Rs.Bridge

theorem decide_ne_comm {α : Type} [DecidableEq α] (a b : α) : decide (a ≠ b) = decide (b ≠ a) := by
  by_cases h : a = b
  · subst h; rfl
  · have h' : b ≠ a := fun e => h e.symm
    simp [h, h']

theorem decide_eq_comm {α : Type} [DecidableEq α] (a b : α) : decide (a = b) = decide (b = a) := by
  by_cases h : a = b
  · subst h; rfl
  · have h' : b ≠ a := fun e => h e.symm
    simp [h, h']

theorem uadd_comm {ε : Type} (bits a b : Nat) : (Rs.uadd bits a b : Ctl ε Nat) = Rs.uadd bits b a := by
  unfold Rs.uadd; rw [Nat.add_comm]

theorem umul_comm {ε : Type} (bits a b : Nat) : (Rs.umul bits a b : Ctl ε Nat) = Rs.umul bits b a := by
  unfold Rs.umul; rw [Nat.mul_comm]

theorem ite_eq_comm {α β : Type} [DecidableEq α] (a b : α) (x y : β) :
    (if a = b then x else y) = (if b = a then x else y) := by
  by_cases h : a = b
  · subst h; rfl
  · have h' : ¬ b = a := fun e => h e.symm
    simp [h, h']

theorem ite_ne_comm {α β : Type} [DecidableEq α] (a b : α) (x y : β) :
    (if a ≠ b then x else y) = (if b ≠ a then x else y) := by
  by_cases h : a = b
  · subst h; rfl
  · have h' : ¬ b = a := fun e => h e.symm
    simp [h, h']

end Rs.Bridge
