import KonstVerif.Rs.Prelude
/-
  Rs.Search — input generators for the failing-input search of DESIGN.md section 11.

  When an equivalence theorem about a regenerated definition no longer checks, the regenerated definition
  (`Extracted.f`, from /repo's current source) is compared with the committed one (`Extracted0.f`,
  `KonstVerif/Extracted/Frozen/*.lean`) on a stream of generated inputs: structured (small alphabets,
  sub-slices of earlier arguments, valid UTF-8 from a pool of 1–4 byte characters), with lengths up to a few
  hundred and the integer values where machine arithmetic changes behaviour.  This is a SEARCH (support for
  reporting a concrete input), never a proof.
-/
namespace Rs.Search

/-- PRNG state + the byte lists generated so far in this sample (later arguments are often derived from
    earlier ones: a needle that occurs in the haystack, an index inside the slice) -/
structure G where
  seed : Nat
  pool : List (List Nat)

def G.next (g : G) : Nat × G :=
  let s := (g.seed * 6364136223846793005 + 1442695040888963407) % 18446744073709551616
  (s / 4294967296, { g with seed := s })

def below (n : Nat) (g : G) : Nat × G :=
  let (x, g) := g.next
  (if n = 0 then 0 else x % n, g)

def pick {α : Type} [Inhabited α] (xs : List α) (g : G) : α × G :=
  let (i, g) := below xs.length g
  (xs.getD i default, g)

class Arb (α : Type) where
  arb : G → α × G

def lengths : List Nat :=
  [0, 0, 1, 1, 2, 2, 3, 3, 4, 5, 6, 7, 8, 9, 12, 15, 16, 17, 23, 24, 25, 31, 32, 33, 40, 41, 47, 48, 63, 64, 65, 71,
   100, 127, 128, 129, 200, 255, 256, 257, 300]

def interestingBytes : List Nat :=
  [0, 1, 9, 10, 11, 12, 13, 32, 43, 45, 47, 48, 49, 57, 58, 65, 97, 98, 122, 127, 128, 143, 159, 191, 192, 194, 223,
   224, 225, 237, 238, 239, 240, 244, 245, 255]

/-- a fresh byte list: length from `lengths`, elements from a small alphabet (so that repetitions and
    self-overlaps occur), sometimes with one or two foreign bytes -/
def freshBytes (g : G) : List Nat × G :=
  let (len, g) := pick lengths g
  let (k, g) := below 4 g
  let (a, g) := pick interestingBytes g
  let (b, g) := pick interestingBytes g
  let (c, g) := pick interestingBytes g
  let alpha := match k with
    | 0 => [a]
    | 1 => [a, b]
    | 2 => [a, b, c]
    | _ => [97, 98]
  let rec go (n : Nat) (g : G) (acc : List Nat) : List Nat × G :=
    match n with
    | 0 => (acc, g)
    | n + 1 =>
      let (i, g) := below alpha.length g
      go n g (alpha.getD i 0 :: acc)
  let (l, g) := go len g []
  -- one foreign byte somewhere, sometimes
  let (m, g) := below 3 g
  if m = 0 ∧ l.length > 0 then
    let (p, g) := below l.length g
    let (v, g) := pick interestingBytes g
    (l.set p v, g)
  else (l, g)

/-- derive a list from one already in the pool: a sub-slice, possibly with one changed element -/
def derived (base : List Nat) (g : G) : List Nat × G :=
  let (st, g) := below (base.length + 1) g
  let (ln, g) := below (base.length - st + 1) g
  let s := (base.drop st).take ln
  let (m, g) := below 3 g
  if m = 0 ∧ s.length > 0 then
    let (p, g) := below s.length g
    let (v, g) := pick interestingBytes g
    (s.set p v, g)
  else (s, g)

def arbBytes (g : G) : List Nat × G :=
  let (m, g) := below 2 g
  let (l, g) :=
    match g.pool, m with
    | base :: _, 0 => derived base g
    | _, _ => freshBytes g
  (l, { g with pool := g.pool ++ [l] })

/-- UTF-8 encodings of characters of every length class and with the rare lead / continuation bytes -/
def charPool : List (List Nat) :=
  [[97], [98], [32], [48], [57], [45], [44], [10], [127],
   -- every ASCII whitespace byte (`trim*`: 9 10 11 12 13 32), Unicode whitespace that `trim_ascii*` keeps (U+0085, U+2003),
   -- '+', more digits, and the words of `parse_bool` as one "character" each so that they occur whole
   [9], [11], [12], [13], [0xC2, 0x85], [0xE2, 0x80, 0x83], [43], [49], [50], [53],
   [116, 114, 117, 101], [102, 97, 108, 115, 101],
   [0xC2, 0x80], [0xC3, 0xB1], [0xC2, 0xBF], [0xDF, 0xBF],
   [0xE0, 0xA0, 0x80], [0xE0, 0xB8, 0xAA], [0xE2, 0x82, 0xAC], [0xE4, 0xB8, 0xAA], [0xED, 0x9F, 0xBF],
   [0xEE, 0x80, 0x80], [0xEF, 0xBB, 0xBF], [0xEF, 0xBF, 0xBD], [0xEF, 0xBF, 0xBF],
   [0xF0, 0x90, 0x80, 0x80], [0xF0, 0x9F, 0x98, 0x80], [0xF4, 0x8F, 0xBF, 0xBF]]

def charLengths : List Nat := [0, 0, 1, 1, 2, 3, 4, 5, 7, 8, 9, 15, 16, 17, 31, 32, 33, 64, 65, 90]

/-- a valid UTF-8 string as (list of characters); sub-strings are taken at character granularity -/
def freshChars (g : G) : List (List Nat) × G :=
  let (len, g) := pick charLengths g
  let (a, g) := pick charPool g
  let (b, g) := pick charPool g
  let (c, g) := pick charPool g
  let alpha := [a, b, c]
  let rec go (n : Nat) (g : G) (acc : List (List Nat)) : List (List Nat) × G :=
    match n with
    | 0 => (acc, g)
    | n + 1 =>
      let (i, g) := below alpha.length g
      go n g (alpha.getD i [97] :: acc)
  go len g []

structure GS where
  g : G
  strs : List (List (List Nat))

def arbStr (g : G) : List Nat × G :=
  -- strings are kept in the pool as byte lists; a derived string re-decodes nothing: it is built from a fresh
  -- character list whose alphabet is small, so needles of 1–3 characters recur
  let (cs, g) := freshChars g
  let (m, g) := below 3 g
  let (cs, g) :=
    if m = 0 then
      -- a short string (typical needle / delimiter)
      let (k, g) := below 4 g
      (cs.take k, g)
    else (cs, g)
  let l := cs.flatten
  (l, { g with pool := g.pool ++ [l] })

/-- a needle-like string: usually a sub-sequence of characters of an earlier string -/
def arbStrLike (g : G) : List Nat × G := arbStr g

def arbByte (g : G) : Nat × G :=
  let (m, g) := below 2 g
  if m = 0 then pick interestingBytes g else below 256 g

def interestingNats (g : G) : List Nat :=
  let ls := g.pool.map List.length
  let near := ls.flatMap (fun l => [l - 1, l, l + 1, l / 2])
  near ++ [0, 1, 2, 3, 4, 7, 8, 9, 15, 16, 17, 31, 32, 33, 63, 64, 65, 127, 128, 255, 256, 257, 65535, 65536,
           2147483647, 2147483648, 4294967295, 4294967296, 9223372036854775807, 9223372036854775808,
           18446744073709551614, 18446744073709551615]

def arbUsize (g : G) : Nat × G :=
  let (m, g) := below 4 g
  if m = 0 then below 40 g else pick (interestingNats g) g

def arbUBits (bits : Nat) (g : G) : Nat × G :=
  let (m, g) := below 3 g
  let top := 2 ^ bits
  if m = 0 then below (min top 300) g
  else
    let (v, g) := pick ([0, 1, 2, 9, 10, 47, 48, 57, 58, 127, 128, 255, 256, 0xD7FF, 0xD800, 0xDFFF, 0xE000, 0xFFFF,
                         0x10000, 0x10FFFF, 0x110000, 0xFFFFFF, 0x1000000, 0x1100000, top / 2 - 1, top / 2, top - 2, top - 1]) g
    (v % top, g)

def arbIBits (bits : Nat) (g : G) : Int × G :=
  let (v, g) := arbUBits bits g
  let half : Nat := 2 ^ (bits - 1)
  (if v < half then (v : Int) else (v : Int) - (2 ^ bits : Nat), g)

def arbChar (g : G) : Nat × G :=
  let (v, g) := pick [0, 0x41, 0x7F, 0x80, 0x7FF, 0x800, 0xFFF, 0x1000, 0xD7FE, 0xD7FF, 0xE000, 0xE001, 0xFEFF, 0xFFFD,
                      0xFFFF, 0x10000, 0x1F600, 0x10FFFE, 0x10FFFF] g
  (v, g)

def arbBool (g : G) : Bool × G :=
  let (m, g) := below 2 g
  (m = 0, g)

def arbOption {α : Type} (a : G → α × G) (g : G) : Option α × G :=
  let (m, g) := below 4 g
  if m = 0 then (none, g) else
    let (x, g) := a g
    (some x, g)

def arbList {α : Type} (a : G → α × G) (g : G) : List α × G :=
  let (len, g) := pick [0, 1, 2, 3, 4, 5, 8, 9, 16, 17] g
  let rec go (n : Nat) (g : G) (acc : List α) : List α × G :=
    match n with
    | 0 => (acc, g)
    | n + 1 =>
      let (x, g) := a g
      go n g (x :: acc)
  go len g []

/-- `Result<T, E>` is `Except E T`: `ok` three times out of four -/
def arbExcept {ε α : Type} (ok : G → α × G) (err : G → ε × G) (g : G) : Except ε α × G :=
  let (m, g) := below 4 g
  if m = 0 then
    let (e, g) := err g
    (Except.error e, g)
  else
    let (x, g) := ok g
    (Except.ok x, g)

/-- exactly `n` elements: the value of an array type `[T; N]` once the const generic `N` is chosen -/
def arbListN {α : Type} (n : Nat) (a : G → α × G) (g : G) : List α × G :=
  let rec go (n : Nat) (g : G) (acc : List α) : List α × G :=
    match n with
    | 0 => (acc, g)
    | n + 1 =>
      let (x, g) := a g
      go n g (x :: acc)
  go n g []

/-- a `u32` for the probe functions (`Probes*`: fixed closures that compare an element with a key, test parity,
    divide): half of the time a value from a ten-element alphabet, so that a key argument generated after a
    slice occurs in it and occurs more than once; otherwise the machine-arithmetic values of `arbUBits 32` -/
def arbSmallU32 (g : G) : Nat × G :=
  let (m, g) := below 2 g
  if m = 0 then pick [0, 1, 2, 3, 4, 5, 6, 7, 9, 12] g else arbUBits 32 g

/-- a valid UTF-8 string for the probe functions: mostly the characters of the probes' own literals (`"ab"`, `"a"`,
    `"b"`, `"b\u{e9}"` of the `parser_method!` probes, the `','` of the split probe, digits for `parse_u8`) plus one
    character of `charPool`, so that every literal occurs, occurs repeatedly, and occurs next to a multi-byte character -/
def arbProbeStr (g : G) : List Nat × G :=
  let (len, g) := pick [0, 1, 1, 2, 2, 3, 3, 4, 5, 6, 8, 12, 17, 40] g
  let (c, g) := pick charPool g
  let alpha : List (List Nat) := [[97], [98], [97], [98], [0xC3, 0xA9], [44], [50], [53], [0xC3, 0xA9], c]
  let rec go (n : Nat) (g : G) (acc : List (List Nat)) : List (List Nat) × G :=
    match n with
    | 0 => (acc, g)
    | n + 1 =>
      let (i, g) := below alpha.length g
      go n g (alpha.getD i [97] :: acc)
  let (cs, g) := go len g []
  let l := cs.flatten
  (l, { g with pool := g.pool ++ [l] })

/-- run `n` samples of one comparison; print the first few inputs on which it reports a difference -/
def run (name : String) (n seed : Nat) (f : G → Option String × G) : IO Nat := do
  let mut found := 0
  for i in [0:n] do
    if found < 3 then
      let (r, _) := f { seed := seed * 1000003 + i * 7919 + 12345, pool := [] }
      match r with
      | some txt =>
        IO.println s!"CEX\t{name}\t{txt}"
        found := found + 1
      | none => pure ()
  return found

end Rs.Search
