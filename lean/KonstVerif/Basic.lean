def hello := "world"
