import KonstVerif.Lemmas.ArrayMacros
import KonstVerif.Lemmas.ArrayHistories
/-
  C11 — Array-building macros return fully initialised arrays equal to std's.
  Property theorems only (helper lemmas: Lemmas/ArrayBuilder, ArrayConsumer, ArrayMacros, ArrayHistories).
  Closures are arbitrary functions `call number → argument → Outcome`; no bound on lengths or histories.
  `fuel` only bounds the number of loop iterations of the by-reference loop (its `continue` can retry the
  same index forever); every theorem states how much fuel suffices or holds for every fuel.
-/
namespace Konst.Props.C11
open Konst Konst.ArrayMacros Konst.Spec.ArrayStd Konst.Histories
variable {α β : Type}

/-! ### `array::map!` / `array::from_fn!` (by reference, `__array_map`) -/

/-- well-behaved closure ⇒ `map!` = `<[T; N]>::map` -/
theorem arrayMap_value (xs : List α) (f : α → β) (c : Nat → α → Outcome β) (fuel : Nat)
    (hf : xs.length < fuel) (hc : ∀ i a, xs[i]? = some a → c i a = .value (f a)) :
    arrayMap fuel xs c = .array (stdMap f xs) := by
  have := mapLoop_value xs.length (fun i => xs[i]?) c (fun i => (xs.drop i).map f)
    (by
      intro i hi
      refine ⟨xs[i], f xs[i], by simp [hi], hc i xs[i] (by simp [hi]), ?_⟩
      rw [List.drop_eq_getElem_cons hi]; rfl)
    (by simp) xs.length 0 fuel [] (by omega) (by omega) rfl hf
  simpa [arrayMap, outOf_nil, stdMap] using this

/-- ANY closure (stateful, with any control flow): `assume_init` is never reached with an unwritten
    slot, and a returned array has length `N` with every element a value the closure returned for the
    input at that index -/
theorem arrayMap_init (xs : List α) (c : Nat → α → Outcome β) (fuel : Nat) :
    arrayMap fuel xs c ≠ .ub ∧
    ∀ l : List β, arrayMap fuel xs c = .array l →
      l.length = xs.length ∧ ∀ (j : Nat) (v : β), l[j]? = some v → ∃ t a, xs[j]? = some a ∧ c t a = .value v := by
  have := mapLoop_sound xs.length (fun i => xs[i]?) c fuel 0 0 [] rfl (by omega)
  simp only [outOf_nil] at this
  refine ⟨this.1, fun l hl => ?_⟩
  obtain ⟨h1, _, h3⟩ := this.2 l hl
  exact ⟨h1, fun j v hv => h3 j v (by omega) hv⟩

/-- first early exit at index `k` (whatever the call number): never an array — `break` trips the
    post-loop assert, `continue` retries index `k` forever, `return` leaves the caller, panic panics -/
theorem arrayMap_hostile (xs : List α) (c : Nat → α → Outcome β) (k : Nat) (o : Outcome β) (fuel : Nat)
    (hk : k < xs.length)
    (hpre : ∀ i, i < k → ∀ t a, xs[i]? = some a → ∃ v, c t a = .value v)
    (hat : ∀ t a, xs[k]? = some a → c t a = o) (ho : ∀ v, o ≠ .value v) :
    arrayMap fuel xs c = (if k < fuel then hostileRes o else .diverge) ∧
      ∀ l, arrayMap fuel xs c ≠ .array l := by
  have h := mapLoop_hostile xs.length (fun i => xs[i]?) c k o hk
    (fun i hi => ⟨xs[i], by simp [hi]⟩) hpre hat ho fuel 0 0 (List.replicate xs.length none) (by omega)
  simp only [Nat.sub_zero] at h
  refine ⟨h, fun l => ?_⟩
  unfold arrayMap
  rw [h]
  cases o with
  | value v => exact absurd rfl (ho v)
  | _ => split <;> simp [hostileRes]

/-- well-behaved closure ⇒ `from_fn!` = `core::array::from_fn` -/
theorem arrayFromFn_value (n : Nat) (f : Nat → β) (c : Nat → Nat → Outcome β) (fuel : Nat)
    (hf : n < fuel) (hc : ∀ i, i < n → c i i = .value (f i)) :
    arrayFromFn fuel n c = .array (stdFromFn n f) := by
  have := mapLoop_value n (fun i => some i) c (fun i => (List.range' i (n - i)).map f)
    (by
      intro i hi
      refine ⟨i, f i, rfl, hc i hi, ?_⟩
      have : n - i = (n - (i + 1)) + 1 := by omega
      rw [this, List.range'_succ]; simp)
    (by simp) n 0 fuel [] (by omega) (by omega) rfl hf
  simpa [arrayFromFn, outOf_nil, stdFromFn, List.range_eq_range'] using this

theorem arrayFromFn_init (n : Nat) (c : Nat → Nat → Outcome β) (fuel : Nat) :
    arrayFromFn fuel n c ≠ .ub ∧
    ∀ l : List β, arrayFromFn fuel n c = .array l →
      l.length = n ∧ ∀ (j : Nat) (v : β), l[j]? = some v → ∃ t, c t j = .value v := by
  have := mapLoop_sound n (fun i => some i) c fuel 0 0 [] rfl (by omega)
  simp only [outOf_nil] at this
  refine ⟨this.1, fun l hl => ?_⟩
  obtain ⟨h1, _, h3⟩ := this.2 l hl
  refine ⟨h1, fun j v hv => ?_⟩
  obtain ⟨t, a, ha, hc⟩ := h3 j v (by omega) hv
  cases ha
  exact ⟨t, hc⟩

theorem arrayFromFn_hostile (n : Nat) (c : Nat → Nat → Outcome β) (k : Nat) (o : Outcome β) (fuel : Nat)
    (hk : k < n) (hpre : ∀ i, i < k → ∀ t, ∃ v, c t i = .value v)
    (hat : ∀ t, c t k = o) (ho : ∀ v, o ≠ .value v) :
    arrayFromFn fuel n c = (if k < fuel then hostileRes o else .diverge) ∧
      ∀ l, arrayFromFn fuel n c ≠ .array l := by
  have h := mapLoop_hostile n (fun i => some i) c k o hk (fun i _ => ⟨i, rfl⟩)
    (by intro i hi t a ha; cases ha; exact hpre i hi t)
    (by intro t a ha; cases ha; exact hat t) ho fuel 0 0 (List.replicate n none) (by omega)
  simp only [Nat.sub_zero] at h
  refine ⟨h, fun l => ?_⟩
  unfold arrayFromFn
  rw [h]
  cases o with
  | value v => exact absurd rfl (ho v)
  | _ => split <;> simp [hostileRes]

/-! ### `array::map_!` / `array::from_fn_!` (by value: `ArrayConsumer` + `ArrayBuilder`) -/

/-- well-behaved closure ⇒ `map_!` = `<[T; N]>::map` (the ledger half is C15 `map_by_value_ledger`) -/
theorem mapByVal_value (xs : List α) (f : α → β) (c : Nat → α → Outcome β) (fuel : Nat)
    (hf : xs.length < fuel) (hc : ∀ i a, xs[i]? = some a → c i a = .value (f a)) :
    (arrayMapByVal fuel xs c).res = .array (stdMap f xs) := by
  have := byValLoop_value c xs (xs.map f) fuel 0 [] (ArrayConsumer.new xs) (ArrayBuilder.new xs.length) []
    (ArrayConsumer.wf_new xs) (ArrayBuilder.wf_new _) (by simp [ArrayBuilder.new]) hf (by simp)
    (by
      intro j a v hj hv
      simp only [List.getElem?_map, hj, Option.map_some, Option.some.injEq] at hv
      subst hv
      simpa using hc j a hj)
  simp [arrayMapByVal, this, stdMap]

/-- ANY closure: never UB, never a non-terminating loop; a returned array has length `N` and its
    `j`-th element is the value of the `j`-th call, made on the `j`-th input -/
theorem mapByVal_init (xs : List α) (c : Nat → α → Outcome β) (fuel : Nat) (hf : xs.length < fuel) :
    (arrayMapByVal fuel xs c).res ≠ .ub ∧ (arrayMapByVal fuel xs c).res ≠ .diverge ∧
    ∀ l : List β, (arrayMapByVal fuel xs c).res = .array l →
      l.length = xs.length ∧ ∀ (j : Nat) (a : α) (v : β), xs[j]? = some a → l[j]? = some v → c j a = .value v := by
  obtain ⟨h1, h2, _, _, _, h6⟩ := byValLoop_sound c xs fuel 0 [] (ArrayConsumer.new xs)
    (ArrayBuilder.new xs.length) [] (ArrayConsumer.wf_new xs) (ArrayBuilder.wf_new _)
    (by simp [ArrayBuilder.new]) hf
  refine ⟨h1, h2, fun l hl => ?_⟩
  obtain ⟨g1, _, _, _, _, vs, g6, _, g8⟩ := h6 l hl
  simp only [List.nil_append] at g6
  subst g6
  exact ⟨by simpa [ArrayBuilder.new] using g1, fun j a v hj hv => by simpa using g8 j a v hj hv⟩

/-- any early exit at any reached index ⇒ `map_!` does not return an array (it panics in
    `ArrayBuilder::build` or while unwinding, or the caller returns) -/
theorem mapByVal_hostile (xs : List α) (c : Nat → α → Outcome β) (fuel : Nat) (hf : xs.length < fuel)
    (j : Nat) (a : α) (hj : xs[j]? = some a) (hbad : ∀ v, c j a ≠ .value v) :
    ∀ l, (arrayMapByVal fuel xs c).res ≠ .array l := by
  intro l hl
  obtain ⟨hlen, hv⟩ := (mapByVal_init xs c fuel hf).2.2 l hl
  have hjl : j < l.length := by rw [hlen]; exact (List.getElem?_eq_some_iff.mp hj).1
  exact hbad l[j] (hv j a l[j] hj (by simp [hjl]))

theorem fromFnByVal_value (n : Nat) (f : Nat → β) (c : Nat → Nat → Outcome β) (fuel : Nat)
    (hf : n < fuel) (hc : ∀ i, i < n → c i i = .value (f i)) :
    (arrayFromFnByVal fuel n c).res = .array (stdFromFn n f) := by
  have := byValLoop_value (fun t (_ : Unit) => c t t) (List.replicate n ()) ((List.range n).map f) fuel 0 []
    (ArrayConsumer.new _) (ArrayBuilder.new (List.replicate n ()).length) []
    (ArrayConsumer.wf_new _) (ArrayBuilder.wf_new _) (by simp [ArrayBuilder.new]) (by simpa using hf)
    (by simp)
    (by
      intro j a v hj hv
      have hjn : j < n := by
        have := (List.getElem?_eq_some_iff.mp hj).1; simpa using this
      simp only [List.getElem?_map, List.getElem?_range hjn, Option.map_some, Option.some.injEq] at hv
      subst hv
      simpa using hc j hjn)
  simp only [List.length_replicate] at this
  simp [arrayFromFnByVal, arrayMapByVal, this, stdFromFn]

theorem fromFnByVal_init (n : Nat) (c : Nat → Nat → Outcome β) (fuel : Nat) (hf : n < fuel) :
    (arrayFromFnByVal fuel n c).res ≠ .ub ∧ (arrayFromFnByVal fuel n c).res ≠ .diverge ∧
    ∀ l : List β, (arrayFromFnByVal fuel n c).res = .array l →
      l.length = n ∧ ∀ (j : Nat) (v : β), l[j]? = some v → c j j = .value v := by
  obtain ⟨h1, h2, h3⟩ := mapByVal_init (List.replicate n ()) (fun t _ => c t t) fuel (by simpa using hf)
  refine ⟨h1, h2, fun l hl => ?_⟩
  obtain ⟨g1, g2⟩ := h3 l hl
  simp only [List.length_replicate] at g1
  refine ⟨g1, fun j v hv => ?_⟩
  have hjn : j < n := by rw [← g1]; exact (List.getElem?_eq_some_iff.mp hv).1
  exact g2 j () v (by simp [hjn]) hv

theorem fromFnByVal_hostile (n : Nat) (c : Nat → Nat → Outcome β) (fuel : Nat) (hf : n < fuel)
    (j : Nat) (hj : j < n) (hbad : ∀ v, c j j ≠ .value v) :
    ∀ l, (arrayFromFnByVal fuel n c).res ≠ .array l := by
  intro l hl
  obtain ⟨hlen, hv⟩ := (fromFnByVal_init n c fuel hf).2.2 l hl
  exact hbad l[j] (hv j l[j] (by simp [hlen, hj]))

/-! ### `iter::collect_const!` -/

/-- the array is exactly what the item loop yields (both passes see the same items): length pass and
    fill pass agree, `assert!(length == CAP)` holds, every slot is written -/
theorem collectConst_eq (src : List (Outcome β)) (l : List β) (h : yielded src = .ok l) :
    collectConst src = .array l := by
  have hc : ccCount src = .ok l.length := by
    simp [ccCount, ccLoop_count, h, Except.map]
  have hb := ccLoop_build_ok l.length src [] l h (by simp)
  simp only [outOf_nil, List.length_nil, Nat.zero_add, List.nil_append] at hb
  simp [collectConst, collectConst2, hc, ccBuild, hb, outOf, ArrayBuilder.readInit_map_some]

/-- well-behaved chain: `collect_const!` = collecting the same items -/
theorem collectConst_values (xs : List β) : collectConst (xs.map Outcome.value) = .array xs := by
  apply collectConst_eq
  induction xs with
  | nil => rfl
  | cons x r ih => simp [yielded, ih, Except.map]

/-- a panic or a `return` in the chain: no array (the constant does not compile) -/
theorem collectConst_abort (src : List (Outcome β)) (e : CCStop) (h : yielded src = .error e) :
    collectConst src = (match e with | .panic => .constPanic | .typeError => .typeError) := by
  have hc : ccCount src = .error e := by simp [ccCount, ccLoop_count, h, Except.map]
  cases e <;> simp [collectConst, collectConst2, hc]

/-- even if the two evaluations produced DIFFERENT item streams, the `length == CAP` assert (and the
    bounds check of `array[length]`) rule out an unwritten slot: an array result has exactly the items
    of the fill pass and the length the first pass computed -/
theorem collectConst_len_eq_fill (src1 src2 : List (Outcome β)) :
    collectConst2 src1 src2 ≠ .ub ∧
    ∀ l, collectConst2 src1 src2 = .array l →
      yielded src2 = .ok l ∧ ccCount src1 = .ok l.length := by
  unfold collectConst2
  cases hc : ccCount src1 with
  | error e => cases e <;> simp
  | ok cap =>
    simp only [ccBuild]
    cases hb : ccLoop .buildArray src2 (List.replicate cap none) 0 with
    | error e => cases e <;> simp
    | ok p =>
      obtain ⟨arr', len'⟩ := p
      have hb' : ccLoop .buildArray src2 (outOf cap []) ([] : List β).length = .ok (arr', len') := by
        simpa [outOf_nil] using hb
      obtain ⟨l, h1, h2, h3, h4⟩ := ccLoop_build_inv cap src2 [] arr' len' (by simp) hb'
      simp only [List.length_nil, Nat.zero_add, List.nil_append] at h2 h3
      by_cases heq : len' = cap
      · have hl : l.length = cap := by omega
        subst h2
        simp only [heq, beq_self_eq_true, if_true]
        have : outOf cap l = l.map some := by simp [outOf, hl]
        rw [this, ArrayBuilder.readInit_map_some]
        refine ⟨by simp, ?_⟩
        intro l' hl'
        cases hl'
        exact ⟨h1, by rw [hl]⟩
      · have : (len' == cap) = false := by simp [heq]
        simp [this]

/-! ### `ArrayBuilder` -/

/-- every history of pushes / clones from `ArrayBuilder::new()`: the builder refines the bounded vector
    (same per-operation results, in particular a push panics iff `N` values are already in), it holds
    `inited ≤ N` values, `as_slice` is the accepted pushes, and `build` returns exactly them iff there
    are `N`, else panics — never an unwritten slot -/
theorem builder_history (fresh : Nat → α → α) (n : Nat) (ops : List (ArrayBuilder.Op α)) :
    let r := ArrayBuilder.run fresh (ArrayBuilder.new n, 0) ops
    let s := bvRun fresh n ([], 0) ops
    r.2 = s.2 ∧ r.1.2 = s.1.2 ∧ r.1.1.inited = s.1.1.length ∧ r.1.1.inited ≤ n ∧
    ArrayBuilder.asSlice r.1.1 = some s.1.1 ∧ ArrayBuilder.isFull r.1.1 = decide (s.1.1.length = n) ∧
    ArrayBuilder.build r.1.1 = (match bvBuild n s.1.1 with | some l => .array l | none => .panic) ∧
    ArrayBuilder.dropped r.1.1 = some s.1.1 := by
  intro r s
  obtain ⟨h1, h2, h3, h4⟩ := bld_run fresh ops (ArrayBuilder.new n) [] 0 (ArrayBuilder.wf_new n)
  have hn : (ArrayBuilder.new n : ArrayBuilder.Builder α).n = n := rfl
  rw [hn] at h1 h2 h3 h4
  refine ⟨h4, h3, h1.2.1, ?_, ArrayBuilder.wf_asSlice h1, ?_, ?_, ArrayBuilder.wf_dropped h1⟩
  · have := h1.1; rw [h2] at this; rw [h1.2.1]; exact this
  · rw [ArrayBuilder.wf_isFull h1, h2]
  · rw [ArrayBuilder.wf_build h1, h2]
    simp only [bvBuild]
    split <;> rfl

/-- `target.clone_from(&source)` between two builders reached by ANY two histories (same `N`; the target
    may hold more, fewer or as many elements as the source, either may be empty or full): the call
    succeeds, drops exactly the old elements of the target (once each, in order) and leaves the target
    holding exactly the numbered clones of the source's elements — `len`, `is_full`, `as_slice`, `build`
    and `Drop` of the target are those of a clone of the source; nothing of the old target survives and
    no unwritten slot is read.  The source is not touched (it is only read). -/
theorem builder_clone_from (fresh cl : Nat → α → α) (n : Nat) (opsT opsS : List (ArrayBuilder.Op α)) :
    let t := (ArrayBuilder.run fresh (ArrayBuilder.new n, 0) opsT).1.1
    let s := (ArrayBuilder.run fresh (ArrayBuilder.new n, 0) opsS).1.1
    let tacc := (bvRun fresh n ([], 0) opsT).1.1
    let sacc := (bvRun fresh n ([], 0) opsS).1.1
    let copy := ArrayBuilder.mapFrom cl 0 sacc
    ∃ c, ArrayBuilder.cloneFrom cl t s = some (c, tacc) ∧
      ArrayBuilder.len c = sacc.length ∧ ArrayBuilder.isFull c = decide (sacc.length = n) ∧
      ArrayBuilder.asSlice c = some copy ∧ ArrayBuilder.dropped c = some copy ∧
      ArrayBuilder.build c = (if sacc.length = n then .array copy else .panic) := by
  intro t s tacc sacc copy
  obtain ⟨ht, htn, _, _⟩ := bld_run fresh opsT (ArrayBuilder.new n) [] 0 (ArrayBuilder.wf_new n)
  obtain ⟨hs, hsn, _, _⟩ := bld_run fresh opsS (ArrayBuilder.new n) [] 0 (ArrayBuilder.wf_new n)
  have hn : (ArrayBuilder.new n : ArrayBuilder.Builder α).n = n := rfl
  rw [hn] at ht hs htn hsn
  obtain ⟨c, hc, hw, hcn⟩ := ArrayBuilder.wf_cloneFrom cl ht hs
  refine ⟨c, hc, ?_, ?_, ArrayBuilder.wf_asSlice hw, ArrayBuilder.wf_dropped hw, ?_⟩
  · simpa [ArrayBuilder.len] using hw.2.1
  · rw [ArrayBuilder.wf_isFull hw, hcn, hsn]; simp [sacc]
  · rw [ArrayBuilder.wf_build hw, hcn, hsn]; simp [copy, sacc]

/-- with clones that preserve values, what the builder holds is the first `N` of the values pushed into
    it in push order (`pushes`: a `clone_from` from a second builder restarts with the values pushed
    into that builder); `build` returns them iff at least `N` values were pushed -/
theorem builder_build_eq_pushes (n : Nat) (ops : List (ArrayBuilder.Op α)) :
    ArrayBuilder.build (ArrayBuilder.run (fun _ x => x) (ArrayBuilder.new n, 0) ops).1.1 =
      if n ≤ (pushes ops).length then .array ((pushes ops).take n) else .panic := by
  have h := (builder_history (fun _ (x : α) => x) n ops).2.2.2.2.2.2.1
  unfold pushes
  rw [h, bvRun_values n ops [] 0 (by simp)]
  simp only [bvBuild, List.length_take]
  by_cases hle : n ≤ (pushesFrom [] ops).length
  · simp [hle, Nat.min_eq_left hle]
  · have : min n (pushesFrom [] ops).length ≠ n := by omega
    simp [hle, this]

/-! ### non-vacuity -/

example : arrayMap 10 [1, 2, 3] (fun _ a => .value (a + 10)) = .array [11, 12, 13] := by decide
example : arrayMap 10 [1, 2, 3] (fun _ a => if a = 2 then .brk else .value a) = Res.panic := by decide
example : arrayMap 50 [1, 2, 3] (fun _ a => if a = 2 then .cont else .value a) = Res.diverge := by decide
/-- `continue` the first time only: index 1 is retried and the array is complete -/
example : arrayMap 10 [1, 2, 3] (fun t a => if t = 1 then .cont else .value a) = .array [1, 2, 3] := by decide
example : (arrayMapByVal 10 [1, 2, 3] (fun _ a => if a = 2 then .brk else .value a)).res = Res.panic := by decide
example : (arrayMapByVal 10 [1, 2, 3] (fun _ a => if a = 2 then .brk else .value a)).leakedIn = [3] := by decide
/-- the `ub` outcome is a real state of the model: it is what the post-loop assert prevents -/
example : assumeInit [some 1, none] = (Res.ub : Res Nat) := by decide
/-- `clone_from` into a LONGER target: nothing of the old tail survives (a clone_from that only overwrote
    the common prefix would leave `[100, 2, 3]` here and `build` would return it) -/
example : (ArrayBuilder.run (fun k (_ : Nat) => 100 + k) (ArrayBuilder.new 3, 0)
    [.push 1, .push 2, .push 3, .cloneFrom [7]]).2.getLast? = some (.clonedFrom [] [1, 2, 3] [7]) := by decide
example : ArrayBuilder.asSlice (ArrayBuilder.run (fun k (_ : Nat) => 100 + k) (ArrayBuilder.new 3, 0)
    [.push 1, .push 2, .push 3, .cloneFrom [7]]).1.1 = some [104] := by decide
example : ArrayBuilder.build (ArrayBuilder.run (fun k (_ : Nat) => 100 + k) (ArrayBuilder.new 3, 0)
    [.push 1, .push 2, .push 3, .cloneFrom [7]]).1.1 = .panic := by decide
example : ArrayBuilder.build (ArrayBuilder.run (fun k (_ : Nat) => 100 + k) (ArrayBuilder.new 2, 0)
    [.push 1, .cloneInto [7, 8, 9]]).1.1 = .panic := by decide
example : pushes [.push 1, .push 2, .cloneFrom [7], .push (3 : Nat), .cloneInto [9]] = [7, 3] := by decide
example : collectConst [.value 1, .cont, .value 3, .brk, .value 5] = CCRes.array [1, 3] := by decide
example : collectConst2 [.value 1, .value 2] [.value (1 : Nat)] = CCRes.constPanic := by decide
example : collectConst2 [.value 1] [.value (1 : Nat), .value 2] = CCRes.constPanic := by decide

end Konst.Props.C11
