import KonstVerif.Lemmas.Range
/-
  C09 — range iteration yields exactly the values std's ranges yield.

  Model: `Konst.Range` (Model/Range.lean) — `increment`/`decrement` with their `StepRet` flags,
  `RangeIter(+Rev)`, `RangeInclusiveIter(+Rev)` with the `(MAX, MIN)` exhausted encoding,
  `RangeFromIter`; the twelve integer types are `intStep MIN MAX`, `char` is `charStep`.
  Spec: `Konst.Spec.Range` (Spec/Range.lean) — the list of values between the bounds (scalar values
  for `char`), answered like a deque popped at either end, `None` forever once it is empty.

  Every theorem is for ALL bounds of the type (empty and inverted ranges included), ALL front/back
  histories (any length), both the forward iterator and its `.rev()`; the integer theorems for
  every `MIN`, `MAX` (so for all twelve widths at once).  `= some …` also says: no call panics
  (`opt_unwrap!` in the char stepper, `debug_assert!(!overflowed)` in `RangeIter::next_back`).
-/
namespace Konst.Props.C09
open Konst Konst.Range Konst.Spec.Range Konst.Range.Lemmas

/-- `into_iter!(a..b)` / `into_iter!(a..=b)`, or that followed by `.rev()` -/
def iterOf {α : Type} (rev : Bool) (a b : α) : Iter α :=
  if rev then (Iter.ofBounds a b).rev else Iter.ofBounds a b

theorem absIter_iterOf {α : Type} (L : Fields α → List α) (rev : Bool) (a b : α) :
    absIter L (iterOf rev a b) = if rev then (L ⟨a, b⟩).reverse else L ⟨a, b⟩ := by
  cases rev <;> simp [absIter, iterOf, Iter.ofBounds, Iter.rev]

theorem fields_iterOf {α : Type} (rev : Bool) (a b : α) : (iterOf rev a b).fields = ⟨a, b⟩ := by
  cases rev <;> rfl

/-! ## `a..b` and `a..=b` over the integer types -/

/-- **range_history.** For every integer type (any `MIN`, `MAX`), all bounds `a`, `b` of the type — also
    `a ≥ b` — and every history of `next`/`next_back` calls, `RangeIter` (`rev = false`) and `RangeIterRev`
    (`rev = true`) never panic and answer exactly like std's `a..b` / `(a..b).rev()`. -/
theorem range_history (MIN MAX : Int) (a b : Int)
    (ha : MIN ≤ a ∧ a ≤ MAX) (hb : MIN ≤ b ∧ b ≤ MAX) (rev : Bool) (h : List Dir) :
    runRange (intStep MIN MAX) (iterOf rev a b) h = some (specRun rev (rangeList a b) h) := by
  have := iter_history (rangeNextBlock (intStep MIN MAX)) (rangeNextBackBlock (intStep MIN MAX))
    intRangeL (IntInv MIN MAX) (int_range_next MIN MAX) (int_range_nextBack MIN MAX)
    (iterOf rev a b) (by rw [fields_iterOf]; exact ⟨ha.1, ha.2, hb.1, hb.2⟩) h
  rw [absIter_iterOf] at this
  exact this

/-- **rangeInclusive_history.** The same for `a..=b`, for every `MIN < MAX`: this covers the steps that
    yield `MAX` (or `MIN` from the back) and switch to the `(MAX, MIN)` exhausted encoding. -/
theorem rangeInclusive_history (MIN MAX : Int) (hmm : MIN < MAX) (a b : Int)
    (ha : MIN ≤ a ∧ a ≤ MAX) (hb : MIN ≤ b ∧ b ≤ MAX) (rev : Bool) (h : List Dir) :
    runRangeInc (intStep MIN MAX) (iterOf rev a b) h = some (specRun rev (rangeIncList a b) h) := by
  have := iter_history (rangeIncNextBlock (intStep MIN MAX)) (rangeIncNextBackBlock (intStep MIN MAX))
    intRangeIncL (IntInv MIN MAX) (int_rangeInc_next MIN MAX hmm) (int_rangeInc_nextBack MIN MAX hmm)
    (iterOf rev a b) (by rw [fields_iterOf]; exact ⟨ha.1, ha.2, hb.1, hb.2⟩) h
  rw [absIter_iterOf] at this
  exact this

/-! ## `char` ranges -/

/-- **char_range_history.** For all chars `a`, `b` (scalar values), every history: `'a'..'b'` yields the
    scalar values in between — ranges crossing the surrogate gap included — from either end. -/
theorem char_range_history (a b : Nat) (ha : isScalar a = true) (hb : isScalar b = true)
    (rev : Bool) (h : List Dir) :
    runRange charStep (iterOf rev a b) h = some (specRun rev (charRangeList a b) h) := by
  have := iter_history (rangeNextBlock charStep) (rangeNextBackBlock charStep)
    charRangeL CharInv char_range_next char_range_nextBack
    (iterOf rev a b) (by rw [fields_iterOf]; exact ⟨ha, hb⟩) h
  rw [absIter_iterOf] at this
  exact this

/-- **char_rangeInclusive_history.** The same for `'a'..='b'` (including `..=char::MAX` and `'\0'..=`). -/
theorem char_rangeInclusive_history (a b : Nat) (ha : isScalar a = true) (hb : isScalar b = true)
    (rev : Bool) (h : List Dir) :
    runRangeInc charStep (iterOf rev a b) h = some (specRun rev (charRangeIncList a b) h) := by
  have := iter_history (rangeIncNextBlock charStep) (rangeIncNextBackBlock charStep)
    charRangeIncL CharInv char_rangeInc_next char_rangeInc_nextBack
    (iterOf rev a b) (by rw [fields_iterOf]; exact ⟨ha, hb⟩) h
  rw [absIter_iterOf] at this
  exact this

/-! ## `a..` -/

/-- **rangeFrom_prefix.** `k` calls of `RangeFromIter::next` on `a..` yield `a, a+1, …, a+k-1` (no panic)
    as long as these stay below `MAX` (`a + k ≤ MAX`); yielding `MAX` itself is the region std documents
    as overflow (konst: `debug_assert!` panic / wrap-around) and is out of scope. -/
theorem rangeFrom_prefix (MIN MAX : Int) (a : Int) (k : Nat) (ha : MIN ≤ a) (hk : a + (k : Int) ≤ MAX) :
    runRangeFrom (intStep MIN MAX) a k = some (rangeFromList a k) :=
  int_rangeFrom MIN MAX k a ha hk

/-- **char_rangeFrom_prefix.** The same for chars: the first `k` chars from `a` on, provided there are
    `k` chars in `a..char::MAX`. -/
theorem char_rangeFrom_prefix (a k : Nat) (ha : isScalar a = true)
    (hk : k ≤ (charRangeList a 0x10FFFF).length) :
    runRangeFrom charStep a k = some (charRangeFromList a k) :=
  char_rangeFrom k a ha hk

/-! ## `a..` up to and past the type's maximum (build profile with debug assertions / overflow checks)

Observations per step (`Tok`): an item, a panic, or the END of the iteration.  std's `RangeFrom` in this profile
(`rangeFromChecked`, `charRangeFromChecked`) yields the values below `MAX`, panics on the step that would have to
compute `MAX + 1`, and never ends. -/

/-- **rangeFrom_checked.** For every integer type and every start `a` of the type, ANY number `k` of `next` calls on
    `a..` observes exactly what std's `RangeFrom` does in the checked profile: `a, …, MAX-1`, then a panic — not
    only the prefix below MAX of `rangeFrom_prefix`. -/
theorem rangeFrom_checked (MIN MAX : Int) (a : Int) (k : Nat) (ha : a ≤ MAX) :
    pulls (RangeFromIter.next (intStep MIN MAX)) a k = Tok.ofRun (rangeFromChecked MAX a k) :=
  int_pulls MIN MAX k a ha

/-- **char_rangeFrom_checked.** The same for `char`: the chars from `a` on below `char::MAX`, then a panic. -/
theorem char_rangeFrom_checked (a k : Nat) (ha : isScalar a = true) :
    pulls (RangeFromIter.next charStep) a k = Tok.ofRun (charRangeFromChecked a k) :=
  char_pulls k a ha

/-- **rangeFrom_never_ends.** For every element type (any `Step`), whatever the consumer — `k` calls of `next`,
    `take(k)`/`zip`, `nth(n)`, `find(p)` — an iteration over `a..` never observes the end of the iteration. -/
theorem rangeFrom_never_ends {α : Type} (S : Step α) (a : α) (k : Nat) (p : α → Bool) :
    Tok.end_ ∉ pulls (RangeFromIter.next S) a k ∧ Tok.end_ ∉ takeLoop (RangeFromIter.next S) a k ∧
    Tok.end_ ∉ zipLoop (RangeFromIter.next S) a k ∧
    nthLoop (RangeFromIter.next S) a k ≠ Tok.end_ ∧ findLoop (RangeFromIter.next S) p a k ≠ Tok.end_ :=
  ⟨pulls_no_end _ (rf_next_ne_done S) k a, takeLoop_no_end _ (rf_next_ne_done S) k a,
   zipLoop_no_end _ (rf_next_ne_done S) k a,
   nthLoop_no_end _ (rf_next_ne_done S) k a, findLoop_no_end _ p (rf_next_ne_done S) k a⟩

/-- **rangeFrom_loops.** The loop of `for_each!` with a `break` after `k` items, the loop of `outer, zip(a..)` and —
    since the countdown of `take` is tested at the top of the loop (9827f8a, 7ecb606) — the loop of `a.., take(k)`
    observe exactly `k` calls of `next`: no item is pulled that the consumer does not get (any source iterator). -/
theorem rangeFrom_loops {α σ : Type} (next : σ → Outcome α σ) (s : σ) (k : Nat) :
    forEachBreak next s k = pulls next s k ∧ zipInLoop next s k = pulls next s k ∧
    takeLoop next s k = pulls next s k :=
  ⟨forEachBreak_eq_pulls next k s, zipInLoop_eq_pulls next k s, takeLoop_eq_pulls next k s⟩

/-- **rangeFrom_take.** `a.., take(k)` observes exactly what std's `(a..).take(k)` does in the checked profile, for
    EVERY `k` — `k = MAX - a` included, where up to 9827f8a~1 the emitted loop pulled a `(k+1)`-th item (the step at
    MAX) and panicked. -/
theorem rangeFrom_take (MIN MAX : Int) (a : Int) (k : Nat) (ha : a ≤ MAX) :
    takeLoop (RangeFromIter.next (intStep MIN MAX)) a k = Tok.ofRun (rangeFromChecked MAX a k) :=
  int_takeLoop MIN MAX k a ha

/-- **rangeFrom_take_at_max.** The boundary case spelled out: with `k = MAX - a` the loop observes the `k` values
    `a, …, MAX - 1` and nothing else — no panic, no `end` —, which is std's run
    (`rangeFromChecked MAX a k = (…, false)`): the step at MAX, which panics, is not taken. -/
theorem rangeFrom_take_at_max (MIN MAX : Int) (a : Int) (k : Nat) (ha : a ≤ MAX) (hk : k = (MAX - a).toNat) :
    takeLoop (RangeFromIter.next (intStep MIN MAX)) a k = (rangeFromList a k).map Tok.v ∧
    rangeFromChecked MAX a k = (rangeFromList a k, false) ∧
    pulls (RangeFromIter.next (intStep MIN MAX)) a (k + 1) = (rangeFromList a k).map Tok.v ++ [Tok.panic] := by
  refine ⟨int_takeLoop_at_max MIN MAX k a ha hk, by simp [rangeFromChecked, hk], ?_⟩
  rw [int_pulls MIN MAX (k + 1) a ha]
  simp [rangeFromChecked, Tok.ofRun, ← hk]

/-- **char_rangeFrom_take.** The same for `char`: `a.., take(k)` = the first `k` chars from `a` on below `char::MAX`,
    then the panic only if fewer than `k` exist — std's `(a..).take(k)`, every `k`. -/
theorem char_rangeFrom_take (a k : Nat) (ha : isScalar a = true) :
    takeLoop (RangeFromIter.next charStep) a k = Tok.ofRun (charRangeFromChecked a k) :=
  char_takeLoop k a ha

/-- **rangeFrom_zip.** `a.., zip(other)` with `k` items in `other`: like std's `Zip`, `k + 1` items are pulled from
    `a..` — same observations for every `k`, the step at MAX included. -/
theorem rangeFrom_zip (MIN MAX : Int) (a : Int) (k : Nat) (ha : a ≤ MAX) :
    zipLoop (RangeFromIter.next (intStep MIN MAX)) a k = Tok.ofRun (zipOfRun (rangeFromChecked MAX a) k) :=
  int_zipLoop MIN MAX k a ha

/-- **rangeFrom_zip_vs_take.** `zip` still pulls its source first, `take` no longer does: over any source `zip(m items)`
    observes what `take(m)` observes followed by the outcome of that one extra pull (nothing, or `panic`); over `a..`
    the two differ exactly at `k = MAX - a`, by the panic of the step at MAX — as std's `Zip` and `Take` do. -/
theorem rangeFrom_zip_vs_take :
    (∀ {α σ : Type} (next : σ → Outcome α σ) (s : σ) (m : Nat),
      ∃ t, zipLoop next s m = takeLoop next s m ++ t ∧ (t = [] ∨ t = [Tok.panic])) ∧
    (∀ (MIN MAX a : Int) (k : Nat), a ≤ MAX →
      zipLoop (RangeFromIter.next (intStep MIN MAX)) a k
        = takeLoop (RangeFromIter.next (intStep MIN MAX)) a k ++ (if k = (MAX - a).toNat then [Tok.panic] else [])) :=
  ⟨fun next s m => zipLoop_eq_takeLoop_append next m s,
   fun MIN MAX a k ha => int_zipLoop_vs_takeLoop MIN MAX k a ha⟩

/-- **rangeFrom_nth.** `eval!(a.., nth(n))` (and `next()` = `nth(0)`): the item `a + n` if it is below MAX,
    otherwise a panic — as std's `RangeFrom::nth`. -/
theorem rangeFrom_nth (MIN MAX : Int) (a : Int) (n : Nat) (ha : a ≤ MAX) :
    nthLoop (RangeFromIter.next (intStep MIN MAX)) a n = tokOfNth (nthOfRun (rangeFromChecked MAX a) n) :=
  int_nthLoop MIN MAX n a ha

/-- **charRangeFromChecked_shortcut.** the driver's evaluation of `charRangeFromChecked` -/
theorem charRangeFromChecked_shortcut (a k : Nat) : charRangeFromCheckedFast a k = charRangeFromChecked a k :=
  charRangeFromCheckedFast_eq a k

/-! ## the loop of `for_each!` / `iter::eval!` / `collect_const!` -/

/-- **range_drain.** Calling `next` until `None` (what the iteration macros do; `rev()` in a macro calls
    `next_back` instead) collects exactly std's values, in std's order, with at most `len + 1` calls. -/
theorem range_drain (MIN MAX : Int) (a b : Int) (ha : MIN ≤ a ∧ a ≤ MAX) (hb : MIN ≤ b ∧ b ≤ MAX)
    (rev : Bool) (fuel : Nat) (hf : (rangeList a b).length < fuel) :
    drain (RangeIter.next (intStep MIN MAX)) fuel (iterOf rev a b)
        = some (if rev then (rangeList a b).reverse else rangeList a b) ∧
    drain (RangeIter.nextBack (intStep MIN MAX)) fuel (iterOf rev a b)
        = some (if rev then rangeList a b else (rangeList a b).reverse) := by
  have hi : invIter (IntInv MIN MAX) (iterOf rev a b) := by
    simp only [invIter, fields_iterOf]; exact ⟨ha.1, ha.2, hb.1, hb.2⟩
  constructor
  · have := drain_eq _ (absIter intRangeL) (invIter (IntInv MIN MAX))
      (iter_stepFront _ _ intRangeL (IntInv MIN MAX) (int_range_next MIN MAX) (int_range_nextBack MIN MAX))
      fuel (iterOf rev a b) hi (by rw [absIter_iterOf]; cases rev <;> simpa [intRangeL] using hf)
    rw [absIter_iterOf] at this
    exact this
  · have := drain_eq _ (fun it => (absIter intRangeL it).reverse) (invIter (IntInv MIN MAX))
      (fun it hi => stepBack_as_front _ _ it _
        (iter_stepBack _ _ intRangeL (IntInv MIN MAX) (int_range_next MIN MAX) (int_range_nextBack MIN MAX) it hi))
      fuel (iterOf rev a b) hi (by rw [absIter_iterOf]; cases rev <;> simpa [intRangeL] using hf)
    rw [absIter_iterOf] at this
    cases rev <;> (simp [intRangeL] at this; exact this)

/-- **rangeInclusive_drain.** -/
theorem rangeInclusive_drain (MIN MAX : Int) (hmm : MIN < MAX) (a b : Int)
    (ha : MIN ≤ a ∧ a ≤ MAX) (hb : MIN ≤ b ∧ b ≤ MAX)
    (rev : Bool) (fuel : Nat) (hf : (rangeIncList a b).length < fuel) :
    drain (RangeInclusiveIter.next (intStep MIN MAX)) fuel (iterOf rev a b)
        = some (if rev then (rangeIncList a b).reverse else rangeIncList a b) ∧
    drain (RangeInclusiveIter.nextBack (intStep MIN MAX)) fuel (iterOf rev a b)
        = some (if rev then rangeIncList a b else (rangeIncList a b).reverse) := by
  have hi : invIter (IntInv MIN MAX) (iterOf rev a b) := by
    simp only [invIter, fields_iterOf]; exact ⟨ha.1, ha.2, hb.1, hb.2⟩
  constructor
  · have := drain_eq _ (absIter intRangeIncL) (invIter (IntInv MIN MAX))
      (iter_stepFront _ _ intRangeIncL (IntInv MIN MAX) (int_rangeInc_next MIN MAX hmm) (int_rangeInc_nextBack MIN MAX hmm))
      fuel (iterOf rev a b) hi (by rw [absIter_iterOf]; cases rev <;> simpa [intRangeIncL] using hf)
    rw [absIter_iterOf] at this
    exact this
  · have := drain_eq _ (fun it => (absIter intRangeIncL it).reverse) (invIter (IntInv MIN MAX))
      (fun it hi => stepBack_as_front _ _ it _
        (iter_stepBack _ _ intRangeIncL (IntInv MIN MAX) (int_rangeInc_next MIN MAX hmm) (int_rangeInc_nextBack MIN MAX hmm) it hi))
      fuel (iterOf rev a b) hi (by rw [absIter_iterOf]; cases rev <;> simpa [intRangeIncL] using hf)
    rw [absIter_iterOf] at this
    cases rev <;> (simp [intRangeIncL] at this; exact this)

/-- **char_range_drain.** -/
theorem char_range_drain (a b : Nat) (ha : isScalar a = true) (hb : isScalar b = true)
    (rev : Bool) (fuel : Nat) (hf : (charRangeList a b).length < fuel) :
    drain (RangeIter.next charStep) fuel (iterOf rev a b)
        = some (if rev then (charRangeList a b).reverse else charRangeList a b) ∧
    drain (RangeIter.nextBack charStep) fuel (iterOf rev a b)
        = some (if rev then charRangeList a b else (charRangeList a b).reverse) := by
  have hi : invIter CharInv (iterOf rev a b) := by
    simp only [invIter, fields_iterOf]; exact ⟨ha, hb⟩
  constructor
  · have := drain_eq _ (absIter charRangeL) (invIter CharInv)
      (iter_stepFront _ _ charRangeL CharInv char_range_next char_range_nextBack)
      fuel (iterOf rev a b) hi (by rw [absIter_iterOf]; cases rev <;> simpa [charRangeL] using hf)
    rw [absIter_iterOf] at this
    exact this
  · have := drain_eq _ (fun it => (absIter charRangeL it).reverse) (invIter CharInv)
      (fun it hi => stepBack_as_front _ _ it _
        (iter_stepBack _ _ charRangeL CharInv char_range_next char_range_nextBack it hi))
      fuel (iterOf rev a b) hi (by rw [absIter_iterOf]; cases rev <;> simpa [charRangeL] using hf)
    rw [absIter_iterOf] at this
    cases rev <;> (simp [charRangeL] at this; exact this)

/-- **char_rangeInclusive_drain.** -/
theorem char_rangeInclusive_drain (a b : Nat) (ha : isScalar a = true) (hb : isScalar b = true)
    (rev : Bool) (fuel : Nat) (hf : (charRangeIncList a b).length < fuel) :
    drain (RangeInclusiveIter.next charStep) fuel (iterOf rev a b)
        = some (if rev then (charRangeIncList a b).reverse else charRangeIncList a b) ∧
    drain (RangeInclusiveIter.nextBack charStep) fuel (iterOf rev a b)
        = some (if rev then charRangeIncList a b else (charRangeIncList a b).reverse) := by
  have hi : invIter CharInv (iterOf rev a b) := by
    simp only [invIter, fields_iterOf]; exact ⟨ha, hb⟩
  constructor
  · have := drain_eq _ (absIter charRangeIncL) (invIter CharInv)
      (iter_stepFront _ _ charRangeIncL CharInv char_rangeInc_next char_rangeInc_nextBack)
      fuel (iterOf rev a b) hi (by rw [absIter_iterOf]; cases rev <;> simpa [charRangeIncL] using hf)
    rw [absIter_iterOf] at this
    exact this
  · have := drain_eq _ (fun it => (absIter charRangeIncL it).reverse) (invIter CharInv)
      (fun it hi => stepBack_as_front _ _ it _
        (iter_stepBack _ _ charRangeIncL CharInv char_rangeInc_next char_rangeInc_nextBack it hi))
      fuel (iterOf rev a b) hi (by rw [absIter_iterOf]; cases rev <;> simpa [charRangeIncL] using hf)
    rw [absIter_iterOf] at this
    cases rev <;> (simp [charRangeIncL] at this; exact this)

/-! ## the spec deque -/

/-- an exhausted iterator answers `None` forever -/
theorem exhausted_forever {α : Type} (h : List Dir) : dequeRun ([] : List α) h = h.map fun _ => none :=
  dequeRun_nil h

/-- `.rev()` = the same items consumed with front and back swapped -/
theorem rev_swaps_ends {α : Type} (l : List α) (h : List Dir) :
    specRun true l h = specRun false l (h.map flipDir) := by
  simp only [specRun, if_true, Bool.false_eq_true, if_false]
  exact dequeRun_reverse h l

/-! ## the driver's evaluation shortcuts equal the plain specification (for all inputs) -/

theorem dequeRunFast_eq {α : Type} (l : List α) (h : List Dir) : dequeRunFast l h = dequeRun l h :=
  dequeRunFast_eq' l h

theorem rangeSpec_shortcut (rev : Bool) (a b : Int) (h : List Dir) :
    specAnswer rev (rangeEnds a b h.length) (fun _ => rangeList a b) h = specRun rev (rangeList a b) h :=
  specAnswer_eq' rev _ _ h (fun l1 l2 e => rangeEnds_split' a b h.length l1 l2 e)

theorem rangeIncSpec_shortcut (rev : Bool) (a b : Int) (h : List Dir) :
    specAnswer rev (rangeIncEnds a b h.length) (fun _ => rangeIncList a b) h = specRun rev (rangeIncList a b) h :=
  specAnswer_eq' rev _ _ h (fun l1 l2 e => rangeIncEnds_split' a b h.length l1 l2 e)

theorem charRangeSpec_shortcut (rev : Bool) (a b : Nat) (h : List Dir) :
    specAnswer rev (charRangeEnds a b h.length) (fun _ => charRangeList a b) h = specRun rev (charRangeList a b) h :=
  specAnswer_eq' rev _ _ h (fun l1 l2 e => charRangeEnds_split' a b h.length l1 l2 e)

theorem charRangeIncSpec_shortcut (rev : Bool) (a b : Nat) (h : List Dir) :
    specAnswer rev (charRangeIncEnds a b h.length) (fun _ => charRangeIncList a b) h
      = specRun rev (charRangeIncList a b) h :=
  specAnswer_eq' rev _ _ h (fun l1 l2 e => charRangeIncEnds_split' a b h.length l1 l2 e)

theorem charRangeFrom_shortcut (a k : Nat) : charRangeFromFast a k = charRangeFromList a k :=
  charRangeFromFast_eq' a k

/-! ## non-vacuity: the hypotheses are satisfiable and the statements are about real behaviour -/

-- i8: a range touching MAX, consumed from both ends; the last front step yields MAX = 127 and the
-- iterator goes to the (MAX, MIN) encoding, after which both ends answer `None`
example : runRangeInc (intStep (-128) 127) (iterOf false 125 127) [.f, .b, .f, .f, .b]
    = some [some 125, some 127, some 126, none, none] := by decide
example : rangeIncNextBlock (intStep (-128) 127) ⟨127, 127⟩ = .item 127 ⟨127, -128⟩ := by decide
example : rangeIncNextBackBlock (intStep (-128) 127) ⟨-128, -128⟩ = .item (-128) ⟨127, -128⟩ := by decide
-- inverted and empty ranges
example : runRange (intStep (-128) 127) (iterOf false 5 (-5)) [.f, .b] = some [none, none] := by decide
example : runRange (intStep 0 255) (iterOf true 3 6) [.f, .f, .b, .f] = some [some 5, some 4, some 3, none] := by decide
-- a char range crossing the surrogate gap, from both ends
example : runRangeInc charStep (iterOf false 0xD7FE 0xE001) [.f, .b, .f, .b, .f]
    = some [some 0xD7FE, some 0xE001, some 0xD7FF, some 0xE000, none] := by decide
example : charRangeList 0xD7FE 0xD802 = [0xD7FE, 0xD7FF] := by decide
-- the hypotheses of the theorems are satisfiable
example : ∃ MIN MAX a b : Int, MIN < MAX ∧ (MIN ≤ a ∧ a ≤ MAX) ∧ (MIN ≤ b ∧ b ≤ MAX) := ⟨-128, 127, 3, 5, by decide⟩
example : isScalar 0xD7FF = true ∧ isScalar 0xE000 = true ∧ isScalar 0xD800 = false := by decide
example : runRangeFrom (intStep 0 255) 252 3 = some [252, 253, 254] := by decide
-- outside the scope of `rangeFrom_prefix`: pulling MAX trips the `debug_assert!`
example : runRangeFrom (intStep 0 255) 254 2 = none := by decide
example : runRangeFrom charStep 0xD7FE 3 = some [0xD7FE, 0xD7FF, 0xE000] := by decide
-- `a..` driven to MAX: values below MAX, then the panic; `take(k)` pulls exactly `k` items like std's `Take`, so it
-- stops before the step at MAX (`253.., take(2)` and `255.., take(0)` panicked up to 9827f8a~1), `zip` does not
example : pulls (RangeFromIter.next (intStep 0 255)) 253 4 = [.v 253, .v 254, .panic] := by decide
example : rangeFromChecked 255 253 4 = ([253, 254], true) ∧ rangeFromChecked 255 253 2 = ([253, 254], false) := by decide
example : takeLoop (RangeFromIter.next (intStep 0 255)) 253 2 = [.v 253, .v 254] := by decide
example : takeLoop (RangeFromIter.next (intStep 0 255)) 253 1 = [.v 253] := by decide
example : takeLoop (RangeFromIter.next (intStep 0 255)) 253 3 = [.v 253, .v 254, .panic] := by decide
example : takeLoop (RangeFromIter.next (intStep 0 255)) 255 0 = [] ∧
    takeLoop (RangeFromIter.next (intStep 0 255)) 255 1 = [.panic] := by decide
example : takeLoop (RangeFromIter.next charStep) 0x10FFFE 1 = [.v 0x10FFFE] ∧
    takeLoop (RangeFromIter.next charStep) 0x10FFFE 2 = [.v 0x10FFFE, .panic] := by decide
-- a source that counts its calls: `take(2)` makes two, `zip` of a 2-item iterator three
example : takeLoop (fun (s : Nat) => Outcome.item s (s + 1)) 0 2 = [.v 0, .v 1] ∧
    takeLoop (fun (s : Nat) => if s < 2 then Outcome.item s (s + 1) else .panic) 0 2 = [.v 0, .v 1] ∧
    zipLoop (fun (s : Nat) => if s < 2 then Outcome.item s (s + 1) else .panic) 0 2 = [.v 0, .v 1, .panic] := by decide
example : zipLoop (RangeFromIter.next (intStep 0 255)) 253 2 = [.v 253, .v 254, .panic] ∧
    zipOfRun (rangeFromChecked 255 253) 2 = ([253, 254], true) := by decide
example : nthLoop (RangeFromIter.next (intStep (-128) 127)) 125 1 = .v 126 ∧
    nthLoop (RangeFromIter.next (intStep (-128) 127)) 125 2 = .panic := by decide
example : pulls (RangeFromIter.next charStep) 0x10FFFE 3 = [.v 0x10FFFE, .panic] := by decide
-- an iterator that does return `None` at MAX is observed as `end` by every loop (what the check looks for)
example : pulls (fun (s : Nat) => if s < 3 then Outcome.item s (s + 1) else .done) 1 4 = [.v 1, .v 2, .end_] ∧
    takeLoop (fun (s : Nat) => if s < 3 then Outcome.item s (s + 1) else .done) 1 4 = [.v 1, .v 2, .end_] ∧
    nthLoop (fun (s : Nat) => if s < 3 then Outcome.item s (s + 1) else .done) 1 4 = .end_ := by decide


/-- **forRange_eq.** `for_range!{x in a..b => ..}` binds exactly the values of `a..b` in order — for every
    pair of bounds, inverted and empty ranges included (then the body never runs). -/
theorem forRange_eq (a b : Int) : ∀ (fuel : Nat), (rangeList a b).length ≤ fuel →
    forRange a b fuel = rangeList a b := by
  have hlen : ∀ x y : Int, (rangeList x y).length = (y - x).toNat := by
    intro x y; simp [rangeList]
  have hnil : ∀ x y : Int, ¬ x < y → rangeList x y = [] := by
    intro x y h
    have : (y - x).toNat = 0 := by omega
    simp [rangeList, this]
  have hcons : ∀ x y : Int, x < y → rangeList x y = x :: rangeList (x + 1) y := by
    intro x y h
    unfold rangeList
    obtain ⟨n, hn⟩ : ∃ n : Nat, (y - x).toNat = n + 1 := ⟨(y - x).toNat - 1, by omega⟩
    have hn' : (y - (x + 1)).toNat = n := by omega
    rw [hn, hn', List.range_succ_eq_map, List.map_cons, List.map_map]
    simp only [Int.cast_ofNat_Int, Int.add_zero, List.cons.injEq, true_and]
    apply List.map_congr_left
    intro i _
    simp only [Function.comp]
    omega
  intro fuel
  induction fuel generalizing a with
  | zero =>
    intro h
    have : rangeList a b = [] := List.eq_nil_of_length_eq_zero (by omega)
    simp [forRange, this]
  | succ f ih =>
    intro h
    simp only [forRange]
    by_cases hab : a < b
    · rw [if_pos hab, hcons a b hab]
      congr 1
      apply ih
      rw [hlen] at h ⊢
      omega
    · rw [if_neg hab, hnil a b hab]

example : forRange 5 2 10 = [] ∧ forRange (-2) 1 10 = [-2, -1, 0] := by decide

end Konst.Props.C09
