import KonstVerif.Lemmas.Range
/-
  C09 — range iteration yields exactly the values std's ranges yield.

  Model: `Konst.Range` (Model/Range.lean) — `increment`/`decrement` with their `StepRet` flags,
  `RangeIter(+Rev)`, `RangeInclusiveIter(+Rev)` with the `(MAX, MIN)` exhausted encoding,
  `RangeFromIter`; the twelve integer types are `intStep MIN MAX`, `char` is `charStep`.
  Spec: `Konst.Spec.Range` (Spec/Range.lean) — the list of values between the bounds (scalar values
  for `char`), answered like a deque popped at either end, `None` forever once it is empty.

  Every theorem is for ALL bounds of the type (empty and inverted ranges included), ALL front/back
  histories (any length), both the forward iterator and its `.rev()`; the integer theorems for
  every `MIN`, `MAX` (so for all twelve widths at once).  `= some …` also says: no call panics
  (`opt_unwrap!` in the char stepper, `debug_assert!(!overflowed)` in `RangeIter::next_back`).
-/
namespace Konst.Props.C09
open Konst Konst.Range Konst.Spec.Range Konst.Range.Lemmas

/-- `into_iter!(a..b)` / `into_iter!(a..=b)`, or that followed by `.rev()` -/
def iterOf {α : Type} (rev : Bool) (a b : α) : Iter α :=
  if rev then (Iter.ofBounds a b).rev else Iter.ofBounds a b

theorem absIter_iterOf {α : Type} (L : Fields α → List α) (rev : Bool) (a b : α) :
    absIter L (iterOf rev a b) = if rev then (L ⟨a, b⟩).reverse else L ⟨a, b⟩ := by
  cases rev <;> simp [absIter, iterOf, Iter.ofBounds, Iter.rev]

theorem fields_iterOf {α : Type} (rev : Bool) (a b : α) : (iterOf rev a b).fields = ⟨a, b⟩ := by
  cases rev <;> rfl

/-! ## `a..b` and `a..=b` over the integer types -/

/-- **range_history.** For every integer type (any `MIN`, `MAX`), all bounds `a`, `b` of the type — also
    `a ≥ b` — and every history of `next`/`next_back` calls, `RangeIter` (`rev = false`) and `RangeIterRev`
    (`rev = true`) never panic and answer exactly like std's `a..b` / `(a..b).rev()`. -/
theorem range_history (MIN MAX : Int) (a b : Int)
    (ha : MIN ≤ a ∧ a ≤ MAX) (hb : MIN ≤ b ∧ b ≤ MAX) (rev : Bool) (h : List Dir) :
    runRange (intStep MIN MAX) (iterOf rev a b) h = some (specRun rev (rangeList a b) h) := by
  have := iter_history (rangeNextBlock (intStep MIN MAX)) (rangeNextBackBlock (intStep MIN MAX))
    intRangeL (IntInv MIN MAX) (int_range_next MIN MAX) (int_range_nextBack MIN MAX)
    (iterOf rev a b) (by rw [fields_iterOf]; exact ⟨ha.1, ha.2, hb.1, hb.2⟩) h
  rw [absIter_iterOf] at this
  exact this

/-- **rangeInclusive_history.** The same for `a..=b`, for every `MIN < MAX`: this covers the steps that
    yield `MAX` (or `MIN` from the back) and switch to the `(MAX, MIN)` exhausted encoding. -/
theorem rangeInclusive_history (MIN MAX : Int) (hmm : MIN < MAX) (a b : Int)
    (ha : MIN ≤ a ∧ a ≤ MAX) (hb : MIN ≤ b ∧ b ≤ MAX) (rev : Bool) (h : List Dir) :
    runRangeInc (intStep MIN MAX) (iterOf rev a b) h = some (specRun rev (rangeIncList a b) h) := by
  have := iter_history (rangeIncNextBlock (intStep MIN MAX)) (rangeIncNextBackBlock (intStep MIN MAX))
    intRangeIncL (IntInv MIN MAX) (int_rangeInc_next MIN MAX hmm) (int_rangeInc_nextBack MIN MAX hmm)
    (iterOf rev a b) (by rw [fields_iterOf]; exact ⟨ha.1, ha.2, hb.1, hb.2⟩) h
  rw [absIter_iterOf] at this
  exact this

/-! ## `char` ranges -/

/-- **char_range_history.** For all chars `a`, `b` (scalar values), every history: `'a'..'b'` yields the
    scalar values in between — ranges crossing the surrogate gap included — from either end. -/
theorem char_range_history (a b : Nat) (ha : isScalar a = true) (hb : isScalar b = true)
    (rev : Bool) (h : List Dir) :
    runRange charStep (iterOf rev a b) h = some (specRun rev (charRangeList a b) h) := by
  have := iter_history (rangeNextBlock charStep) (rangeNextBackBlock charStep)
    charRangeL CharInv char_range_next char_range_nextBack
    (iterOf rev a b) (by rw [fields_iterOf]; exact ⟨ha, hb⟩) h
  rw [absIter_iterOf] at this
  exact this

/-- **char_rangeInclusive_history.** The same for `'a'..='b'` (including `..=char::MAX` and `'\0'..=`). -/
theorem char_rangeInclusive_history (a b : Nat) (ha : isScalar a = true) (hb : isScalar b = true)
    (rev : Bool) (h : List Dir) :
    runRangeInc charStep (iterOf rev a b) h = some (specRun rev (charRangeIncList a b) h) := by
  have := iter_history (rangeIncNextBlock charStep) (rangeIncNextBackBlock charStep)
    charRangeIncL CharInv char_rangeInc_next char_rangeInc_nextBack
    (iterOf rev a b) (by rw [fields_iterOf]; exact ⟨ha, hb⟩) h
  rw [absIter_iterOf] at this
  exact this

/-! ## `a..` -/

/-- **rangeFrom_prefix.** `k` calls of `RangeFromIter::next` on `a..` yield `a, a+1, …, a+k-1` (no panic)
    as long as these stay below `MAX` (`a + k ≤ MAX`); yielding `MAX` itself is the region std documents
    as overflow (konst: `debug_assert!` panic / wrap-around) and is out of scope. -/
theorem rangeFrom_prefix (MIN MAX : Int) (a : Int) (k : Nat) (ha : MIN ≤ a) (hk : a + (k : Int) ≤ MAX) :
    runRangeFrom (intStep MIN MAX) a k = some (rangeFromList a k) :=
  int_rangeFrom MIN MAX k a ha hk

/-- **char_rangeFrom_prefix.** The same for chars: the first `k` chars from `a` on, provided there are
    `k` chars in `a..char::MAX`. -/
theorem char_rangeFrom_prefix (a k : Nat) (ha : isScalar a = true)
    (hk : k ≤ (charRangeList a 0x10FFFF).length) :
    runRangeFrom charStep a k = some (charRangeFromList a k) :=
  char_rangeFrom k a ha hk

/-! ## the loop of `for_each!` / `iter::eval!` / `collect_const!` -/

/-- **range_drain.** Calling `next` until `None` (what the iteration macros do; `rev()` in a macro calls
    `next_back` instead) collects exactly std's values, in std's order, with at most `len + 1` calls. -/
theorem range_drain (MIN MAX : Int) (a b : Int) (ha : MIN ≤ a ∧ a ≤ MAX) (hb : MIN ≤ b ∧ b ≤ MAX)
    (rev : Bool) (fuel : Nat) (hf : (rangeList a b).length < fuel) :
    drain (RangeIter.next (intStep MIN MAX)) fuel (iterOf rev a b)
        = some (if rev then (rangeList a b).reverse else rangeList a b) ∧
    drain (RangeIter.nextBack (intStep MIN MAX)) fuel (iterOf rev a b)
        = some (if rev then rangeList a b else (rangeList a b).reverse) := by
  have hi : invIter (IntInv MIN MAX) (iterOf rev a b) := by
    simp only [invIter, fields_iterOf]; exact ⟨ha.1, ha.2, hb.1, hb.2⟩
  constructor
  · have := drain_eq _ (absIter intRangeL) (invIter (IntInv MIN MAX))
      (iter_stepFront _ _ intRangeL (IntInv MIN MAX) (int_range_next MIN MAX) (int_range_nextBack MIN MAX))
      fuel (iterOf rev a b) hi (by rw [absIter_iterOf]; cases rev <;> simpa [intRangeL] using hf)
    rw [absIter_iterOf] at this
    exact this
  · have := drain_eq _ (fun it => (absIter intRangeL it).reverse) (invIter (IntInv MIN MAX))
      (fun it hi => stepBack_as_front _ _ it _
        (iter_stepBack _ _ intRangeL (IntInv MIN MAX) (int_range_next MIN MAX) (int_range_nextBack MIN MAX) it hi))
      fuel (iterOf rev a b) hi (by rw [absIter_iterOf]; cases rev <;> simpa [intRangeL] using hf)
    rw [absIter_iterOf] at this
    cases rev <;> (simp [intRangeL] at this; exact this)

/-- **rangeInclusive_drain.** -/
theorem rangeInclusive_drain (MIN MAX : Int) (hmm : MIN < MAX) (a b : Int)
    (ha : MIN ≤ a ∧ a ≤ MAX) (hb : MIN ≤ b ∧ b ≤ MAX)
    (rev : Bool) (fuel : Nat) (hf : (rangeIncList a b).length < fuel) :
    drain (RangeInclusiveIter.next (intStep MIN MAX)) fuel (iterOf rev a b)
        = some (if rev then (rangeIncList a b).reverse else rangeIncList a b) ∧
    drain (RangeInclusiveIter.nextBack (intStep MIN MAX)) fuel (iterOf rev a b)
        = some (if rev then rangeIncList a b else (rangeIncList a b).reverse) := by
  have hi : invIter (IntInv MIN MAX) (iterOf rev a b) := by
    simp only [invIter, fields_iterOf]; exact ⟨ha.1, ha.2, hb.1, hb.2⟩
  constructor
  · have := drain_eq _ (absIter intRangeIncL) (invIter (IntInv MIN MAX))
      (iter_stepFront _ _ intRangeIncL (IntInv MIN MAX) (int_rangeInc_next MIN MAX hmm) (int_rangeInc_nextBack MIN MAX hmm))
      fuel (iterOf rev a b) hi (by rw [absIter_iterOf]; cases rev <;> simpa [intRangeIncL] using hf)
    rw [absIter_iterOf] at this
    exact this
  · have := drain_eq _ (fun it => (absIter intRangeIncL it).reverse) (invIter (IntInv MIN MAX))
      (fun it hi => stepBack_as_front _ _ it _
        (iter_stepBack _ _ intRangeIncL (IntInv MIN MAX) (int_rangeInc_next MIN MAX hmm) (int_rangeInc_nextBack MIN MAX hmm) it hi))
      fuel (iterOf rev a b) hi (by rw [absIter_iterOf]; cases rev <;> simpa [intRangeIncL] using hf)
    rw [absIter_iterOf] at this
    cases rev <;> (simp [intRangeIncL] at this; exact this)

/-- **char_range_drain.** -/
theorem char_range_drain (a b : Nat) (ha : isScalar a = true) (hb : isScalar b = true)
    (rev : Bool) (fuel : Nat) (hf : (charRangeList a b).length < fuel) :
    drain (RangeIter.next charStep) fuel (iterOf rev a b)
        = some (if rev then (charRangeList a b).reverse else charRangeList a b) ∧
    drain (RangeIter.nextBack charStep) fuel (iterOf rev a b)
        = some (if rev then charRangeList a b else (charRangeList a b).reverse) := by
  have hi : invIter CharInv (iterOf rev a b) := by
    simp only [invIter, fields_iterOf]; exact ⟨ha, hb⟩
  constructor
  · have := drain_eq _ (absIter charRangeL) (invIter CharInv)
      (iter_stepFront _ _ charRangeL CharInv char_range_next char_range_nextBack)
      fuel (iterOf rev a b) hi (by rw [absIter_iterOf]; cases rev <;> simpa [charRangeL] using hf)
    rw [absIter_iterOf] at this
    exact this
  · have := drain_eq _ (fun it => (absIter charRangeL it).reverse) (invIter CharInv)
      (fun it hi => stepBack_as_front _ _ it _
        (iter_stepBack _ _ charRangeL CharInv char_range_next char_range_nextBack it hi))
      fuel (iterOf rev a b) hi (by rw [absIter_iterOf]; cases rev <;> simpa [charRangeL] using hf)
    rw [absIter_iterOf] at this
    cases rev <;> (simp [charRangeL] at this; exact this)

/-- **char_rangeInclusive_drain.** -/
theorem char_rangeInclusive_drain (a b : Nat) (ha : isScalar a = true) (hb : isScalar b = true)
    (rev : Bool) (fuel : Nat) (hf : (charRangeIncList a b).length < fuel) :
    drain (RangeInclusiveIter.next charStep) fuel (iterOf rev a b)
        = some (if rev then (charRangeIncList a b).reverse else charRangeIncList a b) ∧
    drain (RangeInclusiveIter.nextBack charStep) fuel (iterOf rev a b)
        = some (if rev then charRangeIncList a b else (charRangeIncList a b).reverse) := by
  have hi : invIter CharInv (iterOf rev a b) := by
    simp only [invIter, fields_iterOf]; exact ⟨ha, hb⟩
  constructor
  · have := drain_eq _ (absIter charRangeIncL) (invIter CharInv)
      (iter_stepFront _ _ charRangeIncL CharInv char_rangeInc_next char_rangeInc_nextBack)
      fuel (iterOf rev a b) hi (by rw [absIter_iterOf]; cases rev <;> simpa [charRangeIncL] using hf)
    rw [absIter_iterOf] at this
    exact this
  · have := drain_eq _ (fun it => (absIter charRangeIncL it).reverse) (invIter CharInv)
      (fun it hi => stepBack_as_front _ _ it _
        (iter_stepBack _ _ charRangeIncL CharInv char_rangeInc_next char_rangeInc_nextBack it hi))
      fuel (iterOf rev a b) hi (by rw [absIter_iterOf]; cases rev <;> simpa [charRangeIncL] using hf)
    rw [absIter_iterOf] at this
    cases rev <;> (simp [charRangeIncL] at this; exact this)

/-! ## the spec deque -/

/-- an exhausted iterator answers `None` forever -/
theorem exhausted_forever {α : Type} (h : List Dir) : dequeRun ([] : List α) h = h.map fun _ => none :=
  dequeRun_nil h

/-- `.rev()` = the same items consumed with front and back swapped -/
theorem rev_swaps_ends {α : Type} (l : List α) (h : List Dir) :
    specRun true l h = specRun false l (h.map flipDir) := by
  simp only [specRun, if_true, Bool.false_eq_true, if_false]
  exact dequeRun_reverse h l

/-! ## the driver's evaluation shortcuts equal the plain specification (for all inputs) -/

theorem dequeRunFast_eq {α : Type} (l : List α) (h : List Dir) : dequeRunFast l h = dequeRun l h :=
  dequeRunFast_eq' l h

theorem rangeSpec_shortcut (rev : Bool) (a b : Int) (h : List Dir) :
    specAnswer rev (rangeEnds a b h.length) (fun _ => rangeList a b) h = specRun rev (rangeList a b) h :=
  specAnswer_eq' rev _ _ h (fun l1 l2 e => rangeEnds_split' a b h.length l1 l2 e)

theorem rangeIncSpec_shortcut (rev : Bool) (a b : Int) (h : List Dir) :
    specAnswer rev (rangeIncEnds a b h.length) (fun _ => rangeIncList a b) h = specRun rev (rangeIncList a b) h :=
  specAnswer_eq' rev _ _ h (fun l1 l2 e => rangeIncEnds_split' a b h.length l1 l2 e)

theorem charRangeSpec_shortcut (rev : Bool) (a b : Nat) (h : List Dir) :
    specAnswer rev (charRangeEnds a b h.length) (fun _ => charRangeList a b) h = specRun rev (charRangeList a b) h :=
  specAnswer_eq' rev _ _ h (fun l1 l2 e => charRangeEnds_split' a b h.length l1 l2 e)

theorem charRangeIncSpec_shortcut (rev : Bool) (a b : Nat) (h : List Dir) :
    specAnswer rev (charRangeIncEnds a b h.length) (fun _ => charRangeIncList a b) h
      = specRun rev (charRangeIncList a b) h :=
  specAnswer_eq' rev _ _ h (fun l1 l2 e => charRangeIncEnds_split' a b h.length l1 l2 e)

theorem charRangeFrom_shortcut (a k : Nat) : charRangeFromFast a k = charRangeFromList a k :=
  charRangeFromFast_eq' a k

/-! ## non-vacuity: the hypotheses are satisfiable and the statements are about real behaviour -/

-- i8: a range touching MAX, consumed from both ends; the last front step yields MAX = 127 and the
-- iterator goes to the (MAX, MIN) encoding, after which both ends answer `None`
example : runRangeInc (intStep (-128) 127) (iterOf false 125 127) [.f, .b, .f, .f, .b]
    = some [some 125, some 127, some 126, none, none] := by decide
example : rangeIncNextBlock (intStep (-128) 127) ⟨127, 127⟩ = .item 127 ⟨127, -128⟩ := by decide
example : rangeIncNextBackBlock (intStep (-128) 127) ⟨-128, -128⟩ = .item (-128) ⟨127, -128⟩ := by decide
-- inverted and empty ranges
example : runRange (intStep (-128) 127) (iterOf false 5 (-5)) [.f, .b] = some [none, none] := by decide
example : runRange (intStep 0 255) (iterOf true 3 6) [.f, .f, .b, .f] = some [some 5, some 4, some 3, none] := by decide
-- a char range crossing the surrogate gap, from both ends
example : runRangeInc charStep (iterOf false 0xD7FE 0xE001) [.f, .b, .f, .b, .f]
    = some [some 0xD7FE, some 0xE001, some 0xD7FF, some 0xE000, none] := by decide
example : charRangeList 0xD7FE 0xD802 = [0xD7FE, 0xD7FF] := by decide
-- the hypotheses of the theorems are satisfiable
example : ∃ MIN MAX a b : Int, MIN < MAX ∧ (MIN ≤ a ∧ a ≤ MAX) ∧ (MIN ≤ b ∧ b ≤ MAX) := ⟨-128, 127, 3, 5, by decide⟩
example : isScalar 0xD7FF = true ∧ isScalar 0xE000 = true ∧ isScalar 0xD800 = false := by decide
example : runRangeFrom (intStep 0 255) 252 3 = some [252, 253, 254] := by decide
-- outside the scope of `rangeFrom_prefix`: pulling MAX trips the `debug_assert!`
example : runRangeFrom (intStep 0 255) 254 2 = none := by decide
example : runRangeFrom charStep 0xD7FE 3 = some [0xD7FE, 0xD7FF, 0xE000] := by decide


/-- **forRange_eq.** `for_range!{x in a..b => ..}` binds exactly the values of `a..b` in order — for every
    pair of bounds, inverted and empty ranges included (then the body never runs). -/
theorem forRange_eq (a b : Int) : ∀ (fuel : Nat), (rangeList a b).length ≤ fuel →
    forRange a b fuel = rangeList a b := by
  have hlen : ∀ x y : Int, (rangeList x y).length = (y - x).toNat := by
    intro x y; simp [rangeList]
  have hnil : ∀ x y : Int, ¬ x < y → rangeList x y = [] := by
    intro x y h
    have : (y - x).toNat = 0 := by omega
    simp [rangeList, this]
  have hcons : ∀ x y : Int, x < y → rangeList x y = x :: rangeList (x + 1) y := by
    intro x y h
    unfold rangeList
    obtain ⟨n, hn⟩ : ∃ n : Nat, (y - x).toNat = n + 1 := ⟨(y - x).toNat - 1, by omega⟩
    have hn' : (y - (x + 1)).toNat = n := by omega
    rw [hn, hn', List.range_succ_eq_map, List.map_cons, List.map_map]
    simp only [Int.cast_ofNat_Int, Int.add_zero, List.cons.injEq, true_and]
    apply List.map_congr_left
    intro i _
    simp only [Function.comp]
    omega
  intro fuel
  induction fuel generalizing a with
  | zero =>
    intro h
    have : rangeList a b = [] := List.eq_nil_of_length_eq_zero (by omega)
    simp [forRange, this]
  | succ f ih =>
    intro h
    simp only [forRange]
    by_cases hab : a < b
    · rw [if_pos hab, hcons a b hab]
      congr 1
      apply ih
      rw [hlen] at h ⊢
      omega
    · rw [if_neg hab, hnil a b hab]

example : forRange 5 2 10 = [] ∧ forRange (-2) 1 10 = [-2, -1, 0] := by decide

end Konst.Props.C09
