import KonstVerif.Model.Parser
import KonstVerif.Spec.ParserSplit
import KonstVerif.Lemmas.Parser
import KonstVerif.Lemmas.ParserSplit
import KonstVerif.Lemmas.ParserFn
/-
  C14 — Parser operations transform the remainder exactly like the free string functions; the
  split protocols.  Property theorems only (helper lemmas: Lemmas/Parser*.lean).

  `freeFn op s` (Model/Parser.lean) is the free function of `konst::string` (resp. the prefix parser)
  that `op`'s method delegates to, applied to the remainder `s`; what those functions compute is the
  subject of C04 / C05 / C12 (`Props/C04.lean`: find_skip, rfind_skip, split_once, rsplit_once =
  first / last occurrence; `Props/C05.lean`: strip_*, trim* = std; `Props/C12.lean`: prefix parsers).
  The protocols are stated against `Spec/ParserSplit.lean` (`splitSpec` = `str::split`, `rsplitSpec`
  = `str::rsplit`, for a non-empty delimiter).  `Valid` = is a `&str` (valid UTF-8).
-/
namespace Konst.Props.C14
open Konst Konst.Parser Konst.Spec.Utf8 Konst.Spec.ParserSplit
open Konst.Lemmas.Parser Konst.Lemmas.ParserSplit Konst.Lemmas.ParserFn

/-- every operation, every parser, every argument: after a successful step the remainder is what the
    corresponding free function computes from the previous remainder — or, for `split` / `rsplit` /
    `split_keep` only, the free function found nothing and the method handed out the rest once
    (remainder empty, flag set).  `skip`/`skip_back` have no free counterpart (`freeFn = none`). -/
theorem op_remainder_eq_fn (op : Op) (p p' : Parser) (v : Value) (h : step op p = .ok p' v)
    (fr : FnRes) (hfr : freeFn op p.str = some fr) :
    fr = .found p'.remainder ∨
    (fr = .notFound ∧ op.yieldsRest = true ∧ p'.remainder = [] ∧ p'.yieldedLastSplit = true) :=
  step_fn op p p' v h fr hfr

/-- success and failure: on a `&str` remainder with `&str`/`char` patterns
    * strip_prefix, strip_suffix, find_skip, rfind_skip, parse_<int>, parse_bool fail EXACTLY when
      the free function finds nothing;
    * split, rsplit, split_keep fail exactly when the last piece was already handed out;
    * split_terminator, rsplit_terminator fail exactly when the last piece was handed out, the
      remainder is empty, or `split_once`/`rsplit_once` finds no delimiter;
    * the trims and skips never fail. -/
theorem op_fails_iff_fn_none (op : Op) (p : Parser) (hv : Valid p.str)
    (hpat : ∀ m, op.pattern = some m → Valid m) :
    (∃ e, step op p = .err e) ↔
      (match op with
       | .stripPrefix _ | .stripSuffix _ | .findSkip _ | .rfindSkip _ | .parseInt _ _ | .parseBool =>
         freeFn op p.str = some .notFound
       | .split _ | .rsplit _ | .splitKeep _ => p.yieldedLastSplit = true
       | .splitTerminator _ | .rsplitTerminator _ =>
         p.yieldedLastSplit = true ∨ p.str = [] ∨ freeFn op p.str = some .notFound
       | _ => False) := by
  have hgood := step_good op p hv hpat
  cases op with
  | stripPrefix m =>
    simp only [step, stripPrefix, tryParsing, freeFn, Option.some.injEq]
    cases hx : StrFns.stripPrefix p.str m <;> simp [FnRes.ofOptView]
  | stripSuffix m =>
    simp only [step, stripSuffix, tryParsing, freeFn, Option.some.injEq]
    cases hx : StrFns.stripSuffix p.str m <;> simp [FnRes.ofOptView]
  | findSkip m =>
    simp only [step, findSkip, tryParsing, freeFn, Option.some.injEq]
    cases hx : StrFns.findSkip p.str m <;> simp [FnRes.ofOptView]
  | rfindSkip m =>
    simp only [step, rfindSkip, tryParsing, freeFn, Option.some.injEq]
    cases hx : StrFns.rfindSkip p.str m <;> simp [FnRes.ofOptView]
  | parseInt s b =>
    simp only [step, parseInt, tryParsing, freeFn, Option.some.injEq]
    cases hx : ParseInt.parseIntegerPrefix s b p.str with
    | none => simp
    | some vn =>
      obtain ⟨num, n⟩ := vn
      simp only [strFrom_ok (parseIntegerPrefix_bnd hv hx)]
      simp
  | parseBool =>
    simp only [step, parseBool, tryParsing, freeFn, Option.some.injEq]
    cases hx : ParseInt.parseBoolPrefix p.str with
    | none => simp
    | some vn =>
      obtain ⟨num, n⟩ := vn
      simp only [strFrom_ok (parseBoolPrefix_bnd hv hx)]
      simp
  | split d =>
    have hd := hpat d rfl
    have hc := split_char p d hv hd
    constructor
    · rintro ⟨e, he⟩
      cases hfl : p.yieldedLastSplit with
      | true => rfl
      | false =>
        exfalso
        cases hf : Spec.Bytes.findSpec p.str d with
        | none => have := hc.2.1 hfl hf; rw [step_split, this] at he; cases he
        | some i => obtain ⟨a, ha, _⟩ := hc.2.2 hfl i hf; rw [step_split, ha] at he; cases he
    · intro hfl
      obtain ⟨e, he, _⟩ := hc.1 hfl
      exact ⟨e, he⟩
  | rsplit d =>
    have hd := hpat d rfl
    have hc := rsplit_char p d hv hd
    constructor
    · rintro ⟨e, he⟩
      cases hfl : p.yieldedLastSplit with
      | true => rfl
      | false =>
        exfalso
        cases hf : Spec.Bytes.rfindSpec p.str d with
        | none => have := hc.2.1 hfl hf; rw [step_rsplit, this] at he; cases he
        | some i => obtain ⟨a, ha, _⟩ := hc.2.2 hfl i hf; rw [step_rsplit, ha] at he; cases he
    · intro hfl
      obtain ⟨e, he, _⟩ := hc.1 hfl
      exact ⟨e, he⟩
  | splitKeep d =>
    constructor
    · rintro ⟨e, he⟩
      cases hfl : p.yieldedLastSplit with
      | true => rfl
      | false =>
        exfalso
        simp only [step, splitKeep, tryParsing, hfl, Bool.false_eq_true, if_false] at he hgood
        cases hf : StrFns.find p.str d with
        | none => simp [hf, strFrom_ok (bnd_len p.str)] at he
        | some pos =>
          simp only [hf] at he hgood
          cases hsa : Utf8.splitAt p.str pos with
          | error x => simp [hsa, Good] at hgood
          | ok ab => simp [hsa] at he
    · intro hfl
      obtain ⟨e, he, _⟩ := exhausted_fails (.splitKeep d) p rfl hfl
      exact ⟨e, he⟩
  | splitTerminator d =>
    have hd := hpat d rfl
    have hc := splitTerminator_char p d hv hd
    obtain ⟨r, hr, hnone, _⟩ := splitOnce_cut hv hd
    have hfree : freeFn (.splitTerminator d) p.str = some .notFound ↔ Spec.Bytes.findSpec p.str d = none := by
      simp only [freeFn, hr, Option.some.injEq]
      cases r with
      | none => simp [hnone.mp rfl]
      | some ab =>
        obtain ⟨a, b⟩ := ab
        constructor
        · intro h; cases h
        · intro h; have := hnone.mpr h; cases this
    constructor
    · rintro ⟨e, he⟩
      cases hfl : p.yieldedLastSplit with
      | true => exact Or.inl rfl
      | false =>
        right
        by_cases hemp : p.str = []
        · exact Or.inl hemp
        · right
          rw [hfree]
          cases hf : Spec.Bytes.findSpec p.str d with
          | none => rfl
          | some i =>
            obtain ⟨a, ha, _⟩ := hc.2.2 hfl hemp i hf
            rw [step_splitTerminator, ha] at he; cases he
    · intro h
      cases hfl : p.yieldedLastSplit with
      | true => obtain ⟨e, he, _⟩ := hc.1 hfl; exact ⟨e, he⟩
      | false =>
        rcases h with h | h | h
        · rw [hfl] at h; cases h
        · obtain ⟨e, he, _⟩ := hc.2.1 hfl (Or.inl h); exact ⟨e, he⟩
        · obtain ⟨e, he, _⟩ := hc.2.1 hfl (Or.inr (hfree.mp h)); exact ⟨e, he⟩
  | rsplitTerminator d =>
    have hd := hpat d rfl
    have hc := rsplitTerminator_char p d hv hd
    obtain ⟨r, hr, hnone, _⟩ := rsplitOnce_cut hv hd
    have hfree : freeFn (.rsplitTerminator d) p.str = some .notFound ↔ Spec.Bytes.rfindSpec p.str d = none := by
      simp only [freeFn, hr, Option.some.injEq]
      cases r with
      | none => simp [hnone.mp rfl]
      | some ab =>
        obtain ⟨a, b⟩ := ab
        constructor
        · intro h; cases h
        · intro h; have := hnone.mpr h; cases this
    constructor
    · rintro ⟨e, he⟩
      cases hfl : p.yieldedLastSplit with
      | true => exact Or.inl rfl
      | false =>
        right
        by_cases hemp : p.str = []
        · exact Or.inl hemp
        · right
          rw [hfree]
          cases hf : Spec.Bytes.rfindSpec p.str d with
          | none => rfl
          | some i =>
            obtain ⟨a, ha, _⟩ := hc.2.2 hfl hemp i hf
            rw [step_rsplitTerminator, ha] at he; cases he
    · intro h
      cases hfl : p.yieldedLastSplit with
      | true => obtain ⟨e, he, _⟩ := hc.1 hfl; exact ⟨e, he⟩
      | false =>
        rcases h with h | h | h
        · rw [hfl] at h; cases h
        · obtain ⟨e, he, _⟩ := hc.2.1 hfl (Or.inl h); exact ⟨e, he⟩
        · obtain ⟨e, he, _⟩ := hc.2.1 hfl (Or.inr (hfree.mp h)); exact ⟨e, he⟩
  | trim => simp [step, trim]
  | trimMatches m => simp [step, trimMatches]
  | trimStart => simp [step, trimStart, parsing]
  | trimEnd => simp [step, trimEnd, parsing]
  | trimStartMatches m => simp [step, trimStartMatches, parsing]
  | trimEndMatches m => simp [step, trimEndMatches, parsing]
  | skip n =>
    simp only [iff_false]
    rintro ⟨e, he⟩
    simp only [step, skip] at he
    split at he <;> cases he
  | skipBack n =>
    simp only [iff_false]
    rintro ⟨e, he⟩
    simp only [step, skipBack] at he
    split at he
    · cases he
    · split at he <;> cases he

/-- a failing operation returns an error and NO new parser: the caller is left with the parser the
    method was called on (`Res.next`), and the error is built from that parser alone (its offsets,
    the operation's direction) -/
theorem fail_returns_no_parser (op : Op) (p : Parser) (hv : Valid p.str)
    (hpat : ∀ m, op.pattern = some m → Valid m) (e : ParseError) (h : step op p = .err e) :
    (step op p).next p = some p ∧ (∀ p' v, step op p ≠ .ok p' v) ∧
    e = ParseError.new { p with dir := op.direction } e.kind := by
  have hg := step_good op p hv hpat
  rw [h] at hg
  obtain ⟨h1, h2, h3⟩ := hg
  refine ⟨by rw [h]; rfl, ?_, ?_⟩
  · intro p' v hc; rw [h] at hc; cases hc
  · cases e
    simp only [ParseError.new] at h1 h2 h3 ⊢
    simp [h1, h2, h3]

/-! ### the split protocols (non-empty `&str`/`char` delimiter, any `&str` remainder, flag not set) -/

/-- repeating `split(d)` yields exactly the pieces of `str::split(d)`, then `SplitExhausted` -/
theorem split_protocol (d : List Nat) (hd : Valid d) (hne : d ≠ []) (p : Parser) (hv : Valid p.str)
    (hfl : p.yieldedLastSplit = false) :
    iterate (.split d) (p.str.length + 2) p = (splitSpec d p.str, some .splitExhausted) :=
  split_iterate d hd hne p.str.length p (Nat.le_refl _) hfl hv

/-- repeating `rsplit(d)` yields exactly the pieces of `str::rsplit(d)`, then `SplitExhausted` -/
theorem rsplit_protocol (d : List Nat) (hd : Valid d) (hne : d ≠ []) (p : Parser) (hv : Valid p.str)
    (hfl : p.yieldedLastSplit = false) :
    iterate (.rsplit d) (p.str.length + 2) p = (rsplitSpec d p.str, some .splitExhausted) :=
  rsplit_iterate d hd hne p.str.length p (Nat.le_refl _) hfl hv

/-- repeating `split_terminator(d)` yields each piece of `str::split(d)` that is FOLLOWED by a
    delimiter (all but the last), then fails (`SplitExhausted` or `DelimiterNotFound`) -/
theorem split_terminator_protocol (d : List Nat) (hd : Valid d) (hne : d ≠ []) (p : Parser)
    (hv : Valid p.str) (hfl : p.yieldedLastSplit = false) :
    ∃ k, iterate (.splitTerminator d) (p.str.length + 2) p = (terminated (splitSpec d p.str), some k) ∧
      (k = .splitExhausted ∨ k = .delimiterNotFound) :=
  splitTerminator_iterate d hd hne p.str.length p (Nat.le_refl _) hfl hv

/-- repeating `rsplit_terminator(d)` yields each piece of `str::rsplit(d)` that is PRECEDED by a
    delimiter (all but the last), then fails -/
theorem rsplit_terminator_protocol (d : List Nat) (hd : Valid d) (hne : d ≠ []) (p : Parser)
    (hv : Valid p.str) (hfl : p.yieldedLastSplit = false) :
    ∃ k, iterate (.rsplitTerminator d) (p.str.length + 2) p = (terminated (rsplitSpec d p.str), some k) ∧
      (k = .splitExhausted ∨ k = .delimiterNotFound) :=
  rsplitTerminator_iterate d hd hne p.str.length p (Nat.le_refl _) hfl hv

/-- what any operation between two splits does to the one-shot flag:
    (1) an operation outside the split family never changes it;
    (2) a split-family method sets it only together with an EMPTY remainder;
    (3) once set, all five split-family methods fail with `SplitExhausted` (from their own end);
    so between two splits other operations can only shrink the remainder the next split sees
    (flag clear), or act on an empty remainder (flag set) without ever re-arming the split. -/
theorem flag_interaction (op : Op) (p : Parser) :
    (op.isSplitFamily = false → ∀ p' v, step op p = .ok p' v → p'.yieldedLastSplit = p.yieldedLastSplit) ∧
    (op.isSplitFamily = true → ∀ p' v, step op p = .ok p' v → p'.yieldedLastSplit = true → p'.str = []) ∧
    (op.isSplitFamily = true → p.yieldedLastSplit = true →
      ∃ e, step op p = .err e ∧ e.kind = .splitExhausted ∧ e.dir = op.direction) :=
  ⟨fun hns p' v h => flag_unchanged op p p' v hns h,
   fun hsf p' v h hfl' => splitfam_flag_empty op p p' v hsf h hfl',
   fun hsf hfl => exhausted_fails op p hsf hfl⟩

/-- … over whole histories: in every parser reachable from `Parser::new`/`with_start_offset` on a
    `&str`, a set flag means the remainder is empty; and the flag is never cleared again -/
theorem flag_history (s : List Nat) (hv : Valid s) (base : Nat) (ops : List Op)
    (hpat : ∀ op ∈ ops, ∀ m, op.pattern = some m → Valid m) (q : Parser)
    (hq : final (withStartOffset s base) ops = some q) :
    Valid q.str ∧ (q.yieldedLastSplit = true → q.str = []) := by
  suffices H : ∀ (ops : List Op) (p : Parser), (∀ op ∈ ops, ∀ m, op.pattern = some m → Valid m) →
      Valid p.str → (p.yieldedLastSplit = true → p.str = []) → final p ops = some q →
      Valid q.str ∧ (q.yieldedLastSplit = true → q.str = []) from
    H ops _ hpat hv (by intro h; cases h) hq
  intro ops
  induction ops with
  | nil => intro p _ hpv hpf hfin; cases hfin; exact ⟨hpv, hpf⟩
  | cons op ops ih =>
    intro p hpat hpv hpf hfin
    have hop := hpat op List.mem_cons_self
    have hrest : ∀ o ∈ ops, ∀ m, o.pattern = some m → Valid m := fun o ho => hpat o (List.mem_cons_of_mem _ ho)
    unfold final at hfin
    have hg := step_good op p hpv hop
    cases hstep : step op p with
    | panic => rw [hstep] at hg; exact absurd hg (by simp [Good])
    | err e => rw [hstep] at hfin; exact ih p hrest hpv hpf hfin
    | ok p' v =>
      rw [hstep] at hfin hg
      obtain ⟨⟨a, b, hab, ha, hb, hstart, hstr⟩, _⟩ := hg
      have hv' : Valid p'.str := by
        rw [hstr]
        exact valid_drop (valid_take hpv hb) (bnd_of_take (bnd_le hb) hab ha)
      refine ih p' hrest hv' ?_ hfin
      intro hfl'
      cases hsf : op.isSplitFamily with
      | true => exact splitfam_flag_empty op p p' v hsf hstep hfl'
      | false =>
        have := flag_unchanged op p p' v hsf hstep
        have hp0 := hpf (by rw [← this]; exact hfl')
        have hlen := cut_length_le ⟨a, b, hab, ha, hb, hstart, hstr⟩
        rw [hp0] at hlen
        exact List.eq_nil_of_length_eq_zero (by simpa using hlen)

/-! ### non-vacuity -/

/-- "a,ñ," split at ',' : pieces "a", "ñ", "" then SplitExhausted = `str::split` -/
example : iterate (.split [44]) 7 (Parser.new [97, 44, 0xC3, 0xB1, 44]) =
    ([[97], [0xC3, 0xB1], []], some .splitExhausted) ∧
    splitSpec [44] [97, 44, 0xC3, 0xB1, 44] = [[97], [0xC3, 0xB1], []] := by decide

/-- split_terminator on the same string: "a", "ñ", then SplitExhausted; on "a,ñ": "a" then DelimiterNotFound -/
example : iterate (.splitTerminator [44]) 7 (Parser.new [97, 44, 0xC3, 0xB1, 44]) =
    ([[97], [0xC3, 0xB1]], some .splitExhausted) ∧
    iterate (.splitTerminator [44]) 6 (Parser.new [97, 44, 0xC3, 0xB1]) =
    ([[97]], some .delimiterNotFound) := by decide

example : Valid [97, 44, 0xC3, 0xB1, 44] :=
  ⟨[97, 44, 0xF1, 44], by decide, by decide⟩

end Konst.Props.C14
