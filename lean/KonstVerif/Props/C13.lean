import KonstVerif.Model.Parser
import KonstVerif.Spec.ParserInv
import KonstVerif.Lemmas.Parser
import KonstVerif.Lemmas.ParserPM
/-
  C13 — Parser positions always describe where its remainder sits in the original string.
  Property theorems only (helper lemmas: Lemmas/Parser.lean).

  Setting: the original `&str` has chars `cs` (all scalar values), bytes `encs cs`; the parser was
  created by `Parser::new` (base 0) or `Parser::with_start_offset(_, base)`; pattern arguments are
  `&str`/`char`, i.e. valid UTF-8 byte strings (`Valid`); histories are arbitrary `List Op`
  (every method, every argument, any length); a failing step leaves the caller with the parser it
  called the method on.  `Inv cs base p` (Spec/ParserInv.lean): `base ≤ start_offset`, the remainder
  is the original sliced at `[start_offset - base, end_offset - base)`, both are char boundaries.
  Offsets are `u32` in the code and naturals in the model: `offsets_fit_u32` shows that under
  `base + original.len() < 2^32` no offset the model computes leaves `u32`.
-/
namespace Konst.Props.C13
open Konst Konst.Parser Konst.Spec.Utf8 Konst.Spec.ParserInv Konst.Lemmas.Parser Konst.Lemmas.Utf8

/-- all pattern arguments of a history are `&str`/`char` patterns -/
def PatternsValid (ops : List Op) : Prop := ∀ op ∈ ops, ∀ m, op.pattern = some m → Valid m

/-- `Parser::new(original)` satisfies the invariant with base 0 -/
theorem inv_new (cs : List Nat) : Inv cs 0 (Parser.new (encs cs)) :=
  ⟨Nat.le_refl _, by simp [Parser.new], boundary_zero cs, by simpa [Parser.new] using boundary_len cs⟩

/-- `Parser::with_start_offset(original, base)` satisfies the invariant with that base -/
theorem inv_with_start_offset (cs : List Nat) (base : Nat) :
    Inv cs base (withStartOffset (encs cs) base) :=
  ⟨Nat.le_refl _, by simp [withStartOffset], by simpa [withStartOffset] using boundary_zero cs,
   by simpa [withStartOffset] using boundary_len cs⟩

/-- every operation, every argument, success branch: the returned parser satisfies the invariant -/
theorem inv_step (cs : List Nat) (hs : ∀ c ∈ cs, isScalar c = true) (base : Nat) (p : Parser) (op : Op)
    (hinv : Inv cs base p) (hpat : ∀ m, op.pattern = some m → Valid m)
    (p' : Parser) (v : Value) (hstep : step op p = .ok p' v) : Inv cs base p' := by
  have hg := step_good op p (inv_valid hs hinv) hpat
  rw [hstep] at hg
  exact inv_cut hs hinv hg.1

/-- no operation panics on a parser that satisfies the invariant (the `non_char_boundary_panic` of
    `str_from`/`str_up_to`/`split_at` and the `pos -= 1` underflow of `skip_back` are unreachable) -/
theorem step_no_panic (cs : List Nat) (hs : ∀ c ∈ cs, isScalar c = true) (base : Nat) (p : Parser) (op : Op)
    (hinv : Inv cs base p) (hpat : ∀ m, op.pattern = some m → Valid m) : step op p ≠ .panic := by
  intro hstep
  have hg := step_good op p (inv_valid hs hinv) hpat
  rw [hstep] at hg
  exact hg

/-- the remainder never grows (so the `usize` subtraction `copy.str.len() - self.str.len()` of
    `try_parsing!`/`parsing!` is exact) and the recorded direction is the operation's -/
theorem step_shrinks (cs : List Nat) (hs : ∀ c ∈ cs, isScalar c = true) (base : Nat) (p : Parser) (op : Op)
    (hinv : Inv cs base p) (hpat : ∀ m, op.pattern = some m → Valid m)
    (p' : Parser) (v : Value) (hstep : step op p = .ok p' v) :
    p'.str.length ≤ p.str.length ∧ p.startOffset ≤ p'.startOffset ∧ p'.endOffset ≤ p.endOffset ∧
      p'.dir = op.direction := by
  have hg := step_good op p (inv_valid hs hinv) hpat
  rw [hstep] at hg
  obtain ⟨⟨a, b, hab, ha, hb, hstart, hstr⟩, hdir⟩ := hg
  have hbl := bnd_le hb
  refine ⟨cut_length_le ⟨a, b, hab, ha, hb, hstart, hstr⟩, by omega, ?_, hdir⟩
  unfold Parser.endOffset
  rw [hstart, hstr, List.length_drop, List.length_take]; omega

/-- histories: from `Parser::new` / `with_start_offset`, after ANY list of operations (failing
    steps included) there was no panic and the parser held satisfies the invariant.  Since the
    statement is for every history, it covers every prefix: every reachable parser satisfies `Inv`. -/
theorem inv_history (cs : List Nat) (hs : ∀ c ∈ cs, isScalar c = true) (base : Nat) (ops : List Op)
    (hpat : PatternsValid ops) :
    ∃ q, final (withStartOffset (encs cs) base) ops = some q ∧ Inv cs base q := by
  suffices H : ∀ (ops : List Op) (p : Parser), PatternsValid ops → Inv cs base p →
      ∃ q, final p ops = some q ∧ Inv cs base q from
    H ops _ hpat (inv_with_start_offset cs base)
  intro ops
  induction ops with
  | nil => intro p _ hinv; exact ⟨p, rfl, hinv⟩
  | cons op ops ih =>
    intro p hpat hinv
    have hop : ∀ m, op.pattern = some m → Valid m := hpat op List.mem_cons_self
    have hrest : PatternsValid ops := fun o ho => hpat o (List.mem_cons_of_mem _ ho)
    unfold final
    cases hstep : step op p with
    | ok p' v => exact ih p' hrest (inv_step cs hs base p op hinv hop p' v hstep)
    | err e => exact ih p hrest hinv
    | panic => exact absurd hstep (step_no_panic cs hs base p op hinv hop)

/-- `Parser::new` is `with_start_offset(_, 0)`: the history theorem with base 0 -/
theorem inv_history_new (cs : List Nat) (hs : ∀ c ∈ cs, isScalar c = true) (ops : List Op)
    (hpat : PatternsValid ops) :
    ∃ q, final (Parser.new (encs cs)) ops = some q ∧ Inv cs 0 q :=
  inv_history cs hs 0 ops hpat

/-- every step of such a history is observed without a panic -/
theorem trace_no_panic (cs : List Nat) (hs : ∀ c ∈ cs, isScalar c = true) (base : Nat) (ops : List Op)
    (hpat : PatternsValid ops) : Res.panic ∉ trace (withStartOffset (encs cs) base) ops := by
  suffices H : ∀ (ops : List Op) (p : Parser), PatternsValid ops → Inv cs base p → Res.panic ∉ trace p ops from
    H ops _ hpat (inv_with_start_offset cs base)
  intro ops
  induction ops with
  | nil => intro p _ _; simp [trace]
  | cons op ops ih =>
    intro p hpat hinv
    have hop : ∀ m, op.pattern = some m → Valid m := hpat op List.mem_cons_self
    have hrest : PatternsValid ops := fun o ho => hpat o (List.mem_cons_of_mem _ ho)
    unfold trace
    cases hstep : step op p with
    | ok p' v =>
      simp only [Res.next, List.mem_cons, reduceCtorEq, false_or]
      exact ih p' hrest (inv_step cs hs base p op hinv hop p' v hstep)
    | err e =>
      simp only [Res.next, List.mem_cons, reduceCtorEq, false_or]
      exact ih p hrest hinv
    | panic => exact absurd hstep (step_no_panic cs hs base p op hinv hop)

/-- a failing operation reports the offsets of the parser it was called on, the direction of the
    operation, and `offset()` is the START offset for operations working from the start, the END
    offset for operations working from the end; the two-sided trims never fail -/
theorem error_offset_dir (cs : List Nat) (hs : ∀ c ∈ cs, isScalar c = true) (base : Nat) (p : Parser) (op : Op)
    (hinv : Inv cs base p) (hpat : ∀ m, op.pattern = some m → Valid m)
    (e : ParseError) (hstep : step op p = .err e) :
    e.startOffset = p.startOffset ∧ e.endOffset = p.endOffset ∧ e.errorDirection = op.direction ∧
    (op.direction = .fromStart → e.offset = p.startOffset) ∧
    (op.direction = .fromEnd → e.offset = p.endOffset) ∧
    op.direction ≠ .fromBoth := by
  have hg := step_good op p (inv_valid hs hinv) hpat
  rw [hstep] at hg
  obtain ⟨h1, h2, h3⟩ := hg
  refine ⟨h1, h2, h3, ?_, ?_, ?_⟩
  · intro hd; unfold ParseError.offset; rw [h3, hd]; exact h1
  · intro hd; unfold ParseError.offset; rw [h3, hd]; exact h2
  · intro hd
    cases op <;> simp [Op.direction] at hd
    · simp [step, trim] at hstep
    · simp [step, trimMatches] at hstep

/-- the reported error position lies inside the original: `offset() - base` is a char boundary of
    the original string, namely the start resp. end of the unparsed remainder -/
theorem error_offset_in_original (cs : List Nat) (hs : ∀ c ∈ cs, isScalar c = true) (base : Nat) (p : Parser)
    (op : Op) (hinv : Inv cs base p) (hpat : ∀ m, op.pattern = some m → Valid m)
    (e : ParseError) (hstep : step op p = .err e) :
    base ≤ e.offset ∧ IsBoundary cs (e.offset - base) := by
  obtain ⟨_, _, _, hS, hE, hB⟩ := error_offset_dir cs hs base p op hinv hpat e hstep
  cases hd : op.direction with
  | fromStart => rw [hS hd]; exact ⟨hinv.base_le, hinv.lo⟩
  | fromEnd =>
    rw [hE hd]
    have := hinv.base_le
    refine ⟨by unfold Parser.endOffset; omega, ?_⟩
    have h2 : p.endOffset - base = p.startOffset - base + p.str.length := by unfold Parser.endOffset; omega
    rw [h2]; exact hinv.hi
  | fromBoth => exact absurd hd hB

/-- `Parser::into_error`/`into_other_error` (no operation involved): the error carries the
    parser's offsets and the direction stored by the LAST operation -/
theorem into_error_offset (p : Parser) (kind : ErrorKind) :
    (p.intoError kind).offset = (if p.dir = .fromEnd then p.endOffset else p.startOffset) ∧
    (p.intoError kind).errorDirection = p.dir ∧ p.intoOtherError = p.intoError .other := by
  refine ⟨?_, rfl, rfl⟩
  unfold Parser.intoError ParseError.new ParseError.offset Parser.endOffset
  cases p.dir <;> simp

/-- under the explicit hypothesis `base + original.len() < 2^32` every offset of a parser that
    satisfies the invariant fits `u32` (the code's `start_offset: u32`, `as u32` casts and `+=` never
    wrap, so the `Nat` model and the `u32` code agree) -/
theorem offsets_fit_u32 (cs : List Nat) (base : Nat) (p : Parser) (hinv : Inv cs base p)
    (hfit : base + (encs cs).length < 2 ^ 32) :
    p.startOffset < 2 ^ 32 ∧ p.endOffset < 2 ^ 32 ∧ p.endOffset ≤ base + (encs cs).length := by
  have h1 := boundary_le cs _ hinv.hi
  have h2 := hinv.base_le
  unfold Parser.endOffset
  omega

/-- the small `skip`/`skip_back` model that C18 (`parser_method!`, Model/ParserMethod.lean) uses agrees
    with `Parser::skip` / `Parser::skip_back` of this model: same new start offset, same remainder -/
theorem skip_agrees_parser_method (p : Parser) (n : Nat) (hv : Valid p.str) :
    (∃ p', skip p n = .ok p' .unit ∧ PM.skip ⟨p.startOffset, p.str⟩ n = ⟨p'.startOffset, p'.str⟩) ∧
    (∃ p', skipBack p n = .ok p' .unit ∧ PM.skipBack ⟨p.startOffset, p.str⟩ n = ⟨p'.startOffset, p'.str⟩) :=
  ⟨Lemmas.ParserPM.skip_agrees p n, Lemmas.ParserPM.skipBack_agrees p n hv⟩

/-! ### non-vacuity -/

/-- the hypotheses are satisfiable: "ñ a" with base 7 after `split(' ')` then `strip_suffix('a')` -/
example : final (withStartOffset (encs [0xF1, 32, 97]) 7) [.split [32], .stripSuffix [97]] =
    some ⟨.fromEnd, false, 10, []⟩ := by decide

example : (∀ c ∈ [0xF1, 32, 97], isScalar c = true) := by decide
example : PatternsValid [.split [32], .stripSuffix [97]] := by
  intro op hop m hm
  simp only [List.mem_cons, List.mem_nil_iff, or_false] at hop
  rcases hop with rfl | rfl <;> simp only [Op.pattern, Option.some.injEq] at hm <;> subst hm
  · exact valid_ascii 32 (by decide)
  · exact valid_ascii 97 (by decide)

/-- an error from the END of a parser with a non-zero base: offset = base + end -/
example : step (.stripSuffix [98]) (withStartOffset (encs [0xF1, 32, 97]) 7) =
    .err ⟨7, 11, .fromEnd, .strip⟩ ∧ (ParseError.mk 7 11 .fromEnd .strip).offset = 11 := by decide

end Konst.Props.C13
