import KonstVerif.Lemmas.Cmp
/-
  C16 — Comparison functions and macros agree with std equality and ordering.

  Every theorem is about the definitions of `Model/Cmp.lean` (which the driver executes against the
  real code) and the std reference of `Spec/Cmp.lean`. A model result `some v` means "returned `v`
  without panicking". No theorem bounds a length or a value.

  Groups:   eq_iff            — `eq_*`, `const_eq!`, `const_eq_for!` = `==`
            cmp_eq_lex / std  — `cmp_*`, `const_cmp!`, `const_cmp_for!` = `Ord::cmp`
            cmp_option        — `None` before `Some`
            cmp_equal_iff_eq  — `cmp == Equal` exactly when `eq`
            *_total_order     — total / antisymmetric / transitive: COROLLARIES of the above
                                (the pre-fix length-first comparator satisfies the same laws and
                                still violates the property — `Legacy/Cmp.lean`)
            assertc           — `assertc_eq!` / `assertc_ne!` panic exactly when `==` / `!=` is false
            argument exprs    — evaluated once each, left before right (as found `assertc_*!`: left
                                twice, F10 — `Legacy/Cmp.lean`)
-/
namespace Konst.Props.C16
open Konst.Cmp Konst.Spec.Cmp Konst.Lemmas.Cmp

/-! ## eq_iff -/

/-- `eq_slice_*` / `eq_bytes` never panic and return `left == right` -/
theorem eqSlice_iff (l r : List Int) : eqSlice l r = some (stdEq l r) := eqSlice_spec l r

/-- `eq_str` never panics and returns `left == right` -/
theorem eqStr_iff (l r : List Int) : eqStr l r = some (stdEq l r) := eqStr_spec l r

/-- `const_eq!` on integers / bool / char (`CmpWrapper<$ty>::const_eq`) is `==` -/
theorem eqPrim_iff (a b : Int) : eqPrim a b = stdEq a b := rfl

/-- `eq_nonzero*` is `==` -/
theorem eqNonZero_iff (a b : Int) : eqNonZero a b = stdEq a b := rfl

/-- `eq_ordering` (comparison of the `as i8` casts) is `==` on `Ordering` -/
theorem eqOrdering_iff (a b : Ordering) : eqOrdering a b = stdEq a b := by
  cases a <;> cases b <;> decide

/-- `eq_range_*` is `==` on `Range` -/
theorem eqRange_iff (a b : RangeV) : eqRange a b = stdEq a b := by
  obtain ⟨a1, a2⟩ := a; obtain ⟨b1, b2⟩ := b
  unfold eqRange stdEq
  by_cases h1 : a1 = b1 <;> by_cases h2 : a2 = b2 <;> simp [h1, h2]

/-- what `eq_rangeinc_*` computes for ALL inputs: equality of the bounds -/
theorem eqRangeInc_bounds_only (a b : RangeIncV) :
    eqRangeInc a b = stdEq (a.1, a.2.1) (b.1, b.2.1) := by
  obtain ⟨a1, a2, a3⟩ := a; obtain ⟨b1, b2, b3⟩ := b
  unfold eqRangeInc stdEq
  by_cases h1 : a1 = b1 <;> by_cases h2 : a2 = b2 <;> simp [h1, h2]

/- Full statement (FALSE for the code as it is, see `eqRangeInc_exhausted_differs`):
     ∀ a b : RangeIncV, eqRangeInc a b = stdEq a b
   Proved part: it holds whenever the two `exhausted` flags agree (in particular for all ranges
   written `a..=b` / built with `RangeInclusive::new`, whose flag is `false`). Missing: pairs where
   exactly one range has been iterated to exhaustion — std's derived `==` sees the private flag,
   konst compares `start()`/`end()` only. -/
theorem eqRangeInc_iff_partial (a b : RangeIncV) (h : a.2.2 = b.2.2) :
    eqRangeInc a b = stdEq a b := by
  obtain ⟨a1, a2, a3⟩ := a; obtain ⟨b1, b2, b3⟩ := b
  simp only at h; subst h
  unfold eqRangeInc stdEq
  by_cases h1 : a1 = b1 <;> by_cases h2 : a2 = b2 <;> simp [h1, h2]

/-- exact characterisation of the divergence: konst says equal and std says different precisely
    when the bounds agree and the `exhausted` flags differ (never the other way round) -/
theorem eqRangeInc_exhausted_differs (a b : RangeIncV) :
    eqRangeInc a b ≠ stdEq a b ↔
      (eqRangeInc a b = true ∧ stdEq a b = false ∧ a.1 = b.1 ∧ a.2.1 = b.2.1 ∧ a.2.2 ≠ b.2.2) := by
  obtain ⟨a1, a2, a3⟩ := a; obtain ⟨b1, b2, b3⟩ := b
  unfold eqRangeInc stdEq
  by_cases h1 : a1 = b1 <;> by_cases h2 : a2 = b2 <;> by_cases h3 : a3 = b3 <;> simp [h1, h2, h3]

/-- `eq_option_*`: `==` on `Option`, for any payload comparison that is `==` -/
theorem eqOption_iff {α : Type} [DecidableEq α] (eq : α → α → Option Bool)
    (heq : ∀ a b, eq a b = some (stdEq a b)) (x y : Option α) :
    eqOption eq x y = some (stdEq x y) := by
  cases x <;> cases y <;> simp [eqOption, heq, stdEq]

/-- `const_eq_for!(option; …)` -/
theorem constEqForOption_iff {α : Type} [DecidableEq α] (eq : α → α → Option Bool)
    (heq : ∀ a b, eq a b = some (stdEq a b)) (x y : Option α) :
    constEqForOption eq x y = some (stdEq x y) := by
  cases x <;> cases y <;> simp [constEqForOption, heq, stdEq]

/-- `const_eq_for!(slice; l, r, e)` for an arbitrary (non-panicking) element test `e`: same length
    and `e` holds position-wise -/
theorem constEqForSlice_eq_listEqBy {α : Type} (eq : α → α → Option Bool) (e : α → α → Bool)
    (he : ∀ a b, eq a b = some (e a b)) (l r : List α) :
    constEqForSlice eq l r = some (listEqBy e l r) := constEqForSlice_spec eq e he l r

/-- `const_eq_for!(slice; …)` with an element test that is `==`: `==` on slices -/
theorem constEqForSlice_iff {α : Type} [DecidableEq α] (eq : α → α → Option Bool)
    (heq : ∀ a b, eq a b = some (stdEq a b)) (l r : List α) :
    constEqForSlice eq l r = some (stdEq l r) := by
  rw [constEqForSlice_spec eq stdEq heq, listEqBy_decide stdEq (fun _ _ => rfl)]
  rfl

/-- `const_eq_for!(range; …)` with an element test that is `==` -/
theorem constEqForRange_iff (eq : Int → Int → Bool) (heq : ∀ a b, eq a b = stdEq a b)
    (a b : RangeV) : constEqForRange eq a b = stdEq a b := by
  rw [← eqRange_iff]; simp [constEqForRange, eqRange, heq, stdEq]

/-- `const_eq_for!(range_inclusive; …)`; same restriction as `eqRangeInc_iff_partial`
    (full statement without `h` is false for the same reason) -/
theorem constEqForRangeInc_iff_partial (eq : Int → Int → Bool) (heq : ∀ a b, eq a b = stdEq a b)
    (a b : RangeIncV) (h : a.2.2 = b.2.2) : constEqForRangeInc eq a b = stdEq a b := by
  rw [← eqRangeInc_iff_partial a b h]; simp [constEqForRangeInc, eqRangeInc, heq, stdEq]

/-- `eq_slice_str` is `==` on `&[&str]` (instantiation with `eq_str`) -/
theorem eqSliceStr_iff (l r : List (List Int)) : eqSliceStr l r = some (stdEq l r) :=
  constEqForSlice_iff eqStr eqStr_iff l r

/-- `eq_slice_bytes` is `==` on `&[&[u8]]` (instantiation with `eq_slice_u8`) -/
theorem eqSliceBytes_iff (l r : List (List Int)) : eqSliceBytes l r = some (stdEq l r) :=
  constEqForSlice_iff eqSlice eqSlice_iff l r

/-! ## cmp_eq_lex and the scalar comparisons -/

/-- `cmp_int!` (`cmp_u8` … `cmp_char`) is `Ord::cmp` -/
theorem cmpInt_eq_std (a b : Int) : cmpInt a b = stdCmpScalar a b := by
  unfold cmpInt stdCmpScalar
  by_cases h : a = b
  · simp [h]
  · by_cases hlt : a < b
    · simp [h, hlt, Int.compare_eq_lt.2 hlt]
    · have hgt : a > b := by omega
      simp [h, hlt, Int.compare_eq_gt.2 hgt]

/-- `cmp_nonzero*` is `Ord::cmp` -/
theorem cmpNonZero_eq_std (a b : Int) : cmpNonZero a b = stdCmpScalar a b := cmpInt_eq_std a b

/-- `cmp_ordering` is `Ord::cmp` on `Ordering` (`Less < Equal < Greater`) -/
theorem cmpOrdering_eq_std (a b : Ordering) : cmpOrdering a b = stdCmpOrdering a b := by
  cases a <;> cases b <;> decide

/-- `cmp_slice_*` / `cmp_bytes` never panic and return the lexicographic `Ord::cmp` -/
theorem cmpSlice_eq_lex (l r : List Int) : cmpSlice l r = some (lexCmp stdCmpScalar l r) := by
  obtain ⟨o, h1, h2⟩ := cmpSliceInner_spec l r
  simp [cmpSlice, h1, h2]

/-- `cmp_str` never panics and returns the (byte-wise lexicographic) `Ord::cmp` of `str` -/
theorem cmpStr_eq_lex (l r : List Int) : cmpStr l r = some (lexCmp stdCmpScalar l r) := by
  obtain ⟨o, h1, h2⟩ := cmpStrInner_spec l r
  simp [cmpStr, h1, h2]

/-- `const_cmp_for!(slice; l, r, c)` is the lexicographic order w.r.t. ANY (non-panicking) element
    comparison `c` -/
theorem constCmpForSlice_eq_lex {α : Type} (cmp : α → α → Option Ordering) (c : α → α → Ordering)
    (hc : ∀ a b, cmp a b = some (c a b)) (l r : List α) :
    constCmpForSlice cmp l r = some (lexCmp c l r) := constCmpForSlice_spec cmp c hc l r

/-- `cmp_slice_str`: lexicographic over lexicographically compared strings -/
theorem cmpSliceStr_eq_lex (l r : List (List Int)) :
    cmpSliceStr l r = some (lexCmp (lexCmp stdCmpScalar) l r) :=
  constCmpForSlice_eq_lex cmpStr _ cmpStr_eq_lex l r

/-- `cmp_slice_bytes`: lexicographic over lexicographically compared byte slices -/
theorem cmpSliceBytes_eq_lex (l r : List (List Int)) :
    cmpSliceBytes l r = some (lexCmp (lexCmp stdCmpScalar) l r) :=
  constCmpForSlice_eq_lex cmpSlice _ cmpSlice_eq_lex l r

/-- sanity of the specification itself: `lexCmp … = Less` is exactly Lean core's lexicographic
    `<` on lists (`List.Lex`), so the spec is the textbook order and not an artefact of this file -/
theorem lexCmp_lt_iff_listLt (l r : List Int) : lexCmp stdCmpScalar l r = .lt ↔ l < r := by
  induction l generalizing r with
  | nil => cases r <;> simp [lexCmp]
  | cons a as ih =>
    cases r with
    | nil => simp [lexCmp]
    | cons b bs =>
      simp only [lexCmp, then_eq_lt, ih bs, List.cons_lt_cons_iff]
      unfold stdCmpScalar
      rw [Int.compare_eq_lt, Int.compare_eq_eq]

/-! ## cmp_option -/

/-- `cmp_option_*`: `None` before `Some`, payloads by the payload comparison -/
theorem cmpOption_eq_std {α : Type} (cmp : α → α → Option Ordering) (c : α → α → Ordering)
    (hc : ∀ a b, cmp a b = some (c a b)) (x y : Option α) :
    cmpOption cmp x y = some (optCmp c x y) := by
  cases x <;> cases y <;> simp [cmpOption, optCmp, hc]

/-- `const_cmp_for!(option; …)` -/
theorem constCmpForOption_eq_std {α : Type} (cmp : α → α → Option Ordering) (c : α → α → Ordering)
    (hc : ∀ a b, cmp a b = some (c a b)) (x y : Option α) :
    constCmpForOption cmp x y = some (optCmp c x y) := by
  cases x <;> cases y <;> simp [constCmpForOption, optCmp, hc]

/-! ## cmp_equal_iff_eq -/

/-- generic form: whenever a comparison computes a std total order and an equality test computes
    `==`, `cmp == Equal` exactly when `eq` -/
theorem cmp_equal_iff_eq {α : Type} [DecidableEq α] (c : α → α → Ordering) (hord : IsTotalOrder c)
    (cmp : α → α → Option Ordering) (eq : α → α → Option Bool)
    (hcmp : ∀ a b, cmp a b = some (c a b)) (heq : ∀ a b, eq a b = some (stdEq a b)) (a b : α) :
    cmp a b = some .eq ↔ eq a b = some true := by
  rw [hcmp, heq]
  simp [stdEq, hord.eq_iff]

theorem cmpSlice_equal_iff_eq (l r : List Int) : cmpSlice l r = some .eq ↔ eqSlice l r = some true :=
  cmp_equal_iff_eq _ (lex_isTotalOrder int_isTotalOrder) _ _ cmpSlice_eq_lex eqSlice_iff l r

theorem cmpStr_equal_iff_eq (l r : List Int) : cmpStr l r = some .eq ↔ eqStr l r = some true :=
  cmp_equal_iff_eq _ (lex_isTotalOrder int_isTotalOrder) _ _ cmpStr_eq_lex eqStr_iff l r

theorem cmpSliceStr_equal_iff_eq (l r : List (List Int)) :
    cmpSliceStr l r = some .eq ↔ eqSliceStr l r = some true :=
  cmp_equal_iff_eq _ (lex_isTotalOrder (lex_isTotalOrder int_isTotalOrder)) _ _
    cmpSliceStr_eq_lex eqSliceStr_iff l r

theorem cmpSliceBytes_equal_iff_eq (l r : List (List Int)) :
    cmpSliceBytes l r = some .eq ↔ eqSliceBytes l r = some true :=
  cmp_equal_iff_eq _ (lex_isTotalOrder (lex_isTotalOrder int_isTotalOrder)) _ _
    cmpSliceBytes_eq_lex eqSliceBytes_iff l r

theorem cmpInt_equal_iff_eq (a b : Int) : cmpInt a b = .eq ↔ eqPrim a b = true := by
  rw [cmpInt_eq_std, int_isTotalOrder.eq_iff]; simp [eqPrim]

theorem cmpNonZero_equal_iff_eq (a b : Int) : cmpNonZero a b = .eq ↔ eqNonZero a b = true :=
  cmpInt_equal_iff_eq a b

theorem cmpOrdering_equal_iff_eq (a b : Ordering) : cmpOrdering a b = .eq ↔ eqOrdering a b = true := by
  cases a <;> cases b <;> decide

/-- `Option` versions, for any payload whose `cmp`/`eq` are std's -/
theorem cmpOption_equal_iff_eq {α : Type} [DecidableEq α] (c : α → α → Ordering) (hord : IsTotalOrder c)
    (cmp : α → α → Option Ordering) (eq : α → α → Option Bool)
    (hcmp : ∀ a b, cmp a b = some (c a b)) (heq : ∀ a b, eq a b = some (stdEq a b))
    (x y : Option α) : cmpOption cmp x y = some .eq ↔ eqOption eq x y = some true :=
  cmp_equal_iff_eq _ (opt_isTotalOrder hord) _ _ (cmpOption_eq_std cmp c hcmp) (eqOption_iff eq heq) x y

/-! ## order laws — corollaries of `cmp_eq_lex` / `cmp_option` (never stand-alone obligations) -/

/-- packaged statement: the function never panics and its value is a total order
    (`Equal` iff equal, antisymmetric/total via `swap`, transitive) -/
def ComputesTotalOrder {α : Type} (cmp : α → α → Option Ordering) : Prop :=
  ∃ c, (∀ a b, cmp a b = some (c a b)) ∧ IsTotalOrder c

theorem cmpInt_total_order : IsTotalOrder cmpInt := by
  have : cmpInt = stdCmpScalar := by funext a b; exact cmpInt_eq_std a b
  rw [this]; exact int_isTotalOrder

theorem cmpOrdering_total_order : IsTotalOrder cmpOrdering := by
  have : cmpOrdering = stdCmpOrdering := by funext a b; exact cmpOrdering_eq_std a b
  rw [this]; exact ordering_isTotalOrder

theorem cmpSlice_total_order : ComputesTotalOrder cmpSlice :=
  ⟨_, cmpSlice_eq_lex, lex_isTotalOrder int_isTotalOrder⟩

theorem cmpStr_total_order : ComputesTotalOrder cmpStr :=
  ⟨_, cmpStr_eq_lex, lex_isTotalOrder int_isTotalOrder⟩

theorem cmpSliceStr_total_order : ComputesTotalOrder cmpSliceStr :=
  ⟨_, cmpSliceStr_eq_lex, lex_isTotalOrder (lex_isTotalOrder int_isTotalOrder)⟩

theorem cmpSliceBytes_total_order : ComputesTotalOrder cmpSliceBytes :=
  ⟨_, cmpSliceBytes_eq_lex, lex_isTotalOrder (lex_isTotalOrder int_isTotalOrder)⟩

/-- `const_cmp_for!(slice; …)` with an element comparison that computes a total order -/
theorem constCmpForSlice_total_order {α : Type} (cmp : α → α → Option Ordering)
    (h : ComputesTotalOrder cmp) : ComputesTotalOrder (constCmpForSlice cmp) := by
  obtain ⟨c, hc, hord⟩ := h
  exact ⟨_, constCmpForSlice_eq_lex cmp c hc, lex_isTotalOrder hord⟩

/-- `cmp_option_*` / `const_cmp_for!(option; …)` over a payload comparison that computes a total order -/
theorem cmpOption_total_order {α : Type} (cmp : α → α → Option Ordering)
    (h : ComputesTotalOrder cmp) : ComputesTotalOrder (cmpOption cmp) := by
  obtain ⟨c, hc, hord⟩ := h
  exact ⟨_, cmpOption_eq_std cmp c hc, opt_isTotalOrder hord⟩

/-- the three laws spelled out for anything that `ComputesTotalOrder` -/
theorem total_order_laws {α : Type} (cmp : α → α → Option Ordering) (h : ComputesTotalOrder cmp) :
    -- total (trichotomy)
    (∀ a b, cmp a b = some .lt ∨ a = b ∨ cmp b a = some .lt) ∧
    -- antisymmetric
    (∀ a b o, cmp a b = some o → cmp b a = some o.swap) ∧
    -- transitive
    (∀ a b c, cmp a b = some .lt → cmp b c = some .lt → cmp a c = some .lt) ∧
    -- Equal exactly on equal values
    (∀ a b, cmp a b = some .eq ↔ a = b) := by
  obtain ⟨c, hc, hord⟩ := h
  refine ⟨?_, ?_, ?_, ?_⟩
  · intro a b; simp only [hc, Option.some.injEq]; exact hord.total a b
  · intro a b o; simp only [hc, Option.some.injEq]; intro h; rw [← h]; exact hord.swap a b
  · intro x y z; simp only [hc, Option.some.injEq]; exact hord.trans_lt x y z
  · intro a b; simp only [hc, Option.some.injEq]; exact hord.eq_iff a b

/-- e.g. for `cmp_slice_*`: total, antisymmetric, transitive -/
theorem cmpSlice_laws :
    (∀ a b, cmpSlice a b = some .lt ∨ a = b ∨ cmpSlice b a = some .lt) ∧
    (∀ a b o, cmpSlice a b = some o → cmpSlice b a = some o.swap) ∧
    (∀ a b c, cmpSlice a b = some .lt → cmpSlice b c = some .lt → cmpSlice a c = some .lt) ∧
    (∀ a b, cmpSlice a b = some .eq ↔ a = b) :=
  total_order_laws cmpSlice cmpSlice_total_order

/-! ## assertc_eq! / assertc_ne! -/

/-- `assertc_eq!(l, r)` panics exactly when `l == r` is false (given a `const_eq` that is `==`) -/
theorem assertcEq_panics_iff {α : Type} [DecidableEq α] (e : Option Bool) (a b : α)
    (he : e = some (stdEq a b)) : assertcEq e = .panic ↔ a ≠ b := by
  subst he
  by_cases h : a = b <;> simp [assertcEq, cmpAssertInner, stdEq, h]

/-- `assertc_ne!(l, r)` panics exactly when `l != r` is false -/
theorem assertcNe_panics_iff {α : Type} [DecidableEq α] (e : Option Bool) (a b : α)
    (he : e = some (stdEq a b)) : assertcNe e = .panic ↔ a = b := by
  subst he
  by_cases h : a = b <;> simp [assertcNe, cmpAssertInner, stdEq, h]

/-! ## argument expressions of the macros: evaluated once each, left before right -/

/-- the value of the first evaluation of an argument expression -/
theorem ArgExpr.eval_zero {α : Type} (e : ArgExpr α) : e.eval 0 = e.first := by
  simp [ArgExpr.eval]

/-- what std's `==` / `Ord::cmp` / `assert_eq!` do with their operand expressions, and what
    `ArgUse.once` says: `$left` then `$right`, one evaluation each, and the comparison is applied
    to the values those two evaluations produced -/
theorem once_is_std {α : Type} (l r : ArgExpr α) :
    ArgUse.once.evals = [.left, .right] ∧ ArgUse.once.count .left = 1 ∧ ArgUse.once.count .right = 1 ∧
      ArgUse.once.operands l r = (l.first, r.first) := by
  refine ⟨rfl, by decide, by decide, ?_⟩
  simp [ArgUse.operands, ArgUse.once, ArgExpr.eval_zero]

/-- `const_eq!`, `const_cmp!`, every arm of `const_eq_for!` and of `const_cmp_for!`, and (since
    e16d62f) `assertc_eq!` / `assertc_ne!` evaluate each argument expression exactly once, left
    before right (they bind both with one `match` and only use the bound names afterwards) -/
theorem macro_args_once :
    constEqArgs = .once ∧ constCmpArgs = .once ∧ constEqForArgs = .once ∧ constCmpForArgs = .once ∧
      cmpAssertArgs = .once :=
  ⟨rfl, rfl, rfl, rfl, rfl⟩

/-- `assertc_eq!` / `assertc_ne!` hand to the comparison exactly the two values `assert_eq!` /
    `assert_ne!` compare, for ANY argument expressions (as found this needed the left expression
    to be idempotent: `Konst.Legacy.Cmp.legacyCmpAssertArgs_left_twice`, F10) -/
theorem cmpAssertArgs_operands {α : Type} (l r : ArgExpr α) :
    cmpAssertArgs.operands l r = (l.first, r.first) ∧
      cmpAssertArgs.count .left = 1 ∧ cmpAssertArgs.count .right = 1 :=
  ⟨(once_is_std l r).2.2.2, by decide, by decide⟩

/-! ## non-vacuity: the hypotheses used above are met by the instantiations, and sample values -/
-- a non-idempotent left operand: `assertc_eq!(next(), 0)` with `next()` yielding 0, then 1 compares 0 with 0
example : cmpAssertArgs.operands (⟨0, [1]⟩ : ArgExpr Int) ⟨0, []⟩ = (0, 0) := by decide
example : (⟨0, [1]⟩ : ArgExpr Int).eval 1 ≠ (⟨0, [1]⟩ : ArgExpr Int).first := by decide

example : ∀ a b : List Int, eqSlice a b = some (stdEq a b) := eqSlice_iff
example : ∀ a b : Int, (fun x y => some (cmpInt x y)) a b = some (stdCmpScalar a b) :=
  fun a b => by simp [cmpInt_eq_std]
example : ComputesTotalOrder (fun a b : Int => some (cmpInt a b)) :=
  ⟨cmpInt, fun _ _ => rfl, cmpInt_total_order⟩
example : ComputesTotalOrder (cmpOption cmpSlice) := cmpOption_total_order _ cmpSlice_total_order
example : IsTotalOrder stdCmpScalar := int_isTotalOrder
-- the input on which the pre-fix comparator failed (shorter slice lexicographically greater)
example : cmpSlice [2] [1, 1] = some .gt := by decide +kernel
example : constCmpForSlice (fun a b => some (cmpInt a b)) [2] [1, 1] = some .gt := by decide +kernel
example : cmpSlice [1, 1] [2] = some .lt := by decide +kernel
example : cmpStr [0x61] [0x61, 0x62] = some .lt := by decide +kernel
example : cmpSlice [-1] [0] = some .lt := by decide +kernel
example : eqSlice [0, 1] [0, 1] = some true := by decide +kernel
example : eqSlice [0, 1] [0, 2] = some false := by decide +kernel
example : cmpOption cmpSlice none (some []) = some .lt := by decide +kernel
example : assertcEq (eqSlice [1] [2]) = .panic := by decide +kernel
example : assertcNe (eqSlice [1] [2]) = .ok := by decide +kernel
example : eqRangeInc (0, 0, true) (0, 0, false) = true ∧ stdEq ((0, 0, true) : RangeIncV) (0, 0, false) = false := by
  decide +kernel

end Konst.Props.C16
