import KonstVerif.Model.Guards
/-
  C17 — misused macros are rejected at compile time.

  Layer (a): the decision logic of the token-level guards (Model/Guards.lean), for every method chain /
  branch list of any length.  Layer (b) (`destructure!`): verdict table + `paired_control`.
  That rustc rejects a program is not a Lean statement: the tie between these definitions and what
  rustc does with the macros of /repo is the generated-program correspondence (vlib/progs/c17.py).
-/
namespace Konst.Props.C17
open Konst.Guards

/-! ### helper lemmas (private) -/

private theorem lookupFirst_some_name {n : String} {e : FirstEntry} (h : lookupFirst n = some e) :
    e.name = n := by
  unfold lookupFirst at h
  have := List.find?_some h
  simpa using this

private theorem known_of_lookup {n : String} {e : FirstEntry} (h : lookupFirst n = some e) :
    known n = true := by
  simp [known, h]

private theorem reversing_of_lookup {n : String} {e : FirstEntry} (h : lookupFirst n = some e) :
    reversing n = e.reversing := by
  simp [reversing, h]

private theorem returning_of_lookup {n : String} {e : FirstEntry} (h : lookupFirst n = some e) :
    returning n = e.returns := by
  simp [returning, h]

private theorem reversing_of_none {n : String} (h : lookupFirst n = none) : reversing n = false := by
  simp [reversing, h]

private theorem returning_of_none {n : String} (h : lookupFirst n = none) : returning n = false := by
  simp [returning, h]

private theorem known_of_none {n : String} (h : lookupFirst n = none) :
    known n = statefulList.contains n := by
  simp [known, h]

/-- number of reversing methods of a chain -/
def countRev (chain : List Tok) : Nat := (chain.filter (fun t => reversing t.name)).length

/-- number of methods with a `return(..)` clause -/
def countRet (chain : List Tok) : Nat := (chain.filter (fun t => returning t.name)).length

/-- the part of the chain the pre-pass walks: up to the first unsupported name -/
def knownPrefix (chain : List Tok) : List Tok := chain.takeWhile (fun t => known t.name)

private def headBit : Head → Nat
  | Head.next => 0
  | Head.nextBack => 1

private theorem prepass_twoRev (h : Head) (chain : List Tok) :
    Reason.twoRev ∈ (prepass h chain).1 ↔ 2 ≤ headBit h + countRev (knownPrefix chain) := by
  induction chain generalizing h with
  | nil => cases h <;> simp [prepass, countRev, knownPrefix, headBit]
  | cons t rest ih =>
    unfold prepass
    cases hl : lookupFirst t.name with
    | some e =>
      have hk := known_of_lookup hl
      have hr := reversing_of_lookup hl
      simp only [List.mem_append, knownPrefix, List.takeWhile_cons, hk, if_true, countRev,
        List.filter_cons, hr]
      have ih' := ih (if e.reversing then Head.nextBack else h)
      simp only [knownPrefix, countRev] at ih'
      rw [ih']
      cases h <;> cases e.reversing <;> simp [assertFirstRev, headBit] <;> omega
    | none =>
      have hk := known_of_none hl
      have hr := reversing_of_none hl
      by_cases hs : statefulList.contains t.name = true
      · simp only [hs, if_true, knownPrefix, List.takeWhile_cons, hk, countRev, List.filter_cons, hr]
        have ih' := ih h
        simp only [knownPrefix, countRev] at ih'
        simpa using ih'
      · simp only [hs, knownPrefix, List.takeWhile_cons, hk, countRev]
        cases h <;> simp [headBit]

private theorem prepass_unknown (h : Head) (chain : List Tok) :
    (Reason.unknownMethod ∈ (prepass h chain).1 ↔ ∃ t ∈ chain, known t.name = false) ∧
    ((prepass h chain).2 = none ↔ ∃ t ∈ chain, known t.name = false) := by
  induction chain generalizing h with
  | nil => simp [prepass]
  | cons t rest ih =>
    unfold prepass
    cases hl : lookupFirst t.name with
    | some e =>
      have hk := known_of_lookup hl
      have ih' := ih (if e.reversing then Head.nextBack else h)
      constructor
      · simp only [List.mem_append, List.mem_cons, exists_eq_or_imp, hk]
        rw [ih'.1]
        simp [assertFirstRev]
      · simp only [List.mem_cons, exists_eq_or_imp, hk]
        rw [← ih'.2]
        simp
    | none =>
      have hk := known_of_none hl
      by_cases hs : statefulList.contains t.name = true
      · simp only [hs, if_true, List.mem_cons, exists_eq_or_imp, hk]
        simpa using ih h
      · simp only [hs, List.mem_cons, exists_eq_or_imp, hk]
        simp

private theorem prepass_count (h : Head) (chain : List Tok) (hh : Head) (n : Nat)
    (hp : (prepass h chain).2 = some (hh, n)) : n = countRet chain := by
  induction chain generalizing h hh n with
  | nil => simp [prepass] at hp; simp [countRet, hp.2]
  | cons t rest ih =>
    unfold prepass at hp
    cases hl : lookupFirst t.name with
    | some e =>
      rw [hl] at hp
      simp only at hp
      cases hr : (prepass (if e.reversing then Head.nextBack else h) rest).2 with
      | none => rw [hr] at hp; simp at hp
      | some p =>
        rw [hr] at hp
        obtain ⟨h2, n2⟩ := p
        simp only [Option.map_some, Option.some.injEq, Prod.mk.injEq] at hp
        have := ih _ h2 n2 hr
        simp only [countRet] at this
        simp only [countRet, List.filter_cons, returning_of_lookup hl]
        cases hret : e.returns <;> simp [hret] at hp ⊢ <;> omega
    | none =>
      rw [hl] at hp
      simp only at hp
      by_cases hs : statefulList.contains t.name = true
      · simp only [hs, if_true] at hp
        have := ih _ hh n hp
        simp [countRet, returning_of_none hl] at this ⊢
        exact this
      · have hs' : t.name ∉ statefulList := by simpa using hs
        simp [hs'] at hp

private theorem mem_hasArgsPass {r : Reason} {chain : List Tok} (h : r ∈ hasArgsPass chain) :
    r = Reason.noParens := by
  simp [hasArgsPass] at h
  exact h.2.symm

private theorem mem_callMethods {r : Reason} {m : Mode} {chain : List Tok} (h : r ∈ callMethods m chain) :
    r = Reason.argsGiven ∨ r = Reason.other ∨ r = Reason.notInMacro := by
  induction chain with
  | nil => simp [callMethods] at h
  | cons t rest ih =>
    unfold callMethods at h
    split at h
    · simp only [List.mem_append] at h
      rcases h with h | h
      · simp only [errorOnArgs] at h; split at h <;> simp at h; exact Or.inl h
      · exact ih h
    · split at h
      · simp only [List.mem_append] at h
        rcases h with h | h
        · simp only [needsArgs] at h; split at h <;> simp at h; exact Or.inr (Or.inl h)
        · exact ih h
      · cases m with
        | adapter => simp at h; split at h <;> simp [h]
        | consumer =>
          simp only [consume] at h
          split at h
          · simp at h; simp [h]
          · split at h
            · simp only [errorOnArgs] at h; split at h <;> simp at h; exact Or.inl h
            · split at h
              · simp only [needsArgs] at h; split at h <;> simp at h; exact Or.inr (Or.inl h)
              · simp at h; simp [h]

/-! ### the exact sets of names -/

/-- the 26 method names the iterator DSL has an arm for (first list then stateful list, source order) -/
def supportedNames : List String :=
  ["copied", "filter", "filter_map", "flat_map", "flatten", "map", "take_while", "rev", "rfind", "all", "any",
   "count", "find", "find_map", "rfold", "fold", "for_each", "nth", "next", "position", "rposition",
   "zip", "enumerate", "take", "skip", "skip_while"]

private theorem names_eq : firstList.map (·.name) ++ statefulList = supportedNames := by decide

private theorem lookup_self : ∀ e ∈ firstList, lookupFirst e.name = some e := by decide

private theorem flag_iff (f : FirstEntry → Bool) (n : String) :
    (match lookupFirst n with | some e => f e | none => false) = true ↔
      n ∈ (firstList.filter f).map (·.name) := by
  constructor
  · intro h
    split at h
    · rename_i e he
      unfold lookupFirst at he
      have h1 := List.find?_some he
      have h2 := List.mem_of_find?_eq_some he
      simp only [List.mem_map, List.mem_filter]
      exact ⟨e, ⟨h2, h⟩, by simpa using h1⟩
    · simp at h
  · intro h
    simp only [List.mem_map, List.mem_filter] at h
    obtain ⟨e, ⟨he, hr⟩, hn⟩ := h
    rw [← hn, lookup_self e he]
    exact hr

/-- **supported_names**: a name is dispatched by `__cim_preprocess_methods` iff it is one of the 26 -/
theorem supported_names (n : String) : known n = true ↔ n ∈ supportedNames := by
  rw [← names_eq]
  simp only [known, lookupFirst, Bool.or_eq_true, List.find?_isSome, List.contains_eq_mem,
    decide_eq_true_eq, List.mem_append, List.mem_map, beq_iff_eq]

/-- **reversing_names**: exactly `rev`, `rfind`, `rfold`, `rposition` drive the source from the back -/
theorem reversing_names (n : String) :
    reversing n = true ↔ n ∈ ["rev", "rfind", "rfold", "rposition"] := by
  have h : (firstList.filter (·.reversing)).map (·.name) = ["rev", "rfind", "rfold", "rposition"] := by decide
  rw [← h]
  exact flag_iff (·.reversing) n

/-- exactly the twelve value-producing consumers carry a `return(..)` clause -/
theorem returning_names (n : String) :
    returning n = true ↔ n ∈ ["rfind", "all", "any", "count", "find", "find_map", "rfold", "fold", "nth",
      "next", "position", "rposition"] := by
  have h : (firstList.filter (·.returns)).map (·.name) = ["rfind", "all", "any", "count", "find", "find_map",
      "rfold", "fold", "nth", "next", "position", "rposition"] := by decide
  rw [← h]
  exact flag_iff (·.returns) n

/-! ### iterator DSL guards -/

private theorem mem_prepass {r : Reason} {h : Head} {chain : List Tok} (hr : r ∈ (prepass h chain).1) :
    r = Reason.twoRev ∨ r = Reason.unknownMethod := by
  induction chain generalizing h with
  | nil => simp [prepass] at hr
  | cons t rest ih =>
    unfold prepass at hr
    cases hl : lookupFirst t.name with
    | some e =>
      rw [hl] at hr
      simp only [List.mem_append] at hr
      rcases hr with hr | hr
      · simp only [assertFirstRev] at hr
        split at hr <;> simp at hr
        exact Or.inl hr
      · exact ih hr
    | none =>
      rw [hl] at hr
      simp only at hr
      split at hr
      · exact ih hr
      · simp at hr; exact Or.inr hr

private theorem mem_dsl (x : Reason) (m : Mode) (chain : List Tok) :
    x ∈ dslReasons m chain ↔
      x ∈ hasArgsPass chain ∨ x ∈ (prepass Head.next chain).1 ∨
      ∃ hh n, (prepass Head.next chain).2 = some (hh, n) ∧
        x ∈ (if n > 1 then [Reason.other] else callMethods m chain) := by
  unfold dslReasons
  rcases hp : prepass Head.next chain with ⟨es, r⟩
  cases r with
  | none => simp
  | some p =>
    obtain ⟨hh, n⟩ := p
    simp only [List.append_assoc, List.mem_append, Option.some.injEq, Prod.mk.injEq]
    constructor
    · rintro (h | h | h)
      · exact Or.inl h
      · exact Or.inr (Or.inl h)
      · exact Or.inr (Or.inr ⟨hh, n, ⟨rfl, rfl⟩, h⟩)
    · rintro (h | h | ⟨_, _, ⟨rfl, rfl⟩, h⟩)
      · exact Or.inl h
      · exact Or.inr (Or.inl h)
      · exact Or.inr (Or.inr h)

/-- **rev_guard_iff**: the reversal guard fires iff the chain (up to the first unsupported name, where the
    pre-pass stops) contains at least two reversing methods — any chain length, any macro. -/
theorem rev_guard_iff (m : Mode) (chain : List Tok) :
    Reason.twoRev ∈ dslReasons m chain ↔ 2 ≤ countRev (knownPrefix chain) := by
  rw [mem_dsl]
  constructor
  · rintro (h | h | ⟨hh, n, _, h⟩)
    · exact absurd (mem_hasArgsPass h) (by decide)
    · simpa [headBit] using (prepass_twoRev Head.next chain).1 h
    · split at h
      · simp at h
      · rcases mem_callMethods h with h | h | h <;> exact absurd h (by decide)
  · intro h
    exact Or.inr (Or.inl ((prepass_twoRev Head.next chain).2 (by simpa [headBit] using h)))

/-- for chains of supported methods only: rejected for reversal ⇔ ≥ 2 reversing methods -/
theorem rev_guard_iff_known (m : Mode) (chain : List Tok) (hk : ∀ t ∈ chain, known t.name = true) :
    Reason.twoRev ∈ dslReasons m chain ↔ 2 ≤ countRev chain := by
  rw [rev_guard_iff]
  have : ∀ l : List Tok, (∀ t ∈ l, known t.name = true) → knownPrefix l = l := by
    intro l
    induction l with
    | nil => intro _; rfl
    | cons a l ih =>
      intro h
      simp only [knownPrefix, List.takeWhile_cons, h a (List.mem_cons_self ..), if_true]
      congr 1
      exact ih (fun t ht => h t (List.mem_cons_of_mem _ ht))
  rw [this chain hk]

/-- **unknown_method_iff**: "unsupported iterator method" is reported iff some method name is not one of
    the supported names -/
theorem unknown_method_iff (m : Mode) (chain : List Tok) :
    Reason.unknownMethod ∈ dslReasons m chain ↔ ∃ t ∈ chain, t.name ∉ supportedNames := by
  have hx : (∃ t ∈ chain, t.name ∉ supportedNames) ↔ ∃ t ∈ chain, known t.name = false := by
    constructor <;> rintro ⟨t, ht, h⟩ <;> refine ⟨t, ht, ?_⟩
    · cases hkn : known t.name with
      | false => rfl
      | true => exact absurd ((supported_names _).1 hkn) h
    · intro hm; rw [(supported_names _).2 hm] at h; exact absurd h (by decide)
  rw [hx, mem_dsl]
  constructor
  · rintro (h | h | ⟨hh, n, _, h⟩)
    · exact absurd (mem_hasArgsPass h) (by decide)
    · exact (prepass_unknown Head.next chain).1.1 h
    · split at h
      · simp at h
      · rcases mem_callMethods h with h | h | h <;> exact absurd h (by decide)
  · intro h
    exact Or.inr (Or.inl ((prepass_unknown Head.next chain).1.2 h))

/-- the adapters the method walk passes before it reaches the first non-adapter -/
def adapterPrefix (chain : List Tok) : List Tok := chain.takeWhile (fun t => isAdapter t.name)

/-- what is left when the walk reaches the first non-adapter -/
def afterAdapters (chain : List Tok) : List Tok := chain.dropWhile (fun t => isAdapter t.name)

/-- where `__cim_error_on_args` can fire: an argument-less adapter before the first non-adapter, or — in
    `eval!` — an argument-less consumer that is the single remaining method -/
def ArgsOffence (m : Mode) (chain : List Tok) : Prop :=
  (∃ t ∈ adapterPrefix chain, t.name ∈ arglessAdapters ∧ t.args = Args.given) ∨
  (m = Mode.consumer ∧ ∃ t, afterAdapters chain = [t] ∧ t.name ∈ arglessConsumers ∧ t.args = Args.given)

private theorem callMethods_args (m : Mode) (chain : List Tok) :
    Reason.argsGiven ∈ callMethods m chain ↔ ArgsOffence m chain := by
  induction chain with
  | nil => simp [callMethods, ArgsOffence, adapterPrefix, afterAdapters]
  | cons t rest ih =>
    unfold callMethods
    by_cases h1 : t.name ∈ arglessAdapters
    · have h1c : arglessAdapters.contains t.name = true := by simpa using h1
      have ha : isAdapter t.name = true := by unfold isAdapter; rw [h1c]; rfl
      simp only [h1c, if_true, List.mem_append, ih, ArgsOffence, adapterPrefix, afterAdapters,
        List.takeWhile_cons, List.dropWhile_cons, ha, List.mem_cons, exists_eq_or_imp]
      simp only [errorOnArgs]
      by_cases hg : t.args = Args.given <;> simp [hg, h1]
    · have h1c : arglessAdapters.contains t.name = false := by simpa using h1
      by_cases h2 : t.name ∈ argAdapters
      · have h2c : argAdapters.contains t.name = true := by simpa using h2
        have ha : isAdapter t.name = true := by unfold isAdapter; rw [h2c]; simp
        simp only [h1c, h2c, if_true, ArgsOffence, adapterPrefix, afterAdapters,
          List.takeWhile_cons, List.dropWhile_cons, ha, List.mem_cons, exists_eq_or_imp]
        simp only [needsArgs]
        by_cases hg : t.args = Args.given <;> simp [hg, h1] <;>
          simpa [ArgsOffence, adapterPrefix, afterAdapters] using ih
      · have h2c : argAdapters.contains t.name = false := by simpa using h2
        have ha : isAdapter t.name = false := by unfold isAdapter; rw [h1c, h2c]; rfl
        simp only [h1c, h2c, ArgsOffence, adapterPrefix, afterAdapters, List.takeWhile_cons,
          List.dropWhile_cons, ha]
        cases m with
        | adapter =>
          simp
          split <;> simp
        | consumer =>
          simp only [consume, errorOnArgs, needsArgs]
          by_cases hr : rest = []
          · subst hr
            by_cases hc : t.name ∈ arglessConsumers
            · by_cases hg : t.args = Args.given <;> simp [hc, hg]
            · simp [hc]
              split
              · split <;> simp
              · simp
          · simp [hr]

private theorem prepass_some_iff (chain : List Tok) :
    (∃ hh n, (prepass Head.next chain).2 = some (hh, n)) ↔ ∀ t ∈ chain, known t.name = true := by
  have h := (prepass_unknown Head.next chain).2
  constructor
  · rintro ⟨hh, n, hp⟩ t ht
    cases hk : known t.name with
    | true => rfl
    | false => rw [h.2 ⟨t, ht, hk⟩] at hp; simp at hp
  · intro hall
    cases hp : (prepass Head.next chain).2 with
    | none =>
      obtain ⟨t, ht, hk⟩ := h.1 hp
      rw [hall t ht] at hk; simp at hk
    | some p => exact ⟨p.1, p.2, rfl⟩

/-- **args_guard_iff**: "`f` does not take arguments" is reported iff the pre-pass completes (all names
    supported, at most one `return(..)` method) and the method walk meets an argument-less method that was
    given arguments (`rev`, `enumerate`, `copied`, `flatten` among the adapters it passes; `count`, `next` as the
    final consumer of `eval!`). -/
theorem args_guard_iff (m : Mode) (chain : List Tok) :
    Reason.argsGiven ∈ dslReasons m chain ↔
      (∀ t ∈ chain, known t.name = true) ∧ countRet chain ≤ 1 ∧ ArgsOffence m chain := by
  rw [mem_dsl]
  constructor
  · rintro (h | h | ⟨hh, n, hp, h⟩)
    · exact absurd (mem_hasArgsPass h) (by decide)
    · rcases mem_prepass h with h | h <;> exact absurd h (by decide)
    · have hn := prepass_count _ _ _ _ hp
      refine ⟨(prepass_some_iff chain).1 ⟨hh, n, hp⟩, ?_, ?_⟩
      · split at h
        · simp at h
        · omega
      · split at h
        · simp at h
        · exact (callMethods_args m chain).1 h
  · rintro ⟨hk, hc, ho⟩
    obtain ⟨hh, n, hp⟩ := (prepass_some_iff chain).2 hk
    have hn := prepass_count _ _ _ _ hp
    refine Or.inr (Or.inr ⟨hh, n, hp, ?_⟩)
    have : ¬ n > 1 := by omega
    simp only [this, if_false]
    exact (callMethods_args m chain).2 ho

/-- the shape of a well-formed invocation: adapters, then — in `eval!` only — at most one consumer -/
def WellShaped (m : Mode) (chain : List Tok) : Prop :=
  ∃ ads tail, chain = ads ++ tail ∧ (∀ t ∈ ads, isAdapter t.name = true) ∧
    (tail = [] ∨ (m = Mode.consumer ∧ ∃ c, tail = [c] ∧ (c.name ∈ arglessConsumers ∨ c.name ∈ argConsumers)))

private theorem adapter_facts : ∀ n ∈ arglessAdapters ++ argAdapters, known n = true ∧ returning n = false := by
  decide

private theorem consumer_facts : ∀ n ∈ arglessConsumers ++ argConsumers, known n = true ∧ isAdapter n = false := by
  decide

private theorem isAdapter_mem {n : String} (h : isAdapter n = true) : n ∈ arglessAdapters ++ argAdapters := by
  simpa [isAdapter] using h

private theorem takeWhile_adapters (ads tail : List Tok) (h : ∀ t ∈ ads, isAdapter t.name = true)
    (ht : ∀ t, tail.head? = some t → isAdapter t.name = false) :
    adapterPrefix (ads ++ tail) = ads ∧ afterAdapters (ads ++ tail) = tail := by
  induction ads with
  | nil =>
    cases tail with
    | nil => simp [adapterPrefix, afterAdapters]
    | cons c r => simp [adapterPrefix, afterAdapters, ht c rfl]
  | cons a ads ih =>
    have ha := h a (List.mem_cons_self ..)
    have := ih (fun t ht' => h t (List.mem_cons_of_mem _ ht'))
    simp only [adapterPrefix, afterAdapters] at this
    simp [adapterPrefix, afterAdapters, ha, this.1, this.2]

/-- **args_guard_iff_wellshaped**: on well-formed invocations (adapters, then at most one final consumer in
    `eval!`) "does not take arguments" is reported iff one of `rev`, `enumerate`, `copied`, `flatten`, `count`,
    `next` was given arguments -/
theorem args_guard_iff_wellshaped (m : Mode) (chain : List Tok) (hw : WellShaped m chain) :
    Reason.argsGiven ∈ dslReasons m chain ↔
      ∃ t ∈ chain, (t.name ∈ arglessAdapters ∨ t.name ∈ arglessConsumers) ∧ t.args = Args.given := by
  obtain ⟨ads, tail, rfl, hads, htail⟩ := hw
  have hadk : ∀ t ∈ ads, known t.name = true ∧ returning t.name = false :=
    fun t ht => adapter_facts _ (isAdapter_mem (hads t ht))
  have hretads : countRet ads = 0 := by
    simp only [countRet, List.length_eq_zero_iff, List.filter_eq_nil_iff]
    intro t ht; simp [(hadk t ht).2]
  rw [args_guard_iff]
  rcases htail with rfl | ⟨rfl, c, rfl, hc⟩
  · have hp := takeWhile_adapters ads [] hads (by simp)
    simp only [List.append_nil] at hp ⊢
    constructor
    · rintro ⟨_, _, ho⟩
      rcases ho with ⟨t, ht, h1, h2⟩ | ⟨_, t, h, _⟩
      · rw [hp.1] at ht; exact ⟨t, ht, Or.inl h1, h2⟩
      · rw [hp.2] at h; simp at h
    · rintro ⟨t, ht, h1, h2⟩
      refine ⟨fun t ht => (hadk t ht).1, by omega, Or.inl ⟨t, by rw [hp.1]; exact ht, ?_, h2⟩⟩
      rcases h1 with h1 | h1
      · exact h1
      · have := (consumer_facts _ (List.mem_append_left _ h1)).2
        rw [hads t ht] at this; exact absurd this (by decide)
  · have hcf : known c.name = true ∧ isAdapter c.name = false :=
      consumer_facts _ (by rcases hc with h | h; exact List.mem_append_left _ h; exact List.mem_append_right _ h)
    have hp := takeWhile_adapters ads [c] hads (by intro t ht; simp at ht; subst ht; exact hcf.2)
    have hret : countRet (ads ++ [c]) ≤ 1 := by
      simp only [countRet, List.filter_append, List.length_append] at hretads ⊢
      have : (List.filter (fun t => returning t.name) [c]).length ≤ 1 := by
        simp only [List.filter_cons]; split <;> simp
      omega
    constructor
    · rintro ⟨_, _, ho⟩
      rcases ho with ⟨t, ht, h1, h2⟩ | ⟨_, t, h, h1, h2⟩
      · rw [hp.1] at ht; exact ⟨t, List.mem_append_left _ ht, Or.inl h1, h2⟩
      · rw [hp.2] at h; simp at h; subst h
        exact ⟨c, by simp, Or.inr h1, h2⟩
    · rintro ⟨t, ht, h1, h2⟩
      refine ⟨?_, hret, ?_⟩
      · intro u hu
        rcases List.mem_append.1 hu with hu | hu
        · exact (hadk u hu).1
        · simp at hu; subst hu; exact hcf.1
      · rcases List.mem_append.1 ht with ht | ht
        · left
          refine ⟨t, by rw [hp.1]; exact ht, ?_, h2⟩
          rcases h1 with h1 | h1
          · exact h1
          · have := (consumer_facts _ (List.mem_append_left _ h1)).2
            rw [hads t ht] at this; exact absurd this (by decide)
        · simp at ht; subst ht
          right
          refine ⟨rfl, t, hp.2, ?_, h2⟩
          rcases h1 with h1 | h1
          · have : isAdapter t.name = true := by simp [isAdapter, h1]
            rw [hcf.2] at this; exact absurd this (by decide)
          · exact h1

/-! ### `parser_method!` -/

/-- **default_branch_iff**: the branch normaliser emits no error iff the branch list ends in a `_ => e`
    default, every earlier branch is followed by a comma or ends in a block, and no earlier branch is a
    comma-terminated `_ => e,` (that one would be taken as the default, with branches after it).
    The branches handed to the method macro are then exactly the ones before the default. -/
theorem default_branch_iff (bs : List Branch) :
    (normalise bs).1 = [] ↔
      ∃ pre d, bs = pre ++ [d] ∧ d.isDefault = true ∧
        ∀ b ∈ pre, (b.comma || b.block) = true ∧ (b.isDefault && b.comma) = false := by
  induction bs with
  | nil => simp [normalise]
  | cons b rest ih =>
    unfold normalise
    by_cases h2 : arm2 b rest = true
    · simp only [h2, if_true]
      by_cases hr : rest = []
      · subst hr
        simp only [List.isEmpty_nil, if_true, true_iff]
        refine ⟨[], b, rfl, ?_, by simp⟩
        simpa [arm2] using h2
      · have hne : rest.isEmpty = false := by cases rest <;> simp_all
        simp only [hne, Bool.false_eq_true, if_false, List.cons_ne_nil, false_iff]
        rintro ⟨pre, d, hbs, _, hpre⟩
        cases pre with
        | nil => simp at hbs; exact hr hbs.2
        | cons a pre' =>
          simp only [List.cons_append, List.cons.injEq] at hbs
          have := (hpre a (List.mem_cons_self ..)).2
          rw [← hbs.1] at this
          simp only [arm2, hne, Bool.or_false] at h2
          rw [h2] at this
          exact absurd this (by decide)
    · have h2' : arm2 b rest = false := by simpa using h2
      simp only [h2', Bool.false_eq_true, if_false]
      by_cases hs : (b.comma || b.block) = true
      · simp only [hs, if_true]
        rcases hn : normalise rest with ⟨es, r⟩
        rw [hn] at ih
        simp only [List.append_eq_nil_iff]
        constructor
        · rintro ⟨h1, h3⟩
          have hne : rest.isEmpty = false := by
            cases hre : rest.isEmpty with
            | false => rfl
            | true => rw [hre] at h1; simp at h1
          obtain ⟨pre, d, hbs, hd, hpre⟩ := ih.1 h3
          refine ⟨b :: pre, d, by simp [hbs], hd, ?_⟩
          intro a ha
          rcases List.mem_cons.1 ha with rfl | ha
          · refine ⟨hs, ?_⟩
            simp only [arm2, hne, Bool.or_false] at h2'
            exact h2'
          · exact hpre a ha
        · rintro ⟨pre, d, hbs, hd, hpre⟩
          cases pre with
          | nil =>
            simp only [List.nil_append, List.cons.injEq] at hbs
            obtain ⟨rfl, rfl⟩ := hbs
            simp [arm2, hd] at h2'
          | cons a pre' =>
            simp only [List.cons_append, List.cons.injEq] at hbs
            obtain ⟨rfl, hrest⟩ := hbs
            have hne : rest.isEmpty = false := by rw [hrest]; cases pre' <;> simp
            refine ⟨by simp [hne], ?_⟩
            exact ih.2 ⟨pre', d, hrest, hd, fun x hx => hpre x (List.mem_cons_of_mem _ hx)⟩
      · have hs' : (b.comma || b.block) = false := by simpa using hs
        simp only [hs', Bool.false_eq_true, if_false, List.cons_ne_nil, false_iff]
        rintro ⟨pre, d, hbs, hd, hpre⟩
        cases pre with
        | nil =>
          simp only [List.nil_append, List.cons.injEq] at hbs
          obtain ⟨rfl, rfl⟩ := hbs
          simp [arm2, hd] at h2'
        | cons a pre' =>
          simp only [List.cons_append, List.cons.injEq] at hbs
          have := (hpre a (List.mem_cons_self ..)).1
          rw [← hbs.1, hs'] at this
          exact absurd this (by decide)

/-- when the normaliser accepts, the method macro receives exactly the branches before the default -/
theorem normalise_passes_prefix (pre : List Branch) (d : Branch) (hd : d.isDefault = true)
    (hpre : ∀ b ∈ pre, (b.comma || b.block) = true ∧ (b.isDefault && b.comma) = false) :
    normalise (pre ++ [d]) = ([], some pre) := by
  induction pre with
  | nil => simp [normalise, arm2, hd]
  | cons a pre' ih =>
    have ha := hpre a (List.mem_cons_self ..)
    have ih' := ih (fun x hx => hpre x (List.mem_cons_of_mem _ hx))
    have hne : (pre' ++ [d]).isEmpty = false := by cases pre' <;> simp
    have h2 : arm2 a (pre' ++ [d]) = false := by simp [arm2, hne]; simpa using ha.2
    simp only [List.cons_append, normalise, h2, Bool.false_eq_true, if_false, ha.1, if_true, ih', hne]
    simp

/-- the standard comma-separated syntax: every branch except possibly the last is followed by `,` -/
def commaSeparated : List Branch → Bool
  | [] => true
  | [_] => true
  | b :: rest => b.comma && commaSeparated rest

/-- **after_default_iff** (comma-separated branches): "expected no branches after the first `_ => e`
    branch" is reported iff a branch other than the last is `_ => e` -/
theorem after_default_iff (bs : List Branch) (hc : commaSeparated bs = true) :
    Reason.afterDefault ∈ (normalise bs).1 ↔ ∃ b ∈ bs.dropLast, b.isDefault = true := by
  induction bs with
  | nil => simp [normalise]
  | cons b rest ih =>
    cases rest with
    | nil =>
      unfold normalise
      by_cases hd : b.isDefault = true
      · simp [arm2, hd]
      · simp [arm2, hd, normalise]
        split <;> simp
    | cons c rest' =>
      simp only [commaSeparated, Bool.and_eq_true] at hc
      unfold normalise
      by_cases hd : b.isDefault = true
      · simp [arm2, hd, hc.1]
      · have hd' : b.isDefault = false := by simpa using hd
        simp only [arm2, hd', Bool.false_and, Bool.false_eq_true, if_false, hc.1, Bool.true_or, if_true,
          List.isEmpty_cons, List.nil_append]
        have ih' := ih hc.2
        rcases hn : normalise (c :: rest') with ⟨es, r⟩
        rw [hn] at ih'
        simp only [ih', List.dropLast_cons_cons, List.mem_cons, exists_eq_or_imp, hd', Bool.false_eq_true,
          false_or]

/-- **missing_default_iff** (comma-separated branches): "expected more branches, ending with a `_ => e`
    branch" is reported iff no branch is `_ => e` and the last branch is followed by a comma or is a block
    (a last branch `p => e` without either is refused by rustc's macro matcher instead). -/
theorem missing_default_iff (bs : List Branch) (hc : commaSeparated bs = true) :
    Reason.missingDefault ∈ (normalise bs).1 ↔
      (∀ b ∈ bs, b.isDefault = false) ∧ ∃ l, bs.getLast? = some l ∧ (l.comma || l.block) = true := by
  induction bs with
  | nil => simp [normalise]
  | cons b rest ih =>
    cases rest with
    | nil =>
      unfold normalise
      by_cases hd : b.isDefault = true
      · simp [arm2, hd]
      · have hd' : b.isDefault = false := by simpa using hd
        by_cases hs : (b.comma || b.block) = true
        · simp [arm2, hd', hs, normalise]
          simpa using hs
        · have hs' : (b.comma || b.block) = false := by simpa using hs
          simp [arm2, hd', hs']
          simpa using hs'
    | cons c rest' =>
      simp only [commaSeparated, Bool.and_eq_true] at hc
      unfold normalise
      by_cases hd : b.isDefault = true
      · simp [arm2, hd, hc.1]
      · have hd' : b.isDefault = false := by simpa using hd
        simp only [arm2, hd', Bool.false_and, Bool.false_eq_true, if_false, hc.1, Bool.true_or, if_true,
          List.isEmpty_cons, List.nil_append]
        have ih' := ih hc.2
        rcases hn : normalise (c :: rest') with ⟨es, r⟩
        rw [hn] at ih'
        simp only [ih', List.mem_cons, forall_eq_or_imp, hd', true_and, List.getLast?_cons_cons]

/-- what the proc macro accepts as a pattern -/
theorem literal_kinds (p : Pat) :
    p.literal = true ↔ p ∈ [Pat.str, Pat.rawStr, Pat.concatLits, Pat.stringifyCall] := by
  cases p <;> simp [Pat.literal]

/-- **nonliteral_iff**: for a match-like method whose branch list the normaliser accepts, the literal
    guard of the proc macro fires iff some pattern before the default is not a string literal /
    `concat!` / `stringify!` -/
theorem nonliteral_iff (m : PMethod) (hm : m.matchLike = true) (pre : List Branch) (d : Branch)
    (hd : d.isDefault = true)
    (hpre : ∀ b ∈ pre, (b.comma || b.block) = true ∧ (b.isDefault && b.comma) = false) :
    parserMethodReasons m (PBody.branches (pre ++ [d])) =
      if ∀ b ∈ pre, ∀ p ∈ b.pats, p.literal = true then [] else [Reason.nonLiteral] := by
  have hmu : (m == PMethod.unknown) = false := by cases m <;> simp_all [PMethod.matchLike]
  simp only [parserMethodReasons, hmu, Bool.false_eq_true, if_false, normalise_passes_prefix pre d hd hpre,
    hm, if_true, List.nil_append, litErrs, List.all_flatMap, List.all_eq_true]

/-- patterns-only syntax (`trim_start_matches`, `trim_end_matches`): literal guard on every pattern -/
theorem nonliteral_iff_trim (m : PMethod) (hm : m = .trimStartMatches ∨ m = .trimEndMatches)
    (ps : List Pat) (hps : ps ≠ []) :
    parserMethodReasons m (PBody.pats ps) =
      if ∀ p ∈ ps, p.literal = true then [] else [Reason.nonLiteral] := by
  have he : ps.isEmpty = false := by cases ps <;> simp_all
  rcases hm with rfl | rfl <;>
    simp [parserMethodReasons, PMethod.matchLike, he, litErrs, List.all_eq_true]

/-! ### `destructure!` (layer b: verdict table) -/

/-- **paired_control**: every invalid program of the family has a control — the same shape with the offending
    element removed — that the model accepts -/
theorem paired_control (s : DShape) (emptyPat : Bool) (d : Defect)
    (_ : destructureReasons s emptyPat (some d) ≠ []) : destructureReasons s emptyPat none = [] := rfl

/-- the table read the other way: the only defective programs `destructure!` lets through are an array
    with a `..` rest pattern (supported on purpose) and — because the empty-pattern arms expand to a bare
    `let` — a `Drop` type or a reference matched against an empty pattern -/
theorem accepted_defects (s : DShape) (emptyPat : Bool) (d : Defect) :
    destructureReasons s emptyPat (some d) = [] ↔
      (d = Defect.dotdot ∧ s = DShape.array) ∨
      (emptyPat = true ∧ (d = Defect.dropImpl ∨ d = Defect.refShared ∨ d = Defect.refMut)) := by
  cases s <;> cases emptyPat <;> cases d <;> simp [destructureReasons]

/-! ### non-vacuity / sample evaluations -/

example : render (dslReasons .consumer [⟨"rev", .empty⟩, ⟨"map", .given⟩, ⟨"rev", .empty⟩]) = "reject:tworev" := by decide
example : render (dslReasons .consumer [⟨"rev", .empty⟩, ⟨"map", .given⟩, ⟨"rfold", .given⟩]) = "reject:tworev" := by decide
example : render (dslReasons .consumer [⟨"rev", .empty⟩, ⟨"map", .given⟩, ⟨"fold", .given⟩]) = "accept" := by decide
example : render (dslReasons .adapter [⟨"rev", .given⟩, ⟨"count", .empty⟩]) = "reject:args+notinmacro" := by decide
example : render (dslReasons .consumer [⟨"rev", .given⟩, ⟨"last", .empty⟩]) = "reject:unknown" := by decide
example : render (dslReasons .consumer [⟨"count", .empty⟩, ⟨"map", .given⟩]) = "reject" := by decide
example : WellShaped .consumer [⟨"map", .given⟩, ⟨"count", .given⟩] :=
  ⟨[⟨"map", .given⟩], [⟨"count", .given⟩], rfl, by decide, Or.inr ⟨rfl, _, rfl, Or.inl (by decide)⟩⟩
example : ArgsOffence .consumer [⟨"map", .given⟩, ⟨"count", .given⟩] :=
  Or.inr ⟨rfl, ⟨"count", .given⟩, by decide, by decide, rfl⟩
example : render (parserMethodReasons .stripPrefix (.branches [⟨[.str], false, true⟩])) = "reject:nodefault" := by decide
example : render (parserMethodReasons .stripPrefix (.branches [⟨[.str], false, true⟩, ⟨[.wild], false, false⟩])) = "accept" := by decide
example : render (parserMethodReasons .findSkip (.branches [⟨[.wild], false, true⟩, ⟨[.str], false, false⟩])) = "reject:afterdefault" := by decide
example : render (parserMethodReasons .findSkip (.branches [⟨[.str, .constIdent], false, true⟩, ⟨[.wild], false, false⟩])) = "reject:nonliteral" := by decide
example : commaSeparated [⟨[.str], false, true⟩, ⟨[.wild], false, false⟩] = true := by decide
example : ∃ s e d, destructureReasons s e (some d) ≠ [] := ⟨.braced, false, .dropImpl, by decide⟩

end Konst.Props.C17
