import KonstVerif.Model.OptRes
import KonstVerif.Spec.OptRes
import KonstVerif.Lemmas.OptRes
/-
  C19 — Option/Result, rebind and min/max macros equal their std / `?` counterparts.

  Property theorems only.  Every theorem quantifies over ALL values and ALL closure arguments
  (arbitrary total functions).  Statements about `Ev` computations are made for an arbitrary
  starting value `n` of the call counter: the macro returns the value std returns AND leaves the
  counter at `n + (number of calls std makes)`.
-/
namespace Konst.Props.C19
open Konst Konst.OptRes Konst.Lemmas.OptRes

variable {α β ε φ κ : Type}

/-! ## option:: -/

/-- `option::unwrap!` = `Option::unwrap`: panics exactly on `None` -/
theorem optUnwrap_eq_std (o : Option α) :
    optUnwrap o = match Spec.OptRes.optUnwrap o with | some x => .val x | none => .panic := by
  cases o <;> rfl

/-- eager form: whatever computation `v` yields the fallback, it is run exactly once (the counter
    ends where `v` leaves it) and the result is `Option::unwrap_or` of its value -/
theorem optUnwrapOr_eq_std (o : Option α) (v : Ev α) (n : Nat) :
    optUnwrapOr o v n = (Spec.OptRes.optUnwrapOr o (v n).1, (v n).2) := by
  cases o <;> rfl

/-- `option::unwrap_or_else!` (closure and function forms) = `Option::unwrap_or_else`, incl. calls -/
theorem optUnwrapOrElse_eq_std (o : Option α) (f : Unit → α) (n : Nat) :
    optUnwrapOrElse o f n =
      ((Spec.OptRes.optUnwrapOrElse o f).1, n + (Spec.OptRes.optUnwrapOrElse o f).2) := by
  cases o <;> rfl

theorem optOkOr_eq_std (o : Option α) (v : Ev ε) (n : Nat) :
    optOkOr o v n = (Spec.OptRes.optOkOr o (v n).1, (v n).2) := by
  cases o <;> rfl

theorem optOkOrElse_eq_std (o : Option α) (f : Unit → ε) (n : Nat) :
    optOkOrElse o f n = ((Spec.OptRes.optOkOrElse o f).1, n + (Spec.OptRes.optOkOrElse o f).2) := by
  cases o <;> rfl

theorem optMap_eq_std (o : Option α) (f : α → β) (n : Nat) :
    optMap o f n = ((Spec.OptRes.optMap o f).1, n + (Spec.OptRes.optMap o f).2) := by
  cases o <;> rfl

theorem optAndThen_eq_std (o : Option α) (f : α → Option β) (n : Nat) :
    optAndThen o f n = ((Spec.OptRes.optAndThen o f).1, n + (Spec.OptRes.optAndThen o f).2) := by
  cases o <;> rfl

theorem optOrElse_eq_std (o : Option α) (f : Unit → Option α) (n : Nat) :
    optOrElse o f n = ((Spec.OptRes.optOrElse o f).1, n + (Spec.OptRes.optOrElse o f).2) := by
  cases o <;> rfl

theorem optFlatten_eq_std (o : Option (Option α)) : optFlatten o = Spec.OptRes.optFlatten o := by
  cases o <;> rfl

theorem optFilter_eq_std (o : Option α) (p : α → Bool) (n : Nat) :
    optFilter o p n = ((Spec.OptRes.optFilter o p).1, n + (Spec.OptRes.optFilter o p).2) := by
  cases o with
  | none => rfl
  | some x =>
    simp only [optFilter, Spec.OptRes.optFilter, Option.filter]
    cases h : p x <;> simp [Ev.call, bind, Ev.bind, pure, Ev.pure, h, Spec.OptRes.b2n]

theorem optCopied_eq_std (o : Option α) : optCopied o = Spec.OptRes.optCopied o := by
  cases o <;> rfl

/-- the fallback of the lazy Option macros is evaluated exactly when the value is `None` (once),
    the mapper/predicate exactly when it is `Some` (once) -/
theorem opt_fallback_called_iff (o : Option α) (f : Unit → α) (g : Unit → ε) (h : Unit → Option α)
    (m : α → β) (b : α → Option β) (p : α → Bool) :
    ((optUnwrapOrElse o f).run.2 = if o.isNone then 1 else 0) ∧
    ((optOkOrElse o g).run.2 = if o.isNone then 1 else 0) ∧
    ((optOrElse o h).run.2 = if o.isNone then 1 else 0) ∧
    ((optMap o m).run.2 = if o.isSome then 1 else 0) ∧
    ((optAndThen o b).run.2 = if o.isSome then 1 else 0) ∧
    ((optFilter o p).run.2 = if o.isSome then 1 else 0) := by
  cases o with
  | none => exact ⟨rfl, rfl, rfl, rfl, rfl, rfl⟩
  | some x =>
    refine ⟨rfl, rfl, rfl, rfl, rfl, ?_⟩
    simp only [Ev.run, optFilter_eq_std]
    rfl

/-! ## result:: -/

theorem resUnwrapOr_eq_std (r : Except ε α) (v : Ev α) (n : Nat) :
    resUnwrapOr r v n = (Spec.OptRes.resUnwrapOr r (v n).1, (v n).2) := by
  cases r <;> rfl

theorem resUnwrapOrElse_eq_std (r : Except ε α) (f : ε → α) (n : Nat) :
    resUnwrapOrElse r f n =
      ((Spec.OptRes.resUnwrapOrElse r f).1, n + (Spec.OptRes.resUnwrapOrElse r f).2) := by
  cases r <;> rfl

/-- `unwrap_err_or_else!` has no std counterpart; it does what its documentation says -/
theorem resUnwrapErrOrElse_eq_doc (r : Except ε α) (f : α → ε) (n : Nat) :
    resUnwrapErrOrElse r f n =
      ((Spec.OptRes.resUnwrapErrOrElse r f).1, n + (Spec.OptRes.resUnwrapErrOrElse r f).2) := by
  cases r <;> rfl

theorem resOk_eq_std (r : Except ε α) : resOk r = Spec.OptRes.resOk r := by
  cases r <;> rfl

theorem resErr_eq_std (r : Except ε α) : resErr r = Spec.OptRes.resErr r := by
  cases r <;> rfl

theorem resMap_eq_std (r : Except ε α) (f : α → β) (n : Nat) :
    resMap r f n = ((Spec.OptRes.resMap r f).1, n + (Spec.OptRes.resMap r f).2) := by
  cases r <;> rfl

theorem resMapErr_eq_std (r : Except ε α) (f : ε → φ) (n : Nat) :
    resMapErr r f n = ((Spec.OptRes.resMapErr r f).1, n + (Spec.OptRes.resMapErr r f).2) := by
  cases r <;> rfl

theorem resAndThen_eq_std (r : Except ε α) (f : α → Except ε β) (n : Nat) :
    resAndThen r f n = ((Spec.OptRes.resAndThen r f).1, n + (Spec.OptRes.resAndThen r f).2) := by
  cases r <;> rfl

theorem resOrElse_eq_std (r : Except ε α) (f : ε → Except φ α) (n : Nat) :
    resOrElse r f n = ((Spec.OptRes.resOrElse r f).1, n + (Spec.OptRes.resOrElse r f).2) := by
  cases r <;> rfl

/-- the closure of the Result macros runs exactly when std runs it: on `Err` for
    `unwrap_or_else`/`map_err`/`or_else`, on `Ok` for `map`/`and_then`/`unwrap_err_or_else` -/
theorem res_fallback_called_iff (r : Except ε α) (f : ε → α) (g : ε → φ) (h : ε → Except φ α)
    (m : α → β) (b : α → Except ε β) (u : α → ε) :
    ((resUnwrapOrElse r f).run.2 = if Spec.OptRes.isErr r then 1 else 0) ∧
    ((resMapErr r g).run.2 = if Spec.OptRes.isErr r then 1 else 0) ∧
    ((resOrElse r h).run.2 = if Spec.OptRes.isErr r then 1 else 0) ∧
    ((resMap r m).run.2 = if Spec.OptRes.isOk r then 1 else 0) ∧
    ((resAndThen r b).run.2 = if Spec.OptRes.isOk r then 1 else 0) ∧
    ((resUnwrapErrOrElse r u).run.2 = if Spec.OptRes.isOk r then 1 else 0) := by
  cases r <;> exact ⟨rfl, rfl, rfl, rfl, rfl, rfl⟩

/-! ## try_! / try_opt! behave like `?` -/

/-- `let v = try_!(r); k v` = `let v = r?; k v`, for every rest-of-function `k` -/
theorem try_eq_question (r : Except ε α) (k : α → Except ε β) :
    (try_ r).andThen k = Spec.OptRes.questionRes r k := by
  cases r <;> rfl

/-- `try_!(r, map_err = |e| f e)` = `r.map_err(f)?`, incl. the number of calls of `f` -/
theorem tryMapErr_eq_question (r : Except ε α) (f : ε → φ) (k : α → Except φ β) (n : Nat) :
    (((tryMapErr (β := β) r f n).1).andThen k, (tryMapErr (β := β) r f n).2) =
      ((Spec.OptRes.questionMapErr r f k).1, n + (Spec.OptRes.questionMapErr r f k).2) := by
  cases r <;> rfl

/-- `try_opt!(o)` = `o?` -/
theorem tryOpt_eq_question (o : Option α) (k : α → Option β) :
    (tryOpt o).andThen k = Spec.OptRes.questionOpt o k := by
  cases o <;> rfl

/-! ## try_rebind! / rebind_if_ok!: the tuple walker -/

/-- arity 2..=6: the walker emits, for the `i`-th listed pattern, the assignment `lhs_i = tuple.i`
    (preceded by the type assertion of a typed place), in order, and nothing else -/
theorem rebind_walker_assigns_all (bare : Bool) (pats : List PatKind)
    (h2 : 2 ≤ pats.length) (h6 : pats.length ≤ 6) :
    preprocess ⟨bare, pats⟩ = some (expectedStmts 0 pats) := by
  unfold preprocess
  rw [fields0_eq]
  exact assignTuple_fieldsFrom pats 0 6 (by intro h; simp [h] at h2) h6 (Or.inr h2)

/-- a single pattern is assigned the whole payload (`lhs = tuple`, not `tuple.0`) -/
theorem rebind_walker_single (bare : Bool) (p : PatKind) :
    preprocess ⟨bare, [p]⟩ =
      some ((if p = .typedPlace then [Stmt.assertTy 0] else []) ++ [Stmt.assign ⟨0, p⟩ .whole]) := by
  rfl

/-- no pattern, or more than six: no macro arm matches (compile error) -/
theorem rebind_walker_rejects (bare : Bool) (pats : List PatKind)
    (h : pats = [] ∨ 6 < pats.length) : preprocess ⟨bare, pats⟩ = none := by
  cases h with
  | inl h => subst h; rfl
  | inr h => exact assignTuple_too_many pats fields0 0 (by simpa [fields0] using h)

/-- the statements emitted for `k` patterns against a payload of arity `k` (1 ≤ k ≤ 6) -/
private theorem emitted_eq (ok : Bool) (u : UserPat) (annot : Bool)
    (h1 : 1 ≤ u.pats.length) (h6 : u.pats.length ≤ 6) (hm : ok = true)
    (hty : PatKind.typedPlace ∉ u.pats ∨ annot = true) :
    emitted ok u u.pats.length annot =
      if u.pats.length = 1 then preprocess u else some (expectedStmts 0 u.pats) := by
  obtain ⟨bare, pats⟩ := u
  simp only at h1 h6 hty ⊢
  subst hm
  by_cases hk : pats.length = 1
  · match pats, hk with
    | [p], _ =>
      have ha : p = .typedPlace → annot = true := by
        intro hp
        cases hty with
        | inl h => exact absurd (by simp [hp]) h
        | inr h => exact h
      by_cases hp : p = .typedPlace
      · simp [emitted, rebind_walker_single, hp, stmtOk, ha hp]
      · simp [emitted, rebind_walker_single, hp, stmtOk]
  · have h2 : 2 ≤ pats.length := by omega
    have hok := expectedStmts_ok pats.length annot pats 0 h2 (by omega) hty
    simp [emitted, rebind_walker_assigns_all bare pats h2 h6, hok, hk]

private theorem emitted_some (u : UserPat) :
    ∃ st, (if u.pats.length = 1 then preprocess u else some (expectedStmts 0 u.pats)) = some st := by
  obtain ⟨bare, pats⟩ := u
  by_cases hk : pats.length = 1
  · match pats, hk with
    | [p], _ =>
      exact ⟨(if p = .typedPlace then [Stmt.assertTy 0] else []) ++ [Stmt.assign ⟨0, p⟩ .whole],
        by simp [rebind_walker_single]⟩
  · exact ⟨expectedStmts 0 pats, by simp [hk]⟩

/-- what running the emitted statements on a payload of matching arity writes -/
private theorem exec_emitted (u : UserPat) (vs : List Int)
    (h1 : 1 ≤ u.pats.length) (hlen : vs.length = u.pats.length) :
    (if u.pats.length = 1 then preprocess u else some (expectedStmts 0 u.pats)).bind (exec vs) =
      some (Spec.OptRes.destructure payloadVal Val.scalar (targets u.pats) vs) := by
  obtain ⟨bare, pats⟩ := u
  simp only at h1 hlen ⊢
  by_cases hk : pats.length = 1
  · match pats, hk with
    | [p], _ =>
      by_cases hp : p = .typedPlace <;>
        simp [rebind_walker_single, hp, exec, evalRhs, targets, Spec.OptRes.destructure, List.zipIdx_cons]
  · have h2 : 2 ≤ pats.length := by omega
    have hex := exec_expectedStmts vs pats 0 (by omega) (by omega)
    have hz := zip_targets vs pats 0 (by omega)
    simp only [hk, if_false, Option.bind_some, hex]
    congr 1
    match pats, h2 with
    | p :: q :: rest, _ =>
      simp only [Spec.OptRes.destructure, targets]
      rw [← hz]; simp

/-- `try_rebind!{(p0, .., p_{k-1}) = r}` with `k` = arity of the `Ok` payload (1..=6) does what
    `let (a0, .., a_{k-1}) = r?;` followed by `p_i = a_i` / `let p_i = a_i` / `let _ = a_i` does:
    `Err(e)` returns `Err(e)`; `Ok` assigns component `i` to the `i`-th listed target, for every `i`
    (a single target receives the whole payload) -/
theorem tryRebind_eq_question (u : UserPat) (annot : Bool) (r : Except Int (List Int))
    (h1 : 1 ≤ u.pats.length) (h6 : u.pats.length ≤ 6) (hm : tryRebindMatches u = true)
    (hty : PatKind.typedPlace ∉ u.pats ∨ annot = true)
    (hr : ∀ vs, r = .ok vs → vs.length = u.pats.length) :
    tryRebind u u.pats.length annot r =
      match r with
      | .error e => .ret e
      | .ok vs => .ok (Spec.OptRes.destructure payloadVal Val.scalar (targets u.pats) vs) := by
  unfold tryRebind
  rw [emitted_eq _ u annot h1 h6 hm hty]
  obtain ⟨st, hst⟩ := emitted_some u
  cases r with
  | error e => simp [hst]
  | ok vs =>
    have := exec_emitted u vs h1 (hr vs rfl)
    rw [hst] at this ⊢
    simp only [Option.bind_some] at this
    simp [this]

/-- `rebind_if_ok!{(p0, ..) = r => code}` does what `if let Ok((a0, ..)) = r { <assignments> code }`
    does: `Err` skips, `Ok` assigns every component to its listed target, then `code` runs -/
theorem rebindIfOk_eq_if_let (u : UserPat) (annot : Bool) (r : Except Int (List Int))
    (h1 : 1 ≤ u.pats.length) (h6 : u.pats.length ≤ 6) (hm : rebindIfOkMatches u = true)
    (hty : PatKind.typedPlace ∉ u.pats ∨ annot = true)
    (hr : ∀ vs, r = .ok vs → vs.length = u.pats.length) :
    rebindIfOk u u.pats.length annot r =
      match r with
      | .error _ => .skip
      | .ok vs => .ok (Spec.OptRes.destructure payloadVal Val.scalar (targets u.pats) vs) := by
  unfold rebindIfOk
  rw [emitted_eq _ u annot h1 h6 hm hty]
  obtain ⟨st, hst⟩ := emitted_some u
  cases r with
  | error e => simp [hst]
  | ok vs =>
    have := exec_emitted u vs h1 (hr vs rfl)
    rw [hst] at this ⊢
    simp only [Option.bind_some] at this
    simp [this]

/-- `rebind_assigns_all`, spelled out: for arity `k` in 2..=6 the `i`-th target receives exactly
    the `i`-th component, for every `i < k`; for a single target the whole payload -/
theorem rebind_assigns_all (pats : List PatKind) (vs : List Int)
    (h1 : 1 ≤ pats.length) (hlen : vs.length = pats.length) :
    (∀ p, pats = [p] →
      Spec.OptRes.destructure payloadVal Val.scalar (targets pats) vs = [(⟨0, p⟩, payloadVal vs)]) ∧
    (2 ≤ pats.length →
      Spec.OptRes.destructure payloadVal Val.scalar (targets pats) vs =
        (pats.zipIdx).map fun (p, i) => ((⟨i, p⟩ : Lhs), Val.scalar (vs.getD i 0))) := by
  constructor
  · intro p hp
    subst hp
    simp [Spec.OptRes.destructure, targets, List.zipIdx_cons]
  · intro h2
    have hz := zip_targets vs pats 0 (by omega)
    match pats, h2 with
    | p :: q :: rest, _ =>
      simp only [Spec.OptRes.destructure, targets]
      rw [← hz]; simp

/-- ORDER of the emitted statements: for 1 ≤ k ≤ 6 patterns the walker's assignments come in the
    order of the user's list — the statement for pattern 0 first, then pattern 1, … (type assertions
    of typed places aside).  With `rebind_walker_assigns_all` (statement `i` is `lhs_i = tuple.i`)
    this is "component 0 is assigned first, component k-1 last". -/
theorem rebind_walker_in_order (bare : Bool) (pats : List PatKind)
    (h1 : 1 ≤ pats.length) (h6 : pats.length ≤ 6) :
    (preprocess ⟨bare, pats⟩).map assignOrder = some (List.range pats.length) := by
  by_cases hk : pats.length = 1
  · match pats, hk with
    | [p], _ =>
      rw [rebind_walker_single]
      by_cases hp : p = .typedPlace <;> simp [hp, assignOrder, List.range_succ]
  · rw [rebind_walker_assigns_all bare pats (by omega) h6, Option.map_some,
      assignOrder_expectedStmts, List.range_eq_range']

/-- the same, observed on ANY store with ANY way of resolving place expressions (`write`): when the
    payload is `Ok`, running what `try_rebind!` / `rebind_if_ok!` emit leaves the store exactly as
    the hand-written sequence `p0 = t.0; p1 = t.1; …; p_{k-1} = t.{k-1};` (in this order) does —
    also when a place reads a variable another component assigns (`(i, arr[i])`), when the same
    place is listed several times (the LAST listed component stays), or when a `let` shadows -/
theorem rebind_store_in_order {σ : Type} (write : σ → Lhs → Val → σ) (s : σ)
    (u : UserPat) (annot : Bool) (vs : List Int)
    (h1 : 1 ≤ u.pats.length) (h6 : u.pats.length ≤ 6)
    (hty : PatKind.typedPlace ∉ u.pats ∨ annot = true) (hlen : vs.length = u.pats.length) :
    (tryRebindMatches u = true → ∃ ws, tryRebind u u.pats.length annot (.ok vs) = .ok ws ∧
      runWrites write s ws =
        Spec.OptRes.assignSeq write payloadVal Val.scalar s (targets u.pats) vs) ∧
    (rebindIfOkMatches u = true → ∃ ws, rebindIfOk u u.pats.length annot (.ok vs) = .ok ws ∧
      runWrites write s ws =
        Spec.OptRes.assignSeq write payloadVal Val.scalar s (targets u.pats) vs) := by
  constructor
  · intro hm
    have h := tryRebind_eq_question u annot (.ok vs) h1 h6 hm hty (by intro vs' e; cases e; exact hlen)
    exact ⟨_, h, runWrites_destructure write s (targets u.pats) vs⟩
  · intro hm
    have h := rebindIfOk_eq_if_let u annot (.ok vs) h1 h6 hm hty (by intro vs' e; cases e; exact hlen)
    exact ⟨_, h, runWrites_destructure write s (targets u.pats) vs⟩

/-! ## min!/max!, _by, _by_key -/

/-- `min!`/`min_by!` return what `std::cmp::min`/`min_by` return, for EVERY comparator (lawful or
    not), in particular the first argument on `Equal` -/
theorem minBy_eq_std (cmp : α → α → Ordering) (a b : α) : minBy cmp a b = Spec.OptRes.minBy cmp a b := by
  unfold minBy Spec.OptRes.minBy
  cases cmp a b <;> rfl

/-- `max!`/`max_by!` = `std::cmp::max`/`max_by` (second argument on `Equal`) -/
theorem maxBy_eq_std (cmp : α → α → Ordering) (a b : α) : maxBy cmp a b = Spec.OptRes.maxBy cmp a b := by
  unfold maxBy Spec.OptRes.maxBy
  cases cmp a b <;> rfl

/-- `min_by_key!` = `std::cmp::min_by_key`, for every key function and key comparator -/
theorem minByKey_eq_std (key : α → κ) (cmpK : κ → κ → Ordering) (a b : α) :
    minByKey key cmpK a b = Spec.OptRes.minByKey key cmpK a b := by
  simp only [minByKey, minmaxByKey, Spec.OptRes.minByKey, Spec.OptRes.minBy]
  cases h : cmpK (key a) (key b) <;> simp

/-- `max_by_key!` swaps its arguments and tests for `Less`; that is `std::cmp::max_by_key` when the
    key comparison is antisymmetric (`cmp x y = (cmp y x).swap`, which every `Ord`/`ConstCmp` key
    type satisfies) -/
theorem maxByKey_eq_std (key : α → κ) (cmpK : κ → κ → Ordering) [Std.OrientedCmp cmpK] (a b : α) :
    maxByKey key cmpK a b = Spec.OptRes.maxByKey key cmpK a b := by
  have h : cmpK (key b) (key a) = (cmpK (key a) (key b)).swap := Std.OrientedCmp.eq_swap
  simp only [maxByKey, minmaxByKey, Spec.OptRes.maxByKey, Spec.OptRes.maxBy, h]
  cases h' : cmpK (key a) (key b) <;> simp [Ordering.swap]

/-- ties: `min*` give back the first argument, `max*` the second -/
theorem minmax_ties (cmp : α → α → Ordering) (key : α → κ) (cmpK : κ → κ → Ordering)
    [Std.OrientedCmp cmpK] (a b : α) :
    (cmp a b = .eq → minBy cmp a b = a ∧ maxBy cmp a b = b) ∧
    (cmpK (key a) (key b) = .eq → minByKey key cmpK a b = a ∧ maxByKey key cmpK a b = b) := by
  constructor
  · intro h; simp [minBy, maxBy, h]
  · intro h
    have h' : cmpK (key b) (key a) = .eq := by
      rw [Std.OrientedCmp.eq_swap (cmp := cmpK), h]; rfl
    simp [minByKey, maxByKey, minmaxByKey, h, h']

/-! ## non-vacuity -/

-- the hypotheses of the rebind theorems are satisfiable (arity 3, a place, a `let`, a `_`)
example : tryRebind ⟨false, [.place, .letP, .wild]⟩ 3 false (.ok [10, 20, 30]) =
    .ok [(⟨0, .place⟩, .scalar 10), (⟨1, .letP⟩, .scalar 20), (⟨2, .wild⟩, .scalar 30)] := by decide
example : tryRebind ⟨false, [.place, .letP, .wild]⟩ 3 false (.error 5) = .ret 5 := by decide
example : rebindIfOk ⟨true, [.place]⟩ 4 false (.ok [1, 2, 3, 4]) = .ok [(⟨0, .place⟩, .tuple [1, 2, 3, 4])] := by
  decide
-- six components all arrive
example : (tryRebind ⟨false, [.place, .letP, .typedLet, .wild, .exprPlace, .place]⟩ 6 false
    (.ok [1, 2, 3, 4, 5, 6])) = .ok [(⟨0, .place⟩, .scalar 1), (⟨1, .letP⟩, .scalar 2),
      (⟨2, .typedLet⟩, .scalar 3), (⟨3, .wild⟩, .scalar 4), (⟨4, .exprPlace⟩, .scalar 5),
      (⟨5, .place⟩, .scalar 6)] := by decide
-- order matters: the same place listed twice keeps the LAST component (a store of one cell per
-- pattern kind would not see it; here the store is one cell and every place writes it)
example : (match tryRebind ⟨false, [.place, .place, .place]⟩ 3 false (.ok [1, 2, 3]) with
    | .ok ws => runWrites (fun (_ : Val) _ v => v) (.scalar 0) ws | _ => .scalar 0) = .scalar 3 := by decide
-- seven patterns do not expand; more patterns than components do not type-check
example : tryRebind ⟨false, List.replicate 7 .place⟩ 6 false (.ok [1, 2, 3, 4, 5, 6]) = .reject := by decide
example : rebindIfOk ⟨false, [.place, .place, .place]⟩ 2 false (.ok [1, 2]) = .reject := by decide
-- the key comparator of the driver is oriented
example : Std.OrientedCmp (compare : Int → Int → Ordering) := inferInstance
-- the fallback counter really counts: None calls once, Some not at all
example : (optUnwrapOrElse (none : Option Int) (fun _ => 7)).run = (7, 1) := by decide
example : (optUnwrapOrElse (some 3) (fun _ => 7)).run = (3, 0) := by decide
example : (optUnwrapOr (some 3) (Ev.call (fun _ => (7 : Int)) ())).run = (3, 1) := by decide
-- `maxByKey_eq_std` needs the orientation hypothesis: with an unlawful key comparison that always
-- answers `Less`, `max_by_key!` returns its first argument, `std::cmp::max_by_key` its second
example : maxByKey (fun x : Nat => x) (fun _ _ => Ordering.lt) 1 2 = 1 ∧
    Spec.OptRes.maxByKey (fun x : Nat => x) (fun _ _ => Ordering.lt) 1 2 = 2 := by decide

end Konst.Props.C19
