import KonstVerif.Model.Bytes
import KonstVerif.Model.StrFns
import KonstVerif.Spec.Bytes
import KonstVerif.Lemmas.Bytes
import KonstVerif.Lemmas.SyncMatch
/-
  C04 — Pattern search finds the same first / last occurrence as std.
  Property theorems only (helper lemmas: Lemmas/Bytes.lean).  Every theorem is for ALL byte lists
  `h` (haystack) and `p` (pattern bytes after normalisation), no bound on lengths.
  "`p` occurs in `h` at offset `i`" is `p <+: h.drop i`.
-/
namespace Konst.Props.C04
open Konst Konst.Bytes Konst.Spec.Bytes Konst.Lemmas.Bytes

private theorem occ_iff (h p : List Nat) (i : Nat) : occursAt h p i = true ↔ p <+: h.drop i := by
  unfold occursAt; exact List.isPrefixOf_iff_prefix

private theorem occ_false_iff (h p : List Nat) (i : Nat) : occursAt h p i = false ↔ ¬ p <+: h.drop i := by
  rw [← occ_iff]; simp

private theorem occ_beyond (h p : List Nat) (i : Nat) (hi : h.length ≤ i) :
    occursAt h p i = occursAt h p h.length := by
  unfold occursAt
  rw [List.drop_of_length_le hi, List.drop_of_length_le (Nat.le_refl _)]

/-- forward search = the specification, for every haystack and every pattern (empty included) -/
theorem find_eq_spec (h p : List Nat) : bytesFind h p = findSpec h p := bytesFind_eq_spec h p

/-- … and the specification is "the LOWEST offset at which the pattern occurs":
    `bytesFind h p = some i` exactly when `p` occurs at `i` and at no smaller offset -/
theorem find_least (h p : List Nat) (i : Nat) :
    bytesFind h p = some i ↔ (p <+: h.drop i ∧ i ≤ h.length ∧ ∀ j, j < i → ¬ p <+: h.drop j) := by
  rw [find_eq_spec]
  unfold findSpec
  rw [List.find?_range_eq_some]
  simp only [List.mem_range, Bool.not_eq_eq_eq_not, Bool.not_true, occ_iff, occ_false_iff]
  constructor
  · intro ⟨a, b, c⟩; exact ⟨a, by omega, c⟩
  · intro ⟨a, b, c⟩; exact ⟨a, by omega, c⟩

/-- reverse search = the specification for every non-empty pattern -/
theorem rfind_eq_spec (h p : List Nat) (hp : p ≠ []) : bytesRfind h p = rfindSpec h p :=
  bytesRfind_eq_spec h p hp

/-- … and the specification is "the HIGHEST offset at which the pattern occurs" -/
theorem rfind_greatest (h p : List Nat) (hp : p ≠ []) (i : Nat) :
    bytesRfind h p = some i ↔ (p <+: h.drop i ∧ i ≤ h.length ∧ ∀ j, i < j → ¬ p <+: h.drop j) := by
  rw [rfind_eq_spec h p hp]
  unfold rfindSpec
  rw [revFind_range_some]
  simp only [occ_iff, occ_false_iff]
  constructor
  · intro ⟨a, b, c⟩
    refine ⟨a, by omega, ?_⟩
    intro j hj
    by_cases hjl : j < h.length + 1
    · exact c j hj hjl
    · rw [← occ_false_iff]
      exact occursAt_false_of_short (by have := List.length_pos_iff.mpr hp; omega) hp
  · intro ⟨a, b, c⟩
    exact ⟨a, by omega, fun j hj _ => c j hj⟩

/-- an empty pattern matches at offset 0 in forward search -/
theorem find_empty (h : List Nat) : bytesFind h [] = some 0 := by
  rw [find_least]
  exact ⟨List.nil_prefix, Nat.zero_le _, by intro j hj; omega⟩

/-- absence is reported only (and always) when the pattern does not occur anywhere -/
theorem absent_iff (h p : List Nat) :
    (bytesFind h p = none ↔ ∀ i, ¬ p <+: h.drop i) ∧
    (p ≠ [] → (bytesRfind h p = none ↔ ∀ i, ¬ p <+: h.drop i)) := by
  have beyond : (∀ i, i < h.length + 1 → occursAt h p i = false) → ∀ i, ¬ p <+: h.drop i := by
    intro hall i
    rw [← occ_false_iff]
    by_cases hi : i < h.length + 1
    · exact hall i hi
    · rw [occ_beyond h p i (by omega)]; exact hall _ (by omega)
  constructor
  · rw [find_eq_spec]; unfold findSpec
    rw [List.find?_range_eq_none]
    simp only [Bool.not_eq_eq_eq_not, Bool.not_true]
    exact ⟨beyond, fun hall i _ => (occ_false_iff h p i).mpr (hall i)⟩
  · intro hp
    rw [rfind_eq_spec h p hp]; unfold rfindSpec
    rw [revFind_range_none]
    exact ⟨beyond, fun hall i _ => (occ_false_iff h p i).mpr (hall i)⟩

/-- `contains` / `rcontains` say whether the pattern occurs -/
theorem contains_iff (h p : List Nat) :
    bytesContain h p = containsSpec h p ∧
    (bytesContain h p = true ↔ ∃ i, p <+: h.drop i) ∧
    bytesRcontain h p = (rfindSpec h p).isSome ∧
    (bytesRcontain h p = true ↔ ∃ i, p <+: h.drop i) := by
  have hfwd : bytesContain h p = true ↔ ∃ i, p <+: h.drop i := by
    unfold bytesContain
    constructor
    · intro hs
      obtain ⟨i, hi⟩ := Option.isSome_iff_exists.mp hs
      exact ⟨i, ((find_least h p i).mp hi).1⟩
    · intro ⟨i, hi⟩
      cases hr : bytesFind h p with
      | some k => rfl
      | none => exact absurd hi (((absent_iff h p).1.mp hr) i)
  refine ⟨by unfold bytesContain containsSpec; rw [find_eq_spec], hfwd, ?_, ?_⟩
  · by_cases hp : p = []
    · subst hp
      have : rfindSpec h [] = some h.length := by
        unfold rfindSpec; rw [revFind_range_some]
        exact ⟨occursAt_nil _ _, by omega, by intro j h1 h2; omega⟩
      simp [bytesRcontain, bytesRfind, this]
    · unfold bytesRcontain; rw [rfind_eq_spec h p hp]
  · by_cases hp : p = []
    · subst hp
      simp only [bytesRcontain, bytesRfind, List.isEmpty_nil, if_true, Option.isSome_some, true_iff]
      exact ⟨0, List.nil_prefix⟩
    · unfold bytesRcontain
      constructor
      · intro hs
        obtain ⟨i, hi⟩ := Option.isSome_iff_exists.mp hs
        exact ⟨i, ((rfind_greatest h p hp i).mp hi).1⟩
      · intro ⟨i, hi⟩
        cases hr : bytesRfind h p with
        | some k => rfl
        | none => exact absurd hi ((((absent_iff h p).2 hp).mp hr) i)

private theorem rfindSpec_nil (h : List Nat) : rfindSpec h [] = some h.length := by
  unfold rfindSpec; rw [revFind_range_some]
  exact ⟨occursAt_nil _ _, by omega, by intro j h1 h2; omega⟩

private theorem findSpec_nil (h : List Nat) : findSpec h [] = some 0 := by
  rw [← find_eq_spec]; exact find_empty h

private theorem isEmpty_false {p : List Nat} (hp : p ≠ []) : p.isEmpty = false := by
  cases p <;> simp_all

/-- `find_skip`: the haystack after the first occurrence, `h.drop (i + |p|)` (whole haystack for
    an empty pattern), `None` iff absent; the view lies inside the haystack -/
theorem findSkip_eq (h p : List Nat) :
    (findSkip h p).map (·.apply h) = findSkipSpec h p ∧
    (∀ v, findSkip h p = some v → v.InBounds h.length) := by
  unfold findSkip findSkipSpec
  by_cases hp : p = []
  · subst hp
    simp [findSpec_nil, View.apply, View.InBounds]
  · rw [find_eq_spec]
    simp only [isEmpty_false hp, Bool.false_eq_true, if_false]
    cases findSpec h p with
    | none => simp
    | some i => simp [sliceFrom_apply, sliceFrom_inBounds]

/-- `find_keep`: the haystack from the first occurrence on, `h.drop i` -/
theorem findKeep_eq (h p : List Nat) :
    (findKeep h p).map (·.apply h) = findKeepSpec h p ∧
    (∀ v, findKeep h p = some v → v.InBounds h.length) := by
  unfold findKeep findKeepSpec
  by_cases hp : p = []
  · subst hp
    simp [findSpec_nil, View.apply, View.InBounds]
  · rw [find_eq_spec]
    simp only [isEmpty_false hp, Bool.false_eq_true, if_false]
    cases findSpec h p with
    | none => simp
    | some i => simp [sliceFrom_apply, sliceFrom_inBounds]

/-- `rfind_skip`: the haystack before the last occurrence, `h.take i` -/
theorem rfindSkip_eq (h p : List Nat) :
    (rfindSkip h p).map (·.apply h) = rfindSkipSpec h p ∧
    (∀ v, rfindSkip h p = some v → v.InBounds h.length) := by
  unfold rfindSkip rfindSkipSpec
  by_cases hp : p = []
  · subst hp
    simp [rfindSpec_nil, View.apply, View.InBounds]
  · rw [rfind_eq_spec h p hp]
    simp only [isEmpty_false hp, Bool.false_eq_true, if_false]
    cases rfindSpec h p with
    | none => simp
    | some i => simp [sliceUpTo_apply, sliceUpTo_inBounds]

/-- `rfind_keep`: the haystack up to the end of the last occurrence, `h.take (i + |p|)` -/
theorem rfindKeep_eq (h p : List Nat) :
    (rfindKeep h p).map (·.apply h) = rfindKeepSpec h p ∧
    (∀ v, rfindKeep h p = some v → v.InBounds h.length) := by
  unfold rfindKeep rfindKeepSpec
  by_cases hp : p = []
  · subst hp
    simp [rfindSpec_nil, View.apply, View.InBounds]
  · rw [rfind_eq_spec h p hp]
    simp only [isEmpty_false hp, Bool.false_eq_true, if_false]
    cases rfindSpec h p with
    | none => simp
    | some i => simp [sliceUpTo_apply, sliceUpTo_inBounds]

/-! ### split_once / rsplit_once (str level: may panic in `str_up_to`/`str_from`) -/

open Konst.StrFns in
/-- closed form of a "split at offset `o`" (shared by split_once and rsplit_once) -/
private theorem split_at_offset (h : List Nat) (i n : Nat) :
    (do let a ← strUpTo h i; let b ← strFrom h (i + n); pure (some (a, b)) : Except Unit (Option (View × View)))
      = if isCharBoundaryForgiving h i = true ∧ isCharBoundaryForgiving h (i + n) = true
        then .ok (some (Slice.sliceUpTo h.length i, Slice.sliceFrom h.length (i + n))) else .error () := by
  unfold strUpTo strFrom
  by_cases h1 : isCharBoundaryForgiving h i = true <;>
    by_cases h2 : isCharBoundaryForgiving h (i + n) = true <;>
    simp [h1, h2, bind, Except.bind, pure, Except.pure]

open Konst.StrFns in
private theorem splitOnce_closed (h p : List Nat) :
    splitOnce h p = match findSpec h p with
      | none => .ok none
      | some i =>
        if isCharBoundaryForgiving h i = true ∧ isCharBoundaryForgiving h (i + p.length) = true
        then .ok (some (Slice.sliceUpTo h.length i, Slice.sliceFrom h.length (i + p.length)))
        else .error () := by
  unfold splitOnce
  by_cases hp : p = []
  · subst hp
    have := split_at_offset h 0 0
    simp only [Nat.add_zero] at this
    simp only [List.isEmpty_nil, if_true, findSpec_nil, List.length_nil, Nat.add_zero, ← this]
    unfold StrFns.splitAt
    cases strUpTo h 0 <;> cases strFrom h 0 <;> rfl
  · simp only [isEmpty_false hp, Bool.false_eq_true, if_false, StrFns.find]
    rw [find_eq_spec]
    cases findSpec h p with
    | none => rfl
    | some i => exact split_at_offset h i p.length

open Konst.StrFns in
private theorem rsplitOnce_closed (h p : List Nat) :
    rsplitOnce h p = match rfindSpec h p with
      | none => .ok none
      | some i =>
        if isCharBoundaryForgiving h i = true ∧ isCharBoundaryForgiving h (i + p.length) = true
        then .ok (some (Slice.sliceUpTo h.length i, Slice.sliceFrom h.length (i + p.length)))
        else .error () := by
  unfold rsplitOnce
  by_cases hp : p = []
  · subst hp
    have := split_at_offset h h.length 0
    simp only [Nat.add_zero] at this
    simp only [List.isEmpty_nil, if_true, rfindSpec_nil, List.length_nil, Nat.add_zero, ← this]
    unfold StrFns.splitAt
    cases strUpTo h h.length <;> cases strFrom h h.length <;> rfl
  · simp only [isEmpty_false hp, Bool.false_eq_true, if_false, StrFns.rfind]
    rw [rfind_eq_spec h p hp]
    cases rfindSpec h p with
    | none => rfl
    | some i => exact split_at_offset h i p.length

open Konst.StrFns in
/-- `split_once` (every pattern, empty included): whenever it returns, the two parts are
    `(h.take i, h.drop (i + |p|))` at the FIRST occurrence (`None` iff the pattern is absent), both
    inside `h`; and it panics exactly when an end of the first occurrence is not accepted by the
    char-boundary test of `str_up_to`/`str_from`.
    (That this never happens for a valid UTF-8 haystack and pattern: `splitOnce_valid` below.) -/
theorem splitOnce_eq (h p : List Nat) :
    (∀ r, splitOnce h p = .ok r →
        r.map (fun ab => (ab.1.apply h, ab.2.apply h)) = splitOnceSpec h p ∧
        (∀ ab, r = some ab → ab.1.InBounds h.length ∧ ab.2.InBounds h.length)) ∧
    (splitOnce h p = .error () ↔ ∃ i, findSpec h p = some i ∧
        ¬ (isCharBoundaryForgiving h i = true ∧ isCharBoundaryForgiving h (i + p.length) = true)) := by
  rw [splitOnce_closed]
  unfold splitOnceSpec
  cases findSpec h p with
  | none => simp
  | some i =>
    by_cases hb : isCharBoundaryForgiving h i = true ∧ isCharBoundaryForgiving h (i + p.length) = true
    · simp only [hb, and_self, if_true, Except.ok.injEq, Option.map_some, reduceCtorEq, false_iff]
      refine ⟨?_, (by simp [hb])⟩
      intro r hr; subst hr
      simp [sliceUpTo_apply, sliceFrom_apply, sliceUpTo_inBounds, sliceFrom_inBounds]
    · simp only [hb, if_false, reduceCtorEq, false_imp_iff, implies_true, true_and, true_iff]
      exact ⟨i, by simpa using hb⟩

open Konst.StrFns in
/-- `rsplit_once`: the same at the LAST occurrence -/
theorem rsplitOnce_eq (h p : List Nat) :
    (∀ r, rsplitOnce h p = .ok r →
        r.map (fun ab => (ab.1.apply h, ab.2.apply h)) = rsplitOnceSpec h p ∧
        (∀ ab, r = some ab → ab.1.InBounds h.length ∧ ab.2.InBounds h.length)) ∧
    (rsplitOnce h p = .error () ↔ ∃ i, rfindSpec h p = some i ∧
        ¬ (isCharBoundaryForgiving h i = true ∧ isCharBoundaryForgiving h (i + p.length) = true)) := by
  rw [rsplitOnce_closed]
  unfold rsplitOnceSpec
  cases rfindSpec h p with
  | none => simp
  | some i =>
    by_cases hb : isCharBoundaryForgiving h i = true ∧ isCharBoundaryForgiving h (i + p.length) = true
    · simp only [hb, and_self, if_true, Except.ok.injEq, Option.map_some, reduceCtorEq, false_iff]
      refine ⟨?_, (by simp [hb])⟩
      intro r hr; subst hr
      simp [sliceUpTo_apply, sliceFrom_apply, sliceUpTo_inBounds, sliceFrom_inBounds]
    · simp only [hb, if_false, reduceCtorEq, false_imp_iff, implies_true, true_and, true_iff]
      exact ⟨i, by simpa using hb⟩

open Konst.StrFns Konst.Spec Konst.Lemmas.SyncMatch in
/-- for `&str` arguments (valid UTF-8 haystack and pattern) both ends of the first / last occurrence
    pass the char-boundary test (`match_on_boundaries` instantiated for UTF-8) -/
private theorem ends_on_boundaries (cs ps : List Nat) (i : Nat)
    (hi : findSpec (Utf8.encs cs) (Utf8.encs ps) = some i ∨ rfindSpec (Utf8.encs cs) (Utf8.encs ps) = some i) :
    isCharBoundaryForgiving (Utf8.encs cs) i = true ∧
    isCharBoundaryForgiving (Utf8.encs cs) (i + (Utf8.encs ps).length) = true := by
  by_cases hps : ps = []
  · subst hps
    have he : Utf8.encs [] = [] := rfl
    rw [he] at hi ⊢
    simp only [List.length_nil, Nat.add_zero, and_self]
    rcases hi with hi | hi
    · rw [findSpec_nil] at hi; cases hi
      exact forgiving_of_boundary cs 0 (boundary_zero utf8 cs)
    · rw [rfindSpec_nil] at hi; cases hi
      exact forgiving_of_boundary cs _ (boundary_len utf8 cs)
  · have hne : Utf8.encs ps ≠ [] := by
      obtain ⟨c, t, rfl⟩ : ∃ c t, ps = c :: t := by
        cases ps with
        | nil => exact absurd rfl hps
        | cons a b => exact ⟨a, b, rfl⟩
      have := enc_ne_nil utf8 c
      show encs utf8 (c :: t) ≠ []
      rw [encs_cons]; simp [this]
    have hocc : Utf8.encs ps <+: (Utf8.encs cs).drop i := by
      rcases hi with hi | hi
      · rw [← find_eq_spec] at hi; exact ((find_least _ _ i).mp hi).1
      · rw [← rfind_eq_spec _ _ hne] at hi; exact ((rfind_greatest _ _ hne i).mp hi).1
    have := match_on_boundaries utf8 cs ps hps i hocc
    exact ⟨forgiving_of_boundary cs i this.1, forgiving_of_boundary cs _ this.2⟩

open Konst.StrFns Konst.Spec in
/-- `split_once` / `rsplit_once` on `&str` arguments (valid UTF-8 haystack and pattern, `char`
    patterns included as their encoding) never panic and return std's parts:
    `(h.take i, h.drop (i + |p|))` at the first / last occurrence, `None` iff absent -/
theorem splitOnce_valid (h p : List Nat) (hh : Utf8.Valid h) (hp : Utf8.Valid p) :
    (∃ r, splitOnce h p = .ok r ∧
      r.map (fun ab => (ab.1.apply h, ab.2.apply h)) = splitOnceSpec h p) ∧
    (∃ r, rsplitOnce h p = .ok r ∧
      r.map (fun ab => (ab.1.apply h, ab.2.apply h)) = rsplitOnceSpec h p) := by
  obtain ⟨cs, _, rfl⟩ := hh
  obtain ⟨ps, _, rfl⟩ := hp
  constructor
  · cases hs : splitOnce (Utf8.encs cs) (Utf8.encs ps) with
    | error e =>
      obtain ⟨i, hi, hn⟩ := (splitOnce_eq _ _).2.mp hs
      exact absurd (ends_on_boundaries cs ps i (Or.inl hi)) hn
    | ok r => exact ⟨r, rfl, ((splitOnce_eq _ _).1 r hs).1⟩
  · cases hs : rsplitOnce (Utf8.encs cs) (Utf8.encs ps) with
    | error e =>
      obtain ⟨i, hi, hn⟩ := (rsplitOnce_eq _ _).2.mp hs
      exact absurd (ends_on_boundaries cs ps i (Or.inr hi)) hn
    | ok r => exact ⟨r, rfl, ((rsplitOnce_eq _ _).1 r hs).1⟩

/-- the str-level search functions are the byte functions applied to `as_bytes()` (the theorems
    above therefore speak about `string::find`, `rfind`, `contains`, `rcontains`, `find_skip`, … too) -/
theorem str_wrappers (h p : List Nat) :
    StrFns.find h p = bytesFind h p ∧ StrFns.rfind h p = bytesRfind h p ∧
    StrFns.contains h p = bytesContain h p ∧ StrFns.rcontains h p = (rfindSpec h p).isSome ∧
    StrFns.findSkip h p = findSkip h p ∧ StrFns.findKeep h p = findKeep h p ∧
    StrFns.rfindSkip h p = rfindSkip h p ∧ StrFns.rfindKeep h p = rfindKeep h p := by
  refine ⟨rfl, rfl, rfl, ?_, rfl, rfl, rfl, rfl⟩
  exact (contains_iff h p).2.2.1

-- the hypotheses of `splitOnce_valid` are satisfiable: "añ" with pattern "ñ"
example : Konst.Spec.Utf8.Valid [0x61, 0xC3, 0xB1] ∧ Konst.Spec.Utf8.Valid [0xC3, 0xB1] :=
  ⟨⟨[0x61, 0xF1], by decide, by decide⟩, ⟨[0xF1], by decide, by decide⟩⟩
example : StrFns.splitOnce [0x61, 0xC3, 0xB1] [0xC3, 0xB1] = .ok (some (⟨0, 1⟩, ⟨3, 0⟩)) := by rfl

-- non-vacuity / sanity: concrete values of model and spec (kernel-evaluated)
example : bytesFind [97, 97, 97, 98] [97, 97, 98] = some 1 := by decide
example : findSpec [97, 97, 97, 98] [97, 97, 98] = some 1 := by decide
example : bytesRfind [97, 98, 98, 98] [97, 98, 98] = some 0 := by decide
example : bytesRfind [97, 98, 97, 98] [97, 98] = some 2 ∧ rfindSpec [97, 98, 97, 98] [97, 98] = some 2 := by decide
example : bytesFind [97, 98] [98, 98, 98] = none := by decide
example : (findSkip [1, 2, 3, 4] [2, 3]).map (·.apply [1, 2, 3, 4]) = some [4] := by decide
example : StrFns.splitOnce [97, 45, 98] [45] = .ok (some (⟨0, 1⟩, ⟨2, 1⟩)) := by rfl
-- the panic branch of split_once is reachable only with a non-UTF-8 "pattern" (a lone continuation byte of ñ)
example : StrFns.splitOnce [0xC3, 0xB1] [0xB1] = .error () := by rfl
-- the reverse search for an empty pattern: the code's value (outside the property) vs std's
example : bytesRfind [1, 2, 3] [] = some 2 ∧ rfindSpec [1, 2, 3] [] = some 3 := by decide

end Konst.Props.C04
