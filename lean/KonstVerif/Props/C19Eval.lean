import KonstVerif.Model.OptResEval
import KonstVerif.Spec.OptResEval
import KonstVerif.Props.C19
/-
  C19, evaluation of the argument EXPRESSIONS: for all computations `e`, `v` (arbitrary side effects)
  * the Option/Result expression and the eager second argument are evaluated exactly once, in std's order;
  * with a function argument whose own evaluation has no effect (closure literal, path, variable: `quiet f`) every
    macro = the std method call, including when the closure body runs;
  * a function-VALUED expression with an effect is evaluated only in the arm that calls it (`*_fx_skipped`), whereas
    a method call evaluates it always — the one place where the macros differ from std (out of the property's scope);
  * min!/max!(_by(_key)) evaluate each argument exactly once; with a function argument the function expression first.
-/
namespace Konst.Props.C19Eval
open Konst.Trace Konst.OptRes.Eval
open Konst.Spec.OptResEval

variable {α β ε φ κ : Type}

/-! ## eager forms: `$e` then `$v`, both always -/

theorem optUnwrapOr_eval (e : Tr (Option α)) (v : Tr α) :
    optUnwrapOr e v = call2 e v (fun o d => pure (Spec.OptRes.optUnwrapOr o d)) := by
  funext l
  simp only [optUnwrapOr, call2, Tr.bind_apply, Tr.pure_apply, Spec.OptRes.optUnwrapOr]
  cases (e l).1 <;> rfl

theorem optOkOr_eval (e : Tr (Option α)) (v : Tr ε) :
    optOkOr e v = call2 e v (fun o d => pure (Spec.OptRes.optOkOr o d)) := by
  funext l
  simp only [optOkOr, call2, Tr.bind_apply, Tr.pure_apply, Spec.OptRes.optOkOr]
  cases (e l).1 <;> rfl

theorem resUnwrapOr_eval (e : Tr (Except ε α)) (v : Tr α) :
    resUnwrapOr e v = call2 e v (fun r d => pure (Spec.OptRes.resUnwrapOr r d)) := by
  funext l
  simp only [resUnwrapOr, call2, Tr.bind_apply, Tr.pure_apply, Spec.OptRes.resUnwrapOr]
  cases (e l).1 <;> rfl

/-- "exactly once, in order" spelled out on the log: whatever the streams hold, the two argument expressions leave
    the events `o`, `d` (in this order) and nothing else -/
theorem optUnwrapOr_log (os : List (Option α)) (ds : List α) (a : Option α) (b : α) (l : Log) :
    ((optUnwrapOr (stream 'o' os a) (stream 'd' ds b)) l).2 = l ++ ['o', 'd'] := by
  simp only [optUnwrapOr, Tr.bind_apply, stream]
  generalize os.getD _ a = o
  cases o <;> simp [List.append_assoc]

/-! ## lazy forms with an effect-free function expression = the std method call -/

theorem optUnwrapOrElse_eval (e : Tr (Option α)) (f : Unit → Tr α) :
    optUnwrapOrElse e (quiet f) = call2 e (quiet f) unwrapOrElseM := by
  funext l
  simp only [optUnwrapOrElse, call2, unwrapOrElseM, quiet, Tr.bind_apply]
  cases (e l).1 <;> rfl

theorem optOkOrElse_eval (e : Tr (Option α)) (f : Unit → Tr ε) :
    optOkOrElse e (quiet f) = call2 e (quiet f) okOrElseM := by
  funext l
  simp only [optOkOrElse, call2, okOrElseM, quiet, Tr.bind_apply]
  cases (e l).1 <;> rfl

theorem optMap_eval (e : Tr (Option α)) (f : α → Tr β) :
    optMap e (quiet f) = call2 e (quiet f) mapM := by
  funext l
  simp only [optMap, call2, mapM, quiet, Tr.bind_apply]
  cases (e l).1 <;> rfl

theorem optAndThen_eval (e : Tr (Option α)) (f : α → Tr (Option β)) :
    optAndThen e (quiet f) = call2 e (quiet f) andThenM := by
  funext l
  simp only [optAndThen, call2, andThenM, quiet, Tr.bind_apply]
  cases (e l).1 <;> rfl

theorem optOrElse_eval (e : Tr (Option α)) (f : Unit → Tr (Option α)) :
    optOrElse e (quiet f) = call2 e (quiet f) orElseM := by
  funext l
  simp only [optOrElse, call2, orElseM, quiet, Tr.bind_apply]
  cases (e l).1 <;> rfl

theorem optFilter_eval (e : Tr (Option α)) (p : α → Tr Bool) :
    optFilter e (quiet p) = call2 e (quiet p) filterM := by
  funext l
  simp only [optFilter, call2, filterM, quiet, Tr.bind_apply]
  cases h : (e l).1 with
  | none => rfl
  | some x =>
    simp only [Tr.pure, Tr.bind_apply, Tr.pure_apply]
    cases (p x (e l).2).1 <;> rfl

theorem optFlatten_eval (e : Tr (Option (Option α))) :
    optFlatten e = call1 e (fun o => pure (Spec.OptRes.optFlatten o)) := by
  funext l
  simp only [optFlatten, call1, Tr.bind_apply, Spec.OptRes.optFlatten]
  cases h : (e l).1 with
  | none => rfl
  | some x => cases x <;> rfl

theorem resUnwrapOrElse_eval (e : Tr (Except ε α)) (f : ε → Tr α) :
    resUnwrapOrElse e (quiet f) = call2 e (quiet f) resUnwrapOrElseM := by
  funext l
  simp only [resUnwrapOrElse, call2, resUnwrapOrElseM, quiet, Tr.bind_apply]
  cases (e l).1 <;> rfl

theorem resUnwrapErrOrElse_eval (e : Tr (Except ε α)) (f : α → Tr ε) :
    resUnwrapErrOrElse e (quiet f) = call2 e (quiet f) resUnwrapErrOrElseM := by
  funext l
  simp only [resUnwrapErrOrElse, call2, resUnwrapErrOrElseM, quiet, Tr.bind_apply]
  cases (e l).1 <;> rfl

theorem resMap_eval (e : Tr (Except ε α)) (f : α → Tr β) :
    resMap e (quiet f) = call2 e (quiet f) resMapM := by
  funext l
  simp only [resMap, call2, resMapM, quiet, Tr.bind_apply]
  cases (e l).1 <;> rfl

theorem resMapErr_eval (e : Tr (Except ε α)) (f : ε → Tr φ) :
    resMapErr e (quiet f) = call2 e (quiet f) resMapErrM := by
  funext l
  simp only [resMapErr, call2, resMapErrM, quiet, Tr.bind_apply]
  cases (e l).1 <;> rfl

theorem resAndThen_eval (e : Tr (Except ε α)) (f : α → Tr (Except ε β)) :
    resAndThen e (quiet f) = call2 e (quiet f) resAndThenM := by
  funext l
  simp only [resAndThen, call2, resAndThenM, quiet, Tr.bind_apply]
  cases (e l).1 <;> rfl

theorem resOrElse_eval (e : Tr (Except ε α)) (f : ε → Tr (Except φ α)) :
    resOrElse e (quiet f) = call2 e (quiet f) resOrElseM := by
  funext l
  simp only [resOrElse, call2, resOrElseM, quiet, Tr.bind_apply]
  cases (e l).1 <;> rfl

/-! ## a function-valued expression WITH an effect: evaluated only in the arm that calls it -/

/-- `unwrap_or_else!(e, fx)` on `Some(x)`: `fx` is not evaluated at all (the method call evaluates it) -/
theorem optUnwrapOrElse_fx_skipped (e : Tr (Option α)) (fx : Tr (Unit → Tr α)) (l : Log) (x : α)
    (h : (e l).1 = some x) :
    optUnwrapOrElse e fx l = (x, (e l).2) ∧ call2 e fx unwrapOrElseM l = (x, (fx (e l).2).2) := by
  simp only [optUnwrapOrElse, call2, unwrapOrElseM, Tr.bind_apply, h]
  exact ⟨rfl, rfl⟩

/-- `result::map!(e, fx)` on `Err(x)` -/
theorem resMap_fx_skipped (e : Tr (Except ε α)) (fx : Tr (α → Tr β)) (l : Log) (x : ε)
    (h : (e l).1 = .error x) :
    resMap e fx l = (.error x, (e l).2) ∧ call2 e fx resMapM l = (.error x, (fx (e l).2).2) := by
  simp only [resMap, call2, resMapM, Tr.bind_apply, h]
  exact ⟨rfl, rfl⟩

/-- in the arm that calls it the macros agree with the method call for EVERY function expression -/
theorem optUnwrapOrElse_fx_called (e : Tr (Option α)) (fx : Tr (Unit → Tr α)) (l : Log) (h : (e l).1 = none) :
    optUnwrapOrElse e fx l = call2 e fx unwrapOrElseM l := by
  simp only [optUnwrapOrElse, call2, unwrapOrElseM, Tr.bind_apply, h]

example : (optUnwrapOrElse (quiet (some (1 : Int))) (fun l => (fun _ => quiet 7, l ++ ['f']))).run = (1, []) ∧
    (call2 (quiet (some (1 : Int))) (fun l => (fun _ => quiet 7, l ++ ['f'])) unwrapOrElseM).run = (1, ['f']) := by
  decide

/-! ## try_!, try_opt!, rebind: the argument expression once -/

theorem try_eval (e : Tr (Except ε α)) (k : α → Except ε β) :
    ((fun l => (((try_ (β := β) e l).1).andThen k, (try_ (β := β) e l).2)) : Tr (Except ε β)) =
      call1 e (fun r => pure (Spec.OptRes.questionRes r k)) := by
  funext l
  simp only [try_, call1, Tr.bind_apply, Tr.pure_apply, Konst.Props.C19.try_eq_question]

theorem tryOpt_eval (e : Tr (Option α)) (k : α → Option β) :
    ((fun l => (((tryOpt (β := β) e l).1).andThen k, (tryOpt (β := β) e l).2)) : Tr (Option β)) =
      call1 e (fun o => pure (Spec.OptRes.questionOpt o k)) := by
  funext l
  simp only [tryOpt, call1, Tr.bind_apply, Tr.pure_apply, Konst.Props.C19.tryOpt_eq_question]

theorem rebind_eval (u : OptRes.UserPat) (n : Nat) (annot : Bool) (e : Tr (Except Int (List Int))) :
    tryRebind u n annot e = call1 e (fun r => pure (OptRes.tryRebind u n annot r)) ∧
    rebindIfOk u n annot e = call1 e (fun r => pure (OptRes.rebindIfOk u n annot r)) := ⟨rfl, rfl⟩

/-! ## min / max: both arguments once, left then right; the returned argument is std's -/

theorem min_eval (cmp : α → α → Ordering) (l r : Tr α) :
    OptRes.Eval.min cmp l r = call2 l r (fun a b => pure (Spec.OptRes.minBy cmp a b)) := by
  funext s
  simp only [OptRes.Eval.min, call2, Tr.bind_apply, Tr.pure_apply, Konst.Props.C19.minBy_eq_std]

theorem max_eval (cmp : α → α → Ordering) (l r : Tr α) :
    OptRes.Eval.max cmp l r = call2 l r (fun a b => pure (Spec.OptRes.maxBy cmp a b)) := by
  funext s
  simp only [OptRes.Eval.max, call2, Tr.bind_apply, Tr.pure_apply, Konst.Props.C19.maxBy_eq_std]

theorem minBy_eval (l r : Tr α) (cmp : α → α → Tr Ordering) :
    minBy l r cmp = call3 l r (quiet cmp) minByM := by
  funext s
  simp only [minBy, call3, minByM, quiet, Tr.bind_apply, Tr.pure_apply, Tr.pure]
  cases (cmp (l s).1 (r (l s).2).1 (r (l s).2).2).1 <;> rfl

theorem maxBy_eval (l r : Tr α) (cmp : α → α → Tr Ordering) :
    maxBy l r cmp = call3 l r (quiet cmp) maxByM := by
  funext s
  simp only [maxBy, call3, maxByM, quiet, Tr.bind_apply, Tr.pure_apply, Tr.pure]
  cases (cmp (l s).1 (r (l s).2).1 (r (l s).2).2).1 <;> rfl

/-- `min_by_key!` = std's `min_by_key` when the key function is applied to the first argument first -/
theorem minByKey_eval (cmpK : κ → κ → Ordering) (a b : Tr α) (key : α → Tr κ) :
    minByKey cmpK a b key = call3 a b (quiet key) (minByKeyM cmpK) := by
  funext s
  simp only [minByKey, minmaxByKey, call3, minByKeyM, quiet, Tr.bind_apply, Tr.pure_apply, Tr.pure]
  generalize cmpK _ _ = c
  cases c <;> simp

/-- with a function ARGUMENT the function expression is evaluated before the two values (std: after them) -/
theorem minByFn_order (l r : Tr α) (fx : Tr (α → α → Tr Ordering)) :
    minByFn l r fx = (do let f ← fx; minBy l r f) := rfl

/-- `max_by_key!(a, b, key)` evaluates `b` before `a` -/
theorem maxByKey_order (cmpK : κ → κ → Ordering) (a b : Tr α) (key : α → Tr κ) :
    maxByKey cmpK a b key = minmaxByKey .lt cmpK b a key := rfl

example : ((maxByKey (compare : Int → Int → Ordering) (stream 'a' [(1 : Int)] 0) (stream 'b' [2] 0) (logged 'k' id)).run).2
    = ['b', 'a', 'k', 'k'] := by decide

/-! ## caller items named like the identifier patterns of the expansions -/

/-- a caller function or local variable never changes what an expansion means -/
theorem verdict_fn_local (mac form name : String) :
    verdict mac form .fn_ name = .transparent ∧ verdict mac form .local_ name = .transparent := by
  constructor <;> simp [verdict]

/-- an item whose name the arm does not bind is harmless; in particular the pseudo-closure arms of
    `option::map!` / `and_then!` bind nothing of their own -/
theorem verdict_no_binder (mac form name : String) (d : Decl) (h : name ∉ binders mac form) :
    verdict mac form d name = .transparent := by
  simp only [verdict, h]; split <;> rfl

example : binders "opt.map" "cl" = [] ∧ verdict "opt.map" "cl" .const_ "x" = .transparent := by decide
example : verdict "opt.unwrap_or" "val" .const_ "value" = .reject ∧ verdict "opt.filter" "cl" .const_ "x" = .reject ∧
    verdict "opt.filter" "cl" .static_ "x" = .reject ∧ verdict "rebind.rebind_if_ok" "p" .const_ "tuple" = .reject := by decide

/-- a caller const / static / unit struct named like an identifier pattern of the arm is a compile error — in EVERY
    macro of the family (no pattern of an expansion may fail any more; before a6790b3: `Legacy/OptResCapture.lean`) -/
theorem verdict_binder_reject (mac form name : String) (d : Decl) (hd : d ≠ .fn_ ∧ d ≠ .local_)
    (h : name ∈ binders mac form) : verdict mac form d name = .reject := by
  simp [verdict, hd.1, hd.2, h]

/-- the names `__parse_closure_1/2` bound before c6bef38 are ordinary caller names now -/
example : verdict "mm.min_by" "fn" .const_ "func" = .transparent ∧ verdict "mm.max_by_key" "fn" .const_ "__x" = .transparent ∧
    verdict "mm.min_by" "fn" .const_ "__konst_pc_func" = .reject := by decide

end Konst.Props.C19Eval
