import KonstVerif.Model.Concat
import KonstVerif.Model.ConcatHyg
import KonstVerif.Model.CStr
import KonstVerif.Spec.Concat
import KonstVerif.Lemmas.Concat
import KonstVerif.Lemmas.CStr
/-
  C20 — Concatenation/join macros and CStr conversions equal their std counterparts.
  Property theorems only (helper lemmas: Lemmas/Concat.lean, Lemmas/CStr.lean). Every theorem is for
  ALL argument lists / byte strings (no bound on lengths); `usize` overflow of the length pass is
  part of the model (`Panic.overflow`) and of the statements.
-/
namespace Konst.Props.C20
open Konst Konst.Concat Konst.CStr Konst.Spec Konst.Spec.Concat Konst.Lemmas.Concat Konst.Lemmas.CStr

/-! ## `str_concat!` -/

/-- what the fill phase writes is std's result (this is where `encode_utf8`'s shifts and masks are
    shown to be the RFC 3629 encoding) -/
theorem written_eq_std (arg : ConcatArg) (h : arg.WF) : written arg = stdOfArg arg := by
  cases arg with
  | strs ss => simp [written, ConcatArg.elems, stdOfArg, stdConcat, Elem.bytes, Function.comp_def]
  | chars cs =>
    simp only [written, ConcatArg.elems, stdOfArg, stdCollectChars, Utf8.encs, List.map_map]
    rw [List.flatMap_def]
    congr 1
    apply List.map_congr_left
    intro c hc
    simp only [Function.comp, Elem.bytes]
    exact encodeUtf8_eq_enc c (by have := scalar_lt c (h c hc); omega)

/-- phase 1 (`concat_sum_lengths`): `LEN` is exactly the number of bytes phase 2 writes, or the
    evaluation stops with an overflow when that number does not fit a `usize` -/
theorem concatSumLengths_eq (arg : ConcatArg) :
    concatSumLengths arg =
      if (written arg).length < USIZE then .ok (written arg).length else .panic .overflow := by
  rw [concatSumLengths, sumLoop_eq _ 0 (by decide), sum_len_eq]
  simp [written]

/-- phase 2 (`concat_strs::<N>`) for an arbitrary `N`: an out-of-bounds write iff `N` is too small;
    otherwise the written bytes followed by the untouched `0` filler -/
theorem concatStrs_eq (n : Nat) (arg : ConcatArg) :
    concatStrs n arg =
      if (written arg).length ≤ n then
        .ok (written arg ++ List.replicate (n - (written arg).length) 0)
      else .panic .index := by
  have := fill_fresh (arg.elems.map Elem.bytes) n 0
  unfold written
  rw [← this, concatStrs, fillLoop_eq_slice]

/-- `len_eq_written` + `content_eq_flatten`: with `N = LEN` the second phase never indexes out of
    bounds, writes every slot (no `0` filler survives) and the buffer is the concatenation -/
theorem concat_len_eq_written (arg : ConcatArg) :
    concatStrs (written arg).length arg = .ok (written arg) := by
  rw [concatStrs_eq]; simp

/-- `result_valid_utf8` (concatenation): the concatenation of valid pieces / scalar values is valid -/
theorem concat_result_valid_utf8 (arg : ConcatArg) (h : arg.WF) : Utf8.Valid (stdOfArg arg) := by
  cases arg with
  | strs ss => exact valid_flatten h
  | chars cs => exact valid_encs h

/-- the `from_utf8` re-validation (`ArrayStr::as_str`, and the `match` in `str_from_iter!`) returns the
    buffer exactly when it is valid UTF-8 and panics otherwise -/
theorem asStr_ok_iff (buf : List Nat) :
    (asStr buf = .ok buf ↔ Utf8.Valid buf) ∧ (asStr buf = .ok buf ∨ asStr buf = .panic .utf8) := by
  have h := stdFromUtf8_ok_iff buf
  by_cases hv : Utf8.Valid buf
  · have := h.mpr hv
    simp [asStr, this, hv]
  · have hne : stdFromUtf8 buf ≠ .ok buf := fun e => hv (h.mp e)
    have : ∃ p, stdFromUtf8 buf = .error p := by
      unfold stdFromUtf8 at hne ⊢
      revert hne
      cases utf8Scan buf.length buf 0 with
      | none => intro hne; exact absurd rfl hne
      | some p => intro _; exact ⟨p, rfl⟩
    obtain ⟨p, hp⟩ := this
    simp [asStr, hp, hv]

/-- `str_concat!(arg)` = std, for every well-formed argument whose total length fits a `usize`:
    no panic in either phase, and the `from_utf8` re-validation succeeds -/
theorem stringConcat_eq_std (arg : ConcatArg) (h : arg.WF) (hlen : (stdOfArg arg).length < USIZE) :
    stringConcat (.expr arg) = .ok (stdOfArg arg) := by
  have hw := written_eq_std arg h
  simp only [stringConcat, concatSumLengths_eq, hw, if_pos hlen, Out.ok_bind]
  have := concat_len_eq_written arg
  rw [hw] at this
  rw [this]
  simp only [Out.ok_bind, asStr, stdFromUtf8_of_valid (concat_result_valid_utf8 arg h)]

/-- the literal-`[]` macro arm agrees with std on the empty list -/
theorem stringConcat_litEmpty : stringConcat .litEmpty = .ok (stdConcat ([] : List (List Nat))) := rfl

/-- the only other outcome: the total length does not fit a `usize` (compile error) -/
theorem stringConcat_overflow (arg : ConcatArg) (h : arg.WF) (hlen : ¬ (stdOfArg arg).length < USIZE) :
    stringConcat (.expr arg) = .panic .overflow := by
  have hw := written_eq_std arg h
  simp only [stringConcat, concatSumLengths_eq, hw, if_neg hlen, Out.panic_bind]

/-! ## `str_join!` -/

theorem sepBytes_eq_std (sep : SepArg) (h : sep.WF) : sep.bytes = stdSep sep := by
  cases sep with
  | str s => rfl
  | chr c => exact encodeUtf8_eq_enc c (by have := scalar_lt c h; omega)

private theorem join_length (sep : List Nat) (first : List Nat) (rem : List (List Nat)) :
    (stdJoin sep (first :: rem)).length
      = (first :: rem).flatten.length + sep.length * rem.length := by
  rw [stdJoin, intercalate_cons]
  induction rem with
  | nil => simp
  | cons r rem ih =>
    simp only [List.flatten_cons, List.length_append, List.flatMap_cons, List.cons_append,
      List.nil_append, List.length_cons, Nat.mul_succ] at ih ⊢
    omega

/-- phase 1 (`join_sum_lengths`) = the length of std's join, or an overflow when that length does not
    fit a `usize` (whichever of the three checked operations trips first) -/
theorem joinSumLengths_eq (sep : SepArg) (ss : List (List Nat)) :
    joinSumLengths sep ss =
      if (stdJoin sep.bytes ss).length < USIZE then .ok (stdJoin sep.bytes ss).length
      else .panic .overflow := by
  cases ss with
  | nil => simp [joinSumLengths, stdJoin, List.intercalate, USIZE]
  | cons first rem =>
    have hl := join_length sep.bytes first rem
    rw [hl]
    have hc := concatSumLengths_eq (.strs (first :: rem))
    have hw : written (.strs (first :: rem)) = (first :: rem).flatten := by
      simp [written, ConcatArg.elems, Elem.bytes, Function.comp_def]
    rw [hw] at hc
    simp only [joinSumLengths, List.isEmpty_cons, Bool.false_eq_true, if_false, hc,
      List.length_cons, Nat.add_sub_cancel, SepArg.len_eq, ckMul]
    generalize (first :: rem).flatten.length = a
    generalize sep.bytes.length * rem.length = b
    by_cases ha : a < USIZE
    · rw [if_pos ha]
      simp only [Out.ok_bind]
      by_cases hb : b < USIZE
      · rw [if_pos hb]
        simp only [Out.ok_bind, ckAdd]
      · rw [if_neg hb, if_neg (show ¬ a + b < USIZE by omega)]; rfl
    · rw [if_neg ha, if_neg (show ¬ a + b < USIZE by omega)]; rfl

/-- phase 2 (`join_strs::<N>`) for an arbitrary `N` -/
theorem joinStrs_eq (n : Nat) (sep : SepArg) (ss : List (List Nat)) :
    joinStrs n sep ss =
      if (stdJoin sep.bytes ss).length ≤ n then
        .ok (stdJoin sep.bytes ss ++ List.replicate (n - (stdJoin sep.bytes ss).length) 0)
      else .panic .index := by
  cases ss with
  | nil => simp [joinStrs, stdJoin, List.intercalate]
  | cons first rem =>
    have h := fill_fresh (first :: (rem.flatMap fun s => [sep.bytes, s])) n 0
    have e : joinStrs n sep (first :: rem)
        = (sliceFillLoop (first :: (rem.flatMap fun s => [sep.bytes, s])) (List.replicate n 0) 0
            >>= fun r => pure r.1) := by
      simp only [joinStrs, sliceFillLoop]
      cases writeBytes first (List.replicate n 0) 0 with
      | panic p => rfl
      | ok r =>
        obtain ⟨o, k⟩ := r
        simp only [Out.ok_bind, joinRemLoop_eq_slice]
    rw [e, h, stdJoin, intercalate_cons, ← List.flatten_cons]

/-- `len_eq_written` + `content_eq_intercalate` for join -/
theorem join_len_eq_written (sep : SepArg) (ss : List (List Nat)) :
    joinStrs (stdJoin sep.bytes ss).length sep ss = .ok (stdJoin sep.bytes ss) := by
  rw [joinStrs_eq]; simp

/-- `result_valid_utf8` (join) -/
theorem join_result_valid_utf8 (sep : SepArg) (ss : List (List Nat)) (hsep : sep.WF)
    (h : ∀ s ∈ ss, Utf8.Valid s) : Utf8.Valid (stdJoin (stdSep sep) ss) := by
  apply valid_intercalate _ h
  cases sep with
  | str s => exact hsep
  | chr c => exact valid_enc hsep

/-- `str_join!(sep, slice)` = `<[&str]>::join`, for every valid separator (str or char) and pieces -/
theorem stringJoin_eq_std (sep : SepArg) (ss : List (List Nat)) (hsep : sep.WF)
    (h : ∀ s ∈ ss, Utf8.Valid s) (hlen : (stdJoin (stdSep sep) ss).length < USIZE) :
    stringJoin (.expr sep ss) = .ok (stdJoin (stdSep sep) ss) := by
  have hb := sepBytes_eq_std sep hsep
  rw [← hb] at hlen
  simp only [stringJoin, joinSumLengths_eq sep ss, if_pos hlen, Out.ok_bind, join_len_eq_written]
  rw [hb]
  simp only [asStr, stdFromUtf8_of_valid (join_result_valid_utf8 sep ss hsep h)]

/-- the only other outcome of `str_join!`: the joined length does not fit a `usize` -/
theorem stringJoin_overflow (sep : SepArg) (ss : List (List Nat)) (hsep : sep.WF)
    (hlen : ¬ (stdJoin (stdSep sep) ss).length < USIZE) :
    stringJoin (.expr sep ss) = .panic .overflow := by
  rw [← sepBytes_eq_std sep hsep] at hlen
  simp only [stringJoin, joinSumLengths_eq sep ss, if_neg hlen, Out.panic_bind]

theorem stringJoin_litEmpty (sep : List Nat) : stringJoin .litEmpty = .ok (stdJoin sep []) := rfl

/-! ## `slice_concat!` -/

variable {α : Type}

/-- `first_elem` returns the first element of the concatenation, and panics iff there is none -/
theorem firstElem_eq (ss : List (List α)) :
    firstElem ss = match ss.flatten.head? with
      | some x => .ok x
      | none => .panic .noElem := by
  induction ss with
  | nil => rfl
  | cons s ss ih =>
    cases s with
    | nil => simpa [firstElem] using ih
    | cons x r => simp [firstElem]

/-- `concat_slices::<T, N>` for an arbitrary `N` -/
theorem concatSlices_general (n : Nat) (ss : List (List α)) :
    concatSlices n ss =
      if n = 0 then .ok []
      else match ss.flatten.head? with
        | none => .panic .noElem
        | some x =>
          if ss.flatten.length ≤ n then .ok (ss.flatten ++ List.replicate (n - ss.flatten.length) x)
          else .panic .index := by
  unfold concatSlices
  by_cases hn : n = 0
  · simp [hn]
  · rw [if_neg (fun e => hn e.symm), if_neg hn, firstElem_eq]
    cases hh : ss.flatten.head? with
    | none => rfl
    | some x =>
      simp only [Out.ok_bind]
      rw [← fill_fresh ss n x]

/-- `concatSlices_eq`: with `N = LEN` the result is `<[&[T]]>::concat`; in particular `first_elem`
    cannot panic (when `LEN ≠ 0` some piece is non-empty) and the `N = 0` early return is right -/
theorem concatSlices_eq (ss : List (List α)) :
    concatSlices ss.flatten.length ss = .ok (stdConcat ss) := by
  rw [concatSlices_general, stdConcat]
  by_cases hn : ss.flatten.length = 0
  · rw [if_pos hn]; simp [List.eq_nil_of_length_eq_zero hn]
  · rw [if_neg hn]
    cases hh : ss.flatten.head? with
    | none => simp only [List.head?_eq_none_iff] at hh; simp [hh] at hn
    | some x => simp

/-- `slice_concat!(T, slices)` = `<[&[T]]>::concat`, any element type -/
theorem sliceConcat_eq_std (ss : List (List α)) (hlen : ss.flatten.length < USIZE) :
    sliceConcat ss = .ok (stdConcat ss) := by
  simp only [sliceConcat, sliceConcatSumLengths, sliceSumLoop_eq ss 0 (by decide), Nat.zero_add,
    if_pos hlen, Out.ok_bind, concatSlices_eq]

/-! ## `string::from_iter!` (on the items the iterator chain yields) -/

/-- `string::from_iter!` = `String::from_iter` on the yielded items: the length pass equals what the
    fill pass writes, every slot of the `MaybeUninit` buffer is initialised before `assume_init`,
    the final `assert!(length == CAP)` holds and `from_utf8` succeeds -/
theorem strFromIter_eq_std (arg : ConcatArg) (h : arg.WF) (hlen : (stdOfArg arg).length < USIZE) :
    strFromIter arg.elems = .ok (stdOfArg arg) := by
  have hw := written_eq_std arg h
  have h1 : collectLoop false arg.elems [] 0 = .ok ([], (stdOfArg arg).length) := by
    rw [collectLoop_false, sumLoop_eq _ 0 (by decide), sum_len_eq]
    simp only [Nat.zero_add]
    rw [show (arg.elems.map Elem.bytes).flatten = written arg from rfl, hw, if_pos hlen]
    rfl
  have h2 := collectLoop_true arg.elems [] (List.replicate (stdOfArg arg).length none)
    (by simpa using hlen)
  rw [show (arg.elems.map Elem.bytes).flatten = written arg from rfl, hw] at h2
  simp only [List.nil_append, List.length_nil, Nat.zero_add, List.length_replicate, Nat.le_refl,
    if_true, List.drop_replicate, Nat.sub_self, List.replicate_zero, List.append_nil] at h2
  simp only [strFromIter, h1, Out.ok_bind, h2, ne_eq, not_true_eq_false, if_false,
    assumeInit_map_some, stdFromUtf8_of_valid (concat_result_valid_utf8 arg h)]

/-! ## CStr -/

/-- the specification's "first index of 0" is the least index holding a nul -/
theorem firstNul_spec (bs : List Nat) (k : Nat) :
    firstNul bs = some k ↔ bs[k]? = some 0 ∧ ∀ j, j < k → bs[j]? ≠ some 0 := by
  constructor
  · intro h; exact ⟨firstNul_getElem? h, firstNul_before h⟩
  · intro ⟨h0, hb⟩
    cases hf : firstNul bs with
    | none =>
      exfalso
      exact firstNul_none hf (List.mem_of_getElem? h0)
    | some i =>
      have hi0 := firstNul_getElem? hf
      have hib := firstNul_before hf
      by_cases h1 : i < k
      · exact absurd hi0 (hb i h1)
      · by_cases h2 : k < i
        · exact absurd h0 (hib k h2)
        · congr 1; omega

/-- `untilNul_ok_iff`: `from_bytes_until_nul` succeeds exactly when std does, and the returned CStr is
    the same sub-slice (offset 0, up to and including the first nul) -/
theorem untilNul_ok_iff (bs : List Nat) :
    (fromBytesUntilNul bs).map (fun v => (v.off, v.apply bs))
      = (stdFromBytesUntilNul bs).map (fun c => (0, c)) := by
  simp only [fromBytesUntilNul, fromBytesUntilNulInner_eq, stdFromBytesUntilNul]
  cases firstNul bs with
  | none => rfl
  | some k => simp [View.apply]

/-- complete description of `from_bytes_with_nul`'s four arms in terms of the first nul; in
    particular the `bytes[bytes.len() - 1]` of the second arm never panics -/
theorem fromBytesWithNul_eq (bs : List Nat) :
    fromBytesWithNul bs =
      match firstNul bs with
      | none => .err .notNulTerminated
      | some k =>
        if k + 1 = bs.length then .ok ⟨0, bs.length⟩
        else if bs.getLast? ≠ some 0 then .err .notNulTerminated
        else .err (.internalNul k) := by
  simp only [fromBytesWithNul, fromBytesUntilNulInner_eq]
  cases h : firstNul bs with
  | none => rfl
  | some k =>
    simp only [Option.map_some]
    by_cases hk : k + 1 = bs.length
    · simp [hk]
    · simp only [hk, if_false]
      have hl := firstNul_lt h
      cases hg : bs.getLast? with
      | none => simp only [List.getLast?_eq_none_iff] at hg; simp [hg] at hl
      | some last =>
        by_cases h0 : last = 0
        · simp [h0]
        · simp [h0]

/-- `withNul_ok_iff`: `from_bytes_with_nul` succeeds exactly when std does and returns the whole input
    as the CStr, like std -/
theorem withNul_ok_iff (bs : List Nat) :
    (∀ v, fromBytesWithNul bs = .ok v → stdFromBytesWithNul bs = .ok (v.apply bs) ∧ v.off = 0) ∧
    (∀ c, stdFromBytesWithNul bs = .ok c → fromBytesWithNul bs = .ok ⟨0, c.length⟩ ∧ c = bs) ∧
    fromBytesWithNul bs ≠ .panic := by
  rw [fromBytesWithNul_eq]
  simp only [stdFromBytesWithNul]
  cases h : firstNul bs with
  | none => simp
  | some k =>
    by_cases hk : k + 1 = bs.length
    · simp [hk, View.apply]
    · simp only [hk, if_false]
      by_cases hg : bs.getLast? = some 0
      · simp [hg]
      · simp [hg]

/-- error kinds: konst reports std's kind and position EXCEPT when there is an interior nul and the
    last byte is not nul, where konst says `NotNulTerminated` and std `InteriorNul{first nul}`
    (arm 2 precedes arm 4). The property (success + returned CStr) is not affected. -/
theorem withNul_err_kind (bs : List Nat) (e : HuntNulError) (he : fromBytesWithNul bs = .err e) :
    (stdFromBytesWithNul bs = .error (match e with
        | .internalNul p => .interiorNul p
        | .notNulTerminated => .notNulTerminated))
    ∨ (e = .notNulTerminated ∧ bs.getLast? ≠ some 0 ∧
        ∃ k, firstNul bs = some k ∧ k + 1 ≠ bs.length ∧ stdFromBytesWithNul bs = .error (.interiorNul k)) := by
  rw [fromBytesWithNul_eq] at he
  simp only [stdFromBytesWithNul]
  cases h : firstNul bs with
  | none => simp only [h] at he; injection he with he; subst he; left; rfl
  | some k =>
    simp only [h] at he
    by_cases hk : k + 1 = bs.length
    · simp [hk] at he
    · simp only [hk, if_false] at he ⊢
      by_cases hg : bs.getLast? = some 0
      · simp only [hg, ne_eq, not_true_eq_false, if_false] at he
        injection he with he; subst he; left; rfl
      · simp only [hg, ne_eq, not_false_eq_true, if_true] at he
        injection he with he; subst he
        right; exact ⟨rfl, hg, k, rfl, hk, rfl⟩

/-- the divergence of kinds is real (smallest witness `a\0b`) -/
theorem withNul_kind_differs :
    fromBytesWithNul [0x61, 0, 0x62] = .err .notNulTerminated ∧
    stdFromBytesWithNul [0x61, 0, 0x62] = .error (.interiorNul 1) := ⟨by decide, rfl⟩

/-- `cstr_bytes_eq`: for every CStr `c` (whatever memory `rest` follows it) the pointer walk of
    `to_bytes_with_nul` stops on the CStr's own terminator, so it never reads outside the CStr and
    returns exactly `c`; `to_bytes` never reaches `unreachable!()` and drops the nul; `to_str` is
    std's `from_utf8` of that -/
theorem cstr_bytes_eq (c rest : List Nat) (hc : IsCStr c) :
    toBytesWithNul (c ++ rest) = some ⟨0, c.length⟩ ∧
    (⟨0, c.length⟩ : View).apply (c ++ rest) = stdToBytesWithNul c ∧
    toBytes (c ++ rest) = .ok ⟨0, c.length - 1⟩ ∧
    (⟨0, c.length - 1⟩ : View).apply (c ++ rest) = stdToBytes c ∧
    toStr (c ++ rest) = (match stdToStr c with
      | .ok _ => .ok ⟨0, c.length - 1⟩
      | .error p => .err p) := by
  have hpos : 0 < c.length := List.length_pos_iff.mpr hc.2
  have h1 : toBytesWithNul (c ++ rest) = some ⟨0, c.length⟩ := by
    simp only [toBytesWithNul, walk_eq, firstNul_append hc.1 rest, Option.map_some]
    congr 2; omega
  have h2 : (⟨0, c.length⟩ : View).apply (c ++ rest) = c := by simp [View.apply]
  have h3 : toBytes (c ++ rest) = .ok ⟨0, c.length - 1⟩ := by
    simp only [toBytes, h1, h2, isCStr_getLast hc]
  have h4 : (⟨0, c.length - 1⟩ : View).apply (c ++ rest) = c.dropLast := by
    simp only [View.apply, List.drop_zero, List.dropLast_eq_take]
    rw [List.take_append_of_le_length (by omega)]
  refine ⟨h1, h2, h3, h4, ?_⟩
  simp only [toStr, h3, h4, stdToStr]
  cases stdFromUtf8 c.dropLast <;> rfl

/-! ## non-vacuity -/

example : ConcatArg.WF (.strs [[0x61], [0xC3, 0xB1], []]) := by
  intro s hs
  simp only [List.mem_cons, List.mem_nil_iff, or_false] at hs
  rcases hs with rfl | rfl | rfl
  · exact ⟨[0x61], by decide, by decide⟩
  · exact ⟨[0xF1], by decide, by decide⟩
  · exact ⟨[], by decide, by decide⟩
example : ConcatArg.WF (.chars [0x61, 0xF1, 0x1F600]) := by
  intro c hc
  simp only [List.mem_cons, List.mem_nil_iff, or_false] at hc
  rcases hc with rfl | rfl | rfl <;> decide
example : stringConcat (.expr (.strs [[0x61], [0xC3, 0xB1], []])) = .ok [0x61, 0xC3, 0xB1] := by decide
example : stringConcat (.expr (.chars [0x61, 0xF1, 0x1F600])) = .ok [0x61, 0xC3, 0xB1, 0xF0, 0x9F, 0x98, 0x80] := by
  decide
example : stringJoin (.expr (.chr 0xF1) [[0x61], [], [0x62]]) = .ok [0x61, 0xC3, 0xB1, 0xC3, 0xB1, 0x62] := by
  decide
/-- a too-small buffer is an out-of-bounds write, a too-large one leaves `0` filler: the model is not
    trivially insensitive to `LEN` -/
example : concatStrs 1 (.strs [[0x61], [0x62]]) = .panic .index := by decide
example : concatStrs 3 (.strs [[0x61], [0x62]]) = .ok [0x61, 0x62, 0] := by decide
example : concatSlices 2 ([[], []] : List (List Nat)) = .panic .noElem := by decide
example : sliceConcat [[1, 2], [], [3]] = .ok [1, 2, 3] := by decide
example : strFromIter [.chr 0x61, .str [0xC3, 0xB1]] = .ok [0x61, 0xC3, 0xB1] := by decide
example : IsCStr [0x61, 0] := ⟨by decide, by decide⟩
example : fromBytesWithNul [0x61, 0, 0] = .err (.internalNul 1) := by decide
example : fromBytesUntilNul [0x61, 0x62] = none := by decide
example : toBytesWithNul [0x61, 0x62] = none := by decide

/-! ## name hygiene of the expansions (`Model/ConcatHyg.lean`)

  For every identifier `n` and every kind of item the caller may have declared under that name: the
  invocation means what the caller wrote (`Hyg.transparent`: `n`, mentioned inside the macro argument,
  still resolves to the caller's item and no binding of the expansion collides with it) EXACTLY when
  `n` is none of the listed names. For `str_concat!`, `str_join!` and the list argument of
  `slice_concat!` the only reserved name is the mangled value `__ARGS_81608BFNA5`; the helper
  constants live in an inner block the argument is not pasted into, and they are mangled as well
  (`__LEN_81608BFNA5`, ..; since commit 450faa1 — findings F20a/F20b: they used to be `LEN`, `CONC`,
  `STR`, visible to the element type of `slice_concat!`, and `ArrayStr<LEN>` named a caller TYPE). -/
section Hygiene
open Konst.Concat.Hyg

theorem stringConcat_transparent_iff (d : UserDecl) (n : String) :
    transparent stringConcatSk "slice" d n = true ↔ ¬ (d.ns = .val ∧ n = "__ARGS_81608BFNA5") := by
  cases d <;> simp [transparent, captured, binderClash, gargClash, stringConcatSk, lenConcStr, holes,
    holesL, binders, bindersL, gargsFree, gargsFreeL, decl, UserDecl.ns, UserDecl.shadowable]

theorem stringJoin_transparent_iff (frag : String) (hf : frag = "sep" ∨ frag = "slice")
    (d : UserDecl) (n : String) :
    transparent stringJoinSk frag d n = true ↔ ¬ (d.ns = .val ∧ n = "__ARGS_81608BFNA5") := by
  rcases hf with rfl | rfl <;> cases d <;>
    simp [transparent, captured, binderClash, gargClash, stringJoinSk, lenConcStr, holes, holesL,
      binders, bindersL, gargsFree, gargsFreeL, decl, UserDecl.ns, UserDecl.shadowable]

theorem sliceConcat_slice_transparent_iff (d : UserDecl) (n : String) :
    transparent sliceConcatSk "slice" d n = true ↔ ¬ (d.ns = .val ∧ n = "__ARGS_81608BFNA5") := by
  cases d <;> simp [transparent, captured, binderClash, gargClash, sliceConcatSk, holes, holesL,
    binders, bindersL, gargsFree, gargsFreeL, decl, UserDecl.ns, UserDecl.shadowable]

/-- the ELEMENT TYPE of `slice_concat!` is pasted a second time inside the inner block
    (`const __CONC_81608BFNA5: [$elem_ty; __LEN_81608BFNA5]`): only the mangled names are reserved
    there (`slice_concat!([u8; LEN], ..)` with a caller constant `LEN` is fine) -/
theorem sliceConcat_elemTy_transparent_iff (d : UserDecl) (n : String) :
    transparent sliceConcatSk "elem_ty" d n = true ↔
      ¬ (d.ns = .val ∧
          (n = "__ARGS_81608BFNA5" ∨ n = "__LEN_81608BFNA5" ∨ n = "__CONC_81608BFNA5")) := by
  cases d <;> simp [transparent, captured, binderClash, gargClash, sliceConcatSk, holes, holesL,
    binders, bindersL, gargsFree, gargsFreeL, decl, UserDecl.ns, UserDecl.shadowable] <;> grind

/-- items / const generic of the `from_iter!` expansion that are visible to the iterator arguments -/
def fromIterItems : List String :=
  ["CAP_KO9Y329U2U", "__func_zxe7hgbnjs", "__COUNT81608BFNA5", "__ARR81608BFNA5", "__STR81608BFNA5"]
/-- identifier patterns of the `from_iter!` expansion (they cannot shadow a caller `const`/`static`) -/
def fromIterBinders : List String :=
  ["cmd", "array", "written_length", "iter", "elem_phantom_ty", "item", "elem_", "next_", "teq",
   "byteser", "bytes", "item_len", "i", "j", "x"]

theorem strFromIter_transparent_iff (d : UserDecl) (n : String) :
    transparent strFromIterSk "rem" d n = true ↔
      ¬ ((d.ns = .val ∧ n ∈ fromIterItems) ∨
         (d.ns = .ty ∧ (n = "Ret_KO9Y329U2U" ∨ n = "CAP_KO9Y329U2U")) ∨
         (d.shadowable = false ∧ n ∈ fromIterBinders)) := by
  cases d <;> simp [transparent, captured, binderClash, gargClash, strFromIterSk, holes, holesL,
    binders, bindersL, gargsFree, gargsFreeL, decl, UserDecl.ns, UserDecl.shadowable, fromIterItems,
    fromIterBinders] <;> grind

/-- the model IS sensitive to the inner block and to the names: without the inner block the helper
    constants are in the argument's scope, and under their old plain names a caller constant `STR`
    inside the argument was captured -/
example : transparent (.block (.item .val "__ARGS_81608BFNA5" [] [.hole "slice"] :: lenConcStr))
    "slice" .const "__STR_81608BFNA5" = false := by decide
example : transparent (.block [.item .val "__ARGS_81608BFNA5" [] [.hole "slice"],
    .item .val "LEN" [] [], .item .val "CONC" [] [.garg "LEN"], .item .val "STR" [] []])
    "slice" .const "STR" = false := by decide
example : transparent stringConcatSk "slice" .const "__STR_81608BFNA5" = true := by decide
example : transparent stringConcatSk "slice" .const "STR" = true := by decide
example : transparent strFromIterSk "rem" .const "i" = false := by decide
example : transparent strFromIterSk "rem" .fn "i" = true := by decide
example : transparent stringJoinSk "sep" .tyAlias "LEN" = true := by decide
example : transparent sliceConcatSk "elem_ty" .const "LEN" = true := by decide
example : transparent sliceConcatSk "elem_ty" .const "__LEN_81608BFNA5" = false := by decide
example : transparent strFromIterSk "rem" .tyAlias "CAP_KO9Y329U2U" = false := by decide

end Hygiene

end Konst.Props.C20
