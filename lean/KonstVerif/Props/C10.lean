import KonstVerif.Lemmas.IterDsl
import KonstVerif.Lemmas.IterCalls
/-
  C10 — Iterator-DSL method chains evaluate like the same std Iterator chains.

  `konstEval c cons src` is the value of the code the macros EMIT for the chain `c` and consumer
  `cons` on the source items `src` (Model/IterDsl.lean); `stdResult` is the same method chain on std
  iterators as list functions (Spec/IterDsl.lean).  Every theorem quantifies over ALL chains (any
  length, any nesting of flat_map/flatten), all closures (arbitrary pure functions), all consumers,
  all finite sources.

  FULL STATEMENT (the property as given):
      ∀ c cons src, accepted c cons → konstEval c cons src = docResult c cons src
  It is FALSE of the model and of the code alike (finding F7): see `take_rev_differs`,
  `skip_rev_differs`, `zip_rev_differs`, `take_rfind_differs`.  What is proved instead:
    * `konst_eq_std_normalised`  — exact characterisation for EVERY chain;
    * `konst_forward_eq_std`     — the full statement on the fragment without reversing methods;
    * `konst_eq_std_commuting`, `konst_rconsumer_eq_std` — the full statement when only
      map/filter/filter_map/copied/flat_map/flatten precede the reversal;
    * `konst_enumerate_rev_doc`, `konst_rposition_doc` — the two documented exceptions.

  CLOSURE CALLS (which closure is evaluated on which argument, how often, in which order) are an output
  of the model as well: `konstEvalL c cons src : Res × Log` (`feedKL`: the literal loop nest with its
  call log and with the guard over the `take` counters at the top of every loop, `takeGuard`).
  FULL STATEMENT for the pair:
      ∀ c cons src, accepted c cons → konstEvalL c cons src = (docResult c cons src, calls of the std chain)
  Proved:
    * `calls_erase`                 — dropping log and guards gives the model of the values back, so every
                                      theorem above speaks about the first component of `konstEvalL`;
    * `konst_forward_calls`         — forward fragment, every chain, closure, consumer, source: the calls
                                      are exactly those of the std chain (`skip_while`'s predicate is
                                      never called again after it first answered `false`, `take_while`'s
                                      not after the stream ended, nothing before a `take` runs on an item
                                      that is not yielded, `filter`/`map`/`flat_map`/consumer closures
                                      exactly once per item that reaches them, in std's interleaving);
    * `konst_forward_calls_eq_std`  — the full statement for the pair (value, calls) on the forward fragment;
    * `hostile_forward_eq_std`      — closures that panic on a given call: same outcome (panic after
                                      the same calls, or the same value) as the std chain;
    * `konst_calls_normalised`      — with a reversing method (chains without `flatten`): the calls are
                                      those of the normalised forward chain on the reversed source.
  Before fixes 9827f8a / 7ecb606 (findings F21, F22) the forward statement was false of code and model
  alike: `take` tested its countdown only when the next item arrived, after the closures of the methods
  before it had run on that item (`map_take_calls`, `take0_calls`, `flat_map_take0_calls` are the
  former counterexamples, now positive).
  The std side of chains WITH a reversing method is not specified in Lean (`stdCalls = none`); there
  the generated programs compare the real macros with the real std chains and with `konstEvalL`.
-/
namespace Konst.Props.C10
open Konst.Iter Konst.Iter.Spec Konst.Iter.Lemmas

private theorem noRev_of_hasRev : ∀ c : List Ad, hasRev c = false → NoRev c := by
  intro c; induction c with
  | nil => intro _; trivial
  | cons a r ih => intro h; cases a <;> simp [hasRev, NoRev] at h ⊢ <;> exact ih h

/-- EXACT CHARACTERISATION, every chain, every consumer, every source: the emitted loop computes the
    consumer (in iteration order) of the std semantics of the normalised chain `fwd c d` — the chain
    with its reversal moved to the source (`d` = "some reversing method occurs") and the inner
    iterators / zip arguments that are walked backwards reversed. -/
theorem konst_eq_std_normalised (c : List Ad) (cons : Cons) (src : List Val) :
    konstEval c cons src =
      iterConsume cons (stdEval (fwd c (hasRev c || cons.isRev)) (walk (hasRev c || cons.isRev) src)) := by
  unfold konstEval
  simp only []
  rw [runLoop_dir, fwdSt_init, runLoop_fwd _ (fwd_noRev _ _) _ _ _ _ (wf_init _), stdEvalSt_init,
    consMany_iterConsume]

/-- FORWARD FRAGMENT (full property): no reversing method anywhere ⇒ konst = std, for every chain of
    any depth, every closure, every consumer, every source. -/
theorem konst_forward_eq_std (c : List Ad) (cons : Cons) (src : List Val)
    (hc : hasRev c = false) (hk : cons.isRev = false) :
    konstEval c cons src = stdResult c cons src := by
  unfold konstEval stdResult
  simp only [hc, hk, Bool.or_false, walk, Bool.false_eq_true, if_false]
  rw [runLoop_fwd c (noRev_of_hasRev c hc) _ _ _ _ (wf_init _), stdEvalSt_init, consMany_iterConsume]
  cases cons <;> simp [Cons.isRev] at hk <;> rfl

/-- adapters that commute with reversal of the stream -/
def Commuting : List Ad → Prop
  | [] => True
  | .copied :: r => Commuting r
  | .map _ :: r => Commuting r
  | .filter _ :: r => Commuting r
  | .filterMap _ :: r => Commuting r
  | .flatMap _ :: r => Commuting r
  | .flatten :: r => Commuting r
  | _ => False

private theorem fwd_false_std : ∀ (post : List Ad), NoRev post → ∀ xs,
    stdEval (fwd post false) xs = stdEval post xs := by
  intro post
  induction post with
  | nil => intro _ xs; rfl
  | cons a r ih =>
    intro h xs
    cases a <;> simp [NoRev] at h <;> simp [fwd, stdEval, applyAd, walk, ih h]

/-- a commuting prefix driven backwards yields the reverse of what std yields forwards -/
private theorem commuting_prefix : ∀ (pre : List Ad), Commuting pre → ∀ (rest : List Ad) (xs : List Val),
    stdEval (fwd (pre ++ rest) true) xs.reverse = stdEval (fwd rest true) (stdEval pre xs).reverse := by
  intro pre
  induction pre with
  | nil => intro _ rest xs; rfl
  | cons a r ih =>
    intro hc rest xs
    cases a with
    | copied =>
      have := ih (by simpa [Commuting] using hc) rest xs
      simpa [fwd, stdEval, applyAd] using this
    | map f =>
      have := ih (by simpa [Commuting] using hc) rest (xs.map f)
      simpa [fwd, stdEval, applyAd, List.map_reverse] using this
    | filter p =>
      have := ih (by simpa [Commuting] using hc) rest (xs.filter p)
      simpa [fwd, stdEval, applyAd, List.filter_reverse] using this
    | filterMap f =>
      have := ih (by simpa [Commuting] using hc) rest (xs.filterMap f)
      simpa [fwd, stdEval, applyAd, List.filterMap_reverse] using this
    | flatMap f =>
      have := ih (by simpa [Commuting] using hc) rest (xs.flatMap f)
      have hrev : xs.reverse.flatMap (fun x => (f x).reverse) = (xs.flatMap f).reverse := by
        rw [List.reverse_flatMap]; rfl
      simpa [fwd, stdEval, applyAd, walk, hrev] using this
    | flatten =>
      have := ih (by simpa [Commuting] using hc) rest (xs.flatMap unseq)
      have hrev : xs.reverse.flatMap (fun x => (unseq x).reverse) = (xs.flatMap unseq).reverse := by
        rw [List.reverse_flatMap]; rfl
      simpa [fwd, stdEval, applyAd, walk, hrev] using this
    | rev => simp [Commuting] at hc
    | enumerate => simp [Commuting] at hc
    | skip _ => simp [Commuting] at hc
    | skipWhile _ => simp [Commuting] at hc
    | take _ => simp [Commuting] at hc
    | takeWhile _ => simp [Commuting] at hc
    | zip _ => simp [Commuting] at hc

private theorem hasRev_append_rev (pre post : List Ad) : hasRev (pre ++ .rev :: post) = true := by
  induction pre with
  | nil => rfl
  | cons a r ih => cases a <;> simp [hasRev, ih]

private theorem stdEval_append (pre post : List Ad) : ∀ xs,
    stdEval (pre ++ post) xs = stdEval post (stdEval pre xs) := by
  induction pre with
  | nil => intro xs; rfl
  | cons a r ih => intro xs; simp [stdEval, ih]

private theorem iterConsume_nonrev (cons : Cons) (hk : cons.isRev = false) (l : List Val) :
    iterConsume cons l = stdConsume cons l := by
  cases cons <;> simp [Cons.isRev] at hk <;> rfl

/-- COMMUTING FRAGMENT (full property): if only map / filter / filter_map / copied / flat_map /
    flatten precede the `rev()` (anything may follow it), konst = std. -/
theorem konst_eq_std_commuting (pre post : List Ad) (cons : Cons) (src : List Val)
    (hc : Commuting pre) (hp : NoRev post) (hk : cons.isRev = false) :
    konstEval (pre ++ .rev :: post) cons src = stdResult (pre ++ .rev :: post) cons src := by
  rw [konst_eq_std_normalised, hasRev_append_rev]
  simp only [Bool.true_or, walk, if_true]
  rw [commuting_prefix pre hc, iterConsume_nonrev cons hk]
  unfold stdResult
  rw [stdEval_append]
  simp only [fwd, stdEval, applyAd, Bool.not_true]
  rw [fwd_false_std post hp]

/-- a whole chain that commutes, driven backwards -/
private theorem commuting_rev (c : List Ad) (hc : Commuting c) (xs : List Val) :
    stdEval (fwd c true) xs.reverse = (stdEval c xs).reverse := by
  have := commuting_prefix c hc [] xs
  simpa [fwd, stdEval] using this

private theorem commuting_noRev : ∀ c, Commuting c → hasRev c = false := by
  intro c; induction c with
  | nil => intro _; rfl
  | cons a r ih => intro h; cases a <;> simp [Commuting] at h <;> simp [hasRev, ih h]

/-- REVERSING CONSUMERS (full property for `rfind`, `rfold`): after a commuting chain they equal
    std's; `rposition` equals std's up to its documented convention (`konst_rposition_doc`). -/
theorem konst_rconsumer_eq_std (c : List Ad) (cons : Cons) (src : List Val)
    (hc : Commuting c) (hk : cons.isRev = true) :
    konstEval c cons src = docResult c cons src := by
  rw [konst_eq_std_normalised, commuting_noRev c hc, hk]
  simp only [Bool.or_true, walk, if_true]
  rw [commuting_rev c hc]
  unfold docResult
  cases cons <;> simp [Cons.isRev] at hk <;> rfl

/-- documented exception 1: `rposition` counts from the back — konst's result is std's mirrored -/
theorem konst_rposition_doc (c : List Ad) (p : Val → Bool) (src : List Val) (hc : Commuting c) :
    konstEval c (.rposition p) src = .onat (((stdEval c src).reverse).findIdx? p) ∧
    stdResult c (.rposition p) src =
      .onat ((((stdEval c src).reverse).findIdx? p).map fun i => (stdEval c src).length - 1 - i) := by
  refine ⟨?_, rfl⟩
  rw [konst_rconsumer_eq_std c _ src hc rfl]; rfl

/-- documented exception 2: `enumerate` numbers from 0 in ITERATION order — an `enumerate()` right
    before the `rev()` numbers the reversed stream, i.e. behaves as std's `rev().enumerate()` -/
theorem konst_enumerate_rev_doc (pre post : List Ad) (cons : Cons) (src : List Val)
    (hc : Commuting pre) (hp : NoRev post) (hk : cons.isRev = false) :
    konstEval (pre ++ .enumerate :: .rev :: post) cons src
      = stdResult (pre ++ .rev :: .enumerate :: post) cons src := by
  rw [konst_eq_std_normalised]
  have hr : hasRev (pre ++ .enumerate :: .rev :: post) = true := by
    have := hasRev_append_rev (pre ++ [.enumerate]) post
    simpa using this
  rw [hr]
  simp only [Bool.true_or, walk, if_true]
  rw [commuting_prefix pre hc, iterConsume_nonrev cons hk]
  unfold stdResult
  rw [stdEval_append]
  simp only [fwd, stdEval, applyAd, Bool.not_true]
  rw [fwd_false_std post hp]

/-- F7 in closed form, `take`: a `take(k)` right before the `rev()` takes from the REVERSED stream — konst
    computes what std computes for `rev().take(k)` (std's `take(k).rev()` would keep the first `k`) -/
theorem konst_take_rev_char (pre post : List Ad) (k : Nat) (cons : Cons) (src : List Val)
    (hc : Commuting pre) (hp : NoRev post) (hk : cons.isRev = false) :
    konstEval (pre ++ .take k :: .rev :: post) cons src
      = stdResult (pre ++ .rev :: .take k :: post) cons src := by
  rw [konst_eq_std_normalised]
  have hr : hasRev (pre ++ .take k :: .rev :: post) = true := by
    have := hasRev_append_rev (pre ++ [.take k]) post
    simpa using this
  rw [hr]
  simp only [Bool.true_or, walk, if_true]
  rw [commuting_prefix pre hc, iterConsume_nonrev cons hk]
  unfold stdResult
  rw [stdEval_append]
  simp only [fwd, stdEval, applyAd, Bool.not_true]
  rw [fwd_false_std post hp]

/-- F7 in closed form, `skip` -/
theorem konst_skip_rev_char (pre post : List Ad) (k : Nat) (cons : Cons) (src : List Val)
    (hc : Commuting pre) (hp : NoRev post) (hk : cons.isRev = false) :
    konstEval (pre ++ .skip k :: .rev :: post) cons src
      = stdResult (pre ++ .rev :: .skip k :: post) cons src := by
  rw [konst_eq_std_normalised]
  have hr : hasRev (pre ++ .skip k :: .rev :: post) = true := by
    have := hasRev_append_rev (pre ++ [.skip k]) post
    simpa using this
  rw [hr]
  simp only [Bool.true_or, walk, if_true]
  rw [commuting_prefix pre hc, iterConsume_nonrev cons hk]
  unfold stdResult
  rw [stdEval_append]
  simp only [fwd, stdEval, applyAd, Bool.not_true]
  rw [fwd_false_std post hp]

/-- F7 in closed form, `zip`: the zipped iterator is walked from ITS back as well, pairing last with
    last without trimming the longer side — std's `rev().zip(other.rev())` -/
theorem konst_zip_rev_char (pre post : List Ad) (other : List Val) (cons : Cons) (src : List Val)
    (hc : Commuting pre) (hp : NoRev post) (hk : cons.isRev = false) :
    konstEval (pre ++ .zip other :: .rev :: post) cons src
      = stdResult (pre ++ .rev :: .zip other.reverse :: post) cons src := by
  rw [konst_eq_std_normalised]
  have hr : hasRev (pre ++ .zip other :: .rev :: post) = true := by
    have := hasRev_append_rev (pre ++ [.zip other]) post
    simpa using this
  rw [hr]
  simp only [Bool.true_or, walk, if_true]
  rw [commuting_prefix pre hc, iterConsume_nonrev cons hk]
  unfold stdResult
  rw [stdEval_append]
  simp only [fwd, stdEval, applyAd, Bool.not_true, walk, if_true]
  rw [fwd_false_std post hp]

/-- `collect_const!`: both const-evaluation passes run the same loop, so the `length == CAP` assert
    before `array_assume_init` never fires, and the array is exactly the items of the chain -/
theorem collectConst_eq (c : List Ad) (src : List Val) :
    ∃ l, collectConst c src = some l ∧ konstEval c .collect src = .items l ∧
      l = stdEval (fwd c (hasRev c)) (walk (hasRev c) src) := by
  have key : ∀ (l l0 : List Val), (consMany .collect ⟨.items l0, l0.length⟩ l).1
      = ⟨.items (l0 ++ l), (l0 ++ l).length⟩ := by
    intro l; induction l with
    | nil => intro l0; simp [consMany]
    | cons x xs ih =>
      intro l0
      simp only [consMany, consStep]
      have := ih (l0 ++ [x])
      simpa using this
  have hrun : runLoop c (hasRev c) .collect (initSt c) (consInit .collect) (walk (hasRev c) src)
      = ⟨.items (stdEval (fwd c (hasRev c)) (walk (hasRev c) src)),
         (stdEval (fwd c (hasRev c)) (walk (hasRev c) src)).length⟩ := by
    rw [runLoop_dir, fwdSt_init, runLoop_fwd _ (fwd_noRev _ _) _ _ _ _ (wf_init _), stdEvalSt_init]
    have := key (stdEval (fwd c (hasRev c)) (walk (hasRev c) src)) []
    simpa [consInit] using this
  refine ⟨_, ?_, ?_, rfl⟩
  · unfold collectConst
    simp only [hrun, and_self, if_true]
  · unfold konstEval
    simp only [Cons.isRev, Bool.or_false, hrun]

/-- the LITERAL shape of the emitted loop nest (`konstEvalK`: consumer code innermost, every
    `break 'label` leaves the whole nest at once — this is what the driver executes against the real
    macros) computes exactly what the items-then-consumer formulation `konstEval` computes; hence every
    theorem of this file holds verbatim of `konstEvalK` -/
theorem literal_loop_eq (c : List Ad) (cons : Cons) (src : List Val) :
    konstEvalK c cons src = konstEval c cons src := konstEvalK_eq c cons src

/-- the forward fragment, stated directly for the literal loop nest -/
theorem literal_forward_eq_std (c : List Ad) (cons : Cons) (src : List Val)
    (hc : hasRev c = false) (hk : cons.isRev = false) :
    konstEvalK c cons src = stdResult c cons src := by
  rw [literal_loop_eq]; exact konst_forward_eq_std c cons src hc hk

/-- the exact characterisation, stated directly for the literal loop nest -/
theorem literal_eq_std_normalised (c : List Ad) (cons : Cons) (src : List Val) :
    konstEvalK c cons src =
      iterConsume cons (stdEval (fwd c (hasRev c || cons.isRev)) (walk (hasRev c || cons.isRev) src)) := by
  rw [literal_loop_eq]; exact konst_eq_std_normalised c cons src

/-! ### F7: outside the fragments the full statement is false — of the model exactly as of the code
    (kernel-evaluated witnesses; the same programs are replayed on the implementation) -/

private def n (i : Int) : Val := .n i
private def src5 : List Val := [n 1, n 2, n 3, n 4, n 5]

theorem take_rev_differs :
    konstEval [.take 2, .rev] .forEach src5 = .items [n 5, n 4] ∧
    stdResult [.take 2, .rev] .forEach src5 = .items [n 2, n 1] := by decide

theorem skip_rev_differs :
    konstEval [.skip 3, .rev] .forEach src5 = .items [n 2, n 1] ∧
    stdResult [.skip 3, .rev] .forEach src5 = .items [n 5, n 4] := by decide

theorem zip_rev_differs :
    konstEval [.zip [n 7, n 8], .rev] .forEach src5 = .items [.pair (n 5) (n 8), .pair (n 4) (n 7)] ∧
    stdResult [.zip [n 7, n 8], .rev] .forEach src5 = .items [.pair (n 2) (n 8), .pair (n 1) (n 7)] := by
  decide

theorem take_rfind_differs :
    konstEval [.take 2] (.rfind fun _ => true) src5 = .opt (some (n 5)) ∧
    stdResult [.take 2] (.rfind fun _ => true) src5 = .opt (some (n 2)) := by decide


/-! ### closure calls -/

/-- the logged model computes the same value as the literal loop nest / the items-then-consumer model -/
theorem calls_erase (c : List Ad) (cons : Cons) (src : List Val) :
    (konstEvalL c cons src).1 = konstEvalK c cons src ∧ (konstEvalL c cons src).1 = konstEval c cons src :=
  ⟨konstEvalL_fst c cons src, by rw [konstEvalL_fst, konstEvalK_eq]⟩

private theorem konstEvalL_snd (c : List Ad) (cons : Cons) (src : List Val) :
    (konstEvalL c cons src).2 =
      (runLoopKL c (hasRev c || cons.isRev) cons (initSt c) (consInit cons) (walk (hasRev c || cons.isRev) src)).2 := by
  unfold konstEvalL
  simp only []

/-- FORWARD FRAGMENT, the calls (every chain of any depth, every closure, every consumer, every
    source): the calls the emitted code makes, in order, are the calls of the std chain. -/
theorem konst_forward_calls (c : List Ad) (cons : Cons) (src : List Val)
    (hc : hasRev c = false) (hk : cons.isRev = false) :
    stdCalls c cons src = some (konstEvalL c cons src).2 := by
  unfold stdCalls
  rw [anyRev_eq_hasRev, hc, hk, konstEvalL_snd]
  simp only [hc, hk, Bool.or_false, walk, Bool.false_eq_true, if_false]
  rw [runLoopKL_fwd c (noRev_of_hasRev c hc) cons src _ _ (wf_init c) (cwf_init cons),
    stdEvalStE_init, resid_init]

/-- FORWARD FRAGMENT, full statement for (value, calls): konst's value and closure calls are those
    of the std chain. -/
theorem konst_forward_calls_eq_std (c : List Ad) (cons : Cons) (src : List Val)
    (hc : hasRev c = false) (hk : cons.isRev = false) :
    ∃ l, stdCalls c cons src = some l ∧ konstEvalL c cons src = (stdResult c cons src, l) := by
  refine ⟨_, konst_forward_calls c cons src hc hk, ?_⟩
  have h : (konstEvalL c cons src).1 = stdResult c cons src := by
    rw [(calls_erase c cons src).2]; exact konst_forward_eq_std c cons src hc hk
  rw [← h]

/-- closures that panic on given calls: the invocation panics after the same calls as the std chain,
    or completes with the same value and calls -/
theorem hostile_forward_eq_std (c : List Ad) (cons : Cons) (src : List Val) (poison : Call → Bool)
    (hc : hasRev c = false) (hk : cons.isRev = false) :
    ∃ l, stdCalls c cons src = some l ∧
      hostile poison (konstEvalL c cons src) = hostile poison (stdResult c cons src, l) := by
  obtain ⟨l, h1, h2⟩ := konst_forward_calls_eq_std c cons src hc hk
  exact ⟨l, h1, by rw [h2]⟩

/-- EVERY chain without `flatten`, every consumer: the calls are those of the normalised forward chain
    `fwd c d` (same method positions) on the source in iteration order -/
theorem konst_calls_normalised (c : List Ad) (cons : Cons) (src : List Val) (hf : noFlatten c = true) :
    (konstEvalL c cons src).2 =
      consumeCalls c.length cons
        (stdEvalE 0 (fwd c (hasRev c || cons.isRev)) ((walk (hasRev c || cons.isRev) src).map .item)) := by
  rw [konstEvalL_snd, runLoopKL_dir c hf, fwdSt_init,
    runLoopKL_fwd _ (fwd_noRev _ _) cons _ _ _ (wf_init _) (cwf_init cons),
    stdEvalStE_init, resid_init, fwd_length]

/-! F21, F22 (fixed by 9827f8a, 7ecb606): the former counterexamples — a closure-taking method before a
    `take`, a `take(0)` after a `flat_map` — evaluated: nothing runs on an item that is not yielded -/

private def dbl : Val → Val := fun v => match v with | .n i => .n (i * 2) | w => w
private def lt3 : Val → Bool := fun v => match v with | .n i => decide (i < 3) | _ => false
private def twice : Val → List Val := fun v => [v, v]

theorem map_take_calls :
    konstEvalL [.map dbl, .take 1] .forEach [n 1, n 2, n 3] = (.items [n 2], [(0, n 1), (2, n 2)]) ∧
    stdCalls [.map dbl, .take 1] .forEach [n 1, n 2, n 3] = some [(0, n 1), (2, n 2)] := by decide

theorem take0_calls :
    (konstEvalL [.filter lt3, .take 0] .count [n 1, n 2]).2 = [] ∧
    stdCalls [.filter lt3, .take 0] .count [n 1, n 2] = some [] := by decide

theorem flat_map_take0_calls :
    (konstEvalL [.map dbl, .flatMap twice, .take 0] .count [n 1, n 2]).2 = [] ∧
    (konstEvalL [.flatMap twice, .take 3] .count [n 1, n 2, n 3]).2 = [(0, n 1), (0, n 2)] ∧
    stdCalls [.flatMap twice, .take 3] .count [n 1, n 2, n 3] = some [(0, n 1), (0, n 2)] := by decide

-- non-vacuity: `skip_while` stops calling its predicate after the first `false` (1, 2 pass, 5 fails,
-- 0 and 1 are never tested); `take_while` stops the whole loop
example : konstEvalL [.skipWhile lt3] .forEach [n 1, n 2, n 5, n 0, n 1]
    = (.items [n 5, n 0, n 1], [(0, n 1), (0, n 2), (0, n 5), (1, n 5), (1, n 0), (1, n 1)]) := by decide
example : konstEvalL [.takeWhile lt3, .map dbl] .count [n 1, n 5, n 0] = (.nat 1, [(0, n 1), (1, n 1), (0, n 5)]) := by
  decide
example : hostile (· == (0, n 0)) (konstEvalL [.skipWhile lt3] .forEach [n 1, n 5, n 0]) =
    .inr (.items [n 5, n 0], [(0, n 1), (0, n 5), (1, n 5), (1, n 0)]) := by decide
example : hostile (· == (0, n 5)) (konstEvalL [.skipWhile lt3] .forEach [n 1, n 5, n 0]) =
    .inl [(0, n 1), (0, n 5)] := by decide

-- non-vacuity: the fragments are inhabited by non-trivial chains, and the theorems compute
example : Commuting [.copied, .map id, .flatMap fun v => [v, v]] := by simp [Commuting]
example : konstEval [.skip 1, .take 2, .map fun v => .pair v v] .count src5 = .nat 2 := by decide
example : konstEval [.flatMap fun v => [v, v], .rev, .take 3] .forEach src5
    = stdResult [.flatMap fun v => [v, v], .rev, .take 3] .forEach src5 := by decide
example : collectConst [.map id, .rev, .skip 1] src5 = some [n 4, n 3, n 2, n 1] := by decide

end Konst.Props.C10
