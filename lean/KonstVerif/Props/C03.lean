import KonstVerif.Model.Utf8
import KonstVerif.Spec.Str
import KonstVerif.Lemmas.Utf8
import KonstVerif.Props.C02
/-
  C03 — String slicing agrees with std str indexing, including char-boundary rules.
  Property theorems only.  Throughout: `cs` is any list of scalar values (the chars of the
  string), the string's bytes are `encs cs` — i.e. every valid `&str`; indices are arbitrary `Nat`s.
  Results are compared as the bytes the returned view denotes (`View.apply`); `result_valid`
  adds that every returned view lies inside the argument and denotes valid UTF-8.
-/
namespace Konst.Props.C03
open Konst Konst.Utf8 Konst.Spec.Utf8 Konst.Spec.Str Konst.Lemmas.Utf8

private theorem std_iff (cs : List Nat) (i : Nat) :
    stdIsCharBoundary cs i = true ↔ IsBoundary cs i := by
  simp [stdIsCharBoundary, mem_boundaries_iff]

/-- the boundary predicate, Prop form: for every valid string and EVERY index (beyond the length
    included) `is_char_boundary` holds exactly at the prefix sums of the character lengths -/
theorem isCharBoundary_iff (cs : List Nat) (hs : ∀ c ∈ cs, isScalar c = true) (i : Nat) :
    isCharBoundary (encs cs) i = true ↔ IsBoundary cs i :=
  boundary_iff cs hs i

/-- the boundary predicate equals `str::is_char_boundary` -/
theorem isCharBoundary_eq_std (cs : List Nat) (hs : ∀ c ∈ cs, isScalar c = true) (i : Nat) :
    isCharBoundary (encs cs) i = stdIsCharBoundary cs i := by
  rw [Bool.eq_iff_iff, isCharBoundary_iff cs hs, std_iff]

private theorem bnd (cs : List Nat) (hs : ∀ c ∈ cs, isScalar c = true) (i : Nat) :
    isCharBoundaryBytes (encs cs) i = stdIsCharBoundary cs i := isCharBoundary_eq_std cs hs i

private theorem std_le (cs : List Nat) (i : Nat) (h : stdIsCharBoundary cs i = true) :
    i ≤ (encs cs).length := boundary_le cs i ((std_iff cs i).mp h)

private theorem std_len (cs : List Nat) : stdIsCharBoundary cs (encs cs).length = true :=
  (std_iff cs _).mpr (boundary_len cs)

private theorem forg (cs : List Nat) (hs : ∀ c ∈ cs, isScalar c = true) (i : Nat) :
    isCharBoundaryForgiving (encs cs) i = (decide (i ≥ (encs cs).length) || stdIsCharBoundary cs i) := by
  rw [forgiving_eq, bnd cs hs]

/-- the forgiving test is the strict test at the clamped index -/
private theorem forg_clamp (cs : List Nat) (hs : ∀ c ∈ cs, isScalar c = true) (i : Nat) :
    isCharBoundaryForgiving (encs cs) i = stdIsCharBoundary cs (clamp cs i) := by
  rw [forg cs hs, clamp]
  by_cases h : i ≥ (encs cs).length
  · rw [Nat.min_eq_right h, std_len]; simp [h]
  · rw [Nat.min_eq_left (by omega)]; simp [h]

/-- `get_from` = `str.get(a..)` -/
theorem getFrom_eq_std (cs : List Nat) (hs : ∀ c ∈ cs, isScalar c = true) (a : Nat) :
    (getFrom (encs cs) a).map (·.apply (encs cs)) = stdGetFrom cs a := by
  have h2 := C02.getFrom_eq_std (encs cs) a
  unfold getFrom
  rw [bnd cs hs]
  unfold Spec.Str.stdGetFrom
  by_cases hb : stdIsCharBoundary cs a = true
  · have hle := std_le cs a hb
    cases hg : Slice.getFrom (encs cs).length a with
    | none => rw [hg] at h2; simp [Spec.stdGetFrom, hle] at h2
    | some x =>
      rw [hg] at h2
      simp only [Spec.stdGetFrom, hle, if_true, Option.map_some, Option.some.injEq] at h2
      simp [hb, h2]
  · cases hg : Slice.getFrom (encs cs).length a <;> simp [hb]

/-- `get_up_to` = `str.get(..b)` -/
theorem getUpTo_eq_std (cs : List Nat) (hs : ∀ c ∈ cs, isScalar c = true) (b : Nat) :
    (getUpTo (encs cs) b).map (·.apply (encs cs)) = stdGetUpTo cs b := by
  have h2 := C02.getUpTo_eq_std (encs cs) b
  unfold getUpTo
  rw [bnd cs hs]
  unfold Spec.Str.stdGetUpTo
  by_cases hb : stdIsCharBoundary cs b = true
  · have hle := std_le cs b hb
    cases hg : Slice.getUpTo (encs cs).length b with
    | none => rw [hg] at h2; simp [Spec.stdGetUpTo, hle] at h2
    | some x =>
      rw [hg] at h2
      simp only [Spec.stdGetUpTo, hle, if_true, Option.map_some, Option.some.injEq] at h2
      simp [hb, h2]
  · cases hg : Slice.getUpTo (encs cs).length b <;> simp [hb]

/-- `get_range` = `str.get(a..b)`, `a > b` and out-of-range indices included -/
theorem getRange_eq_std (cs : List Nat) (hs : ∀ c ∈ cs, isScalar c = true) (a b : Nat) :
    (getRange (encs cs) a b).map (·.apply (encs cs)) = stdGetRange cs a b := by
  have h2 := C02.getRange_eq_std (encs cs) a b
  unfold getRange
  rw [bnd cs hs, bnd cs hs]
  unfold Spec.Str.stdGetRange
  by_cases hb : stdIsCharBoundary cs a = true ∧ stdIsCharBoundary cs b = true
  · have hle := std_le cs b hb.2
    by_cases hab : a ≤ b
    · cases hg : Slice.getRange (encs cs).length a b with
      | none => rw [hg] at h2; simp [Spec.stdGetRange, hle, hab] at h2
      | some x =>
        rw [hg] at h2
        simp only [Spec.stdGetRange, hle, hab, and_self, if_true, Option.map_some,
          Option.some.injEq] at h2
        simp [hb, hab, h2]
    · cases hg : Slice.getRange (encs cs).length a b with
      | none => simp [hab]
      | some x => rw [hg] at h2; simp [Spec.stdGetRange, hab] at h2
  · have hb' : ¬ (a ≤ b ∧ stdIsCharBoundary cs a = true ∧ stdIsCharBoundary cs b = true) :=
      fun h => hb h.2
    have hb2 : (stdIsCharBoundary cs a && stdIsCharBoundary cs b) = false := by
      rw [Bool.and_eq_false_iff]
      by_cases h1 : stdIsCharBoundary cs a = true
      · right; simpa using fun h => hb ⟨h1, h⟩
      · left; simpa using h1
    cases hg : Slice.getRange (encs cs).length a b <;> simp [hb', hb2]

/-- `str_from` = `&s[min(a, len)..]`, the `ok`/`panic` outcome included -/
theorem strFrom_eq_clamped_std (cs : List Nat) (hs : ∀ c ∈ cs, isScalar c = true) (a : Nat) :
    (strFrom (encs cs) a).toOption.map (·.apply (encs cs)) = clampedFrom cs a := by
  unfold strFrom clampedFrom Spec.Str.stdGetFrom
  rw [forg_clamp cs hs]
  by_cases hb : stdIsCharBoundary cs (clamp cs a) = true
  · simp only [hb, if_true, Except.toOption, Option.map_some, C02.sliceFrom_eq_std_or_clamp,
      Spec.stdGetFrom]
    unfold clamp
    by_cases h : a ≤ (encs cs).length
    · simp [h, Nat.min_eq_left h]
    · simp [h, Nat.min_eq_right (Nat.le_of_not_le h)]
  · simp [hb, Except.toOption]

/-- `str_up_to` = `&s[..min(b, len)]` -/
theorem strUpTo_eq_clamped_std (cs : List Nat) (hs : ∀ c ∈ cs, isScalar c = true) (b : Nat) :
    (strUpTo (encs cs) b).toOption.map (·.apply (encs cs)) = clampedUpTo cs b := by
  unfold strUpTo clampedUpTo Spec.Str.stdGetUpTo
  rw [forg_clamp cs hs]
  by_cases hb : stdIsCharBoundary cs (clamp cs b) = true
  · simp only [hb, if_true, Except.toOption, Option.map_some, C02.sliceUpTo_eq_std_or_clamp,
      Spec.stdGetUpTo]
    unfold clamp
    by_cases h : b ≤ (encs cs).length
    · simp [h, Nat.min_eq_left h]
    · simp [h, Nat.min_eq_right (Nat.le_of_not_le h)]
  · simp [hb, Except.toOption]

/-- `str_range` = `&s[min(a,len)..min(b,len)]`, the empty string when the clamped start exceeds
    the clamped end, panic iff a clamped index is not a boundary -/
theorem strRange_eq_clamped_std (cs : List Nat) (hs : ∀ c ∈ cs, isScalar c = true) (a b : Nat) :
    (strRange (encs cs) a b).toOption.map (·.apply (encs cs)) = clampedRange cs a b := by
  unfold strRange clampedRange
  simp only []
  rw [forg_clamp cs hs, forg_clamp cs hs]
  by_cases ha : stdIsCharBoundary cs (clamp cs a) = true
  · by_cases hb : stdIsCharBoundary cs (clamp cs b) = true
    · simp only [ha, hb, Bool.and_self, if_true, and_self, Except.toOption, Option.map_some,
        (C02.sliceRange_eq_std_or_clamp (encs cs) a b).1]
      unfold Spec.Str.stdGetRange clamp
      by_cases hab : min a (encs cs).length ≤ min b (encs cs).length
      · simp only [hab, if_true, true_and]
        have ha' : stdIsCharBoundary cs (min a (encs cs).length) = true := ha
        have hb' : stdIsCharBoundary cs (min b (encs cs).length) = true := hb
        simp only [ha', hb', and_self, if_true, Option.some.injEq]
        rw [List.drop_take]
        by_cases h1 : a ≤ (encs cs).length
        · by_cases h2 : b ≤ (encs cs).length
          · simp [Nat.min_eq_left h1, Nat.min_eq_left h2]
          · have h2' : (encs cs).length ≤ b := by omega
            rw [Nat.min_eq_left h1, Nat.min_eq_right h2']
            rw [List.take_of_length_le (by rw [List.length_drop]; omega),
              List.take_of_length_le (by rw [List.length_drop]; omega)]
        · have h1' : (encs cs).length ≤ a := by omega
          rw [List.drop_eq_nil_of_le h1', Nat.min_eq_right h1']
          simp
      · simp only [hab, if_false, Option.some.injEq]
        have : b ≤ a := by
          rcases Nat.le_total a b with h | h
          · exfalso; apply hab
            exact (Nat.le_min).mpr ⟨Nat.le_trans (Nat.min_le_left _ _) h, Nat.min_le_right _ _⟩
          · exact h
        rw [List.drop_eq_nil_of_le (by simp; omega)]
    · simp [ha, hb, Except.toOption]
  · simp [ha, Except.toOption]

/-- `split_at` = `s.split_at(min(i, len))` -/
theorem splitAt_eq_clamped_std (cs : List Nat) (hs : ∀ c ∈ cs, isScalar c = true) (i : Nat) :
    (splitAt (encs cs) i).toOption.map (fun p => (p.1.apply (encs cs), p.2.apply (encs cs)))
      = clampedSplitAt cs i := by
  have h1 := strUpTo_eq_clamped_std cs hs i
  have h2 := strFrom_eq_clamped_std cs hs i
  unfold clampedUpTo Spec.Str.stdGetUpTo at h1
  unfold clampedFrom Spec.Str.stdGetFrom at h2
  unfold splitAt clampedSplitAt Spec.Str.stdSplitAt
  by_cases hb : stdIsCharBoundary cs (clamp cs i) = true
  · simp only [hb, if_true] at h1 h2 ⊢
    cases hu : strUpTo (encs cs) i with
    | error p => rw [hu] at h1; simp [Except.toOption] at h1
    | ok u =>
      cases hf : strFrom (encs cs) i with
      | error p => rw [hf] at h2; simp [Except.toOption] at h2
      | ok f =>
        rw [hu] at h1; rw [hf] at h2
        simp only [Except.toOption, Option.map_some, Option.some.injEq] at h1 h2
        simp [bind, Except.bind, pure, Except.pure, Except.toOption, h1, h2]
  · simp only [hb, Bool.false_eq_true, if_false] at h1 h2 ⊢
    cases hu : strUpTo (encs cs) i with
    | error p => simp [bind, Except.bind, Except.toOption]
    | ok u => rw [hu] at h1; simp [Except.toOption] at h1

/-- the clamping functions panic exactly when an in-range index falls inside a character
    (is not a prefix sum of character lengths); indices at or beyond the length never panic -/
theorem strFrom_panics_iff (cs : List Nat) (hs : ∀ c ∈ cs, isScalar c = true) (a : Nat) :
    (∃ p, strFrom (encs cs) a = .error p) ↔ a < (encs cs).length ∧ ¬ IsBoundary cs a := by
  unfold strFrom
  rw [forg cs hs, ← std_iff]
  by_cases h : a ≥ (encs cs).length
  · simp [h]; omega
  · by_cases hb : stdIsCharBoundary cs a = true <;> simp [h, hb] <;> omega

theorem strUpTo_panics_iff (cs : List Nat) (hs : ∀ c ∈ cs, isScalar c = true) (b : Nat) :
    (∃ p, strUpTo (encs cs) b = .error p) ↔ b < (encs cs).length ∧ ¬ IsBoundary cs b := by
  unfold strUpTo
  rw [forg cs hs, ← std_iff]
  by_cases h : b ≥ (encs cs).length
  · simp [h]; omega
  · by_cases hb : stdIsCharBoundary cs b = true <;> simp [h, hb] <;> omega

theorem strRange_panics_iff (cs : List Nat) (hs : ∀ c ∈ cs, isScalar c = true) (a b : Nat) :
    (∃ p, strRange (encs cs) a b = .error p) ↔
      (a < (encs cs).length ∧ ¬ IsBoundary cs a) ∨ (b < (encs cs).length ∧ ¬ IsBoundary cs b) := by
  unfold strRange
  simp only []
  rw [forg cs hs, forg cs hs, ← std_iff, ← std_iff]
  by_cases ha : a ≥ (encs cs).length <;> by_cases hb : b ≥ (encs cs).length <;>
    by_cases ha2 : stdIsCharBoundary cs a = true <;> by_cases hb2 : stdIsCharBoundary cs b = true <;>
    simp [ha, hb, ha2, hb2] <;> omega

theorem splitAt_panics_iff (cs : List Nat) (hs : ∀ c ∈ cs, isScalar c = true) (i : Nat) :
    (∃ p, splitAt (encs cs) i = .error p) ↔ i < (encs cs).length ∧ ¬ IsBoundary cs i := by
  rw [← strFrom_panics_iff cs hs i]
  have hu := strUpTo_panics_iff cs hs i
  have hf := strFrom_panics_iff cs hs i
  unfold splitAt
  cases h1 : strUpTo (encs cs) i with
  | error p =>
    have : ∃ q, strFrom (encs cs) i = .error q := hf.mpr (hu.mp ⟨p, h1⟩)
    simp [bind, Except.bind, this]
  | ok u =>
    cases h2 : strFrom (encs cs) i with
    | error q => simp [bind, Except.bind]
    | ok f => simp [bind, Except.bind, pure, Except.pure]

/-- every sub-string any of the functions returns lies inside the argument and is valid UTF-8
    (this is what makes the `from_utf8_unchecked` in `__from_u8_subslice_of_str` sound; feeds C01) -/
theorem result_valid (cs : List Nat) (hs : ∀ c ∈ cs, isScalar c = true) (a b : Nat) :
    (∀ v, getFrom (encs cs) a = some v → v.InBounds (encs cs).length ∧ Valid (v.apply (encs cs))) ∧
    (∀ v, getUpTo (encs cs) b = some v → v.InBounds (encs cs).length ∧ Valid (v.apply (encs cs))) ∧
    (∀ v, getRange (encs cs) a b = some v → v.InBounds (encs cs).length ∧ Valid (v.apply (encs cs))) ∧
    (∀ v, strFrom (encs cs) a = .ok v → v.InBounds (encs cs).length ∧ Valid (v.apply (encs cs))) ∧
    (∀ v, strUpTo (encs cs) b = .ok v → v.InBounds (encs cs).length ∧ Valid (v.apply (encs cs))) ∧
    (∀ v, strRange (encs cs) a b = .ok v → v.InBounds (encs cs).length ∧ Valid (v.apply (encs cs))) ∧
    (∀ u v, splitAt (encs cs) a = .ok (u, v) →
      u.InBounds (encs cs).length ∧ Valid (u.apply (encs cs)) ∧
      v.InBounds (encs cs).length ∧ Valid (v.apply (encs cs))) := by
  have vib := C02.views_in_bounds (encs cs).length a b
  have vibb := C02.views_in_bounds (encs cs).length b b
  -- validity of the three shapes std can return
  have vFrom : ∀ i, stdIsCharBoundary cs i = true → Valid ((encs cs).drop i) :=
    fun i h => drop_valid cs hs i ((std_iff cs i).mp h)
  have vUpTo : ∀ i, stdIsCharBoundary cs i = true → Valid ((encs cs).take i) :=
    fun i h => take_valid cs hs i ((std_iff cs i).mp h)
  have vRange : ∀ i j, stdIsCharBoundary cs i = true → stdIsCharBoundary cs j = true →
      Valid (((encs cs).drop i).take (j - i)) :=
    fun i j h1 h2 => cut_valid cs hs i j ((std_iff cs i).mp h1) ((std_iff cs j).mp h2)
  have vNil : Valid [] := ⟨[], by simp, rfl⟩
  have kFrom : ∀ v, strFrom (encs cs) a = .ok v → v.InBounds (encs cs).length ∧ Valid (v.apply (encs cs)) := by
    intro v hv
    have e := strFrom_eq_clamped_std cs hs a
    rw [hv] at e
    unfold strFrom at hv
    split at hv
    · injection hv with hv; subst hv
      refine ⟨vib.2.2.2.2.1, ?_⟩
      simp only [Except.toOption, Option.map_some, clampedFrom, Spec.Str.stdGetFrom] at e
      split at e
      · injection e with e; rw [e]; exact vFrom _ (by assumption)
      · cases e
    · cases hv
  have kUpTo : ∀ i v, strUpTo (encs cs) i = .ok v → v.InBounds (encs cs).length ∧ Valid (v.apply (encs cs)) := by
    intro i v hv
    have e := strUpTo_eq_clamped_std cs hs i
    rw [hv] at e
    unfold strUpTo at hv
    split at hv
    · injection hv with hv; subst hv
      refine ⟨(C02.views_in_bounds (encs cs).length i i).2.2.2.2.2.1, ?_⟩
      simp only [Except.toOption, Option.map_some, clampedUpTo, Spec.Str.stdGetUpTo] at e
      split at e
      · injection e with e; rw [e]; exact vUpTo _ (by assumption)
      · cases e
    · cases hv
  refine ⟨?_, ?_, ?_, kFrom, kUpTo b, ?_, ?_⟩
  · intro v hv
    have e := getFrom_eq_std cs hs a
    rw [hv] at e
    refine ⟨?_, ?_⟩
    · unfold getFrom at hv
      cases hg : Slice.getFrom (encs cs).length a with
      | none => rw [hg] at hv; cases hv
      | some x =>
        rw [hg] at hv; simp only [] at hv
        split at hv
        · injection hv with hv; subst hv; exact vib.1 x hg
        · cases hv
    · simp only [Option.map_some, Spec.Str.stdGetFrom] at e
      split at e
      · injection e with e; rw [e]; exact vFrom _ (by assumption)
      · cases e
  · intro v hv
    have e := getUpTo_eq_std cs hs b
    rw [hv] at e
    refine ⟨?_, ?_⟩
    · unfold getUpTo at hv
      cases hg : Slice.getUpTo (encs cs).length b with
      | none => rw [hg] at hv; cases hv
      | some x =>
        rw [hg] at hv; simp only [] at hv
        split at hv
        · injection hv with hv; subst hv; exact vib.2.1 x hg
        · cases hv
    · simp only [Option.map_some, Spec.Str.stdGetUpTo] at e
      split at e
      · injection e with e; rw [e]; exact vUpTo _ (by assumption)
      · cases e
  · intro v hv
    have e := getRange_eq_std cs hs a b
    rw [hv] at e
    refine ⟨?_, ?_⟩
    · unfold getRange at hv
      cases hg : Slice.getRange (encs cs).length a b with
      | none => rw [hg] at hv; cases hv
      | some x =>
        rw [hg] at hv; simp only [] at hv
        split at hv
        · injection hv with hv; subst hv; exact vib.2.2.1 x hg
        · cases hv
    · simp only [Option.map_some, Spec.Str.stdGetRange] at e
      split at e
      · injection e with e; rw [e]
        rename_i h; exact vRange _ _ h.2.1 h.2.2
      · cases e
  · intro v hv
    have e := strRange_eq_clamped_std cs hs a b
    rw [hv] at e
    refine ⟨?_, ?_⟩
    · unfold strRange at hv
      simp only [] at hv
      split at hv
      · injection hv with hv; subst hv; exact vib.2.2.2.2.2.2.1
      · split at hv <;> cases hv
    · simp only [Except.toOption, Option.map_some, clampedRange] at e
      split at e
      · rename_i h
        split at e
        · unfold Spec.Str.stdGetRange at e
          split at e
          · injection e with e; rw [e]
            rename_i h'; exact vRange _ _ h'.2.1 h'.2.2
          · cases e
        · injection e with e; rw [e]; exact vNil
      · cases e
  · intro u v huv
    unfold splitAt at huv
    cases h1 : strUpTo (encs cs) a with
    | error p => rw [h1] at huv; simp [bind, Except.bind] at huv
    | ok u' =>
      cases h2 : strFrom (encs cs) a with
      | error p => rw [h1, h2] at huv; simp [bind, Except.bind] at huv
      | ok v' =>
        rw [h1, h2] at huv
        simp only [bind, Except.bind, pure, Except.pure, Except.ok.injEq, Prod.mk.injEq] at huv
        obtain ⟨rfl, rfl⟩ := huv
        exact ⟨(kUpTo a u' h1).1, (kUpTo a u' h1).2, (kFrom v' h2).1, (kFrom v' h2).2⟩

/-! non-vacuity: the hypotheses are satisfiable, and each outcome occurs ("añ€😀" = 61 c3b1 e282ac f09f9880) -/

example : ∀ c ∈ [0x61, 0xF1, 0x20AC, 0x1F600], isScalar c = true := by decide
example : encs [0x61, 0xF1, 0x20AC, 0x1F600] = [0x61, 0xC3, 0xB1, 0xE2, 0x82, 0xAC, 0xF0, 0x9F, 0x98, 0x80] := by
  decide
example : isCharBoundary (encs [0x61, 0xF1, 0x20AC, 0x1F600]) 3 = true := by decide
example : isCharBoundary (encs [0x61, 0xF1, 0x20AC, 0x1F600]) 4 = false := by decide
example : isCharBoundary (encs [0x61, 0xF1, 0x20AC, 0x1F600]) 11 = false := by decide
example : getRange (encs [0x61, 0xF1, 0x20AC, 0x1F600]) 1 6 = some ⟨1, 5⟩ := by decide
example : getRange (encs [0x61, 0xF1, 0x20AC, 0x1F600]) 1 5 = none := by decide
example : strRange (encs [0x61, 0xF1, 0x20AC, 0x1F600]) 6 3 = .ok ⟨0, 0⟩ := by rfl
example : strRange (encs [0x61, 0xF1, 0x20AC, 0x1F600]) 3 100 = .ok ⟨3, 7⟩ := by rfl
example : strRange (encs [0x61, 0xF1, 0x20AC, 0x1F600]) 7 3 = .error ⟨"start", 7⟩ := by rfl
example : strFrom (encs [0x61, 0xF1, 0x20AC, 0x1F600]) 2 = .error ⟨"start", 2⟩ := by rfl
example : splitAt (encs [0x61, 0xF1, 0x20AC, 0x1F600]) 12 = .ok (⟨0, 10⟩, ⟨0, 0⟩) := by rfl

end Konst.Props.C03
