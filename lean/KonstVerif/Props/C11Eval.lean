import KonstVerif.Lemmas.ArrayEval
import KonstVerif.Props.C11
/-
  C11, part 2 — the array macros as EXPRESSIONS of the caller's program: how often and in which order the
  argument expressions are evaluated, which closure calls are made, which caller names the expansions can meet.
  Property theorems only (helper lemmas: Lemmas/ArrayEval).

  Three findings were made with these definitions and repaired in /repo (F11a 76ed0a3, F11b 5af8e6b, F11c c6bef38);
  the as-found definitions and their witnesses (`legacy_arrayMapL_short_ub`, `legacy_hijacked_by_ref`,
  `legacy_mapByVal_args_fn_first`, `legacy_transparent_witnesses`) are in Legacy/ArrayEval.lean, no obligation.
-/
namespace Konst.Props.C11
open Konst Konst.ArrayMacros Konst.ArrayEval Konst.Spec.ArrayStd Konst.Concat.Hyg
variable {α β : Type}

/-! ### argument expressions -/

/-- all four macros, in both forms of the closure argument: every argument expression is evaluated exactly as often
    and in the same order as by `<[T; N]>::map` / `core::array::from_fn` (once each, the array first), and the loop
    runs over those values -/
theorem args_as_std (arm : ClosureArm) :
    arrayMapArgs arm = stdMapArgs arm ∧ arrayMapByValArgs arm = stdMapArgs arm ∧
    arrayFromFnArgs arm = stdFromFnArgs arm := by
  cases arm <;> exact ⟨rfl, rfl, rfl⟩

/-- every macro evaluates each of its argument expressions exactly once -/
theorem args_once (arm : ClosureArm) (a : Arg) :
    (arrayMapArgs arm).count a = (stdMapArgs arm).count a ∧
    (arrayMapByValArgs arm).count a = (stdMapArgs arm).count a ∧
    (arrayFromFnArgs arm).count a = (stdFromFnArgs arm).count a := by
  cases arm <;> cases a <;> decide

/-- a function expression that looks at a shared counter sees what std's sees: one earlier evaluation (the array) in
    `map!` / `map_!`, none in `from_fn!` / `from_fn_!` -/
theorem args_clock (arm : ClosureArm) :
    (arrayMapArgs arm).clockAtFn = (stdMapArgs arm).clockAtFn ∧
    (arrayMapByValArgs arm).clockAtFn = (stdMapArgs arm).clockAtFn ∧
    (arrayFromFnArgs arm).clockAtFn = (stdFromFnArgs arm).clockAtFn := by
  cases arm <;> decide

/-! ### closure calls -/

/-- the call-recording loop with the bound `array_len(&$array)` = N is the loop the C11 theorems are about (ANY closure) -/
theorem arrayMapL_eq_arrayMap (xs : List α) (c : Nat → α → Outcome β) (fuel : Nat) :
    (arrayMapN fuel xs c).res = arrayMap fuel xs c := by
  simpa [arrayMapN, arrayMapL, arrayMap] using
    mapLoopL_res xs.length (fun i => xs[i]?) c fuel 0 0 (List.replicate xs.length none) [] (by simp)

theorem arrayFromFnL_eq_arrayFromFn (n : Nat) (c : Nat → Nat → Outcome β) (fuel : Nat) :
    (arrayFromFnN fuel n c).res = arrayFromFn fuel n c := by
  simpa [arrayFromFnN, arrayFromFnL, arrayFromFn] using
    mapLoopL_res n (fun i => some i) c fuel 0 0 (List.replicate n none) [] (by simp)

private theorem fetched_eq_go (xs : List α) :
    ∀ (k i : Nat), i + k ≤ xs.length →
      fetched (fun j => xs[j]?) i k = stdCalls.go i ((xs.drop i).take k) := by
  intro k
  induction k with
  | zero => intro i _; simp [fetched, stdCalls.go]
  | succ k ih =>
    intro i h
    have hi : i < xs.length := by omega
    rw [fetched_succ (a := xs[i]) (by simp [hi]), List.drop_eq_getElem_cons hi, List.take_succ_cons,
      stdCalls.go, ih (i + 1) (by omega)]

/-- `map!` with a well-behaved closure: the closure is called exactly once per element, in index order, with the
    element at that index (`stdCalls`), and the result is `<[T; N]>::map` -/
theorem arrayMapL_calls (xs : List α) (f : α → β) (c : Nat → α → Outcome β) (fuel : Nat)
    (hf : xs.length < fuel) (hc : ∀ t a, c t a = .value (f a)) :
    (arrayMapN fuel xs c).calls = stdCalls xs ∧
    (arrayMapN fuel xs c).res = .array (stdMap f xs) := by
  have h := mapLoopL_value xs.length xs.length (fun j => xs[j]?) f c hc
    (by intro j hj; simp [hj]) (Nat.le_refl _) xs.length 0 fuel [] [] (by omega) (by omega) rfl hf
  rw [outOf_nil] at h
  constructor
  · simp [arrayMapN, arrayMapL, h, fetched_eq_go xs xs.length 0 (by omega), stdCalls]
  · rw [arrayMapL_eq_arrayMap]
    exact arrayMap_value xs f c fuel hf (fun i a _ => hc i a)

/-- `from_fn!` with a well-behaved closure: call number `i` gets the index `i`, for `i = 0, 1, .., N-1` -/
theorem arrayFromFnL_calls (n : Nat) (f : Nat → β) (c : Nat → Nat → Outcome β) (fuel : Nat)
    (hf : n < fuel) (hc : ∀ t i, c t i = .value (f i)) :
    (arrayFromFnN fuel n c).calls = (List.range n).map (fun i => (i, i)) ∧
    (arrayFromFnN fuel n c).res = .array (stdFromFn n f) := by
  have h := mapLoopL_value n n (fun j => some j) f c hc
    (by intro j _; rfl) (Nat.le_refl _) n 0 fuel [] [] (by omega) (by omega) rfl hf
  rw [outOf_nil] at h
  constructor
  · simp [arrayFromFnN, arrayFromFnL, h, fetched, List.range_eq_range']
  · rw [arrayFromFnL_eq_arrayFromFn]
    exact arrayFromFn_value n f c fuel hf (fun i _ => hc i i)

/-- `map_!` with a well-behaved closure: the closure receives the elements once each, in order -/
theorem mapByVal_calls (xs : List α) (f : α → β) (c : Nat → α → Outcome β) (fuel : Nat)
    (hf : xs.length < fuel) (hc : ∀ t a, c t a = .value (f a)) :
    (arrayMapByVal fuel xs c).calls = xs := by
  have := byValLoop_value c xs (xs.map f) fuel 0 [] (ArrayConsumer.new xs) (ArrayBuilder.new xs.length) []
    (ArrayConsumer.wf_new xs) (ArrayBuilder.wf_new _) (by simp [ArrayBuilder.new]) hf (by simp)
    (by intro j a v _ hv
        simp only [List.getElem?_map] at hv
        rw [hc]
        cases hx : xs[j]? with
        | none => simp [hx] at hv
        | some b =>
          rename_i hj
          rw [hx] at hj hv
          cases hj
          simpa using hv)
  simp [arrayMapByVal, this]

/-! ### names -/

/-- `map!`: whatever the caller calls its variables, closure parameters, functions, types and modules, and wherever
    the argument mentions them, the invocation means what the caller wrote; the only names that are reserved are
    those of the expansion's `let`/`match` bindings — all of the form `__konst_am_*` / `__konst_pc_*` since c6bef38 —
    and only for a caller `const` / `static` / unit struct (which an identifier pattern can never shadow: E0530 /
    E0005 — true of every `macro_rules!` macro that binds a variable) -/
theorem arrayMap_transparent_iff (arm : ClosureArm) (frag : Option String) (d : Decl) (n : String) :
    transparentD (arrayMapSk arm) frag d n = true ↔ ¬ (d.shadowable = false ∧ n ∈ arrayBinders "map" arm) := by
  cases arm <;> cases frag <;> cases d <;> (try rename_i d; cases d) <;>
    simp [transparentD, captured, binderClash, gargClash, arrayMapSk, fnArmBinders, holes, holesL,
      binders, bindersL, gargsFree, gargsFreeL, decl, UserDecl.ns, UserDecl.shadowable, Decl.shadowable,
      arrayBinders, constItems] <;> grind

theorem arrayFromFn_transparent_iff (arm : ClosureArm) (frag : Option String) (d : Decl) (n : String) :
    transparentD (arrayFromFnSk arm) frag d n = true ↔ ¬ (d.shadowable = false ∧ n ∈ arrayBinders "from_fn" arm) := by
  cases arm <;> cases frag <;> cases d <;> (try rename_i d; cases d) <;>
    simp [transparentD, captured, binderClash, gargClash, arrayFromFnSk, fnArmBinders, holes, holesL,
      binders, bindersL, gargsFree, gargsFreeL, decl, UserDecl.ns, UserDecl.shadowable, Decl.shadowable,
      arrayBinders, constItems] <;> grind

theorem arrayMapByVal_transparent_iff (arm : ClosureArm) (frag : Option String) (d : Decl) (n : String) :
    transparentD (arrayMapByValSk arm) frag d n = true ↔ ¬ (d.shadowable = false ∧ n ∈ arrayBinders "map_" arm) := by
  cases arm <;> cases frag <;> cases d <;> (try rename_i d; cases d) <;>
    simp [transparentD, captured, binderClash, gargClash, arrayMapByValSk, byValBody, fnArmBinders, holes, holesL,
      binders, bindersL, gargsFree, gargsFreeL, decl, UserDecl.ns, UserDecl.shadowable, Decl.shadowable,
      arrayBinders, constItems] <;> grind

theorem arrayFromFnByVal_transparent_iff (arm : ClosureArm) (frag : Option String) (d : Decl) (n : String) :
    transparentD (arrayFromFnByValSk arm) frag d n = true ↔
      ¬ (d.shadowable = false ∧ n ∈ arrayBinders "from_fn_" arm) := by
  cases arm <;> cases frag <;> cases d <;> (try rename_i d; cases d) <;>
    simp [transparentD, captured, binderClash, gargClash, arrayFromFnByValSk, byValBody, fnArmBinders, holes,
      holesL, binders, bindersL, gargsFree, gargsFreeL, decl, UserDecl.ns, UserDecl.shadowable, Decl.shadowable,
      arrayBinders, constItems] <;> grind

/-- identifier patterns of the `collect_const!` expansion -/
def ccBinders : List String :=
  ["cmd", "array", "length", "iter", "elem_phantom_ty", "item", "elem_", "next_", "teq"]

/-- `collect_const!`: the iterator arguments are pasted into the body of `const fn __func_zxe7hgbnjs<Ret_.., CAP_..>`,
    next to which the two result constants are declared: those five (mangled) names are reserved, a caller TYPE named
    like the const generic is taken for the bare generic argument `CAP_KO9Y329U2U`, and a caller const / static cannot
    have the name of one of the bindings; a closure PARAMETER cannot be called like one of the three constants -/
theorem collectConst_transparent_iff (d : UserDecl) (n : String) :
    transparentD collectConstSk (some "rem") (.item d) n = true ↔
      ¬ ((d.ns = .val ∧ n ∈ ["CAP_KO9Y329U2U", "__func_zxe7hgbnjs", "__COUNT81608BFNA5", "__ARR81608BFNA5"]) ∨
         (d.ns = .ty ∧ (n = "Ret_KO9Y329U2U" ∨ n = "CAP_KO9Y329U2U")) ∨
         (d.shadowable = false ∧ n ∈ ccBinders)) := by
  cases d <;> simp [transparentD, captured, binderClash, gargClash, collectConstSk, holes, holesL,
    binders, bindersL, gargsFree, gargsFreeL, decl, UserDecl.ns, UserDecl.shadowable, ccBinders] <;> grind

theorem collectConst_param_transparent_iff (n : String) :
    transparentD collectConstSk (some "rem") .var n = true ↔ n ∉ constItems := by
  simp [transparentD, collectConstSk, holes, holesL, decl, constItems]
  grind

/-! ### method calls -/

/-- no method of a caller trait in scope can be picked by the four array expansions, whatever it is called and
    whatever its receiver: they call their helpers by PATH (`$crate::__::array_len`, `$crate::array::ArrayConsumer::next`,
    `$crate::array::ArrayBuilder::{infer_length_from_consumer, push, build}`) -/
theorem array_macros_not_hijacked (name : String) (s : Step) :
    hijacked "map" name s = false ∧ hijacked "from_fn" name s = false ∧
    hijacked "map_" name s = false ∧ hijacked "from_fn_" name s = false := by
  simp [hijacked, hijackedBy, methodCalls]

/-- `collect_const!`: its two method calls are inherent methods taking `self`, found at the first probing step -/
theorem collectConst_not_hijacked (name : String) (s : Step) : hijacked "cc" name s = false := by
  cases s <;> simp [hijacked, hijackedBy, methodCalls, Step.rank]

/-- only names the expansion itself calls with method syntax can be displaced -/
theorem hijacked_only_called (mac name : String) (s : Step) (h : hijacked mac name s = true) :
    name ∈ (methodCalls mac).map (·.1) := by
  simp only [hijacked, hijackedBy, List.any_eq_true] at h
  obtain ⟨⟨n, st⟩, hm, hn⟩ := h
  simp only [Bool.and_eq_true, beq_iff_eq] at hn
  exact List.mem_map.mpr ⟨(n, st), hm, hn.1⟩

/-! ### parameter patterns -/

/-- whatever binding mode the caller writes in the closure parameter of any of the four macros, the variable never
    refers to the expansion's loop counter with write access: the form is rejected by the borrow checker or binds
    the element / a copy of the index (as found `from_fn!` did alias it: `legacy_fromFn_refMut_aliases`, F11d) -/
theorem pattern_never_aliases_counter (mac : String) (m : BindMode) (used : Bool) :
    patVerdict (patPlace mac) m used ≠ .aliasesCounter := by
  have h : ∀ p, p ≠ PatPlace.counter → patVerdict p m used ≠ .aliasesCounter := by
    intro p hp; cases p <;> cases m <;> cases used <;> simp_all [patVerdict]
  apply h
  unfold patPlace
  split <;> simp

/-- `from_fn!` accepts every binding mode (the index is handed over by value, like std's closure parameter) -/
theorem fromFn_pattern_accepts (m : BindMode) (used : Bool) : patVerdict (patPlace "from_fn") m used = .accept := by
  cases m <;> rfl

/-! ### non-vacuity -/

example : (arrayMapN 10 [10, 11, 12] (fun _ a => .value (2 * a + 1))).calls = [(0, 10), (1, 11), (2, 12)] := by decide
example : (arrayFromFnN 10 2 (fun _ i => .value (3 * i + 2))).calls = [(0, 0), (1, 1)] := by decide
/-- the model is sensitive to the names and to the method table: see Legacy/ArrayEval.lean for the as-found ones -/
example : transparentD (arrayMapSk .literal) (some "closure") (.item .const) "len" = true := by decide
example : transparentD (arrayMapSk .literal) none (.item .const) "__konst_am_len" = false := by decide
example : transparentD (arrayMapSk .literal) (some "closure") (.item .const) "__konst_pc_func" = true := by decide
example : transparentD (arrayMapSk .expr) (some "closure") (.item .const) "__konst_pc_func" = false := by decide
example : transparentD (arrayMapByValSk .literal) none .ustruct "__konst_am_array" = false := by decide
example : transparentD (arrayMapSk .literal) (some "closure") (.item .fn) "__konst_am_len" = true := by decide
example : transparentD (arrayMapSk .literal) (some "closure") .var "__konst_am_len" = true := by decide
example : hijackedBy (fun _ => [("len", Step.unsize)]) "map" "len" .autoref = true := by decide
example : transparentD collectConstSk (some "rem") .var "__ARR81608BFNA5" = false := by decide
example : transparentD collectConstSk (some "rem") .var "__func_zxe7hgbnjs" = true := by decide
example : transparentD collectConstSk none (.item .tyAlias) "Ret_KO9Y329U2U" = true := by decide
example : transparentD collectConstSk (some "Item") (.item .tyAlias) "Ret_KO9Y329U2U" = false := by decide

end Konst.Props.C11
