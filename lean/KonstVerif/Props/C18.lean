import KonstVerif.Lemmas.LitDecode
import KonstVerif.Model.ParserMethod
import KonstVerif.Model.ParserMethodUse
import KonstVerif.Spec.ParserMethod
import KonstVerif.Lemmas.Utf8
/-
  C18 — `parser_method!` behaves like the equivalent chain of Parser method calls, and the bytes it
  matches for a literal are the bytes rustc gives that literal.

  Part (i): the literal decoder of konst_proc_macros (Model/LitDecode) = the Rust Reference's
  meaning of the literal (Spec/LitDecode), for every well-formed literal body / raw literal /
  `concat!` of them.
  Part (ii): the expanded matching code (Model/ParserMethod) = the property's description
  (Spec/ParserMethod) for every list of alternatives and every remainder.
  Part (iii): what the expansion does with the caller's PLACE expression, branch bodies and scope
  (Model/ParserMethodUse): for a place without side effects exactly what a method call on the place does;
  a place with side effects is evaluated four times (F18a, known finding).  As found, the find forms also
  captured a body's unlabeled `break` / `continue` (F18b, repaired by 5e6c5eb) and a caller constant / static /
  unit struct called `bytes`, `rem` or `brem` was not tolerated (F18c, repaired by ff38c77): see
  Legacy/ParserMethodUse.lean and notes/C18.md.
-/
namespace Konst.Props.C18
open Konst.Lit Konst.Lit.Spec Konst.Lit.Lemmas Konst.PM Konst.PM.Spec Konst.PM.Use

/-! ### part (i): literals -/

private theorem segs_le_render : ∀ (segs : List (List Char × Esc)) (tail : List Char),
    segs.length ≤ (renderSegs segs tail).length := by
  intro segs
  induction segs with
  | nil => intro tail; simp
  | cons s r ih =>
    intro tail
    obtain ⟨t, e⟩ := s
    have := ih tail
    simp only [renderSegs, List.length_append, List.length_cons]
    omega

/-- every well-formed string literal (plain characters and every escape kind: `\n \r \t \\ \0 \' \"`,
    `\xNN`, `\u{…}` with underscores, line continuations) is decoded to the string rustc assigns -/
theorem decode_eq_reference (b : Body) (h : b.WF) : parseString b.render = .ok b.meaning := by
  unfold parseString Body.render
  have hlast : ('"' :: renderSegs b.segs b.tail ++ ['"']).getLast? = some '"' := by
    rw [List.getLast?_eq_some_iff]; exact ⟨'"' :: renderSegs b.segs b.tail, rfl⟩
  simp only [hlast, ne_eq, not_true_eq_false, if_false]
  have hcons : ('"' :: renderSegs b.segs b.tail ++ ['"']) = '"' :: (renderSegs b.segs b.tail ++ ['"']) := rfl
  rw [hcons]
  have hdl : (renderSegs b.segs b.tail ++ ['"']).dropLast = renderSegs b.segs b.tail := by simp
  obtain ⟨y, ys, hy⟩ : ∃ y ys, renderSegs b.segs b.tail ++ ['"'] = y :: ys := by
    cases hX : renderSegs b.segs b.tail ++ ['"'] with
    | nil => simp at hX
    | cons y ys => exact ⟨y, ys, rfl⟩
  rw [hy]
  dsimp only
  rw [← hy, hdl]
  have := unescape_segs b.segs b.tail [] ((renderSegs b.segs b.tail ++ ['"']).length + 1) h (by
    have := segs_le_render b.segs b.tail
    simp only [List.length_append, List.length_cons, List.length_nil]; omega)
  simpa [Body.meaning] using this

/-- raw string literals with any number of hashes decode to their content verbatim -/
theorem decode_raw_eq (k : Nat) (content : List Char) :
    parseRawString (renderRaw k content) = .ok content := by
  unfold parseRawString renderRaw
  simp only [List.drop_one, List.tail_cons]
  have hall : ∀ c ∈ List.replicate k '#', decide (c = '#') = true := by
    intro c hc; simp [List.eq_of_mem_replicate hc]
  have hq : decide ('"' = '#') = false := by decide
  have htw : (List.replicate k '#' ++ '"' :: (content ++ '"' :: List.replicate k '#')).takeWhile (· = '#')
      = List.replicate k '#' :=
    (takeWhile_run (fun c => decide (c = '#')) _ '"' _ hall hq).1
  have hrev : (List.replicate k '#' ++ '"' :: (content ++ '"' :: List.replicate k '#')).reverse
      = List.replicate k '#' ++ '"' :: (content.reverse ++ '"' :: List.replicate k '#') := by
    simp [List.reverse_append, List.reverse_replicate]
  have htw2 : ((List.replicate k '#' ++ '"' :: (content ++ '"' :: List.replicate k '#')).reverse).takeWhile (· = '#')
      = List.replicate k '#' := by
    rw [hrev]
    exact (takeWhile_run (fun c => decide (c = '#')) _ '"' _ hall hq).1
  rw [htw, htw2]
  simp only [List.length_replicate, List.drop_left' (List.length_replicate ..)]
  simp only [ne_eq, not_true_eq_false, if_false, List.length_append, List.length_cons,
    List.length_replicate]
  have hlen : ¬ (k ≥ k + (content.length + (k + 1) + 1)) := by omega
  simp only [hlen, if_false]
  have hidx : k + (content.length + (k + 1) + 1) - 1 - k = k + 1 + content.length := by omega
  rw [hidx]
  have hget : (List.replicate k '#' ++ '"' :: (content ++ '"' :: List.replicate k '#'))[k + 1 + content.length]?
      = some '"' := by
    rw [List.getElem?_append_right (by simp; omega)]
    simp only [List.length_replicate]
    have : k + 1 + content.length - k = content.length + 1 := by omega
    rw [this, List.getElem?_cons_succ, List.getElem?_append_right (by omega)]
    simp
  rw [hget]
  simp only [not_true_eq_false, if_false]
  have hle : k + 1 ≤ k + 1 + content.length := by omega
  simp only [hle, if_true]
  congr 1
  have e : List.replicate k '#' ++ '"' :: (content ++ '"' :: List.replicate k '#')
      = (List.replicate k '#' ++ ['"']) ++ (content ++ '"' :: List.replicate k '#') := by simp
  rw [e, List.take_append]
  simp only [List.length_append, List.length_replicate, List.length_cons, List.length_nil]
  rw [List.take_of_length_le (by simp)]
  have : k + 1 + content.length - (k + 0 + 1) = content.length := by omega
  rw [this, List.take_left' rfl, List.drop_left' (by simp)]

/-- `concat!(l1, l2, …)` matches the concatenation of the literals' strings -/
theorem decode_concat (bs : List Body) (h : ∀ b ∈ bs, b.WF) :
    parseConcat (bs.map Body.render) = .ok (bs.flatMap Body.meaning) := by
  induction bs with
  | nil => rfl
  | cons b r ih =>
    have hb := decode_eq_reference b (h b (by simp))
    have hr := ih (fun x hx => h x (by simp [hx]))
    have hlit : parseLiteral b.render = parseString b.render := by
      simp [parseLiteral, Body.render]
    simp only [List.map_cons, parseConcat, hlit, hb, hr, List.flatMap_cons]

/-! ### part (ii): the expanded matching code -/

/-- a `match` over the generated slice patterns runs the FIRST listed alternative that is a prefix -/
theorem firstArm_start (arms : Arms) (bytes : List Nat) :
    firstArm matchStart arms bytes = stripPrefixSpec arms bytes := by
  induction arms with
  | nil => rfl
  | cons a r ih =>
    obtain ⟨i, lit⟩ := a
    unfold stripPrefixSpec firstPrefix at *
    simp only [firstArm, matchStart, List.find?_cons]
    by_cases h : lit.isPrefixOf bytes = true
    · simp [h]
    · simp only [h, Bool.false_eq_true, if_false]
      simpa using ih

theorem firstArm_end (arms : Arms) (bytes : List Nat) :
    firstArm matchEnd arms bytes = stripSuffixSpec arms bytes := by
  induction arms with
  | nil => rfl
  | cons a r ih =>
    obtain ⟨i, lit⟩ := a
    unfold stripSuffixSpec firstSuffix at *
    simp only [firstArm, matchEnd, List.find?_cons]
    by_cases h : lit.isSuffixOf bytes = true
    · simp [h]
    · simp only [h, Bool.false_eq_true, if_false]
      simpa using ih

private theorem findFrom_shift (arms : Arms) (b : Nat) (bytes : List Nat) (ps : List Nat) :
    findFrom arms (b :: bytes) (ps.map (· + 1)) = findFrom arms bytes ps := by
  induction ps with
  | nil => rfl
  | cons p ps ih =>
    simp only [List.map_cons, findFrom, List.drop_succ_cons]
    cases firstPrefix arms (bytes.drop p) with
    | none => simpa using ih
    | some a =>
      simp only [Option.some.injEq, Prod.mk.injEq, true_and]
      have : p + 1 + a.2.length = (p + a.2.length) + 1 := by omega
      rw [this, List.drop_succ_cons]

/-- find_skip form: the earliest position at which any alternative matches, and there the first
    listed alternative; the remainder starts right after that match -/
theorem findLoop_eq_spec (arms : Arms) (bytes : List Nat) :
    findLoop arms bytes = findSkipSpec arms bytes := by
  induction bytes with
  | nil =>
    simp only [findLoop, findSkipSpec, List.length_nil, Nat.zero_add, List.range_one, findFrom,
      List.drop_nil, firstArm_start, stripPrefixSpec]
    cases firstPrefix arms [] <;> simp
  | cons b bytes ih =>
    simp only [findLoop, findSkipSpec, List.length_cons]
    rw [List.range_succ_eq_map]
    simp only [findFrom, List.drop_zero, firstArm_start, stripPrefixSpec, Nat.zero_add]
    cases h : firstPrefix arms (b :: bytes) with
    | some a => simp
    | none =>
      simp only [Option.map_none]
      rw [ih, findSkipSpec]
      have := findFrom_shift arms b bytes (List.range (bytes.length + 1))
      simpa [Function.comp_def] using this.symm

/-- rfind_skip form: the latest position (scanning ends len, len-1, …, 0) at which any alternative
    matches as a suffix, and there the first listed alternative; the remainder ends right before it -/
theorem rfindLoop_eq_spec (arms : Arms) (bytes : List Nat) :
    rfindLoop arms bytes.length bytes = rfindSkipSpec arms bytes := by
  have key : ∀ (e : Nat), e ≤ bytes.length →
      rfindLoop arms e (bytes.take e) = rfindFrom arms bytes (List.range (e + 1)).reverse := by
    intro e
    induction e with
    | zero =>
      intro _
      have hr : (List.range (0 + 1)).reverse = [0] := by decide
      rw [hr]
      simp only [List.take_zero, rfindLoop, firstArm_end, stripSuffixSpec, rfindFrom]
      cases firstSuffix arms [] <;> simp
    | succ e ih =>
      intro he
      have hlen : (bytes.take (e + 1)).length = e + 1 := by simp; omega
      have hne : bytes.take (e + 1) ≠ [] := by
        intro h; rw [h] at hlen; simp at hlen
      rw [List.range_succ, List.reverse_append]
      simp only [List.reverse_cons, List.reverse_nil, List.nil_append, List.singleton_append, rfindFrom]
      rw [rfindLoop, firstArm_end, stripSuffixSpec]
      cases h : firstSuffix arms (bytes.take (e + 1)) with
      | some a =>
        simp only [Option.map_some, hlen, List.take_take]
        congr 2
        rw [Nat.min_eq_left (Nat.sub_le _ _)]
      | none =>
        simp only [Option.map_none, hne, if_false]
        have hd : (bytes.take (e + 1)).dropLast = bytes.take e := by
          rw [List.dropLast_eq_take, hlen, List.take_take]; simp
        rw [hd]
        exact ih (by omega)
  have := key bytes.length (Nat.le_refl _)
  rw [List.take_length] at this
  exact this

private theorem firstPrefix_len (arms : Arms) (bytes : List Nat) (a : Nat × List Nat)
    (h : firstPrefix arms bytes = some a) : a.2.length ≤ bytes.length := by
  have := List.find?_some h
  simp only [List.isPrefixOf_iff_prefix] at this
  exact this.length_le

private theorem firstSuffix_len (arms : Arms) (bytes : List Nat) (a : Nat × List Nat)
    (h : firstSuffix arms bytes = some a) : a.2.length ≤ bytes.length := by
  have := List.find?_some h
  simp only [List.isSuffixOf_iff_suffix] at this
  exact this.length_le

/-- trim_start_matches form: repeatedly remove the first listed alternative that is a prefix, until
    none is, or the one that matches is the empty literal -/
theorem trimStart_eq_spec (arms : Arms) : ∀ (fuel : Nat) (bytes : List Nat), bytes.length < fuel →
    trimLoop matchStart arms fuel bytes = trimStartSpec arms bytes := by
  intro fuel
  induction fuel with
  | zero => intro bytes h; omega
  | succ f ih =>
    intro bytes hf
    rw [trimLoop, firstArm_start, stripPrefixSpec, trimStartSpec]
    cases h : firstPrefix arms bytes with
    | none => rfl
    | some a =>
      have hl := firstPrefix_len arms bytes a h
      simp only [Option.map_some, List.length_drop]
      by_cases h0 : a.2.length = 0
      · simp [h0]
      · have h1 : ¬ (bytes.length - a.2.length = bytes.length) := by omega
        have h2 : ¬ (a.2.length = 0 ∨ bytes.length < a.2.length) := by omega
        simp only [h1, h2, if_false, dite_false]
        exact ih _ (by simp only [List.length_drop]; omega)

/-- trim_end_matches form -/
theorem trimEnd_eq_spec (arms : Arms) : ∀ (fuel : Nat) (bytes : List Nat), bytes.length < fuel →
    trimLoop matchEnd arms fuel bytes = trimEndSpec arms bytes := by
  intro fuel
  induction fuel with
  | zero => intro bytes h; omega
  | succ f ih =>
    intro bytes hf
    rw [trimLoop, firstArm_end, stripSuffixSpec, trimEndSpec]
    cases h : firstSuffix arms bytes with
    | none => rfl
    | some a =>
      have hl := firstSuffix_len arms bytes a h
      simp only [Option.map_some, List.length_take]
      by_cases h0 : a.2.length = 0
      · simp [h0]
      · have h1 : ¬ (min (bytes.length - a.2.length) bytes.length = bytes.length) := by omega
        have h2 : ¬ (a.2.length = 0 ∨ bytes.length < a.2.length) := by omega
        simp only [h1, h2, if_false, dite_false]
        exact ih _ (by simp only [List.length_take]; omega)

/-- the whole trim forms: the bytes handed to `Parser::skip` / `skip_back` are the spec's remainder -/
theorem trim_form_eq_repeat (arms : Arms) (p : PState) :
    trimStartMatches arms p = setStart p (trimStartSpec arms p.rem) ∧
    trimEndMatches arms p = setEnd p (trimEndSpec arms p.rem) := by
  unfold trimStartMatches trimEndMatches
  rw [trimStart_eq_spec arms _ _ (Nat.lt_succ_self _), trimEnd_eq_spec arms _ _ (Nat.lt_succ_self _)]
  exact ⟨rfl, rfl⟩

/-- since 5e6c5eb the find forms first run a search loop that contains no caller code and then a plain `match` on
    the bytes it stopped at; that is the same computation as the single fused loop the theorems above speak about -/
theorem search_then_match (arms : Arms) :
    (∀ bytes, firstArm matchStart arms (searchLoop arms bytes) = findLoop arms bytes) ∧
    (∀ fuel bytes, firstArm matchEnd arms (rsearchLoop arms fuel bytes) = rfindLoop arms fuel bytes) := by
  constructor
  · intro bytes
    induction bytes with
    | nil => rfl
    | cons b br ih =>
      simp only [searchLoop, findLoop]
      cases h : firstArm matchStart arms (b :: br) with
      | some r => simp only [h]
      | none => simpa using ih
  · intro fuel
    induction fuel with
    | zero =>
      intro bytes
      unfold rsearchLoop rfindLoop
      cases h : firstArm matchEnd arms bytes with
      | some r => simp only [h]
      | none => simp only [h]
    | succ f ih =>
      intro bytes
      unfold rsearchLoop rfindLoop
      cases h : firstArm matchEnd arms bytes with
      | some r => simp only [h]
      | none =>
        simp only
        split
        · simp only [h]
        · exact ih _

/-- find forms as a whole -/
theorem find_form_earliest_then_first_listed (arms : Arms) (p : PState) :
    findSkip arms p = (match findSkipSpec arms p.rem with
                       | some (i, rem) => (some i, setStart p rem)
                       | none => (none, p)) ∧
    rfindSkip arms p = (match rfindSkipSpec arms p.rem with
                        | some (i, rem) => (some i, setEnd p rem)
                        | none => (none, p)) := by
  unfold findSkip rfindSkip
  rw [(search_then_match arms).1, (search_then_match arms).2, findLoop_eq_spec, rfindLoop_eq_spec]
  exact ⟨rfl, rfl⟩

/-- `Parser::skip(n)` / `skip_back(n)` at a char boundary within the remainder consume exactly
    `n` bytes: start offset + n (resp. end offset − n), remainder cut there, no rounding -/
theorem skip_exact (p : PState) (n : Nat) (hn : n ≤ p.rem.length)
    (hb : Konst.Utf8.isCharBoundaryBytes p.rem n = true) :
    skip p n = ⟨p.start + n, p.rem.drop n⟩ := by
  unfold skip
  have : ¬ n > p.rem.length := by omega
  simp only [this, if_false]
  rw [skip.up]
  simp [hb]

theorem skipBack_exact (p : PState) (n : Nat) (hn : n ≤ p.rem.length)
    (hb : Konst.Utf8.isCharBoundaryBytes p.rem (p.rem.length - n) = true) :
    skipBack p n = ⟨p.start, p.rem.take (p.rem.length - n)⟩ := by
  unfold skipBack
  cases hm : p.rem.length - n with
  | zero => simp [skipBack.down]
  | succ m => rw [hm] at hb; simp [skipBack.down, hb]

/-- strip forms -/
theorem strip_form_eq (arms : Arms) (p : PState) :
    (stripPrefix arms p).1 = (stripPrefixSpec arms p.rem).map (·.1) ∧
    (stripSuffix arms p).1 = (stripSuffixSpec arms p.rem).map (·.1) ∧
    (stripPrefixSpec arms p.rem = none → stripPrefix arms p = (none, p)) ∧
    (stripSuffixSpec arms p.rem = none → stripSuffix arms p = (none, p)) := by
  unfold stripPrefix stripSuffix
  rw [firstArm_start, firstArm_end]
  refine ⟨?_, ?_, ?_, ?_⟩
  · cases stripPrefixSpec arms p.rem with
    | none => rfl
    | some a => rfl
  · cases stripSuffixSpec arms p.rem with
    | none => rfl
    | some a => rfl
  · intro h; simp [h]
  · intro h; simp [h]

/-- when nothing matches, the default branch runs and the parser is unchanged (all four match-like
    forms) -/
theorem default_leaves_parser_unchanged (arms : Arms) (p : PState) :
    (findSkipSpec arms p.rem = none → findSkip arms p = (none, p)) ∧
    (stripPrefixSpec arms p.rem = none → stripPrefix arms p = (none, p)) ∧
    (stripSuffixSpec arms p.rem = none → stripSuffix arms p = (none, p)) := by
  refine ⟨?_, (strip_form_eq arms p).2.2.1, (strip_form_eq arms p).2.2.2⟩
  intro h
  unfold findSkip
  rw [(search_then_match arms).1, findLoop_eq_spec, h]

/-! ### literals are valid UTF-8, so `Parser::skip` / `skip_back` never round -/

open Konst.Spec.Utf8 in
/-- a (non-empty) valid literal matched byte-wise at offset `i` of a valid remainder starts and ends
    on char boundaries of the remainder; an empty literal at offset 0 or at the end trivially so -/
theorem cut_on_boundary (cs ls : List Nat) (hcs : ∀ c ∈ cs, isScalar c = true) (i : Nat)
    (hm : encs ls <+: (encs cs).drop i) (hne : ls ≠ [] ∨ i = 0 ∨ i = (encs cs).length) :
    Konst.Utf8.isCharBoundaryBytes (encs cs) i = true ∧
    Konst.Utf8.isCharBoundaryBytes (encs cs) (i + (encs ls).length) = true := by
  have hb := Konst.Lemmas.Utf8.boundary_iff cs hcs
  unfold Konst.Utf8.isCharBoundary at hb
  by_cases hl : ls = []
  · subst hl
    have h0 : (encs ([] : List Nat)).length = 0 := rfl
    rw [h0, Nat.add_zero]
    rcases hne with h | h | h
    · exact absurd rfl h
    · subst h; exact ⟨(hb 0).mpr (Konst.Lemmas.Utf8.boundary_zero cs), (hb 0).mpr (Konst.Lemmas.Utf8.boundary_zero cs)⟩
    · subst h; exact ⟨(hb _).mpr (Konst.Lemmas.Utf8.boundary_len cs), (hb _).mpr (Konst.Lemmas.Utf8.boundary_len cs)⟩
  · obtain ⟨h1, h2⟩ := Konst.Lemmas.Utf8.match_on_boundaries cs ls hl i hm
    exact ⟨(hb i).mpr h1, (hb _).mpr h2⟩

open Konst.Spec.Utf8 in
/-- strip_prefix form on valid input: the parser advances by exactly the matched literal
    (start offset + |literal|, end offset unchanged, remainder = the rest) -/
theorem strip_prefix_exact (arms : Arms) (p : PState) (cs : List Nat)
    (hcs : ∀ c ∈ cs, isScalar c = true) (hp : p.rem = encs cs)
    (harms : ∀ a ∈ arms, ∃ ls, a.2 = encs ls) :
    stripPrefix arms p =
      match firstPrefix arms p.rem with
      | some a => (some a.1, ⟨p.start + a.2.length, p.rem.drop a.2.length⟩)
      | none => (none, p) := by
  unfold stripPrefix
  rw [firstArm_start, stripPrefixSpec]
  cases h : firstPrefix arms p.rem with
  | none => rfl
  | some a =>
    simp only [Option.map_some]
    have hmem := List.mem_of_find?_eq_some h
    have hpre : a.2 <+: p.rem := by
      have := List.find?_some h
      simpa [List.isPrefixOf_iff_prefix] using this
    obtain ⟨ls, hls⟩ := harms a hmem
    have hlen : a.2.length ≤ p.rem.length := hpre.length_le
    unfold setStart
    have hn : p.rem.length - (p.rem.drop a.2.length).length = a.2.length := by
      simp only [List.length_drop]; omega
    rw [hn]
    have hbd := cut_on_boundary cs ls hcs 0 (by rw [List.drop_zero, ← hp, ← hls]; exact hpre) (Or.inr (Or.inl rfl))
    rw [skip_exact p a.2.length hlen (by rw [hp, hls]; simpa using hbd.2)]

/-- where the find form stops: the spec's result together with the position and the alternative chosen;
    no alternative matches at any position tried before it -/
private theorem findFrom_witness (arms : Arms) (bytes : List Nat) : ∀ (ps : List Nat) (i : Nat) (rem : List Nat),
    findFrom arms bytes ps = some (i, rem) →
    ∃ pre pos post a, ps = pre ++ pos :: post ∧ (∀ q ∈ pre, firstPrefix arms (bytes.drop q) = none) ∧
      firstPrefix arms (bytes.drop pos) = some a ∧ i = a.1 ∧ rem = bytes.drop (pos + a.2.length) := by
  intro ps
  induction ps with
  | nil => intro i rem h; simp [findFrom] at h
  | cons p0 ps ih =>
    intro i rem h
    simp only [findFrom] at h
    cases hf : firstPrefix arms (bytes.drop p0) with
    | some a =>
      rw [hf] at h
      simp only [Option.some.injEq, Prod.mk.injEq] at h
      exact ⟨[], p0, ps, a, rfl, by simp, hf, h.1.symm, h.2.symm⟩
    | none =>
      rw [hf] at h
      obtain ⟨pre, pos, post, a, hps, hnone, hfp, hi, hrem⟩ := ih i rem h
      refine ⟨p0 :: pre, pos, post, a, by rw [hps]; rfl, ?_, hfp, hi, hrem⟩
      intro q hq
      rcases List.mem_cons.mp hq with rfl | hq'
      · exact hf
      · exact hnone q hq'

open Konst.Spec.Utf8 in
/-- find_skip form on valid input (valid remainder, valid literals, the EMPTY literal included): the
    parser is advanced to exactly the end of the chosen match — start offset + (position + |literal|),
    end offset unchanged, no rounding by `Parser::skip` -/
theorem find_skip_exact (arms : Arms) (p : PState) (cs : List Nat)
    (hcs : ∀ c ∈ cs, isScalar c = true) (hp : p.rem = encs cs)
    (harms : ∀ a ∈ arms, ∃ ls, a.2 = encs ls) :
    findSkip arms p =
      match findSkipSpec arms p.rem with
      | some (i, rem) => (some i, ⟨p.start + (p.rem.length - rem.length), rem⟩)
      | none => (none, p) := by
  unfold findSkip
  rw [(search_then_match arms).1, findLoop_eq_spec]
  cases h : findSkipSpec arms p.rem with
  | none => rfl
  | some r =>
    obtain ⟨i, rem⟩ := r
    dsimp only
    unfold findSkipSpec at h
    obtain ⟨pre, pos, post, a, hps, hnone, hfp, _, hrem⟩ := findFrom_witness arms p.rem _ i rem h
    have hmem : pos ∈ List.range (p.rem.length + 1) := by rw [hps]; simp
    have hpos : pos ≤ p.rem.length := by
      have := List.mem_range.mp hmem; omega
    have hmemA := List.mem_of_find?_eq_some hfp
    have hpre : a.2 <+: p.rem.drop pos := by
      have := List.find?_some hfp
      simpa [List.isPrefixOf_iff_prefix] using this
    obtain ⟨ls, hls⟩ := harms a hmemA
    have hlen : pos + a.2.length ≤ p.rem.length := by
      have := hpre.length_le; simp only [List.length_drop] at this; omega
    -- an empty literal can only have been chosen at position 0
    have hzero : ls ≠ [] ∨ pos = 0 ∨ pos = (encs cs).length := by
      by_cases hl : ls = []
      · right; left
        have ha0 : a.2 = [] := by rw [hls, hl]; rfl
        have h0 : firstPrefix arms (p.rem.drop 0) ≠ none := by
          intro hn
          have := List.find?_eq_none.mp hn a hmemA
          simp [ha0] at this
        -- the list of positions tried starts with 0
        rw [List.range_succ_eq_map] at hps
        cases pre with
        | nil =>
          simp only [List.nil_append, List.cons.injEq] at hps
          exact hps.1.symm
        | cons q pre' =>
          simp only [List.cons_append, List.cons.injEq] at hps
          have := hnone q (by simp)
          rw [← hps.1] at this
          exact absurd this h0
      · exact Or.inl hl
    have hbd := cut_on_boundary cs ls hcs pos (by rw [← hp, ← hls]; exact hpre) hzero
    unfold setStart
    have hn : p.rem.length - rem.length = pos + a.2.length := by
      rw [hrem]; simp only [List.length_drop]; omega
    rw [hn, skip_exact p _ hlen (by rw [hp, hls]; exact hbd.2), hrem]

open Konst.Spec.Utf8 in
/-- the trim_start_matches form removes WHOLE CHARACTERS only: on a valid remainder with valid literals the
    spec's result is the encoding of a suffix of the remainder's chars -/
private theorem trimStartSpec_cut (arms : Arms) (harms : ∀ a ∈ arms, ∃ ls, a.2 = encs ls) :
    ∀ (n : Nat) (cs : List Nat), (encs cs).length = n → ∃ k, trimStartSpec arms (encs cs) = encs (cs.drop k) := by
  intro n
  induction n using Nat.strongRecOn with
  | _ n ih =>
    intro cs hn
    rw [trimStartSpec]
    cases h : firstPrefix arms (encs cs) with
    | none => exact ⟨0, by simp⟩
    | some a =>
      dsimp only
      by_cases hc : a.2.length = 0 ∨ (encs cs).length < a.2.length
      · rw [dif_pos hc]; exact ⟨0, by simp⟩
      · rw [dif_neg hc]
        have hmem := List.mem_of_find?_eq_some h
        have hpre : a.2 <+: encs cs := by
          have := List.find?_some h
          simpa [List.isPrefixOf_iff_prefix] using this
        obtain ⟨ls, hls⟩ := harms a hmem
        have hlne : ls ≠ [] := by
          intro e; rw [hls, e] at hc; exact hc (Or.inl rfl)
        have hb := Konst.Lemmas.Utf8.match_on_boundaries cs ls hlne 0 (by rw [List.drop_zero, ← hls]; exact hpre)
        obtain ⟨k1, _, _, hdrop⟩ := Konst.Lemmas.Utf8.boundary_split cs _ hb.2
        rw [Nat.zero_add, ← hls] at hdrop
        rw [hdrop]
        have hlt : (encs (cs.drop k1)).length < n := by
          rw [← hdrop, List.length_drop]; omega
        obtain ⟨k2, hk2⟩ := ih _ hlt (cs.drop k1) rfl
        exact ⟨k1 + k2, by rw [hk2, List.drop_drop]⟩

open Konst.Spec.Utf8 in
/-- trim_start_matches form on valid input: the parser is advanced by exactly the bytes removed (start
    offset + removed, end offset unchanged), `Parser::skip` never rounds -/
theorem trim_start_exact (arms : Arms) (p : PState) (cs : List Nat)
    (hcs : ∀ c ∈ cs, isScalar c = true) (hp : p.rem = encs cs)
    (harms : ∀ a ∈ arms, ∃ ls, a.2 = encs ls) :
    trimStartMatches arms p =
      ⟨p.start + (p.rem.length - (trimStartSpec arms p.rem).length), trimStartSpec arms p.rem⟩ := by
  rw [(trim_form_eq_repeat arms p).1]
  obtain ⟨k, hk⟩ := trimStartSpec_cut arms harms _ cs rfl
  unfold setStart
  rw [hp, hk]
  have hsplit := Konst.Lemmas.Utf8.encs_take_append_drop cs k
  have hlen : (encs cs).length - (encs (cs.drop k)).length = (encs (cs.take k)).length := by
    have := congrArg List.length hsplit
    simp only [List.length_append] at this
    omega
  rw [hlen]
  have hbnd : Konst.Utf8.isCharBoundaryBytes (encs cs) (encs (cs.take k)).length = true := by
    have := (Konst.Lemmas.Utf8.boundary_iff cs hcs (encs (cs.take k)).length).mpr ⟨k, rfl⟩
    simpa [Konst.Utf8.isCharBoundary] using this
  have hle : (encs (cs.take k)).length ≤ (encs cs).length := by
    have := congrArg List.length hsplit
    simp only [List.length_append] at this
    omega
  have hsk := skip_exact ⟨p.start, encs cs⟩ (encs (cs.take k)).length hle hbnd
  have hp' : p = ⟨p.start, encs cs⟩ := by cases p; simp_all
  rw [hp'] at *
  rw [hsk]
  congr 1
  have : (encs cs).drop (encs (cs.take k)).length = encs (cs.drop k) := by
    conv => lhs; rw [← hsplit]
    exact List.drop_left' rfl
  exact this

/-! ### part (iii): the place expression, the branch bodies, the caller's scope -/

private theorem matchStart_len {lit bytes rem : List Nat} (h : matchStart lit bytes = some rem) :
    rem.length ≤ bytes.length := by
  unfold matchStart at h
  split at h
  · cases h; simp only [List.length_drop]; omega
  · cases h

private theorem matchEnd_len {lit bytes rem : List Nat} (h : matchEnd lit bytes = some rem) :
    rem.length ≤ bytes.length := by
  unfold matchEnd at h
  split at h
  · cases h; simp only [List.length_take]; omega
  · cases h

private theorem firstArm_len (m : List Nat → List Nat → Option (List Nat))
    (hm : ∀ lit bytes rem, m lit bytes = some rem → rem.length ≤ bytes.length) :
    ∀ (arms : Arms) (bytes : List Nat) (i : Nat) (rem : List Nat),
      firstArm m arms bytes = some (i, rem) → rem.length ≤ bytes.length := by
  intro arms
  induction arms with
  | nil => intro bytes i rem h; simp [firstArm] at h
  | cons a r ih =>
    intro bytes i rem h
    obtain ⟨j, lit⟩ := a
    simp only [firstArm] at h
    cases hml : m lit bytes with
    | none => rw [hml] at h; exact ih bytes i rem h
    | some x =>
      rw [hml] at h
      simp only [Option.some.injEq, Prod.mk.injEq] at h
      rw [← h.2]; exact hm lit bytes x hml

private theorem findLoop_len (arms : Arms) : ∀ (bytes : List Nat) (i : Nat) (rem : List Nat),
    findLoop arms bytes = some (i, rem) → rem.length ≤ bytes.length := by
  intro bytes
  induction bytes with
  | nil => intro i rem h; exact firstArm_len _ (fun _ _ _ => matchStart_len) arms [] i rem (by simpa [findLoop] using h)
  | cons b br ih =>
    intro i rem h
    simp only [findLoop] at h
    cases hf : firstArm matchStart arms (b :: br) with
    | some x =>
      rw [hf] at h
      simp only [Option.some.injEq] at h
      subst h
      exact firstArm_len _ (fun _ _ _ => matchStart_len) arms (b :: br) i rem hf
    | none =>
      rw [hf] at h
      have := ih i rem h
      simp only [List.length_cons]; omega

private theorem rfindLoop_len (arms : Arms) : ∀ (fuel : Nat) (bytes : List Nat) (i : Nat) (rem : List Nat),
    rfindLoop arms fuel bytes = some (i, rem) → rem.length ≤ bytes.length := by
  intro fuel
  induction fuel with
  | zero =>
    intro bytes i rem h
    unfold rfindLoop at h
    cases hf : firstArm matchEnd arms bytes with
    | some x =>
      rw [hf] at h; simp only [Option.some.injEq] at h; subst h
      exact firstArm_len _ (fun _ _ _ => matchEnd_len) arms bytes i rem hf
    | none => rw [hf] at h; cases h
  | succ f ih =>
    intro bytes i rem h
    unfold rfindLoop at h
    cases hf : firstArm matchEnd arms bytes with
    | some x =>
      rw [hf] at h; simp only [Option.some.injEq] at h; subst h
      exact firstArm_len _ (fun _ _ _ => matchEnd_len) arms bytes i rem hf
    | none =>
      rw [hf] at h
      simp only at h
      split at h
      · cases h
      · have := ih _ i rem h
        simp only [List.length_dropLast] at this; omega

private theorem trimLoop_len (m : List Nat → List Nat → Option (List Nat))
    (hm : ∀ lit bytes rem, m lit bytes = some rem → rem.length ≤ bytes.length) (arms : Arms) :
    ∀ (fuel : Nat) (bytes : List Nat), (trimLoop m arms fuel bytes).length ≤ bytes.length := by
  intro fuel
  induction fuel with
  | zero => intro bytes; simp [trimLoop]
  | succ f ih =>
    intro bytes
    simp only [trimLoop]
    cases hf : firstArm m arms bytes with
    | none => simp
    | some x =>
      obtain ⟨i, rem⟩ := x
      simp only
      have hl := firstArm_len m hm arms bytes i rem hf
      split
      · simp
      · exact Nat.le_trans (ih rem) hl

/-- whatever the form, the `rem` handed to `set` is no longer than the bytes `get` returned: with a place that
    designates one parser the `usize` subtraction in `set` cannot overflow -/
theorem matchPart_len (f : Form) (arms : Arms) (bytes : List Nat) (b : Nat) (rem : List Nat)
    (h : matchPart f arms bytes = some (b, rem)) : rem.length ≤ bytes.length := by
  cases f with
  | stripPrefix => exact firstArm_len _ (fun _ _ _ => matchStart_len) arms bytes b rem h
  | stripSuffix => exact firstArm_len _ (fun _ _ _ => matchEnd_len) arms bytes b rem h
  | findSkip => exact findLoop_len arms bytes b rem (by rw [← (search_then_match arms).1]; exact h)
  | rfindSkip => exact rfindLoop_len arms _ bytes b rem (by rw [← (search_then_match arms).2]; exact h)
  | trimStart =>
    simp only [matchPart, Option.some.injEq, Prod.mk.injEq] at h
    rw [← h.2]; exact trimLoop_len _ (fun _ _ _ => matchStart_len) arms _ bytes
  | trimEnd =>
    simp only [matchPart, Option.some.injEq, Prod.mk.injEq] at h
    rw [← h.2]; exact trimLoop_len _ (fun _ _ _ => matchEnd_len) arms _ bytes

/-- `Use.run` (get / match / set spelled out) is the expansion model the theorems of part (ii) are about -/
theorem run_eq_forms (arms : Arms) (p : PState) :
    run .stripPrefix arms p = stripPrefix arms p ∧ run .stripSuffix arms p = stripSuffix arms p ∧
    run .findSkip arms p = findSkip arms p ∧ run .rfindSkip arms p = rfindSkip arms p ∧
    run .trimStart arms p = (some 0, trimStartMatches arms p) ∧
    run .trimEnd arms p = (some 0, trimEndMatches arms p) := by
  have key : ∀ f b rem, matchPart f arms p.rem = some (b, rem) →
      (setFrom f p p rem).getD p = if f.fromEnd then setEnd p rem else setStart p rem := by
    intro f b rem h
    have hl := matchPart_len f arms p.rem b rem h
    have : ¬ p.rem.length < rem.length := by omega
    simp only [setFrom, this, if_false, Option.getD_some, setEnd, setStart]
  refine ⟨?_, ?_, ?_, ?_, ?_, ?_⟩
  · unfold run stripPrefix
    cases h : matchPart .stripPrefix arms p.rem with
    | none => simp only [matchPart] at h; rw [h]
    | some x => obtain ⟨b, rem⟩ := x; have hk := key _ b rem h; simp only [matchPart] at h; rw [h]; simp only [hk]; rfl
  · unfold run stripSuffix
    cases h : matchPart .stripSuffix arms p.rem with
    | none => simp only [matchPart] at h; rw [h]
    | some x => obtain ⟨b, rem⟩ := x; have hk := key _ b rem h; simp only [matchPart] at h; rw [h]; simp only [hk]; rfl
  · unfold run findSkip
    cases h : matchPart .findSkip arms p.rem with
    | none => simp only [matchPart] at h; rw [h]
    | some x => obtain ⟨b, rem⟩ := x; have hk := key _ b rem h; simp only [matchPart] at h; rw [h]; simp only [hk]; rfl
  · unfold run rfindSkip
    cases h : matchPart .rfindSkip arms p.rem with
    | none => simp only [matchPart] at h; rw [h]
    | some x => obtain ⟨b, rem⟩ := x; have hk := key _ b rem h; simp only [matchPart] at h; rw [h]; simp only [hk]; rfl
  · unfold run trimStartMatches
    have h : matchPart .trimStart arms p.rem = some (0, trimLoop matchStart arms (p.rem.length + 1) p.rem) := rfl
    rw [h]; simp only [key _ _ _ h]; rfl
  · unfold run trimEndMatches
    have h : matchPart .trimEnd arms p.rem = some (0, trimLoop matchEnd arms (p.rem.length + 1) p.rem) := rfl
    rw [h]; simp only [key _ _ _ h]; rfl

/-- A place expression WITHOUT side effects (every evaluation designates parser `i`): the expansion reads and
    writes only that parser, never panics, and leaves the parsers exactly as a method call on the place evaluated
    once would (`placeOnce`) — only the number of evaluations differs (4 instead of 1 when a branch matches). -/
theorem placeRun_of_pure_place (f : Form) (arms : Arms) (ps : List PState) (st : List Nat) (i : Nat)
    (hst : ∀ k, idxAt st k = i) :
    placeRun f arms ps st =
      (match run f arms (ps.getD i default) with
       | (none, _) => .done none 1 ps
       | (some b, q) => .done (some b) 4 (ps.set i q)) ∧
    (∀ b n qs, placeRun f arms ps st = .done b n qs →
      placeOnce (run f arms) ps st = .done b 1 qs ∨ (b = none ∧ qs = ps)) := by
  have h1 : placeRun f arms ps st =
      (match run f arms (ps.getD i default) with
       | (none, _) => .done none 1 ps
       | (some b, q) => .done (some b) 4 (ps.set i q)) := by
    unfold placeRun run
    simp only [hst]
    cases h : matchPart f arms (ps.getD i default).rem with
    | none => rfl
    | some x =>
      obtain ⟨b, rem⟩ := x
      have hl := matchPart_len f arms _ b rem h
      have : ¬ (ps.getD i default).rem.length < rem.length := by omega
      simp only [setFrom, this, if_false, Option.getD_some]
  refine ⟨h1, ?_⟩
  intro b n qs hd
  rw [h1] at hd
  unfold placeOnce
  simp only [hst]
  cases hr : run f arms (ps.getD i default) with
  | mk b' q =>
    rw [hr] at hd
    cases b' with
    | none =>
      simp only [FxOut.done.injEq] at hd
      right; exact ⟨hd.1.symm, hd.2.2.symm⟩
    | some c =>
      simp only [FxOut.done.injEq] at hd
      left; simp only [FxOut.done.injEq, true_and]; exact ⟨hd.1, hd.2.2⟩

/-- As found (kernel-checked witness): with `ps[next()]` as the place — successive evaluations designate parsers
    0, 1, 2, 3 holding "abab", "bcd", "cdefgh", "zzzzzzzz" — `strip_prefix; "a" => ..` matches on parser 0 but
    advances none of the parsers read: it overwrites parser 3 with parser 1 skipped by |parser 2| − |rem| bytes.
    A method call on the place evaluates it once and advances parser 0. -/
theorem placeRun_ne_placeOnce :
    let arms : Arms := [(0, [97])]
    let ps : List PState := [⟨0, [97, 98, 97, 98]⟩, ⟨10, [98, 99, 100]⟩, ⟨20, [99, 100, 101, 102, 103, 104]⟩,
                             ⟨30, [122, 122, 122, 122, 122, 122, 122, 122]⟩]
    placeRun .stripPrefix arms ps [0, 1, 2, 3]
        = .done (some 0) 4 [⟨0, [97, 98, 97, 98]⟩, ⟨10, [98, 99, 100]⟩, ⟨20, [99, 100, 101, 102, 103, 104]⟩, ⟨13, []⟩] ∧
    placeOnce (run .stripPrefix arms) ps [0, 1, 2, 3]
        = .done (some 0) 1 [⟨1, [98, 97, 98]⟩, ⟨10, [98, 99, 100]⟩, ⟨20, [99, 100, 101, 102, 103, 104]⟩,
                             ⟨30, [122, 122, 122, 122, 122, 122, 122, 122]⟩] ∧
    -- and it can panic: |parser 2| < |rem|
    placeRun .stripPrefix arms [⟨0, [97, 98, 99]⟩, ⟨10, [97]⟩, ⟨20, [97]⟩] [0, 1, 2] = .panic 3 := by
  decide

/-- no form pastes a branch body inside a loop of its own: control flow written in a body reaches the caller's
    loops, as in the hand-written chain (as found this failed for the find forms: Legacy.PMUse.bodies_in_hidden_loop_iff) -/
theorem bodies_never_in_hidden_loop (f : Form) : bodiesInHiddenLoop f = false := by
  cases f <;> rfl

/-- none of the identifiers the expansion binds is one of the plain names it bound as found: a caller constant /
    static / unit struct called `bytes`, `rem` or `brem` is tolerated by every form -/
theorem plain_names_tolerated (f : Form) (kind : String) :
    callerItemRejects f kind "bytes" = false ∧ callerItemRejects f kind "rem" = false ∧
    callerItemRejects f kind "brem" = false := by
  cases f <;> simp [callerItemRejects, itemRejects, binders]

/-- the caller items the expansion cannot coexist with, per form -/
theorem callerItemRejects_iff (f : Form) (kind name : String) :
    callerItemRejects f kind name = true ↔
      (kind = "const" ∨ kind = "static" ∨ kind = "unit") ∧ name ∈ binders f := by
  simp [callerItemRejects, itemRejects, or_assoc]

-- non-vacuity / sanity (kernel-evaluated)
private def lit (s : String) : List Nat := s.toUTF8.toList.map (·.toNat)
example : parseString ['"', 'a', '\\', 'n', '\\', 'x', '4', '1', '\\', 'u', '{', '1', '_', 'F', '6', '0', '0', '}',
    '\\', '\n', ' ', ' ', 'b', '"'] = .ok ['a', '\n', 'A', '😀', 'b'] := by rfl
example : parseRawString ['r', '#', '"', 'a', '"', 'b', '"', '#'] = .ok ['a', '"', 'b'] := by rfl
example : findLoop [(0, [98, 99]), (1, [98])] [97, 98, 99, 100] = some (0, [100]) := by decide
example : findSkipSpec [(0, [98, 99]), (1, [98])] [97, 98, 99, 100] = some (0, [100]) := by decide

end Konst.Props.C18
