import KonstVerif.Model.Slice
import KonstVerif.Model.Utf8
import KonstVerif.Model.Chr
import KonstVerif.Model.Bytes
import KonstVerif.Model.StrFns
import KonstVerif.Lemmas.Utf8
import KonstVerif.Lemmas.Bytes
import KonstVerif.Lemmas.StrValid
import KonstVerif.Props.C02
import KonstVerif.Props.C03
import KonstVerif.Props.C04
import KonstVerif.Props.C05
import KonstVerif.Props.C07
/-
  C01 — the guards that make konst's unsafe blocks sound (the LOGIC half of "the safe API never
  triggers UB; results stay inside the input and are valid UTF-8").

  What is and is not proved here.  "No undefined behaviour in Rust's abstract machine" is not a
  statement about any Lean model, and nothing below pretends it is.  What is proved, for ALL inputs:
  the arguments handed to `from_raw_parts`, `ptr.offset`, `from_utf8_unchecked` and the `u32 -> char`
  transmute satisfy the preconditions that the safety comments of the Rust code appeal to:

   * string half (`konst/src/string.rs`, "the safety comment as a theorem"): for EVERY valid UTF-8
     haystack `encs cs` and EVERY valid pattern `encs ps` (a `&str`, or a `char` as its encoding), each
     str-returning function returns a view that is `GoodStr`: inside the argument, both ends on
     character boundaries of the argument, denoting valid UTF-8.
   * slice half (`konst_kernel/src/slice.rs`, `slice_const_methods.rs`, `slice_as_chunks.rs`): the
     `ptr.offset(start as _)` cast is lossless, `split_at_mut` halves are disjoint and cover, the
     `as_chunks` arithmetic, `try_into_array` only when the lengths agree.
   * chars: `from_u32` transmutes only scalar values; `encode_utf8(c).as_str()` is a valid
     one-character string of length `≤ 4` that lies inside the 4-byte buffer.

  Theorems of other properties that C01 additionally relies on are listed in `obligations/C01.txt`
  (C02 `views_in_bounds`, C03 `result_valid`, C04 `splitOnce_valid`, C07 `yielded_are_scalar`, …).
  Memory-model facts (provenance, aliasing of `&mut`, initialisation) are OBSERVED on the
  implementation under rustc's const evaluator and Miri (see notes/C01.md), never proved.

  Throughout: `cs`/`ps` are arbitrary lists of scalar values (the chars of the haystack/pattern);
  `encs cs` is the haystack's bytes — i.e. every valid `&str`; no bound on lengths.
-/
namespace Konst.Props.C01
open Konst Konst.Spec.Utf8 Konst.Lemmas.Utf8 Konst.Lemmas.StrValid
open Konst.Spec.Bytes Konst.Lemmas.Bytes

private theorem isEmpty_false {p : List Nat} (hp : p ≠ []) : p.isEmpty = false := by
  cases p <;> simp_all

private theorem isEmpty_true {p : List Nat} (h : p.isEmpty = true) : p = [] := by
  cases p <;> simp_all

/-! ## String half: pattern functions of `konst::string` -/

/-- first / last occurrence of a non-empty valid needle: both ends are boundaries -/
private theorem found_on_boundaries (cs ps : List Nat) (hne : encs ps ≠ []) (pos : Nat)
    (h : Bytes.bytesFind (encs cs) (encs ps) = some pos ∨ Bytes.bytesRfind (encs cs) (encs ps) = some pos) :
    IsBoundary cs pos ∧ IsBoundary cs (pos + (encs ps).length) := by
  have hocc : encs ps <+: (encs cs).drop pos := by
    rcases h with h | h
    · exact ((C04.find_least _ _ pos).mp h).1
    · exact ((C04.rfind_greatest _ _ hne pos).mp h).1
  exact match_on_boundaries cs ps (ps_ne_nil_of_encs hne) pos hocc

/-- `string::find_skip`, `find_keep`, `rfind_skip`, `rfind_keep` (`&str` and `char` patterns):
    every returned string lies inside the haystack, starts and ends on character boundaries of
    the haystack and is valid UTF-8 — the argument of the `// safety:` comments
    ("because bytes_find_skip was passed `&str`s casted to `&[u8]`s, it returns a valid utf8
    sequence") for every valid haystack and every valid needle, the empty needle included -/
theorem find_family_good (cs ps : List Nat) (hs : ∀ c ∈ cs, isScalar c = true) :
    (∀ v, StrFns.findSkip (encs cs) (encs ps) = some v → GoodStr cs v) ∧
    (∀ v, StrFns.findKeep (encs cs) (encs ps) = some v → GoodStr cs v) ∧
    (∀ v, StrFns.rfindSkip (encs cs) (encs ps) = some v → GoodStr cs v) ∧
    (∀ v, StrFns.rfindKeep (encs cs) (encs ps) = some v → GoodStr cs v) := by
  have key : ∀ (pos : Nat), IsBoundary cs pos → pos ≤ (encs cs).length := fun p h => boundary_le cs p h
  refine ⟨?_, ?_, ?_, ?_⟩ <;> intro v hv <;> apply goodStr_of_boundaries cs hs
  · unfold StrFns.findSkip Bytes.findSkip at hv
    by_cases he : (encs ps).isEmpty = true
    · simp only [he, if_true, Option.some.injEq] at hv; subst hv; exact onB_whole cs
    · have hne : encs ps ≠ [] := fun e => he (by simp [e])
      simp only [he] at hv
      cases hf : Bytes.bytesFind (encs cs) (encs ps) with
      | none => simp [hf] at hv
      | some pos =>
        obtain ⟨_, h2⟩ := found_on_boundaries cs ps hne pos (Or.inl hf)
        simp only [hf, Bool.false_eq_true, if_false, Option.some.injEq] at hv
        rw [sliceFrom_of_le (key _ h2)] at hv; subst hv
        exact onB_suffix cs _ h2
  · unfold StrFns.findKeep Bytes.findKeep at hv
    by_cases he : (encs ps).isEmpty = true
    · simp only [he, if_true, Option.some.injEq] at hv; subst hv; exact onB_whole cs
    · have hne : encs ps ≠ [] := fun e => he (by simp [e])
      simp only [he] at hv
      cases hf : Bytes.bytesFind (encs cs) (encs ps) with
      | none => simp [hf] at hv
      | some pos =>
        obtain ⟨h1, _⟩ := found_on_boundaries cs ps hne pos (Or.inl hf)
        simp only [hf, Bool.false_eq_true, if_false, Option.some.injEq] at hv
        rw [sliceFrom_of_le (key _ h1)] at hv; subst hv
        exact onB_suffix cs _ h1
  · unfold StrFns.rfindSkip Bytes.rfindSkip at hv
    by_cases he : (encs ps).isEmpty = true
    · simp only [he, if_true, Option.some.injEq] at hv; subst hv; exact onB_whole cs
    · have hne : encs ps ≠ [] := fun e => he (by simp [e])
      simp only [he] at hv
      cases hf : Bytes.bytesRfind (encs cs) (encs ps) with
      | none => simp [hf] at hv
      | some pos =>
        obtain ⟨h1, _⟩ := found_on_boundaries cs ps hne pos (Or.inr hf)
        simp only [hf, Bool.false_eq_true, if_false, Option.some.injEq] at hv
        rw [sliceUpTo_of_le (key _ h1)] at hv; subst hv
        exact onB_prefix cs _ h1
  · unfold StrFns.rfindKeep Bytes.rfindKeep at hv
    by_cases he : (encs ps).isEmpty = true
    · simp only [he, if_true, Option.some.injEq] at hv; subst hv; exact onB_whole cs
    · have hne : encs ps ≠ [] := fun e => he (by simp [e])
      simp only [he] at hv
      cases hf : Bytes.bytesRfind (encs cs) (encs ps) with
      | none => simp [hf] at hv
      | some pos =>
        obtain ⟨_, h2⟩ := found_on_boundaries cs ps hne pos (Or.inr hf)
        simp only [hf, Bool.false_eq_true, if_false, Option.some.injEq] at hv
        rw [sliceUpTo_of_le (key _ h2)] at hv; subst hv
        exact onB_prefix cs _ h2

/-- `string::strip_prefix` / `strip_suffix`: "because `pat` is a `Pattern`, removing it should
    result in a valid `&str`" — for every valid haystack and valid pattern -/
theorem strip_good (cs ps : List Nat) (hs : ∀ c ∈ cs, isScalar c = true) :
    (∀ v, StrFns.stripPrefix (encs cs) (encs ps) = some v → GoodStr cs v) ∧
    (∀ v, StrFns.stripSuffix (encs cs) (encs ps) = some v → GoodStr cs v) := by
  constructor <;> intro v hv <;> apply goodStr_of_boundaries cs hs
  · unfold StrFns.stripPrefix Bytes.stripPrefix at hv
    rw [stripPrefixL_eq] at hv
    unfold stripPrefixSpec at hv
    by_cases hp : (encs ps).isPrefixOf (encs cs) = true
    · simp only [hp, if_true, Option.map_some, Option.some.injEq] at hv
      obtain ⟨r, hr⟩ := List.isPrefixOf_iff_prefix.mp hp
      have hb : IsBoundary cs (encs ps).length := by
        by_cases hps : ps = []
        · subst hps; exact boundary_zero cs
        · simpa using (occurrence_boundaries cs ps hps [] r (by simpa using hr.symm)).2
      have hle := boundary_le cs _ hb
      have hv' : v = ⟨(encs ps).length, (encs cs).length - (encs ps).length⟩ := by
        rw [← hv]; unfold Bytes.suffixView; rw [List.length_drop]; congr 1; omega
      rw [hv']; exact onB_suffix cs _ hb
    · simp [hp] at hv
  · unfold StrFns.stripSuffix Bytes.stripSuffix at hv
    rw [stripSuffixL_eq] at hv
    unfold stripSuffixSpec at hv
    by_cases hp : (encs ps).isSuffixOf (encs cs) = true
    · simp only [hp, if_true, Option.map_some, Option.some.injEq] at hv
      obtain ⟨t, ht⟩ := List.isSuffixOf_iff_suffix.mp hp
      have hlen : t.length = (encs cs).length - (encs ps).length := by rw [← ht]; simp
      have hb : IsBoundary cs t.length := by
        by_cases hps : ps = []
        · subst hps
          have : t.length = (encs cs).length := by rw [← ht]; simp
          rw [this]; exact boundary_len cs
        · exact (occurrence_boundaries cs ps hps t [] (by simpa using ht.symm)).1
      have hv' : v = ⟨0, t.length⟩ := by
        rw [← hv]; unfold Bytes.prefixView; rw [List.length_take]; congr 1; omega
      rw [hv']; exact onB_prefix cs _ hb
    · simp [hp] at hv

/-- every ASCII-whitespace byte of `matches_space!` is an ASCII byte (a one-byte character) -/
private theorem ws_ascii (b : Nat) (h : isAsciiWhitespace b = true) : b < 128 := by
  have := (C05.matchesSpace_iff b).2.mp (by rw [(C05.matchesSpace_iff b).1]; exact h)
  omega

private theorem mem_takeWhile_sat (q : Nat → Bool) (h : List Nat) : ∀ b ∈ h.takeWhile q, q b = true := by
  intro b hb
  induction h with
  | nil => simp at hb
  | cons a t ih =>
    simp only [List.takeWhile_cons] at hb
    split at hb
    · simp at hb; rcases hb with rfl | hb
      · assumption
      · exact ih hb
    · simp at hb

private theorem dropWhile_decomp (q : Nat → Bool) (h : List Nat) :
    h = h.takeWhile q ++ h.dropWhile q ∧ ∀ b ∈ h.takeWhile q, q b = true :=
  ⟨(List.takeWhile_append_dropWhile).symm, mem_takeWhile_sat q h⟩

private theorem revDropWhile_decomp (q : Nat → Bool) (h : List Nat) :
    h = (h.reverse.dropWhile q).reverse ++ (h.reverse.takeWhile q).reverse ∧
    ∀ b ∈ (h.reverse.takeWhile q).reverse, q b = true := by
  constructor
  · rw [← List.reverse_append, List.takeWhile_append_dropWhile, List.reverse_reverse]
  · intro b hb; exact mem_takeWhile_sat q _ b (List.mem_reverse.mp hb)

/-- `string::trim`, `trim_start`, `trim_end` ("bytes_trim only removes ascii bytes"): removing
    ASCII whitespace bytes from either end of a valid string cuts on character boundaries -/
theorem trim_ascii_good (cs : List Nat) (hs : ∀ c ∈ cs, isScalar c = true) :
    GoodStr cs (StrFns.trimStart (encs cs)) ∧ GoodStr cs (StrFns.trimEnd (encs cs)) ∧
    GoodStr cs (StrFns.trim (encs cs)) := by
  refine ⟨?_, ?_, ?_⟩ <;> apply goodStr_of_boundaries cs hs
  · show OnBoundaries cs (Bytes.bytesTrimStart (encs cs))
    unfold Bytes.bytesTrimStart
    rw [bytesTrimStartL_eq]; unfold trimAsciiStartSpec
    obtain ⟨hd, hw⟩ := dropWhile_decomp isAsciiWhitespace (encs cs)
    have hb := ascii_prefix_boundary cs _ _ (fun b hb => ws_ascii b (hw b hb)) hd
    have hl := congrArg List.length hd
    rw [List.length_append] at hl
    have : Bytes.suffixView (encs cs) ((encs cs).dropWhile isAsciiWhitespace)
        = ⟨((encs cs).takeWhile isAsciiWhitespace).length,
           (encs cs).length - ((encs cs).takeWhile isAsciiWhitespace).length⟩ := by
      simp only [Bytes.suffixView, View.mk.injEq]; omega
    rw [this]; exact onB_suffix cs _ hb
  · show OnBoundaries cs (Bytes.bytesTrimEnd (encs cs))
    unfold Bytes.bytesTrimEnd
    rw [bytesTrimEndL_eq]; unfold trimAsciiEndSpec
    obtain ⟨hd, hw⟩ := revDropWhile_decomp isAsciiWhitespace (encs cs)
    have hb := ascii_suffix_boundary cs _ _ (fun b hb => ws_ascii b (hw b hb)) hd
    exact onB_prefix cs _ hb
  · show OnBoundaries cs (Bytes.bytesTrim (encs cs))
    unfold Bytes.bytesTrim
    simp only []
    rw [bytesTrimEndL_eq, bytesTrimStartL_eq]; unfold trimAsciiEndSpec trimAsciiStartSpec
    obtain ⟨hd, hw⟩ := revDropWhile_decomp isAsciiWhitespace (encs cs)
    generalize hE : ((encs cs).reverse.dropWhile isAsciiWhitespace).reverse = E at hd
    generalize ((encs cs).reverse.takeWhile isAsciiWhitespace).reverse = W2 at hd hw
    obtain ⟨hd2, hw2⟩ := dropWhile_decomp isAsciiWhitespace E
    generalize hW1 : E.takeWhile isAsciiWhitespace = W1 at hd2 hw2
    generalize hR : E.dropWhile isAsciiWhitespace = R at hd2
    -- encs cs = W1 ++ R ++ W2
    have hb1 : IsBoundary cs W1.length :=
      ascii_prefix_boundary cs W1 (R ++ W2) (fun b hb => ws_ascii b (hw2 b hb)) (by
        rw [hd, hd2, List.append_assoc])
    have hb2 : IsBoundary cs E.length :=
      ascii_suffix_boundary cs E W2 (fun b hb => ws_ascii b (hw b hb)) hd
    have hl := congrArg List.length hd2
    rw [List.length_append] at hl
    refine ⟨?_, ?_⟩
    · show IsBoundary cs (0 + (E.length - R.length))
      have : 0 + (E.length - R.length) = W1.length := by omega
      rw [this]; exact hb1
    · show IsBoundary cs (0 + (E.length - R.length) + R.length)
      have : 0 + (E.length - R.length) + R.length = E.length := by omega
      rw [this]; exact hb2

private theorem trimStart_decomp (p h : List Nat) :
    ∃ k, h = (List.replicate k p).flatten ++ trimStartSpec p h := by
  by_cases hp : p = []
  · subst hp; exact ⟨0, by rw [trimStartSpec]; simp⟩
  · obtain ⟨k, hk, _⟩ := C05.trimStartSpec_maximal p hp h; exact ⟨k, hk⟩

private theorem trimEnd_decomp (p h : List Nat) :
    ∃ k, h = trimEndSpec p h ++ (List.replicate k p).flatten := by
  by_cases hp : p = []
  · subst hp; exact ⟨0, by rw [trimEndSpec]; simp⟩
  · obtain ⟨k, hk, _⟩ := C05.trimEndSpec_maximal p hp h; exact ⟨k, hk⟩

/-- `string::trim_matches`, `trim_start_matches`, `trim_end_matches`: removing whole repetitions
    of a valid needle from either end of a valid string cuts on character boundaries -/
theorem trim_matches_good (cs ps : List Nat) (hs : ∀ c ∈ cs, isScalar c = true) :
    GoodStr cs (StrFns.trimStartMatches (encs cs) (encs ps)) ∧
    GoodStr cs (StrFns.trimEndMatches (encs cs) (encs ps)) ∧
    GoodStr cs (StrFns.trimMatches (encs cs) (encs ps)) := by
  refine ⟨?_, ?_, ?_⟩ <;> apply goodStr_of_boundaries cs hs
  · show OnBoundaries cs (Bytes.trimStartMatches (encs cs) (encs ps))
    unfold Bytes.trimStartMatches
    rw [trimStartMatchesL_eq]
    obtain ⟨k, hk⟩ := trimStart_decomp (encs ps) (encs cs)
    have hb := reps_prefix_boundary cs ps k _ hk
    have hl := congrArg List.length hk
    rw [List.length_append] at hl
    have : Bytes.suffixView (encs cs) (trimStartSpec (encs ps) (encs cs))
        = ⟨(List.replicate k (encs ps)).flatten.length,
           (encs cs).length - (List.replicate k (encs ps)).flatten.length⟩ := by
      simp only [Bytes.suffixView, View.mk.injEq]; omega
    rw [this]; exact onB_suffix cs _ hb
  · show OnBoundaries cs (Bytes.trimEndMatches (encs cs) (encs ps))
    unfold Bytes.trimEndMatches
    rw [trimEndMatchesL_eq]
    obtain ⟨k, hk⟩ := trimEnd_decomp (encs ps) (encs cs)
    exact onB_prefix cs _ (reps_suffix_boundary cs ps k _ hk)
  · show OnBoundaries cs (Bytes.trimMatches (encs cs) (encs ps))
    unfold Bytes.trimMatches
    simp only []
    rw [trimStartMatchesL_eq, trimEndMatchesL_eq]
    obtain ⟨k, hk⟩ := trimStart_decomp (encs ps) (encs cs)
    generalize hL : trimStartSpec (encs ps) (encs cs) = L at hk
    obtain ⟨k2, hk2⟩ := trimEnd_decomp (encs ps) L
    generalize hE : trimEndSpec (encs ps) L = E at hk2
    have hb1 := reps_prefix_boundary cs ps k L hk
    have hb2 : IsBoundary cs ((List.replicate k (encs ps)).flatten ++ E).length :=
      reps_suffix_boundary cs ps k2 _ (by rw [hk, hk2, List.append_assoc])
    have hl := congrArg List.length hk
    rw [List.length_append] at hl
    rw [List.length_append] at hb2
    refine ⟨?_, ?_⟩
    · show IsBoundary cs ((encs cs).length - L.length + 0)
      have : (encs cs).length - L.length + 0 = (List.replicate k (encs ps)).flatten.length := by omega
      rw [this]; exact hb1
    · show IsBoundary cs ((encs cs).length - L.length + 0 + E.length)
      have : (encs cs).length - L.length + 0 + E.length
          = (List.replicate k (encs ps)).flatten.length + E.length := by omega
      rw [this]; exact hb2

open Konst.StrFns in
private theorem strUpTo_good (cs : List Nat) (hs : ∀ c ∈ cs, isScalar c = true) (i : Nat) (a : View)
    (hb : IsBoundary cs i) (h : strUpTo (encs cs) i = .ok a) : GoodStr cs a := by
  unfold strUpTo at h
  split at h
  · injection h with h; subst h
    rw [sliceUpTo_of_le (boundary_le cs i hb)]
    exact goodStr_of_boundaries cs hs _ (onB_prefix cs _ hb)
  · cases h

open Konst.StrFns in
private theorem strFrom_good (cs : List Nat) (hs : ∀ c ∈ cs, isScalar c = true) (i : Nat) (a : View)
    (hb : IsBoundary cs i) (h : strFrom (encs cs) i = .ok a) : GoodStr cs a := by
  unfold strFrom at h
  split at h
  · injection h with h; subst h
    rw [sliceFrom_of_le (boundary_le cs i hb)]
    exact goodStr_of_boundaries cs hs _ (onB_suffix cs _ hb)
  · cases h

open Konst.StrFns in
/-- shared by split_once / rsplit_once: the two cuts at `i` and `j` -/
private theorem two_cuts_good (cs : List Nat) (hs : ∀ c ∈ cs, isScalar c = true) (i j : Nat)
    (hi : IsBoundary cs i) (hj : IsBoundary cs j) (a b : View)
    (h : (do let a ← strUpTo (encs cs) i; let b ← strFrom (encs cs) j; pure (some (a, b))
          : Except Unit (Option (View × View))) = .ok (some (a, b))) :
    GoodStr cs a ∧ GoodStr cs b := by
  cases hX : strUpTo (encs cs) i with
  | error e => simp [hX, bind, Except.bind] at h
  | ok a' =>
    cases hY : strFrom (encs cs) j with
    | error e => simp [hX, hY, bind, Except.bind] at h
    | ok b' =>
      simp only [hX, hY, bind, Except.bind, pure, Except.pure, Except.ok.injEq, Option.some.injEq,
        Prod.mk.injEq] at h
      obtain ⟨rfl, rfl⟩ := h
      exact ⟨strUpTo_good cs hs i _ hi hX, strFrom_good cs hs j _ hj hY⟩

open Konst.StrFns in
private theorem splitAt_good (cs : List Nat) (hs : ∀ c ∈ cs, isScalar c = true) (i : Nat)
    (hi : IsBoundary cs i) (a b : View)
    (h : (StrFns.splitAt (encs cs) i).map some = .ok (some (a, b))) : GoodStr cs a ∧ GoodStr cs b := by
  unfold StrFns.splitAt at h
  cases hX : strUpTo (encs cs) i with
  | error e => simp [hX, bind, Except.bind, Except.map] at h
  | ok a' =>
    cases hY : strFrom (encs cs) i with
    | error e => simp [hX, hY, bind, Except.bind, Except.map] at h
    | ok b' =>
      simp only [hX, hY, bind, Except.bind, pure, Except.pure, Except.map, Except.ok.injEq,
        Option.some.injEq, Prod.mk.injEq] at h
      obtain ⟨rfl, rfl⟩ := h
      exact ⟨strUpTo_good cs hs i _ hi hX, strFrom_good cs hs i _ hi hY⟩

open Konst.StrFns in
/-- `string::split_once` / `rsplit_once` (`&str` and `char` delimiters, the empty one included):
    on valid arguments they never reach `non_char_boundary_panic` (C04 `splitOnce_valid`), and both
    returned parts lie inside the argument, on its character boundaries, and are valid UTF-8 -/
theorem split_once_good (cs ps : List Nat) (hs : ∀ c ∈ cs, isScalar c = true)
    (hps : ∀ c ∈ ps, isScalar c = true) :
    (∃ r, splitOnce (encs cs) (encs ps) = .ok r ∧ ∀ a b, r = some (a, b) → GoodStr cs a ∧ GoodStr cs b) ∧
    (∃ r, rsplitOnce (encs cs) (encs ps) = .ok r ∧ ∀ a b, r = some (a, b) → GoodStr cs a ∧ GoodStr cs b) := by
  obtain ⟨⟨r, hr, _⟩, ⟨r2, hr2, _⟩⟩ :=
    C04.splitOnce_valid (encs cs) (encs ps) ⟨cs, hs, rfl⟩ ⟨ps, hps, rfl⟩
  refine ⟨⟨r, hr, ?_⟩, ⟨r2, hr2, ?_⟩⟩
  · intro a b hab; subst hab
    unfold splitOnce at hr
    by_cases he : (encs ps).isEmpty = true
    · simp only [he, if_true] at hr
      exact splitAt_good cs hs 0 (boundary_zero cs) a b hr
    · have hne : encs ps ≠ [] := fun e => he (by simp [e])
      simp only [he] at hr
      cases hf : find (encs cs) (encs ps) with
      | none => simp [hf] at hr
      | some pos =>
        obtain ⟨h1, h2⟩ := found_on_boundaries cs ps hne pos (Or.inl hf)
        simp only [hf, Bool.false_eq_true, if_false] at hr
        exact two_cuts_good cs hs _ _ h1 h2 a b hr
  · intro a b hab; subst hab
    unfold rsplitOnce at hr2
    by_cases he : (encs ps).isEmpty = true
    · simp only [he, if_true] at hr2
      exact splitAt_good cs hs _ (boundary_len cs) a b hr2
    · have hne : encs ps ≠ [] := fun e => he (by simp [e])
      simp only [he] at hr2
      cases hf : rfind (encs cs) (encs ps) with
      | none => simp [hf] at hr2
      | some pos =>
        obtain ⟨h1, h2⟩ := found_on_boundaries cs ps hne pos (Or.inr hf)
        simp only [hf, Bool.false_eq_true, if_false] at hr2
        exact two_cuts_good cs hs _ _ h1 h2 a b hr2

/-! ## String half: index-based slicing (`str_from`, `str_up_to`, `str_range`, `get_*`, `split_at`)
    C03 `result_valid` already gives "in bounds and valid UTF-8"; this adds the boundary clause. -/

private theorem forgiving_cases (cs : List Nat) (hs : ∀ c ∈ cs, isScalar c = true) (i : Nat)
    (h : Utf8.isCharBoundaryForgiving (encs cs) i = true) :
    (encs cs).length < i ∨ IsBoundary cs i := by
  rcases (forgiving_iff cs hs i).mp h with h | h
  · rcases Nat.lt_or_ge (encs cs).length i with h' | h'
    · exact Or.inl h'
    · have : i = (encs cs).length := by omega
      exact Or.inr (this ▸ boundary_len cs)
  · exact Or.inr h

private theorem strict_boundary (cs : List Nat) (hs : ∀ c ∈ cs, isScalar c = true) (i : Nat)
    (h : Utf8.isCharBoundaryBytes (encs cs) i = true) : IsBoundary cs i :=
  (Lemmas.Utf8.boundary_iff cs hs i).mp h

private theorem sliceFrom_onB (cs : List Nat) (a : Nat) (h : (encs cs).length < a ∨ IsBoundary cs a) :
    OnBoundaries cs (Slice.sliceFrom (encs cs).length a) := by
  rcases h with h | h
  · rw [sliceFrom_of_gt h]; exact onB_empty cs
  · rw [sliceFrom_of_le (boundary_le cs a h)]; exact onB_suffix cs a h

private theorem sliceUpTo_onB (cs : List Nat) (b : Nat) (h : (encs cs).length < b ∨ IsBoundary cs b) :
    OnBoundaries cs (Slice.sliceUpTo (encs cs).length b) := by
  rcases h with h | h
  · rw [sliceUpTo_of_gt h]; exact onB_whole cs
  · rw [sliceUpTo_of_le (boundary_le cs b h)]; exact onB_prefix cs b h

private theorem sliceRange_onB (cs : List Nat) (a b : Nat)
    (ha : (encs cs).length < a ∨ IsBoundary cs a) (hb : (encs cs).length < b ∨ IsBoundary cs b) :
    OnBoundaries cs (Slice.sliceRange (encs cs).length a b) := by
  unfold Slice.sliceRange
  simp only []
  -- the end actually used is a boundary `e ≤ len`
  have he : ∃ e, Slice.sliceUpTo (encs cs).length b = ⟨0, e⟩ ∧ IsBoundary cs e := by
    rcases hb with hb | hb
    · exact ⟨_, sliceUpTo_of_gt hb, boundary_len cs⟩
    · exact ⟨_, sliceUpTo_of_le (boundary_le cs b hb), hb⟩
  obtain ⟨e, hu, hbe⟩ := he
  have hle := boundary_le cs e hbe
  rw [hu]
  dsimp only
  by_cases hae : a ≤ e
  · rw [sliceFrom_of_le hae]
    have hba : IsBoundary cs a := by
      rcases ha with ha | ha
      · omega
      · exact ha
    refine ⟨by simpa [View.comp] using hba, ?_⟩
    show IsBoundary cs (0 + a + (e - a))
    have : 0 + a + (e - a) = e := by omega
    rw [this]; exact hbe
  · rw [sliceFrom_of_gt (by omega)]
    exact ⟨by simpa [View.comp] using boundary_zero cs, by simpa [View.comp] using boundary_zero cs⟩

/-- `str_from`, `str_up_to`, `str_range`, `string::get_from/get_up_to/get_range`, `string::split_at`:
    whenever they return (instead of panicking / `None`), the result is `GoodStr`: the
    char-boundary predicate evaluated before `from_utf8_unchecked` is strong enough, for every valid
    string and EVERY pair of indices (beyond the length, `usize::MAX`, `start > end` included) -/
theorem slicing_good (cs : List Nat) (hs : ∀ c ∈ cs, isScalar c = true) (a b : Nat) :
    (∀ v, Utf8.strFrom (encs cs) a = .ok v → GoodStr cs v) ∧
    (∀ v, Utf8.strUpTo (encs cs) b = .ok v → GoodStr cs v) ∧
    (∀ v, Utf8.strRange (encs cs) a b = .ok v → GoodStr cs v) ∧
    (∀ v, Utf8.getFrom (encs cs) a = some v → GoodStr cs v) ∧
    (∀ v, Utf8.getUpTo (encs cs) b = some v → GoodStr cs v) ∧
    (∀ v, Utf8.getRange (encs cs) a b = some v → GoodStr cs v) ∧
    (∀ u v, Utf8.splitAt (encs cs) a = .ok (u, v) → GoodStr cs u ∧ GoodStr cs v) := by
  have kFrom : ∀ i v, Utf8.strFrom (encs cs) i = .ok v → GoodStr cs v := by
    intro i v hv
    unfold Utf8.strFrom at hv
    split at hv
    · injection hv with hv; subst hv
      exact goodStr_of_boundaries cs hs _ (sliceFrom_onB cs i (forgiving_cases cs hs i (by assumption)))
    · cases hv
  have kUpTo : ∀ i v, Utf8.strUpTo (encs cs) i = .ok v → GoodStr cs v := by
    intro i v hv
    unfold Utf8.strUpTo at hv
    split at hv
    · injection hv with hv; subst hv
      exact goodStr_of_boundaries cs hs _ (sliceUpTo_onB cs i (forgiving_cases cs hs i (by assumption)))
    · cases hv
  refine ⟨kFrom a, kUpTo b, ?_, ?_, ?_, ?_, ?_⟩
  · intro v hv
    unfold Utf8.strRange at hv
    simp only [] at hv
    by_cases h1 : Utf8.isCharBoundaryForgiving (encs cs) a = true
    · by_cases h2 : Utf8.isCharBoundaryForgiving (encs cs) b = true
      · simp only [h1, h2, Bool.and_self, if_true, Except.ok.injEq] at hv; subst hv
        exact goodStr_of_boundaries cs hs _
          (sliceRange_onB cs a b (forgiving_cases cs hs a h1) (forgiving_cases cs hs b h2))
      · simp [h1, h2] at hv
    · simp [h1] at hv
  · intro v hv
    unfold Utf8.getFrom Slice.getFrom Slice.sliceFromImpl at hv
    by_cases hle : a ≤ (encs cs).length
    · by_cases hb : Utf8.isCharBoundaryBytes (encs cs) a = true
      · simp only [overflowingSub, hle, if_true, Bool.false_eq_true, if_false, hb,
          Option.some.injEq] at hv
        subst hv
        exact goodStr_of_boundaries cs hs _ (onB_suffix cs a (strict_boundary cs hs a hb))
      · simp [overflowingSub, hle, hb] at hv
    · simp [overflowingSub, hle] at hv
  · intro v hv
    unfold Utf8.getUpTo Slice.getUpTo Slice.sliceUpToImpl at hv
    by_cases hle : b ≤ (encs cs).length
    · by_cases hb : Utf8.isCharBoundaryBytes (encs cs) b = true
      · simp only [overflowingSub, hle, if_true, Bool.false_eq_true, if_false, hb,
          Option.some.injEq] at hv
        subst hv
        exact goodStr_of_boundaries cs hs _ (onB_prefix cs b (strict_boundary cs hs b hb))
      · simp [overflowingSub, hle, hb] at hv
    · simp [overflowingSub, hle] at hv
  · intro v hv
    unfold Utf8.getRange Slice.getRange Slice.getUpTo Slice.getFrom Slice.sliceUpToImpl
      Slice.sliceFromImpl at hv
    by_cases hle : b ≤ (encs cs).length
    · by_cases hab : a ≤ b
      · by_cases h1 : Utf8.isCharBoundaryBytes (encs cs) a = true
        · by_cases h2 : Utf8.isCharBoundaryBytes (encs cs) b = true
          · simp only [overflowingSub, hle, hab, if_true, Bool.false_eq_true, if_false, h1, h2,
              Option.map_some, Bool.and_self, Option.some.injEq, View.comp] at hv
            subst hv
            refine goodStr_of_boundaries cs hs _ ⟨by simpa using strict_boundary cs hs a h1, ?_⟩
            show IsBoundary cs (0 + a + (b - a))
            have : 0 + a + (b - a) = b := by omega
            rw [this]; exact strict_boundary cs hs b h2
          · simp [overflowingSub, hle, hab, h1, h2] at hv
        · simp [overflowingSub, hle, hab, h1] at hv
      · simp [overflowingSub, hle, hab] at hv
    · simp [overflowingSub, hle] at hv
  · intro u v hv
    unfold Utf8.splitAt at hv
    cases hX : Utf8.strUpTo (encs cs) a with
    | error e => simp [hX, bind, Except.bind] at hv
    | ok u' =>
      cases hY : Utf8.strFrom (encs cs) a with
      | error e => simp [hX, hY, bind, Except.bind] at hv
      | ok v' =>
        simp only [hX, hY, bind, Except.bind, pure, Except.pure, Except.ok.injEq, Prod.mk.injEq] at hv
        obtain ⟨rfl, rfl⟩ := hv
        exact ⟨kUpTo a _ hX, kFrom a _ hY⟩

/-! ## chars -/

/-- `chr::encode_utf8(c).as_str()` (the `from_utf8_unchecked` in `Utf8Encoded::as_str`): for every
    `char` the `len` bytes handed out are a valid one-character string, `1 ≤ len ≤ 4`, and
    `slice_up_to(&self.encoded, len)` stays inside the 4-byte buffer -/
theorem encodeUtf8_valid (c : Nat) (hc : isScalar c = true) :
    Valid (Chr.encodeUtf8 c).asBytes ∧ (Chr.encodeUtf8 c).asBytes = encs [c] ∧
    1 ≤ (Chr.encodeUtf8 c).len ∧ (Chr.encodeUtf8 c).len ≤ 4 ∧
    (Chr.encodeUtf8 c).len ≤ (Chr.encodeUtf8 c).encoded.length ∧
    (Chr.encodeUtf8 c).asBytes.length = (Chr.encodeUtf8 c).len := by
  obtain ⟨h1, h2, h3⟩ := C07.encodeUtf8_eq_enc c hc
  have he : encs [c] = enc c := by simp
  refine ⟨⟨[c], by simpa using hc, by rw [h1, he]⟩, by rw [h1, he], ?_, ?_, ?_, ?_⟩
  · rw [h2]; exact clen_pos c
  · rw [h2]; exact clen_le_four c
  · rw [h2, h3]; exact clen_le_four c
  · rw [h1, h2]; exact enc_length c

/-- `chr::from_u32`: the `transmute::<u32, char>` is reached exactly for Unicode scalar values
    (C07 `fromU32_iff` restated as the guard of the unsafe block) -/
theorem fromU32_guard (n : Nat) :
    (∀ c, Chr.fromU32 n = some c → c = n ∧ isScalar c = true) ∧
    (Chr.fromU32 n = none ↔ isScalar n = false) := by
  obtain ⟨h1, _, _⟩ := C07.fromU32_iff n
  rw [h1]
  by_cases h : isScalar n = true
  · simp only [h, if_true, Option.some.injEq, reduceCtorEq, Bool.true_eq_false, iff_self, and_true]
    intro c hc; subst hc; exact ⟨rfl, h⟩
  · simp [h]

/-! ## Slice half -/

/-- the `ptr.offset(start as _)` site of `__slice_from_impl!` (shared and `_mut`): the offset is
    only computed when `start ≤ len`, hence (slice lengths never exceed `isize::MAX`) the cast
    `start as isize` is lossless and non-negative, and `offset + rem = len` stays inside (one past
    the end at most); the `from_raw_parts(ptr, len)` of `__slice_up_to_impl!` is reached only
    with `len ≤ slice.len()` -/
theorem offset_cast_lossless (len start : Nat) (hlen : len ≤ ISIZE_MAX) :
    (∀ v, Slice.sliceFromImpl len start = some v →
      v.off = start ∧ start ≤ len ∧ start ≤ ISIZE_MAX ∧ v.off + v.len = len) ∧
    (∀ v, Slice.sliceUpToImpl len start = some v → v.off = 0 ∧ v.len = start ∧ start ≤ len) := by
  unfold Slice.sliceFromImpl Slice.sliceUpToImpl overflowingSub
  constructor <;> intro v hv
  · by_cases h : start ≤ len
    · simp only [h, if_true, Bool.false_eq_true, if_false, Option.some.injEq] at hv
      subst hv; exact ⟨rfl, h, by omega, (by simp; omega)⟩
    · simp [h] at hv
  · by_cases h : start ≤ len
    · simp only [h, if_true, Bool.false_eq_true, if_false, Option.some.injEq] at hv
      subst hv; exact ⟨rfl, rfl, h⟩
    · simp [h] at hv

/-- `split_at_mut` (its own `from_raw_parts_mut` pair), `split_first_mut`, `split_last_mut`: the two
    `&mut` results never overlap, lie inside the slice, and together cover it when `at ≤ len` -/
theorem mut_halves_disjoint (len at_ : Nat) :
    ((Slice.splitAtMut len at_).1.InBounds len ∧ (Slice.splitAtMut len at_).2.InBounds len ∧
      ((Slice.splitAtMut len at_).1.off + (Slice.splitAtMut len at_).1.len ≤ (Slice.splitAtMut len at_).2.off ∨
        (Slice.splitAtMut len at_).2.len = 0) ∧
      (at_ ≤ len → (Slice.splitAtMut len at_).1 = ⟨0, at_⟩ ∧ (Slice.splitAtMut len at_).2 = ⟨at_, len - at_⟩)) ∧
    (∀ f r, Slice.splitFirst len = some (f, r) →
      f.InBounds len ∧ r.InBounds len ∧ f.off + f.len ≤ r.off ∧ f.len + r.len = len) ∧
    (∀ l r, Slice.splitLast len = some (l, r) →
      l.InBounds len ∧ r.InBounds len ∧ r.off + r.len ≤ l.off ∧ l.len + r.len = len) := by
  refine ⟨?_, ?_, ?_⟩
  · unfold Slice.splitAtMut View.InBounds
    by_cases h : at_ > len
    · simp only [h, if_true]
      exact ⟨by omega, by omega, Or.inr trivial, fun h' => by omega⟩
    · simp only [h, if_false]
      exact ⟨by omega, by omega, Or.inl (by omega), fun _ => ⟨trivial, trivial⟩⟩
  · intro f r h
    unfold Slice.splitFirst at h
    by_cases h0 : len = 0
    · simp [h0] at h
    · simp only [h0, if_false, Option.some.injEq, Prod.mk.injEq] at h
      obtain ⟨rfl, rfl⟩ := h
      simp only [View.InBounds]; omega
  · intro l r h
    unfold Slice.splitLast at h
    by_cases h0 : len = 0
    · simp [h0] at h
    · simp only [h0, if_false, Option.some.injEq, Prod.mk.injEq] at h
      obtain ⟨rfl, rfl⟩ := h
      simp only [View.InBounds]; omega

/-- `as_chunks::<N>` / `as_rchunks::<N>`: the `from_raw_parts(arrs_in.as_ptr() as *const [T; N],
    arrs_len)` re-typing covers exactly the `arrs_len * N` elements of `arrs_in`, and
    `arrs_len * N + rem = len`; `N = 0` never reaches it (the `assert!`) -/
theorem asChunks_arith (len n : Nat) :
    (∀ a k r, Slice.asChunks len n = some (a, k, r) →
      n ≠ 0 ∧ a.off = 0 ∧ a.len = k * n ∧ k * n + r.len = len ∧ (r.len = 0 ∨ r.off = k * n) ∧
      r.len < n ∧ a.InBounds len ∧ r.InBounds len) ∧
    (∀ r a k, Slice.asRchunks len n = some (r, a, k) →
      n ≠ 0 ∧ r.off = 0 ∧ a.len = k * n ∧ r.len + k * n = len ∧ (a.len = 0 ∨ a.off = r.len) ∧
      r.len < n ∧ a.InBounds len ∧ r.InBounds len) := by
  constructor
  · intro a k r h
    unfold Slice.asChunks at h
    by_cases hn : n = 0
    · simp [hn] at h
    · have hle : len / n * n ≤ len := Nat.div_mul_le_self _ _
      have hpos : 0 < n := by omega
      have hmod := Nat.mod_lt len hpos
      have hdm := Nat.div_add_mod len n
      have hcomm : n * (len / n) = len / n * n := Nat.mul_comm _ _
      simp only [hn, if_false, Slice.splitAt, Option.some.injEq, Prod.mk.injEq] at h
      obtain ⟨rfl, rfl, rfl⟩ := h
      rw [sliceUpTo_of_le hle, sliceFrom_of_le hle]
      simp only [View.InBounds]
      refine ⟨hn, ?_, ?_, ?_, ?_, ?_, ?_, ?_⟩ <;> first | trivial | omega | (right; trivial)
  · intro r a k h
    unfold Slice.asRchunks at h
    by_cases hn : n = 0
    · simp [hn] at h
    · have hle : len % n ≤ len := Nat.mod_le _ _
      have hpos : 0 < n := by omega
      have hmod := Nat.mod_lt len hpos
      have hdm := Nat.div_add_mod len n
      have hcomm : n * (len / n) = len / n * n := Nat.mul_comm _ _
      simp only [hn, if_false, Slice.splitAt, Option.some.injEq, Prod.mk.injEq] at h
      obtain ⟨rfl, rfl, rfl⟩ := h
      rw [sliceUpTo_of_le hle, sliceFrom_of_le hle]
      simp only [View.InBounds]
      refine ⟨hn, ?_, ?_, ?_, ?_, ?_, ?_, ?_⟩ <;> first | trivial | omega | (right; trivial)

/-- `try_into_array(_mut)`: the `&*(slice.as_ptr() as *const [T; N])` cast is reached only when
    `slice.len() == N`, and then views the whole slice -/
theorem tryIntoArray_guard (len n : Nat) :
    ∀ v, Slice.tryIntoArray len n = some v → len = n ∧ v = ⟨0, len⟩ := by
  intro v h
  unfold Slice.tryIntoArray at h
  by_cases hn : len = n
  · subst hn; simp only [if_true, Option.some.injEq] at h; subst h; exact ⟨rfl, rfl⟩
  · simp [hn] at h

/-! ## non-vacuity / sanity ("añ€😀" = 61 c3b1 e282ac f09f9880, kernel-evaluated) -/

example : ∀ c ∈ [0x61, 0xF1, 0x20AC, 0x1F600], isScalar c = true := by decide
example : encs [0x61, 0xF1, 0x20AC] = [0x61, 0xC3, 0xB1, 0xE2, 0x82, 0xAC] := by decide
-- find_skip("añ€", "ñ") = "€" at offset 3; the hypotheses of `find_family_good` are satisfiable
example : StrFns.findSkip (encs [0x61, 0xF1, 0x20AC]) (encs [0xF1]) = some ⟨3, 3⟩ := by decide
-- a byte pattern that is NOT a whole character may cut inside one: the boundary claim really needs `encs ps`
example : Bytes.findSkip (encs [0x61, 0xF1, 0x20AC]) [0xC3] = some ⟨2, 4⟩ ∧
    Utf8.isCharBoundary (encs [0x61, 0xF1, 0x20AC]) 2 = false := by decide
example : StrFns.trimMatches (encs [0xF1, 0x61, 0xF1, 0xF1]) (encs [0xF1]) = ⟨2, 1⟩ := by decide
example : StrFns.trim [0x20, 0xC3, 0xB1, 0x0C] = ⟨1, 2⟩ := by decide
example : StrFns.splitOnce (encs [0x61, 0x20AC, 0x62]) (encs [0x20AC]) = .ok (some (⟨0, 1⟩, ⟨4, 1⟩)) := by rfl
example : Slice.sliceFromImpl 5 (2 ^ 64 - 1) = none ∧ Slice.sliceFromImpl 5 5 = some ⟨5, 0⟩ := by decide
example : Slice.splitAtMut 5 2 = (⟨0, 2⟩, ⟨2, 3⟩) ∧ Slice.splitAtMut 5 7 = (⟨0, 5⟩, ⟨0, 0⟩) := by decide
example : Slice.asRchunks 7 3 = some (⟨0, 1⟩, ⟨1, 6⟩, 2) := by decide

end Konst.Props.C01
