import KonstVerif.Lemmas.ArrayMacros
import KonstVerif.Lemmas.ArrayHistories
import KonstVerif.Model.Destructure
import KonstVerif.Props.C11
/-
  C15 — By-value array and aggregate APIs move out every element exactly once.
  Property theorems only.  Elements are values of an arbitrary type; "exactly once, in order" is stated
  as list equalities between what was owned and what was handed out / dropped (a list equality gives
  multiplicity and order at once; with distinct ids it is the ledger the harness prints).
-/
namespace Konst.Props.C15
open Konst Konst.ArrayMacros Konst.Spec.ArrayStd Konst.Histories
open Konst.ArrayBuilder (mapFrom)
variable {α β : Type}

/-! ### `ArrayConsumer` -/

/-- every history (front/back takes, clones) from any well-formed consumer — `ArrayConsumer::new(xs)`,
    `ArrayConsumer::empty()`, or a clone — behaves exactly like the same history on a deque of the
    owned elements: same results, same drops at clone time, no read of an unwritten or already moved
    slot; the state stays well-formed and owns exactly what the deque holds -/
theorem consumer_refines_deque (fresh : Nat → α → α) (c : ArrayConsumer.Consumer α) (rem : List α) (k : Nat)
    (h : ArrayConsumer.Wf c rem) (ops : List ArrayConsumer.Op) (e : ArrayConsumer.End) :
    let r := ArrayConsumer.run fresh (c, k) ops
    let s := dqRun fresh (rem, k) ops
    r.2 = s.2 ∧ r.1.2 = s.1.2 ∧ ArrayConsumer.Wf r.1.1 s.1.1 ∧
    ArrayConsumer.asSlice r.1.1 = some s.1.1 ∧
    ArrayConsumer.finish r.1.1 e = some (dqFinish s.1.1 e) := by
  intro r s
  obtain ⟨h1, h2, h3⟩ := cons_run fresh ops c rem k h
  exact ⟨h3, h2, h1, ArrayConsumer.wf_asSlice h1, cons_finish h1 e⟩

/-- THE LEDGER LAW.  For every history of front/back takes on a consumer owning `rem`, however it ends:
    the elements handed out by `next` (in order), then the elements dropped or leaked at the end, then
    the elements handed out by `next_back` (reversed) are exactly `rem` — every element exactly once,
    in its original order, nothing twice.  Ending in `drop` (or a failing `assert_is_empty`) leaks
    nothing; ending in `forget` drops nothing and leaks exactly what was not yet taken — nothing after
    exhaustion; `assert_is_empty` succeeds iff everything was taken. -/
theorem consumer_ledger (fresh : Nat → α → α) (c : ArrayConsumer.Consumer α) (rem : List α) (k : Nat)
    (h : ArrayConsumer.Wf c rem) (ops : List ArrayConsumer.Op)
    (hops : ∀ op ∈ ops, op = .next ∨ op = .nextBack) (e : ArrayConsumer.End) :
    let r := ArrayConsumer.run fresh (c, k) ops
    ∃ fin, ArrayConsumer.finish r.1.1 e = some fin ∧
      fronts r.2 ++ (fin.dropped ++ fin.leaked) ++ (backs r.2).reverse = rem ∧
      (e = .drop → fin.leaked = [] ∧ fin.panicked = false ∧ ExactlyOnce rem (fronts r.2) fin.dropped (backs r.2)) ∧
      (e = .forget → fin.dropped = [] ∧ fin.panicked = false ∧
        ((fronts r.2).length + (backs r.2).length = rem.length → fin.leaked = [])) ∧
      (e = .assertEmpty → fin.leaked = [] ∧
        (fin.panicked = false ↔ (fronts r.2).length + (backs r.2).length = rem.length)) := by
  intro r
  obtain ⟨h1, h2, h3, _, h5⟩ := consumer_refines_deque fresh c rem k h ops e
  have hl := dq_ledger fresh ops hops rem k
  have hlen := congrArg List.length hl
  simp only [List.length_append, List.length_reverse] at hlen
  refine ⟨_, h5, ?_, ?_, ?_, ?_⟩
  · rw [h1]
    cases e with
    | drop => simpa [dqFinish] using hl
    | forget => simpa [dqFinish] using hl
    | assertEmpty =>
      cases hq : (dqRun fresh (rem, k) ops).1.1 with
      | nil => simpa [dqFinish, hq] using hl
      | cons x q => simpa [dqFinish, hq] using hl
  · intro he; subst he
    rw [h1]
    exact ⟨rfl, rfl, by simpa [ExactlyOnce, dqFinish] using hl⟩
  · intro he; subst he
    rw [h1]
    refine ⟨rfl, rfl, fun hx => ?_⟩
    simp only [dqFinish]
    exact List.eq_nil_of_length_eq_zero (by omega)
  · intro he; subst he
    rw [h1]
    cases hq : (dqRun fresh (rem, k) ops).1.1 with
    | nil =>
      rw [hq] at hlen
      simp [dqFinish]; simp at hlen; omega
    | cons x q =>
      rw [hq] at hlen
      simp [dqFinish]; simp at hlen; omega

/-- `Clone`: the clone owns fresh copies of exactly the remaining elements, in order (so the ledger law
    applies to it as to any consumer), and the original is untouched -/
theorem consumer_clone_fresh (fresh : Nat → α → α) (c : ArrayConsumer.Consumer α) (rem : List α)
    (h : ArrayConsumer.Wf c rem) :
    ∃ c', ArrayConsumer.clone fresh c = some c' ∧ ArrayConsumer.Wf c' (mapFrom fresh 0 rem) ∧
      ArrayConsumer.Wf c rem := by
  obtain ⟨c', h1, h2, _⟩ := ArrayConsumer.wf_clone fresh h
  exact ⟨c', h1, h2, h⟩

/-! ### `Clone` with an element `Clone` that PANICS part-way -/

/-- the two models of `ArrayConsumer::clone` are one: with an element `Clone` that never panics the
    panic-aware loop is the plain loop -/
theorem consumer_cloneP_total (fresh : Nat → α → α) (c : ArrayConsumer.Consumer α) :
    ArrayConsumer.cloneP (fun i x => some (fresh i x)) c =
      (match ArrayConsumer.clone fresh c with | some c' => .done c' | none => .ub) := by
  have hloop : ∀ (l : List α) (i : Nat) (this : ArrayConsumer.Consumer α),
      ArrayConsumer.cloneLoopP (fun i x => some (fresh i x)) l i this =
        .done (ArrayConsumer.cloneLoop fresh l i this) := by
    intro l
    induction l with
    | nil => intro i this; rfl
    | cons x r ih => intro i this; simp [ArrayConsumer.cloneLoopP, ArrayConsumer.cloneLoop, ih]
  unfold ArrayConsumer.cloneP ArrayConsumer.clone
  cases ArrayConsumer.asSlice c with
  | none => rfl
  | some l => simp [hloop]

/-- `ArrayConsumer::clone` when `T::clone` may panic (ANY element `Clone`, as a function call number →
    element → copy-or-panic), on any well-formed consumer owning `rem`:
    * if some call panics, unwinding drops EXACTLY the copies made before that call — each once, in
      order, nothing else (in particular no slot that was never written: the outcome is never `ub`);
    * otherwise the clone owns exactly the copies (and the ledger law applies to it);
    * the original still owns `rem` (it is only borrowed) -/
theorem consumer_clone_panic_ledger (fresh : Nat → α → Option α) (c : ArrayConsumer.Consumer α)
    (rem : List α) (h : ArrayConsumer.Wf c rem) :
    let cp := clonesUntilPanic fresh 0 rem
    (∀ d, ArrayConsumer.cloneP fresh c = .panicked d ↔ (cp.2 = true ∧ d = cp.1)) ∧
    (cp.2 = false → ∃ c', ArrayConsumer.cloneP fresh c = .done c' ∧ ArrayConsumer.Wf c' cp.1) ∧
    (∀ c', ArrayConsumer.cloneP fresh c = .done c' → cp.2 = false) ∧
    ArrayConsumer.Wf c rem := by
  intro cp
  obtain ⟨g1, g2⟩ := cons_cloneP fresh h
  cases hp : cp.2 with
  | true =>
    have e := g1 hp
    refine ⟨fun d => ?_, by simp, fun c' hc' => ?_, h⟩
    · rw [e]; constructor
      · intro hd; cases hd; exact ⟨rfl, rfl⟩
      · rintro ⟨_, rfl⟩; rfl
    · rw [e] at hc'; cases hc'
  | false =>
    obtain ⟨c', hc', hw, _⟩ := g2 hp
    refine ⟨fun d => ?_, fun _ => ⟨c', hc', hw⟩, fun _ _ => rfl, h⟩
    rw [hc']; constructor
    · intro hd; cases hd
    · rintro ⟨hf, _⟩; cases hf

/-- the concrete case the harness exercises: `T::clone` panics on its `j`-th call.  With `j` inside the
    remaining slice the `j` copies already created are dropped exactly once and nothing else is; the
    step leaves the consumer as it was, so the rest of the history (covered by `consumer_refines_deque`,
    whose histories include such steps) sees an intact original -/
theorem consumer_clone_panic_at (fresh : Nat → α → α) (c : ArrayConsumer.Consumer α) (rem : List α)
    (k j : Nat) (h : ArrayConsumer.Wf c rem) :
    (j < rem.length →
      ArrayConsumer.cloneP (ArrayBuilder.panicAt fresh j) c = .panicked (mapFrom fresh 0 (rem.take j))) ∧
    (rem.length ≤ j → ∃ c', ArrayConsumer.cloneP (ArrayBuilder.panicAt fresh j) c = .done c' ∧
      ArrayConsumer.Wf c' (mapFrom fresh 0 rem)) ∧
    (ArrayConsumer.step fresh (c, k) (.clonePanic j)).1.1 = c ∧
    (ArrayConsumer.step fresh (c, k) (.clonePanic j)).2 =
      (if j < rem.length then .panicked (mapFrom (fun i => fresh (k + i)) 0 (rem.take j))
       else .cloned (mapFrom (fun i => fresh (k + i)) 0 rem)) := by
  obtain ⟨g1, g2⟩ := cons_cloneP (ArrayBuilder.panicAt fresh j) h
  rw [cup_panicAt] at g1 g2
  have hs := cons_step fresh k h (.clonePanic j)
  refine ⟨fun hj => ?_, fun hj => ?_, ?_, ?_⟩
  · simpa [refClonePanic, hj] using g1 (by simp [refClonePanic, hj])
  · have hn : ¬ j < rem.length := by omega
    obtain ⟨c', hc, hw, _⟩ := g2 (by simp [refClonePanic, hn])
    exact ⟨c', hc, by simpa [refClonePanic, hn] using hw⟩
  · obtain ⟨p1, p2⟩ := cons_cloneP (ArrayBuilder.panicAt (fun i => fresh (k + i)) j) h
    rw [cup_panicAt] at p1 p2
    by_cases hj : j < rem.length
    · have := p1 (by simp [refClonePanic, hj])
      simp [ArrayConsumer.step, this]
    · obtain ⟨c', hc, hw, _⟩ := p2 (by simp [refClonePanic, hj])
      simp [ArrayConsumer.step, hc, ArrayConsumer.wf_dropped hw]
  · rw [hs.2.2]
    by_cases hj : j < rem.length <;> simp [dqStep, refClonePanic, hj]

/-- the same for `ArrayBuilder::clone` (`for elem in self.as_slice() { this.push(elem.clone()) }`): for
    every history from `new()`, holding `acc`: a panicking `T::clone` drops exactly the copies pushed
    into the half-built clone so far; otherwise the clone holds exactly the copies; never `ub` -/
theorem builder_clone_panic_ledger (fresh : Nat → α → α) (cl : Nat → α → Option α) (n : Nat)
    (ops : List (ArrayBuilder.Op α)) :
    let b := (ArrayBuilder.run fresh (ArrayBuilder.new n, 0) ops).1.1
    let acc := (bvRun fresh n ([], 0) ops).1.1
    let cp := clonesUntilPanic cl 0 acc
    (cp.2 = true → ArrayBuilder.cloneP cl b = .panicked cp.1) ∧
    (cp.2 = false → ∃ c, ArrayBuilder.cloneP cl b = .done c ∧ ArrayBuilder.dropped c = some cp.1 ∧
      ArrayBuilder.asSlice c = some cp.1) ∧
    ArrayBuilder.dropped b = some acc := by
  intro b acc cp
  obtain ⟨h1, _, _, _⟩ := bld_run fresh ops (ArrayBuilder.new n) [] 0 (ArrayBuilder.wf_new n)
  have hn : (ArrayBuilder.new n : ArrayBuilder.Builder α).n = n := rfl
  rw [hn] at h1
  obtain ⟨g1, g2⟩ := bld_cloneP cl h1
  refine ⟨g1, fun hp => ?_, ArrayBuilder.wf_dropped h1⟩
  obtain ⟨c, hc, hw, _⟩ := g2 hp
  exact ⟨c, hc, ArrayBuilder.wf_dropped hw, ArrayBuilder.wf_asSlice hw⟩

/-! ### `ArrayBuilder` -/

/-- every history from `ArrayBuilder::new()`: at the end the builder owns exactly the accepted values
    `acc` (of the bounded-vector reference); `build` hands out exactly `acc` (iff full) or panics and
    drops exactly `acc`; `Drop` drops exactly `acc` — each owned element exactly once, in push order;
    the clone steps drop exactly the owned elements (resp. exactly the clones); a `clone_from` step
    between two builders (`Op.cloneFrom` / `Op.cloneInto`, observation `clonedFrom`) drops exactly the OLD
    elements of the target and afterwards exactly the source's (reference: `a = b.clone()`), and the
    builder continued with owns exactly the fresh clones of the source -/
theorem builder_ledger (fresh : Nat → α → α) (n : Nat) (ops : List (ArrayBuilder.Op α)) :
    let r := ArrayBuilder.run fresh (ArrayBuilder.new n, 0) ops
    let acc := (bvRun fresh n ([], 0) ops).1.1
    r.2 = (bvRun fresh n ([], 0) ops).2 ∧
    ArrayBuilder.dropped r.1.1 = some acc ∧
    (ArrayBuilder.build r.1.1 = .array acc ∧ acc.length = n ∨
      ArrayBuilder.build r.1.1 = .panic ∧ acc.length < n) := by
  intro r acc
  obtain ⟨h1, _, h3, h4, _, _, h7, h8⟩ := Konst.Props.C11.builder_history fresh n ops
  have hle : (bvRun fresh n ([], 0) ops).1.1.length ≤ n := by rw [← h3]; exact h4
  refine ⟨h1, h8, ?_⟩
  rw [h7]
  simp only [bvBuild]
  by_cases hf : (bvRun fresh n ([], 0) ops).1.1.length = n
  · left; exact ⟨by simp [hf, acc], hf⟩
  · right
    refine ⟨by simp [hf], ?_⟩
    show (bvRun fresh n ([], 0) ops).1.1.length < n
    omega

/-! ### by-value `map_!` -/

/-- well-behaved closure: each input element reaches the closure exactly once, in order (`calls = xs`);
    nothing is dropped or leaked by the expansion; the result holds each output exactly once, in order -/
theorem map_by_value_ledger (xs : List α) (f : α → β) (c : Nat → α → Outcome β) (fuel : Nat)
    (hf : xs.length < fuel) (hc : ∀ i a, xs[i]? = some a → c i a = .value (f a)) :
    arrayMapByVal fuel xs c = ⟨.array (xs.map f), xs, [], [], []⟩ := by
  have := byValLoop_value c xs (xs.map f) fuel 0 [] (ArrayConsumer.new xs) (ArrayBuilder.new xs.length) []
    (ArrayConsumer.wf_new xs) (ArrayBuilder.wf_new _) (by simp [ArrayBuilder.new]) hf (by simp)
    (by
      intro j a v hj hv
      simp only [List.getElem?_map, hj, Option.map_some, Option.some.injEq] at hv
      subst hv
      simpa using hc j a hj)
  simpa [arrayMapByVal] using this

/-- ANY closure (early exits included): every input element is handed to the closure, dropped with the
    consumer, or leaked — exactly once, in order; a leak happens only on the `break` path, which then
    panics in `build` (a path that does not run to completion); when no array is returned the outputs
    pushed so far are dropped; when an array is returned nothing was dropped or leaked -/
theorem map_by_value_ledger_hostile (xs : List α) (c : Nat → α → Outcome β) (fuel : Nat)
    (hf : xs.length < fuel) :
    let r := arrayMapByVal fuel xs c
    r.calls ++ r.droppedIn ++ r.leakedIn = xs ∧
    (r.leakedIn ≠ [] → r.res = .panic) ∧
    (∀ l, r.res = .array l → r.calls = xs ∧ r.droppedIn = [] ∧ r.leakedIn = [] ∧ r.droppedOut = []) := by
  intro r
  have hr : r = byValLoop c fuel 0 [] (ArrayConsumer.new xs) (ArrayBuilder.new xs.length) := rfl
  rw [hr]
  obtain ⟨_, _, h3, h4, _, h6⟩ := byValLoop_sound c xs fuel 0 [] (ArrayConsumer.new xs)
    (ArrayBuilder.new xs.length) [] (ArrayConsumer.wf_new xs) (ArrayBuilder.wf_new _)
    (by simp [ArrayBuilder.new]) hf
  refine ⟨by simpa using h3, h4, fun l hl => ?_⟩
  obtain ⟨_, g2, g3, g4, g5, _⟩ := h6 l hl
  exact ⟨by simpa using g2, g3, g4, g5⟩

/-! ### `destructure!` (thin: the macro has no logic beyond its field list) -/

private theorem range_filterMap_getElem? (fields : List α) :
    (List.range fields.length).filterMap (fun i => fields[i]?) = fields := by
  induction fields with
  | nil => rfl
  | cons x r ih =>
    rw [List.length_cons, List.range_succ_eq_map, List.filterMap_cons]
    simp only [List.getElem?_cons_zero, List.filterMap_map]
    have : ((fun i => (x :: r)[i]?) ∘ Nat.succ) = fun i => r[i]? := by
      funext i; simp
    rw [this, ih]

/-- braced structs: once the guard pattern accepts the field list, the reads are a bijection onto the
    fields (a permutation: the user chooses the order); each field is either dropped immediately (`_`)
    or bound, never both, never neither -/
theorem destructure_reads_once_struct (fields : List α) (listed : List (Nat × Destructure.Pat))
    (reads : List (Destructure.Pat × α)) (h : Destructure.destructureStruct fields listed = some reads) :
    (reads.map (·.2)).Perm fields ∧
      (Destructure.immediate reads ++ Destructure.bound reads).Perm fields := by
  unfold Destructure.destructureStruct at h
  split at h
  · rename_i hg
    cases h
    have hperm : (listed.map (·.1)).Perm (List.range fields.length) := List.isPerm_iff.mp hg
    have h1 : ((Destructure.readsStruct fields listed).map (·.2)).Perm fields := by
      have : (Destructure.readsStruct fields listed).map (·.2) =
          (listed.map (·.1)).filterMap (fun i => fields[i]?) := by
        unfold Destructure.readsStruct
        rw [List.map_filterMap, List.filterMap_map]
        congr 1
        funext ip
        cases hi : fields[ip.1]? <;> simp [hi]
      rw [this]
      have := hperm.filterMap (fun i => fields[i]?)
      rwa [range_filterMap_getElem?] at this
    refine ⟨h1, ?_⟩
    unfold Destructure.immediate Destructure.bound
    rw [← List.map_append]
    exact ((List.filter_append_perm _ _).map _).trans h1
  · cases h

/-- tuples and tuple structs: the reads are the fields, each exactly once, in order -/
theorem destructure_reads_once_tuple (fields : List α) (pats : List Destructure.Pat)
    (reads : List (Destructure.Pat × α)) (h : Destructure.destructureTuple fields pats = some reads) :
    reads.map (·.2) = fields ∧ reads.map (·.1) = pats := by
  unfold Destructure.destructureTuple at h
  split at h
  · rename_i hg
    cases h
    simp only [Bool.and_eq_true, decide_eq_true_eq, beq_iff_eq] at hg
    exact ⟨List.map_snd_zip (by omega), List.map_fst_zip (by omega)⟩
  · cases h

private theorem readElems_spec (elems : List α) (pats : List Destructure.Pat) :
    ∀ i, (Destructure.readElems elems pats i).2 = i + pats.length ∧
      ((Destructure.readElems elems pats i).1.map (·.2)).flatten = (elems.drop i).take pats.length ∧
      (Destructure.readElems elems pats i).1.map (·.1) = pats := by
  induction pats with
  | nil => intro i; simp [Destructure.readElems]
  | cons p r ih =>
    intro i
    obtain ⟨h1, h2, h3⟩ := ih (i + 1)
    refine ⟨by simp [Destructure.readElems, h1]; omega, ?_, by simp [Destructure.readElems, h3]⟩
    simp only [Destructure.readElems, List.map_cons, List.flatten_cons, h2, List.length_cons]
    rw [Nat.add_comm r.length 1, List.take_add, List.drop_drop]

/-- arrays with prefix / rest / suffix: the reads, concatenated, are the elements — each exactly once,
    in order (the rest pattern takes exactly the middle `N - prefix - suffix` elements) -/
theorem destructure_reads_once_array (elems : List α) (p : Destructure.ArrayPat)
    (reads : List (Destructure.Pat × List α)) (h : Destructure.destructureArray elems p = some reads) :
    (reads.map (·.2)).flatten = elems := by
  unfold Destructure.destructureArray at h
  obtain ⟨a1, a2, _⟩ := readElems_spec elems p.pre 0
  cases hr : p.rest with
  | none =>
    simp only [hr] at h
    split at h
    · rename_i hg
      cases h
      obtain ⟨_, b2, _⟩ := readElems_spec elems p.suf (Destructure.readElems elems p.pre 0).2
      simp only [beq_iff_eq] at hg
      rw [List.map_append, List.flatten_append, a2, b2, a1]
      simp only [List.drop_zero, Nat.zero_add]
      rw [← List.take_add, hg, List.take_length]
    · cases h
  | some rp =>
    have a1' : (Destructure.readElems elems p.pre 0).2 = p.pre.length := by simpa using a1
    simp only [hr, a1'] at h
    split at h
    · rename_i hg
      cases h
      obtain ⟨_, b2, _⟩ := readElems_spec elems p.suf
        (p.pre.length + (elems.length - (p.pre.length + p.suf.length)))
      simp only [List.map_append, List.flatten_append, List.map_cons, List.map_nil, List.flatten_cons,
        List.flatten_nil, List.append_nil, a2, b2, List.drop_zero]
      rw [List.append_assoc, ← List.drop_drop, ← List.take_add, ← List.take_add]
      apply List.take_of_length_le
      omega
    · cases h

/-! ### non-vacuity -/

example : Destructure.destructureStruct [10, 11, 12] [(2, .bind), (0, .wild), (1, .bind)]
    = some [(.bind, 12), (.wild, 10), (.bind, 11)] := by decide
example : Destructure.destructureStruct [10, 11, 12] [(2, .bind), (0, .wild)] = none := by decide
example : Destructure.destructureArray [1, 2, 3, 4, 5] ⟨[.bind], some .wild, [.bind, .wild]⟩
    = some [(.bind, [1]), (.wild, [2, 3]), (.bind, [4]), (.wild, [5])] := by decide
example : ArrayConsumer.Wf (ArrayConsumer.new [1, 2, 3]) [1, 2, 3] := ArrayConsumer.wf_new _
example : (ArrayConsumer.run (fun k (_ : Nat) => k) (ArrayConsumer.new [0, 1, 2], 3)
    [.next, .nextBack, .clone, .next]).2.length = 4 := by decide
/-- `T::clone` panics on its second call while cloning a consumer that has given away its first element:
    the one copy made so far is dropped, nothing else -/
example : (match ArrayConsumer.cloneP (ArrayBuilder.panicAt (fun k (_ : Nat) => 100 + k) 1)
      { (ArrayConsumer.new [0, 1, 2, 3]) with takenFront := 1 } with
    | .panicked d => some d | _ => none) = some [100] := by decide
/-- `T::clone` never panics within the slice: the clone completes -/
example : (match ArrayConsumer.cloneP (ArrayBuilder.panicAt (fun k (_ : Nat) => 100 + k) 7)
      (ArrayConsumer.new [0, 1]) with
    | .done c => ArrayConsumer.asSlice c | _ => none) = some [100, 101] := by decide
/-- the state a clone with `taken_back` fixed BEFORE the loop would be dropped in after one write is a
    real state of the model, and dropping it reads unwritten slots (`none` = UB): this is what the
    per-element `taken_back -= 1` prevents -/
example : ArrayConsumer.dropped (⟨3, [some 100, none, none], 0, 0⟩ : ArrayConsumer.Consumer Nat) = none := by
  decide
example : clonesUntilPanic (ArrayBuilder.panicAt (fun k (x : Nat) => 10 * x + k) 2) 0 [1, 2, 3, 4]
    = ([10, 21], true) := by decide

end Konst.Props.C15
