import KonstVerif.Model.Chars
import KonstVerif.Spec.Chars
import KonstVerif.Lemmas.Chars
/-
  C07 — Char iteration and char <-> UTF-8 / u32 conversions agree with std.
  Property theorems only.  `cs` is any list of scalar values (the chars of the string), the
  string's bytes are `encs cs`; `h` is any front/back history (`Dir.f` = `next`, `Dir.b` =
  `next_back`); `Obs.item x` / `Obs.done` / `Obs.panic` are what a step shows.
-/
namespace Konst.Props.C07
open Konst Konst.Utf8 Konst.Chr Konst.Chars Konst.Hist Konst.Deque
open Konst.Spec.Utf8 Konst.Spec.Chars Konst.Lemmas.Utf8 Konst.Lemmas.Chars

/-- `encode_utf8` (shifts, masks, `|`, `as u8`) yields exactly the RFC 3629 bytes and length,
    for every `char` -/
theorem encodeUtf8_eq_enc (c : Nat) (hc : isScalar c = true) :
    (encodeUtf8 c).asBytes = enc c ∧ (encodeUtf8 c).len = clen c ∧ (encodeUtf8 c).encoded.length = 4 := by
  have hlt := isScalar_lt c hc
  refine ⟨Lemmas.Utf8.encodeUtf8_eq_enc c (by omega), ?_, ?_⟩
  · unfold encodeUtf8 clen
    by_cases h1 : c < 0x80
    · simp [h1, show c ≤ 127 by omega]
    by_cases h2 : c < 0x800
    · simp [h1, h2, show ¬ c ≤ 127 by omega, show c ≤ 0x7FF by omega]
    by_cases h3 : c < 0x10000
    · simp [h1, h2, h3, show ¬ c ≤ 127 by omega, show ¬ c ≤ 0x7FF by omega, show c ≤ 0xFFFF by omega]
    · simp [h1, h2, h3, show ¬ c ≤ 127 by omega, show ¬ c ≤ 0x7FF by omega, show ¬ c ≤ 0xFFFF by omega]
  · unfold encodeUtf8; split <;> (try split) <;> (try split) <;> rfl

/-- the hand-written decoder `string_to_usv` inverts the encoding, for every `char`
    (all four sequence lengths) -/
theorem stringToUsv_enc (c : Nat) (hc : isScalar c = true) : stringToUsv (enc c) = c :=
  Lemmas.Utf8.stringToUsv_enc c (by have := isScalar_lt c hc; omega)

/-- `from_u32` succeeds exactly for Unicode scalar values and returns that value -/
theorem fromU32_iff (n : Nat) :
    (fromU32 n = if isScalar n = true then some n else none) ∧
    ((fromU32 n).isSome = true ↔ isScalar n = true) ∧ (∀ c, fromU32 n = some c → c = n) := by
  have key : fromU32 n = if isScalar n = true then some n else none := by
    unfold fromU32 isScalar
    by_cases h1 : n < 0xD800
    · simp [h1]
    · by_cases h2 : 0xE000 ≤ n
      · by_cases h3 : n < 0x110000
        · simp [h1, h2, h3, show n ≤ 0x10FFFF by omega]
        · simp [h1, h2, h3, show ¬ n ≤ 0x10FFFF by omega]
      · simp [h1, h2]
  refine ⟨key, ?_, ?_⟩
  · rw [key]; by_cases h : isScalar n = true <;> simp [h]
  · intro c; rw [key]; by_cases h : isScalar n = true <;> simp [h]; exact fun e => e.symm

/-- `chars`: under EVERY interleaving of `next`/`next_back` the yielded chars are those of std's
    double-ended `str::chars` (front pops the first, back pops the last remaining char, `None`
    exactly when nothing is left, never a panic) -/
theorem chars_refines_deque (cs : List Nat) (hs : ∀ c ∈ cs, isScalar c = true) (h : List Dir) :
    ((chars (encs cs)).steps (encs cs) h).map (·.1) = (runDeque cs h).map Obs.ofOption := by
  have := items_refine (chars_refines (encs cs)) h _ (chars_inv_init cs hs)
  rwa [chars_abs_init cs hs] at this

/-- `char_indices`: every interleaving yields std's `(byte offset, char)` pairs -/
theorem charIndices_refines_deque (cs : List Nat) (hs : ∀ c ∈ cs, isScalar c = true) (h : List Dir) :
    ((charIndices (encs cs)).steps (encs cs) h).map (·.1) =
      (runDeque (indexed 0 cs) h).map Obs.ofOption := by
  have := items_refine (ci_refines (encs cs)) h _ (ci_inv_init cs hs)
  rwa [ci_abs_init cs hs] at this

/-- `.rev()` (`RChars`): the deque is the reversed one, as for `Rev<Chars>` -/
theorem rchars_refines_deque (cs : List Nat) (hs : ∀ c ∈ cs, isScalar c = true) (h : List Dir) :
    ((chars (encs cs)).rev.steps (encs cs) h).map (·.1) = (runDeque cs.reverse h).map Obs.ofOption := by
  have := items_refine (rchars_refines (encs cs)) h (chars (encs cs)).rev (chars_inv_init cs hs)
  have e : cabs (encs cs) (chars (encs cs)).rev.rev = cs := chars_abs_init cs hs
  simp only [e] at this
  exact this

/-- `.rev()` (`RCharIndices`) -/
theorem rcharIndices_refines_deque (cs : List Nat) (hs : ∀ c ∈ cs, isScalar c = true) (h : List Dir) :
    ((charIndices (encs cs)).rev.steps (encs cs) h).map (·.1) =
      (runDeque (indexed 0 cs).reverse h).map Obs.ofOption := by
  have := items_refine (rci_refines (encs cs)) h (charIndices (encs cs)).rev (ci_inv_init cs hs)
  have e : ciabs (encs cs) (charIndices (encs cs)).rev.rev = indexed 0 cs := ci_abs_init cs hs
  simp only [e] at this
  exact this

/-- `as_str` after every step of every history: the bytes are the encoding of exactly the items
    std's iterator has left, the view lies inside the string, and it starts at the byte offset of
    the first remaining character (`CharIndices`; the items carry the offsets) -/
theorem asStr_eq_remaining (cs : List Nat) (hs : ∀ c ∈ cs, isScalar c = true) (h : List Dir) :
    ((charIndices (encs cs)).steps (encs cs) h).map (fun p => (p.1, p.2.asStr.apply (encs cs))) =
      (dequeSteps (indexed 0 cs) h).map (fun p => (Obs.ofOption p.1, remainingBytes p.2)) ∧
    (∀ p ∈ (charIndices (encs cs)).steps (encs cs) h, p.2.asStr.InBounds (encs cs).length ∧
      ∀ o c r, ciabs (encs cs) p.2 = (o, c) :: r → p.2.asStr.off = o) := by
  have R := ci_refines (encs cs)
  have hi := ci_inv_init cs hs
  constructor
  · have h1 := steps_refine R h _ hi
    rw [ci_abs_init cs hs] at h1
    have hinv := steps_inv R h _ hi
    calc ((charIndices (encs cs)).steps (encs cs) h).map (fun p => (p.1, p.2.asStr.apply (encs cs)))
        = (((charIndices (encs cs)).steps (encs cs) h).map (fun p => (p.1, ciabs (encs cs) p.2))).map
            (fun x => (x.1, remainingBytes x.2)) := by
          rw [List.map_map]
          apply List.map_congr_left
          intro p hp
          obtain ⟨_, _, ds, hds, he⟩ := hinv p hp
          simp only [Function.comp, CharIndices.asStr, remainingBytes, ciabs_eq _ _ ds hds he,
            indexed_snd, he]
      _ = ((dequeSteps (indexed 0 cs) h).map (fun p => (Obs.ofOption p.1, p.2))).map
            (fun x => (x.1, remainingBytes x.2)) := by
          rw [← h1]; rfl
      _ = _ := by rw [List.map_map]; rfl
  · intro p hp
    obtain ⟨hib, ho, ds, hds, he⟩ := steps_inv R h _ hi p hp
    refine ⟨hib, ?_⟩
    intro o c r ha
    rw [ciabs_eq _ _ ds hds he] at ha
    cases ds with
    | nil => simp [indexed] at ha
    | cons d ds =>
      simp only [indexed, List.cons.injEq, Prod.mk.injEq] at ha
      show p.2.this.off = o
      rw [← ho]; exact ha.1.1

/-- `Chars::as_str` after every step of every history: the encoding of the chars std has left -/
theorem chars_asStr_eq_remaining (cs : List Nat) (hs : ∀ c ∈ cs, isScalar c = true) (h : List Dir) :
    ((chars (encs cs)).steps (encs cs) h).map (fun p => (p.1, p.2.asStr.apply (encs cs))) =
      (dequeSteps cs h).map (fun p => (Obs.ofOption p.1, encs p.2)) := by
  have R := chars_refines (encs cs)
  have hi := chars_inv_init cs hs
  have h1 := steps_refine R h _ hi
  rw [chars_abs_init cs hs] at h1
  have hinv := steps_inv R h _ hi
  calc ((chars (encs cs)).steps (encs cs) h).map (fun p => (p.1, p.2.asStr.apply (encs cs)))
      = (((chars (encs cs)).steps (encs cs) h).map (fun p => (p.1, cabs (encs cs) p.2))).map
          (fun x => (x.1, encs x.2)) := by
        rw [List.map_map]
        apply List.map_congr_left
        intro p hp
        obtain ⟨_, ds, hds, he⟩ := hinv p hp
        simp only [Function.comp, Chars.asStr, cabs_eq _ _ ds hds he, he]
    _ = ((dequeSteps cs h).map (fun p => (Obs.ofOption p.1, p.2))).map (fun x => (x.1, encs x.2)) := by
        rw [← h1]; rfl
    _ = _ := by rw [List.map_map]; rfl

/-- the unchecked `u32 -> char` cast in `string_to_char` only ever sees scalar values: every item
    yielded under any history is one of the string's chars -/
theorem yielded_are_scalar (cs : List Nat) (hs : ∀ c ∈ cs, isScalar c = true) (h : List Dir) :
    ∀ p ∈ (chars (encs cs)).steps (encs cs) h, ∀ x, p.1 = Obs.item x → isScalar x = true := by
  intro p hp x hx
  have h1 := chars_refines_deque cs hs h
  have hm : Obs.item x ∈ ((chars (encs cs)).steps (encs cs) h).map (·.1) :=
    List.mem_map.mpr ⟨p, hp, hx⟩
  rw [h1] at hm
  obtain ⟨o, ho, he⟩ := List.mem_map.mp hm
  cases o with
  | none => cases he
  | some y =>
    simp only [Obs.ofOption, Obs.item.injEq] at he
    subst he
    -- every item of the deque run is an element of the deque
    have key : ∀ (h : List Dir) (q : List Nat), (∀ c ∈ q, c ∈ cs) → ∀ z, some z ∈ runDeque q h → z ∈ cs := by
      intro h
      induction h with
      | nil => intro q _ z hz; cases q <;> simp [runDeque] at hz
      | cons d h ih =>
        intro q hq z hz
        cases q with
        | nil =>
          simp only [runDeque, List.mem_cons] at hz
          rcases hz with hz | hz
          · cases hz
          · exact ih [] (by simp) z hz
        | cons a q =>
          cases d with
          | f =>
            simp only [runDeque, List.mem_cons, Option.some.injEq] at hz
            rcases hz with rfl | hz
            · exact hq _ (by simp)
            · exact ih q (fun c hc => hq c (List.mem_cons_of_mem _ hc)) z hz
          | b =>
            simp only [runDeque, List.mem_cons, Option.some.injEq] at hz
            rcases hz with rfl | hz
            · exact hq _ (List.getLast_mem _)
            · exact ih _ (fun c hc => hq c (List.dropLast_subset _ hc)) z hz
    exact hs y (key h cs (fun c hc => hc) y ho)

/-! non-vacuity ("añ€😀" = 61 c3b1 e282ac f09f9880) -/

example : ∀ c ∈ [0x61, 0xF1, 0x20AC, 0x1F600], isScalar c = true := by decide
example : (encodeUtf8 0x20AC).asBytes = [0xE2, 0x82, 0xAC] := by decide
example : (encodeUtf8 0x1F600).asBytes = [0xF0, 0x9F, 0x98, 0x80] := by decide
example : stringToUsv [0xF0, 0x9F, 0x98, 0x80] = 0x1F600 := by decide
example : fromU32 0xD800 = none ∧ fromU32 0xDFFF = none ∧ fromU32 0x110000 = none ∧
    fromU32 0xD7FF = some 0xD7FF ∧ fromU32 0xE000 = some 0xE000 ∧ fromU32 0x10FFFF = some 0x10FFFF := by
  decide
example : runDeque [0x61, 0xF1, 0x20AC] [.b, .f, .f, .f] = [some 0x20AC, some 0x61, some 0xF1, none] := by
  decide
example : indexed 0 [0x61, 0xF1, 0x20AC, 0x1F600] = [(0, 0x61), (1, 0xF1), (3, 0x20AC), (6, 0x1F600)] := by
  decide

end Konst.Props.C07
