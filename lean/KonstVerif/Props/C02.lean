import KonstVerif.Model.Slice
import KonstVerif.Spec.Slice
/-
  C02 — Slice indexing and splitting functions agree with std slice indexing.
  Property theorems only (helper lemmas are local `private`), for every list `s` (any element
  type: ZST and non-`Copy` included by parametricity), every index below 2^64.
-/
namespace Konst.Props.C02
open Konst Konst.Slice Konst.Spec

variable {α : Type}

private theorem osub (a b : Nat) :
    overflowingSub a b = if b ≤ a then (a - b, false) else (a + USIZE - b, true) := rfl

/-- fallible open-ended getter = `slice.get(a..)` -/
theorem getFrom_eq_std (s : List α) (a : Nat) :
    (getFrom s.length a).map (·.apply s) = stdGetFrom s a := by
  unfold getFrom sliceFromImpl stdGetFrom
  rw [osub]
  by_cases h : a ≤ s.length
  · simp [h, View.apply]
    exact List.take_of_length_le (by simp)
  · simp [h]

/-- `get_up_to` = `slice.get(..b)` -/
theorem getUpTo_eq_std (s : List α) (b : Nat) :
    (getUpTo s.length b).map (·.apply s) = stdGetUpTo s b := by
  unfold getUpTo sliceUpToImpl stdGetUpTo
  rw [osub]
  by_cases h : b ≤ s.length
  · simp [h, View.apply]
  · simp [h]

/-- `get_range` (composition `get_up_to` then `get_from`) = `slice.get(a..b)`, `a > b` included -/
theorem getRange_eq_std (s : List α) (a b : Nat) :
    (getRange s.length a b).map (·.apply s) = stdGetRange s a b := by
  unfold getRange getUpTo getFrom sliceUpToImpl sliceFromImpl stdGetRange
  rw [osub]
  by_cases hb : b ≤ s.length
  · simp only [hb, if_true, Bool.false_eq_true, if_false]
    rw [osub]
    by_cases ha : a ≤ b
    · simp only [ha, if_true, Bool.false_eq_true, if_false, Option.map_some, View.apply,
        View.comp, Nat.zero_add, and_self]
    · simp [ha]
  · simp [hb]

/-- single-element getter = `slice.get(i)` -/
theorem get_eq_std (s : List α) (i : Nat) :
    (Slice.get s.length i).map (·.apply s) = stdGet s i := by
  unfold Slice.get stdGet
  by_cases h : s.length > i
  · simp only [h, if_true, Option.map_some, View.apply]
    rw [List.getElem?_eq_getElem h]
    simp [List.take_one, List.head?_drop, List.getElem?_eq_getElem h]
  · simp [h]

/-- clamping `slice_from`: std's sub-slice when it exists, else the empty slice -/
theorem sliceFrom_eq_std_or_clamp (s : List α) (a : Nat) :
    (sliceFrom s.length a).apply s = (stdGetFrom s a).getD [] := by
  unfold sliceFrom sliceFromImpl stdGetFrom
  rw [osub]
  by_cases h : a ≤ s.length
  · simp [h, View.apply]
    exact List.take_of_length_le (by simp)
  · simp [h, View.apply]

/-- clamping `slice_up_to`: std's sub-slice when it exists, else the whole slice -/
theorem sliceUpTo_eq_std_or_clamp (s : List α) (b : Nat) :
    (sliceUpTo s.length b).apply s = (stdGetUpTo s b).getD s := by
  unfold sliceUpTo sliceUpToImpl stdGetUpTo
  rw [osub]
  by_cases h : b ≤ s.length
  · simp [h, View.apply]
  · simp [h, View.apply]

/-- clamping `slice_range`: always `(s.take b).drop a` (the documented clamp), which is std's
    `s[a..b]` whenever that exists -/
theorem sliceRange_eq_std_or_clamp (s : List α) (a b : Nat) :
    (sliceRange s.length a b).apply s = (s.take b).drop a ∧
    (∀ r, stdGetRange s a b = some r → (sliceRange s.length a b).apply s = r) := by
  have key : (sliceRange s.length a b).apply s = (s.take b).drop a := by
    unfold sliceRange sliceUpTo sliceFrom sliceUpToImpl sliceFromImpl
    rw [osub]
    by_cases hb : b ≤ s.length
    · simp only [hb, if_true, Bool.false_eq_true, if_false, Option.getD_some]
      rw [osub]
      by_cases ha : a ≤ b
      · simp only [ha, if_true, Bool.false_eq_true, if_false, Option.getD_some, View.comp, View.apply]
        simp only [Nat.zero_add]
        rw [List.drop_take]
      · simp only [ha, if_false, if_true, Option.getD_none, View.comp, View.apply]
        simp
        omega
    · simp only [hb, if_false, if_true, Option.getD_none]
      rw [osub]
      have hlen : s.take b = s := List.take_of_length_le (by omega)
      by_cases ha : a ≤ s.length
      · simp [ha, View.comp, View.apply, hlen]
        exact List.take_of_length_le (by simp)
      · simp [ha, View.comp, View.apply, hlen]
        omega
  refine ⟨key, ?_⟩
  intro r hr
  unfold stdGetRange at hr
  by_cases h : a ≤ b ∧ b ≤ s.length
  · simp only [h, and_self, if_true, Option.some.injEq] at hr
    rw [key, ← hr, List.drop_take]
  · simp [h] at hr

/-- `split_at` = std's `split_at` when `at ≤ len`, otherwise `(slice, [])` (documented) -/
theorem splitAt_eq (s : List α) (at_ : Nat) :
    ((splitAt s.length at_).1.apply s, (splitAt s.length at_).2.apply s)
      = (stdSplitAt s at_).getD (s, []) := by
  unfold splitAt stdSplitAt
  simp only []
  rw [sliceUpTo_eq_std_or_clamp, sliceFrom_eq_std_or_clamp]
  unfold stdGetUpTo stdGetFrom
  by_cases h : at_ ≤ s.length <;> simp [h]

/-- `split_at_mut` (its own code path) addresses exactly the elements `split_at` does, and the two
    halves are disjoint, adjacent and cover the slice when `at ≤ len` -/
theorem splitAtMut_same (s : List α) (at_ : Nat) :
    (splitAtMut s.length at_).1.apply s = (splitAt s.length at_).1.apply s ∧
    (splitAtMut s.length at_).2.apply s = (splitAt s.length at_).2.apply s ∧
    (at_ ≤ s.length →
      (splitAtMut s.length at_).1 = ⟨0, at_⟩ ∧ (splitAtMut s.length at_).2 = ⟨at_, s.length - at_⟩) := by
  unfold splitAtMut splitAt sliceUpTo sliceFrom sliceUpToImpl sliceFromImpl
  rw [osub]
  by_cases h : at_ ≤ s.length
  · have h' : ¬ at_ > s.length := by omega
    simp [h, h', View.apply]
  · have h' : at_ > s.length := by omega
    simp [h, h', View.apply]

/-- every view any of the functions returns lies inside the argument slice (the guard that makes
    the `from_raw_parts` calls sound; feeds C01), for every length and every index -/
theorem views_in_bounds (len a b : Nat) :
    (∀ v, getFrom len a = some v → v.InBounds len) ∧
    (∀ v, getUpTo len b = some v → v.InBounds len) ∧
    (∀ v, getRange len a b = some v → v.InBounds len) ∧
    (∀ v, Slice.get len a = some v → v.InBounds len) ∧
    (sliceFrom len a).InBounds len ∧ (sliceUpTo len b).InBounds len ∧
    (sliceRange len a b).InBounds len ∧
    (splitAt len a).1.InBounds len ∧ (splitAt len a).2.InBounds len ∧
    (splitAtMut len a).1.InBounds len ∧ (splitAtMut len a).2.InBounds len := by
  unfold getFrom getUpTo getRange Slice.get sliceRange splitAt splitAtMut sliceFrom sliceUpTo getUpTo getFrom
    sliceFromImpl sliceUpToImpl View.InBounds View.comp
  simp only [osub]
  refine ⟨?_, ?_, ?_, ?_, ?_, ?_, ?_, ?_, ?_, ?_, ?_⟩
  · intro v; by_cases h : a ≤ len <;> simp [h]; intro e; subst e; simp; omega
  · intro v; by_cases h : b ≤ len <;> simp [h]; intro e; subst e; simp; omega
  · intro v
    by_cases hb : b ≤ len
    · by_cases ha : a ≤ b
      · simp [hb, ha]; intro e; subst e; simp; omega
      · simp [hb, ha]
    · simp [hb]
  · intro v; by_cases h : len > a <;> simp [h]; intro e; subst e; simp; omega
  · by_cases h : a ≤ len <;> simp [h] <;> omega
  · by_cases h : b ≤ len <;> simp [h] <;> omega
  · by_cases hb : b ≤ len
    · by_cases ha : a ≤ b <;> simp [hb, ha] <;> omega
    · by_cases ha : a ≤ len <;> simp [hb, ha] <;> omega
  · by_cases h : a ≤ len <;> simp [h] <;> omega
  · by_cases h : a ≤ len <;> simp [h] <;> omega
  · by_cases h : a > len <;> simp [h]; omega
  · by_cases h : a > len <;> simp [h]; omega

/-- `first/last/split_first/split_last(_mut)` address the elements std's do -/
theorem first_last_eq (s : List α) :
    (first s.length).map (·.apply s) = s.head?.map (fun x => [x]) ∧
    (last s.length).map (·.apply s) = s.getLast?.map (fun x => [x]) ∧
    (splitFirst s.length).map (fun p => (p.1.apply s, p.2.apply s))
        = s.head?.map (fun x => ([x], s.tail)) ∧
    (splitLast s.length).map (fun p => (p.1.apply s, p.2.apply s))
        = s.getLast?.map (fun x => ([x], s.dropLast)) := by
  unfold first last splitFirst splitLast
  have hlast : ∀ (x : α) (r : List α), List.drop r.length (x :: r) = [(x :: r).getLast (by simp)] := by
    intro x r
    induction r generalizing x with
    | nil => simp
    | cons y r ih => simpa using ih y
  refine ⟨?_, ?_, ?_, ?_⟩
  · cases s with
    | nil => simp
    | cons x r => simp [View.apply]
  · cases s with
    | nil => simp
    | cons x r =>
      rw [List.getLast?_eq_some_getLast (by simp)]
      simp only [List.length_cons, Nat.add_one_ne_zero, if_false, Option.map_some, View.apply,
        Nat.add_sub_cancel, hlast]
      simp
  · cases s with
    | nil => simp
    | cons x r =>
      simp only [List.length_cons, Nat.add_one_ne_zero, if_false, Option.map_some, View.apply,
        Nat.add_sub_cancel, List.head?_cons, List.tail_cons]
      simp
  · cases s with
    | nil => simp
    | cons x r =>
      rw [List.getLast?_eq_some_getLast (by simp)]
      simp only [List.length_cons, Nat.add_one_ne_zero, if_false, Option.map_some, View.apply,
        Nat.add_sub_cancel, hlast]
      simp [List.dropLast_eq_take]

/-- slice → array conversion succeeds exactly when the lengths agree (as `<&[T;N]>::try_from`),
    and then views the whole slice in order -/
theorem tryIntoArray_iff (s : List α) (n : Nat) :
    ((tryIntoArray s.length n).isSome ↔ s.length = n) ∧
    (∀ v, tryIntoArray s.length n = some v → v.apply s = s) := by
  unfold tryIntoArray
  by_cases h : s.length = n
  · simp [h, View.apply]; subst h; simp
  · simp [h]

private theorem chunksExact_length (n : Nat) (hn : 0 < n) :
    ∀ (k : Nat) (l : List α), l.length = k → (chunksExact n l).length = l.length / n := by
  intro k
  induction k using Nat.strongRecOn with
  | _ k ih =>
    intro l hk
    rw [chunksExact]
    by_cases h : n = 0 ∨ l.length < n
    · simp only [h, dite_true, List.length_nil]
      rcases h with h | h
      · omega
      · exact (Nat.div_eq_of_lt h).symm
    · simp only [h, dite_false, List.length_cons]
      have hge : n ≤ l.length := by omega
      rw [ih (l.length - n) (by omega) (l.drop n) (by simp)]
      simp only [List.length_drop]
      have : l.length = (l.length - n) + n := by omega
      conv => rhs; rw [this, Nat.add_div_right _ hn]

/-- `as_chunks::<N>` (N ≥ 1): the part re-typed as `[[T;N]]` consists of exactly `len / N` arrays,
    which are std's chunks, and the remainder is std's remainder; `arrs_len * N + rem = len` -/
theorem asChunks_eq (s : List α) (n : Nat) (hn : 1 ≤ n) :
    ∃ a k r, asChunks s.length n = some (a, k, r) ∧
      chunksExact n (a.apply s) = (stdAsChunks n s).1 ∧
      k = (stdAsChunks n s).1.length ∧ a.len = k * n ∧
      r.apply s = (stdAsChunks n s).2 ∧ a.len + r.len = s.length ∧
      a.InBounds s.length ∧ r.InBounds s.length := by
  have hle : s.length / n * n ≤ s.length := Nat.div_mul_le_self _ _
  have hn0 : n ≠ 0 := by omega
  refine ⟨(splitAt s.length (s.length / n * n)).1, s.length / n, (splitAt s.length (s.length / n * n)).2, ?_⟩
  refine ⟨by simp [asChunks, hn0], ?_⟩
  have hs := splitAt_eq s (s.length / n * n)
  unfold stdSplitAt at hs
  simp only [hle, if_true, Option.getD_some, Prod.mk.injEq] at hs
  obtain ⟨h1, h2⟩ := hs
  unfold stdAsChunks
  refine ⟨by rw [h1], ?_, ?_, h2, ?_, ?_, ?_⟩
  · rw [chunksExact_length n (by omega) _ _ rfl]
    simp only [List.length_take]
    rw [Nat.min_eq_left hle, Nat.mul_div_cancel _ (by omega)]
  · simp [splitAt, sliceUpTo, sliceUpToImpl, osub, hle]
  · simp [splitAt, sliceUpTo, sliceUpToImpl, sliceFrom, sliceFromImpl, osub, hle]
  · simp [splitAt, sliceUpTo, sliceUpToImpl, osub, hle, View.InBounds]
  · simp [splitAt, sliceFrom, sliceFromImpl, osub, hle, View.InBounds]

/-- `as_rchunks::<N>` (N ≥ 1) -/
theorem asRchunks_eq (s : List α) (n : Nat) (hn : 1 ≤ n) :
    ∃ r a k, asRchunks s.length n = some (r, a, k) ∧
      r.apply s = (stdAsRchunks n s).1 ∧
      chunksExact n (a.apply s) = (stdAsRchunks n s).2 ∧
      k = (stdAsRchunks n s).2.length ∧ a.len = k * n ∧ r.len + a.len = s.length ∧
      a.InBounds s.length ∧ r.InBounds s.length := by
  have hle : s.length % n ≤ s.length := Nat.mod_le _ _
  have hn0 : n ≠ 0 := by omega
  have hdm := Nat.div_add_mod s.length n
  have hmul : n * (s.length / n) = s.length / n * n := Nat.mul_comm _ _
  refine ⟨(splitAt s.length (s.length % n)).1, (splitAt s.length (s.length % n)).2, s.length / n, ?_⟩
  refine ⟨by simp [asRchunks, hn0], ?_⟩
  have hs := splitAt_eq s (s.length % n)
  unfold stdSplitAt at hs
  simp only [hle, if_true, Option.getD_some, Prod.mk.injEq] at hs
  obtain ⟨h1, h2⟩ := hs
  unfold stdAsRchunks
  refine ⟨h1, by rw [h2], ?_, ?_, ?_, ?_, ?_⟩
  · rw [chunksExact_length n (by omega) _ _ rfl]
    simp only [List.length_drop]
    have : s.length - s.length % n = s.length / n * n := by omega
    rw [this, Nat.mul_div_cancel _ (by omega)]
  · simp [splitAt, sliceFrom, sliceFromImpl, osub, hle]; omega
  · simp [splitAt, sliceUpTo, sliceUpToImpl, sliceFrom, sliceFromImpl, osub, hle]
  · simp [splitAt, sliceFrom, sliceFromImpl, osub, hle, View.InBounds]
  · simp [splitAt, sliceUpTo, sliceUpToImpl, osub, hle, View.InBounds]

/-- `as_chunks` / `as_rchunks` panic exactly for `N = 0` (as std's do) -/
theorem asChunks_panics_iff (len n : Nat) :
    (asChunks len n = none ↔ n = 0) ∧ (asRchunks len n = none ↔ n = 0) := by
  unfold asChunks asRchunks
  by_cases h : n = 0 <;> simp [h]

-- non-vacuity / sanity: concrete values of model and spec (kernel-evaluated)
example : (getRange 5 1 3).map (·.apply [10,11,12,13,14]) = some [11,12] := by decide
example : getRange 5 3 1 = none ∧ stdGetRange [10,11,12,13,14] 3 1 = none := by decide
example : getFrom 5 (2^64 - 1) = none := by decide
example : (sliceRange 5 4 9).apply [10,11,12,13,14] = [14] := by decide
example : asChunks 7 3 = some (⟨0, 6⟩, 2, ⟨6, 1⟩) := by decide

end Konst.Props.C02
