import KonstVerif.Lemmas.SliceIter
/-
  C08 — Slice iterators behave like std's double-ended slice iterators.

  For every list `l` (any element type; with `l = List.range len` the elements are the positions, so
  the statements pin down WHICH sub-slice is yielded), every size `n ≥ 1` and every history of
  `next`/`next_back` calls (and `.rev()` calls between them): running the model of the konst iterator
  never panics and returns exactly the results of popping std's item list at the corresponding end —
  `None` for ever once it is empty; `as_slice()`/`remainder()` of the final iterator are std's.

  Vocabulary: `It σ` = an iterator value (`fwd` says which of the two struct types, e.g. `Chunks` or
  `ChunksRev`); `It.run B it h` = results of the history `h` and the final iterator (`none` = a panic);
  `It.runX` = histories in which `none` entries are `.rev()` calls; `X.de` (Lemmas/SliceIter.lean) =
  the blocks of iterator `X` with its abstraction `abs` to a list of items and its invariant `inv`;
  `dequeRun q h` / `dequeRest q h` (Spec/SliceIter.lean) = results / rest of popping the list `q`.
-/
namespace Konst.Props.C08
open Konst Konst.SliceIter Konst.Spec

variable {α σ ι : Type}

/-! ### `iterator_shared!`: rev and copy (every iterator, no hypotheses) -/

/-- the other end -/
def flipDir : Dir → Dir
  | .f => .b
  | .b => .f

/-- `rev()` swaps the two ends: `next` of the reversed iterator is `next_back` of the original (and
    vice versa), same item, and the iterators that come back are again each other's reversal -/
theorem rev_swaps_ends (B : Blocks σ ι) (it : It σ) :
    It.next B it.rev = (It.nextBack B it).mapState It.rev ∧
    It.nextBack B it.rev = (It.next B it).mapState It.rev := by
  obtain ⟨fwd, s⟩ := it
  cases fwd
  · constructor
    · simp only [It.next, It.nextBack, It.rev]
      cases B.nextBlock s <;> rfl
    · simp only [It.next, It.nextBack, It.rev]
      cases B.nextBackBlock s <;> rfl
  · constructor
    · simp only [It.next, It.nextBack, It.rev]
      cases B.nextBackBlock s <;> rfl
    · simp only [It.next, It.nextBack, It.rev]
      cases B.nextBlock s <;> rfl

/-- lifted to histories: a history on the reversed iterator gives the results of the mirrored history
    on the original (panics included), and ends in the reversal of where the original ends -/
theorem rev_swaps_ends_history (B : Blocks σ ι) : ∀ (h : List Dir) (it : It σ),
    It.run B it.rev h = (It.run B it (h.map flipDir)).map fun r => (r.1, r.2.rev) := by
  intro h
  induction h with
  | nil => intro it; rfl
  | cons d h ih =>
    intro it
    have hs : It.step B d it.rev = (It.step B (flipDir d) it).mapState It.rev := by
      cases d
      · exact (rev_swaps_ends B it).1
      · exact (rev_swaps_ends B it).2
    simp only [It.run, List.map_cons, hs]
    cases It.step B (flipDir d) it with
    | panic => rfl
    | none =>
      simp only [Step.mapState, ih it]
      cases It.run B it (h.map flipDir) <;> rfl
    | some x it' =>
      simp only [Step.mapState, ih it']
      cases It.run B it' (h.map flipDir) <;> rfl

/-- reversing twice gives the iterator back -/
theorem rev_rev (it : It σ) : it.rev.rev = it := by
  obtain ⟨fwd, s⟩ := it
  simp [It.rev]

/-- `copy()` returns an iterator with the same type and fields -/
theorem copy_eq (it : It σ) : it.copy = it := rfl

/-- copying means: the program `let c = it.copy(); r1 = <history h1 on c>; r2 = <history h2 on it>`
    gives, for both, exactly what the un-copied iterator gives for that history alone.  (Iterators
    are values — a step returns a new iterator and cannot affect any other; the content of the
    statement is that `copy` carries every field over.) -/
theorem copy_independent (B : Blocks σ ι) (it : It σ) (h1 h2 : List Dir) :
    (let c := it.copy
     let r1 := It.run B c h1
     let r2 := It.run B it h2
     (r1, r2)) = (It.run B it h1, It.run B it h2) := rfl

/-- … and for an iterator satisfying its invariant both futures are the deque's: the copy has the same
    future as the original, whatever is done with the other one -/
theorem copy_same_future (D : DEInv σ ι) (it : It σ) (hi : D.inv it.fields) (h1 h2 : List Dir) :
    ∃ c' it', It.run D.blocks it.copy h1 = some (dequeRun (D.absIt it) h1, c') ∧
      It.run D.blocks it h2 = some (dequeRun (D.absIt it) h2, it') := by
  obtain ⟨c', r1, _⟩ := D.run_refines h1 it hi
  obtain ⟨it', r2, _⟩ := D.run_refines h2 it hi
  exact ⟨c', it', r1, r2⟩

/-- `.rev()` at the abstract level: the remaining items come out in the opposite order -/
theorem rev_reverses_items (D : DEInv σ ι) (it : It σ) : D.absIt it.rev = (D.absIt it).reverse :=
  D.absIt_rev it

/-! ### the constructors panic exactly for size 0 (as std's do) -/

theorem ctor_panics_iff (l : List α) (n : Nat) :
    (windows l n = none ↔ n = 0) ∧ (chunks l n = none ↔ n = 0) ∧ (rchunks l n = none ↔ n = 0) ∧
    (SliceIter.chunksExact l n = none ↔ n = 0) ∧ (rchunksExact l n = none ↔ n = 0) ∧
    (arrayChunks l n = none ↔ n = 0) := by
  by_cases h : n = 0
  · subst h
    simp [windows, chunks, rchunks, SliceIter.chunksExact, rchunksExact, arrayChunks, Slice.asChunks]
  · have hn : 1 ≤ n := by omega
    simp [windows_init l n hn, chunks_init l n hn, rchunks_init l n hn, chunksExact_init l n hn,
      rchunksExact_init l n hn, arrayChunks_init l n hn, h]

/-! ### Iter / IterRev -/

theorem iter_abs_init (l : List α) :
    (iter l).fwd = true ∧ Iter.de.abs (iter l).fields = iterSpec l := ⟨rfl, rfl⟩

theorem iter_next_pop_front (s : Iter α) :
    (Iter.nextBlock s = .none ∧ Iter.de.abs s = []) ∨
    (∃ x s', Iter.nextBlock s = .some x s' ∧ Iter.de.abs s = x :: Iter.de.abs s') := by
  rcases Iter.de.next_ok s trivial with h | ⟨x, s', h1, h2, _⟩
  · exact Or.inl h
  · exact Or.inr ⟨x, s', h1, h2⟩

theorem iter_nextBack_pop_back (s : Iter α) :
    (Iter.nextBackBlock s = .none ∧ Iter.de.abs s = []) ∨
    (∃ x s', Iter.nextBackBlock s = .some x s' ∧ Iter.de.abs s = Iter.de.abs s' ++ [x]) := by
  rcases Iter.de.back_ok s trivial with h | ⟨x, s', h1, h2, _⟩
  · exact Or.inl h
  · exact Or.inr ⟨x, s', h1, h2⟩

/-- every history: std's elements popped at the chosen ends; `as_slice()` = what std has left -/
theorem iter_history (l : List α) (h : List Dir) :
    ∃ it', It.run Iter.blocks (iter l) h = some (dequeRun (iterSpec l) h, it') ∧
      Iter.asSlice it' = dequeRest (iterSpec l) h := by
  obtain ⟨it', r1, r2, _, _⟩ := Iter.de.history_fwd (iter l) rfl trivial h
  exact ⟨it', r1, r2⟩

/-- with `.rev()` calls: `as_slice()` of an `IterRev` is still the remaining slice in slice order -/
theorem iter_history_rev (l : List α) (h : List (Option Dir)) :
    ∃ it', It.runX Iter.blocks (iter l) h = some (dequeRunX (iterSpec l) h, it') ∧
      Iter.asSlice it' = if it'.fwd then dequeRestX (iterSpec l) h else (dequeRestX (iterSpec l) h).reverse := by
  obtain ⟨it', r1, r2, _⟩ := Iter.de.historyX_fwd (iter l) rfl trivial h
  have r2' : Iter.de.absIt it' = dequeRestX (iterSpec l) h := r2
  refine ⟨it', r1, ?_⟩
  rw [← r2']
  obtain ⟨fwd, s⟩ := it'
  cases fwd <;> simp [DEInv.absIt, Iter.asSlice, Iter.de]

/-! ### IterCopied / IterCopiedRev -/

theorem iterCopied_abs_init (l : List α) :
    (iterCopied l).fwd = true ∧ IterCopied.de.abs (iterCopied l).fields = iterSpec l := ⟨rfl, rfl⟩

theorem iterCopied_next_pop_front (s : IterCopied α) :
    (IterCopied.nextBlock s = .none ∧ IterCopied.de.abs s = []) ∨
    (∃ x s', IterCopied.nextBlock s = .some x s' ∧ IterCopied.de.abs s = x :: IterCopied.de.abs s') := by
  rcases IterCopied.de.next_ok s trivial with h | ⟨x, s', h1, h2, _⟩
  · exact Or.inl h
  · exact Or.inr ⟨x, s', h1, h2⟩

theorem iterCopied_nextBack_pop_back (s : IterCopied α) :
    (IterCopied.nextBackBlock s = .none ∧ IterCopied.de.abs s = []) ∨
    (∃ x s', IterCopied.nextBackBlock s = .some x s' ∧
      IterCopied.de.abs s = IterCopied.de.abs s' ++ [x]) := by
  rcases IterCopied.de.back_ok s trivial with h | ⟨x, s', h1, h2, _⟩
  · exact Or.inl h
  · exact Or.inr ⟨x, s', h1, h2⟩

theorem iterCopied_history (l : List α) (h : List Dir) :
    ∃ it', It.run IterCopied.blocks (iterCopied l) h = some (dequeRun (iterSpec l) h, it') ∧
      IterCopied.asSlice it' = dequeRest (iterSpec l) h := by
  obtain ⟨it', r1, r2, _, _⟩ := IterCopied.de.history_fwd (iterCopied l) rfl trivial h
  exact ⟨it', r1, r2⟩

theorem iterCopied_history_rev (l : List α) (h : List (Option Dir)) :
    ∃ it', It.runX IterCopied.blocks (iterCopied l) h = some (dequeRunX (iterSpec l) h, it') ∧
      IterCopied.asSlice it' =
        if it'.fwd then dequeRestX (iterSpec l) h else (dequeRestX (iterSpec l) h).reverse := by
  obtain ⟨it', r1, r2, _⟩ := IterCopied.de.historyX_fwd (iterCopied l) rfl trivial h
  have r2' : IterCopied.de.absIt it' = dequeRestX (iterSpec l) h := r2
  refine ⟨it', r1, ?_⟩
  rw [← r2']
  obtain ⟨fwd, s⟩ := it'
  cases fwd <;> simp [DEInv.absIt, IterCopied.asSlice, IterCopied.de]

/-! ### Windows / WindowsRev -/

theorem windows_abs_init (l : List α) (n : Nat) (hn : 1 ≤ n) :
    ∃ it0, windows l n = some it0 ∧ it0.fwd = true ∧ Windows.de.inv it0.fields ∧
      Windows.de.abs it0.fields = windowsSpec n l :=
  ⟨_, windows_init l n hn, rfl, hn, rfl⟩

theorem windows_next_pop_front (w : Windows α) (hw : 0 < w.size) :
    (Windows.nextBlock w = .none ∧ windowsSpec w.size w.slice = []) ∨
    (∃ x w', Windows.nextBlock w = .some x w' ∧
      windowsSpec w.size w.slice = x :: windowsSpec w'.size w'.slice ∧ 0 < w'.size) :=
  Windows.de.next_ok w hw

theorem windows_nextBack_pop_back (w : Windows α) (hw : 0 < w.size) :
    (Windows.nextBackBlock w = .none ∧ windowsSpec w.size w.slice = []) ∨
    (∃ x w', Windows.nextBackBlock w = .some x w' ∧
      windowsSpec w.size w.slice = windowsSpec w'.size w'.slice ++ [x] ∧ 0 < w'.size) :=
  Windows.de.back_ok w hw

theorem windows_history (l : List α) (n : Nat) (hn : 1 ≤ n) (h : List Dir) :
    ∃ it0 it', windows l n = some it0 ∧
      It.run Windows.blocks it0 h = some (dequeRun (windowsSpec n l) h, it') := by
  obtain ⟨it', r1, _⟩ := Windows.de.history_fwd ⟨true, ⟨l, n⟩⟩ rfl hn h
  exact ⟨_, it', windows_init l n hn, r1⟩

theorem windows_history_rev (l : List α) (n : Nat) (hn : 1 ≤ n) (h : List (Option Dir)) :
    ∃ it0 it', windows l n = some it0 ∧
      It.runX Windows.blocks it0 h = some (dequeRunX (windowsSpec n l) h, it') := by
  obtain ⟨it', r1, _⟩ := Windows.de.historyX_fwd ⟨true, ⟨l, n⟩⟩ rfl hn h
  exact ⟨_, it', windows_init l n hn, r1⟩

/-! ### Chunks / ChunksRev -/

theorem chunks_abs_init (l : List α) (n : Nat) (hn : 1 ≤ n) :
    ∃ it0, chunks l n = some it0 ∧ it0.fwd = true ∧ Chunks.de.inv it0.fields ∧
      Chunks.de.abs it0.fields = chunksSpec n l :=
  ⟨_, chunks_init l n hn, rfl, ⟨hn, fun _ ht => someIfNonempty_inv _ _ ht⟩,
    Chunks.absOpt_someIfNonempty n l⟩

theorem chunks_next_pop_front (c : Chunks α) (hc : Chunks.de.inv c) :
    (Chunks.nextBlock c = .none ∧ Chunks.de.abs c = []) ∨
    (∃ x c', Chunks.nextBlock c = .some x c' ∧ Chunks.de.abs c = x :: Chunks.de.abs c' ∧
      Chunks.de.inv c') :=
  Chunks.de.next_ok c hc

theorem chunks_nextBack_pop_back (c : Chunks α) (hc : Chunks.de.inv c) :
    (Chunks.nextBackBlock c = .none ∧ Chunks.de.abs c = []) ∨
    (∃ x c', Chunks.nextBackBlock c = .some x c' ∧ Chunks.de.abs c = Chunks.de.abs c' ++ [x] ∧
      Chunks.de.inv c') :=
  Chunks.de.back_ok c hc

theorem chunks_history (l : List α) (n : Nat) (hn : 1 ≤ n) (h : List Dir) :
    ∃ it0 it', chunks l n = some it0 ∧
      It.run Chunks.blocks it0 h = some (dequeRun (chunksSpec n l) h, it') := by
  obtain ⟨it0, e, hf, hi, ha⟩ := chunks_abs_init l n hn
  obtain ⟨it', r1, _⟩ := Chunks.de.history_fwd it0 hf hi h
  rw [ha] at r1
  exact ⟨it0, it', e, r1⟩

theorem chunks_history_rev (l : List α) (n : Nat) (hn : 1 ≤ n) (h : List (Option Dir)) :
    ∃ it0 it', chunks l n = some it0 ∧
      It.runX Chunks.blocks it0 h = some (dequeRunX (chunksSpec n l) h, it') := by
  obtain ⟨it0, e, hf, hi, ha⟩ := chunks_abs_init l n hn
  obtain ⟨it', r1, _⟩ := Chunks.de.historyX_fwd it0 hf hi h
  rw [ha] at r1
  exact ⟨it0, it', e, r1⟩

/-! ### RChunks / RChunksRev -/

theorem rchunks_abs_init (l : List α) (n : Nat) (hn : 1 ≤ n) :
    ∃ it0, rchunks l n = some it0 ∧ it0.fwd = true ∧ RChunks.de.inv it0.fields ∧
      RChunks.de.abs it0.fields = rchunksSpec n l :=
  ⟨_, rchunks_init l n hn, rfl, ⟨hn, fun _ ht => someIfNonempty_inv _ _ ht⟩,
    RChunks.absOpt_someIfNonempty n l⟩

theorem rchunks_next_pop_front (c : RChunks α) (hc : RChunks.de.inv c) :
    (RChunks.nextBlock c = .none ∧ RChunks.de.abs c = []) ∨
    (∃ x c', RChunks.nextBlock c = .some x c' ∧ RChunks.de.abs c = x :: RChunks.de.abs c' ∧
      RChunks.de.inv c') :=
  RChunks.de.next_ok c hc

theorem rchunks_nextBack_pop_back (c : RChunks α) (hc : RChunks.de.inv c) :
    (RChunks.nextBackBlock c = .none ∧ RChunks.de.abs c = []) ∨
    (∃ x c', RChunks.nextBackBlock c = .some x c' ∧ RChunks.de.abs c = RChunks.de.abs c' ++ [x] ∧
      RChunks.de.inv c') :=
  RChunks.de.back_ok c hc

theorem rchunks_history (l : List α) (n : Nat) (hn : 1 ≤ n) (h : List Dir) :
    ∃ it0 it', rchunks l n = some it0 ∧
      It.run RChunks.blocks it0 h = some (dequeRun (rchunksSpec n l) h, it') := by
  obtain ⟨it0, e, hf, hi, ha⟩ := rchunks_abs_init l n hn
  obtain ⟨it', r1, _⟩ := RChunks.de.history_fwd it0 hf hi h
  rw [ha] at r1
  exact ⟨it0, it', e, r1⟩

theorem rchunks_history_rev (l : List α) (n : Nat) (hn : 1 ≤ n) (h : List (Option Dir)) :
    ∃ it0 it', rchunks l n = some it0 ∧
      It.runX RChunks.blocks it0 h = some (dequeRunX (rchunksSpec n l) h, it') := by
  obtain ⟨it0, e, hf, hi, ha⟩ := rchunks_abs_init l n hn
  obtain ⟨it', r1, _⟩ := RChunks.de.historyX_fwd it0 hf hi h
  rw [ha] at r1
  exact ⟨it0, it', e, r1⟩

/-! ### ChunksExact / ChunksExactRev -/

/-- the pre-split at `len - len % n`: the iterated part stands for std's full chunks, `rem` is std's
    remainder -/
theorem chunksExact_abs_init (l : List α) (n : Nat) (hn : 1 ≤ n) :
    ∃ it0, SliceIter.chunksExact l n = some it0 ∧ it0.fwd = true ∧
      (ChunksExact.de (chunksExactRem n l)).inv it0.fields ∧
      (ChunksExact.de (chunksExactRem n l)).abs it0.fields = chunksExactSpec n l ∧
      ChunksExact.remainder it0 = chunksExactRem n l := by
  refine ⟨_, chunksExact_init l n hn, rfl, ⟨hn, ?_, rfl⟩, ?_, rfl⟩
  · have hm := Nat.mod_le l.length n
    simp only [List.length_take]
    rw [Nat.min_eq_left (by omega), sub_mod_eq_div_mul, Nat.mul_mod_left]
  · exact chunksExact_take_full n hn _ l rfl

theorem chunksExact_next_pop_front (r : List α) (c : ChunksExact α) (hc : (ChunksExact.de r).inv c) :
    (ChunksExact.nextBlock c = .none ∧ (ChunksExact.de r).abs c = []) ∨
    (∃ x c', ChunksExact.nextBlock c = .some x c' ∧
      (ChunksExact.de r).abs c = x :: (ChunksExact.de r).abs c' ∧ (ChunksExact.de r).inv c') :=
  (ChunksExact.de r).next_ok c hc

theorem chunksExact_nextBack_pop_back (r : List α) (c : ChunksExact α) (hc : (ChunksExact.de r).inv c) :
    (ChunksExact.nextBackBlock c = .none ∧ (ChunksExact.de r).abs c = []) ∨
    (∃ x c', ChunksExact.nextBackBlock c = .some x c' ∧
      (ChunksExact.de r).abs c = (ChunksExact.de r).abs c' ++ [x] ∧ (ChunksExact.de r).inv c') :=
  (ChunksExact.de r).back_ok c hc

/-- every history: std's full chunks; `remainder()` is std's remainder before and after -/
theorem chunksExact_history (l : List α) (n : Nat) (hn : 1 ≤ n) (h : List Dir) :
    ∃ it0 it', SliceIter.chunksExact l n = some it0 ∧
      It.run ChunksExact.blocks it0 h = some (dequeRun (chunksExactSpec n l) h, it') ∧
      ChunksExact.remainder it0 = chunksExactRem n l ∧
      ChunksExact.remainder it' = chunksExactRem n l := by
  obtain ⟨it0, e, hf, hi, ha, hr⟩ := chunksExact_abs_init l n hn
  obtain ⟨it', r1, _, r3, _⟩ := (ChunksExact.de (chunksExactRem n l)).history_fwd it0 hf hi h
  rw [ha] at r1
  exact ⟨it0, it', e, r1, hr, r3.2.2⟩

/-- `remainder_eq`, with `.rev()` calls (the Rev type has `remainder()` too) -/
theorem chunksExact_history_rev (l : List α) (n : Nat) (hn : 1 ≤ n) (h : List (Option Dir)) :
    ∃ it0 it', SliceIter.chunksExact l n = some it0 ∧
      It.runX ChunksExact.blocks it0 h = some (dequeRunX (chunksExactSpec n l) h, it') ∧
      ChunksExact.remainder it' = chunksExactRem n l := by
  obtain ⟨it0, e, hf, hi, ha, _⟩ := chunksExact_abs_init l n hn
  obtain ⟨it', r1, _, r3⟩ := (ChunksExact.de (chunksExactRem n l)).historyX_fwd it0 hf hi h
  rw [ha] at r1
  exact ⟨it0, it', e, r1, r3.2.2⟩

/-! ### RChunksExact / RChunksExactRev -/

theorem rchunksExact_abs_init (l : List α) (n : Nat) (hn : 1 ≤ n) :
    ∃ it0, rchunksExact l n = some it0 ∧ it0.fwd = true ∧
      (RChunksExact.de (rchunksExactRem n l)).inv it0.fields ∧
      (RChunksExact.de (rchunksExactRem n l)).abs it0.fields = rchunksExactSpec n l ∧
      RChunksExact.remainder it0 = rchunksExactRem n l := by
  refine ⟨_, rchunksExact_init l n hn, rfl, ⟨hn, ?_, rfl⟩, ?_, rfl⟩
  · simp only [List.length_drop]
    rw [sub_mod_eq_div_mul, Nat.mul_mod_left]
  · exact rchunksExactSpec_drop_rem n hn _ l rfl

theorem rchunksExact_next_pop_front (r : List α) (c : RChunksExact α) (hc : (RChunksExact.de r).inv c) :
    (RChunksExact.nextBlock c = .none ∧ (RChunksExact.de r).abs c = []) ∨
    (∃ x c', RChunksExact.nextBlock c = .some x c' ∧
      (RChunksExact.de r).abs c = x :: (RChunksExact.de r).abs c' ∧ (RChunksExact.de r).inv c') :=
  (RChunksExact.de r).next_ok c hc

theorem rchunksExact_nextBack_pop_back (r : List α) (c : RChunksExact α) (hc : (RChunksExact.de r).inv c) :
    (RChunksExact.nextBackBlock c = .none ∧ (RChunksExact.de r).abs c = []) ∨
    (∃ x c', RChunksExact.nextBackBlock c = .some x c' ∧
      (RChunksExact.de r).abs c = (RChunksExact.de r).abs c' ++ [x] ∧ (RChunksExact.de r).inv c') :=
  (RChunksExact.de r).back_ok c hc

theorem rchunksExact_history (l : List α) (n : Nat) (hn : 1 ≤ n) (h : List Dir) :
    ∃ it0 it', rchunksExact l n = some it0 ∧
      It.run RChunksExact.blocks it0 h = some (dequeRun (rchunksExactSpec n l) h, it') ∧
      RChunksExact.remainder it0 = rchunksExactRem n l ∧
      RChunksExact.remainder it' = rchunksExactRem n l := by
  obtain ⟨it0, e, hf, hi, ha, hr⟩ := rchunksExact_abs_init l n hn
  obtain ⟨it', r1, _, r3, _⟩ := (RChunksExact.de (rchunksExactRem n l)).history_fwd it0 hf hi h
  rw [ha] at r1
  exact ⟨it0, it', e, r1, hr, r3.2.2⟩

theorem rchunksExact_history_rev (l : List α) (n : Nat) (hn : 1 ≤ n) (h : List (Option Dir)) :
    ∃ it0 it', rchunksExact l n = some it0 ∧
      It.runX RChunksExact.blocks it0 h = some (dequeRunX (rchunksExactSpec n l) h, it') ∧
      RChunksExact.remainder it' = rchunksExactRem n l := by
  obtain ⟨it0, e, hf, hi, ha, _⟩ := rchunksExact_abs_init l n hn
  obtain ⟨it', r1, _, r3⟩ := (RChunksExact.de (rchunksExactRem n l)).historyX_fwd it0 hf hi h
  rw [ha] at r1
  exact ⟨it0, it', e, r1, r3.2.2⟩

/-! ### ArrayChunks / ArrayChunksRev -/

/-- `as_chunks` + re-typing: the `arrays` field is the list of std's full chunks, `rem` std's remainder -/
theorem arrayChunks_abs_init (l : List α) (n : Nat) (hn : 1 ≤ n) :
    ∃ it0, arrayChunks l n = some it0 ∧ it0.fwd = true ∧
      (ArrayChunks.de (chunksExactRem n l)).inv it0.fields ∧
      (ArrayChunks.de (chunksExactRem n l)).abs it0.fields = arrayChunksSpec n l ∧
      ArrayChunks.remainder it0 = chunksExactRem n l :=
  ⟨_, arrayChunks_init l n hn, rfl, rfl, rfl, rfl⟩

theorem arrayChunks_next_pop_front (s : ArrayChunks α) :
    (ArrayChunks.nextBlock s = .none ∧ s.arrays = []) ∨
    (∃ x s', ArrayChunks.nextBlock s = .some x s' ∧ s.arrays = x :: s'.arrays ∧ s'.rem = s.rem) :=
  (ArrayChunks.de s.rem).next_ok s rfl

theorem arrayChunks_nextBack_pop_back (s : ArrayChunks α) :
    (ArrayChunks.nextBackBlock s = .none ∧ s.arrays = []) ∨
    (∃ x s', ArrayChunks.nextBackBlock s = .some x s' ∧ s.arrays = s'.arrays ++ [x] ∧ s'.rem = s.rem) :=
  (ArrayChunks.de s.rem).back_ok s rfl

theorem arrayChunks_history (l : List α) (n : Nat) (hn : 1 ≤ n) (h : List Dir) :
    ∃ it0 it', arrayChunks l n = some it0 ∧
      It.run ArrayChunks.blocks it0 h = some (dequeRun (arrayChunksSpec n l) h, it') ∧
      ArrayChunks.remainder it0 = chunksExactRem n l ∧
      ArrayChunks.remainder it' = chunksExactRem n l := by
  obtain ⟨it0, e, hf, hi, ha, hr⟩ := arrayChunks_abs_init l n hn
  obtain ⟨it', r1, _, r3, _⟩ := (ArrayChunks.de (chunksExactRem n l)).history_fwd it0 hf hi h
  rw [ha] at r1
  exact ⟨it0, it', e, r1, hr, r3⟩

theorem arrayChunks_history_rev (l : List α) (n : Nat) (hn : 1 ≤ n) (h : List (Option Dir)) :
    ∃ it0 it', arrayChunks l n = some it0 ∧
      It.runX ArrayChunks.blocks it0 h = some (dequeRunX (arrayChunksSpec n l) h, it') ∧
      ArrayChunks.remainder it' = chunksExactRem n l := by
  obtain ⟨it0, e, hf, hi, ha, _⟩ := arrayChunks_abs_init l n hn
  obtain ⟨it', r1, _, r3⟩ := (ArrayChunks.de (chunksExactRem n l)).historyX_fwd it0 hf hi h
  rw [ha] at r1
  exact ⟨it0, it', e, r1, r3⟩

/-! ### `as_slice()` / `remainder()` after any history, stated on their own -/

/-- `as_slice_eq`: whatever history (with `.rev()` calls) led from `iter(l)` / `iter_copied(l)` to an
    iterator, its `as_slice()` is what std's iterator has left, in slice order -/
theorem as_slice_eq (l : List α) (h : List (Option Dir)) :
    (∀ r it', It.runX Iter.blocks (iter l) h = some (r, it') →
      Iter.asSlice it' = if it'.fwd then dequeRestX (iterSpec l) h else (dequeRestX (iterSpec l) h).reverse) ∧
    (∀ r it', It.runX IterCopied.blocks (iterCopied l) h = some (r, it') →
      IterCopied.asSlice it' =
        if it'.fwd then dequeRestX (iterSpec l) h else (dequeRestX (iterSpec l) h).reverse) := by
  constructor
  · intro r it' e
    obtain ⟨it'', r1, r2⟩ := iter_history_rev l h
    rw [r1] at e
    simp only [Option.some.injEq, Prod.mk.injEq] at e
    rw [← e.2]; exact r2
  · intro r it' e
    obtain ⟨it'', r1, r2⟩ := iterCopied_history_rev l h
    rw [r1] at e
    simp only [Option.some.injEq, Prod.mk.injEq] at e
    rw [← e.2]; exact r2

/-- `remainder_eq`: whatever history (with `.rev()` calls) led from the constructor's result to an
    iterator, its `remainder()` is std's remainder (`ChunksExact::remainder`, `RChunksExact::remainder`;
    for `array_chunks` the remainder of `chunks_exact(N)`) -/
theorem remainder_eq (l : List α) (n : Nat) (hn : 1 ≤ n) (h : List (Option Dir)) :
    (∀ it0 r it', SliceIter.chunksExact l n = some it0 → It.runX ChunksExact.blocks it0 h = some (r, it') →
      ChunksExact.remainder it' = chunksExactRem n l) ∧
    (∀ it0 r it', rchunksExact l n = some it0 → It.runX RChunksExact.blocks it0 h = some (r, it') →
      RChunksExact.remainder it' = rchunksExactRem n l) ∧
    (∀ it0 r it', arrayChunks l n = some it0 → It.runX ArrayChunks.blocks it0 h = some (r, it') →
      ArrayChunks.remainder it' = chunksExactRem n l) := by
  refine ⟨?_, ?_, ?_⟩
  · intro it0 r it' e0 e
    obtain ⟨it0', it'', e0', r1, r2⟩ := chunksExact_history_rev l n hn h
    rw [e0] at e0'; cases e0'
    rw [r1] at e
    simp only [Option.some.injEq, Prod.mk.injEq] at e
    rw [← e.2]; exact r2
  · intro it0 r it' e0 e
    obtain ⟨it0', it'', e0', r1, r2⟩ := rchunksExact_history_rev l n hn h
    rw [e0] at e0'; cases e0'
    rw [r1] at e
    simp only [Option.some.injEq, Prod.mk.injEq] at e
    rw [← e.2]; exact r2
  · intro it0 r it' e0 e
    obtain ⟨it0', it'', e0', r1, r2⟩ := arrayChunks_history_rev l n hn h
    rw [e0] at e0'; cases e0'
    rw [r1] at e
    simp only [Option.some.injEq, Prod.mk.injEq] at e
    rw [← e.2]; exact r2

/-! ### non-vacuity / sanity: concrete values of model and spec (kernel-evaluated) -/

-- spec lists
example : chunksSpec 3 [0,1,2,3,4,5,6] = [[0,1,2],[3,4,5],[6]] := by simp [chunksSpec]
example : rchunksSpec 3 [0,1,2,3,4,5,6] = [[4,5,6],[1,2,3],[0]] := by simp [rchunksSpec]
example : windowsSpec 3 [0,1,2,3] = [[0,1,2],[1,2,3]] := by decide
example : chunksExactSpec 3 [0,1,2,3,4,5,6] = [[0,1,2],[3,4,5]] ∧ chunksExactRem 3 [0,1,2,3,4,5,6] = [6] := by
  simp [chunksExactSpec, Spec.chunksExact, chunksExactRem]
example : rchunksExactSpec 3 [0,1,2,3,4,5,6] = [[4,5,6],[1,2,3]] ∧ rchunksExactRem 3 [0,1,2,3,4,5,6] = [0] := by
  simp [rchunksExactSpec, rchunksExactRem]
example : dequeRun [10, 20, 30] [.f, .b, .b, .f] = [some 10, some 30, some 20, none] := by decide
-- the model run: front, back, front, back on chunks(3) of 7 elements, then exhausted
example : ((chunks [0,1,2,3,4,5,6] 3).bind fun it => (It.run Chunks.blocks it [.f, .b, .f, .b]).map (·.1))
    = some [some [0,1,2], some [6], some [3,4,5], none] := by decide
-- the constructor's assert
example : (chunks [0,1,2] 0).isNone = true := by decide
-- the invariant is satisfiable and reached
example : Chunks.de.inv (⟨some [1], 2⟩ : Chunks Nat) := ⟨by decide, by intro s h; cases h; simp⟩
-- outside the invariant the blocks really do panic (the hypothesis is not decoration)
example : (Chunks.nextBackBlock (⟨some [1, 2], 0⟩ : Chunks Nat)) matches .panic := by decide
example : (ChunksExact.nextBackBlock (⟨[1], [], 2⟩ : ChunksExact Nat)) matches .panic := by decide

end Konst.Props.C08
