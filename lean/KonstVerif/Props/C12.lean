import KonstVerif.Model.ParseInt
import KonstVerif.Spec.ParseInt
import KonstVerif.Lemmas.ParseInt
/-
  C12 — Integer/bool parsing accepts std's language and returns the same value.

  Property theorems only.  An integer type is `(signed, bits)`; every theorem about integers holds for
  every `bits ≥ 4` and both signednesses, hence for u8 … u128, usize, i8 … i128, isize at once, and
  for every byte list (no bound on its length).  `bits ≥ 4` is needed because the code casts a digit
  `0..=9` into the unsigned twin type (`as $uns`), which is only lossless when `10 ≤ 2^bits`
  (`bits_bound_needed` below is the kernel-checked counterexample for 3 bits); Rust has no narrower
  integer type than 8 bits.
-/
namespace Konst.Props.C12
open Konst.ParseInt Konst.Spec.ParseInt Konst.Lemmas.ParseInt

/-! ### the overflow flags -/

/-- One loop iteration: `overflowed_mul | overflowed_add` is set exactly when the exact value
    `num*10 + digit` exceeds `2^bits - 1` (whatever `num` is). -/
theorem overflow_flags_iff (bits num b : Nat) (hb : 4 ≤ bits) (hd : isDigit b = true) :
    ((overflowingMul bits num 10).2 ||
      (overflowingAdd bits (overflowingMul bits num 10).1 (digitAs bits b)).2) = true
      ↔ 2 ^ bits - 1 < num * 10 + (b - 48) := by
  rw [step_flags bits num b hb hd]
  have := two_pow_pos bits
  omega

/-- The whole accumulation (first digit + `while let` loop with wrap-around arithmetic): it throws
    exactly when the true value of the digit run exceeds `2^bits - 1`, and otherwise yields exactly
    that value and stops at the first non-digit. -/
theorem overflow_throws_iff (bits : Nat) (hb : 4 ≤ bits) (b : Nat) (rest : List Nat)
    (hd : isDigit b = true) :
    (accLoop bits rest (digitAs bits b) = none
      ↔ 2 ^ bits - 1 < decVal ((b :: rest).takeWhile isAsciiDigit)) ∧
    (∀ num left, accLoop bits rest (digitAs bits b) = some (num, left) →
      num = decVal ((b :: rest).takeWhile isAsciiDigit) ∧ left = (b :: rest).dropWhile isAsciiDigit) := by
  have hm := magPrefix_eq bits hb (b :: rest)
  have hda : isAsciiDigit b = true := by rw [← isDigit_eq]; exact hd
  have hne : List.takeWhile isAsciiDigit (b :: rest) ≠ [] := by simp [hda]
  simp only [magPrefix, firstDigit, hd, if_true] at hm
  have := two_pow_pos bits
  rw [hm]
  by_cases hfit : decVal (List.takeWhile isAsciiDigit (b :: rest)) < 2 ^ bits
  · rw [if_pos ⟨hne, hfit⟩]
    refine ⟨⟨fun h => by simp at h, fun h => by omega⟩, ?_⟩
    intro num left h
    simp only [Option.some.injEq, Prod.mk.injEq] at h
    exact ⟨h.1.symm, h.2.symm⟩
  · rw [if_neg (fun h => hfit h.2)]
    refine ⟨⟨fun _ => by omega, fun _ => rfl⟩, ?_⟩
    intro num left h; simp at h

/-! ### prefix parsing through the Parser -/

/-- The code block of `parse_integer!` = the documented prefix parse: optional '-' (signed only),
    longest run of ASCII digits, exact decimal value, `none` unless a digit is present and the value
    lies in the range of the type; the second component is the unconsumed rest. -/
theorem parse_body_eq_spec (signed : Bool) (bits : Nat) (hb : 4 ≤ bits) (s : List Nat) :
    parseIntegerBody signed bits s = prefixParseInt signed bits s :=
  parseIntegerBody_eq_spec signed bits hb s

/-- What the reference prefix parse returns really is a split of the input: `s = sign ++ digits ++ rest`
    with the sign allowed for the type, a non-empty all-digit run that is maximal (the rest does not
    start with a digit), and the value is what `str::parse` gives on the consumed piece. -/
theorem prefix_spec_shape (signed : Bool) (bits : Nat) (s : List Nat) (v : Int) (rest : List Nat)
    (h : prefixParseInt signed bits s = some (v, rest)) :
    ∃ sign digits, s = sign ++ digits ++ rest ∧ (sign = [] ∨ (signed = true ∧ sign = [45])) ∧
      digits ≠ [] ∧ digits.all isAsciiDigit = true ∧
      (∀ x, rest.head? = some x → isAsciiDigit x = false) ∧
      stdParseInt signed bits (sign ++ digits) = some v := by
  unfold prefixParseInt at h
  simp only [] at h
  by_cases hm : hasMinus signed s = true
  · -- a '-' was taken
    simp only [hm, if_true] at h
    by_cases hc : List.takeWhile isAsciiDigit (s.drop 1) ≠ [] ∧
        inRange signed bits (-(decVal (List.takeWhile isAsciiDigit (s.drop 1)) : Int)) = true
    · rw [if_pos hc] at h
      simp only [Option.some.injEq, Prod.mk.injEq] at h
      obtain ⟨hv, hrest⟩ := h
      obtain ⟨hne, hr⟩ := hc
      have hsg : signed = true := by
        unfold hasMinus at hm; cases signed <;> simp_all
      have hs : s = 45 :: s.drop 1 := by
        unfold hasMinus at hm
        cases s with
        | nil => simp [hsg] at hm
        | cons a t => simp [hsg] at hm; simp [hm]
      refine ⟨[45], (s.drop 1).takeWhile isAsciiDigit, ?_, Or.inr ⟨hsg, rfl⟩, hne, takeWhile_all _, ?_, ?_⟩
      · rw [← hrest, List.append_assoc, List.takeWhile_append_dropWhile]; exact hs
      · intro x hx; rw [← hrest] at hx; exact head_dropWhile_not _ _ _ hx
      · unfold stdParseInt
        have hm2 : hasMinus signed ([45] ++ List.takeWhile isAsciiDigit (s.drop 1)) = true := by
          simp [hasMinus, hsg]
        simp only [hm2, if_true]
        have hd1 : List.drop 1 ([45] ++ List.takeWhile isAsciiDigit (s.drop 1)) =
            List.takeWhile isAsciiDigit (s.drop 1) := by simp
        rw [hd1, if_pos ⟨hne, takeWhile_all _, hr⟩, hv]
    · rw [if_neg hc] at h; simp at h
  · -- no sign
    have hm' : hasMinus signed s = false := by cases hx : hasMinus signed s <;> simp_all
    simp only [hm', Bool.false_eq_true, if_false] at h
    by_cases hc : List.takeWhile isAsciiDigit s ≠ [] ∧
        inRange signed bits ((decVal (List.takeWhile isAsciiDigit s) : Nat) : Int) = true
    · rw [if_pos hc] at h
      simp only [Option.some.injEq, Prod.mk.injEq] at h
      obtain ⟨hv, hrest⟩ := h
      obtain ⟨hne, hr⟩ := hc
      refine ⟨[], s.takeWhile isAsciiDigit, ?_, Or.inl rfl, hne, takeWhile_all _, ?_, ?_⟩
      · rw [← hrest, List.nil_append, List.takeWhile_append_dropWhile]
      · intro x hx; rw [← hrest] at hx; exact head_dropWhile_not _ _ _ hx
      · unfold stdParseInt
        have hm2 : hasMinus signed (List.takeWhile isAsciiDigit s) = false := by
          unfold hasMinus
          cases hd : List.takeWhile isAsciiDigit s with
          | nil => exact absurd hd hne
          | cons a t =>
            have ha : isAsciiDigit a = true := by
              have : a ∈ List.takeWhile isAsciiDigit s := by rw [hd]; simp
              exact mem_takeWhile_imp _ _ _ this
            have : a ≠ 45 := by
              intro h45; subst h45; simp [isAsciiDigit] at ha
            simp [this]
        simp only [List.nil_append, hm2, Bool.false_eq_true, if_false]
        rw [if_pos ⟨hne, takeWhile_all _, hr⟩, hv]
    · rw [if_neg hc] at h; simp at h

/-- `Parser::parse_u8 … parse_isize` (and `StdParser::parse_with`, `parse_with!`, which delegate to
    them): on success the value and rest of the reference, the remainder is exactly the rest, the start
    offset advances by the number of consumed bytes; on failure the error describes the parser it was
    called on (nothing consumed). -/
theorem parse_prefix_eq_spec (signed : Bool) (bits : Nat) (hb : 4 ≤ bits) (p : MiniParser) :
    parserParseInt signed bits p =
      match prefixParseInt signed bits p.str with
      | some (v, rest) =>
        .ok (v, { dir := .fromStart, startOffset := p.startOffset + (p.str.length - rest.length), str := rest })
      | none =>
        .error { startOffset := p.startOffset, endOffset := p.startOffset + p.str.length,
                 dir := .fromStart, kind := .parseInteger } := by
  unfold parserParseInt
  rw [tryParsing_eq]
  unfold parseIntegerPrefix
  rw [parseIntegerBody_eq_spec signed bits hb]
  cases hs : prefixParseInt signed bits p.str with
  | none => rfl
  | some r =>
    obtain ⟨v, rest⟩ := r
    obtain ⟨sign, digits, hsplit, -⟩ := prefix_spec_shape signed bits p.str v rest hs
    have hdrop : List.drop (p.str.length - rest.length) p.str = rest := by
      have hl : p.str.length - rest.length = (sign ++ digits).length := by
        rw [hsplit]; simp only [List.length_append]; omega
      rw [hl]
      conv => lhs; rw [hsplit]
      exact List.drop_left
    simp only [Option.map_some, hdrop]

/-- `konst::primitive::parse_u8 … parse_isize` = `str::parse::<T>` on every string without a
    leading '+': same accepted language, same value. -/
theorem parse_whole_eq_spec (signed : Bool) (bits : Nat) (hb : 4 ≤ bits) (s : List Nat) :
    parseWhole signed bits s = stdParseInt signed bits s := by
  rw [← whole_of_prefix]
  unfold parseWhole
  rw [parse_prefix_eq_spec signed bits hb]
  simp only [MiniParser.new]
  cases prefixParseInt signed bits s with
  | none => rfl
  | some r => obtain ⟨v, rest⟩ := r; rfl

/-! ### failure consumes nothing -/

/-- A failed `Parser::parse_<int>` reports the position of the parser it was called on: the error's
    start and end offsets are those of the unchanged input (no byte, not even a '-', was consumed),
    the direction is `FromStart`, so `ParseError::offset()` is the original start offset.
    No hypothesis on `bits`. -/
theorem parse_fail_consumes_nothing (signed : Bool) (bits : Nat) (p : MiniParser) (e : MiniError)
    (h : parserParseInt signed bits p = .error e) :
    e.startOffset = p.startOffset ∧ e.endOffset = p.startOffset + p.str.length ∧
      e.dir = .fromStart ∧ e.offset = p.startOffset ∧ e.kind = .parseInteger :=
  tryParsing_error p _ _ e h

/-- … and it fails exactly when there is no digit after the optional sign, or the exact value of the
    digit run is outside the range of the type. -/
theorem parse_fails_iff (signed : Bool) (bits : Nat) (hb : 4 ≤ bits) (p : MiniParser) :
    (∃ e, parserParseInt signed bits p = .error e) ↔
      let neg := hasMinus signed p.str
      let digits := (if neg then p.str.drop 1 else p.str).takeWhile isAsciiDigit
      digits = [] ∨
        inRange signed bits (if neg then -(decVal digits : Int) else (decVal digits : Int)) = false := by
  rw [parse_prefix_eq_spec signed bits hb]
  unfold prefixParseInt
  simp only []
  generalize List.takeWhile isAsciiDigit (if hasMinus signed p.str = true then p.str.drop 1 else p.str) = digits
  generalize (if hasMinus signed p.str = true then -(decVal digits : Int) else (decVal digits : Int)) = v
  by_cases hne : digits = []
  · simp [hne]
  · cases hr : inRange signed bits v with
    | true => simp [hne]
    | false => simp [hne]

/-- Same for `Parser::parse_bool`. -/
theorem parseBool_fail_consumes_nothing (p : MiniParser) (e : MiniError)
    (h : parserParseBool p = .error e) :
    e.startOffset = p.startOffset ∧ e.endOffset = p.startOffset + p.str.length ∧
      e.dir = .fromStart ∧ e.offset = p.startOffset ∧ e.kind = .parseBool :=
  tryParsing_error p _ _ e h

/-! ### bool -/

/-- `Parser::parse_bool`: value and rest of the reference, offsets as for the integers -/
theorem parseBool_prefix_eq_spec (p : MiniParser) :
    parserParseBool p =
      match prefixParseBool p.str with
      | some (b, rest) =>
        .ok (b, { dir := .fromStart, startOffset := p.startOffset + (p.str.length - rest.length), str := rest })
      | none =>
        .error { startOffset := p.startOffset, endOffset := p.startOffset + p.str.length,
                 dir := .fromStart, kind := .parseBool } := by
  unfold parserParseBool
  rw [tryParsing_eq, parseBoolPrefix_eq]
  unfold prefixParseBool
  by_cases ht : trueBytes.isPrefixOf p.str = true
  · have hl : 4 ≤ p.str.length := by
      have := List.IsPrefix.length_le (List.isPrefixOf_iff_prefix.mp ht); simpa [trueBytes] using this
    have : p.str.length - (p.str.length - 4) = 4 := by omega
    simp [ht, this]
  · by_cases hf : falseBytes.isPrefixOf p.str = true
    · have hl : 5 ≤ p.str.length := by
        have := List.IsPrefix.length_le (List.isPrefixOf_iff_prefix.mp hf); simpa [falseBytes] using this
      have : p.str.length - (p.str.length - 5) = 5 := by omega
      simp [ht, hf, this]
    · simp [ht, hf]

/-- `konst::primitive::parse_bool` = `str::parse::<bool>`: exactly "true" and "false". -/
theorem parseBool_eq (s : List Nat) : parseBoolWhole s = stdParseBool s := by
  unfold parseBoolWhole
  rw [parseBool_prefix_eq_spec]
  simp only [MiniParser.new]
  unfold prefixParseBool stdParseBool
  by_cases ht : trueBytes.isPrefixOf s = true
  · obtain ⟨t, rfl⟩ := List.isPrefixOf_iff_prefix.mp ht
    cases t with
    | nil => simp [trueBytes, List.isPrefixOf]
    | cons a t => simp [trueBytes, falseBytes, List.isPrefixOf]
  · by_cases hf : falseBytes.isPrefixOf s = true
    · obtain ⟨t, rfl⟩ := List.isPrefixOf_iff_prefix.mp hf
      cases t with
      | nil => simp [trueBytes, falseBytes, List.isPrefixOf]
      | cons a t => simp [trueBytes, falseBytes, List.isPrefixOf]
    · have h1 : s ≠ trueBytes := by
        intro h; subst h; exact ht (by simp [trueBytes, List.isPrefixOf])
      have h2 : s ≠ falseBytes := by
        intro h; subst h; exact hf (by simp [falseBytes, List.isPrefixOf])
      simp [ht, hf, h1, h2]

/-! ### non-vacuity, instances, and the necessity of `bits ≥ 4` -/

/-- u8: "255" parses, "256" (add overflow) and "260" (mul overflow) do not; i8: "-128" parses to MIN -/
example : parseWhole false 8 [50, 53, 53] = some 255 := by decide
example : parseWhole false 8 [50, 53, 54] = none := by decide
example : parseWhole false 8 [50, 54, 48] = none := by decide
example : parseWhole true 8 [45, 49, 50, 56] = some (-128) := by decide
example : parseWhole true 8 [45, 49, 50, 57] = none := by decide
example : parseWhole true 8 [49, 50, 56] = none := by decide
example : parseWhole true 8 [45, 48] = some 0 := by decide
example : parseWhole false 8 [45, 48] = none := by decide
example : parseWhole false 8 [43, 53] = none := by decide          -- "+5": konst rejects (out of scope)
/-- prefix: "-12a" for i16 gives -12, one byte left, start offset advanced by 3 -/
example : parserParseInt true 16 (MiniParser.new [45, 49, 50, 97] 7) =
    .ok (-12, { dir := .fromStart, startOffset := 10, str := [97] }) := by rfl
/-- failure after a consumed-looking '-': the error sits at the original start offset -/
example : parserParseInt true 16 { dir := .fromEnd, startOffset := 7, str := [45, 97] } =
    .error { startOffset := 7, endOffset := 9, dir := .fromStart, kind := .parseInteger } := by rfl
example : parseBoolWhole [116, 114, 117, 101] = some true := by decide
example : parseBoolWhole [116, 114, 117, 101, 32] = none := by decide
example : parserParseBool (MiniParser.new [102, 97, 108, 115, 101, 120]) =
    .ok (false, { dir := .fromStart, startOffset := 5, str := [120] }) := by rfl

/-- every Rust integer type is an instance of the theorems -/
example (signed : Bool) (bits : Nat) (h : bits ∈ [8, 16, 32, 64, 128]) (s : List Nat) :
    parseWhole signed bits s = stdParseInt signed bits s :=
  parse_whole_eq_spec signed bits (by simp at h; omega) s

/-- `bits ≥ 4` cannot be dropped: in a hypothetical 3-bit type the cast `9 as $uns` truncates to 1 -/
theorem bits_bound_needed : parseWhole false 3 [57] = some 1 ∧ stdParseInt false 3 [57] = none := by
  decide

end Konst.Props.C12
