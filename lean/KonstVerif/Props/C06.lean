import KonstVerif.Model.Split
import KonstVerif.Spec.Split
import KonstVerif.Lemmas.Split
import KonstVerif.Lemmas.SplitDeque
/-
  C06 — String split iterators yield exactly the pieces std's split family yields.
  Property theorems only (helper lemmas: Lemmas/Split.lean, Lemmas/SplitDeque.lean).

  Throughout: `s` (haystack) and `d` (delimiter bytes: a `&str`, or the encoding of a `char`) are
  ANY valid UTF-8 byte strings, of any length; `d` may be empty.  `collect next remainder fuel it`
  calls `next` until it returns `None` (at most `fuel` calls) and records, per `Some` step, the piece
  and the `remainder()` of the returned iterator, each as (offset in `s`, bytes) with the
  unobservable offset of an empty string normalised; `.done l` means `None` was reached, `.panic`
  that `str_from`/`str_up_to`/`split_at` rejected a cut, `.fuel` that `None` was not reached.
  `stepsFwd |d| 0 s pieces` / `stepsBwd |d| 0 s pieces` (Spec/Split.lean) list, for the std pieces,
  where each piece lies in `s` and what is left of `s` after it and one delimiter; `ofP2` only
  re-types the spec's (offset, bytes) pairs as the model's `Str`s.
-/
namespace Konst.Props.C06
open Konst Konst.Utf8 Konst.Split Konst.Spec.Bytes Konst.Spec.Utf8 Konst.Spec.Split
open Konst.Lemmas.Utf8 Konst.Lemmas.Split Konst.Lemmas.SplitDeque

private theorem isEmpty_false {d : List Nat} (h : d ≠ []) : d.isEmpty = false :=
  isEmpty_false_of_ne h

private theorem charPieces_encs (cs : List Nat) (hs : Scalars cs) : charPieces (encs cs) = cs.map enc := by
  unfold charPieces; rw [decodeAll_encs cs hs]; rfl

private theorem next_fwd (t : Str) (st : State) : Iter.next ⟨true, t, st⟩ = nextBlock ⟨true, t, st⟩ := rfl
private theorem next_bwd (t : Str) (st : State) : Iter.next ⟨false, t, st⟩ = nextBackBlock ⟨false, t, st⟩ := rfl
private theorem back_fwd (t : Str) (st : State) : Iter.nextBack ⟨true, t, st⟩ = nextBackBlock ⟨true, t, st⟩ := rfl
private theorem back_bwd (t : Str) (st : State) : Iter.nextBack ⟨false, t, st⟩ = nextBlock ⟨false, t, st⟩ := rfl

/-- forward iteration with the `next` block from the initial state, any `is_forward` flag -/
private theorem fwd_from_start (next : Iter → E (Option (Str × Iter))) (f : Bool)
    (hnext : ∀ t st, next ⟨f, t, st⟩ = nextBlock ⟨f, t, st⟩)
    (s d : List Nat) (hs : Valid s) (hd : Valid d) (fuel : Nat) (hf : s.length + 3 ≤ fuel) :
    collect next Iter.remainder fuel
        ⟨f, ⟨0, s⟩, if d.isEmpty then .empty .start else .normal d⟩ =
      .done ((stepsFwd d.length 0 s (splitSpec s d)).map ofP2) := by
  by_cases hne : d = []
  · subst hne
    obtain ⟨cs, hcs, rfl⟩ := hs
    obtain ⟨k, rfl⟩ : ∃ k, fuel = k + 1 := ⟨fuel - 1, by omega⟩
    have hl := length_le_encs cs
    simp only [List.isEmpty_nil, if_true, splitSpec, charPieces_encs cs hcs]
    rw [collect, hnext, nextBlock_empty]
    simp only [nextFromEmpty]
    rw [collect_fwd_empty next f hnext cs 0 k hcs (by omega)]
    simp [stepsFwd, ofP2, Iter.remainder, norm_mk, norm_lit, lit_eq]
  · simp only [isEmpty_false hne, Bool.false_eq_true, if_false, splitSpec]
    exact collect_fwd_normal next f hnext d hd hne s.length s 0 fuel (Nat.le_refl _) (by omega) hs

/-- backward iteration with the `next_back` block from the initial state -/
private theorem bwd_from_start (next : Iter → E (Option (Str × Iter))) (f : Bool)
    (hnext : ∀ t st, next ⟨f, t, st⟩ = nextBackBlock ⟨f, t, st⟩)
    (s d : List Nat) (hs : Valid s) (hd : Valid d) (fuel : Nat) (hf : s.length + 3 ≤ fuel) :
    collect next Iter.remainder fuel
        ⟨f, ⟨0, s⟩, if d.isEmpty then .empty .start else .normal d⟩ =
      .done ((stepsBwd d.length 0 s (rsplitSpec s d)).map ofP2) := by
  by_cases hne : d = []
  · subst hne
    obtain ⟨cs, hcs, rfl⟩ := hs
    obtain ⟨k, rfl⟩ : ∃ k, fuel = k + 1 := ⟨fuel - 1, by omega⟩
    have hl := length_le_encs cs
    simp only [List.isEmpty_nil, if_true, rsplitSpec, charPieces_encs cs hcs]
    rw [collect, hnext, nextBackBlock_empty]
    simp only [nextBackFromEmpty]
    rw [collect_bwd_empty next f hnext cs.length cs 0 k rfl hcs (by omega)]
    simp [stepsBwd, ofP2, Iter.remainder, norm_mk, norm_lit, lit_eq, List.map_reverse]
  · simp only [isEmpty_false hne, Bool.false_eq_true, if_false, rsplitSpec]
    exact collect_bwd_normal next f hnext d hd hne s.length s 0 fuel (Nat.le_refl _) (by omega) hs

/-! ### iterating to exhaustion -/

/-- `string::split(s, d)` iterated with `next` until `None` yields exactly the pieces of
    `str::split` in order, each at its position in `s`; after every step `remainder()` is what
    follows the piece and one delimiter; it never panics and returns `None` after at most
    `|s| + 2` pieces — for every valid `s` and `d`, `d` empty included. -/
theorem collect_split (s d : List Nat) (hs : Valid s) (hd : Valid d) (fuel : Nat)
    (hf : s.length + 3 ≤ fuel) :
    collect Iter.next Iter.remainder fuel (split s d) =
      .done ((stepsFwd d.length 0 s (splitSpec s d)).map ofP2) :=
  fwd_from_start Iter.next true next_fwd s d hs hd fuel hf

/-- `string::rsplit(s, d)` yields the pieces of `str::rsplit` (cut at the LAST occurrence first),
    positions and remainders (what precedes the piece and one delimiter) included -/
theorem collect_rsplit (s d : List Nat) (hs : Valid s) (hd : Valid d) (fuel : Nat)
    (hf : s.length + 3 ≤ fuel) :
    collect Iter.next Iter.remainder fuel (rsplit s d) =
      .done ((stepsBwd d.length 0 s (rsplitSpec s d)).map ofP2) :=
  bwd_from_start Iter.next false next_bwd s d hs hd fuel hf

/-- `string::split_terminator(s, d)` yields the pieces of `str::split_terminator`
    (`split` without a trailing empty piece) -/
theorem collect_split_terminator (s d : List Nat) (hs : Valid s) (hd : Valid d) (fuel : Nat)
    (hf : s.length + 3 ≤ fuel) :
    collect TIter.next TIter.remainder fuel (splitTerminator s d) =
      .done ((stepsFwd d.length 0 s (splitTerminatorSpec s d)).map ofP2) := by
  unfold splitTerminator splitTerminatorSpec
  by_cases hne : d = []
  · subst hne
    obtain ⟨cs, hcs, rfl⟩ := hs
    obtain ⟨k, rfl⟩ : ∃ k, fuel = k + 1 := ⟨fuel - 1, by omega⟩
    have hl := length_le_encs cs
    simp only [List.isEmpty_nil, if_true, splitSpec, charPieces_encs cs hcs]
    rw [show ([] :: List.map enc cs ++ [[]] : List (List Nat)) = ([] :: List.map enc cs) ++ [[]] from rfl,
      dropLastEmpty_snoc]
    rw [collect, tnext_start]
    simp only
    rw [collectT_fwd_empty cs 0 k hcs (by omega)]
    simp [stepsFwd, ofP2, TIter.remainder, norm_mk, norm_lit, lit_eq]
  · simp only [isEmpty_false hne, Bool.false_eq_true, if_false, splitSpec]
    exact collectT_fwd_normal d hd hne s.length s 0 fuel (Nat.le_refl _) (by omega) hs

/-- `string::rsplit_terminator(s, d)` yields konst's documented sequence: the pieces of
    `str::rsplit` without the empty piece that precedes a leading delimiter (= `rsplit`'s last piece
    when that is empty; nothing at all for the empty input) -/
theorem collect_rsplit_terminator (s d : List Nat) (hs : Valid s) (hd : Valid d) (fuel : Nat)
    (hf : s.length + 3 ≤ fuel) :
    collect TIter.rnext TIter.remainder fuel (rsplitTerminator s d) =
      .done ((stepsBwd d.length 0 s (rsplitTerminatorSpec s d)).map ofP2) := by
  unfold rsplitTerminator splitTerminator rsplitTerminatorSpec
  by_cases hne : d = []
  · subst hne
    obtain ⟨cs, hcs, rfl⟩ := hs
    obtain ⟨k, rfl⟩ : ∃ k, fuel = k + 1 := ⟨fuel - 1, by omega⟩
    have hl := length_le_encs cs
    simp only [List.isEmpty_nil, if_true, rsplitSpec, charPieces_encs cs hcs]
    rw [show ([] :: (List.map enc cs).reverse ++ [[]] : List (List Nat)) =
        ([] :: (List.map enc cs).reverse) ++ [[]] from rfl, dropLastEmpty_snoc]
    rw [collect, trnext_start]
    simp only
    rw [collectT_bwd_empty cs.length cs 0 k rfl hcs (by omega)]
    simp [stepsBwd, ofP2, TIter.remainder, norm_mk, norm_lit, lit_eq, List.map_reverse]
  · simp only [isEmpty_false hne, Bool.false_eq_true, if_false, rsplitSpec]
    exact collectT_bwd_normal d hd hne s.length s 0 fuel (Nat.le_refl _) (by omega) hs

/-! ### reversal (`rev`, the `is_forward` switch) -/

/-- `rsplit` is `split(..).rev()`; `rev` is an involution, keeps `remainder()`, and the reversed
    iterator's `next` runs the block that was `next_back` (and vice versa) -/
theorem rev_facts (s d : List Nat) (it : Iter) :
    rsplit s d = (split s d).rev ∧ it.rev.rev = it ∧ it.rev.remainder = it.remainder ∧
    it.rev.next = (if it.fwd then nextBackBlock it.rev else nextBlock it.rev) ∧
    it.nextBack = (if it.fwd then nextBackBlock it else nextBlock it) ∧
    it.rev.nextBack = (if it.fwd then nextBlock it.rev else nextBackBlock it.rev) ∧
    it.next = (if it.fwd then nextBlock it else nextBackBlock it) := by
  obtain ⟨f, t, st⟩ := it
  cases f <;> exact ⟨rfl, rfl, rfl, rfl, rfl, rfl, rfl⟩

/-- reversing a `Split` yields the pieces of `rsplit`; reversing an `RSplit` yields the pieces of
    `split`; and so does driving the un-reversed iterator with `next_back` -/
theorem rev_split (s d : List Nat) (hs : Valid s) (hd : Valid d) (fuel : Nat)
    (hf : s.length + 3 ≤ fuel) :
    collect Iter.next Iter.remainder fuel (split s d).rev =
      .done ((stepsBwd d.length 0 s (rsplitSpec s d)).map ofP2) ∧
    collect Iter.next Iter.remainder fuel (rsplit s d).rev =
      .done ((stepsFwd d.length 0 s (splitSpec s d)).map ofP2) ∧
    collect Iter.nextBack Iter.remainder fuel (split s d) =
      .done ((stepsBwd d.length 0 s (rsplitSpec s d)).map ofP2) ∧
    collect Iter.nextBack Iter.remainder fuel (rsplit s d) =
      .done ((stepsFwd d.length 0 s (splitSpec s d)).map ofP2) :=
  ⟨bwd_from_start Iter.next false next_bwd s d hs hd fuel hf,
   fwd_from_start Iter.next true next_fwd s d hs hd fuel hf,
   bwd_from_start Iter.nextBack true back_fwd s d hs hd fuel hf,
   fwd_from_start Iter.nextBack false back_bwd s d hs hd fuel hf⟩

/-! ### the pieces alone, the number of steps, the remainder in closed form -/

/-- the byte strings yielded are exactly std's pieces, for all four iterators (no positions) -/
theorem pieces_eq_std (s d : List Nat) (hs : Valid s) (hd : Valid d) :
    (collect Iter.next Iter.remainder (s.length + 3) (split s d)).pieces = some (splitSpec s d) ∧
    (collect Iter.next Iter.remainder (s.length + 3) (rsplit s d)).pieces = some (rsplitSpec s d) ∧
    (collect TIter.next TIter.remainder (s.length + 3) (splitTerminator s d)).pieces
      = some (splitTerminatorSpec s d) ∧
    (collect TIter.rnext TIter.remainder (s.length + 3) (rsplitTerminator s d)).pieces
      = some (rsplitTerminatorSpec s d) := by
  rw [collect_split s d hs hd _ (Nat.le_refl _), collect_rsplit s d hs hd _ (Nat.le_refl _),
    collect_split_terminator s d hs hd _ (Nat.le_refl _),
    collect_rsplit_terminator s d hs hd _ (Nat.le_refl _)]
  simp only [Run.pieces, stepsFwd_pieces, stepsBwd_pieces, and_self]

/-- fuel lemma: every iterator returns `None` after at most `|s| + 2` pieces (so `|s| + 3` calls
    of `next` always suffice; the bound is attained by `split("a…a", "")`) -/
theorem exhausts_within (s d : List Nat) (hs : Valid s) (hd : Valid d) :
    (∃ l, collect Iter.next Iter.remainder (s.length + 3) (split s d) = .done l ∧ l.length ≤ s.length + 2) ∧
    (∃ l, collect Iter.next Iter.remainder (s.length + 3) (rsplit s d) = .done l ∧ l.length ≤ s.length + 2) ∧
    (∃ l, collect TIter.next TIter.remainder (s.length + 3) (splitTerminator s d) = .done l ∧
      l.length ≤ s.length + 2) ∧
    (∃ l, collect TIter.rnext TIter.remainder (s.length + 3) (rsplitTerminator s d) = .done l ∧
      l.length ≤ s.length + 2) := by
  obtain ⟨h1, h2, h3, h4⟩ := spec_lengths s d hs
  refine ⟨⟨_, collect_split s d hs hd _ (Nat.le_refl _), ?_⟩,
    ⟨_, collect_rsplit s d hs hd _ (Nat.le_refl _), ?_⟩,
    ⟨_, collect_split_terminator s d hs hd _ (Nat.le_refl _), ?_⟩,
    ⟨_, collect_rsplit_terminator s d hs hd _ (Nat.le_refl _), ?_⟩⟩
  · have := congrArg List.length (stepsFwd_pieces d.length (splitSpec s d) 0 s)
    simp only [List.length_map] at this ⊢; omega
  · have := congrArg List.length (stepsBwd_pieces d.length 0 (rsplitSpec s d) s)
    simp only [List.length_map] at this ⊢; omega
  · have := congrArg List.length (stepsFwd_pieces d.length (splitTerminatorSpec s d) 0 s)
    simp only [List.length_map] at this ⊢; omega
  · have := congrArg List.length (stepsBwd_pieces d.length 0 (rsplitTerminatorSpec s d) s)
    simp only [List.length_map] at this ⊢; omega

/-- after step `k` (0-based) `remainder()` is the input minus the first `k + 1` pieces and one
    delimiter each — a SUFFIX `s[c..]` at offset `c` for `split` / `split_terminator`, a PREFIX
    `s[..|s| - c]` for `rsplit` / `rsplit_terminator`, `c = consumed |d| pieces k` — for every `k`
    below the number of pieces -/
theorem remainder_after_k (s d : List Nat) (hs : Valid s) (hd : Valid d) (k : Nat) :
    (k < (splitSpec s d).length → ∃ l,
      collect Iter.next Iter.remainder (s.length + 3) (split s d) = .done l ∧
      (l[k]?).map (fun x => x.2) =
        some (Str.mk (consumed d.length (splitSpec s d) k) (s.drop (consumed d.length (splitSpec s d) k))).norm) ∧
    (k < (splitTerminatorSpec s d).length → ∃ l,
      collect TIter.next TIter.remainder (s.length + 3) (splitTerminator s d) = .done l ∧
      (l[k]?).map (fun x => x.2) =
        some (Str.mk (consumed d.length (splitTerminatorSpec s d) k)
          (s.drop (consumed d.length (splitTerminatorSpec s d) k))).norm) ∧
    (k < (rsplitSpec s d).length → ∃ l,
      collect Iter.next Iter.remainder (s.length + 3) (rsplit s d) = .done l ∧
      (l[k]?).map (fun x => x.2) =
        some (Str.mk 0 (s.take (s.length - consumed d.length (rsplitSpec s d) k))).norm) ∧
    (k < (rsplitTerminatorSpec s d).length → ∃ l,
      collect TIter.rnext TIter.remainder (s.length + 3) (rsplitTerminator s d) = .done l ∧
      (l[k]?).map (fun x => x.2) =
        some (Str.mk 0 (s.take (s.length - consumed d.length (rsplitTerminatorSpec s d) k))).norm) := by
  have fwd : ∀ ps : List (List Nat), k < ps.length →
      (((stepsFwd d.length 0 s ps).map ofP2)[k]?).map (fun x => x.2) =
        some (Str.mk (consumed d.length ps k) (s.drop (consumed d.length ps k))).norm := by
    intro ps hk
    have := stepsFwd_rem d.length ps 0 s k hk
    rw [List.getElem?_map, Option.map_map]
    cases hg : (stepsFwd d.length 0 s ps)[k]? with
    | none => rw [hg] at this; simp at this
    | some x =>
      rw [hg] at this
      simp only [Option.map_some, Option.some.injEq] at this
      simp only [Option.map_some, Function.comp, ofP2, this, Nat.zero_add, norm_mk]
  have bwd : ∀ ps : List (List Nat), k < ps.length →
      (((stepsBwd d.length 0 s ps).map ofP2)[k]?).map (fun x => x.2) =
        some (Str.mk 0 (s.take (s.length - consumed d.length ps k))).norm := by
    intro ps hk
    have := stepsBwd_rem d.length 0 ps s k hk
    rw [List.getElem?_map, Option.map_map]
    cases hg : (stepsBwd d.length 0 s ps)[k]? with
    | none => rw [hg] at this; simp at this
    | some x =>
      rw [hg] at this
      simp only [Option.map_some, Option.some.injEq] at this
      simp only [Option.map_some, Function.comp, ofP2, this, norm_mk]
  exact ⟨fun hk => ⟨_, collect_split s d hs hd _ (Nat.le_refl _), fwd _ hk⟩,
    fun hk => ⟨_, collect_split_terminator s d hs hd _ (Nat.le_refl _), fwd _ hk⟩,
    fun hk => ⟨_, collect_rsplit s d hs hd _ (Nat.le_refl _), bwd _ hk⟩,
    fun hk => ⟨_, collect_rsplit_terminator s d hs hd _ (Nat.le_refl _), bwd _ hk⟩⟩

/-- … and it is `""` once `split` / `rsplit` have yielded their last piece (`State::Finished`):
    a full split uses up `|s| + |d|` bytes -/
theorem remainder_finished (s d : List Nat) (hs : Valid s) (hd : Valid d) :
    (∃ l, collect Iter.next Iter.remainder (s.length + 3) (split s d) = .done l ∧
      l.getLast?.map (fun x => x.2) = some Str.lit) ∧
    (∃ l, collect Iter.next Iter.remainder (s.length + 3) (rsplit s d) = .done l ∧
      l.getLast?.map (fun x => x.2) = some Str.lit) := by
  obtain ⟨c1, c2⟩ := consumed_all s d hs
  have ne1 : 0 < (splitSpec s d).length := by
    unfold splitSpec; split
    · simp
    · exact List.length_pos_iff.mpr (splitAux_ne_nil _ _ _)
  have ne2 : 0 < (rsplitSpec s d).length := by
    unfold rsplitSpec; split
    · simp
    · exact List.length_pos_iff.mpr (rsplitAux_ne_nil _ _ _)
  obtain ⟨l1, hl1, hr1⟩ := (remainder_after_k s d hs hd ((splitSpec s d).length - 1)).1 (by omega)
  obtain ⟨l2, hl2, hr2⟩ := (remainder_after_k s d hs hd ((rsplitSpec s d).length - 1)).2.2.1 (by omega)
  have len1 : l1.length = (splitSpec s d).length := by
    have h := hl1
    rw [collect_split s d hs hd _ (Nat.le_refl _)] at h
    have := congrArg List.length (stepsFwd_pieces d.length (splitSpec s d) 0 s)
    cases h; simpa using this
  have len2 : l2.length = (rsplitSpec s d).length := by
    have h := hl2
    rw [collect_rsplit s d hs hd _ (Nat.le_refl _)] at h
    have := congrArg List.length (stepsBwd_pieces d.length 0 (rsplitSpec s d) s)
    cases h; simpa using this
  refine ⟨⟨l1, hl1, ?_⟩, ⟨l2, hl2, ?_⟩⟩
  · rw [List.getLast?_eq_getElem?, len1, hr1, List.drop_of_length_le c1]; rfl
  · rw [List.getLast?_eq_getElem?, len2, hr2]
    have : s.length - consumed d.length (rsplitSpec s d) ((rsplitSpec s d).length - 1) = 0 := by omega
    rw [this]; rfl

/-! ### mixed front/back histories (`Split` and `RSplit` are double-ended)

  `runHist it h` applies `next` (`f`) / `next_back` (`b`) as the history says, each on a `copy()`,
  and records the piece (or `None`) and the `remainder()` after every step.
  What is proved for mixed histories: for every NON-EMPTY delimiter WITHOUT A BORDER (no proper
  non-empty prefix of it is also a suffix — then occurrences cannot overlap; every `char` delimiter
  qualifies) every history refines the double-ended deque of `split`'s pieces, remainders included.
  For a delimiter with a border (`"aa"`, `"aba"`) or the empty delimiter the two ends do NOT share
  one piece list (`split("aaa","aa") = ["", "a"]` but `rsplit` = `["", "a"]` too, see the examples
  below; after a front `""` the empty-delimiter iterator takes a character, not `""`, from the back):
  for those only one-directional iteration is characterised (the theorems above), and std offers no
  double-ended `split` for `&str` patterns at all. -/

/-- every front/back history on `split(s, d)` / `rsplit(s, d)`, `d` non-empty and borderless, is
    that history on the deque of `str::split`'s pieces (`rsplit`: with the two ends swapped) -/
theorem mixed_histories (s d : List Nat) (hs : Valid s) (hd : Valid d) (hne : d ≠ [])
    (hb : hasBorder d = false) (h : List Dir) :
    runHist (split s d) h = (histSpec d.length 0 s (splitSpec s d) h).map toObs ∧
    runHist (rsplit s d) h = (histSpec d.length 0 s (splitSpec s d) (h.map flipDir)).map toObs := by
  have hb' := borderless_of_hasBorder hb
  have e1 := hist_normal true d hd hne hb' h s.length s 0 (Nat.le_refl _) hs
  have e2 := hist_normal false d hd hne hb' h s.length s 0 (Nat.le_refl _) hs
  simp only [split, rsplit, Iter.rev, splitSpec, isEmpty_false hne, Bool.false_eq_true, if_false,
    Bool.not_true]
  exact ⟨e1, e2⟩

/-- … in particular for every `char` delimiter (std's `Split<char>` is a `DoubleEndedIterator`) -/
theorem mixed_histories_char (s : List Nat) (c : Nat) (hs : Valid s) (hc : isScalar c = true)
    (h : List Dir) :
    runHist (split s (enc c)) h = (histSpec (enc c).length 0 s (splitSpec s (enc c)) h).map toObs ∧
    runHist (rsplit s (enc c)) h =
      (histSpec (enc c).length 0 s (splitSpec s (enc c)) (h.map flipDir)).map toObs := by
  have hne : enc c ≠ [] := enc_ne_nil c
  have hd : Valid (enc c) := ⟨[c], by simpa using hc, by simp [encs]⟩
  have hb' := enc_borderless c
  have e1 := hist_normal true (enc c) hd hne hb' h s.length s 0 (Nat.le_refl _) hs
  have e2 := hist_normal false (enc c) hd hne hb' h s.length s 0 (Nat.le_refl _) hs
  simp only [split, rsplit, Iter.rev, splitSpec, isEmpty_false hne, Bool.false_eq_true, if_false,
    Bool.not_true]
  exact ⟨e1, e2⟩

/-! ### non-vacuity and witnesses -/

-- the hypotheses are satisfiable: "añ" and "ñ" are valid
example : Valid [0x61, 0xC3, 0xB1] ∧ Valid [0xC3, 0xB1] ∧ Valid [] :=
  ⟨⟨[0x61, 0xF1], by decide, by decide⟩, ⟨[0xF1], by decide, by decide⟩, ⟨[], by decide, by decide⟩⟩
-- "a,b" split by ",": pieces at offsets 0 and 2, remainders "b" then ""
example : collect Iter.next Iter.remainder 6 (split [97, 44, 98] [44]) =
    .done [(⟨0, [97]⟩, ⟨2, [98]⟩), (⟨2, [98]⟩, ⟨0, []⟩)] := by decide
example : collect Iter.next Iter.remainder 6 (rsplit [97, 44, 98] [44]) =
    .done [(⟨2, [98]⟩, ⟨0, [97]⟩), (⟨0, [97]⟩, ⟨0, []⟩)] := by decide
-- the specification on the input that the pre-116b24e matcher got wrong, and overlapping delimiters
example : splitSpec [97, 97, 97, 98] [97, 97, 98] = [[97], []] := by decide
example : splitSpec [97, 97, 97] [97, 97] = [[], [97]] ∧ rsplitSpec [97, 97, 97] [97, 97] = [[], [97]] := by decide
example : hasBorder [97, 97] = true ∧ hasBorder [97, 98, 97] = true ∧ hasBorder [97, 98] = false ∧
    hasBorder [0xC3, 0xB1] = false := by decide
-- terminators: ",a,b," forward drops the trailing "", backward drops the leading ""
example : splitTerminatorSpec [44, 97, 44, 98, 44] [44] = [[], [97], [98]] ∧
    rsplitTerminatorSpec [44, 97, 44, 98, 44] [44] = [[], [98], [97]] ∧
    rsplitTerminatorSpec [] [44] = [] ∧ splitTerminatorSpec [] [44] = [] := by decide
-- the empty delimiter on "añ" (through the theorem: the char walk is not kernel-reducible)
example : (collect Iter.next Iter.remainder 6 (split [0x61, 0xC3, 0xB1] [])).pieces =
    some [[], [0x61], [0xC3, 0xB1], []] := by
  have := (pieces_eq_std [0x61, 0xC3, 0xB1] [] ⟨[0x61, 0xF1], by decide, by decide⟩
    ⟨[], by decide, by decide⟩).1
  exact this.trans (by decide)
-- a cut inside a character is a panic in the model (the validity hypotheses are needed):
-- the delimiter 0xB1 (not a `&str`) occurs inside "ñ"
example : collect Iter.next Iter.remainder 6 (split [0xC3, 0xB1] [0xB1]) = .panic := by decide
-- a mixed history on "a,b,c": front, back, back, front
example : runHist (split [97, 44, 98, 44, 99] [44]) [.f, .b, .b, .f] =
    [.item ⟨0, [97]⟩ ⟨2, [98, 44, 99]⟩, .item ⟨4, [99]⟩ ⟨2, [98]⟩, .item ⟨2, [98]⟩ ⟨0, []⟩, .none ⟨0, []⟩] := by
  decide

end Konst.Props.C06
