import KonstVerif.Model.Bytes
import KonstVerif.Model.StrFns
import KonstVerif.Spec.Bytes
import KonstVerif.Lemmas.Bytes
/-
  C05 — Prefix/suffix tests, stripping and trimming agree with std.
  Property theorems only (helper lemmas: Lemmas/Bytes.lean); every theorem is for ALL byte lists
  `h` (input) and `p` (pattern bytes after normalisation), no bound on lengths.
-/
namespace Konst.Props.C05
open Konst Konst.Bytes Konst.Spec.Bytes Konst.Lemmas.Bytes

/-- `strip_prefix` = std: `Some(h.drop |p|)` iff `p` is a prefix of `h`; the view is inside `h` -/
theorem stripPrefix_eq (h p : List Nat) :
    (stripPrefix h p).map (·.apply h) = stripPrefixSpec h p ∧
    (∀ v, stripPrefix h p = some v → v.InBounds h.length) := by
  unfold stripPrefix
  rw [stripPrefixL_eq]
  unfold stripPrefixSpec
  by_cases hp : p.isPrefixOf h = true
  · have hs : h.drop p.length <:+ h := List.drop_suffix _ _
    simp only [hp, if_true, Option.map_some, Option.some.injEq]
    exact ⟨suffixView_apply hs, by intro v hv; subst hv; exact suffixView_inBounds hs⟩
  · simp [hp]

/-- `strip_suffix` = std: `Some(h.take (|h| - |p|))` iff `p` is a suffix of `h` -/
theorem stripSuffix_eq (h p : List Nat) :
    (stripSuffix h p).map (·.apply h) = stripSuffixSpec h p ∧
    (∀ v, stripSuffix h p = some v → v.InBounds h.length) := by
  unfold stripSuffix
  rw [stripSuffixL_eq]
  unfold stripSuffixSpec
  by_cases hp : p.isSuffixOf h = true
  · have hs : h.take (h.length - p.length) <+: h := List.take_prefix _ _
    simp only [hp, if_true, Option.map_some, Option.some.injEq]
    exact ⟨prefixView_apply hs, by intro v hv; subst hv; exact prefixView_inBounds hs⟩
  · simp [hp]

/-- `starts_with` is "`p` is a prefix of `h`" -/
theorem startsWith_iff (h p : List Nat) :
    startsWith h p = startsWithSpec h p ∧ (startsWith h p = true ↔ p <+: h) := by
  rw [startsWith_eq]
  exact ⟨rfl, List.isPrefixOf_iff_prefix⟩

/-- `ends_with` is "`p` is a suffix of `h`" -/
theorem endsWith_iff (h p : List Nat) :
    endsWith h p = endsWithSpec h p ∧ (endsWith h p = true ↔ p <:+ h) := by
  rw [endsWith_eq]
  exact ⟨rfl, List.isSuffixOf_iff_suffix⟩

/-- `trim_start_matches` (two-level loop with `at_start` rollback) = `str::trim_start_matches` -/
theorem trimStartMatches_eq_spec (h p : List Nat) :
    (trimStartMatches h p).apply h = trimStartSpec p h ∧ (trimStartMatches h p).InBounds h.length := by
  unfold trimStartMatches
  rw [trimStartMatchesL_eq]
  have hs := trimStartSpec_suffix p _ h rfl
  exact ⟨suffixView_apply hs, suffixView_inBounds hs⟩

/-- `trim_end_matches` = `str::trim_end_matches` (via the mirror lemmas) -/
theorem trimEndMatches_eq_spec (h p : List Nat) :
    (trimEndMatches h p).apply h = trimEndSpec p h ∧ (trimEndMatches h p).InBounds h.length := by
  unfold trimEndMatches
  rw [trimEndMatchesL_eq]
  have hs := trimEndSpec_prefix p _ h rfl
  exact ⟨prefixView_apply hs, prefixView_inBounds hs⟩

/-- `trim_matches` = trim the start, then the end (konst's documented behaviour; equal to std's
    `trim_matches` for `char` patterns) -/
theorem trimMatches_eq_spec (h p : List Nat) :
    (trimMatches h p).apply h = trimMatchesSpec p h ∧ (trimMatches h p).InBounds h.length := by
  unfold trimMatches trimMatchesSpec
  simp only [trimStartMatchesL_eq, trimEndMatchesL_eq]
  have hs := trimStartSpec_suffix p _ h rfl
  have hp := trimEndSpec_prefix p _ (trimStartSpec p h) rfl
  have hlen := hp.length_le
  constructor
  · rw [comp_apply _ _ _ (by simp only [suffixView, prefixView]; omega), suffixView_apply hs,
      prefixView_apply hp]
  · have := hs.length_le
    simp only [View.InBounds, View.comp, suffixView, prefixView]; omega

/-- an empty pattern removes nothing -/
theorem trim_empty_needle (h : List Nat) :
    (trimStartMatches h []).apply h = h ∧ (trimEndMatches h []).apply h = h ∧
    (trimMatches h []).apply h = h := by
  have e1 : trimStartSpec [] h = h := by rw [trimStartSpec]; simp
  have e2 : trimEndSpec [] h = h := by rw [trimEndSpec]; simp
  refine ⟨?_, ?_, ?_⟩
  · rw [(trimStartMatches_eq_spec h []).1, e1]
  · rw [(trimEndMatches_eq_spec h []).1, e2]
  · rw [(trimMatches_eq_spec h []).1]; unfold trimMatchesSpec; rw [e1, e2]

/-- the specification really is "remove exactly the maximal run of whole repetitions":
    for a non-empty pattern the result is what is left after `k` copies of `p`, and does not start
    with `p` any more -/
theorem trimStartSpec_maximal (p : List Nat) (hp : p ≠ []) (h : List Nat) :
    ∃ k, h = (List.replicate k p).flatten ++ trimStartSpec p h ∧ ¬ p <+: trimStartSpec p h := by
  generalize hn : h.length = n
  induction n using Nat.strongRecOn generalizing h with
  | _ n ih =>
    rw [trimStartSpec]
    by_cases hc : p ≠ [] ∧ p.isPrefixOf h = true
    · simp only [hc, ne_eq, not_false_eq_true, and_self, dite_true]
      have hne : 0 < p.length := List.length_pos_iff.mpr hp
      have hpre := List.isPrefixOf_iff_prefix.mp hc.2
      have hle := hpre.length_le
      obtain ⟨k, hk, hmax⟩ := ih (h.drop p.length).length (by simp; omega) (h.drop p.length) rfl
      refine ⟨k + 1, ?_, hmax⟩
      rw [List.replicate_succ, List.flatten_cons, List.append_assoc, ← hk]
      obtain ⟨t, ht⟩ := hpre
      rw [← ht]; simp
    · simp only [hc, dite_false]
      refine ⟨0, by simp, ?_⟩
      intro hpre
      exact hc ⟨hp, List.isPrefixOf_iff_prefix.mpr hpre⟩

/-- the same for the end: the result is what is left before `k` copies of `p`, and does not end
    with `p` any more -/
theorem trimEndSpec_maximal (p : List Nat) (hp : p ≠ []) (h : List Nat) :
    ∃ k, h = trimEndSpec p h ++ (List.replicate k p).flatten ∧ ¬ p <:+ trimEndSpec p h := by
  generalize hn : h.length = n
  induction n using Nat.strongRecOn generalizing h with
  | _ n ih =>
    rw [trimEndSpec]
    by_cases hc : p ≠ [] ∧ p.isSuffixOf h = true
    · simp only [hc, ne_eq, not_false_eq_true, and_self, dite_true]
      have hne : 0 < p.length := List.length_pos_iff.mpr hp
      have hsuf := List.isSuffixOf_iff_suffix.mp hc.2
      have hle := hsuf.length_le
      obtain ⟨t, ht⟩ := hsuf
      have htake : h.take (h.length - p.length) = t := by
        rw [← ht]; simp
      rw [htake]
      obtain ⟨k, hk, hmax⟩ := ih t.length (by rw [← hn, ← ht]; simp; omega) t rfl
      refine ⟨k + 1, ?_, hmax⟩
      rw [List.replicate_succ', List.flatten_append, ← List.append_assoc, ← hk]
      simp [ht]
    · simp only [hc, dite_false]
      refine ⟨0, by simp, ?_⟩
      intro hsuf
      exact hc ⟨hp, List.isSuffixOf_iff_suffix.mpr hsuf⟩

/-- the whitespace set of `matches_space!` is std's `is_ascii_whitespace`:
    tab, line feed, form feed, carriage return, space — for every byte value -/
theorem matchesSpace_iff (b : Nat) :
    matchesSpace b = isAsciiWhitespace b ∧
    (matchesSpace b = true ↔ b = 9 ∨ b = 10 ∨ b = 12 ∨ b = 13 ∨ b = 32) := by
  refine ⟨matchesSpace_eq b, ?_⟩
  unfold matchesSpace
  simp only [Bool.or_eq_true, beq_iff_eq]
  omega

/-- `bytes_trim_start` = `trim_ascii_start` -/
theorem bytesTrimStart_eq (h : List Nat) :
    (bytesTrimStart h).apply h = trimAsciiStartSpec h ∧ (bytesTrimStart h).InBounds h.length := by
  unfold bytesTrimStart
  rw [bytesTrimStartL_eq]
  have hs : trimAsciiStartSpec h <:+ h := List.dropWhile_suffix _
  exact ⟨suffixView_apply hs, suffixView_inBounds hs⟩

/-- `bytes_trim_end` = `trim_ascii_end` -/
theorem bytesTrimEnd_eq (h : List Nat) :
    (bytesTrimEnd h).apply h = trimAsciiEndSpec h ∧ (bytesTrimEnd h).InBounds h.length := by
  unfold bytesTrimEnd
  rw [bytesTrimEndL_eq]
  have hs : trimAsciiEndSpec h <+: h := revDropWhile_prefix _ h
  exact ⟨prefixView_apply hs, prefixView_inBounds hs⟩

/-- `bytes_trim` (end first, then start) = `trim_ascii` (start first, then end) -/
theorem bytesTrim_eq (h : List Nat) :
    (bytesTrim h).apply h = trimAsciiSpec h ∧ (bytesTrim h).InBounds h.length := by
  unfold bytesTrim
  simp only []
  have he : bytesTrimEndL h <+: h := by rw [bytesTrimEndL_eq]; exact revDropWhile_prefix _ h
  have hs : bytesTrimStartL (bytesTrimEndL h) <:+ bytesTrimEndL h := by
    rw [bytesTrimStartL_eq]; exact List.dropWhile_suffix _
  have h1 := he.length_le
  have h2 := hs.length_le
  constructor
  · rw [comp_apply _ _ _ (by simp only [suffixView, prefixView]; omega), prefixView_apply he,
      suffixView_apply hs, Lemmas.Bytes.bytesTrim_eq]
  · simp only [View.InBounds, View.comp, suffixView, prefixView]; omega

/-- the str-level functions are the byte functions applied to `as_bytes()` -/
theorem str_wrappers (h p : List Nat) :
    StrFns.startsWith h p = startsWith h p ∧ StrFns.endsWith h p = endsWith h p ∧
    StrFns.stripPrefix h p = stripPrefix h p ∧ StrFns.stripSuffix h p = stripSuffix h p ∧
    StrFns.trimStartMatches h p = trimStartMatches h p ∧ StrFns.trimEndMatches h p = trimEndMatches h p ∧
    StrFns.trimMatches h p = trimMatches h p ∧
    StrFns.trim h = bytesTrim h ∧ StrFns.trimStart h = bytesTrimStart h ∧ StrFns.trimEnd h = bytesTrimEnd h :=
  ⟨rfl, rfl, rfl, rfl, rfl, rfl, rfl, rfl, rfl, rfl⟩

-- non-vacuity / sanity (kernel-evaluated)
example : (trimStartMatches [1, 2, 1, 2, 1, 3] [1, 2]).apply [1, 2, 1, 2, 1, 3] = [1, 3] := by decide
example : (trimEndMatches [3, 1, 2, 1, 2] [1, 2]).apply [3, 1, 2, 1, 2] = [3] := by decide
example : (trimMatches [1, 1, 1] [1, 1]) = ⟨2, 1⟩ := by decide            -- start first: "aaa" -> "a" at offset 2
example : stripPrefix [1, 2, 3] [1, 2] = some ⟨2, 1⟩ ∧ stripSuffix [1, 2, 3] [2, 3] = some ⟨0, 1⟩ := by decide
example : stripPrefix [1, 2] [1, 2, 3] = none ∧ startsWith [1, 2] [] = true := by decide
example : bytesTrim [32, 12, 120, 9, 13] = ⟨2, 1⟩ := by decide
example : matchesSpace 12 = true ∧ matchesSpace 11 = false := by decide      -- form feed yes, vertical tab no

end Konst.Props.C05
