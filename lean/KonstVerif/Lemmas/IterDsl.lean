import KonstVerif.Model.IterDsl
import KonstVerif.Spec.IterDsl
/-
  Fusion lemmas for C10: the emitted push-style loop (Model/IterDsl) against the list semantics
  of std's adapters (Spec/IterDsl).

  Stage 1 (forward):  for a rev-free chain driven by `next`, one pushed item contributes exactly
                      the head-part of the list semantics of the *residual* chain (`StepOK`).
  Stage 2 (direction): the directional code `feed c d` equals the forward code of the normalised
                      chain `fwd c d` on mirrored zip states (`feed_fwd`).
  Stage 3 (consumer): the consumer code folded with early break over the yielded items equals the
                      list consumer in iteration order (`consMany_iterConsume`).
-/
set_option linter.unusedSimpArgs false

namespace Konst.Iter.Lemmas
open Konst.Iter Konst.Iter.Spec

/-! ## residual semantics: the chain with its hoisted variables at their current values -/

/-- std semantics of adapter `a` whose hoisted variable currently holds `c` -/
def applyCell : Ad → Cell → List Val → List Val
  | .enumerate, .nat i, xs => enumFrom i xs
  | .skip _, .nat k, xs => xs.drop k
  | .take _, .nat k, xs => xs.take k
  | .skipWhile p, .flag s, xs => if s then xs.dropWhile p else xs
  | .zip _, .lst l, xs => zipVals xs l
  | a, _, xs => applyAd a xs

def stdEvalSt : List Ad → St → List Val → List Val
  | [], _, xs => xs
  | a :: r, [], xs => stdEvalSt r [] (applyAd a xs)
  | a :: r, c :: st, xs => stdEvalSt r st (applyCell a c xs)

/-- the state list is aligned with the chain and every cell has the kind its adapter uses -/
def WF : List Ad → St → Prop
  | [], st => st = []
  | _ :: _, [] => False
  | .enumerate :: r, c :: st => (∃ i, c = .nat i) ∧ WF r st
  | .skip _ :: r, c :: st => (∃ i, c = .nat i) ∧ WF r st
  | .take _ :: r, c :: st => (∃ i, c = .nat i) ∧ WF r st
  | .skipWhile _ :: r, c :: st => (∃ s, c = .flag s) ∧ WF r st
  | .zip _ :: r, c :: st => (∃ l, c = .lst l) ∧ WF r st
  | .copied :: r, _ :: st => WF r st
  | .filter _ :: r, _ :: st => WF r st
  | .filterMap _ :: r, _ :: st => WF r st
  | .flatMap _ :: r, _ :: st => WF r st
  | .flatten :: r, _ :: st => WF r st
  | .map _ :: r, _ :: st => WF r st
  | .rev :: r, _ :: st => WF r st
  | .takeWhile _ :: r, _ :: st => WF r st

def NoRev : List Ad → Prop
  | [] => True
  | .rev :: _ => False
  | _ :: r => NoRev r

theorem wf_tail {a : Ad} {r : List Ad} {c : Cell} {st : St} (h : WF (a :: r) (c :: st)) : WF r st := by
  cases a <;> simp only [WF] at h <;> first | exact h | exact h.2

theorem wf_init : ∀ c, WF c (initSt c) := by
  intro c; induction c with
  | nil => simp [WF, initSt]
  | cons a r ih => cases a <;> simp [WF, initSt, ih]

theorem zipVals_nil_left (l : List Val) : zipVals [] l = [] := by cases l <;> rfl
theorem zipVals_nil_right (l : List Val) : zipVals l [] = [] := by cases l <;> rfl

theorem applyAd_nil (a : Ad) : applyAd a [] = [] := by
  cases a <;> simp [applyAd, enumFrom, zipVals_nil_left]

theorem applyCell_nil (a : Ad) (c : Cell) : applyCell a c [] = [] := by
  cases a <;> cases c <;> simp [applyCell, applyAd, enumFrom, zipVals_nil_left]

theorem stdEvalSt_nil : ∀ (c : List Ad) (st : St), stdEvalSt c st [] = [] := by
  intro c; induction c with
  | nil => intro st; rfl
  | cons a r ih =>
    intro st
    cases st with
    | nil => simp [stdEvalSt, applyAd_nil, ih]
    | cons k st => simp [stdEvalSt, applyCell_nil, ih]

theorem stdEval_nil (c : List Ad) : stdEval c [] = [] := by
  induction c with
  | nil => rfl
  | cons a r ih => simp [stdEval, applyAd_nil, ih]

theorem stdEvalSt_init : ∀ (c : List Ad) (xs : List Val), stdEvalSt c (initSt c) xs = stdEval c xs := by
  intro c; induction c with
  | nil => intro xs; rfl
  | cons a r ih =>
    intro xs
    cases a <;> simp [stdEvalSt, initSt, applyCell, stdEval, applyAd, ih]

/-! ## stage 1: forward fusion -/

/-- what one pushed item contributes, relative to the list semantics of the residual chain -/
def StepOK (c : List Ad) : Prop :=
  ∀ st x st' out b, WF c st → feed c false st x = (st', out, b) →
    WF c st' ∧ ∀ xs, stdEvalSt c st (x :: xs) = out ++ (if b then [] else stdEvalSt c st' xs)

theorem many_of_step (c : List Ad) (h : StepOK c) :
    ∀ ys st st' out b, WF c st → foldItems (feed c false) st ys = (st', out, b) →
      WF c st' ∧ ∀ zs, stdEvalSt c st (ys ++ zs) =
        out ++ (if b then [] else stdEvalSt c st' zs) := by
  intro ys
  induction ys with
  | nil =>
    intro st st' out b hw he
    simp only [foldItems, Prod.mk.injEq] at he
    obtain ⟨rfl, rfl, rfl⟩ := he
    exact ⟨hw, by intro zs; simp⟩
  | cons y ys ih =>
    intro st st' out b hw he
    simp only [foldItems] at he
    rcases hfe : feed c false st y with ⟨s1, o1, b1⟩
    rw [hfe] at he
    obtain ⟨hw1, h1⟩ := h st y s1 o1 b1 hw hfe
    cases b1 with
    | true =>
      dsimp only at he
      simp only [Prod.mk.injEq] at he
      obtain ⟨rfl, rfl, rfl⟩ := he
      exact ⟨hw1, by intro zs; simpa using h1 (ys ++ zs)⟩
    | false =>
      dsimp only at he
      rcases hfo : foldItems (feed c false) s1 ys with ⟨s2, o2, b2⟩
      rw [hfo] at he
      simp only [Prod.mk.injEq] at he
      obtain ⟨rfl, rfl, rfl⟩ := he
      obtain ⟨hw2, h2⟩ := ih s1 s2 o2 b2 hw1 hfo
      refine ⟨hw2, ?_⟩
      intro zs
      have e1 := h1 (ys ++ zs)
      simp only [Bool.false_eq_true, if_false] at e1
      simp only [List.cons_append]
      rw [e1, h2 zs, List.append_assoc]

/-- pass-through adapters: the item (possibly transformed) goes on, the cell is kept -/
private theorem step_pass {r : List Ad} (ih : StepOK r) {a : Ad} {k : Cell} {st : St} {x y : Val}
    {st' : St} {out : List Val} {b : Bool}
    (hw : WF (a :: r) (k :: st))
    (hwk : ∀ s, WF r s → WF (a :: r) (k :: s))
    (he : (match feed r false st y with | (s, o, b) => (k :: s, o, b)) = (st', out, b))
    (hstd : ∀ s xs, stdEvalSt (a :: r) (k :: s) (x :: xs) = stdEvalSt r s (y :: (applyCell a k xs)))
    (hstd' : ∀ s xs, stdEvalSt (a :: r) (k :: s) xs = stdEvalSt r s (applyCell a k xs)) :
    WF (a :: r) st' ∧ ∀ xs, stdEvalSt (a :: r) (k :: st) (x :: xs) =
      out ++ (if b then [] else stdEvalSt (a :: r) st' xs) := by
  rcases hf : feed r false st y with ⟨s1, o1, b1⟩
  rw [hf] at he; simp only [Prod.mk.injEq] at he; obtain ⟨rfl, rfl, rfl⟩ := he
  obtain ⟨hw1, h1⟩ := ih st y s1 o1 b1 (wf_tail hw) hf
  refine ⟨hwk s1 hw1, ?_⟩
  intro xs
  rw [hstd, hstd']
  exact h1 _

theorem stepOK : ∀ c, NoRev c → StepOK c := by
  intro c
  induction c with
  | nil =>
    intro _ st x st' out b hw he
    simp only [feed, Prod.mk.injEq] at he
    obtain ⟨rfl, rfl, rfl⟩ := he
    exact ⟨hw, by intro xs; simp [stdEvalSt]⟩
  | cons a r ih =>
    intro hnr st x st' out b hw he
    cases st with
    | nil => simp [WF] at hw
    | cons k st =>
      have hwr : WF r st := wf_tail hw
      cases a with
      | rev => simp [NoRev] at hnr
      | copied =>
        have ih' := ih (by simpa [NoRev] using hnr)
        simp only [feed] at he
        exact step_pass ih' hw (fun s h => by simpa [WF] using h) he
          (fun s xs => by cases k <;> simp [stdEvalSt, applyCell, applyAd])
          (fun s xs => by simp [stdEvalSt])
      | map f =>
        have ih' := ih (by simpa [NoRev] using hnr)
        simp only [feed] at he
        exact step_pass ih' hw (fun s h => by simpa [WF] using h) he
          (fun s xs => by cases k <;> simp [stdEvalSt, applyCell, applyAd])
          (fun s xs => by simp [stdEvalSt])
      | filter p =>
        have ih' := ih (by simpa [NoRev] using hnr)
        simp only [feed] at he
        by_cases hp : p x = true
        · rw [if_pos hp] at he
          exact step_pass ih' hw (fun s h => by simpa [WF] using h) he
            (fun s xs => by cases k <;> simp [stdEvalSt, applyCell, applyAd, List.filter_cons, hp])
            (fun s xs => by simp [stdEvalSt])
        · rw [if_neg hp] at he
          simp only [Prod.mk.injEq] at he; obtain ⟨rfl, rfl, rfl⟩ := he
          refine ⟨hw, ?_⟩
          intro xs
          cases k <;> simp [stdEvalSt, applyCell, applyAd, List.filter_cons, hp]
      | filterMap f =>
        have ih' := ih (by simpa [NoRev] using hnr)
        simp only [feed] at he
        cases hfx : f x with
        | some y =>
          rw [hfx] at he
          exact step_pass ih' hw (fun s h => by simpa [WF] using h) he
            (fun s xs => by cases k <;> simp [stdEvalSt, applyCell, applyAd, List.filterMap_cons, hfx])
            (fun s xs => by simp [stdEvalSt])
        | none =>
          rw [hfx] at he
          simp only [Prod.mk.injEq] at he; obtain ⟨rfl, rfl, rfl⟩ := he
          refine ⟨hw, ?_⟩
          intro xs
          cases k <;> simp [stdEvalSt, applyCell, applyAd, List.filterMap_cons, hfx]
      | takeWhile p =>
        have ih' := ih (by simpa [NoRev] using hnr)
        simp only [feed] at he
        by_cases hp : p x = true
        · rw [if_pos hp] at he
          exact step_pass ih' hw (fun s h => by simpa [WF] using h) he
            (fun s xs => by cases k <;> simp [stdEvalSt, applyCell, applyAd, List.takeWhile_cons, hp])
            (fun s xs => by simp [stdEvalSt])
        · rw [if_neg hp] at he
          simp only [Prod.mk.injEq] at he; obtain ⟨rfl, rfl, rfl⟩ := he
          refine ⟨hw, ?_⟩
          intro xs
          cases k <;> simp [stdEvalSt, applyCell, applyAd, List.takeWhile_cons, hp, stdEvalSt_nil]
      | enumerate =>
        have ih' := ih (by simpa [NoRev] using hnr)
        obtain ⟨⟨i, rfl⟩, _⟩ : (∃ i, k = .nat i) ∧ WF r st := by simpa [WF] using hw
        simp only [feed] at he
        rcases hf : feed r false st (.pair (.n i) x) with ⟨s1, o1, b1⟩
        rw [hf] at he; simp only [Prod.mk.injEq] at he; obtain ⟨rfl, rfl, rfl⟩ := he
        obtain ⟨hw1, h1⟩ := ih' st _ s1 o1 b1 hwr hf
        refine ⟨by simp [WF, hw1], ?_⟩
        intro xs
        simp only [stdEvalSt, applyCell, enumFrom]
        exact h1 _
      | skip n =>
        have ih' := ih (by simpa [NoRev] using hnr)
        obtain ⟨⟨i, rfl⟩, _⟩ : (∃ i, k = .nat i) ∧ WF r st := by simpa [WF] using hw
        simp only [feed] at he
        by_cases hk : i ≠ 0
        · rw [if_pos hk] at he
          simp only [Prod.mk.injEq] at he; obtain ⟨rfl, rfl, rfl⟩ := he
          refine ⟨by simp [WF, hwr], ?_⟩
          intro xs
          obtain ⟨j, rfl⟩ : ∃ j, i = j + 1 := ⟨i - 1, by omega⟩
          simp [stdEvalSt, applyCell]
        · rw [if_neg hk] at he
          have hk0 : i = 0 := by omega
          subst hk0
          rcases hf : feed r false st x with ⟨s1, o1, b1⟩
          rw [hf] at he; simp only [Prod.mk.injEq] at he; obtain ⟨rfl, rfl, rfl⟩ := he
          obtain ⟨hw1, h1⟩ := ih' st x s1 o1 b1 hwr hf
          refine ⟨by simp [WF, hw1], ?_⟩
          intro xs
          simp only [stdEvalSt, applyCell, List.drop_zero]
          exact h1 xs
      | take n =>
        have ih' := ih (by simpa [NoRev] using hnr)
        obtain ⟨⟨i, rfl⟩, _⟩ : (∃ i, k = .nat i) ∧ WF r st := by simpa [WF] using hw
        simp only [feed] at he
        by_cases hk : i = 0
        · rw [if_pos hk] at he
          simp only [Prod.mk.injEq] at he; obtain ⟨rfl, rfl, rfl⟩ := he
          refine ⟨hw, ?_⟩
          intro xs
          subst hk
          simp [stdEvalSt, applyCell, stdEvalSt_nil]
        · rw [if_neg hk] at he
          rcases hf : feed r false st x with ⟨s1, o1, b1⟩
          rw [hf] at he; simp only [Prod.mk.injEq] at he; obtain ⟨rfl, rfl, rfl⟩ := he
          obtain ⟨hw1, h1⟩ := ih' st x s1 o1 b1 hwr hf
          refine ⟨by simp [WF, hw1], ?_⟩
          intro xs
          obtain ⟨j, rfl⟩ : ∃ j, i = j + 1 := ⟨i - 1, by omega⟩
          simp only [stdEvalSt, applyCell, List.take_succ_cons, Nat.add_sub_cancel]
          exact h1 (xs.take j)
      | skipWhile p =>
        have ih' := ih (by simpa [NoRev] using hnr)
        obtain ⟨⟨s, rfl⟩, _⟩ : (∃ s, k = .flag s) ∧ WF r st := by simpa [WF] using hw
        simp only [feed] at he
        by_cases hc : (s && p x) = true
        · rw [if_pos hc] at he
          simp only [Prod.mk.injEq] at he; obtain ⟨rfl, rfl, rfl⟩ := he
          simp only [Bool.and_eq_true] at hc
          obtain ⟨hs, hp⟩ := hc
          subst hs
          refine ⟨by simp [WF, hwr], ?_⟩
          intro xs
          simp [stdEvalSt, applyCell, List.dropWhile_cons, hp]
        · rw [if_neg hc] at he
          rcases hf : feed r false st x with ⟨s1, o1, b1⟩
          rw [hf] at he; simp only [Prod.mk.injEq] at he; obtain ⟨rfl, rfl, rfl⟩ := he
          obtain ⟨hw1, h1⟩ := ih' st x s1 o1 b1 hwr hf
          refine ⟨by simp [WF, hw1], ?_⟩
          intro xs
          have hx : (if s = true then List.dropWhile p (x :: xs) else x :: xs) = x :: xs := by
            cases s with
            | false => simp
            | true =>
              have : p x = false := by simpa using hc
              simp [List.dropWhile_cons, this]
          simp only [stdEvalSt, applyCell, hx, Bool.false_eq_true, if_false]
          exact h1 xs
      | zip l0 =>
        have ih' := ih (by simpa [NoRev] using hnr)
        obtain ⟨⟨l, rfl⟩, _⟩ : (∃ l, k = .lst l) ∧ WF r st := by simpa [WF] using hw
        simp only [feed, pop] at he
        cases l with
        | nil =>
          simp only [Bool.false_eq_true, if_false] at he
          simp only [Prod.mk.injEq] at he; obtain ⟨rfl, rfl, rfl⟩ := he
          refine ⟨hw, ?_⟩
          intro xs
          simp [stdEvalSt, applyCell, zipVals, stdEvalSt_nil]
        | cons e l' =>
          simp only [Bool.false_eq_true, if_false] at he
          rcases hf : feed r false st (.pair x e) with ⟨s1, o1, b1⟩
          rw [hf] at he; simp only [Prod.mk.injEq] at he; obtain ⟨rfl, rfl, rfl⟩ := he
          obtain ⟨hw1, h1⟩ := ih' st _ s1 o1 b1 hwr hf
          refine ⟨by simp [WF, hw1], ?_⟩
          intro xs
          simp only [stdEvalSt, applyCell, zipVals]
          exact h1 _
      | flatMap f =>
        have ih' := ih (by simpa [NoRev] using hnr)
        simp only [feed, walk] at he
        rcases hf : foldItems (feed r false) st (f x) with ⟨s1, o1, b1⟩
        simp only [Bool.false_eq_true, if_false] at he
        rw [hf] at he; simp only [Prod.mk.injEq] at he; obtain ⟨rfl, rfl, rfl⟩ := he
        obtain ⟨hw1, h1⟩ := many_of_step r ih' (f x) st s1 o1 b1 hwr hf
        refine ⟨by simpa [WF] using hw1, ?_⟩
        intro xs
        have e1 : stdEvalSt (.flatMap f :: r) (k :: st) (x :: xs) = stdEvalSt r st (f x ++ xs.flatMap f) := by
          cases k <;> simp [stdEvalSt, applyCell, applyAd, List.flatMap_cons]
        have e2 : stdEvalSt (.flatMap f :: r) (k :: s1) xs = stdEvalSt r s1 (xs.flatMap f) := by
          cases k <;> simp [stdEvalSt, applyCell, applyAd]
        rw [e1, e2]
        exact h1 _
      | flatten =>
        have ih' := ih (by simpa [NoRev] using hnr)
        simp only [feed, walk] at he
        rcases hf : foldItems (feed r false) st (unseq x) with ⟨s1, o1, b1⟩
        simp only [Bool.false_eq_true, if_false] at he
        rw [hf] at he; simp only [Prod.mk.injEq] at he; obtain ⟨rfl, rfl, rfl⟩ := he
        obtain ⟨hw1, h1⟩ := many_of_step r ih' (unseq x) st s1 o1 b1 hwr hf
        refine ⟨by simpa [WF] using hw1, ?_⟩
        intro xs
        have e1 : stdEvalSt (.flatten :: r) (k :: st) (x :: xs) = stdEvalSt r st (unseq x ++ xs.flatMap unseq) := by
          cases k <;> simp [stdEvalSt, applyCell, applyAd, List.flatMap_cons]
        have e2 : stdEvalSt (.flatten :: r) (k :: s1) xs = stdEvalSt r s1 (xs.flatMap unseq) := by
          cases k <;> simp [stdEvalSt, applyCell, applyAd]
        rw [e1, e2]
        exact h1 _


/-! ## stage 2: the direction token -/

/-- the rev-free chain that, driven forwards, does what `c` does under direction `d`:
    `rev` becomes a no-op that keeps the state aligned; inner iterators and zip arguments that are
    walked by `next_back` are reversed -/
def fwd : List Ad → Bool → List Ad
  | [], _ => []
  | .rev :: r, d => .copied :: fwd r (!d)
  | .flatMap f :: r, d => .flatMap (fun x => walk d (f x)) :: fwd r d
  | .flatten :: r, d => .flatMap (fun x => walk d (unseq x)) :: fwd r d
  | .zip l :: r, d => .zip (walk d l) :: fwd r d
  | .copied :: r, d => .copied :: fwd r d
  | .enumerate :: r, d => .enumerate :: fwd r d
  | .filter p :: r, d => .filter p :: fwd r d
  | .filterMap f :: r, d => .filterMap f :: fwd r d
  | .map f :: r, d => .map f :: fwd r d
  | .skip k :: r, d => .skip k :: fwd r d
  | .skipWhile p :: r, d => .skipWhile p :: fwd r d
  | .take k :: r, d => .take k :: fwd r d
  | .takeWhile p :: r, d => .takeWhile p :: fwd r d

def walkCell (d : Bool) : Cell → Cell
  | .lst l => .lst (walk d l)
  | c => c

/-- the state of `fwd c d` that corresponds to a state of `c`: zip cells are mirrored -/
def fwdSt : List Ad → Bool → St → St
  | [], _, st => st
  | _ :: _, _, [] => []
  | .rev :: r, d, c :: st => c :: fwdSt r (!d) st
  | .zip _ :: r, d, c :: st => walkCell d c :: fwdSt r d st
  | .copied :: r, d, c :: st => c :: fwdSt r d st
  | .enumerate :: r, d, c :: st => c :: fwdSt r d st
  | .filter _ :: r, d, c :: st => c :: fwdSt r d st
  | .filterMap _ :: r, d, c :: st => c :: fwdSt r d st
  | .flatMap _ :: r, d, c :: st => c :: fwdSt r d st
  | .flatten :: r, d, c :: st => c :: fwdSt r d st
  | .map _ :: r, d, c :: st => c :: fwdSt r d st
  | .skip _ :: r, d, c :: st => c :: fwdSt r d st
  | .skipWhile _ :: r, d, c :: st => c :: fwdSt r d st
  | .take _ :: r, d, c :: st => c :: fwdSt r d st
  | .takeWhile _ :: r, d, c :: st => c :: fwdSt r d st

def mapSt (g : St → St) : St × List Val × Bool → St × List Val × Bool
  | (s, o, b) => (g s, o, b)

theorem pop_walk (d : Bool) (l : List Val) :
    pop false (walk d l) = (pop d l).map (fun p => (p.1, walk d p.2)) := by
  cases d with
  | false => cases l <;> simp [pop, walk]
  | true =>
    rcases List.eq_nil_or_concat l with rfl | ⟨l', e, rfl⟩
    · simp [pop, walk]
    · simp [pop, walk]

theorem foldItems_congr (g : St → St) (s1 s2 : St → Val → St × List Val × Bool)
    (h : ∀ st x, s2 (g st) x = mapSt g (s1 st x)) :
    ∀ ys st, foldItems s2 (g st) ys = mapSt g (foldItems s1 st ys) := by
  intro ys
  induction ys with
  | nil => intro st; simp [foldItems, mapSt]
  | cons y ys ih =>
    intro st
    simp only [foldItems]
    rw [h st y]
    rcases hs : s1 st y with ⟨a, o, b⟩
    cases b with
    | true => simp [mapSt]
    | false =>
      simp only [mapSt]
      rw [ih a]
      rcases foldItems s1 a ys with ⟨a2, o2, b2⟩
      simp [mapSt]

private theorem mapSt_cons (k : Cell) (g : St → St) (r : St × List Val × Bool) :
    (match mapSt g r with | (s, o, b) => (k :: s, o, b)) =
      mapSt (fun s => match s with | [] => [] | c :: s' => c :: g s') (match r with | (s, o, b) => (k :: s, o, b)) := by
  rcases r with ⟨s, o, b⟩; simp [mapSt]

theorem feed_fwd : ∀ (c : List Ad) (d : Bool) (st : St) (x : Val),
    feed (fwd c d) false (fwdSt c d st) x = mapSt (fwdSt c d) (feed c d st x) := by
  intro c
  induction c with
  | nil => intro d st x; simp [feed, fwd, fwdSt, mapSt]
  | cons a r ih =>
    intro d st x
    cases st with
    | nil => cases a <;> simp [feed, fwd, fwdSt, mapSt]
    | cons k st =>
      cases a with
      | rev =>
        simp only [feed, fwd, fwdSt, ih (!d) st x]
        rcases feed r (!d) st x with ⟨s, o, b⟩; simp [mapSt, fwdSt]
      | copied =>
        simp only [feed, fwd, fwdSt, ih d st x]
        rcases feed r d st x with ⟨s, o, b⟩; simp [mapSt, fwdSt]
      | map f =>
        simp only [feed, fwd, fwdSt, ih d st (f x)]
        rcases feed r d st (f x) with ⟨s, o, b⟩; simp [mapSt, fwdSt]
      | filter p =>
        simp only [feed, fwd, fwdSt]
        by_cases hp : p x = true
        · simp only [hp, if_true, ih d st x]
          rcases feed r d st x with ⟨s, o, b⟩; simp [mapSt, fwdSt]
        · simp [hp, mapSt, fwdSt]
      | filterMap f =>
        simp only [feed, fwd, fwdSt]
        cases hfx : f x with
        | some y =>
          simp only [ih d st y]
          rcases feed r d st y with ⟨s, o, b⟩; simp [mapSt, fwdSt]
        | none => simp [mapSt, fwdSt]
      | takeWhile p =>
        simp only [feed, fwd, fwdSt]
        by_cases hp : p x = true
        · simp only [hp, if_true, ih d st x]
          rcases feed r d st x with ⟨s, o, b⟩; simp [mapSt, fwdSt]
        · simp [hp, mapSt, fwdSt]
      | enumerate =>
        cases k with
        | nat i =>
          simp only [feed, fwd, fwdSt, ih d st (.pair (.n i) x)]
          rcases feed r d st (.pair (.n i) x) with ⟨s, o, b⟩; simp [mapSt, fwdSt]
        | u => simp [feed, fwd, fwdSt, mapSt]
        | flag _ => simp [feed, fwd, fwdSt, mapSt]
        | lst _ => simp [feed, fwd, fwdSt, mapSt]
      | skip n =>
        cases k with
        | nat i =>
          simp only [feed, fwd, fwdSt]
          by_cases hk : i ≠ 0
          · simp [hk, mapSt, fwdSt]
          · simp only [hk, if_false, ih d st x]
            rcases feed r d st x with ⟨s, o, b⟩; simp [mapSt, fwdSt]
        | u => simp [feed, fwd, fwdSt, mapSt]
        | flag _ => simp [feed, fwd, fwdSt, mapSt]
        | lst _ => simp [feed, fwd, fwdSt, mapSt]
      | take n =>
        cases k with
        | nat i =>
          simp only [feed, fwd, fwdSt]
          by_cases hk : i = 0
          · simp [hk, mapSt, fwdSt]
          · simp only [hk, if_false, ih d st x]
            rcases feed r d st x with ⟨s, o, b⟩; simp [mapSt, fwdSt]
        | u => simp [feed, fwd, fwdSt, mapSt]
        | flag _ => simp [feed, fwd, fwdSt, mapSt]
        | lst _ => simp [feed, fwd, fwdSt, mapSt]
      | skipWhile p =>
        cases k with
        | flag s =>
          simp only [feed, fwd, fwdSt]
          by_cases hc : (s && p x) = true
          · simp [hc, mapSt, fwdSt]
          · simp only [hc, if_false, ih d st x]
            rcases feed r d st x with ⟨s', o, b⟩; simp [mapSt, fwdSt]
        | u => simp [feed, fwd, fwdSt, mapSt]
        | nat _ => simp [feed, fwd, fwdSt, mapSt]
        | lst _ => simp [feed, fwd, fwdSt, mapSt]
      | zip l0 =>
        cases k with
        | lst l =>
          simp only [feed, fwd, fwdSt, walkCell, pop_walk]
          cases hp : pop d l with
          | none => simp [mapSt, fwdSt, walkCell]
          | some pr =>
            obtain ⟨e, l'⟩ := pr
            simp only [Option.map_some, ih d st (.pair x e)]
            rcases feed r d st (.pair x e) with ⟨s, o, b⟩; simp [mapSt, fwdSt, walkCell]
        | u => simp [feed, fwd, fwdSt, mapSt, walkCell]
        | nat _ => simp [feed, fwd, fwdSt, mapSt, walkCell]
        | flag _ => simp [feed, fwd, fwdSt, mapSt, walkCell]
      | flatMap f =>
        simp only [feed, fwd, fwdSt]
        have hw : walk false (walk d (f x)) = walk d (f x) := by simp [walk]
        rw [hw, foldItems_congr (fwdSt r d) (feed r d) (feed (fwd r d) false) (ih d)]
        rcases foldItems (feed r d) st (walk d (f x)) with ⟨s, o, b⟩; simp [mapSt, fwdSt]
      | flatten =>
        simp only [feed, fwd, fwdSt]
        have hw : walk false (walk d (unseq x)) = walk d (unseq x) := by simp [walk]
        rw [hw, foldItems_congr (fwdSt r d) (feed r d) (feed (fwd r d) false) (ih d)]
        rcases foldItems (feed r d) st (walk d (unseq x)) with ⟨s, o, b⟩; simp [mapSt, fwdSt]

theorem fwd_noRev : ∀ (c : List Ad) (d : Bool), NoRev (fwd c d) := by
  intro c; induction c with
  | nil => intro d; simp [fwd, NoRev]
  | cons a r ih => intro d; cases a <;> simp [fwd, NoRev, ih]

theorem fwdSt_init : ∀ (c : List Ad) (d : Bool), fwdSt c d (initSt c) = initSt (fwd c d) := by
  intro c; induction c with
  | nil => intro d; rfl
  | cons a r ih => intro d; cases a <;> simp [fwd, fwdSt, initSt, ih, walkCell]

/-! ## stage 3: the outer loop and the consumer -/

theorem consMany_append (c : Cons) : ∀ (l1 l2 : List Val) (a : CAcc),
    consMany c a (l1 ++ l2) =
      match consMany c a l1 with
      | (a', true) => (a', true)
      | (a', false) => consMany c a' l2 := by
  intro l1
  induction l1 with
  | nil => intro l2 a; simp [consMany]
  | cons x xs ih =>
    intro l2 a
    simp only [List.cons_append, consMany]
    rcases consStep c a x with ⟨a', b⟩
    cases b with
    | true => simp
    | false => simpa using ih l2 a'

/-- the loop driven forwards over a rev-free chain = the consumer code run (with early break)
    over the items the std chain yields -/
theorem runLoop_fwd (c : List Ad) (hnr : NoRev c) (cons : Cons) :
    ∀ (xs : List Val) (st : St) (a : CAcc), WF c st →
      runLoop c false cons st a xs = (consMany cons a (stdEvalSt c st xs)).1 := by
  intro xs
  induction xs with
  | nil => intro st a _; simp [runLoop, stdEvalSt_nil, consMany]
  | cons x xs ih =>
    intro st a hw
    simp only [runLoop]
    rcases hf : feed c false st x with ⟨s1, o1, b1⟩
    obtain ⟨hw1, h1⟩ := stepOK c hnr st x s1 o1 b1 hw hf
    rw [h1 xs, consMany_append]
    dsimp only
    rcases hc : consMany cons a o1 with ⟨a', cb⟩
    cases cb with
    | true => simp
    | false =>
      cases b1 with
      | true => simp [consMany]
      | false => simp [ih s1 a' hw1]

/-- the loop with a direction token = the forward loop of the normalised chain -/
theorem runLoop_dir (c : List Ad) (d : Bool) (cons : Cons) :
    ∀ (xs : List Val) (st : St) (a : CAcc),
      runLoop c d cons st a xs = runLoop (fwd c d) false cons (fwdSt c d st) a xs := by
  intro xs
  induction xs with
  | nil => intro st a; simp [runLoop]
  | cons x xs ih =>
    intro st a
    simp only [runLoop, feed_fwd]
    rcases feed c d st x with ⟨s1, o1, b1⟩
    simp only [mapSt]
    rcases consMany cons a o1 with ⟨a', cb⟩
    cases cb with
    | true => rfl
    | false =>
      cases b1 with
      | true => rfl
      | false => simp [ih s1 a']

/-- the consumer applied to the items *in iteration order* (what the consumer code computes):
    `rfind`/`rfold`/`rposition` behave as `find`/`fold`/`position` on the order they are fed -/
def iterConsume : Cons → List Val → Res
  | .rfind p, l => .opt (l.find? p)
  | .rfold i f, l => .val (l.foldl f i)
  | .rposition p, l => .onat (l.findIdx? p)
  | c, l => stdConsume c l

theorem consMany_iterConsume (c : Cons) (l : List Val) :
    (consMany c (consInit c) l).1.ret = iterConsume c l := by
  cases c with
  | forEach =>
    have : ∀ (l l0 : List Val) (k : Nat), (consMany .forEach ⟨.items l0, k⟩ l).1.ret = .items (l0 ++ l) := by
      intro l; induction l with
      | nil => intro l0 k; simp [consMany]
      | cons x xs ih => intro l0 k; simp [consMany, consStep, ih]
    simpa [consInit, iterConsume, stdConsume] using this l [] 0
  | collect =>
    have : ∀ (l l0 : List Val) (k : Nat), (consMany .collect ⟨.items l0, k⟩ l).1.ret = .items (l0 ++ l) := by
      intro l; induction l with
      | nil => intro l0 k; simp [consMany]
      | cons x xs ih => intro l0 k; simp [consMany, consStep, ih]
    simpa [consInit, iterConsume, stdConsume] using this l [] 0
  | all p =>
    have : ∀ (l : List Val) (k : Nat), (consMany (.all p) ⟨.bool true, k⟩ l).1.ret = .bool (l.all p) := by
      intro l; induction l with
      | nil => intro k; simp [consMany]
      | cons x xs ih =>
        intro k
        by_cases hp : p x = true <;> simp [consMany, consStep, hp, ih]
    simpa [consInit, iterConsume, stdConsume] using this l 0
  | any p =>
    have : ∀ (l : List Val) (k : Nat), (consMany (.any p) ⟨.bool false, k⟩ l).1.ret = .bool (l.any p) := by
      intro l; induction l with
      | nil => intro k; simp [consMany]
      | cons x xs ih =>
        intro k
        by_cases hp : p x = true <;> simp [consMany, consStep, hp, ih]
    simpa [consInit, iterConsume, stdConsume] using this l 0
  | count =>
    have : ∀ (l : List Val) (n k : Nat), (consMany .count ⟨.nat n, k⟩ l).1.ret = .nat (n + l.length) := by
      intro l; induction l with
      | nil => intro n k; simp [consMany]
      | cons x xs ih => intro n k; simp [consMany, consStep, ih]; omega
    simpa [consInit, iterConsume, stdConsume] using this l 0 0
  | find p =>
    have : ∀ (l : List Val) (k : Nat), (consMany (.find p) ⟨.opt none, k⟩ l).1.ret = .opt (l.find? p) := by
      intro l; induction l with
      | nil => intro k; simp [consMany]
      | cons x xs ih =>
        intro k
        by_cases hp : p x = true <;> simp [consMany, consStep, hp, ih, List.find?_cons]
    simpa [consInit, iterConsume, stdConsume] using this l 0
  | rfind p =>
    have : ∀ (l : List Val) (k : Nat), (consMany (.rfind p) ⟨.opt none, k⟩ l).1.ret = .opt (l.find? p) := by
      intro l; induction l with
      | nil => intro k; simp [consMany]
      | cons x xs ih =>
        intro k
        by_cases hp : p x = true <;> simp [consMany, consStep, hp, ih, List.find?_cons]
    simpa [consInit, iterConsume] using this l 0
  | findMap f =>
    have : ∀ (l : List Val) (k : Nat), (consMany (.findMap f) ⟨.opt none, k⟩ l).1.ret = .opt (l.findSome? f) := by
      intro l; induction l with
      | nil => intro k; simp [consMany]
      | cons x xs ih =>
        intro k
        cases hf : f x <;> simp [consMany, consStep, hf, ih, List.findSome?_cons]
    simpa [consInit, iterConsume, stdConsume] using this l 0
  | fold i f =>
    have : ∀ (l : List Val) (acc : Val) (k : Nat), (consMany (.fold i f) ⟨.val acc, k⟩ l).1.ret = .val (l.foldl f acc) := by
      intro l; induction l with
      | nil => intro acc k; simp [consMany]
      | cons x xs ih => intro acc k; simp [consMany, consStep, ih]
    simpa [consInit, iterConsume, stdConsume] using this l i 0
  | rfold i f =>
    have : ∀ (l : List Val) (acc : Val) (k : Nat), (consMany (.rfold i f) ⟨.val acc, k⟩ l).1.ret = .val (l.foldl f acc) := by
      intro l; induction l with
      | nil => intro acc k; simp [consMany]
      | cons x xs ih => intro acc k; simp [consMany, consStep, ih]
    simpa [consInit, iterConsume] using this l i 0
  | next =>
    cases l <;> simp [consMany, consStep, consInit, iterConsume, stdConsume]
  | nth n =>
    have : ∀ (l : List Val) (k : Nat), (consMany (.nth n) ⟨.opt none, k⟩ l).1.ret = .opt l[k]? := by
      intro l; induction l with
      | nil => intro k; simp [consMany]
      | cons x xs ih =>
        intro k
        cases k with
        | zero => simp [consMany, consStep]
        | succ j => simp [consMany, consStep, ih]
    simpa [consInit, iterConsume, stdConsume] using this l n
  | position p =>
    have : ∀ (l : List Val) (k : Nat), (consMany (.position p) ⟨.onat none, k⟩ l).1.ret
        = .onat ((l.findIdx? p).map (· + k)) := by
      intro l; induction l with
      | nil => intro k; simp [consMany]
      | cons x xs ih =>
        intro k
        by_cases hp : p x = true
        · simp [consMany, consStep, hp, List.findIdx?_cons]
        · simp [consMany, consStep, hp, List.findIdx?_cons, ih]
          cases List.findIdx? p xs <;> simp; omega
    simpa [consInit, iterConsume, stdConsume] using this l 0
  | rposition p =>
    have : ∀ (l : List Val) (k : Nat), (consMany (.rposition p) ⟨.onat none, k⟩ l).1.ret
        = .onat ((l.findIdx? p).map (· + k)) := by
      intro l; induction l with
      | nil => intro k; simp [consMany]
      | cons x xs ih =>
        intro k
        by_cases hp : p x = true
        · simp [consMany, consStep, hp, List.findIdx?_cons]
        · simp [consMany, consStep, hp, List.findIdx?_cons, ih]
          cases List.findIdx? p xs <;> simp; omega
    simpa [consInit, iterConsume] using this l 0


/-! ## stage 4: the literal loop nest (`feedK`) = items-then-consumer (`feed` + `consMany`) -/

/-- relation between the two formulations of one turn of a (sub)loop -/
def KSpec (cons : Cons) (step : St → Val → St × List Val × Bool)
    (stepK : St → CAcc → Val → St × CAcc × Bool) : Prop :=
  ∀ st a x st' out b a' cb, step st x = (st', out, b) → consMany cons a out = (a', cb) →
    ∃ st'', stepK st a x = (st'', a', cb || b) ∧ (cb = false → st'' = st')

theorem foldK_of_stepK (cons : Cons) (step : St → Val → St × List Val × Bool)
    (stepK : St → CAcc → Val → St × CAcc × Bool) (h : KSpec cons step stepK) :
    ∀ ys st a st' out b a' cb, foldItems step st ys = (st', out, b) → consMany cons a out = (a', cb) →
      ∃ st'', foldItemsK stepK st a ys = (st'', a', cb || b) ∧ (cb = false → st'' = st') := by
  intro ys
  induction ys with
  | nil =>
    intro st a st' out b a' cb hf hc
    simp only [foldItems, Prod.mk.injEq] at hf
    obtain ⟨rfl, rfl, rfl⟩ := hf
    simp only [consMany, Prod.mk.injEq] at hc
    obtain ⟨rfl, rfl⟩ := hc
    exact ⟨st, by simp [foldItemsK], fun _ => rfl⟩
  | cons y ys ih =>
    intro st a st' out b a' cb hf hc
    simp only [foldItems] at hf
    rcases hs : step st y with ⟨s1, o1, b1⟩
    rw [hs] at hf
    cases b1 with
    | true =>
      simp only [Prod.mk.injEq] at hf
      obtain ⟨rfl, rfl, rfl⟩ := hf
      obtain ⟨s1'', hk, hst⟩ := h st a y s1 o1 true a' cb hs hc
      refine ⟨s1'', ?_, hst⟩
      simp only [foldItemsK, hk, Bool.or_true]
    | false =>
      dsimp only at hf
      rcases hfo : foldItems step s1 ys with ⟨s2, o2, b2⟩
      rw [hfo] at hf
      simp only [Prod.mk.injEq] at hf
      obtain ⟨rfl, rfl, rfl⟩ := hf
      rw [consMany_append] at hc
      rcases hc1 : consMany cons a o1 with ⟨a1, cb1⟩
      rw [hc1] at hc
      obtain ⟨s1'', hk, hst⟩ := h st a y s1 o1 false a1 cb1 hs hc1
      cases cb1 with
      | true =>
        simp only [Prod.mk.injEq] at hc
        obtain ⟨rfl, rfl⟩ := hc
        refine ⟨s1'', ?_, fun h => by simp at h⟩
        simp only [foldItemsK, hk, Bool.or_false, Bool.true_or]
      | false =>
        dsimp only at hc
        have e := hst rfl
        subst e
        obtain ⟨s2'', hk2, hst2⟩ := ih s1'' a1 s2 o2 b2 a' cb hfo hc
        refine ⟨s2'', ?_, hst2⟩
        simp only [foldItemsK, hk, Bool.or_false, hk2]

private theorem pass_through {cons : Cons} {step : St → Val → St × List Val × Bool}
    {stepK : St → CAcc → Val → St × CAcc × Bool} (ih : KSpec cons step stepK)
    {st : St} {y : Val} {k' : Cell} {a : CAcc} {st' : St} {out : List Val} {b : Bool} {a' : CAcc} {cb : Bool}
    (hf : (match step st y with | (s, o, b) => (k' :: s, o, b)) = (st', out, b))
    (hc : consMany cons a out = (a', cb)) :
    ∃ st'', (match stepK st a y with | (s, a2, b2) => (k' :: s, a2, b2)) = (st'', a', cb || b) ∧
      (cb = false → st'' = st') := by
  rcases hs : step st y with ⟨s1, o1, b1⟩
  rw [hs] at hf
  simp only [Prod.mk.injEq] at hf
  obtain ⟨rfl, rfl, rfl⟩ := hf
  obtain ⟨s1'', hk, hst⟩ := ih st a y s1 o1 b1 a' cb hs hc
  exact ⟨k' :: s1'', by rw [hk], fun h => by rw [hst h]⟩

private theorem stop_here {cons : Cons} {a a' : CAcc} {cb : Bool} {s : St} (b : Bool)
    (hc : consMany cons a [] = (a', cb)) :
    ∃ st'', ((s, a, b) : St × CAcc × Bool) = (st'', a', cb || b) ∧ (cb = false → st'' = s) := by
  simp only [consMany, Prod.mk.injEq] at hc
  obtain ⟨rfl, rfl⟩ := hc
  exact ⟨s, by simp, fun _ => rfl⟩

private theorem stop_here' {cons : Cons} {a a' : CAcc} {cb : Bool} {s : St} (b : Bool)
    (hc : consMany cons a [] = (a', cb)) :
    ∃ st'', (s = st'' ∧ a = a' ∧ b = (cb || b)) ∧ (cb = false → st'' = s) := by
  simp only [consMany, Prod.mk.injEq] at hc
  obtain ⟨rfl, rfl⟩ := hc
  exact ⟨s, by simp, fun _ => rfl⟩

theorem feedK_spec (cons : Cons) : ∀ (c : List Ad) (d : Bool), KSpec cons (feed c d) (feedK cons c d) := by
  intro c
  induction c with
  | nil =>
    intro d
    unfold KSpec
    intro st a x st' out b a' cb hf hc
    simp only [feed, Prod.mk.injEq] at hf
    obtain ⟨rfl, rfl, rfl⟩ := hf
    simp only [consMany] at hc
    rcases hs : consStep cons a x with ⟨a1, b1⟩
    rw [hs] at hc
    refine ⟨st, ?_, fun _ => rfl⟩
    cases b1 with
    | true =>
      simp only [Prod.mk.injEq] at hc
      obtain ⟨rfl, rfl⟩ := hc
      simp [feedK, hs]
    | false =>
      simp only [consMany, Prod.mk.injEq] at hc
      obtain ⟨rfl, rfl⟩ := hc
      simp [feedK, hs]
  | cons ad r ih =>
    intro d
    unfold KSpec
    intro st a x st' out b a' cb hf hc
    cases st with
    | nil =>
      cases ad <;> (
        simp only [feed, Prod.mk.injEq] at hf
        obtain ⟨rfl, rfl, rfl⟩ := hf
        simp only [feedK]
        exact stop_here true hc)
    | cons k st =>
      cases ad with
      | copied => simp only [feed] at hf; simp only [feedK]; exact pass_through (ih d) hf hc
      | map f => simp only [feed] at hf; simp only [feedK]; exact pass_through (ih d) hf hc
      | rev => simp only [feed] at hf; simp only [feedK]; exact pass_through (ih (!d)) hf hc
      | filter p =>
        simp only [feed] at hf; simp only [feedK]
        by_cases hp : p x = true
        · simp only [hp, if_true] at hf ⊢; exact pass_through (ih d) hf hc
        · simp only [hp, if_false, Bool.false_eq_true, Prod.mk.injEq] at hf ⊢
          obtain ⟨rfl, rfl, rfl⟩ := hf
          exact stop_here' false hc
      | takeWhile p =>
        simp only [feed] at hf; simp only [feedK]
        by_cases hp : p x = true
        · simp only [hp, if_true] at hf ⊢; exact pass_through (ih d) hf hc
        · simp only [hp, if_false, Bool.false_eq_true, Prod.mk.injEq] at hf ⊢
          obtain ⟨rfl, rfl, rfl⟩ := hf
          exact stop_here' true hc
      | filterMap f =>
        simp only [feed] at hf; simp only [feedK]
        cases hfx : f x with
        | some y => simp only [hfx] at hf ⊢; exact pass_through (ih d) hf hc
        | none =>
          simp only [hfx, Prod.mk.injEq] at hf ⊢
          obtain ⟨rfl, rfl, rfl⟩ := hf
          exact stop_here' false hc
      | enumerate =>
        cases k with
        | nat i => simp only [feed] at hf; simp only [feedK]; exact pass_through (ih d) hf hc
        | u => simp only [feed, Prod.mk.injEq] at hf; obtain ⟨rfl, rfl, rfl⟩ := hf; simp only [feedK]; exact stop_here true hc
        | flag _ => simp only [feed, Prod.mk.injEq] at hf; obtain ⟨rfl, rfl, rfl⟩ := hf; simp only [feedK]; exact stop_here true hc
        | lst _ => simp only [feed, Prod.mk.injEq] at hf; obtain ⟨rfl, rfl, rfl⟩ := hf; simp only [feedK]; exact stop_here true hc
      | skip n =>
        cases k with
        | nat i =>
          simp only [feed] at hf; simp only [feedK]
          by_cases hk : i ≠ 0
          · simp only [hk, if_true, ne_eq, not_false_eq_true, Prod.mk.injEq] at hf ⊢
            obtain ⟨rfl, rfl, rfl⟩ := hf
            exact stop_here' false hc
          · simp only [hk, if_false] at hf ⊢; exact pass_through (ih d) hf hc
        | u => simp only [feed, Prod.mk.injEq] at hf; obtain ⟨rfl, rfl, rfl⟩ := hf; simp only [feedK]; exact stop_here true hc
        | flag _ => simp only [feed, Prod.mk.injEq] at hf; obtain ⟨rfl, rfl, rfl⟩ := hf; simp only [feedK]; exact stop_here true hc
        | lst _ => simp only [feed, Prod.mk.injEq] at hf; obtain ⟨rfl, rfl, rfl⟩ := hf; simp only [feedK]; exact stop_here true hc
      | take n =>
        cases k with
        | nat i =>
          simp only [feed] at hf; simp only [feedK]
          by_cases hk : i = 0
          · simp only [hk, if_true, Prod.mk.injEq] at hf ⊢
            obtain ⟨rfl, rfl, rfl⟩ := hf
            exact stop_here' true hc
          · simp only [hk, if_false] at hf ⊢; exact pass_through (ih d) hf hc
        | u => simp only [feed, Prod.mk.injEq] at hf; obtain ⟨rfl, rfl, rfl⟩ := hf; simp only [feedK]; exact stop_here true hc
        | flag _ => simp only [feed, Prod.mk.injEq] at hf; obtain ⟨rfl, rfl, rfl⟩ := hf; simp only [feedK]; exact stop_here true hc
        | lst _ => simp only [feed, Prod.mk.injEq] at hf; obtain ⟨rfl, rfl, rfl⟩ := hf; simp only [feedK]; exact stop_here true hc
      | skipWhile p =>
        cases k with
        | flag s =>
          simp only [feed] at hf; simp only [feedK]
          by_cases hcnd : (s && p x) = true
          · simp only [hcnd, if_true, Prod.mk.injEq] at hf ⊢
            obtain ⟨rfl, rfl, rfl⟩ := hf
            exact stop_here' false hc
          · simp only [hcnd, if_false, Bool.false_eq_true] at hf ⊢; exact pass_through (ih d) hf hc
        | u => simp only [feed, Prod.mk.injEq] at hf; obtain ⟨rfl, rfl, rfl⟩ := hf; simp only [feedK]; exact stop_here true hc
        | nat _ => simp only [feed, Prod.mk.injEq] at hf; obtain ⟨rfl, rfl, rfl⟩ := hf; simp only [feedK]; exact stop_here true hc
        | lst _ => simp only [feed, Prod.mk.injEq] at hf; obtain ⟨rfl, rfl, rfl⟩ := hf; simp only [feedK]; exact stop_here true hc
      | zip l0 =>
        cases k with
        | lst l =>
          simp only [feed] at hf; simp only [feedK]
          cases hp : pop d l with
          | none =>
            simp only [hp, Prod.mk.injEq] at hf ⊢
            obtain ⟨rfl, rfl, rfl⟩ := hf
            exact stop_here' true hc
          | some pr =>
            obtain ⟨e, l'⟩ := pr
            simp only [hp] at hf ⊢; exact pass_through (ih d) hf hc
        | u => simp only [feed, Prod.mk.injEq] at hf; obtain ⟨rfl, rfl, rfl⟩ := hf; simp only [feedK]; exact stop_here true hc
        | nat _ => simp only [feed, Prod.mk.injEq] at hf; obtain ⟨rfl, rfl, rfl⟩ := hf; simp only [feedK]; exact stop_here true hc
        | flag _ => simp only [feed, Prod.mk.injEq] at hf; obtain ⟨rfl, rfl, rfl⟩ := hf; simp only [feedK]; exact stop_here true hc
      | flatMap f =>
        simp only [feed] at hf; simp only [feedK]
        have hfold : KSpec cons (fun s y => foldItems (feed r d) s (walk d (f y)))
            (fun s a y => foldItemsK (feedK cons r d) s a (walk d (f y))) := by
          intro s a0 y s' o bb a1 cb1 h1 h2
          exact foldK_of_stepK cons _ _ (ih d) (walk d (f y)) s a0 s' o bb a1 cb1 h1 h2
        exact pass_through (step := fun s y => foldItems (feed r d) s (walk d (f y)))
          (stepK := fun s a y => foldItemsK (feedK cons r d) s a (walk d (f y))) hfold hf hc
      | flatten =>
        simp only [feed] at hf; simp only [feedK]
        have hfold : KSpec cons (fun s y => foldItems (feed r d) s (walk d (unseq y)))
            (fun s a y => foldItemsK (feedK cons r d) s a (walk d (unseq y))) := by
          intro s a0 y s' o bb a1 cb1 h1 h2
          exact foldK_of_stepK cons _ _ (ih d) (walk d (unseq y)) s a0 s' o bb a1 cb1 h1 h2
        exact pass_through (step := fun s y => foldItems (feed r d) s (walk d (unseq y)))
          (stepK := fun s a y => foldItemsK (feedK cons r d) s a (walk d (unseq y))) hfold hf hc

/-- the literal loop nest computes what the items-then-consumer loop computes -/
theorem runLoopK_eq (c : List Ad) (d : Bool) (cons : Cons) :
    ∀ (xs : List Val) (st : St) (a : CAcc), runLoopK c d cons st a xs = runLoop c d cons st a xs := by
  intro xs
  induction xs with
  | nil => intro st a; rfl
  | cons x xs ih =>
    intro st a
    simp only [runLoopK, runLoop]
    rcases hf : feed c d st x with ⟨s1, o1, b1⟩
    rcases hc : consMany cons a o1 with ⟨a1, cb1⟩
    obtain ⟨s1'', hk, hst⟩ := feedK_spec cons c d st a x s1 o1 b1 a1 cb1 hf hc
    rw [hk]
    cases cb1 with
    | true => simp
    | false =>
      have e := hst rfl
      subst e
      cases b1 with
      | true => simp
      | false => simp [ih]

theorem konstEvalK_eq (c : List Ad) (cons : Cons) (src : List Val) :
    konstEvalK c cons src = konstEval c cons src := by
  unfold konstEvalK konstEval
  simp only [runLoopK_eq]

end Konst.Iter.Lemmas
