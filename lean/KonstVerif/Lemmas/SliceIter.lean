import KonstVerif.Model.SliceIter
import KonstVerif.Spec.SliceIter
import KonstVerif.Props.C02
import KonstVerif.Lemmas.Deque
import KonstVerif.Lemmas.SliceIterSpec
/-
  Helper development for C08:
    1. the konst slice functions on element lists (`splitAtL` …) are `take`/`drop` (from the C02 theorems);
    2. `DEInv`: a pair of `iterator_shared!` blocks with an abstraction to a list and an invariant, whose
       `next` block pops the front and whose `next_back` block pops the back; generic refinement
       theorems for `It.run` / `It.runX` (every history, both struct types, `.rev()` between steps);
    3. the `DEInv` instance of every iterator (the facts about the std specification lists they
       rest on are in Lemmas/SliceIterSpec.lean), and the abstraction of every constructor's result.
-/
namespace Konst.SliceIter

open Konst Konst.Slice Konst.Spec

variable {α : Type}

/-! ### 1. slice functions on lists -/

theorem splitAtL_eq (s : List α) (at_ : Nat) : splitAtL s at_ = (s.take at_, s.drop at_) := by
  have h := Konst.Props.C02.splitAt_eq s at_
  unfold splitAtL
  simp only []
  rw [h]
  unfold stdSplitAt
  by_cases hle : at_ ≤ s.length
  · simp [hle]
  · have : s.length ≤ at_ := by omega
    simp [hle, List.take_of_length_le this, List.drop_eq_nil_of_le this]

theorem sliceUpToL_eq (s : List α) (n : Nat) : sliceUpToL s n = s.take n := by
  unfold sliceUpToL
  rw [Konst.Props.C02.sliceUpTo_eq_std_or_clamp]
  unfold stdGetUpTo
  by_cases hle : n ≤ s.length
  · simp [hle]
  · have : s.length ≤ n := by omega
    simp [hle, List.take_of_length_le this]

theorem sliceFromL_eq (s : List α) (n : Nat) : sliceFromL s n = s.drop n := by
  unfold sliceFromL
  rw [Konst.Props.C02.sliceFrom_eq_std_or_clamp]
  unfold stdGetFrom
  by_cases hle : n ≤ s.length
  · simp [hle]
  · have : s.length ≤ n := by omega
    simp [hle, List.drop_eq_nil_of_le this]

/-! ### 2. blocks that refine a deque -/

/-- the two blocks of one `iterator_shared!` invocation together with: the list of items the fields
    still stand for (`abs`, front to back for the forward type), an invariant of the fields, and the
    one-step facts — under the invariant neither block panics, the `next` block pops the front of
    `abs`, the `next_back` block pops its back, and both keep the invariant. -/
structure DEInv (σ ι : Type) where
  blocks : Blocks σ ι
  abs : σ → List ι
  inv : σ → Prop
  next_ok : ∀ s, inv s → (blocks.nextBlock s = .none ∧ abs s = []) ∨
      (∃ x s', blocks.nextBlock s = .some x s' ∧ abs s = x :: abs s' ∧ inv s')
  back_ok : ∀ s, inv s → (blocks.nextBackBlock s = .none ∧ abs s = []) ∨
      (∃ x s', blocks.nextBackBlock s = .some x s' ∧ abs s = abs s' ++ [x] ∧ inv s')

/-- items an iterator value still has to yield, in the order ITS `next` yields them -/
def DEInv.absIt {σ ι : Type} (D : DEInv σ ι) (it : It σ) : List ι :=
  if it.fwd then D.abs it.fields else (D.abs it.fields).reverse

theorem popBack_concat {ι : Type} (q : List ι) (x : ι) : popBack (q ++ [x]) = (some x, q) := by
  simp [popBack]

theorem pop_nil {ι : Type} (d : Dir) : pop d ([] : List ι) = (none, []) := by
  cases d <;> simp [pop, popFront, popBack]

/-- one `next`/`next_back` call on either struct type is one pop of the deque -/
theorem DEInv.step_pop {σ ι : Type} (D : DEInv σ ι) (d : Dir) (it : It σ) (hi : D.inv it.fields) :
    (It.step D.blocks d it = .none ∧ D.absIt it = []) ∨
    (∃ x it', It.step D.blocks d it = .some x it' ∧ pop d (D.absIt it) = (some x, D.absIt it') ∧
      D.inv it'.fields ∧ it'.fwd = it.fwd) := by
  obtain ⟨fwd, s⟩ := it
  simp only at hi
  cases d <;> cases fwd
  · -- next on the Rev type = next_back block
    rcases D.back_ok s hi with ⟨h1, h2⟩ | ⟨x, s', h1, h2, h3⟩
    · left; simp [It.step, It.next, h1, Step.mapState, DEInv.absIt, h2]
    · right
      refine ⟨x, ⟨false, s'⟩, ?_, ?_, h3, rfl⟩
      · simp [It.step, It.next, h1, Step.mapState]
      · simp [DEInv.absIt, h2, pop, popFront]
  · rcases D.next_ok s hi with ⟨h1, h2⟩ | ⟨x, s', h1, h2, h3⟩
    · left; simp [It.step, It.next, h1, Step.mapState, DEInv.absIt, h2]
    · right
      refine ⟨x, ⟨true, s'⟩, ?_, ?_, h3, rfl⟩
      · simp [It.step, It.next, h1, Step.mapState]
      · simp [DEInv.absIt, h2, pop, popFront]
  · -- next_back on the Rev type = next block
    rcases D.next_ok s hi with ⟨h1, h2⟩ | ⟨x, s', h1, h2, h3⟩
    · left; simp [It.step, It.nextBack, h1, Step.mapState, DEInv.absIt, h2]
    · right
      refine ⟨x, ⟨false, s'⟩, ?_, ?_, h3, rfl⟩
      · simp [It.step, It.nextBack, h1, Step.mapState]
      · simp only [DEInv.absIt, h2, pop, Bool.false_eq_true, if_false, List.reverse_cons]
        exact popBack_concat _ _
  · rcases D.back_ok s hi with ⟨h1, h2⟩ | ⟨x, s', h1, h2, h3⟩
    · left; simp [It.step, It.nextBack, h1, Step.mapState, DEInv.absIt, h2]
    · right
      refine ⟨x, ⟨true, s'⟩, ?_, ?_, h3, rfl⟩
      · simp [It.step, It.nextBack, h1, Step.mapState]
      · simp only [DEInv.absIt, h2, pop, if_true]
        exact popBack_concat _ _

/-- `.rev()` reverses the order in which the remaining items come out -/
theorem DEInv.absIt_rev {σ ι : Type} (D : DEInv σ ι) (it : It σ) :
    D.absIt it.rev = (D.absIt it).reverse := by
  obtain ⟨fwd, s⟩ := it
  cases fwd <;> simp [DEInv.absIt, It.rev]

/-- every history of `next`/`next_back` calls: no panic, the results are the deque's, the final
    iterator stands for what is left of the deque, keeps the invariant and its type -/
theorem DEInv.run_refines {σ ι : Type} (D : DEInv σ ι) :
    ∀ (h : List Dir) (it : It σ), D.inv it.fields →
      ∃ it', It.run D.blocks it h = some (dequeRun (D.absIt it) h, it') ∧
        D.absIt it' = dequeRest (D.absIt it) h ∧ D.inv it'.fields ∧ it'.fwd = it.fwd := by
  intro h
  induction h with
  | nil => intro it hi; exact ⟨it, rfl, rfl, hi, rfl⟩
  | cons d h ih =>
    intro it hi
    rcases D.step_pop d it hi with ⟨h1, h2⟩ | ⟨x, it1, h1, h2, h3, h4⟩
    · obtain ⟨it', r1, r2, r3, r4⟩ := ih it hi
      refine ⟨it', ?_, ?_, r3, r4⟩
      · simp only [It.run, h1, r1, Option.map_some, dequeRun]
        rw [h2, pop_nil]
      · rw [r2, h2]; simp only [dequeRest, pop_nil]
    · obtain ⟨it', r1, r2, r3, r4⟩ := ih it1 h3
      refine ⟨it', ?_, ?_, r3, by rw [r4, h4]⟩
      · simp only [It.run, h1, r1, Option.map_some, dequeRun, h2]
      · rw [r2]; simp only [dequeRest, h2]

/-- the same with `.rev()` calls between the steps (`none` entries of the history) -/
theorem DEInv.runX_refines {σ ι : Type} (D : DEInv σ ι) :
    ∀ (h : List (Option Dir)) (it : It σ), D.inv it.fields →
      ∃ it', It.runX D.blocks it h = some (dequeRunX (D.absIt it) h, it') ∧
        D.absIt it' = dequeRestX (D.absIt it) h ∧ D.inv it'.fields := by
  intro h
  induction h with
  | nil => intro it hi; exact ⟨it, rfl, rfl, hi⟩
  | cons o h ih =>
    intro it hi
    cases o with
    | none =>
      obtain ⟨it', r1, r2, r3⟩ := ih it.rev hi
      refine ⟨it', ?_, ?_, r3⟩
      · simp only [It.runX, r1, dequeRunX, D.absIt_rev]
      · rw [r2]; simp only [dequeRestX, D.absIt_rev]
    | some d =>
      rcases D.step_pop d it hi with ⟨h1, h2⟩ | ⟨x, it1, h1, h2, h3, _⟩
      · obtain ⟨it', r1, r2, r3⟩ := ih it hi
        refine ⟨it', ?_, ?_, r3⟩
        · simp only [It.runX, h1, r1, Option.map_some, dequeRunX]
          rw [h2, pop_nil]
        · rw [r2, h2]; simp only [dequeRestX, pop_nil]
      · obtain ⟨it', r1, r2, r3⟩ := ih it1 h3
        refine ⟨it', ?_, ?_, r3⟩
        · simp only [It.runX, h1, r1, Option.map_some, dequeRunX, h2]
        · rw [r2]; simp only [dequeRestX, h2]

/-- the deque of Spec/SliceIter.lean is the deque of the generic development (Lemmas/Deque.lean) -/
theorem dequeRun_eq_runDeque {ι : Type} : ∀ (h : List Dir) (q : List ι),
    dequeRun q h = Konst.Deque.runDeque q h := by
  intro h
  induction h with
  | nil => intro q; cases q <;> simp [dequeRun, Konst.Deque.runDeque]
  | cons d h ih =>
    intro q
    cases q with
    | nil =>
      simp only [dequeRun, pop_nil, Konst.Deque.runDeque, ih]
    | cons x xs =>
      cases d with
      | f => simp only [dequeRun, pop, popFront, Konst.Deque.runDeque, ih]
      | b =>
        simp only [dequeRun, pop, Konst.Deque.runDeque, ih]
        have : popBack (x :: xs) = (some ((x :: xs).getLast (by simp)), (x :: xs).dropLast) := by
          simp only [popBack]
          rw [List.getLast?_eq_some_getLast (by simp)]
        rw [this]

/-! ### 3. the instances -/

theorem checkedSub_of_le {a b : Nat} (h : b ≤ a) : checkedSub a b = some (a - b) := by
  simp [checkedSub, h]
theorem checkedDiv_of_pos {a b : Nat} (h : 0 < b) : checkedDiv a b = some (a / b) := by
  have : b ≠ 0 := by omega
  simp [checkedDiv, this]
theorem checkedRem_of_pos {a b : Nat} (h : 0 < b) : checkedRem a b = some (a % b) := by
  have : b ≠ 0 := by omega
  simp [checkedRem, this]

theorem someIfNonempty_nil : someIfNonempty ([] : List α) = none := rfl
theorem someIfNonempty_of_ne {s : List α} (h : s ≠ []) : someIfNonempty s = some s := by
  cases s with
  | nil => exact absurd rfl h
  | cons _ _ => rfl

/-! #### Iter, IterCopied -/

/-- `Iter`/`IterRev`: the fields stand for the elements of `slice`; no invariant -/
def Iter.de : DEInv (Iter α) α where
  blocks := Iter.blocks
  abs s := s.slice
  inv _ := True
  next_ok := by
    intro s _
    obtain ⟨sl⟩ := s
    cases sl with
    | nil => left; exact ⟨rfl, rfl⟩
    | cons x xs => right; exact ⟨x, ⟨xs⟩, rfl, rfl, trivial⟩
  back_ok := by
    intro s _
    obtain ⟨sl⟩ := s
    by_cases h : sl = []
    · left; subst h; exact ⟨rfl, rfl⟩
    · right
      refine ⟨sl.getLast h, ⟨sl.dropLast⟩, ?_, ?_, trivial⟩
      · simp [Iter.blocks, Iter.nextBackBlock, h]
      · exact (List.dropLast_concat_getLast h).symm

def IterCopied.de : DEInv (IterCopied α) α where
  blocks := IterCopied.blocks
  abs s := s.slice
  inv _ := True
  next_ok := by
    intro s _
    obtain ⟨sl⟩ := s
    cases sl with
    | nil => left; exact ⟨rfl, rfl⟩
    | cons x xs => right; exact ⟨x, ⟨xs⟩, rfl, rfl, trivial⟩
  back_ok := by
    intro s _
    obtain ⟨sl⟩ := s
    by_cases h : sl = []
    · left; subst h; exact ⟨rfl, rfl⟩
    · right
      refine ⟨sl.getLast h, ⟨sl.dropLast⟩, ?_, ?_, trivial⟩
      · simp [IterCopied.blocks, IterCopied.nextBackBlock, h]
      · exact (List.dropLast_concat_getLast h).symm

/-! #### Windows -/

/-- `Windows`/`WindowsRev`: the fields stand for std's windows of `slice`; invariant `size ≠ 0`
    (established by the constructor's `assert!`) -/
def Windows.de : DEInv (Windows α) (List α) where
  blocks := Windows.blocks
  abs w := windowsSpec w.size w.slice
  inv w := 0 < w.size
  next_ok := by
    intro w hw
    obtain ⟨sl, n⟩ := w
    simp only at hw
    by_cases h : sl.length < n
    · left
      exact ⟨by simp [Windows.blocks, Windows.nextBlock, h], windowsSpec_of_lt n sl h⟩
    · right
      refine ⟨sl.take n, ⟨sl.drop 1, n⟩, ?_, ?_, hw⟩
      · simp [Windows.blocks, Windows.nextBlock, h, sliceUpToL_eq, sliceFromL_eq]
      · exact windowsSpec_cons n sl hw (by omega)
  back_ok := by
    intro w hw
    obtain ⟨sl, n⟩ := w
    simp only at hw
    by_cases h : sl.length < n
    · left
      exact ⟨by simp [Windows.blocks, Windows.nextBackBlock, h], windowsSpec_of_lt n sl h⟩
    · right
      have h1 : n ≤ sl.length := by omega
      have h2 : 1 ≤ sl.length := by omega
      refine ⟨sl.drop (sl.length - n), ⟨sl.take (sl.length - 1), n⟩, ?_, ?_, hw⟩
      · simp [Windows.blocks, Windows.nextBackBlock, h, checkedSub_of_le h1, checkedSub_of_le h2,
          sliceUpToL_eq, sliceFromL_eq]
      · exact windowsSpec_last n sl hw h1

/-! #### Chunks -/

/-- items an `Option<&[T]>` field of `Chunks` stands for -/
def Chunks.absOpt (n : Nat) : Option (List α) → List (List α)
  | none => []
  | some s => chunksSpec n s

theorem Chunks.absOpt_someIfNonempty (n : Nat) (s : List α) :
    Chunks.absOpt n (someIfNonempty s) = chunksSpec n s := by
  cases s with
  | nil => simp [someIfNonempty, Chunks.absOpt, chunksSpec_nil]
  | cons _ _ => rfl

theorem someIfNonempty_inv (s t : List α) (h : someIfNonempty s = some t) : t ≠ [] := by
  cases s with
  | nil => simp [someIfNonempty] at h
  | cons a b => simp [someIfNonempty] at h; subst h; simp

/-- `Chunks`/`ChunksRev`: invariant `chunk_size ≠ 0` and `slice` is never `Some(&[])` -/
def Chunks.de : DEInv (Chunks α) (List α) where
  blocks := Chunks.blocks
  abs c := Chunks.absOpt c.chunkSize c.slice
  inv c := 0 < c.chunkSize ∧ ∀ s, c.slice = some s → s ≠ []
  next_ok := by
    intro c hc
    obtain ⟨sl, n⟩ := c
    obtain ⟨hn, hne⟩ := hc
    simp only at hn hne
    cases sl with
    | none => left; exact ⟨rfl, rfl⟩
    | some s =>
      right
      have hs : s ≠ [] := hne s rfl
      refine ⟨s.take n, ⟨someIfNonempty (s.drop n), n⟩, ?_, ?_, hn, ?_⟩
      · simp [Chunks.blocks, Chunks.nextBlock, splitAtL_eq]
      · simp only [Chunks.absOpt_someIfNonempty]
        exact chunksSpec_cons n s hs hn
      · intro t ht; exact someIfNonempty_inv _ _ ht
  back_ok := by
    intro c hc
    obtain ⟨sl, n⟩ := c
    obtain ⟨hn, hne⟩ := hc
    simp only at hn hne
    cases sl with
    | none => left; exact ⟨rfl, rfl⟩
    | some s =>
      right
      have hs : s ≠ [] := hne s rfl
      have hpos : 1 ≤ s.length := List.length_pos_iff.mpr hs
      refine ⟨s.drop ((s.length - 1) / n * n), ⟨someIfNonempty (s.take ((s.length - 1) / n * n)), n⟩,
        ?_, ?_, hn, ?_⟩
      · simp [Chunks.blocks, Chunks.nextBackBlock, checkedSub_of_le hpos, checkedDiv_of_pos hn, splitAtL_eq]
      · simp only [Chunks.absOpt_someIfNonempty]
        exact chunksSpec_last n hn _ s rfl hs
      · intro t ht; exact someIfNonempty_inv _ _ ht

/-! #### RChunks -/

def RChunks.absOpt (n : Nat) : Option (List α) → List (List α)
  | none => []
  | some s => rchunksSpec n s

theorem RChunks.absOpt_someIfNonempty (n : Nat) (s : List α) :
    RChunks.absOpt n (someIfNonempty s) = rchunksSpec n s := by
  cases s with
  | nil => simp [someIfNonempty, RChunks.absOpt, rchunksSpec_nil]
  | cons _ _ => rfl

def RChunks.de : DEInv (RChunks α) (List α) where
  blocks := RChunks.blocks
  abs c := RChunks.absOpt c.chunkSize c.slice
  inv c := 0 < c.chunkSize ∧ ∀ s, c.slice = some s → s ≠ []
  next_ok := by
    intro c hc
    obtain ⟨sl, n⟩ := c
    obtain ⟨hn, hne⟩ := hc
    simp only at hn hne
    cases sl with
    | none => left; exact ⟨rfl, rfl⟩
    | some s =>
      right
      have hs : s ≠ [] := hne s rfl
      refine ⟨s.drop (s.length - n), ⟨someIfNonempty (s.take (s.length - n)), n⟩, ?_, ?_, hn, ?_⟩
      · simp [RChunks.blocks, RChunks.nextBlock, splitAtL_eq]
      · simp only [RChunks.absOpt_someIfNonempty]
        exact rchunksSpec_cons n s hs hn
      · intro t ht; exact someIfNonempty_inv _ _ ht
  back_ok := by
    intro c hc
    obtain ⟨sl, n⟩ := c
    obtain ⟨hn, hne⟩ := hc
    simp only at hn hne
    cases sl with
    | none => left; exact ⟨rfl, rfl⟩
    | some s =>
      right
      have hs : s ≠ [] := hne s rfl
      refine ⟨s.take (if s.length % n = 0 then n else s.length % n),
        ⟨someIfNonempty (s.drop (if s.length % n = 0 then n else s.length % n)), n⟩, ?_, ?_, hn, ?_⟩
      · simp [RChunks.blocks, RChunks.nextBackBlock, checkedRem_of_pos hn, splitAtL_eq]
      · simp only [RChunks.absOpt_someIfNonempty]
        exact rchunksSpec_last n hn _ s rfl hs
      · intro t ht; exact someIfNonempty_inv _ _ ht

/-! #### ChunksExact -/

/-- `ChunksExact`/`ChunksExactRev` whose `rem` field is `r`: invariant `chunk_size ≠ 0`, the length of
    the pre-split `slice` is a multiple of `chunk_size`, and `rem` is never touched -/
def ChunksExact.de (r : List α) : DEInv (ChunksExact α) (List α) where
  blocks := ChunksExact.blocks
  abs c := Spec.chunksExact c.chunkSize c.slice
  inv c := 0 < c.chunkSize ∧ c.slice.length % c.chunkSize = 0 ∧ c.rem = r
  next_ok := by
    intro c hc
    obtain ⟨sl, rem, n⟩ := c
    obtain ⟨hn, hm, hr⟩ := hc
    simp only at hn hm hr
    by_cases he : sl = []
    · left; subst he
      exact ⟨by simp [ChunksExact.blocks, ChunksExact.nextBlock], chunksExact_nil n hn⟩
    · right
      have hpos : 0 < sl.length := List.length_pos_iff.mpr he
      have hle : n ≤ sl.length := le_of_mod_zero hpos hm
      refine ⟨sl.take n, ⟨sl.drop n, rem, n⟩, ?_, ?_, hn, ?_, hr⟩
      · simp [ChunksExact.blocks, ChunksExact.nextBlock, he, splitAtL_eq]
      · exact chunksExact_cons n sl hn hle
      · simp only [List.length_drop]; rw [sub_mod_self' _ _ hle]; exact hm
  back_ok := by
    intro c hc
    obtain ⟨sl, rem, n⟩ := c
    obtain ⟨hn, hm, hr⟩ := hc
    simp only at hn hm hr
    by_cases he : sl = []
    · left; subst he
      exact ⟨by simp [ChunksExact.blocks, ChunksExact.nextBackBlock], chunksExact_nil n hn⟩
    · right
      have hpos : 0 < sl.length := List.length_pos_iff.mpr he
      have hle : n ≤ sl.length := le_of_mod_zero hpos hm
      refine ⟨sl.drop (sl.length - n), ⟨sl.take (sl.length - n), rem, n⟩, ?_, ?_, hn, ?_, hr⟩
      · simp [ChunksExact.blocks, ChunksExact.nextBackBlock, he, checkedSub_of_le hle, splitAtL_eq]
      · exact chunksExact_last n hn _ sl rfl hm hle
      · simp only [List.length_take]
        rw [Nat.min_eq_left (by omega), sub_mod_self' _ _ hle]; exact hm

/-! #### RChunksExact -/

def RChunksExact.de (r : List α) : DEInv (RChunksExact α) (List α) where
  blocks := RChunksExact.blocks
  abs c := rchunksExactSpec c.chunkSize c.slice
  inv c := 0 < c.chunkSize ∧ c.slice.length % c.chunkSize = 0 ∧ c.rem = r
  next_ok := by
    intro c hc
    obtain ⟨sl, rem, n⟩ := c
    obtain ⟨hn, hm, hr⟩ := hc
    simp only at hn hm hr
    by_cases he : sl = []
    · left; subst he
      exact ⟨by simp [RChunksExact.blocks, RChunksExact.nextBlock], rchunksExactSpec_nil n hn⟩
    · right
      have hpos : 0 < sl.length := List.length_pos_iff.mpr he
      have hle : n ≤ sl.length := le_of_mod_zero hpos hm
      refine ⟨sl.drop (sl.length - n), ⟨sl.take (sl.length - n), rem, n⟩, ?_, ?_, hn, ?_, hr⟩
      · simp [RChunksExact.blocks, RChunksExact.nextBlock, he, checkedSub_of_le hle, splitAtL_eq]
      · exact rchunksExactSpec_cons n sl hn hle
      · simp only [List.length_take]
        rw [Nat.min_eq_left (by omega), sub_mod_self' _ _ hle]; exact hm
  back_ok := by
    intro c hc
    obtain ⟨sl, rem, n⟩ := c
    obtain ⟨hn, hm, hr⟩ := hc
    simp only at hn hm hr
    by_cases he : sl = []
    · left; subst he
      exact ⟨by simp [RChunksExact.blocks, RChunksExact.nextBackBlock], rchunksExactSpec_nil n hn⟩
    · right
      have hpos : 0 < sl.length := List.length_pos_iff.mpr he
      have hle : n ≤ sl.length := le_of_mod_zero hpos hm
      refine ⟨sl.take n, ⟨sl.drop n, rem, n⟩, ?_, ?_, hn, ?_, hr⟩
      · simp [RChunksExact.blocks, RChunksExact.nextBackBlock, he, splitAtL_eq]
      · exact rchunksExactSpec_last n hn _ sl rfl hm hle
      · simp only [List.length_drop]; rw [sub_mod_self' _ _ hle]; exact hm

/-! #### ArrayChunks -/

/-- `ArrayChunks`/`ArrayChunksRev` whose `rem` field is `r`: the fields stand for the arrays of `arrays` -/
def ArrayChunks.de (r : List α) : DEInv (ArrayChunks α) (List α) where
  blocks := ArrayChunks.blocks
  abs s := s.arrays
  inv s := s.rem = r
  next_ok := by
    intro s hs
    obtain ⟨arrs, rem⟩ := s
    cases arrs with
    | nil => left; exact ⟨rfl, rfl⟩
    | cons x xs => right; exact ⟨x, ⟨xs, rem⟩, rfl, rfl, hs⟩
  back_ok := by
    intro s hs
    obtain ⟨arrs, rem⟩ := s
    by_cases h : arrs = []
    · left; subst h; exact ⟨rfl, rfl⟩
    · right
      refine ⟨arrs.getLast h, ⟨arrs.dropLast, rem⟩, ?_, ?_, hs⟩
      · simp [ArrayChunks.blocks, ArrayChunks.nextBackBlock, h]
      · exact (List.dropLast_concat_getLast h).symm

/-- the re-typed run of `k * n` elements is the list of its `k` full pieces -/
theorem retype_eq_chunksExact (n : Nat) (hn : 0 < n) : ∀ (k : Nat) (flat : List α),
    flat.length = k * n → retype n k flat = Spec.chunksExact n flat := by
  intro k
  induction k with
  | zero =>
    intro flat hl
    have : flat = [] := List.eq_nil_of_length_eq_zero (by simpa using hl)
    subst this
    simp [retype, chunksExact_nil n hn]
  | succ k ih =>
    intro flat hl
    have hle : n ≤ flat.length := by rw [hl, Nat.succ_mul]; omega
    rw [chunksExact_cons n flat hn hle, ← ih (flat.drop n) (by rw [List.length_drop, hl, Nat.succ_mul]; omega)]
    unfold retype
    rw [List.range_succ_eq_map, List.map_cons, List.map_map]
    simp only [Nat.zero_mul, List.drop_zero, List.drop_drop]
    congr 1
    apply List.map_congr_left
    intro i _
    simp only [Function.comp, Nat.succ_eq_add_one, Nat.add_mul, Nat.one_mul]
    congr 2
    omega

/-! ### 4. the constructors -/

theorem windows_init (l : List α) (n : Nat) (hn : 1 ≤ n) :
    windows l n = some ⟨true, ⟨l, n⟩⟩ := by
  have : n ≠ 0 := by omega
  simp [windows, this]

theorem chunks_init (l : List α) (n : Nat) (hn : 1 ≤ n) :
    chunks l n = some ⟨true, ⟨someIfNonempty l, n⟩⟩ := by
  have : n ≠ 0 := by omega
  simp [chunks, this]

theorem rchunks_init (l : List α) (n : Nat) (hn : 1 ≤ n) :
    rchunks l n = some ⟨true, ⟨someIfNonempty l, n⟩⟩ := by
  have : n ≠ 0 := by omega
  simp [rchunks, this]

theorem chunksExact_init (l : List α) (n : Nat) (hn : 1 ≤ n) :
    SliceIter.chunksExact l n
      = some ⟨true, ⟨l.take (l.length - l.length % n), l.drop (l.length - l.length % n), n⟩⟩ := by
  have h0 : n ≠ 0 := by omega
  have hm := Nat.mod_le l.length n
  simp [SliceIter.chunksExact, h0, checkedRem_of_pos hn, checkedSub_of_le hm, splitAtL_eq]

theorem rchunksExact_init (l : List α) (n : Nat) (hn : 1 ≤ n) :
    rchunksExact l n = some ⟨true, ⟨l.drop (l.length % n), l.take (l.length % n), n⟩⟩ := by
  have h0 : n ≠ 0 := by omega
  simp [rchunksExact, h0, checkedRem_of_pos hn, splitAtL_eq]

theorem arrayChunks_init (l : List α) (n : Nat) (hn : 1 ≤ n) :
    arrayChunks l n
      = some ⟨true, ⟨Spec.chunksExact n l, l.drop (l.length - l.length % n)⟩⟩ := by
  have h0 : n ≠ 0 := by omega
  have hs := splitAtL_eq l (l.length / n * n)
  unfold splitAtL at hs
  simp only [Prod.mk.injEq] at hs
  have hle : l.length / n * n ≤ l.length := Nat.div_mul_le_self _ _
  unfold arrayChunks asChunks
  simp only [h0, if_false]
  rw [hs.1, hs.2, retype_eq_chunksExact n hn (l.length / n) _ (by rw [List.length_take]; omega),
    ← sub_mod_eq_div_mul, chunksExact_take_full n hn _ l rfl]

/-! ### 5. histories from a freshly constructed (forward) iterator -/

theorem DEInv.history_fwd {σ ι : Type} (D : DEInv σ ι) (it0 : It σ) (hf : it0.fwd = true)
    (hi : D.inv it0.fields) (h : List Dir) :
    ∃ it', It.run D.blocks it0 h = some (dequeRun (D.abs it0.fields) h, it') ∧
      D.abs it'.fields = dequeRest (D.abs it0.fields) h ∧ D.inv it'.fields ∧ it'.fwd = true := by
  obtain ⟨it', r1, r2, r3, r4⟩ := D.run_refines h it0 hi
  have e0 : D.absIt it0 = D.abs it0.fields := by simp [DEInv.absIt, hf]
  have e1 : D.absIt it' = D.abs it'.fields := by simp [DEInv.absIt, r4, hf]
  rw [e0] at r1 r2
  rw [e1] at r2
  exact ⟨it', r1, r2, r3, by rw [r4, hf]⟩

theorem DEInv.historyX_fwd {σ ι : Type} (D : DEInv σ ι) (it0 : It σ) (hf : it0.fwd = true)
    (hi : D.inv it0.fields) (h : List (Option Dir)) :
    ∃ it', It.runX D.blocks it0 h = some (dequeRunX (D.abs it0.fields) h, it') ∧
      D.absIt it' = dequeRestX (D.abs it0.fields) h ∧ D.inv it'.fields := by
  obtain ⟨it', r1, r2, r3⟩ := D.runX_refines h it0 hi
  have e0 : D.absIt it0 = D.abs it0.fields := by simp [DEInv.absIt, hf]
  rw [e0] at r1 r2
  exact ⟨it', r1, r2, r3⟩

end Konst.SliceIter
