import KonstVerif.Model.ArrayBuilder
/-
  Helper lemmas for C11/C15: the refinement relation between the `ArrayBuilder` state machine and
  "the accepted pushes, in order".
-/
namespace Konst.ArrayBuilder
variable {α : Type}

theorem readInit_map_some (l : List α) : readInit (l.map some) = some l := by
  induction l with
  | nil => rfl
  | cons x r ih => simp [readInit, ih]

/-- reading succeeds only if every slot was written, and returns exactly the written values -/
theorem readInit_eq_some {out : List (Option α)} {l : List α} (h : readInit out = some l) :
    out = l.map some := by
  induction out generalizing l with
  | nil => simp [readInit] at h; subst h; rfl
  | cons o r ih =>
    cases o with
    | none => simp [readInit] at h
    | some v =>
      simp only [readInit, Option.map_eq_some_iff] at h
      obtain ⟨l', hl', rfl⟩ := h
      simp [ih hl']

theorem readInit_none_mem {pre : List α} {suf : List (Option α)} :
    readInit (pre.map some ++ none :: suf) = none := by
  induction pre with
  | nil => rfl
  | cons x r ih => simp [readInit, ih]

@[simp] theorem mapFrom_length (fresh : Nat → α → α) (i : Nat) (l : List α) :
    (mapFrom fresh i l).length = l.length := by
  induction l generalizing i with
  | nil => rfl
  | cons x r ih => simp [mapFrom, ih]

theorem mapFrom_id (i : Nat) (l : List α) : mapFrom (fun _ x => x) i l = l := by
  induction l generalizing i with
  | nil => rfl
  | cons x r ih => simp [mapFrom, ih]

/-- the builder `b` holds exactly the accepted pushes `acc`, in order, in its first slots; every other
    slot is unwritten -/
def Wf (b : Builder α) (acc : List α) : Prop :=
  acc.length ≤ b.n ∧ b.inited = acc.length ∧
    b.slots = acc.map some ++ List.replicate (b.n - acc.length) none

theorem wf_new (n : Nat) : Wf (new n : Builder α) [] := by
  simp [Wf, new]

theorem wf_push_ok {b : Builder α} {acc : List α} (h : Wf b acc) (v : α) (hlt : acc.length < b.n) :
    ∃ b', push b v = .ok b' ∧ Wf b' (acc ++ [v]) ∧ b'.n = b.n := by
  obtain ⟨_, hi, hs⟩ := h
  refine ⟨{ b with slots := b.slots.set b.inited (some v), inited := b.inited + 1 }, ?_, ?_, rfl⟩
  · simp [push, hi, hlt]
  · refine ⟨by simp; omega, by simp [hi], ?_⟩
    simp only [hs, hi]
    have : b.n - acc.length = (b.n - (acc.length + 1)) + 1 := by omega
    rw [this, List.replicate_succ]
    rw [List.set_append_right _ _ (by simp)]
    simp

theorem wf_push_full {b : Builder α} {acc : List α} (h : Wf b acc) (v : α) (hfull : acc.length = b.n) :
    push b v = .panic := by
  obtain ⟨_, hi, _⟩ := h
  simp [push, hi, hfull]

theorem wf_asSlice {b : Builder α} {acc : List α} (h : Wf b acc) : asSlice b = some acc := by
  obtain ⟨_, hi, hs⟩ := h
  unfold asSlice
  rw [hs, hi, List.take_left' (by simp)]
  exact readInit_map_some acc

theorem wf_dropped {b : Builder α} {acc : List α} (h : Wf b acc) : dropped b = some acc :=
  wf_asSlice h

theorem wf_build {b : Builder α} {acc : List α} (h : Wf b acc) :
    build b = if acc.length = b.n then .array acc else .panic := by
  obtain ⟨_, hi, hs⟩ := h
  unfold build isFull
  by_cases hf : acc.length = b.n
  · simp [hi, hf, hs, readInit_map_some]
  · simp [hi, hf]

theorem wf_isFull {b : Builder α} {acc : List α} (h : Wf b acc) :
    isFull b = decide (acc.length = b.n) := by
  obtain ⟨_, hi, _⟩ := h
  by_cases hf : acc.length = b.n <;> simp [isFull, hi, hf]

theorem wf_cloneLoop (fresh : Nat → α → α) (l : List α) :
    ∀ (i : Nat) (this : Builder α) (done : List α), Wf this done → done.length + l.length ≤ this.n →
      ∃ c, cloneLoop fresh l i this = some c ∧ Wf c (done ++ mapFrom fresh i l) ∧ c.n = this.n := by
  induction l with
  | nil => intro i this done h _; exact ⟨this, rfl, by simpa [mapFrom] using h, rfl⟩
  | cons x r ih =>
    intro i this done h hlen
    simp only [List.length_cons] at hlen
    obtain ⟨b', hp, hw, hn⟩ := wf_push_ok h (fresh i x) (by omega)
    obtain ⟨c, hc, hwc, hcn⟩ := ih (i + 1) b' (done ++ [fresh i x]) hw (by simp; omega)
    refine ⟨c, ?_, ?_, by omega⟩
    · simp [cloneLoop, hp, hc]
    · simpa [mapFrom] using hwc

theorem wf_clone (fresh : Nat → α → α) {b : Builder α} {acc : List α} (h : Wf b acc) :
    ∃ c, clone fresh b = some c ∧ Wf c (mapFrom fresh 0 acc) ∧ c.n = b.n := by
  obtain ⟨c, hc, hw, hn⟩ := wf_cloneLoop fresh acc 0 (new b.n) [] (wf_new b.n) (by simpa [new] using h.1)
  refine ⟨c, ?_, by simpa using hw, by simpa [new] using hn⟩
  simp [clone, wf_asSlice h, hc]

/-- `clone_from` (the provided `*self = source.clone()`): whatever the target held, it ends up holding
    exactly the numbered clones of the source's elements; exactly its old elements are dropped -/
theorem wf_cloneFrom (fresh : Nat → α → α) {t s : Builder α} {tacc sacc : List α}
    (ht : Wf t tacc) (hs : Wf s sacc) :
    ∃ c, cloneFrom fresh t s = some (c, tacc) ∧ Wf c (mapFrom fresh 0 sacc) ∧ c.n = s.n := by
  obtain ⟨c, hc, hw, hn⟩ := wf_clone fresh hs
  exact ⟨c, by simp [cloneFrom, hc, wf_dropped ht], hw, hn⟩

/-- a run of caught pushes: the builder accepts values while there is room and rejects the rest -/
theorem wf_pushAll (vs : List α) :
    ∀ {b : Builder α} {acc : List α}, Wf b acc →
      Wf (pushAll b vs).1 (acc ++ vs.take (b.n - acc.length)) ∧
      (pushAll b vs).2 = vs.drop (b.n - acc.length) ∧ (pushAll b vs).1.n = b.n := by
  induction vs with
  | nil => intro b acc h; simpa [pushAll] using h
  | cons v r ih =>
    intro b acc h
    by_cases hlt : acc.length < b.n
    · obtain ⟨b', hp, hw, hn⟩ := wf_push_ok h v hlt
      obtain ⟨g1, g2, g3⟩ := ih hw
      have e : b.n - acc.length = (b'.n - (acc ++ [v]).length) + 1 := by simp [hn]; omega
      simp only [pushAll, hp]
      rw [e, List.take_succ_cons, List.drop_succ_cons]
      exact ⟨by simpa using g1, g2, by omega⟩
    · have hfull : acc.length = b.n := by have := h.1; omega
      obtain ⟨g1, g2, g3⟩ := ih h
      have e : b.n - acc.length = 0 := by omega
      simp only [pushAll, wf_push_full h v hfull]
      rw [e] at g1 g2 ⊢
      simp only [List.take_zero, List.drop_zero, List.append_nil] at g1 g2 ⊢
      exact ⟨g1, by rw [g2], g3⟩

theorem wf_pushAll_new (n : Nat) (vs : List α) :
    Wf (pushAll (new n) vs).1 (vs.take n) ∧ (pushAll (new n) vs).2 = vs.drop n ∧
      (pushAll (new n : Builder α) vs).1.n = n := by
  have := wf_pushAll vs (wf_new (α := α) n)
  simpa [new] using this

end Konst.ArrayBuilder
