import KonstVerif.Lemmas.Parser
import KonstVerif.Model.ParserMethod
/-
  The `skip` / `skip_back` of the small `PState` model used for `parser_method!` (C18,
  Model/ParserMethod.lean) agree with `Parser::skip` / `Parser::skip_back` of the full model.
-/
namespace Konst.Lemmas.ParserPM
open Konst Konst.Parser Konst.Spec.Utf8 Konst.Lemmas.Parser

theorem skipUp_eq_pm (p : PM.PState) : ∀ (fuel n : Nat), skipUp p.rem fuel n = PM.skip.up p fuel n := by
  intro fuel
  induction fuel with
  | zero => intro n; rfl
  | succ f ih => intro n; simp only [skipUp, PM.skip.up, ih]

theorem skipDown_eq_pm (p : PM.PState) (h0 : Bnd p.rem 0) : ∀ (pos : Nat),
    skipDown p.rem pos = some (PM.skipBack.down p pos) := by
  intro pos
  induction pos with
  | zero => simp [skipDown, PM.skipBack.down, show Utf8.isCharBoundaryBytes p.rem 0 = true from h0]
  | succ k ih =>
    simp only [skipDown, PM.skipBack.down, ih]
    split <;> rfl

theorem skip_agrees (p : Parser) (n : Nat) :
    ∃ p', skip p n = .ok p' .unit ∧ PM.skip ⟨p.startOffset, p.str⟩ n = ⟨p'.startOffset, p'.str⟩ := by
  unfold skip
  simp only []
  generalize hk : (if n > p.str.length then p.str.length else skipUp p.str (p.str.length + 1) n) = k
  have hb : Bnd p.str k := by
    rw [← hk]
    by_cases hn : n > p.str.length
    · simp only [hn, if_true]; exact bnd_len _
    · simp only [hn, if_false]
      exact (skipUp_spec p.str (p.str.length + 1) n (by omega) (by omega)).2
  rw [strFrom_ok hb]
  refine ⟨_, rfl, ?_⟩
  simp only [PM.skip, Parser.setStr, sliceFrom_apply']
  rw [← skipUp_eq_pm ⟨p.startOffset, p.str⟩, hk]

theorem skipBack_agrees (p : Parser) (n : Nat) (hv : Valid p.str) :
    ∃ p', skipBack p n = .ok p' .unit ∧ PM.skipBack ⟨p.startOffset, p.str⟩ n = ⟨p'.startOffset, p'.str⟩ := by
  unfold skipBack
  simp only []
  have h0 := bnd_zero hv
  obtain ⟨k, hk, _, hb⟩ := skipDown_spec p.str h0 (p.str.length - n)
  have hpm := skipDown_eq_pm ⟨p.startOffset, p.str⟩ h0 (p.str.length - n)
  simp only [] at hpm
  rw [hk] at hpm ⊢
  simp only [strUpTo_ok hb]
  refine ⟨_, rfl, ?_⟩
  simp only [PM.skipBack, Parser.setStr, sliceUpTo_apply']
  cases hpm
  rfl

end Konst.Lemmas.ParserPM
