import KonstVerif.Model.CStr
import KonstVerif.Spec.Concat
/-
  Helper lemmas for C20 (CStr half): "first index of 0", the scan loops, the pointer walk.
-/
namespace Konst.Lemmas.CStr
open Konst Konst.Slice Konst.CStr Konst.Spec.Concat

theorem firstNul_lt {l : List Nat} {k : Nat} (h : firstNul l = some k) : k < l.length := by
  induction l generalizing k with
  | nil => simp [firstNul] at h
  | cons b r ih =>
    simp only [firstNul] at h
    by_cases hb : b = 0
    · simp only [hb, if_true, Option.some.injEq] at h; subst h; simp
    · simp only [hb, if_false, Option.map_eq_some_iff] at h
      obtain ⟨j, hj, rfl⟩ := h
      have := ih hj
      simp only [List.length_cons]; omega

theorem firstNul_getElem? {l : List Nat} {k : Nat} (h : firstNul l = some k) : l[k]? = some 0 := by
  induction l generalizing k with
  | nil => simp [firstNul] at h
  | cons b r ih =>
    simp only [firstNul] at h
    by_cases hb : b = 0
    · simp only [hb, if_true, Option.some.injEq] at h; subst h; simp [hb]
    · simp only [hb, if_false, Option.map_eq_some_iff] at h
      obtain ⟨j, hj, rfl⟩ := h
      simpa using ih hj

theorem firstNul_before {l : List Nat} {k : Nat} (h : firstNul l = some k) :
    ∀ j, j < k → l[j]? ≠ some 0 := by
  induction l generalizing k with
  | nil => simp [firstNul] at h
  | cons b r ih =>
    simp only [firstNul] at h
    by_cases hb : b = 0
    · simp only [hb, if_true, Option.some.injEq] at h; subst h; intro j hj; omega
    · simp only [hb, if_false, Option.map_eq_some_iff] at h
      obtain ⟨i, hi, rfl⟩ := h
      intro j hj
      cases j with
      | zero => simpa using hb
      | succ j => simpa using ih hi j (by omega)

theorem firstNul_none {l : List Nat} (h : firstNul l = none) : 0 ∉ l := by
  induction l with
  | nil => simp
  | cons b r ih =>
    simp only [firstNul] at h
    by_cases hb : b = 0
    · simp [hb] at h
    · simp only [hb, if_false, Option.map_eq_none_iff] at h
      simp only [List.mem_cons, not_or]
      exact ⟨fun e => hb e.symm, ih h⟩

theorem firstNul_append {a : List Nat} {k : Nat} (h : firstNul a = some k) (b : List Nat) :
    firstNul (a ++ b) = some k := by
  induction a generalizing k with
  | nil => simp [firstNul] at h
  | cons x r ih =>
    simp only [firstNul, List.cons_append] at h ⊢
    by_cases hx : x = 0
    · simpa [hx] using h
    · simp only [hx, if_false, Option.map_eq_some_iff] at h ⊢
      obtain ⟨j, hj, rfl⟩ := h
      exact ⟨j, ih hj, rfl⟩

theorem firstNul_take {l : List Nat} {k : Nat} (h : firstNul l = some k) :
    firstNul (l.take (k + 1)) = some k := by
  induction l generalizing k with
  | nil => simp [firstNul] at h
  | cons x r ih =>
    simp only [firstNul] at h
    by_cases hx : x = 0
    · simp only [hx, if_true, Option.some.injEq] at h; subst h; simp [firstNul, hx]
    · simp only [hx, if_false, Option.map_eq_some_iff] at h
      obtain ⟨j, hj, rfl⟩ := h
      simp only [List.take_succ_cons, firstNul, hx, if_false, ih hj, Option.map_some]

/-- `slice_up_to(bytes, n)` with `n ≤ len` is the prefix of length `n` -/
theorem sliceUpTo_le {len n : Nat} (h : n ≤ len) : sliceUpTo len n = ⟨0, n⟩ := by
  simp [sliceUpTo, sliceUpToImpl, overflowingSub, h]

/-- the `for_range!` scan of `from_bytes_until_nul_inner` finds the first nul of what is left -/
theorem untilNulLoop_eq (len : Nat) (l : List Nat) (i : Nat) :
    untilNulLoop len l i =
      (firstNul l).map fun k => (sliceUpTo len (i + k + 1), i + k + 1) := by
  induction l generalizing i with
  | nil => rfl
  | cons b r ih =>
    simp only [untilNulLoop, firstNul]
    by_cases hb : b = 0
    · simp [hb]
    · simp only [hb, if_false, ih, Option.map_map]
      congr 1
      funext k
      simp only [Function.comp]
      rw [show i + 1 + k + 1 = i + (k + 1) + 1 by omega]

theorem fromBytesUntilNulInner_eq (bs : List Nat) :
    fromBytesUntilNulInner bs = (firstNul bs).map fun k => (⟨0, k + 1⟩, k + 1) := by
  rw [fromBytesUntilNulInner, untilNulLoop_eq]
  cases h : firstNul bs with
  | none => rfl
  | some k =>
    have := firstNul_lt h
    simp only [Option.map_some, Nat.zero_add]
    rw [sliceUpTo_le (by omega)]

/-- the pointer walk stops at the first nul of the memory -/
theorem walk_eq (l : List Nat) (i : Nat) : walk l i = (firstNul l).map (i + ·) := by
  induction l generalizing i with
  | nil => rfl
  | cons b r ih =>
    simp only [walk, firstNul]
    by_cases hb : b = 0
    · simp [hb]
    · simp only [hb, ne_eq, not_false_eq_true, if_true, if_false, ih, Option.map_map]
      congr 1
      funext k
      simp only [Function.comp]; omega

theorem isCStr_getLast {c : List Nat} (h : IsCStr c) : c.getLast? = some 0 := by
  rw [List.getLast?_eq_getElem?]
  exact firstNul_getElem? h.1

theorem isCStr_take (c rest : List Nat) : ((c ++ rest).drop 0).take c.length = c := by simp

/-- what std's `from_bytes_until_nul` returns satisfies the CStr invariant -/
theorem untilNul_isCStr {bs c : List Nat} (h : stdFromBytesUntilNul bs = some c) : IsCStr c := by
  simp only [stdFromBytesUntilNul, Option.map_eq_some_iff] at h
  obtain ⟨k, hk, rfl⟩ := h
  have hl := firstNul_lt hk
  have hlen : (bs.take (k + 1)).length = k + 1 := by simp; omega
  refine ⟨?_, ?_⟩
  · rw [hlen]; exact firstNul_take hk
  · intro e; rw [e] at hlen; simp at hlen

end Konst.Lemmas.CStr
