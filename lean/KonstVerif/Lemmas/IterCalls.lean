import KonstVerif.Lemmas.IterDsl
/-
  C10, closure calls: the emitted loop nest with its call log and its take guards (`feedKL`,
  Model/IterDsl) against
  (1) the loop nest without log and guards (`feedK`): the values are the same (erasure);
  (2) the event semantics of the std chain (Spec/IterDsl: `stdEvalE`, `consumeCalls`).
-/
set_option linter.unusedSimpArgs false

namespace Konst.Iter.Lemmas
open Konst.Iter Konst.Iter.Spec

/-! ## stage 5: erasure — the logged, guarded loop nest computes the values of the plain one

`feedK` has neither the log nor the take guards at the loop tops: where `feedKL` leaves the nest
at a guard, `feedK` goes on pulling items, but a `take` whose counter is 0 stays at 0 and lets
nothing through, so the consumer's variables never change again (`feedK_guard`). -/

theorem takeGuard_cons_of_tail (ad : Ad) (k : Cell) {r : List Ad} {s : St} (h : takeGuard r s = true) :
    takeGuard (ad :: r) (k :: s) = true := by
  cases ad <;> simp [takeGuard, h]

/-- what a result `(state, acc, break)` says about the guard and the accumulator -/
def Kept (c : List Ad) (a : CAcc) (res : St × CAcc × Bool) : Prop :=
  res.2.1 = a ∧ takeGuard c res.1 = true

private theorem kept_pass {r : List Ad} {a : CAcc} (ad : Ad) (k' : Cell) {res : St × CAcc × Bool}
    (h : Kept r a res) : Kept (ad :: r) a (match res with | (s, a', b) => (k' :: s, a', b)) := by
  obtain ⟨s, a', b⟩ := res
  exact ⟨h.1, takeGuard_cons_of_tail ad k' h.2⟩

theorem foldItemsK_guard (G : St → Prop) (step : St → CAcc → Val → St × CAcc × Bool)
    (h : ∀ st a x, G st → (step st a x).2.1 = a ∧ G (step st a x).1) :
    ∀ ys st a, G st → (foldItemsK step st a ys).2.1 = a ∧ G (foldItemsK step st a ys).1 := by
  intro ys
  induction ys with
  | nil => intro st a hg; exact ⟨rfl, hg⟩
  | cons y ys ih =>
    intro st a hg
    simp only [foldItemsK]
    obtain ⟨h1, h2⟩ := h st a y hg
    rcases hs : step st a y with ⟨s1, a1, b1⟩
    rw [hs] at h1 h2
    simp only at h1 h2
    subst h1
    cases b1 with
    | true => exact ⟨rfl, h2⟩
    | false => exact ih s1 a1 h2

/-- a `take` counter that is 0 stays 0, and nothing reaches the consumer -/
theorem feedK_guard (cons : Cons) : ∀ (c : List Ad) (d : Bool) (st : St) (a : CAcc) (x : Val),
    takeGuard c st = true → Kept c a (feedK cons c d st a x) := by
  intro c
  induction c with
  | nil => intro d st a x h; simp [takeGuard] at h
  | cons ad r ih =>
    intro d st a x h
    cases st with
    | nil => simp [takeGuard] at h
    | cons k st =>
      cases ad with
      | take n =>
        cases k with
        | nat i =>
          simp only [feedK]
          by_cases hi : i = 0
          · simp only [hi, if_true]; exact ⟨rfl, by simpa [hi] using h⟩
          · have hr : takeGuard r st = true := by simpa [takeGuard, hi] using h
            simp only [hi, if_false]
            exact kept_pass (.take n) (.nat (i - 1)) (ih d st a x hr)
        | u => exact ⟨rfl, h⟩
        | flag _ => exact ⟨rfl, h⟩
        | lst _ => exact ⟨rfl, h⟩
      | copied =>
        have hr : takeGuard r st = true := by simpa [takeGuard] using h
        simp only [feedK]; exact kept_pass .copied k (ih d st a x hr)
      | map f =>
        have hr : takeGuard r st = true := by simpa [takeGuard] using h
        simp only [feedK]; exact kept_pass (.map f) k (ih d st a (f x) hr)
      | rev =>
        have hr : takeGuard r st = true := by simpa [takeGuard] using h
        simp only [feedK]; exact kept_pass .rev k (ih (!d) st a x hr)
      | filter p =>
        have hr : takeGuard r st = true := by simpa [takeGuard] using h
        simp only [feedK]
        by_cases hp : p x = true
        · simp only [hp, if_true]; exact kept_pass (.filter p) k (ih d st a x hr)
        · simp only [hp, if_false, Bool.false_eq_true]; exact ⟨rfl, h⟩
      | takeWhile p =>
        have hr : takeGuard r st = true := by simpa [takeGuard] using h
        simp only [feedK]
        by_cases hp : p x = true
        · simp only [hp, if_true]; exact kept_pass (.takeWhile p) k (ih d st a x hr)
        · simp only [hp, if_false, Bool.false_eq_true]; exact ⟨rfl, h⟩
      | filterMap f =>
        have hr : takeGuard r st = true := by simpa [takeGuard] using h
        simp only [feedK]
        cases hfx : f x with
        | some y => exact kept_pass (.filterMap f) k (ih d st a y hr)
        | none => exact ⟨rfl, h⟩
      | enumerate =>
        have hr : takeGuard r st = true := by simpa [takeGuard] using h
        cases k with
        | nat i => simp only [feedK]; exact kept_pass .enumerate (.nat (i + 1)) (ih d st a _ hr)
        | u => exact ⟨rfl, h⟩
        | flag _ => exact ⟨rfl, h⟩
        | lst _ => exact ⟨rfl, h⟩
      | skip n =>
        have hr : takeGuard r st = true := by simpa [takeGuard] using h
        cases k with
        | nat i =>
          simp only [feedK]
          by_cases hk : i ≠ 0
          · simp only [hk, if_true, ne_eq, not_false_eq_true]
            exact ⟨rfl, by simpa [takeGuard] using hr⟩
          · simp only [hk, if_false]; exact kept_pass (.skip n) (.nat i) (ih d st a x hr)
        | u => exact ⟨rfl, h⟩
        | flag _ => exact ⟨rfl, h⟩
        | lst _ => exact ⟨rfl, h⟩
      | skipWhile p =>
        have hr : takeGuard r st = true := by simpa [takeGuard] using h
        cases k with
        | flag s =>
          simp only [feedK]
          by_cases hc : (s && p x) = true
          · simp only [hc, if_true]; exact ⟨rfl, by simpa [takeGuard] using hr⟩
          · simp only [hc, if_false, Bool.false_eq_true]; exact kept_pass (.skipWhile p) (.flag false) (ih d st a x hr)
        | u => exact ⟨rfl, h⟩
        | nat _ => exact ⟨rfl, h⟩
        | lst _ => exact ⟨rfl, h⟩
      | zip l0 =>
        have hr : takeGuard r st = true := by simpa [takeGuard] using h
        cases k with
        | lst l =>
          simp only [feedK]
          cases hp : pop d l with
          | none => exact ⟨rfl, h⟩
          | some pr =>
            obtain ⟨e, l'⟩ := pr
            exact kept_pass (.zip l0) (.lst l') (ih d st a _ hr)
        | u => exact ⟨rfl, h⟩
        | nat _ => exact ⟨rfl, h⟩
        | flag _ => exact ⟨rfl, h⟩
      | flatMap f =>
        have hr : takeGuard r st = true := by simpa [takeGuard] using h
        simp only [feedK]
        exact kept_pass (.flatMap f) k
          (foldItemsK_guard (fun s => takeGuard r s = true) (feedK cons r d) (fun s a' y hg => ih d s a' y hg) _ st a hr)
      | flatten =>
        have hr : takeGuard r st = true := by simpa [takeGuard] using h
        simp only [feedK]
        exact kept_pass .flatten k
          (foldItemsK_guard (fun s => takeGuard r s = true) (feedK cons r d) (fun s a' y hg => ih d s a' y hg) _ st a hr)

theorem runLoopK_guard (c : List Ad) (d : Bool) (cons : Cons) :
    ∀ (xs : List Val) (st : St) (a : CAcc), takeGuard c st = true → runLoopK c d cons st a xs = a := by
  intro xs
  induction xs with
  | nil => intro st a _; rfl
  | cons x xs ih =>
    intro st a h
    simp only [runLoopK]
    obtain ⟨h1, h2⟩ := feedK_guard cons c d st a x h
    rcases hs : feedK cons c d st a x with ⟨s1, a1, b1⟩
    rw [hs] at h1 h2
    simp only at h1 h2
    subst h1
    cases b1 with
    | true => rfl
    | false => exact ih s1 a1 h2

/-- the guarded/logged result against the plain one: same accumulator; if the guarded nest goes on,
    so does the plain one, in the same state; if it leaves the nest, the plain one does too or is
    stuck behind a `take` at 0 -/
def Sim (c : List Ad) (rl : St × CAcc × Log × Bool) (rk : St × CAcc × Bool) : Prop :=
  rl.2.1 = rk.2.1 ∧ (rl.2.2.2 = false → rk.2.2 = false ∧ rl.1 = rk.1) ∧
    (rl.2.2.2 = true → rk.2.2 = true ∨ takeGuard c rk.1 = true)

private theorem sim_same (c : List Ad) (s : St) (a : CAcc) (l : Log) (b : Bool) : Sim c (s, a, l, b) (s, a, b) :=
  ⟨rfl, fun h => ⟨h, rfl⟩, fun h => Or.inl h⟩

private theorem sim_pass {r : List Ad} (ad : Ad) (k' : Cell) (g : Log → Log)
    {rl : St × CAcc × Log × Bool} {rk : St × CAcc × Bool} (h : Sim r rl rk) :
    Sim (ad :: r) (match rl with | (s, a, l, b) => (k' :: s, a, g l, b)) (match rk with | (s, a, b) => (k' :: s, a, b)) := by
  obtain ⟨s1, a1, l1, b1⟩ := rl
  obtain ⟨s2, a2, b2⟩ := rk
  obtain ⟨h1, h2, h3⟩ := h
  refine ⟨h1, ?_, ?_⟩
  · intro hb; obtain ⟨e1, e2⟩ := h2 hb; exact ⟨e1, by simp only at e2 ⊢; rw [e2]⟩
  · intro hb
    rcases h3 hb with e | e
    · exact Or.inl e
    · exact Or.inr (takeGuard_cons_of_tail ad k' e)

theorem foldItems_sim (r : List Ad) (stepL : St → CAcc → Val → St × CAcc × Log × Bool)
    (step : St → CAcc → Val → St × CAcc × Bool)
    (hs : ∀ st a x, Sim r (stepL st a x) (step st a x))
    (hz : ∀ st a x, takeGuard r st = true → (step st a x).2.1 = a ∧ takeGuard r (step st a x).1 = true) :
    ∀ ys st a, Sim r (foldItemsKL (takeGuard r) stepL st a ys) (foldItemsK step st a ys) := by
  intro ys
  induction ys with
  | nil =>
    intro st a
    simp only [foldItemsKL, foldItemsK]
    by_cases hg : takeGuard r st = true
    · simp only [hg, if_true]; exact ⟨rfl, fun h => by simp at h, fun _ => Or.inr hg⟩
    · simp only [hg, if_false, Bool.false_eq_true]; exact sim_same r st a [] false
  | cons y ys ih =>
    intro st a
    by_cases hg : takeGuard r st = true
    · simp only [foldItemsKL, hg, if_true]
      obtain ⟨e1, e2⟩ := foldItemsK_guard (fun s => takeGuard r s = true) step hz (y :: ys) st a hg
      exact ⟨e1.symm, fun h => by simp at h, fun _ => Or.inr e2⟩
    · simp only [foldItemsKL, foldItemsK, hg, if_false, Bool.false_eq_true]
      have h := hs st a y
      rcases hl : stepL st a y with ⟨s1, a1, l1, b1⟩
      rcases hk : step st a y with ⟨s2, a2, b2⟩
      rw [hl, hk] at h
      obtain ⟨h1, h2, h3⟩ := h
      simp only at h1 h2 h3
      subst h1
      cases b1 with
      | true =>
        cases b2 with
        | true => exact ⟨rfl, fun h => by simp at h, fun _ => Or.inl rfl⟩
        | false =>
          have hg2 : takeGuard r s2 = true := by
            rcases h3 rfl with e | e
            · simp at e
            · exact e
          obtain ⟨e1, e2⟩ := foldItemsK_guard (fun s => takeGuard r s = true) step hz ys s2 a1 hg2
          exact ⟨e1.symm, fun h => by simp at h, fun _ => Or.inr e2⟩
      | false =>
        obtain ⟨e1, e2⟩ := h2 rfl
        subst e1
        subst e2
        have := ih s1 a1
        rcases foldItemsKL (takeGuard r) stepL s1 a1 ys with ⟨s3, a3, l3, b3⟩
        exact this

theorem feedKL_sim (cons : Cons) : ∀ (c : List Ad) (pos : Nat) (d : Bool) (st : St) (a : CAcc) (x : Val),
    Sim c (feedKL cons c pos d st a x) (feedK cons c d st a x) := by
  intro c
  induction c with
  | nil =>
    intro pos d st a x
    simp only [feedKL, feedK]
    rcases consStep cons a x with ⟨a', b⟩
    exact sim_same [] _ _ _ _
  | cons ad r ih =>
    intro pos d st a x
    cases st with
    | nil => cases ad <;> exact sim_same _ _ _ _ _
    | cons k st =>
      cases ad with
      | copied => simp only [feedKL, feedK]; exact sim_pass .copied k id (ih (pos + 1) d st a x)
      | map f => simp only [feedKL, feedK]; exact sim_pass (.map f) k (fun l => (pos, x) :: l) (ih (pos + 1) d st a (f x))
      | rev => simp only [feedKL, feedK]; exact sim_pass .rev k id (ih (pos + 1) (!d) st a x)
      | filter p =>
        simp only [feedKL, feedK]
        by_cases hp : p x = true
        · simp only [hp, if_true]; exact sim_pass (.filter p) k (fun l => (pos, x) :: l) (ih (pos + 1) d st a x)
        · simp only [hp, if_false, Bool.false_eq_true]; exact sim_same _ _ _ _ _
      | takeWhile p =>
        simp only [feedKL, feedK]
        by_cases hp : p x = true
        · simp only [hp, if_true]; exact sim_pass (.takeWhile p) k (fun l => (pos, x) :: l) (ih (pos + 1) d st a x)
        · simp only [hp, if_false, Bool.false_eq_true]; exact sim_same _ _ _ _ _
      | filterMap f =>
        simp only [feedKL, feedK]
        cases hfx : f x with
        | some y => exact sim_pass (.filterMap f) k (fun l => (pos, x) :: l) (ih (pos + 1) d st a y)
        | none => exact sim_same _ _ _ _ _
      | enumerate =>
        cases k with
        | nat i => simp only [feedKL, feedK]; exact sim_pass .enumerate (.nat (i + 1)) id (ih (pos + 1) d st a _)
        | u => exact sim_same _ _ _ _ _
        | flag _ => exact sim_same _ _ _ _ _
        | lst _ => exact sim_same _ _ _ _ _
      | skip n =>
        cases k with
        | nat i =>
          simp only [feedKL, feedK]
          by_cases hk : i ≠ 0
          · simp only [hk, if_true, ne_eq, not_false_eq_true]; exact sim_same _ _ _ _ _
          · simp only [hk, if_false]; exact sim_pass (.skip n) (.nat i) id (ih (pos + 1) d st a x)
        | u => exact sim_same _ _ _ _ _
        | flag _ => exact sim_same _ _ _ _ _
        | lst _ => exact sim_same _ _ _ _ _
      | take n =>
        cases k with
        | nat i =>
          simp only [feedKL, feedK]
          by_cases hk : i = 0
          · simp only [hk, if_true]; exact sim_same _ _ _ _ _
          · simp only [hk, if_false]; exact sim_pass (.take n) (.nat (i - 1)) id (ih (pos + 1) d st a x)
        | u => exact sim_same _ _ _ _ _
        | flag _ => exact sim_same _ _ _ _ _
        | lst _ => exact sim_same _ _ _ _ _
      | skipWhile p =>
        cases k with
        | flag s =>
          simp only [feedKL, feedK]
          cases s with
          | true =>
            by_cases hp : p x = true
            · simp only [hp, Bool.and_self, if_true]; exact sim_same _ _ _ _ _
            · simp only [hp, if_true, if_false, Bool.and_false, Bool.false_eq_true]
              exact sim_pass (.skipWhile p) (.flag false) (fun l => (pos, x) :: l) (ih (pos + 1) d st a x)
          | false =>
            simp only [Bool.false_and, Bool.false_eq_true, if_false]
            exact sim_pass (.skipWhile p) (.flag false) id (ih (pos + 1) d st a x)
        | u => exact sim_same _ _ _ _ _
        | nat _ => exact sim_same _ _ _ _ _
        | lst _ => exact sim_same _ _ _ _ _
      | zip l0 =>
        cases k with
        | lst l =>
          simp only [feedKL, feedK]
          cases hp : pop d l with
          | none => exact sim_same _ _ _ _ _
          | some pr =>
            obtain ⟨e, l'⟩ := pr
            exact sim_pass (.zip l0) (.lst l') id (ih (pos + 1) d st a _)
        | u => exact sim_same _ _ _ _ _
        | nat _ => exact sim_same _ _ _ _ _
        | flag _ => exact sim_same _ _ _ _ _
      | flatMap f =>
        simp only [feedKL, feedK]
        exact sim_pass (.flatMap f) k (fun l => (pos, x) :: l)
          (foldItems_sim r (feedKL cons r (pos + 1) d) (feedK cons r d) (ih (pos + 1) d)
            (fun s a' y hg => feedK_guard cons r d s a' y hg) _ st a)
      | flatten =>
        simp only [feedKL, feedK]
        exact sim_pass .flatten k id
          (foldItems_sim r (feedKL cons r (pos + 1) d) (feedK cons r d) (ih (pos + 1) d)
            (fun s a' y hg => feedK_guard cons r d s a' y hg) _ st a)

/-- the guarded, logged outer loop ends with the consumer's variables of the plain one -/
theorem runLoopKL_erase (c : List Ad) (d : Bool) (cons : Cons) :
    ∀ (xs : List Val) (st : St) (a : CAcc), (runLoopKL c d cons st a xs).1 = runLoopK c d cons st a xs := by
  intro xs
  induction xs with
  | nil => intro st a; rfl
  | cons x xs ih =>
    intro st a
    by_cases hg : takeGuard c st = true
    · simp only [runLoopKL, hg, if_true]
      exact (runLoopK_guard c d cons (x :: xs) st a hg).symm
    · simp only [runLoopKL, runLoopK, hg, if_false, Bool.false_eq_true]
      have h := feedKL_sim cons c 0 d st a x
      rcases hl : feedKL cons c 0 d st a x with ⟨s1, a1, l1, b1⟩
      rcases hk : feedK cons c d st a x with ⟨s2, a2, b2⟩
      rw [hl, hk] at h
      obtain ⟨h1, h2, h3⟩ := h
      simp only at h1 h2 h3
      subst h1
      cases b1 with
      | true =>
        cases b2 with
        | true => rfl
        | false =>
          have hg2 : takeGuard c s2 = true := by
            rcases h3 rfl with e | e
            · simp at e
            · exact e
          exact (runLoopK_guard c d cons xs s2 a1 hg2).symm
      | false =>
        obtain ⟨e1, e2⟩ := h2 rfl
        subst e1
        subst e2
        simp only
        rw [← ih s1 a1]

theorem konstEvalL_fst (c : List Ad) (cons : Cons) (src : List Val) :
    (konstEvalL c cons src).1 = konstEvalK c cons src := by
  unfold konstEvalL konstEvalK
  simp only []
  rw [← runLoopKL_erase]


/-! ## stage 6: forward fusion of the calls

For a rev-free chain driven by `next`, the calls made while one source item is pushed through the
guarded loop nest are exactly the next stretch of the calls that happen when the std chain
(Spec/IterDsl: `stdEvalE`, lazy `takeE`) is driven by the consumer; and when a guard leaves the nest,
the std chain has nothing more to say either (a `take` at 0 answers `None` without asking). -/

/-- event semantics of adapter `a` (method `pos`) whose hoisted variable currently holds `c` -/
def applyCellE (pos : Nat) : Ad → Cell → List Ev → List Ev
  | .enumerate, .nat i, e => enumE i e
  | .skip _, .nat k, e => skipE k e
  | .take _, .nat k, e => takeE k e
  | .skipWhile p, .flag s, e => skipWhileE pos p s e
  | .zip _, .lst l, e => zipE l e
  | a, _, e => applyAdE pos a e

def stdEvalStE : Nat → List Ad → St → List Ev → List Ev
  | _, [], _, e => e
  | pos, a :: r, [], e => stdEvalStE (pos + 1) r [] (applyAdE pos a e)
  | pos, a :: r, c :: st, e => stdEvalStE (pos + 1) r st (applyCellE pos a c e)

theorem skipE_call (k : Nat) (c : Call) (r : List Ev) : skipE k (.call c :: r) = .call c :: skipE k r := by
  cases k <;> rfl
theorem zipE_call (l : List Val) (c : Call) (r : List Ev) : zipE l (.call c :: r) = .call c :: zipE l r := by
  cases l <;> rfl
theorem skipWhileE_call (pos : Nat) (p : Val → Bool) (s : Bool) (c : Call) (r : List Ev) :
    skipWhileE pos p s (.call c :: r) = .call c :: skipWhileE pos p s r := by cases s <;> rfl
theorem takeE_nil (k : Nat) : takeE k [] = [] := by cases k <;> rfl
theorem skipE_nil (k : Nat) : skipE k [] = [] := by cases k <;> rfl
theorem zipE_nil (l : List Val) : zipE l [] = [] := by cases l <;> rfl
theorem skipWhileE_nil (pos : Nat) (p : Val → Bool) (s : Bool) : skipWhileE pos p s [] = [] := by cases s <;> rfl

/-- calls pass through every adapter — except a `take` that has nothing left to take -/
theorem applyCellE_call (pos : Nat) (a : Ad) (k : Cell) (c : Call) (e : List Ev)
    (h : ∀ n, a = .take n → ∃ j, k = .nat (j + 1)) :
    applyCellE pos a k (.call c :: e) = .call c :: applyCellE pos a k e := by
  cases a with
  | take n => obtain ⟨j, rfl⟩ := h n rfl; simp [applyCellE, takeE]
  | copied => cases k <;> simp [applyCellE, applyAdE]
  | enumerate => cases k <;> simp [applyCellE, applyAdE, enumE]
  | filter p => cases k <;> simp [applyCellE, applyAdE, filterE]
  | filterMap f => cases k <;> simp [applyCellE, applyAdE, filterMapE]
  | flatMap f => cases k <;> simp [applyCellE, applyAdE, flatMapE]
  | flatten => cases k <;> simp [applyCellE, applyAdE, flattenE]
  | map f => cases k <;> simp [applyCellE, applyAdE, mapE]
  | rev => cases k <;> simp [applyCellE, applyAdE]
  | skip n => cases k <;> simp [applyCellE, applyAdE, skipE_call]
  | skipWhile p => cases k <;> simp [applyCellE, applyAdE, skipWhileE_call]
  | takeWhile p => cases k <;> simp [applyCellE, applyAdE, takeWhileE]
  | zip l => cases k <;> simp [applyCellE, applyAdE, zipE_call]

theorem applyAdE_nil (pos : Nat) (a : Ad) : applyAdE pos a [] = [] := by
  cases a <;> simp [applyAdE, mapE, filterE, filterMapE, flatMapE, flattenE, enumE, skipE_nil,
    takeE_nil, takeWhileE, skipWhileE_nil, zipE_nil]

theorem applyCellE_nil (pos : Nat) (a : Ad) (k : Cell) : applyCellE pos a k [] = [] := by
  cases a <;> cases k <;> simp [applyCellE, applyAdE_nil, enumE, skipE_nil, takeE_nil,
    skipWhileE_nil, zipE_nil]

theorem stdEvalStE_nil : ∀ (c : List Ad) (pos : Nat) (st : St), stdEvalStE pos c st [] = [] := by
  intro c; induction c with
  | nil => intro pos st; rfl
  | cons a r ih =>
    intro pos st
    cases st with
    | nil => simp [stdEvalStE, applyAdE_nil, ih]
    | cons k st => simp [stdEvalStE, applyCellE_nil, ih]

private theorem guard_cons {a : Ad} {r : List Ad} {k : Cell} {st : St}
    (hw : WF (a :: r) (k :: st)) (hg : takeGuard (a :: r) (k :: st) = false) :
    takeGuard r st = false ∧ ∀ n, a = .take n → ∃ j, k = .nat (j + 1) := by
  cases a with
  | take n =>
    obtain ⟨⟨i, rfl⟩, _⟩ : (∃ i, k = .nat i) ∧ WF r st := by simpa [WF] using hw
    simp only [takeGuard, Bool.or_eq_false_iff, beq_eq_false_iff_ne] at hg
    exact ⟨hg.2, fun _ _ => ⟨i - 1, by have := hg.1; congr; omega⟩⟩
  | _ => exact ⟨by simpa [takeGuard] using hg, fun _ h => by cases h⟩

theorem stdEvalStE_call : ∀ (c : List Ad) (pos : Nat) (st : St) (e : Call) (E : List Ev),
    WF c st → takeGuard c st = false →
    stdEvalStE pos c st (.call e :: E) = .call e :: stdEvalStE pos c st E := by
  intro c; induction c with
  | nil => intro pos st e E _ _; rfl
  | cons a r ih =>
    intro pos st e E hw hg
    cases st with
    | nil => simp [WF] at hw
    | cons k st =>
      obtain ⟨hr, hk⟩ := guard_cons hw hg
      simp only [stdEvalStE, applyCellE_call pos a k e E hk, ih _ _ _ _ (wf_tail hw) hr]

theorem stdEvalStE_calls (c : List Ad) (pos : Nat) (st : St) (hw : WF c st) (hg : takeGuard c st = false) :
    ∀ (pre : Log) (E : List Ev),
    stdEvalStE pos c st (pre.map .call ++ E) = pre.map .call ++ stdEvalStE pos c st E := by
  intro pre; induction pre with
  | nil => intro E; rfl
  | cons e pre ih => intro E; simp [stdEvalStE_call c pos st _ _ hw hg, ih]

/-- a `take` that has counted down to 0 ends the std stream without asking the methods before it -/
theorem stdEvalStE_guard : ∀ (c : List Ad) (pos : Nat) (st : St) (E : List Ev),
    takeGuard c st = true → stdEvalStE pos c st E = [] := by
  intro c; induction c with
  | nil => intro pos st E h; simp [takeGuard] at h
  | cons a r ih =>
    intro pos st E h
    cases st with
    | nil => simp [takeGuard] at h
    | cons k st =>
      cases a with
      | take n =>
        cases k with
        | nat i =>
          by_cases hi : i = 0
          · subst hi; simp [stdEvalStE, applyCellE, takeE, stdEvalStE_nil]
          · have hr : takeGuard r st = true := by simpa [takeGuard, hi] using h
            simp only [stdEvalStE]; exact ih _ _ _ hr
        | u => simp only [stdEvalStE]; exact ih _ _ _ (by simpa [takeGuard] using h)
        | flag _ => simp only [stdEvalStE]; exact ih _ _ _ (by simpa [takeGuard] using h)
        | lst _ => simp only [stdEvalStE]; exact ih _ _ _ (by simpa [takeGuard] using h)
      | _ => simp only [stdEvalStE]; exact ih _ _ _ (by simpa [takeGuard] using h)

theorem consumeCalls_call (P : Nat) (c : Cons) (e : Call) (E : List Ev) :
    consumeCalls P c (.call e :: E) = e :: consumeCalls P c E := by
  cases c <;> simp [consumeCalls]

theorem consumeCalls_calls (P : Nat) (c : Cons) : ∀ (pre : Log) (E : List Ev),
    consumeCalls P c (pre.map .call ++ E) = pre ++ consumeCalls P c E := by
  intro pre; induction pre with
  | nil => intro E; rfl
  | cons e pre ih => intro E; simp [consumeCalls_call, ih]

theorem consumeCalls_nil (P : Nat) (c : Cons) : consumeCalls P c [] = [] := by
  cases c <;> simp [consumeCalls]

/-- the consumer that remains to be run when the consumer's variables hold `a`:
    `fold` continues from the accumulated value, `nth` from its countdown -/
def resid : Cons → CAcc → Cons
  | .fold i f, a => (match a.ret with | .val acc => .fold acc f | _ => .fold i f)
  | .rfold i f, a => (match a.ret with | .val acc => .rfold acc f | _ => .rfold i f)
  | .nth _, a => .nth a.k
  | c, _ => c

/-- the return variable of `fold`/`rfold` holds a value -/
def CWF : Cons → CAcc → Prop
  | .fold _ _, a => ∃ acc, a.ret = .val acc
  | .rfold _ _, a => ∃ acc, a.ret = .val acc
  | _, _ => True

theorem cwf_init (c : Cons) : CWF c (consInit c) := by
  cases c <;> simp [CWF, consInit]

theorem resid_init (c : Cons) : resid c (consInit c) = c := by
  cases c <;> simp [resid, consInit]

/-- the consumer's code on one item = the next step of `consumeCalls` -/
theorem consStep_calls (P : Nat) (cons : Cons) (a : CAcc) (x : Val) (a' : CAcc) (b : Bool)
    (hw : CWF cons a) (h : consStep cons a x = (a', b)) :
    CWF cons a' ∧ ∀ E, consumeCalls P (resid cons a) (.item x :: E) =
      consCall P cons a x ++ (if b then [] else consumeCalls P (resid cons a') E) := by
  cases cons with
  | forEach =>
    simp only [consStep, Prod.mk.injEq] at h; obtain ⟨rfl, rfl⟩ := h
    exact ⟨trivial, by intro E; simp [resid, consumeCalls, consCall]⟩
  | collect =>
    simp only [consStep, Prod.mk.injEq] at h; obtain ⟨rfl, rfl⟩ := h
    exact ⟨trivial, by intro E; simp [resid, consumeCalls, consCall]⟩
  | count =>
    simp only [consStep, Prod.mk.injEq] at h; obtain ⟨rfl, rfl⟩ := h
    exact ⟨trivial, by intro E; simp [resid, consumeCalls, consCall]⟩
  | all p =>
    simp only [consStep] at h
    by_cases hp : p x = true <;> simp [hp] at h <;> obtain ⟨rfl, rfl⟩ := h <;>
      exact ⟨trivial, by intro E; simp [resid, consumeCalls, consCall, hp]⟩
  | any p =>
    simp only [consStep] at h
    by_cases hp : p x = true <;> simp [hp] at h <;> obtain ⟨rfl, rfl⟩ := h <;>
      exact ⟨trivial, by intro E; simp [resid, consumeCalls, consCall, hp]⟩
  | find p =>
    simp only [consStep] at h
    by_cases hp : p x = true <;> simp [hp] at h <;> obtain ⟨rfl, rfl⟩ := h <;>
      exact ⟨trivial, by intro E; simp [resid, consumeCalls, consCall, hp]⟩
  | rfind p =>
    simp only [consStep] at h
    by_cases hp : p x = true <;> simp [hp] at h <;> obtain ⟨rfl, rfl⟩ := h <;>
      exact ⟨trivial, by intro E; simp [resid, consumeCalls, consCall, hp]⟩
  | position p =>
    simp only [consStep] at h
    by_cases hp : p x = true <;> simp [hp] at h <;> obtain ⟨rfl, rfl⟩ := h <;>
      exact ⟨trivial, by intro E; simp [resid, consumeCalls, consCall, hp]⟩
  | rposition p =>
    simp only [consStep] at h
    by_cases hp : p x = true <;> simp [hp] at h <;> obtain ⟨rfl, rfl⟩ := h <;>
      exact ⟨trivial, by intro E; simp [resid, consumeCalls, consCall, hp]⟩
  | findMap f =>
    simp only [consStep] at h
    cases hf : f x <;> simp [hf] at h <;> obtain ⟨rfl, rfl⟩ := h <;>
      exact ⟨trivial, by intro E; simp [resid, consumeCalls, consCall, hf]⟩
  | fold i f =>
    obtain ⟨acc, hacc⟩ := hw
    simp only [consStep, hacc, Prod.mk.injEq] at h; obtain ⟨rfl, rfl⟩ := h
    exact ⟨⟨_, rfl⟩, by intro E; simp [resid, consumeCalls, consCall, hacc]⟩
  | rfold i f =>
    obtain ⟨acc, hacc⟩ := hw
    simp only [consStep, hacc, Prod.mk.injEq] at h; obtain ⟨rfl, rfl⟩ := h
    exact ⟨⟨_, rfl⟩, by intro E; simp [resid, consumeCalls, consCall, hacc]⟩
  | next =>
    simp only [consStep, Prod.mk.injEq] at h; obtain ⟨rfl, rfl⟩ := h
    exact ⟨trivial, by intro E; simp [resid, consumeCalls, consCall]⟩
  | nth n =>
    simp only [consStep] at h
    by_cases hk : a.k = 0
    · simp [hk] at h; obtain ⟨rfl, rfl⟩ := h
      exact ⟨trivial, by intro E; simp [resid, consumeCalls, consCall, hk]⟩
    · simp [hk] at h; obtain ⟨rfl, rfl⟩ := h
      refine ⟨trivial, ?_⟩
      intro E
      obtain ⟨j, hj⟩ : ∃ j, a.k = j + 1 := ⟨a.k - 1, by omega⟩
      simp [resid, consumeCalls, consCall, hj]



/-- one pushed item against the event semantics of the residual chain; `P` = the consumer's position -/
def StepLOK (cons : Cons) (c : List Ad) (pos P : Nat) : Prop :=
  ∀ st a x st' a' l b, WF c st → takeGuard c st = false → CWF cons a →
    feedKL cons c pos false st a x = (st', a', l, b) →
    WF c st' ∧ CWF cons a' ∧ ∀ E, consumeCalls P (resid cons a) (stdEvalStE pos c st (.item x :: E)) =
      l ++ (if b then [] else consumeCalls P (resid cons a') (stdEvalStE pos c st' E))

/-- the nested loop over an inner iterator, with its guard at the top of every turn -/
theorem manyL_of_step (cons : Cons) (c : List Ad) (pos P : Nat) (h : StepLOK cons c pos P) :
    ∀ ys st a st' a' l b, WF c st → CWF cons a →
      foldItemsKL (takeGuard c) (feedKL cons c pos false) st a ys = (st', a', l, b) →
      WF c st' ∧ CWF cons a' ∧ ∀ E, consumeCalls P (resid cons a) (stdEvalStE pos c st (ys.map .item ++ E)) =
        l ++ (if b then [] else consumeCalls P (resid cons a') (stdEvalStE pos c st' E)) := by
  intro ys
  induction ys with
  | nil =>
    intro st a st' a' l b hw hc he
    simp only [foldItemsKL] at he
    by_cases hg : takeGuard c st = true
    · simp only [hg, if_true, Prod.mk.injEq] at he
      obtain ⟨rfl, rfl, rfl, rfl⟩ := he
      exact ⟨hw, hc, by intro E; simp [stdEvalStE_guard c pos st _ hg, consumeCalls_nil]⟩
    · simp only [hg, if_false, Bool.false_eq_true, Prod.mk.injEq] at he
      obtain ⟨rfl, rfl, rfl, rfl⟩ := he
      exact ⟨hw, hc, by intro E; simp⟩
  | cons y ys ih =>
    intro st a st' a' l b hw hc he
    simp only [foldItemsKL] at he
    by_cases hg : takeGuard c st = true
    · simp only [hg, if_true, Prod.mk.injEq] at he
      obtain ⟨rfl, rfl, rfl, rfl⟩ := he
      exact ⟨hw, hc, by intro E; simp [stdEvalStE_guard c pos st _ hg, consumeCalls_nil]⟩
    · simp only [hg, if_false, Bool.false_eq_true] at he
      have hg' : takeGuard c st = false := by simpa using hg
      rcases hfe : feedKL cons c pos false st a y with ⟨s1, a1, l1, b1⟩
      rw [hfe] at he
      obtain ⟨hw1, hc1, h1⟩ := h st a y s1 a1 l1 b1 hw hg' hc hfe
      cases b1 with
      | true =>
        simp only [Prod.mk.injEq] at he
        obtain ⟨rfl, rfl, rfl, rfl⟩ := he
        exact ⟨hw1, hc1, by intro E; simpa using h1 (ys.map .item ++ E)⟩
      | false =>
        dsimp only at he
        rcases hfo : foldItemsKL (takeGuard c) (feedKL cons c pos false) s1 a1 ys with ⟨s2, a2, l2, b2⟩
        rw [hfo] at he
        simp only [Prod.mk.injEq] at he
        obtain ⟨rfl, rfl, rfl, rfl⟩ := he
        obtain ⟨hw2, hc2, h2⟩ := ih s1 a1 s2 a2 l2 b2 hw1 hc1 hfo
        refine ⟨hw2, hc2, ?_⟩
        intro E
        have e1 := h1 (ys.map .item ++ E)
        simp only [Bool.false_eq_true, if_false] at e1
        simp only [List.map_cons, List.cons_append]
        rw [e1, h2 E, List.append_assoc]

/-- the item (possibly transformed) goes on to the rest of the chain after the calls `pre` -/
private theorem stepL_pass {cons : Cons} {r : List Ad} {pos P : Nat} (ih : StepLOK cons r (pos + 1) P)
    {ad : Ad} {k k' : Cell} {st : St} {acc : CAcc} {x y : Val} (pre : Log)
    {st' : St} {a' : CAcc} {l : Log} {b : Bool}
    (hw : WF (ad :: r) (k :: st)) (hg : takeGuard r st = false) (hc : CWF cons acc)
    (hwk : ∀ s, WF r s → WF (ad :: r) (k' :: s))
    (he : (match feedKL cons r (pos + 1) false st acc y with
            | (s, a2, l2, b2) => ((k' :: s, a2, pre ++ l2, b2) : St × CAcc × Log × Bool)) = (st', a', l, b))
    (hcell : ∀ E, applyCellE pos ad k (.item x :: E) = pre.map .call ++ .item y :: applyCellE pos ad k' E) :
    WF (ad :: r) st' ∧ CWF cons a' ∧ ∀ E,
      consumeCalls P (resid cons acc) (stdEvalStE pos (ad :: r) (k :: st) (.item x :: E)) =
        l ++ (if b then [] else consumeCalls P (resid cons a') (stdEvalStE pos (ad :: r) st' E)) := by
  rcases hf : feedKL cons r (pos + 1) false st acc y with ⟨s1, a1, l1, b1⟩
  rw [hf] at he; simp only [Prod.mk.injEq] at he; obtain ⟨rfl, rfl, rfl, rfl⟩ := he
  obtain ⟨hw1, hc1, h1⟩ := ih st acc y s1 a1 l1 b1 (wf_tail hw) hg hc hf
  refine ⟨hwk s1 hw1, hc1, ?_⟩
  intro E
  simp only [stdEvalStE]
  rw [hcell, stdEvalStE_calls r (pos + 1) st (wf_tail hw) hg, consumeCalls_calls, h1, List.append_assoc]

/-- the item is dropped after the calls `pre` (`continue`) -/
private theorem stepL_drop {cons : Cons} {r : List Ad} {pos P : Nat}
    {ad : Ad} {k k' : Cell} {st : St} {acc : CAcc} {x : Val} (pre : Log)
    {st' : St} {a' : CAcc} {l : Log} {b : Bool}
    (hw : WF (ad :: r) (k :: st)) (hg : takeGuard r st = false)
    (hc : CWF cons acc) (hwk : WF (ad :: r) (k' :: st))
    (he : ((k' :: st, acc, pre, false) : St × CAcc × Log × Bool) = (st', a', l, b))
    (hcell : ∀ E, applyCellE pos ad k (.item x :: E) = pre.map .call ++ applyCellE pos ad k' E) :
    WF (ad :: r) st' ∧ CWF cons a' ∧ ∀ E,
      consumeCalls P (resid cons acc) (stdEvalStE pos (ad :: r) (k :: st) (.item x :: E)) =
        l ++ (if b then [] else consumeCalls P (resid cons a') (stdEvalStE pos (ad :: r) st' E)) := by
  simp only [Prod.mk.injEq] at he; obtain ⟨rfl, rfl, rfl, rfl⟩ := he
  refine ⟨hwk, hc, ?_⟩
  intro E
  simp only [stdEvalStE, Bool.false_eq_true, if_false]
  rw [hcell, stdEvalStE_calls r (pos + 1) st (wf_tail hw) hg, consumeCalls_calls]

/-- the stream ends after the calls `pre` (`break 'label`) -/
private theorem stepL_stop {cons : Cons} {r : List Ad} {pos P : Nat}
    {ad : Ad} {k : Cell} {st : St} {acc : CAcc} {x : Val} (pre : Log)
    {st' : St} {a' : CAcc} {l : Log} {b : Bool}
    (hw : WF (ad :: r) (k :: st)) (hg : takeGuard r st = false) (hc : CWF cons acc)
    (he : ((k :: st, acc, pre, true) : St × CAcc × Log × Bool) = (st', a', l, b))
    (hcell : ∀ E, applyCellE pos ad k (.item x :: E) = pre.map .call) :
    WF (ad :: r) st' ∧ CWF cons a' ∧ ∀ E,
      consumeCalls P (resid cons acc) (stdEvalStE pos (ad :: r) (k :: st) (.item x :: E)) =
        l ++ (if b then [] else consumeCalls P (resid cons a') (stdEvalStE pos (ad :: r) st' E)) := by
  simp only [Prod.mk.injEq] at he; obtain ⟨rfl, rfl, rfl, rfl⟩ := he
  refine ⟨hw, hc, ?_⟩
  intro E
  simp only [stdEvalStE, if_true]
  rw [hcell]
  have := consumeCalls_calls P (resid cons acc) pre (stdEvalStE (pos + 1) r st [])
  have e2 := stdEvalStE_calls r (pos + 1) st (wf_tail hw) hg pre []
  simp only [List.append_nil] at e2
  rw [e2, stdEvalStE_nil, consumeCalls_nil] at *
  simpa using this

/-- the item is replaced by the items `ys` of an inner iterator after the calls `pre` -/
private theorem stepL_flat {cons : Cons} {r : List Ad} {pos P : Nat} (ih : StepLOK cons r (pos + 1) P)
    {ad : Ad} {k : Cell} {st : St} {acc : CAcc} {x : Val} (pre : Log) (ys : List Val)
    {st' : St} {a' : CAcc} {l : Log} {b : Bool}
    (hw : WF (ad :: r) (k :: st)) (hg : takeGuard r st = false) (hc : CWF cons acc)
    (hwk : ∀ s, WF r s → WF (ad :: r) (k :: s))
    (he : (match foldItemsKL (takeGuard r) (feedKL cons r (pos + 1) false) st acc ys with
            | (s, a2, l2, b2) => ((k :: s, a2, pre ++ l2, b2) : St × CAcc × Log × Bool)) = (st', a', l, b))
    (hcell : ∀ E, applyCellE pos ad k (.item x :: E) = pre.map .call ++ (ys.map .item ++ applyCellE pos ad k E)) :
    WF (ad :: r) st' ∧ CWF cons a' ∧ ∀ E,
      consumeCalls P (resid cons acc) (stdEvalStE pos (ad :: r) (k :: st) (.item x :: E)) =
        l ++ (if b then [] else consumeCalls P (resid cons a') (stdEvalStE pos (ad :: r) st' E)) := by
  rcases hf : foldItemsKL (takeGuard r) (feedKL cons r (pos + 1) false) st acc ys with ⟨s1, a1, l1, b1⟩
  rw [hf] at he; simp only [Prod.mk.injEq] at he; obtain ⟨rfl, rfl, rfl, rfl⟩ := he
  obtain ⟨hw1, hc1, h1⟩ := manyL_of_step cons r (pos + 1) P ih ys st acc s1 a1 l1 b1 (wf_tail hw) hc hf
  refine ⟨hwk s1 hw1, hc1, ?_⟩
  intro E
  simp only [stdEvalStE]
  rw [hcell, stdEvalStE_calls r (pos + 1) st (wf_tail hw) hg, consumeCalls_calls, h1, List.append_assoc]

theorem stepLOK (cons : Cons) : ∀ c, NoRev c → ∀ pos P, P = pos + c.length → StepLOK cons c pos P := by
  intro c
  induction c with
  | nil =>
    intro _ pos P hP st a x st' a' l b hw _ hc he
    simp only [List.length_nil, Nat.add_zero] at hP
    subst hP
    simp only [feedKL] at he
    rcases hs : consStep cons a x with ⟨a1, b1⟩
    rw [hs] at he; simp only [Prod.mk.injEq] at he; obtain ⟨rfl, rfl, rfl, rfl⟩ := he
    obtain ⟨hc1, h1⟩ := consStep_calls P cons a x a1 b1 hc hs
    exact ⟨hw, hc1, by intro E; simpa [stdEvalStE] using h1 E⟩
  | cons ad r ih =>
    intro hnr pos P hP st a x st' a' l b hw hg0 hc he
    have hP' : P = (pos + 1) + r.length := by simp only [List.length_cons] at hP; omega
    cases st with
    | nil => simp [WF] at hw
    | cons k st =>
      have hwr : WF r st := wf_tail hw
      obtain ⟨hg, hpos⟩ := guard_cons hw hg0
      cases ad with
      | rev => simp [NoRev] at hnr
      | copied =>
        have ih' := ih (by simpa [NoRev] using hnr) (pos + 1) P hP'
        simp only [feedKL] at he
        exact stepL_pass ih' [] hw hg hc (fun s h => by simpa [WF] using h) he
          (by intro E; cases k <;> simp [applyCellE, applyAdE, applyAdE])
      | map f =>
        have ih' := ih (by simpa [NoRev] using hnr) (pos + 1) P hP'
        simp only [feedKL] at he
        exact stepL_pass ih' [(pos, x)] hw hg hc (fun s h => by simpa [WF] using h) he
          (by intro E; cases k <;> simp [applyCellE, applyAdE, applyAdE, mapE])
      | filter p =>
        have ih' := ih (by simpa [NoRev] using hnr) (pos + 1) P hP'
        simp only [feedKL] at he
        by_cases hp : p x = true
        · rw [if_pos hp] at he
          exact stepL_pass ih' [(pos, x)] hw hg hc (fun s h => by simpa [WF] using h) he
            (by intro E; cases k <;> simp [applyCellE, applyAdE, applyAdE, filterE, hp])
        · rw [if_neg hp] at he
          exact stepL_drop [(pos, x)] hw hg hc hw he
            (by intro E; cases k <;> simp [applyCellE, applyAdE, applyAdE, filterE, hp])
      | filterMap f =>
        have ih' := ih (by simpa [NoRev] using hnr) (pos + 1) P hP'
        simp only [feedKL] at he
        cases hfx : f x with
        | some y =>
          rw [hfx] at he
          exact stepL_pass ih' [(pos, x)] hw hg hc (fun s h => by simpa [WF] using h) he
            (by intro E; cases k <;> simp [applyCellE, applyAdE, applyAdE, filterMapE, hfx])
        | none =>
          rw [hfx] at he
          exact stepL_drop [(pos, x)] hw hg hc hw he
            (by intro E; cases k <;> simp [applyCellE, applyAdE, applyAdE, filterMapE, hfx])
      | takeWhile p =>
        have ih' := ih (by simpa [NoRev] using hnr) (pos + 1) P hP'
        simp only [feedKL] at he
        by_cases hp : p x = true
        · rw [if_pos hp] at he
          exact stepL_pass ih' [(pos, x)] hw hg hc (fun s h => by simpa [WF] using h) he
            (by intro E; cases k <;> simp [applyCellE, applyAdE, applyAdE, takeWhileE, hp])
        · rw [if_neg hp] at he
          exact stepL_stop [(pos, x)] hw hg hc he
            (by intro E; cases k <;> simp [applyCellE, applyAdE, applyAdE, takeWhileE, hp])
      | enumerate =>
        have ih' := ih (by simpa [NoRev] using hnr) (pos + 1) P hP'
        obtain ⟨⟨i, rfl⟩, _⟩ : (∃ i, k = .nat i) ∧ WF r st := by simpa [WF] using hw
        simp only [feedKL] at he
        exact stepL_pass ih' [] hw hg hc (fun s h => by simp [WF, h]) he
          (by intro E; simp [applyCellE, enumE])
      | skip n =>
        have ih' := ih (by simpa [NoRev] using hnr) (pos + 1) P hP'
        obtain ⟨⟨i, rfl⟩, _⟩ : (∃ i, k = .nat i) ∧ WF r st := by simpa [WF] using hw
        simp only [feedKL] at he
        by_cases hk : i ≠ 0
        · rw [if_pos hk] at he
          obtain ⟨j, rfl⟩ : ∃ j, i = j + 1 := ⟨i - 1, by omega⟩
          exact stepL_drop [] hw hg hc (by simp [WF, hwr]) he (by intro E; simp [applyCellE, skipE])
        · rw [if_neg hk] at he
          have hk0 : i = 0 := by omega
          subst hk0
          exact stepL_pass ih' [] hw hg hc (fun s h => by simp [WF, h]) he
            (by intro E; simp [applyCellE, skipE])
      | take n =>
        have ih' := ih (by simpa [NoRev] using hnr) (pos + 1) P hP'
        obtain ⟨⟨i, rfl⟩, _⟩ : (∃ i, k = .nat i) ∧ WF r st := by simpa [WF] using hw
        simp only [feedKL] at he
        by_cases hk : i = 0
        · subst hk
          obtain ⟨j, hj⟩ := hpos n rfl
          simp at hj
        · rw [if_neg hk] at he
          obtain ⟨j, rfl⟩ : ∃ j, i = j + 1 := ⟨i - 1, by omega⟩
          exact stepL_pass ih' [] hw hg hc (fun s h => by simp [WF, h]) he
            (by intro E; simp [applyCellE, takeE])
      | skipWhile p =>
        have ih' := ih (by simpa [NoRev] using hnr) (pos + 1) P hP'
        obtain ⟨⟨s, rfl⟩, _⟩ : (∃ s, k = .flag s) ∧ WF r st := by simpa [WF] using hw
        simp only [feedKL] at he
        cases s with
        | true =>
          simp only [if_true] at he
          by_cases hp : p x = true
          · rw [if_pos hp] at he
            exact stepL_drop [(pos, x)] hw hg hc hw he (by intro E; simp [applyCellE, skipWhileE, hp])
          · rw [if_neg hp] at he
            exact stepL_pass ih' [(pos, x)] hw hg hc (fun s h => by simp [WF, h]) he
              (by intro E; simp [applyCellE, skipWhileE, hp])
        | false =>
          simp only [Bool.false_eq_true, if_false] at he
          exact stepL_pass ih' [] hw hg hc (fun s h => by simp [WF, h]) he
            (by intro E; simp [applyCellE, skipWhileE])
      | zip l0 =>
        have ih' := ih (by simpa [NoRev] using hnr) (pos + 1) P hP'
        obtain ⟨⟨lz, rfl⟩, _⟩ : (∃ l, k = .lst l) ∧ WF r st := by simpa [WF] using hw
        simp only [feedKL, pop] at he
        cases lz with
        | nil =>
          simp only [Bool.false_eq_true, if_false] at he
          exact stepL_stop [] hw hg hc he (by intro E; simp [applyCellE, zipE])
        | cons e lz' =>
          simp only [Bool.false_eq_true, if_false] at he
          exact stepL_pass ih' [] hw hg hc (fun s h => by simp [WF, h]) he
            (by intro E; simp [applyCellE, zipE])
      | flatMap f =>
        have ih' := ih (by simpa [NoRev] using hnr) (pos + 1) P hP'
        simp only [feedKL, walk, Bool.false_eq_true, if_false] at he
        exact stepL_flat ih' [(pos, x)] (f x) hw hg hc (fun s h => by simpa [WF] using h) he
          (by intro E; cases k <;> simp [applyCellE, applyAdE, applyAdE, flatMapE])
      | flatten =>
        have ih' := ih (by simpa [NoRev] using hnr) (pos + 1) P hP'
        simp only [feedKL, walk, Bool.false_eq_true, if_false] at he
        exact stepL_flat ih' [] (unseq x) hw hg hc (fun s h => by simpa [WF] using h) he
          (by intro E; cases k <;> simp [applyCellE, applyAdE, applyAdE, flattenE])



theorem stdEvalStE_init : ∀ (c : List Ad) (pos : Nat) (E : List Ev),
    stdEvalStE pos c (initSt c) E = stdEvalE pos c E := by
  intro c; induction c with
  | nil => intro pos E; rfl
  | cons a r ih =>
    intro pos E
    cases a <;> simp [stdEvalStE, initSt, applyCellE, stdEvalE, applyAdE, ih]

/-- the whole forward loop: its calls are the calls of the consumer driving the residual std chain -/
theorem runLoopKL_fwd (c : List Ad) (hnr : NoRev c) (cons : Cons) :
    ∀ (xs : List Val) (st : St) (a : CAcc), WF c st → CWF cons a →
      (runLoopKL c false cons st a xs).2 =
        consumeCalls c.length (resid cons a) (stdEvalStE 0 c st (xs.map .item)) := by
  intro xs
  induction xs with
  | nil => intro st a _ _; simp [runLoopKL, stdEvalStE_nil, consumeCalls_nil]
  | cons x xs ih =>
    intro st a hw hc
    by_cases hg : takeGuard c st = true
    · simp [runLoopKL, hg, stdEvalStE_guard c 0 st _ hg, consumeCalls_nil]
    · have hg' : takeGuard c st = false := by simpa using hg
      simp only [runLoopKL, hg', Bool.false_eq_true, if_false, List.map_cons]
      rcases hf : feedKL cons c 0 false st a x with ⟨s1, a1, l1, b1⟩
      obtain ⟨hw1, hc1, h1⟩ := stepLOK cons c hnr 0 c.length (by simp) st a x s1 a1 l1 b1 hw hg' hc hf
      rw [h1]
      cases b1 with
      | true => simp
      | false =>
        simp only [Bool.false_eq_true, if_false]
        rw [← ih s1 a1 hw1 hc1]

theorem anyRev_eq_hasRev : ∀ c : List Ad, anyRev c = hasRev c := by
  intro c; induction c with
  | nil => rfl
  | cons a r ih => cases a <;> simp [anyRev, hasRev, ih]

/-! ## stage 8: the direction token — the logged loop nest under direction `d` is the forward logged
    loop nest of the normalised chain `fwd c d` (same method positions) on mirrored zip states -/

def mapStL (g : St → St) : St × CAcc × Log × Bool → St × CAcc × Log × Bool
  | (s, a, l, b) => (g s, a, l, b)

theorem foldItemsKL_congr (g : St → St) (stop1 stop2 : St → Bool) (hstop : ∀ st, stop2 (g st) = stop1 st)
    (s1 s2 : St → CAcc → Val → St × CAcc × Log × Bool)
    (h : ∀ st a x, s2 (g st) a x = mapStL g (s1 st a x)) :
    ∀ ys st a, foldItemsKL stop2 s2 (g st) a ys = mapStL g (foldItemsKL stop1 s1 st a ys) := by
  intro ys
  induction ys with
  | nil => intro st a; simp only [foldItemsKL, hstop]; cases stop1 st <;> simp [mapStL]
  | cons y ys ih =>
    intro st a
    simp only [foldItemsKL, hstop]
    cases hst : stop1 st with
    | true => simp [mapStL]
    | false =>
    simp only [Bool.false_eq_true, if_false]
    rw [h st a y]
    rcases hs : s1 st a y with ⟨s', a', l, b⟩
    cases b with
    | true => simp [mapStL]
    | false =>
      simp only [mapStL]
      rw [ih s' a']
      rcases foldItemsKL stop1 s1 s' a' ys with ⟨s2', a2, l2, b2⟩
      simp [mapStL]

/-- `fwd` turns `flatten` into a `flat_map` (whose closure would be a logged call): chains with
    `flatten` are outside this stage -/
def noFlatten : List Ad → Bool
  | [] => true
  | .flatten :: _ => false
  | _ :: r => noFlatten r

theorem takeGuard_fwd : ∀ (c : List Ad) (d : Bool) (st : St),
    takeGuard (fwd c d) (fwdSt c d st) = takeGuard c st := by
  intro c; induction c with
  | nil => intro d st; cases st <;> simp [fwd, fwdSt, takeGuard]
  | cons a r ih =>
    intro d st
    cases st with
    | nil => cases a <;> simp [fwd, fwdSt, takeGuard]
    | cons k st => cases a <;> simp [fwd, fwdSt, takeGuard, ih]

theorem feedKL_fwd (cons : Cons) : ∀ (c : List Ad), noFlatten c = true →
    ∀ (pos : Nat) (d : Bool) (st : St) (a : CAcc) (x : Val),
    feedKL cons (fwd c d) pos false (fwdSt c d st) a x = mapStL (fwdSt c d) (feedKL cons c pos d st a x) := by
  intro c
  induction c with
  | nil =>
    intro _ pos d st a x
    simp only [feedKL, fwd, fwdSt]
    rcases consStep cons a x with ⟨a', b⟩
    simp [mapStL]
  | cons ad r ih0 =>
    intro hnf pos d st a x
    have ih : noFlatten r = true → ∀ (pos : Nat) (d : Bool) (st : St) (a : CAcc) (x : Val),
        feedKL cons (fwd r d) pos false (fwdSt r d st) a x = mapStL (fwdSt r d) (feedKL cons r pos d st a x) := ih0
    cases st with
    | nil => cases ad <;> simp [feedKL, fwd, fwdSt, mapStL]
    | cons k st =>
      cases ad with
      | rev =>
        simp only [feedKL, fwd, fwdSt, ih (by simpa [noFlatten] using hnf) (pos + 1) (!d) st a x]
        rcases feedKL cons r (pos + 1) (!d) st a x with ⟨s, a', l, b⟩; simp [mapStL, fwdSt]
      | copied =>
        simp only [feedKL, fwd, fwdSt, ih (by simpa [noFlatten] using hnf) (pos + 1) d st a x]
        rcases feedKL cons r (pos + 1) d st a x with ⟨s, a', l, b⟩; simp [mapStL, fwdSt]
      | map f =>
        simp only [feedKL, fwd, fwdSt, ih (by simpa [noFlatten] using hnf) (pos + 1) d st a (f x)]
        rcases feedKL cons r (pos + 1) d st a (f x) with ⟨s, a', l, b⟩; simp [mapStL, fwdSt]
      | filter p =>
        simp only [feedKL, fwd, fwdSt]
        by_cases hp : p x = true
        · simp only [hp, if_true, ih (by simpa [noFlatten] using hnf) (pos + 1) d st a x]
          rcases feedKL cons r (pos + 1) d st a x with ⟨s, a', l, b⟩; simp [mapStL, fwdSt]
        · simp [hp, mapStL, fwdSt]
      | filterMap f =>
        simp only [feedKL, fwd, fwdSt]
        cases hfx : f x with
        | some y =>
          simp only [ih (by simpa [noFlatten] using hnf) (pos + 1) d st a y]
          rcases feedKL cons r (pos + 1) d st a y with ⟨s, a', l, b⟩; simp [mapStL, fwdSt]
        | none => simp [mapStL, fwdSt]
      | takeWhile p =>
        simp only [feedKL, fwd, fwdSt]
        by_cases hp : p x = true
        · simp only [hp, if_true, ih (by simpa [noFlatten] using hnf) (pos + 1) d st a x]
          rcases feedKL cons r (pos + 1) d st a x with ⟨s, a', l, b⟩; simp [mapStL, fwdSt]
        · simp [hp, mapStL, fwdSt]
      | enumerate =>
        cases k with
        | nat i =>
          simp only [feedKL, fwd, fwdSt, ih (by simpa [noFlatten] using hnf) (pos + 1) d st a (.pair (.n i) x)]
          rcases feedKL cons r (pos + 1) d st a (.pair (.n i) x) with ⟨s, a', l, b⟩; simp [mapStL, fwdSt]
        | u => simp [feedKL, fwd, fwdSt, mapStL]
        | flag _ => simp [feedKL, fwd, fwdSt, mapStL]
        | lst _ => simp [feedKL, fwd, fwdSt, mapStL]
      | skip n =>
        cases k with
        | nat i =>
          simp only [feedKL, fwd, fwdSt]
          by_cases hk : i ≠ 0
          · simp [hk, mapStL, fwdSt]
          · simp only [hk, if_false, ih (by simpa [noFlatten] using hnf) (pos + 1) d st a x]
            rcases feedKL cons r (pos + 1) d st a x with ⟨s, a', l, b⟩; simp [mapStL, fwdSt]
        | u => simp [feedKL, fwd, fwdSt, mapStL]
        | flag _ => simp [feedKL, fwd, fwdSt, mapStL]
        | lst _ => simp [feedKL, fwd, fwdSt, mapStL]
      | take n =>
        cases k with
        | nat i =>
          simp only [feedKL, fwd, fwdSt]
          by_cases hk : i = 0
          · simp [hk, mapStL, fwdSt]
          · simp only [hk, if_false, ih (by simpa [noFlatten] using hnf) (pos + 1) d st a x]
            rcases feedKL cons r (pos + 1) d st a x with ⟨s, a', l, b⟩; simp [mapStL, fwdSt]
        | u => simp [feedKL, fwd, fwdSt, mapStL]
        | flag _ => simp [feedKL, fwd, fwdSt, mapStL]
        | lst _ => simp [feedKL, fwd, fwdSt, mapStL]
      | skipWhile p =>
        cases k with
        | flag s =>
          simp only [feedKL, fwd, fwdSt]
          cases s with
          | true =>
            by_cases hp : p x = true
            · simp [hp, mapStL, fwdSt]
            · simp only [hp, if_true, if_false, Bool.false_eq_true, ih (by simpa [noFlatten] using hnf) (pos + 1) d st a x]
              rcases feedKL cons r (pos + 1) d st a x with ⟨s', a', l, b⟩; simp [mapStL, fwdSt]
          | false =>
            simp only [Bool.false_eq_true, if_false, ih (by simpa [noFlatten] using hnf) (pos + 1) d st a x]
            rcases feedKL cons r (pos + 1) d st a x with ⟨s', a', l, b⟩; simp [mapStL, fwdSt]
        | u => simp [feedKL, fwd, fwdSt, mapStL]
        | nat _ => simp [feedKL, fwd, fwdSt, mapStL]
        | lst _ => simp [feedKL, fwd, fwdSt, mapStL]
      | zip l0 =>
        cases k with
        | lst l =>
          simp only [feedKL, fwd, fwdSt, walkCell, pop_walk]
          cases hp : pop d l with
          | none => simp [mapStL, fwdSt, walkCell]
          | some pr =>
            obtain ⟨e, l'⟩ := pr
            simp only [Option.map_some, ih (by simpa [noFlatten] using hnf) (pos + 1) d st a (.pair x e)]
            rcases feedKL cons r (pos + 1) d st a (.pair x e) with ⟨s, a', l2, b⟩; simp [mapStL, fwdSt, walkCell]
        | u => simp [feedKL, fwd, fwdSt, mapStL, walkCell]
        | nat _ => simp [feedKL, fwd, fwdSt, mapStL, walkCell]
        | flag _ => simp [feedKL, fwd, fwdSt, mapStL, walkCell]
      | flatMap f =>
        simp only [feedKL, fwd, fwdSt]
        have hw : walk false (walk d (f x)) = walk d (f x) := by simp [walk]
        rw [hw, foldItemsKL_congr (fwdSt r d) (takeGuard r) (takeGuard (fwd r d)) (takeGuard_fwd r d) (feedKL cons r (pos + 1) d) (feedKL cons (fwd r d) (pos + 1) false) (ih (by simpa [noFlatten] using hnf) (pos + 1) d)]
        rcases foldItemsKL (takeGuard r) (feedKL cons r (pos + 1) d) st a (walk d (f x)) with ⟨s, a', l, b⟩; simp [mapStL, fwdSt]
      | flatten => simp [noFlatten] at hnf

theorem runLoopKL_dir (c : List Ad) (hnf : noFlatten c = true) (d : Bool) (cons : Cons) :
    ∀ (xs : List Val) (st : St) (a : CAcc),
      runLoopKL c d cons st a xs = runLoopKL (fwd c d) false cons (fwdSt c d st) a xs := by
  intro xs
  induction xs with
  | nil => intro st a; simp [runLoopKL]
  | cons x xs ih =>
    intro st a
    simp only [runLoopKL, feedKL_fwd cons c hnf, takeGuard_fwd]
    cases takeGuard c st with
    | true => rfl
    | false =>
    simp only [Bool.false_eq_true, if_false]
    rcases feedKL cons c 0 d st a x with ⟨s1, a1, l1, b1⟩
    simp only [mapStL]
    cases b1 with
    | true => rfl
    | false => simp [ih s1 a1]

theorem fwd_length : ∀ (c : List Ad) (d : Bool), (fwd c d).length = c.length := by
  intro c; induction c with
  | nil => intro d; rfl
  | cons a r ih => intro d; cases a <;> simp [fwd, ih]



end Konst.Iter.Lemmas
