import KonstVerif.Model.Range
import KonstVerif.Spec.Range
import KonstVerif.Lemmas.Deque
/-
  Helper lemmas for C09 (range iterators).

  A. generic: a pair of by-value step functions with an invariant and the four one-step facts answers
     every history like the spec deque (through `Konst.Deque.refine`);
  B. the spec deque: `dequeRun = runDeque`, reversal, "only the two ends matter";
  C. lists of consecutive integers / scalar values;
  D. one-step facts of the integer stepper (any `MIN < MAX`);
  E. one-step facts of the char stepper.
-/
namespace Konst.Range.Lemmas
open Konst Konst.Range Konst.Spec.Range Konst.Deque

/-! ### B. the spec deque -/

theorem dequeRun_eq_runDeque {α : Type} : ∀ (h : List Dir) (l : List α), dequeRun l h = runDeque l h := by
  intro h
  induction h with
  | nil => intro l; cases l <;> simp [dequeRun, runDeque]
  | cons d h ih =>
    intro l
    cases l with
    | nil => cases d <;> simp [dequeRun, runDeque, ih]
    | cons x xs =>
      cases d with
      | f => simp [dequeRun, runDeque, ih]
      | b =>
        simp only [dequeRun, runDeque, ih]
        rw [List.getLast?_eq_some_getLast (by simp)]

theorem dequeRun_nil {α : Type} : ∀ (h : List Dir), dequeRun ([] : List α) h = h.map fun _ => none := by
  intro h
  induction h with
  | nil => simp [dequeRun]
  | cons d h ih => cases d <;> simp [dequeRun, ih]

/-- flipping every step of the history = reversing the items -/
def flipDir : Dir → Dir
  | .f => .b
  | .b => .f

theorem dequeRun_reverse {α : Type} : ∀ (h : List Dir) (l : List α),
    dequeRun l.reverse h = dequeRun l (h.map flipDir) := by
  intro h
  induction h with
  | nil => intro l; simp [dequeRun]
  | cons d h ih =>
    intro l
    cases d with
    | f => simp only [dequeRun, List.map_cons, flipDir, List.head?_reverse, List.tail_reverse, ih]
    | b => simp only [dequeRun, List.map_cons, flipDir, List.getLast?_reverse, List.dropLast_reverse, ih]

/-- when neither end can be used up by the history, the middle of the list is never looked at -/
theorem dequeRun_ends {α : Type} : ∀ (h : List Dir) (l1 mid l2 : List α),
    h.length ≤ l1.length → h.length ≤ l2.length →
    dequeRun (l1 ++ mid ++ l2) h = dequeRun (l1 ++ l2) h := by
  intro h
  induction h with
  | nil => intros; simp [dequeRun]
  | cons d h ih =>
    intro l1 mid l2 h1 h2
    simp only [List.length_cons] at h1 h2
    cases d with
    | f =>
      cases l1 with
      | nil => simp at h1
      | cons x l1' =>
        simp only [dequeRun, List.cons_append, List.head?_cons, List.tail_cons]
        rw [ih l1' mid l2 (by simpa using h1) (by omega)]
    | b =>
      have hne : l2 ≠ [] := by intro e; simp [e] at h2
      simp only [dequeRun]
      rw [List.getLast?_append, List.getLast?_append (l := l1) (l' := l2)]
      have hl : ∃ y, l2.getLast? = some y := by
        cases hg : l2.getLast? with
        | none => simp [List.getLast?_eq_none_iff] at hg; exact absurd hg hne
        | some y => exact ⟨y, rfl⟩
      obtain ⟨y, hy⟩ := hl
      rw [hy]
      simp only [Option.some_or]
      rw [List.dropLast_append_of_ne_nil hne, List.dropLast_append_of_ne_nil hne]
      rw [ih l1 mid l2.dropLast (by omega) (by simp only [List.length_dropLast]; omega)]

/-! ### A. from one-step facts to every history -/

/-- what one front step must do relative to the list of remaining items `L` -/
def StepFront {α σ : Type} (L : σ → List α) (Inv : σ → Prop) (s : σ) : Outcome α σ → Prop
  | .panic => False
  | .done => L s = []
  | .item x s' => L s = x :: L s' ∧ Inv s'

/-- what one back step must do -/
def StepBack {α σ : Type} (L : σ → List α) (Inv : σ → Prop) (s : σ) : Outcome α σ → Prop
  | .panic => False
  | .done => L s = []
  | .item x s' => L s = L s' ++ [x] ∧ Inv s'

def toOpt {α σ : Type} : Outcome α σ → Option (α × σ)
  | .item x s => some (x, s)
  | _ => none

open Classical in
/-- the deque-refinement record of a pair of step functions with an invariant: outside the invariant the
    iterator is regarded as empty (the history theorem is only used inside it) -/
noncomputable def mkDE {α σ : Type} (next nextBack : σ → Outcome α σ) (L : σ → List α) (Inv : σ → Prop)
    (hn : ∀ s, Inv s → StepFront L Inv s (next s)) (hb : ∀ s, Inv s → StepBack L Inv s (nextBack s)) :
    DE σ α where
  next s := if Inv s then toOpt (next s) else none
  nextBack s := if Inv s then toOpt (nextBack s) else none
  abs s := if Inv s then L s else []
  next_none := by
    intro s h
    by_cases hi : Inv s
    · have := hn s hi
      simp only [hi, if_true] at h ⊢
      cases hx : next s with
      | panic => rw [hx] at this; exact this.elim
      | done => rw [hx] at this; exact this
      | item x s' => rw [hx] at h; simp [toOpt] at h
    · simp [hi]
  next_some := by
    intro s x s' h
    by_cases hi : Inv s
    · have := hn s hi
      simp only [hi, if_true] at h ⊢
      cases hx : next s with
      | panic => rw [hx] at h; simp [toOpt] at h
      | done => rw [hx] at h; simp [toOpt] at h
      | item y t =>
        rw [hx] at h this
        simp only [toOpt, Option.some.injEq, Prod.mk.injEq] at h
        obtain ⟨rfl, rfl⟩ := h
        simp only [StepFront] at this
        simp [this.2, this.1]
    · simp [hi] at h
  back_none := by
    intro s h
    by_cases hi : Inv s
    · have := hb s hi
      simp only [hi, if_true] at h ⊢
      cases hx : nextBack s with
      | panic => rw [hx] at this; exact this.elim
      | done => rw [hx] at this; exact this
      | item x s' => rw [hx] at h; simp [toOpt] at h
    · simp [hi]
  back_some := by
    intro s x s' h
    by_cases hi : Inv s
    · have := hb s hi
      simp only [hi, if_true] at h ⊢
      cases hx : nextBack s with
      | panic => rw [hx] at h; simp [toOpt] at h
      | done => rw [hx] at h; simp [toOpt] at h
      | item y t =>
        rw [hx] at h this
        simp only [toOpt, Option.some.injEq, Prod.mk.injEq] at h
        obtain ⟨rfl, rfl⟩ := h
        simp only [StepBack] at this
        simp [this.2, this.1]
    · simp [hi] at h

theorem mkDE_next {α σ : Type} (next nextBack : σ → Outcome α σ) (L : σ → List α) (Inv : σ → Prop)
    (hn : ∀ s, Inv s → StepFront L Inv s (next s)) (hb : ∀ s, Inv s → StepBack L Inv s (nextBack s))
    (s : σ) (hi : Inv s) : (mkDE next nextBack L Inv hn hb).next s = toOpt (next s) := by
  simp [mkDE, hi]

theorem mkDE_nextBack {α σ : Type} (next nextBack : σ → Outcome α σ) (L : σ → List α) (Inv : σ → Prop)
    (hn : ∀ s, Inv s → StepFront L Inv s (next s)) (hb : ∀ s, Inv s → StepBack L Inv s (nextBack s))
    (s : σ) (hi : Inv s) : (mkDE next nextBack L Inv hn hb).nextBack s = toOpt (nextBack s) := by
  simp [mkDE, hi]

/-- inside the invariant the model's `run` never panics and is the `runImpl` of the record -/
theorem run_eq_runImpl {α σ : Type} (next nextBack : σ → Outcome α σ) (L : σ → List α) (Inv : σ → Prop)
    (hn : ∀ s, Inv s → StepFront L Inv s (next s)) (hb : ∀ s, Inv s → StepBack L Inv s (nextBack s)) :
    ∀ (h : List Dir) (s : σ), Inv s →
      run next nextBack s h = some (runImpl (mkDE next nextBack L Inv hn hb) s h) := by
  intro h
  induction h with
  | nil => intro s _; simp [run, runImpl]
  | cons d h ih =>
    intro s hi
    cases d with
    | f =>
      have := hn s hi
      simp only [run, runImpl]
      rw [mkDE_next next nextBack L Inv hn hb s hi]
      cases hx : next s with
      | panic => rw [hx] at this; exact this.elim
      | done => simp only [toOpt]; rw [ih s hi]; rfl
      | item y t =>
        rw [hx] at this
        simp only [toOpt]; rw [ih _ this.2]; rfl
    | b =>
      have := hb s hi
      simp only [run, runImpl]
      rw [mkDE_nextBack next nextBack L Inv hn hb s hi]
      cases hx : nextBack s with
      | panic => rw [hx] at this; exact this.elim
      | done => simp only [toOpt]; rw [ih s hi]; rfl
      | item y t =>
        rw [hx] at this
        simp only [toOpt]; rw [ih _ this.2]; rfl

/-- one-step facts ⇒ every history is answered like the deque over `L s` -/
theorem run_eq_deque {α σ : Type} (next nextBack : σ → Outcome α σ) (L : σ → List α) (Inv : σ → Prop)
    (hn : ∀ s, Inv s → StepFront L Inv s (next s)) (hb : ∀ s, Inv s → StepBack L Inv s (nextBack s))
    (h : List Dir) (s : σ) (hi : Inv s) :
    run next nextBack s h = some (dequeRun (L s) h) := by
  rw [run_eq_runImpl next nextBack L Inv hn hb h s hi, refine, dequeRun_eq_runDeque]
  simp [mkDE, hi]

/-- items an `Iter` still has to yield, in the order it yields them -/
def absIter {α : Type} (L : Fields α → List α) (it : Iter α) : List α :=
  if it.isForward then L it.fields else (L it.fields).reverse

def invIter {α : Type} (Inv : Fields α → Prop) (it : Iter α) : Prop := Inv it.fields

/-- `iterator_shared!`: `next` of the forward/reversed iterator from the two blocks -/
def mkNext {α : Type} (nb bb : Fields α → Outcome α (Fields α)) (it : Iter α) : Outcome α (Iter α) :=
  liftFields it.isForward (choose it.isForward (nb it.fields) (bb it.fields))

theorem stepFront_rev {α : Type} (L : Fields α → List α) (Inv : Fields α → Prop) (f : Fields α)
    (o : Outcome α (Fields α)) (h : StepBack L Inv f o) :
    StepFront (absIter L) (invIter Inv) ⟨false, f⟩ (liftFields false o) := by
  cases o with
  | panic => exact h
  | done => simp only [StepBack] at h; simp [liftFields, StepFront, absIter, h]
  | item x f' => simp only [StepBack] at h; simp [liftFields, StepFront, absIter, invIter, h.1, h.2]

theorem stepBack_rev {α : Type} (L : Fields α → List α) (Inv : Fields α → Prop) (f : Fields α)
    (o : Outcome α (Fields α)) (h : StepFront L Inv f o) :
    StepBack (absIter L) (invIter Inv) ⟨false, f⟩ (liftFields false o) := by
  cases o with
  | panic => exact h
  | done => simp only [StepFront] at h; simp [liftFields, StepBack, absIter, h]
  | item x f' => simp only [StepFront] at h; simp [liftFields, StepBack, absIter, invIter, h.1, h.2]

theorem stepFront_fwd {α : Type} (L : Fields α → List α) (Inv : Fields α → Prop) (f : Fields α)
    (o : Outcome α (Fields α)) (h : StepFront L Inv f o) :
    StepFront (absIter L) (invIter Inv) ⟨true, f⟩ (liftFields true o) := by
  cases o with
  | panic => exact h
  | done => simp only [StepFront] at h; simp [liftFields, StepFront, absIter, h]
  | item x f' => simp only [StepFront] at h; simp [liftFields, StepFront, absIter, invIter, h.1, h.2]

theorem stepBack_fwd {α : Type} (L : Fields α → List α) (Inv : Fields α → Prop) (f : Fields α)
    (o : Outcome α (Fields α)) (h : StepBack L Inv f o) :
    StepBack (absIter L) (invIter Inv) ⟨true, f⟩ (liftFields true o) := by
  cases o with
  | panic => exact h
  | done => simp only [StepBack] at h; simp [liftFields, StepBack, absIter, h]
  | item x f' => simp only [StepBack] at h; simp [liftFields, StepBack, absIter, invIter, h.1, h.2]

theorem iter_stepFront {α : Type} (nb bb : Fields α → Outcome α (Fields α)) (L : Fields α → List α)
    (Inv : Fields α → Prop)
    (hn : ∀ f, Inv f → StepFront L Inv f (nb f)) (hb : ∀ f, Inv f → StepBack L Inv f (bb f))
    (it : Iter α) (hi : invIter Inv it) : StepFront (absIter L) (invIter Inv) it (mkNext nb bb it) := by
  obtain ⟨fwd, f⟩ := it
  cases fwd
  · simp only [mkNext, choose, Bool.false_eq_true, if_false]
    exact stepFront_rev L Inv f _ (hb f hi)
  · simp only [mkNext, choose, if_true]
    exact stepFront_fwd L Inv f _ (hn f hi)

theorem iter_stepBack {α : Type} (nb bb : Fields α → Outcome α (Fields α)) (L : Fields α → List α)
    (Inv : Fields α → Prop)
    (hn : ∀ f, Inv f → StepFront L Inv f (nb f)) (hb : ∀ f, Inv f → StepBack L Inv f (bb f))
    (it : Iter α) (hi : invIter Inv it) : StepBack (absIter L) (invIter Inv) it (mkNext bb nb it) := by
  obtain ⟨fwd, f⟩ := it
  cases fwd
  · simp only [mkNext, choose, Bool.false_eq_true, if_false]
    exact stepBack_rev L Inv f _ (hn f hi)
  · simp only [mkNext, choose, if_true]
    exact stepBack_fwd L Inv f _ (hb f hi)

/-- the `iterator_shared!` wrapping: a forward/reversed iterator built from a `next` block and a
    `next_back` block over the same fields answers like the deque over the items (reversed for `Rev`) -/
theorem iter_history {α : Type} (nb bb : Fields α → Outcome α (Fields α)) (L : Fields α → List α)
    (Inv : Fields α → Prop)
    (hn : ∀ f, Inv f → StepFront L Inv f (nb f)) (hb : ∀ f, Inv f → StepBack L Inv f (bb f))
    (it : Iter α) (hi : Inv it.fields) (h : List Dir) :
    run (mkNext nb bb) (mkNext bb nb) it h = some (dequeRun (absIter L it) h) :=
  run_eq_deque _ _ (absIter L) (invIter Inv) (iter_stepFront nb bb L Inv hn hb) (iter_stepBack nb bb L Inv hn hb) h it hi

/-- a back step is a front step on the reversed item list -/
theorem stepBack_as_front {α σ : Type} (L : σ → List α) (Inv : σ → Prop) (s : σ) (o : Outcome α σ)
    (h : StepBack L Inv s o) : StepFront (fun s => (L s).reverse) Inv s o := by
  cases o with
  | panic => exact h
  | done => simp only [StepBack] at h; simp [StepFront, h]
  | item x s' => simp only [StepBack] at h; simp [StepFront, h.1, h.2]

/-- the macro loop: draining from the front with enough fuel collects exactly the items -/
theorem drain_eq {α σ : Type} (next : σ → Outcome α σ) (L : σ → List α) (Inv : σ → Prop)
    (hn : ∀ s, Inv s → StepFront L Inv s (next s)) :
    ∀ (fuel : Nat) (s : σ), Inv s → (L s).length < fuel → drain next fuel s = some (L s) := by
  intro fuel
  induction fuel with
  | zero => intro s _ h; omega
  | succ n ih =>
    intro s hi hl
    have := hn s hi
    simp only [drain]
    cases hx : next s with
    | panic => rw [hx] at this; exact this.elim
    | done => rw [hx] at this; simp only [StepFront] at this; simp [this]
    | item y t =>
      rw [hx] at this
      simp only [StepFront] at this
      rw [this.1] at hl ⊢
      simp only
      rw [ih _ this.2 (by simpa using hl)]
      simp

/-! ### C. lists of consecutive integers -/

theorem rangeFromList_zero (a : Int) : rangeFromList a 0 = [] := by simp [rangeFromList]

theorem rangeFromList_succ (a : Int) (n : Nat) : rangeFromList a (n + 1) = a :: rangeFromList (a + 1) n := by
  simp only [rangeFromList, List.range_succ_eq_map, List.map_cons, List.map_map]
  refine congr (congrArg _ (by simp)) ?_
  apply List.map_congr_left
  intro i _
  simp only [Function.comp, Nat.succ_eq_add_one, Int.natCast_add, Int.natCast_one]
  omega

theorem rangeFromList_snoc (a : Int) (n : Nat) : rangeFromList a (n + 1) = rangeFromList a n ++ [a + (n : Int)] := by
  simp [rangeFromList, List.range_succ]

theorem rangeFromList_length (a : Int) (n : Nat) : (rangeFromList a n).length = n := by simp [rangeFromList]

theorem rangeList_eq (a b : Int) : rangeList a b = rangeFromList a (b - a).toNat := rfl

theorem rangeIncList_eq (a b : Int) : rangeIncList a b = rangeFromList a (b + 1 - a).toNat := rfl

theorem rangeFromList_add (a : Int) (m n : Nat) :
    rangeFromList a (m + n) = rangeFromList a m ++ rangeFromList (a + (m : Int)) n := by
  simp only [rangeFromList, List.range_add, List.map_append, List.map_map]
  congr 1
  apply List.map_congr_left
  intro i _
  simp only [Function.comp, Int.natCast_add]
  omega

/-! ### D. the integer stepper, any `MIN < MAX` -/

/-- both bounds are values of the type -/
def IntInv (MIN MAX : Int) (f : Fields Int) : Prop :=
  MIN ≤ f.start ∧ f.start ≤ MAX ∧ MIN ≤ f.end_ ∧ f.end_ ≤ MAX

def intRangeL (f : Fields Int) : List Int := rangeList f.start f.end_
def intRangeIncL (f : Fields Int) : List Int := rangeIncList f.start f.end_

theorem int_range_next (MIN MAX : Int) (f : Fields Int) (hi : IntInv MIN MAX f) :
    StepFront intRangeL (IntInv MIN MAX) f (rangeNextBlock (intStep MIN MAX) f) := by
  obtain ⟨h1, h2, h3, h4⟩ := hi
  simp only [rangeNextBlock, intStep, intIncrement, overflowingAdd1]
  by_cases hf : f.start ≥ f.end_
  · have : (f.end_ - f.start).toNat = 0 := by omega
    simp [hf, StepFront, intRangeL, rangeList_eq, this, rangeFromList_zero]
  · have hov : ¬ (f.start + 1 > MAX) := by omega
    obtain ⟨n, hn⟩ : ∃ n, (f.end_ - f.start).toNat = n + 1 := ⟨(f.end_ - f.start).toNat - 1, by omega⟩
    have hn' : (f.end_ - (f.start + 1)).toNat = n := by omega
    simp [hf, hov, StepFront, intRangeL, rangeList_eq, hn, hn', rangeFromList_succ, IntInv]
    omega

theorem int_range_nextBack (MIN MAX : Int) (f : Fields Int) (hi : IntInv MIN MAX f) :
    StepBack intRangeL (IntInv MIN MAX) f (rangeNextBackBlock (intStep MIN MAX) f) := by
  obtain ⟨h1, h2, h3, h4⟩ := hi
  simp only [rangeNextBackBlock, intStep, intDecrement, overflowingSub1]
  by_cases hf : f.end_ ≤ f.start
  · have : (f.end_ - f.start).toNat = 0 := by omega
    simp [hf, StepBack, intRangeL, rangeList_eq, this, rangeFromList_zero]
  · have hov : ¬ (f.end_ - 1 < MIN) := by omega
    obtain ⟨n, hn⟩ : ∃ n, (f.end_ - f.start).toNat = n + 1 := ⟨(f.end_ - f.start).toNat - 1, by omega⟩
    have hn' : (f.end_ - 1 - f.start).toNat = n := by omega
    simp [hf, hov, StepBack, intRangeL, rangeList_eq, hn, hn', rangeFromList_snoc, IntInv]
    omega

theorem int_rangeInc_next (MIN MAX : Int) (hmm : MIN < MAX) (f : Fields Int) (hi : IntInv MIN MAX f) :
    StepFront intRangeIncL (IntInv MIN MAX) f (rangeIncNextBlock (intStep MIN MAX) f) := by
  obtain ⟨h1, h2, h3, h4⟩ := hi
  simp only [rangeIncNextBlock, intStep, intIncrement, overflowingAdd1]
  by_cases hf : f.start > f.end_
  · have : (f.end_ + 1 - f.start).toNat = 0 := by omega
    simp [hf, StepFront, intRangeIncL, rangeIncList_eq, this, rangeFromList_zero]
  · obtain ⟨n, hn⟩ : ∃ n, (f.end_ + 1 - f.start).toNat = n + 1 := ⟨(f.end_ + 1 - f.start).toNat - 1, by omega⟩
    by_cases hov : f.start + 1 > MAX
    · -- yielding MAX: the iterator switches to the (MAX, MIN) exhausted encoding
      have e1 : (MIN + 1 - MAX).toNat = 0 := by omega
      have e2 : n = 0 := by omega
      subst e2
      simp [hf, hov, StepFront, intRangeIncL, rangeIncList_eq, hn, e1, rangeFromList_succ, rangeFromList_zero, IntInv]
      omega
    · have hn' : (f.end_ + 1 - (f.start + 1)).toNat = n := by omega
      simp [hf, hov, StepFront, intRangeIncL, rangeIncList_eq, hn, hn', rangeFromList_succ, IntInv]
      omega

theorem int_rangeInc_nextBack (MIN MAX : Int) (hmm : MIN < MAX) (f : Fields Int) (hi : IntInv MIN MAX f) :
    StepBack intRangeIncL (IntInv MIN MAX) f (rangeIncNextBackBlock (intStep MIN MAX) f) := by
  obtain ⟨h1, h2, h3, h4⟩ := hi
  simp only [rangeIncNextBackBlock, intStep, intDecrement, overflowingSub1]
  by_cases hf : f.end_ < f.start
  · have : (f.end_ + 1 - f.start).toNat = 0 := by omega
    simp [hf, StepBack, intRangeIncL, rangeIncList_eq, this, rangeFromList_zero]
  · obtain ⟨n, hn⟩ : ∃ n, (f.end_ + 1 - f.start).toNat = n + 1 := ⟨(f.end_ + 1 - f.start).toNat - 1, by omega⟩
    by_cases hov : f.end_ - 1 < MIN
    · have e1 : (MIN + 1 - MAX).toNat = 0 := by omega
      have e2 : n = 0 := by omega
      subst e2
      simp [hf, hov, StepBack, intRangeIncL, rangeIncList_eq, hn, e1, rangeFromList_succ, rangeFromList_zero, IntInv]
      omega
    · have hn' : (f.end_ - f.start).toNat = n := by omega
      simp [hf, hov, StepBack, intRangeIncL, rangeIncList_eq, hn, hn', rangeFromList_snoc, IntInv]
      omega

/-! ### E. scalar values and the char stepper -/

theorem isScalar_iff (n : Nat) : isScalar n = true ↔ (n < 0xD800 ∨ (0xE000 ≤ n ∧ n ≤ 0x10FFFF)) := by
  simp [isScalar]

theorem charRangeIncList_eq (a b : Nat) : charRangeIncList a b = charRangeList a (b + 1) := rfl

theorem charRangeList_nil (a b : Nat) (h : b ≤ a) : charRangeList a b = [] := by
  have : b - a = 0 := by omega
  simp [charRangeList, this]

theorem charRangeList_split (a c b : Nat) (h1 : a ≤ c) (h2 : c ≤ b) :
    charRangeList a b = charRangeList a c ++ charRangeList c b := by
  simp only [charRangeList, ← List.filter_append]
  have key : List.range' a (c - a) ++ List.range' (a + 1 * (c - a)) (b - c) = List.range' a ((c - a) + (b - c)) :=
    List.range'_append
  have e : (c - a) + (b - c) = b - a := by omega
  have e2 : a + 1 * (c - a) = c := by omega
  rw [e, e2] at key
  rw [key]

theorem charRangeList_cons (a b : Nat) (h : a < b) (hs : isScalar a = true) :
    charRangeList a b = a :: charRangeList (a + 1) b := by
  obtain ⟨n, hn⟩ : ∃ n, b - a = n + 1 := ⟨b - a - 1, by omega⟩
  have hn' : b - (a + 1) = n := by omega
  simp [charRangeList, hn, hn', List.range'_succ, hs]

theorem charRangeList_snoc (a b : Nat) (h : a ≤ b) (hs : isScalar b = true) :
    charRangeList a (b + 1) = charRangeList a b ++ [b] := by
  have e : b + 1 - a = (b - a) + 1 := by omega
  have e2 : a + (b - a) = b := by omega
  simp [charRangeList, e, List.range'_concat, List.filter_append, e2, hs]

theorem charRangeList_gap_nil : charRangeList 0xD800 0xE000 = [] := by
  simp only [charRangeList, List.filter_eq_nil_iff, List.mem_range'_1]
  intro x hx
  simp only [isScalar_iff]
  omega

/-- the surrogates contribute nothing at the front … -/
theorem charRangeList_gap_front (b : Nat) (h : b ≤ 0xD800 ∨ 0xE000 ≤ b) :
    charRangeList 0xD800 b = charRangeList 0xE000 b := by
  rcases h with h | h
  · rw [charRangeList_nil _ _ h, charRangeList_nil _ _ (by omega)]
  · rw [charRangeList_split 0xD800 0xE000 b (by omega) h, charRangeList_gap_nil, List.nil_append]

/-- … nor at the back -/
theorem charRangeList_gap_back (a : Nat) (h : a ≤ 0xD800 ∨ 0xE000 ≤ a) :
    charRangeList a 0xE000 = charRangeList a 0xD800 := by
  rcases h with h | h
  · rw [charRangeList_split a 0xD800 0xE000 h (by omega), charRangeList_gap_nil, List.append_nil]
  · rw [charRangeList_nil _ _ h, charRangeList_nil _ _ (by omega)]

/-- both bounds are `char`s -/
def CharInv (f : Fields Nat) : Prop := isScalar f.start = true ∧ isScalar f.end_ = true

def charRangeL (f : Fields Nat) : List Nat := charRangeList f.start f.end_
def charRangeIncL (f : Fields Nat) : List Nat := charRangeIncList f.start f.end_

theorem fromU32_scalar (n : Nat) (h : isScalar n = true) : fromU32 n = some n := by
  rw [isScalar_iff] at h
  simp [fromU32, h]

/-- `increment` on chars never panics and moves to the next scalar value -/
theorem charIncrement_eq (a b : Nat) (ha : isScalar a = true) :
    ∃ nx, charIncrement a b = some
        { finishedInclusive := decide (a > b), finishedExclusive := decide (a ≥ b),
          overflowed := decide (a = 0x10FFFF), next := nx } ∧
      isScalar nx = true ∧
      (a = 0xD7FF → nx = 0xE000) ∧ (a = 0x10FFFF → nx = 0) ∧ (a ≠ 0xD7FF → a ≠ 0x10FFFF → nx = a + 1) := by
  rw [isScalar_iff] at ha
  by_cases h1 : a = 0xD7FF
  · subst h1
    refine ⟨0xE000, ?_, by decide, ?_⟩
    · simp [charIncrement, fromU32]
    · simp
  · by_cases h2 : a = 0x10FFFF
    · subst h2
      refine ⟨0, ?_, by decide, ?_⟩
      · simp [charIncrement, fromU32]
      · simp
    · have hs : isScalar (a + 1) = true := by rw [isScalar_iff]; omega
      refine ⟨a + 1, ?_, hs, ?_⟩
      · simp [charIncrement, h1, h2, fromU32_scalar _ hs]
      · simp [h1, h2]

/-- `decrement` on chars never panics and moves to the previous scalar value -/
theorem charDecrement_eq (a b : Nat) (hb : isScalar b = true) :
    ∃ nx, charDecrement a b = some
        { finishedInclusive := decide (b < a), finishedExclusive := decide (b ≤ a),
          overflowed := decide (b = 0), next := nx } ∧
      isScalar nx = true ∧
      (b = 0 → nx = 0x10FFFF) ∧ (b = 0xE000 → nx = 0xD7FF) ∧ (b ≠ 0 → b ≠ 0xE000 → nx = b - 1) := by
  rw [isScalar_iff] at hb
  by_cases h1 : b = 0
  · subst h1
    refine ⟨0x10FFFF, ?_, by decide, ?_⟩
    · simp [charDecrement, fromU32]
    · simp
  · by_cases h2 : b = 0xE000
    · subst h2
      refine ⟨0xD7FF, ?_, by decide, ?_⟩
      · simp [charDecrement, fromU32]
      · simp
    · have hs : isScalar (b - 1) = true := by rw [isScalar_iff]; omega
      refine ⟨b - 1, ?_, hs, ?_⟩
      · simp [charDecrement, h1, h2, fromU32_scalar _ hs]
      · simp [h1, h2]

theorem char_range_next (f : Fields Nat) (hi : CharInv f) :
    StepFront charRangeL CharInv f (rangeNextBlock charStep f) := by
  obtain ⟨hs, he⟩ := hi
  obtain ⟨nx, hinc, hnx, n1, n2, n3⟩ := charIncrement_eq f.start f.end_ hs
  simp only [rangeNextBlock, charStep, hinc]
  by_cases hf : f.start ≥ f.end_
  · simp [hf, StepFront, charRangeL, charRangeList_nil _ _ hf]
  · have hlt : f.start < f.end_ := by omega
    simp only [hf, decide_false, Bool.false_eq_true, if_false, StepFront, charRangeL, CharInv]
    refine ⟨?_, hnx, he⟩
    rw [charRangeList_cons _ _ hlt hs]
    rw [isScalar_iff] at hs he
    by_cases h1 : f.start = 0xD7FF
    · rw [n1 h1, h1]
      rw [charRangeList_gap_front _ (by omega)]
    · have h2 : f.start ≠ 0x10FFFF := by omega
      rw [n3 h1 h2]

theorem char_range_nextBack (f : Fields Nat) (hi : CharInv f) :
    StepBack charRangeL CharInv f (rangeNextBackBlock charStep f) := by
  obtain ⟨hs, he⟩ := hi
  obtain ⟨nx, hdec, hnx, n1, n2, n3⟩ := charDecrement_eq f.start f.end_ he
  simp only [rangeNextBackBlock, charStep, hdec]
  by_cases hf : f.end_ ≤ f.start
  · simp [hf, StepBack, charRangeL, charRangeList_nil _ _ hf]
  · have hlt : f.start < f.end_ := by omega
    have h0 : f.end_ ≠ 0 := by omega
    simp only [hf, h0, decide_false, Bool.false_eq_true, if_false, StepBack, charRangeL, CharInv]
    refine ⟨?_, hs, hnx⟩
    rw [isScalar_iff] at hs
    by_cases h1 : f.end_ = 0xE000
    · rw [n2 h1, h1]
      rw [charRangeList_gap_back _ (by omega)]
      exact charRangeList_snoc f.start 0xD7FF (by omega) (by decide)
    · rw [n3 h0 h1]
      have hs' : isScalar (f.end_ - 1) = true := by rw [n3 h0 h1] at hnx; exact hnx
      have := charRangeList_snoc f.start (f.end_ - 1) (by omega) hs'
      have e : f.end_ - 1 + 1 = f.end_ := by omega
      rw [e] at this
      exact this

theorem char_rangeInc_next (f : Fields Nat) (hi : CharInv f) :
    StepFront charRangeIncL CharInv f (rangeIncNextBlock charStep f) := by
  obtain ⟨hs, he⟩ := hi
  obtain ⟨nx, hinc, hnx, n1, n2, n3⟩ := charIncrement_eq f.start f.end_ hs
  simp only [rangeIncNextBlock, charStep, hinc]
  by_cases hf : f.start > f.end_
  · simp [hf, StepFront, charRangeIncL, charRangeIncList_eq, charRangeList_nil _ _ (show f.end_ + 1 ≤ f.start by omega)]
  · have hle : f.start < f.end_ + 1 := by omega
    simp only [hf, decide_false, Bool.false_eq_true, if_false, StepFront, charRangeIncL, charRangeIncList_eq]
    rw [charRangeList_cons _ _ hle hs]
    have hs0 := hs
    rw [isScalar_iff] at hs he
    by_cases h2 : f.start = 0x10FFFF
    · -- yielding char::MAX: the iterator switches to the (MAX, MIN) exhausted encoding
      have : f.end_ = 0x10FFFF := by omega
      simp only [h2, decide_true, if_true, this, CharInv]
      refine ⟨?_, by decide, by decide⟩
      rw [charRangeList_nil _ _ (by omega), charRangeList_nil _ _ (by omega)]
    · simp only [h2, decide_false, Bool.false_eq_true, if_false, CharInv]
      refine ⟨?_, hnx, by rw [isScalar_iff]; exact he⟩
      by_cases h1 : f.start = 0xD7FF
      · rw [n1 h1, h1]
        rw [charRangeList_gap_front _ (by omega)]
      · rw [n3 h1 h2]

theorem char_rangeInc_nextBack (f : Fields Nat) (hi : CharInv f) :
    StepBack charRangeIncL CharInv f (rangeIncNextBackBlock charStep f) := by
  obtain ⟨hs, he⟩ := hi
  obtain ⟨nx, hdec, hnx, n1, n2, n3⟩ := charDecrement_eq f.start f.end_ he
  simp only [rangeIncNextBackBlock, charStep, hdec]
  by_cases hf : f.end_ < f.start
  · simp [hf, StepBack, charRangeIncL, charRangeIncList_eq, charRangeList_nil _ _ (show f.end_ + 1 ≤ f.start by omega)]
  · have hle : f.start ≤ f.end_ := by omega
    simp only [hf, decide_false, Bool.false_eq_true, if_false, StepBack, charRangeIncL, charRangeIncList_eq]
    rw [charRangeList_snoc _ _ hle he]
    have hs0 := hs
    rw [isScalar_iff] at hs
    by_cases h0 : f.end_ = 0
    · have : f.start = 0 := by omega
      simp only [h0, decide_true, if_true, this, CharInv]
      refine ⟨?_, by decide, by decide⟩
      rw [charRangeList_nil _ _ (by omega), charRangeList_nil _ _ (by omega)]
    · simp only [h0, decide_false, Bool.false_eq_true, if_false, CharInv]
      refine ⟨?_, hs0, hnx⟩
      by_cases h1 : f.end_ = 0xE000
      · rw [n2 h1, h1]
        rw [charRangeList_gap_back _ (by omega)]
      · rw [n3 h0 h1]
        have e : f.end_ - 1 + 1 = f.end_ := by omega
        rw [e]

/-! ### F. the driver's evaluation shortcuts are the plain specification -/

theorem specRun_ends {α : Type} (rev : Bool) (l1 mid l2 : List α) (h : List Dir)
    (h1 : h.length ≤ l1.length) (h2 : h.length ≤ l2.length) :
    specRun rev (l1 ++ mid ++ l2) h = specRun rev (l1 ++ l2) h := by
  cases rev
  · simp only [specRun, Bool.false_eq_true, if_false]
    exact dequeRun_ends h l1 mid l2 h1 h2
  · simp only [specRun, if_true, List.reverse_append, ← List.append_assoc]
    have := dequeRun_ends h l2.reverse mid.reverse l1.reverse (by simpa using h2) (by simpa using h1)
    simpa using this

theorem dequeRunFast_go_eq {α : Type} : ∀ (h : List Dir) (l r : List α) (cnt : Nat),
    cnt ≤ l.length → r.take cnt = (l.take cnt).reverse →
    dequeRunFast.go l r cnt h = dequeRun (l.take cnt) h := by
  intro h
  induction h with
  | nil => intro l r cnt _ _; cases cnt <;> simp [dequeRunFast.go, dequeRun]
  | cons d h ih =>
    intro l r cnt hc hr
    cases cnt with
    | zero =>
      have := ih l r 0 (by omega) (by simp)
      cases d <;> simp [dequeRunFast.go, dequeRun, this]
    | succ cnt =>
      cases l with
      | nil => simp at hc
      | cons x l' =>
        simp only [List.length_cons, Nat.add_le_add_iff_right] at hc
        cases d with
        | f =>
          simp only [dequeRunFast.go, List.take_succ_cons, dequeRun, List.head?_cons, List.tail_cons]
          rw [ih l' r cnt hc]
          have h2 := congrArg (List.take cnt) hr
          rw [List.take_take, Nat.min_eq_left (Nat.le_succ cnt), List.take_succ_cons, List.reverse_cons,
            List.take_left' (by simp; omega)] at h2
          exact h2
        | b =>
          cases r with
          | nil => simp at hr
          | cons y r' =>
            simp only [List.take_succ_cons] at hr
            have hl : x :: List.take cnt l' = (List.take cnt r').reverse ++ [y] := by
              have := congrArg List.reverse hr
              simpa using this.symm
            simp only [dequeRunFast.go, List.take_succ_cons, dequeRun, List.head?_cons, List.tail_cons]
            rw [hl, List.getLast?_concat, List.dropLast_concat]
            have hlen : ((List.take cnt r').reverse).length = cnt := by
              have := congrArg List.length hl
              simp at this
              simp
              omega
            have htk : List.take cnt (x :: l') = (List.take cnt r').reverse := by
              have := congrArg (List.take cnt) hl
              rw [List.take_left' hlen] at this
              rw [← this, ← List.take_succ_cons, List.take_take, Nat.min_eq_left (Nat.le_succ cnt)]
            rw [ih (x :: l') r' cnt (by simp; omega) (by rw [htk, List.reverse_reverse])]
            rw [htk]

theorem dequeRunFast_eq' {α : Type} (l : List α) (h : List Dir) : dequeRunFast l h = dequeRun l h := by
  have := dequeRunFast_go_eq h l l.reverse l.length (Nat.le_refl _)
    (by rw [List.take_of_length_le (by simp), List.take_of_length_le (by simp)])
  simpa [dequeRunFast] using this

theorem specRunFast_eq {α : Type} (rev : Bool) (l : List α) (h : List Dir) :
    specRunFast rev l h = specRun rev l h := by
  simp [specRunFast, specRun, dequeRunFast_eq']

theorem specRunEnds_eq' {α : Type} (rev : Bool) (l1 mid l2 : List α) (full : Unit → List α) (h : List Dir)
    (hf : full () = l1 ++ mid ++ l2) : specRunEnds rev l1 l2 full h = specRun rev (full ()) h := by
  unfold specRunEnds
  split
  · rename_i hc
    rw [hf, specRunFast_eq, specRun_ends rev l1 mid l2 h hc.1 hc.2]
  · exact specRunFast_eq _ _ _

theorem specAnswer_eq' {α : Type} (rev : Bool) (ends : Option (List α × List α)) (full : Unit → List α)
    (h : List Dir) (hs : ∀ l1 l2, ends = some (l1, l2) → ∃ mid, full () = l1 ++ mid ++ l2) :
    specAnswer rev ends full h = specRun rev (full ()) h := by
  unfold specAnswer
  cases ends with
  | none => exact specRunFast_eq _ _ _
  | some p =>
    obtain ⟨l1, l2⟩ := p
    obtain ⟨mid, hm⟩ := hs l1 l2 rfl
    exact specRunEnds_eq' rev l1 mid l2 full h hm

theorem rangeList_split (a c b : Int) (h1 : a ≤ c) (h2 : c ≤ b) :
    rangeList a b = rangeList a c ++ rangeList c b := by
  simp only [rangeList_eq]
  have e : (b - a).toNat = (c - a).toNat + (b - c).toNat := by omega
  rw [e, rangeFromList_add]
  have : a + ((c - a).toNat : Int) = c := by omega
  rw [this]

theorem rangeIncList_eq_rangeList (a b : Int) : rangeIncList a b = rangeList a (b + 1) := rfl

theorem rangeEnds_split' (a b : Int) (d : Nat) (l1 l2 : List Int) (h : rangeEnds a b d = some (l1, l2)) :
    ∃ mid, rangeList a b = l1 ++ mid ++ l2 := by
  unfold rangeEnds at h
  split at h
  · rename_i hc
    simp only [Option.some.injEq, Prod.mk.injEq] at h
    obtain ⟨rfl, rfl⟩ := h
    refine ⟨rangeList (a + d) (b - d), ?_⟩
    rw [rangeList_split a (a + d) b (by omega) (by omega), rangeList_split (a + d) (b - d) b (by omega) (by omega)]
    simp
  · simp at h

theorem rangeIncEnds_split' (a b : Int) (d : Nat) (l1 l2 : List Int) (h : rangeIncEnds a b d = some (l1, l2)) :
    ∃ mid, rangeIncList a b = l1 ++ mid ++ l2 := by
  unfold rangeIncEnds at h
  split at h
  · rename_i hc
    simp only [Option.some.injEq, Prod.mk.injEq] at h
    obtain ⟨rfl, rfl⟩ := h
    refine ⟨rangeList (a + d) (b - d), ?_⟩
    simp only [rangeIncList_eq_rangeList]
    rw [rangeList_split a (a + d) (b + 1) (by omega) (by omega),
      rangeList_split (a + d) (b - d) (b + 1) (by omega) (by omega)]
    simp
  · simp at h

theorem charRangeEndsW_split (a b w : Nat) (l1 l2 : List Nat) (h : charRangeEndsW a b w = some (l1, l2)) :
    ∃ mid, charRangeList a b = l1 ++ mid ++ l2 := by
  simp only [charRangeEndsW] at h
  split at h
  · rename_i hc
    simp only [Option.some.injEq, Prod.mk.injEq] at h
    obtain ⟨rfl, rfl⟩ := h
    refine ⟨charRangeList (a + w) (b - w), ?_⟩
    rw [charRangeList_split a (a + w) b (by omega) (by omega),
      charRangeList_split (a + w) (b - w) b (by omega) (by omega)]
    simp
  · simp at h

theorem charRangeIncEndsW_split (a b w : Nat) (l1 l2 : List Nat) (h : charRangeIncEndsW a b w = some (l1, l2)) :
    ∃ mid, charRangeIncList a b = l1 ++ mid ++ l2 := by
  simp only [charRangeIncEndsW] at h
  split at h
  · rename_i hc
    simp only [Option.some.injEq, Prod.mk.injEq] at h
    obtain ⟨rfl, rfl⟩ := h
    refine ⟨charRangeList (a + w) (b - w), ?_⟩
    simp only [charRangeIncList_eq]
    rw [charRangeList_split a (a + w) (b + 1) (by omega) (by omega),
      charRangeList_split (a + w) (b - w) (b + 1) (by omega) (by omega)]
    simp
  · simp at h

theorem charRangeEnds_split' (a b d : Nat) (l1 l2 : List Nat) (h : charRangeEnds a b d = some (l1, l2)) :
    ∃ mid, charRangeList a b = l1 ++ mid ++ l2 := charRangeEndsW_split a b _ l1 l2 h

theorem charRangeIncEnds_split' (a b d : Nat) (l1 l2 : List Nat) (h : charRangeIncEnds a b d = some (l1, l2)) :
    ∃ mid, charRangeIncList a b = l1 ++ mid ++ l2 := charRangeIncEndsW_split a b _ l1 l2 h

theorem charRangeFromFast_eq' (a k : Nat) : charRangeFromFast a k = charRangeFromList a k := by
  simp only [charRangeFromFast]
  split
  · rename_i hc
    by_cases ha : a ≤ min (a + k + 2048) 0x110000
    · simp only [charRangeFromList]
      rw [charRangeList_split a (min (a + k + 2048) 0x110000) 0x110000 ha (by omega)]
      rw [List.take_append_of_le_length hc]
    · rw [charRangeList_nil _ _ (by omega)] at hc
      have : k = 0 := by simpa using hc
      subst this
      simp [charRangeFromList]
  · rfl

/-! ### G. `RangeFromIter` -/

theorem int_rangeFrom (MIN MAX : Int) : ∀ (k : Nat) (a : Int), MIN ≤ a → a + (k : Int) ≤ MAX →
    runRangeFrom (intStep MIN MAX) a k = some (rangeFromList a k) := by
  intro k
  induction k with
  | zero => intro a _ _; simp [runRangeFrom, rangeFromList_zero]
  | succ k ih =>
    intro a h1 h2
    have hov : ¬ (a + 1 > MAX) := by omega
    have key : RangeFromIter.next (intStep MIN MAX) a = .item a (a + 1) := by
      simp [RangeFromIter.next, intStep, intIncrement, overflowingAdd1, hov]
    rw [runRangeFrom, key]
    simp only
    rw [ih (a + 1) (by omega) (by omega), rangeFromList_succ]
    rfl

theorem char_rangeFrom : ∀ (k : Nat) (a : Nat), isScalar a = true → k ≤ (charRangeList a 0x10FFFF).length →
    runRangeFrom charStep a k = some (charRangeFromList a k) := by
  intro k
  induction k with
  | zero => intro a _ _; simp [runRangeFrom, charRangeFromList]
  | succ k ih =>
    intro a hs hk
    have hlt : a < 0x10FFFF := by
      by_cases h : a < 0x10FFFF
      · exact h
      · rw [charRangeList_nil _ _ (by omega)] at hk; simp at hk
    obtain ⟨nx, hinc, hnx, n1, _, n3⟩ := charIncrement_eq a 0x10FFFF hs
    have hne : a ≠ 0x10FFFF := by omega
    have key : RangeFromIter.next charStep a = .item a nx := by
      simp [RangeFromIter.next, charStep, hinc, hne]
    rw [runRangeFrom, key]
    simp only
    rw [charRangeList_cons _ _ hlt hs] at hk
    simp only [List.length_cons, Nat.add_le_add_iff_right] at hk
    have hnext : ∀ b, 0xE000 ≤ b → charRangeList (a + 1) b = charRangeList nx b := by
      intro b hb
      by_cases h1 : a = 0xD7FF
      · rw [n1 h1, h1]; exact charRangeList_gap_front b (Or.inr hb)
      · rw [n3 h1 hne]
    rw [hnext _ (by omega)] at hk
    rw [ih nx hnx hk]
    simp only [charRangeFromList, Option.map_some, Option.some.injEq]
    rw [charRangeList_cons a 0x110000 (by omega) hs, hnext _ (by omega)]
    simp

/-! ### H. `a..` observed step by step, up to and past MAX -/

theorem rf_next_ne_done {α} (S : Step α) (a : α) : RangeFromIter.next S a ≠ .done := by
  unfold RangeFromIter.next
  split
  · simp
  · split <;> simp

theorem forEachBreak_eq_pulls {α σ} (next : σ → Outcome α σ) : ∀ (k : Nat) (s : σ),
    forEachBreak next s k = pulls next s k := by
  intro k
  induction k with
  | zero => intro s; rfl
  | succ k ih =>
    intro s
    rw [forEachBreak, pulls]
    cases next s with
    | panic => rfl
    | done => rfl
    | item x s' =>
      simp only
      by_cases hk : k = 0
      · subst hk; simp [pulls]
      · rw [if_neg hk, ih]

theorem zipInLoop_eq_pulls {α σ} (next : σ → Outcome α σ) : ∀ (k : Nat) (s : σ),
    zipInLoop next s k = pulls next s k := by
  intro k
  induction k with
  | zero => intro s; rfl
  | succ k ih =>
    intro s
    rw [zipInLoop, pulls]
    cases next s with
    | panic => rfl
    | done => rfl
    | item x s' => simp only; rw [ih]

/-- the guard at the top of the loop makes `take(k)` pull exactly `k` items, from any source
    (before 9827f8a the countdown was tested only after the pull: `k + 1` pulls) -/
theorem takeLoop_eq_pulls {α σ} (next : σ → Outcome α σ) : ∀ (k : Nat) (s : σ),
    takeLoop next s k = pulls next s k := by
  intro k
  induction k with
  | zero => intro s; rw [takeLoop, pulls]; rfl
  | succ k ih =>
    intro s
    rw [takeLoop, pulls, if_neg (Nat.succ_ne_zero k)]
    cases next s with
    | panic => rfl
    | done => rfl
    | item x s' => simp only; rw [ih]

/-- `src, zip(other)` still pulls the source first: what it observes is what `take(m)` observes, followed by the
    outcome of one more pull when all `m` items arrived — nothing if that pull yields an item or `None`, `panic` if it
    panics.  (Up to 9827f8a~1 the two loops were the same function: `take` made the extra pull too.) -/
theorem zipLoop_eq_takeLoop_append {α σ} (next : σ → Outcome α σ) : ∀ (m : Nat) (s : σ),
    ∃ t, zipLoop next s m = takeLoop next s m ++ t ∧ (t = [] ∨ t = [Tok.panic]) := by
  intro m
  induction m with
  | zero =>
    intro s
    rw [zipLoop, takeLoop, if_pos rfl]
    cases next s with
    | panic => exact ⟨[.panic], rfl, Or.inr rfl⟩
    | done => exact ⟨[], rfl, Or.inl rfl⟩
    | item x s' => exact ⟨[], rfl, Or.inl rfl⟩
  | succ m ih =>
    intro s
    rw [zipLoop, takeLoop]
    simp only [Nat.add_one_ne_zero, ↓reduceIte]
    cases next s with
    | panic => exact ⟨[], rfl, Or.inl rfl⟩
    | done => exact ⟨[], rfl, Or.inl rfl⟩
    | item x s' =>
      obtain ⟨t, ht, hc⟩ := ih s'
      exact ⟨t, by simp only [ht, List.cons_append], hc⟩

theorem pulls_no_end {α σ} (next : σ → Outcome α σ) (hn : ∀ s, next s ≠ .done) : ∀ (k : Nat) (s : σ),
    Tok.end_ ∉ pulls next s k := by
  intro k
  induction k with
  | zero => intro s; simp [pulls]
  | succ k ih =>
    intro s
    rw [pulls]
    have := hn s
    cases h : next s with
    | panic => simp
    | done => exact absurd h this
    | item x s' => simp only [List.mem_cons, not_or]; exact ⟨by simp, ih s'⟩

theorem takeLoop_no_end {α σ} (next : σ → Outcome α σ) (hn : ∀ s, next s ≠ .done) : ∀ (k : Nat) (s : σ),
    Tok.end_ ∉ takeLoop next s k := by
  intro k s
  rw [takeLoop_eq_pulls]
  exact pulls_no_end next hn k s

theorem zipLoop_no_end {α σ} (next : σ → Outcome α σ) (hn : ∀ s, next s ≠ .done) : ∀ (k : Nat) (s : σ),
    Tok.end_ ∉ zipLoop next s k := by
  intro k s
  obtain ⟨t, ht, hc⟩ := zipLoop_eq_takeLoop_append next k s
  rw [ht, List.mem_append, not_or]
  refine ⟨takeLoop_no_end next hn k s, ?_⟩
  rcases hc with h | h <;> simp [h]

theorem nthLoop_no_end {α σ} (next : σ → Outcome α σ) (hn : ∀ s, next s ≠ .done) : ∀ (n : Nat) (s : σ),
    nthLoop next s n ≠ Tok.end_ := by
  intro n
  induction n with
  | zero =>
    intro s
    rw [nthLoop]
    have := hn s
    cases h : next s with
    | panic => simp
    | done => exact absurd h this
    | item x s' => simp
  | succ n ih =>
    intro s
    rw [nthLoop]
    have := hn s
    cases h : next s with
    | panic => simp
    | done => exact absurd h this
    | item x s' => exact ih s'

theorem findLoop_no_end {α σ} (next : σ → Outcome α σ) (p : α → Bool) (hn : ∀ s, next s ≠ .done) :
    ∀ (fuel : Nat) (s : σ), findLoop next p s fuel ≠ Tok.end_ := by
  intro fuel
  induction fuel with
  | zero =>
    intro s
    rw [findLoop]
    have := hn s
    cases h : next s with
    | panic => simp
    | done => exact absurd h this
    | item x s' => simp
  | succ n ih =>
    intro s
    rw [findLoop]
    have := hn s
    cases h : next s with
    | panic => simp
    | done => exact absurd h this
    | item x s' =>
      simp only
      by_cases hp : p x = true
      · rw [if_pos hp]; simp
      · rw [if_neg hp]; exact ih s'

theorem int_rf_next_lt (MIN MAX a : Int) (h : a < MAX) :
    RangeFromIter.next (intStep MIN MAX) a = .item a (a + 1) := by
  have hov : ¬ (a + 1 > MAX) := by omega
  simp [RangeFromIter.next, intStep, intIncrement, overflowingAdd1, hov]

theorem int_rf_next_max (MIN MAX a : Int) (h : a = MAX) :
    RangeFromIter.next (intStep MIN MAX) a = .panic := by
  have hov : a + 1 > MAX := by omega
  simp [RangeFromIter.next, intStep, intIncrement, overflowingAdd1, hov]

theorem ofRun_cons {α} (x : α) (l : List α) (p : Bool) : Tok.ofRun (x :: l, p) = .v x :: Tok.ofRun (l, p) := by
  simp [Tok.ofRun]

theorem rangeFromChecked_zero (MAX a : Int) : rangeFromChecked MAX a 0 = ([], false) := by
  simp [rangeFromChecked, rangeFromList_zero]

theorem rangeFromChecked_max (MAX : Int) (k : Nat) : rangeFromChecked MAX MAX k = ([], decide (0 < k)) := by
  simp [rangeFromChecked, rangeFromList_zero]

theorem rangeFromChecked_succ (MAX a : Int) (k : Nat) (h : a < MAX) :
    rangeFromChecked MAX a (k + 1)
      = (a :: (rangeFromChecked MAX (a + 1) k).1, (rangeFromChecked MAX (a + 1) k).2) := by
  obtain ⟨d, hd⟩ : ∃ d : Nat, (MAX - a).toNat = d + 1 := ⟨(MAX - a).toNat - 1, by omega⟩
  have hd' : (MAX - (a + 1)).toNat = d := by omega
  simp only [rangeFromChecked, hd, hd']
  have : min (k + 1) (d + 1) = min k d + 1 := by omega
  rw [this, rangeFromList_succ]
  simp

theorem int_pulls (MIN MAX : Int) : ∀ (k : Nat) (a : Int), a ≤ MAX →
    pulls (RangeFromIter.next (intStep MIN MAX)) a k = Tok.ofRun (rangeFromChecked MAX a k) := by
  intro k
  induction k with
  | zero => intro a _; simp [pulls, rangeFromChecked_zero, Tok.ofRun]
  | succ k ih =>
    intro a ha
    rw [pulls]
    by_cases hm : a = MAX
    · rw [int_rf_next_max MIN MAX a hm, hm, rangeFromChecked_max]
      simp [Tok.ofRun]
    · have hlt : a < MAX := by omega
      rw [int_rf_next_lt MIN MAX a hlt, rangeFromChecked_succ MAX a k hlt, ofRun_cons]
      simp only
      rw [ih (a + 1) (by omega)]

/-- `a.., take(k)` = std's `(a..).take(k)` in the checked profile, for EVERY `k` (exactly `k` pulls) -/
theorem int_takeLoop (MIN MAX : Int) (k : Nat) (a : Int) (ha : a ≤ MAX) :
    takeLoop (RangeFromIter.next (intStep MIN MAX)) a k = Tok.ofRun (rangeFromChecked MAX a k) := by
  rw [takeLoop_eq_pulls]
  exact int_pulls MIN MAX k a ha

/-- the boundary case `k = MAX - a`: all `k` values below MAX and no panic — the step at MAX is not taken -/
theorem int_takeLoop_at_max (MIN MAX : Int) (k : Nat) (a : Int) (ha : a ≤ MAX) (hk : k = (MAX - a).toNat) :
    takeLoop (RangeFromIter.next (intStep MIN MAX)) a k = (rangeFromList a k).map Tok.v := by
  rw [int_takeLoop MIN MAX k a ha]
  simp [rangeFromChecked, Tok.ofRun, ← hk]

theorem zipOfRun_int_succ (MAX a : Int) (k : Nat) (h : a < MAX) :
    zipOfRun (rangeFromChecked MAX a) (k + 1)
      = (a :: (zipOfRun (rangeFromChecked MAX (a + 1)) k).1, (zipOfRun (rangeFromChecked MAX (a + 1)) k).2) := by
  simp only [zipOfRun]
  rw [rangeFromChecked_succ MAX a (k + 1) h]
  simp only
  by_cases hp : (rangeFromChecked MAX (a + 1) (k + 1)).2 = true
  · simp [hp]
  · simp [hp]

theorem int_zipLoop (MIN MAX : Int) : ∀ (k : Nat) (a : Int), a ≤ MAX →
    zipLoop (RangeFromIter.next (intStep MIN MAX)) a k = Tok.ofRun (zipOfRun (rangeFromChecked MAX a) k) := by
  intro k
  induction k with
  | zero =>
    intro a ha
    rw [zipLoop]
    by_cases hm : a = MAX
    · rw [int_rf_next_max MIN MAX a hm, hm]
      simp [zipOfRun, rangeFromChecked_max, Tok.ofRun]
    · have hlt : a < MAX := by omega
      rw [int_rf_next_lt MIN MAX a hlt]
      simp [zipOfRun, rangeFromChecked_succ MAX a 0 hlt, rangeFromChecked_zero, Tok.ofRun]
  | succ k ih =>
    intro a ha
    rw [zipLoop]
    by_cases hm : a = MAX
    · rw [int_rf_next_max MIN MAX a hm, hm]
      simp [zipOfRun, rangeFromChecked_max, Tok.ofRun]
    · have hlt : a < MAX := by omega
      rw [int_rf_next_lt MIN MAX a hlt, zipOfRun_int_succ MAX a k hlt, ofRun_cons]
      simp only
      rw [ih (a + 1) (by omega)]

/-- `zip` against `take` on `a..`: the same observations except at `k = MAX - a`, where the extra pull of `zip`
    (std's `Zip` makes it too) is the step at MAX and panics -/
theorem int_zipLoop_vs_takeLoop (MIN MAX : Int) (k : Nat) (a : Int) (ha : a ≤ MAX) :
    zipLoop (RangeFromIter.next (intStep MIN MAX)) a k
      = takeLoop (RangeFromIter.next (intStep MIN MAX)) a k ++ (if k = (MAX - a).toNat then [Tok.panic] else []) := by
  rw [int_zipLoop MIN MAX k a ha, int_takeLoop MIN MAX k a ha]
  simp only [zipOfRun, rangeFromChecked, Tok.ofRun]
  by_cases h1 : (MAX - a).toNat < k
  · have h2 : (MAX - a).toNat < k + 1 := by omega
    have h3 : k ≠ (MAX - a).toNat := by omega
    have m1 : min (k + 1) (MAX - a).toNat = (MAX - a).toNat := by omega
    have m2 : min k (MAX - a).toNat = (MAX - a).toNat := by omega
    simp [h1, h2, h3, m1, m2]
  · by_cases h2 : k = (MAX - a).toNat
    · simp [← h2]
    · have h3 : ¬ (MAX - a).toNat < k + 1 := by omega
      have m1 : min (k + 1) (MAX - a).toNat = k + 1 := by omega
      have m2 : min k (MAX - a).toNat = k := by omega
      have tk : (rangeFromList a (k + 1)).take k = rangeFromList a k := by
        simp only [rangeFromList, ← List.map_take, List.take_range]
        congr 2
        omega
      simp [h1, h2, h3, m1, m2, tk]

/-- the observation of `nth`/`next` as a consumer -/
def tokOfNth {α} : Option α → Tok α
  | some x => .v x
  | none => .panic

theorem int_nthLoop (MIN MAX : Int) : ∀ (n : Nat) (a : Int), a ≤ MAX →
    nthLoop (RangeFromIter.next (intStep MIN MAX)) a n = tokOfNth (nthOfRun (rangeFromChecked MAX a) n) := by
  intro n
  induction n with
  | zero =>
    intro a ha
    rw [nthLoop]
    by_cases hm : a = MAX
    · rw [int_rf_next_max MIN MAX a hm, hm]
      simp [nthOfRun, rangeFromChecked_max, tokOfNth]
    · have hlt : a < MAX := by omega
      rw [int_rf_next_lt MIN MAX a hlt]
      simp [nthOfRun, rangeFromChecked_succ MAX a 0 hlt, rangeFromChecked_zero, tokOfNth]
  | succ n ih =>
    intro a ha
    rw [nthLoop]
    by_cases hm : a = MAX
    · rw [int_rf_next_max MIN MAX a hm, hm]
      simp [nthOfRun, rangeFromChecked_max, tokOfNth]
    · have hlt : a < MAX := by omega
      rw [int_rf_next_lt MIN MAX a hlt]
      simp only
      rw [ih (a + 1) (by omega)]
      simp only [nthOfRun]
      rw [rangeFromChecked_succ MAX a (n + 1) hlt]
      simp

theorem charRangeFromChecked_zero (a : Nat) : charRangeFromChecked a 0 = ([], false) := by
  simp [charRangeFromChecked, charRangeFromList]

theorem char_pulls : ∀ (k : Nat) (a : Nat), isScalar a = true →
    pulls (RangeFromIter.next charStep) a k = Tok.ofRun (charRangeFromChecked a k) := by
  intro k
  induction k with
  | zero => intro a _; simp [pulls, charRangeFromChecked_zero, Tok.ofRun]
  | succ k ih =>
    intro a hs
    obtain ⟨nx, hinc, hnx, n1, _, n3⟩ := charIncrement_eq a 0x10FFFF hs
    rw [pulls]
    by_cases hm : a = 0x10FFFF
    · subst hm
      have key : RangeFromIter.next charStep 0x10FFFF = .panic := by
        simp [RangeFromIter.next, charStep, hinc]
      rw [key]
      have e : charRangeList 0x10FFFF 0x110000 = [0x10FFFF] := by decide
      simp [charRangeFromChecked, charRangeFromList, e, Tok.ofRun]
    · have hlt : a < 0x10FFFF := by
        have := (isScalar_iff a).mp hs
        omega
      have key : RangeFromIter.next charStep a = .item a nx := by
        simp [RangeFromIter.next, charStep, hinc, hm]
      rw [key]
      simp only
      rw [ih nx hnx]
      have hnext : charRangeList (a + 1) 0x110000 = charRangeList nx 0x110000 := by
        by_cases h1 : a = 0xD7FF
        · rw [n1 h1, h1]; exact charRangeList_gap_front _ (Or.inr (by omega))
        · rw [n3 h1 hm]
      have hl : charRangeFromList a (k + 1) = a :: charRangeFromList nx k := by
        simp only [charRangeFromList]
        rw [charRangeList_cons a 0x110000 (by omega) hs, hnext]
        simp
      simp only [charRangeFromChecked, hl]
      have hf : decide (a < 0x10FFFF) = true := by simp [hlt]
      simp [hf, Tok.ofRun]

theorem char_takeLoop (k : Nat) (a : Nat) (hs : isScalar a = true) :
    takeLoop (RangeFromIter.next charStep) a k = Tok.ofRun (charRangeFromChecked a k) := by
  rw [takeLoop_eq_pulls]
  exact char_pulls k a hs

theorem charRangeFromCheckedFast_eq (a k : Nat) : charRangeFromCheckedFast a k = charRangeFromChecked a k := by
  simp only [charRangeFromCheckedFast, charRangeFromChecked, charRangeFromFast_eq']

end Konst.Range.Lemmas
