import KonstVerif.Model.Chars
import KonstVerif.Spec.Chars
import KonstVerif.Lemmas.Utf8
import KonstVerif.Lemmas.DequeInv
/-
  One-step facts of `Chars` / `CharIndices` (and their reversed twins) on valid strings, packaged as
  `Deque.Refines` instances for the generic deque refinement.
-/
namespace Konst.Lemmas.Chars
open Konst Konst.Utf8 Konst.Chr Konst.Chars Konst.Hist Konst.Spec.Utf8 Konst.Spec.Chars
open Konst.Lemmas.Utf8 Konst.Deque

/-- all scalar values -/
abbrev Scalars (cs : List Nat) : Prop := ∀ c ∈ cs, isScalar c = true

theorem Scalars.tail {c : Nat} {cs : List Nat} (h : Scalars (c :: cs)) : Scalars cs :=
  fun d hd => h d (List.mem_cons_of_mem _ hd)
theorem Scalars.init {c : Nat} {cs : List Nat} (h : Scalars (cs ++ [c])) : Scalars cs :=
  fun d hd => h d (List.mem_append_left _ hd)

theorem eq_nil_or_snoc {α : Type} (l : List α) : l = [] ∨ ∃ l' a, l = l' ++ [a] := by
  rcases List.eq_nil_or_concat l with h | ⟨l', a, h⟩
  · exact Or.inl h
  · exact Or.inr ⟨l', a, by rw [h, List.concat_eq_append]⟩

/-! ### views -/

theorem view_apply_length (v : View) (s : List Nat) (h : v.InBounds s.length) :
    (v.apply s).length = v.len := by
  unfold View.InBounds at h
  simp only [View.apply, List.length_take, List.length_drop]; omega

theorem view_comp_apply (v w : View) (s : List Nat) (hv : v.InBounds s.length)
    (hw : w.InBounds v.len) :
    (v.comp w).apply s = w.apply (v.apply s) ∧ (v.comp w).InBounds s.length := by
  unfold View.InBounds at *
  refine ⟨?_, by simp only [View.comp]; omega⟩
  simp only [View.apply, View.comp, List.drop_take, List.drop_drop, List.take_take]
  congr 1; omega

theorem whole_view (s : List Nat) : (⟨0, s.length⟩ : View).apply s = s ∧
    (⟨0, s.length⟩ : View).InBounds s.length := by
  simp [View.apply, View.InBounds]

/-! ### the shared core of the `next` / `next_back` blocks -/

theorem splitAt_boundary (cs : List Nat) (hs : Scalars cs) (i : Nat) (hb : IsBoundary cs i) :
    Utf8.splitAt (encs cs) i = .ok (⟨0, i⟩, ⟨i, (encs cs).length - i⟩) := by
  have hle := boundary_le cs i hb
  have hf : isCharBoundaryForgiving (encs cs) i = true := (forgiving_iff cs hs i).mpr (Or.inr hb)
  simp [Utf8.splitAt, strUpTo, strFrom, hf, Slice.sliceUpTo, Slice.sliceUpToImpl, Slice.sliceFrom,
    Slice.sliceFromImpl, overflowingSub, hle, bind, Except.bind, pure, Except.pure]

/-- front: boundary search, split and decode of the first character -/
theorem core_next (c : Nat) (cs : List Nat) (hs : Scalars (c :: cs)) :
    let this := enc c ++ encs cs
    let l := (enc c).length
    findNextCharBoundary this 0 = l ∧
    Utf8.splitAt this l = .ok (⟨0, l⟩, ⟨l, this.length - l⟩) ∧
    stringToChar ((⟨0, l⟩ : View).apply this) = c ∧
    (⟨l, this.length - l⟩ : View).apply this = encs cs := by
  intro this l
  refine ⟨findNext_first c cs hs, ?_, ?_, ?_⟩
  · have := splitAt_boundary (c :: cs) hs l ⟨1, by simp [l]⟩
    rwa [encs_cons] at this
  · have : (⟨0, l⟩ : View).apply this = enc c := by
      simp only [View.apply, List.drop_zero, this, l]; exact List.take_left' rfl
    rw [this]
    exact stringToUsv_enc c (by have := isScalar_lt c (hs c (by simp)); omega)
  · simp only [View.apply, this, l, List.drop_left' rfl]
    exact List.take_of_length_le (by simp)

/-- back: boundary search, split and decode of the last character -/
theorem core_back (cs : List Nat) (c : Nat) (hs : Scalars (cs ++ [c])) :
    let this := encs cs ++ enc c
    let p := (encs cs).length
    findPrevCharBoundary this this.length = some p ∧
    Utf8.splitAt this p = .ok (⟨0, p⟩, ⟨p, this.length - p⟩) ∧
    stringToChar ((⟨p, this.length - p⟩ : View).apply this) = c ∧
    (⟨0, p⟩ : View).apply this = encs cs := by
  intro this p
  have he : this = encs (cs ++ [c]) := by rw [encs_append]; simp [this]
  refine ⟨findPrev_last cs c hs, ?_, ?_, ?_⟩
  · have := splitAt_boundary (cs ++ [c]) hs p ⟨cs.length, by simp [p]⟩
    rwa [← he] at this
  · have : (⟨p, this.length - p⟩ : View).apply this = enc c := by
      simp only [View.apply, this, p, List.drop_left' rfl]
      exact List.take_of_length_le (by simp)
    rw [this]
    exact stringToUsv_enc c (by have := isScalar_lt c (hs c (by simp)); omega)
  · simp only [View.apply, List.drop_zero, this, p]; exact List.take_left' rfl

theorem encs_eq_nil (cs : List Nat) (h : encs cs = []) : cs = [] := by
  cases cs with
  | nil => rfl
  | cons c cs => rw [encs_cons] at h; exact absurd (List.append_eq_nil_iff.mp h).1 (enc_ne_nil c)

theorem indexed_append (off : Nat) (cs : List Nat) (c : Nat) :
    indexed off (cs ++ [c]) = indexed off cs ++ [(off + (encs cs).length, c)] := by
  induction cs generalizing off with
  | nil => simp [indexed]
  | cons d cs ih => simp [indexed, ih, Nat.add_assoc]

theorem indexed_snd (off : Nat) (cs : List Nat) : (indexed off cs).map (·.2) = cs := by
  induction cs generalizing off with
  | nil => rfl
  | cons d cs ih => simp [indexed, ih]

/-! ### `Chars` -/

/-- invariant: the remaining view lies inside `s` and denotes valid UTF-8 -/
def CInv (s : List Nat) (it : Chars) : Prop :=
  it.this.InBounds s.length ∧ ∃ cs, Scalars cs ∧ it.this.apply s = encs cs

/-- abstraction: the decoded remaining characters -/
def cabs (s : List Nat) (it : Chars) : List Nat := (decodeAll (it.this.apply s)).getD []

theorem cabs_eq (s : List Nat) (it : Chars) (cs : List Nat) (hs : Scalars cs)
    (he : it.this.apply s = encs cs) : cabs s it = cs := by
  simp [cabs, he, decodeAll_encs cs hs]

theorem chars_next_nil (s : List Nat) (it : Chars) (he : it.this.apply s = []) :
    Chars.next s it = .ok none := by
  simp [Chars.next, he]

theorem chars_back_nil (s : List Nat) (it : Chars) (he : it.this.apply s = []) :
    Chars.nextBack s it = .ok none := by
  simp [Chars.nextBack, he]

theorem chars_next_cons (s : List Nat) (it : Chars) (c : Nat) (cs : List Nat)
    (hib : it.this.InBounds s.length) (hs : Scalars (c :: cs)) (he : it.this.apply s = encs (c :: cs)) :
    ∃ it', Chars.next s it = .ok (some (c, it')) ∧ it'.this.InBounds s.length ∧
      it'.this.apply s = encs cs ∧ it'.this.off = it.this.off + (enc c).length := by
  obtain ⟨h1, h2, h3, h4⟩ := core_next c cs hs
  rw [encs_cons] at he
  have hne : (enc c ++ encs cs).isEmpty = false := by simp [enc_ne_nil]
  have hlen := view_apply_length it.this s hib
  rw [he] at hlen
  have hw : (⟨(enc c).length, (enc c ++ encs cs).length - (enc c).length⟩ : View).InBounds it.this.len := by
    simp only [View.InBounds, ← hlen, List.length_append]; omega
  obtain ⟨hc1, hc2⟩ := view_comp_apply it.this _ s hib hw
  refine ⟨⟨it.this.comp ⟨(enc c).length, (enc c ++ encs cs).length - (enc c).length⟩⟩, ?_, hc2, ?_, rfl⟩
  · simp only [Chars.next, he, hne, h1, h2, h3, Bool.false_eq_true, if_false]
  · rw [hc1, he]; exact h4

theorem chars_back_snoc (s : List Nat) (it : Chars) (cs : List Nat) (c : Nat)
    (hib : it.this.InBounds s.length) (hs : Scalars (cs ++ [c]))
    (he : it.this.apply s = encs (cs ++ [c])) :
    ∃ it', Chars.nextBack s it = .ok (some (c, it')) ∧ it'.this.InBounds s.length ∧
      it'.this.apply s = encs cs ∧ it'.this.off = it.this.off := by
  obtain ⟨h1, h2, h3, h4⟩ := core_back cs c hs
  have he' : it.this.apply s = encs cs ++ enc c := by rw [he, encs_append]; simp
  have hne : (encs cs ++ enc c).isEmpty = false := by simp [enc_ne_nil]
  have hlen := view_apply_length it.this s hib
  rw [he'] at hlen
  have hw : (⟨0, (encs cs).length⟩ : View).InBounds it.this.len := by
    simp only [View.InBounds, ← hlen, List.length_append]; omega
  obtain ⟨hc1, hc2⟩ := view_comp_apply it.this _ s hib hw
  refine ⟨⟨it.this.comp ⟨0, (encs cs).length⟩⟩, ?_, hc2, ?_, by simp [View.comp]⟩
  · simp only [Chars.nextBack, he', hne, h1, h2, h3, Bool.false_eq_true, if_false]
  · rw [hc1, he']; exact h4

theorem chars_refines (s : List Nat) :
    Refines (Chars.next s) (Chars.nextBack s) (CInv s) (cabs s) where
  next_ok := by
    rintro it e ⟨hib, cs, hs, he⟩ hn
    cases cs with
    | nil => rw [chars_next_nil s it he] at hn; cases hn
    | cons c cs => obtain ⟨it', h, _⟩ := chars_next_cons s it c cs hib hs he; rw [h] at hn; cases hn
  next_none := by
    rintro it ⟨hib, cs, hs, he⟩ hn
    cases cs with
    | nil => exact cabs_eq s it [] hs he
    | cons c cs => obtain ⟨it', h, _⟩ := chars_next_cons s it c cs hib hs he; rw [h] at hn; cases hn
  next_some := by
    rintro it x it2 ⟨hib, cs, hs, he⟩ hn
    cases cs with
    | nil => rw [chars_next_nil s it he] at hn; cases hn
    | cons c cs =>
      obtain ⟨it', h, hib', he', _⟩ := chars_next_cons s it c cs hib hs he
      rw [h] at hn
      simp only [Except.ok.injEq, Option.some.injEq, Prod.mk.injEq] at hn
      obtain ⟨rfl, rfl⟩ := hn
      exact ⟨⟨hib', cs, hs.tail, he'⟩, by rw [cabs_eq s it _ hs he, cabs_eq s it' _ hs.tail he']⟩
  back_ok := by
    rintro it e ⟨hib, cs, hs, he⟩ hn
    rcases eq_nil_or_snoc cs with rfl | ⟨cs', c, rfl⟩
    · rw [chars_back_nil s it he] at hn; cases hn
    · obtain ⟨it', h, _⟩ := chars_back_snoc s it cs' c hib hs he; rw [h] at hn; cases hn
  back_none := by
    rintro it ⟨hib, cs, hs, he⟩ hn
    rcases eq_nil_or_snoc cs with rfl | ⟨cs', c, rfl⟩
    · exact cabs_eq s it [] hs he
    · obtain ⟨it', h, _⟩ := chars_back_snoc s it cs' c hib hs he; rw [h] at hn; cases hn
  back_some := by
    rintro it x it2 ⟨hib, cs, hs, he⟩ hn
    rcases eq_nil_or_snoc cs with rfl | ⟨cs', c, rfl⟩
    · rw [chars_back_nil s it he] at hn; cases hn
    · obtain ⟨it', h, hib', he', _⟩ := chars_back_snoc s it cs' c hib hs he
      rw [h] at hn
      simp only [Except.ok.injEq, Option.some.injEq, Prod.mk.injEq] at hn
      obtain ⟨rfl, rfl⟩ := hn
      exact ⟨⟨hib', cs', hs.init, he'⟩, by rw [cabs_eq s it _ hs he, cabs_eq s it' _ hs.init he']⟩

theorem chars_inv_init (cs : List Nat) (hs : Scalars cs) : CInv (encs cs) (chars (encs cs)) :=
  ⟨(whole_view (encs cs)).2, cs, hs, (whole_view (encs cs)).1⟩

theorem chars_abs_init (cs : List Nat) (hs : Scalars cs) : cabs (encs cs) (chars (encs cs)) = cs :=
  cabs_eq _ _ cs hs (whole_view (encs cs)).1

/-! ### `CharIndices` -/

def CIInv (s : List Nat) (it : CharIndices) : Prop :=
  it.this.InBounds s.length ∧ it.startOffset = it.this.off ∧
    ∃ cs, Scalars cs ∧ it.this.apply s = encs cs

def ciabs (s : List Nat) (it : CharIndices) : List (Nat × Nat) :=
  indexed it.startOffset ((decodeAll (it.this.apply s)).getD [])

theorem ciabs_eq (s : List Nat) (it : CharIndices) (cs : List Nat) (hs : Scalars cs)
    (he : it.this.apply s = encs cs) : ciabs s it = indexed it.startOffset cs := by
  simp [ciabs, he, decodeAll_encs cs hs]

theorem ci_next_nil (s : List Nat) (it : CharIndices) (he : it.this.apply s = []) :
    CharIndices.next s it = .ok none := by
  simp [CharIndices.next, he]

theorem ci_back_nil (s : List Nat) (it : CharIndices) (he : it.this.apply s = []) :
    CharIndices.nextBack s it = .ok none := by
  simp [CharIndices.nextBack, he]

theorem ci_next_cons (s : List Nat) (it : CharIndices) (c : Nat) (cs : List Nat)
    (hib : it.this.InBounds s.length) (hs : Scalars (c :: cs)) (he : it.this.apply s = encs (c :: cs)) :
    ∃ it', CharIndices.next s it = .ok (some ((it.startOffset, c), it')) ∧
      it'.this.InBounds s.length ∧ it'.this.apply s = encs cs ∧
      it'.this.off = it.this.off + (enc c).length ∧
      it'.startOffset = it.startOffset + (enc c).length := by
  obtain ⟨h1, h2, h3, h4⟩ := core_next c cs hs
  rw [encs_cons] at he
  have hne : (enc c ++ encs cs).isEmpty = false := by simp [enc_ne_nil]
  have hlen := view_apply_length it.this s hib
  rw [he] at hlen
  have hw : (⟨(enc c).length, (enc c ++ encs cs).length - (enc c).length⟩ : View).InBounds it.this.len := by
    simp only [View.InBounds, ← hlen, List.length_append]; omega
  obtain ⟨hc1, hc2⟩ := view_comp_apply it.this _ s hib hw
  refine ⟨⟨it.this.comp ⟨(enc c).length, (enc c ++ encs cs).length - (enc c).length⟩,
    it.startOffset + (enc c).length⟩, ?_, hc2, ?_, rfl, rfl⟩
  · simp only [CharIndices.next, he, hne, h1, h2, h3, Bool.false_eq_true, if_false]
  · show (it.this.comp _).apply s = encs cs
    rw [hc1, he]; exact h4

theorem ci_back_snoc (s : List Nat) (it : CharIndices) (cs : List Nat) (c : Nat)
    (hib : it.this.InBounds s.length) (hs : Scalars (cs ++ [c]))
    (he : it.this.apply s = encs (cs ++ [c])) :
    ∃ it', CharIndices.nextBack s it = .ok (some ((it.startOffset + (encs cs).length, c), it')) ∧
      it'.this.InBounds s.length ∧ it'.this.apply s = encs cs ∧ it'.this.off = it.this.off ∧
      it'.startOffset = it.startOffset := by
  obtain ⟨h1, h2, h3, h4⟩ := core_back cs c hs
  have he' : it.this.apply s = encs cs ++ enc c := by rw [he, encs_append]; simp
  have hne : (encs cs ++ enc c).isEmpty = false := by simp [enc_ne_nil]
  have hlen := view_apply_length it.this s hib
  rw [he'] at hlen
  have hw : (⟨0, (encs cs).length⟩ : View).InBounds it.this.len := by
    simp only [View.InBounds, ← hlen, List.length_append]; omega
  obtain ⟨hc1, hc2⟩ := view_comp_apply it.this _ s hib hw
  refine ⟨⟨it.this.comp ⟨0, (encs cs).length⟩, it.startOffset⟩, ?_, hc2, ?_, by simp [View.comp], rfl⟩
  · simp only [CharIndices.nextBack, he', hne, h1, h2, h3, Bool.false_eq_true, if_false]
  · show (it.this.comp _).apply s = encs cs
    rw [hc1, he']; exact h4

theorem ci_refines (s : List Nat) :
    Refines (CharIndices.next s) (CharIndices.nextBack s) (CIInv s) (ciabs s) where
  next_ok := by
    rintro it e ⟨hib, _, cs, hs, he⟩ hn
    cases cs with
    | nil => rw [ci_next_nil s it he] at hn; cases hn
    | cons c cs => obtain ⟨it', h, _⟩ := ci_next_cons s it c cs hib hs he; rw [h] at hn; cases hn
  next_none := by
    rintro it ⟨hib, _, cs, hs, he⟩ hn
    cases cs with
    | nil => rw [ciabs_eq s it [] hs he]; rfl
    | cons c cs => obtain ⟨it', h, _⟩ := ci_next_cons s it c cs hib hs he; rw [h] at hn; cases hn
  next_some := by
    rintro it x it2 ⟨hib, ho, cs, hs, he⟩ hn
    cases cs with
    | nil => rw [ci_next_nil s it he] at hn; cases hn
    | cons c cs =>
      obtain ⟨it', h, hib', he', ho1, ho2⟩ := ci_next_cons s it c cs hib hs he
      rw [h] at hn
      simp only [Except.ok.injEq, Option.some.injEq, Prod.mk.injEq] at hn
      obtain ⟨⟨rfl, rfl⟩, rfl⟩ := hn
      refine ⟨⟨hib', by omega, cs, hs.tail, he'⟩, ?_⟩
      rw [ciabs_eq s it _ hs he, ciabs_eq s it' _ hs.tail he', ho2]; rfl
  back_ok := by
    rintro it e ⟨hib, _, cs, hs, he⟩ hn
    rcases eq_nil_or_snoc cs with rfl | ⟨cs', c, rfl⟩
    · rw [ci_back_nil s it he] at hn; cases hn
    · obtain ⟨it', h, _⟩ := ci_back_snoc s it cs' c hib hs he; rw [h] at hn; cases hn
  back_none := by
    rintro it ⟨hib, _, cs, hs, he⟩ hn
    rcases eq_nil_or_snoc cs with rfl | ⟨cs', c, rfl⟩
    · rw [ciabs_eq s it [] hs he]; rfl
    · obtain ⟨it', h, _⟩ := ci_back_snoc s it cs' c hib hs he; rw [h] at hn; cases hn
  back_some := by
    rintro it x it2 ⟨hib, ho, cs, hs, he⟩ hn
    rcases eq_nil_or_snoc cs with rfl | ⟨cs', c, rfl⟩
    · rw [ci_back_nil s it he] at hn; cases hn
    · obtain ⟨it', h, hib', he', ho1, ho2⟩ := ci_back_snoc s it cs' c hib hs he
      rw [h] at hn
      simp only [Except.ok.injEq, Option.some.injEq, Prod.mk.injEq] at hn
      obtain ⟨⟨rfl, rfl⟩, rfl⟩ := hn
      refine ⟨⟨hib', by omega, cs', hs.init, he'⟩, ?_⟩
      rw [ciabs_eq s it _ hs he, ciabs_eq s it' _ hs.init he', ho2, indexed_append]

theorem ci_inv_init (cs : List Nat) (hs : Scalars cs) : CIInv (encs cs) (charIndices (encs cs)) :=
  ⟨(whole_view (encs cs)).2, rfl, cs, hs, (whole_view (encs cs)).1⟩

theorem ci_abs_init (cs : List Nat) (hs : Scalars cs) :
    ciabs (encs cs) (charIndices (encs cs)) = indexed 0 cs :=
  ciabs_eq _ _ cs hs (whole_view (encs cs)).1

/-! ### reversed twins: the blocks swapped, the deque reversed -/

theorem mapSt_ok {ι σ τ : Type} (f : σ → τ) (r : Except Panic (Option (ι × σ))) :
    (∀ e, mapSt f r = .error e → r = .error e) ∧
    (mapSt f r = .ok none → r = .ok none) ∧
    (∀ x t, mapSt f r = .ok (some (x, t)) → ∃ s', r = .ok (some (x, s')) ∧ t = f s') := by
  cases r with
  | error p => simp [mapSt]
  | ok o =>
    cases o with
    | none => simp [mapSt]
    | some q =>
      obtain ⟨y, s0⟩ := q
      refine ⟨by simp [mapSt], by simp [mapSt], ?_⟩
      intro x t h
      simp only [mapSt, Except.ok.injEq, Option.some.injEq, Prod.mk.injEq] at h
      exact ⟨s0, by rw [h.1], h.2.symm⟩

theorem refines_rev {σ τ ι : Type} {next back : StepFn Panic σ ι} {inv : σ → Prop}
    {abs : σ → List ι} (R : Refines next back inv abs) (f : σ → τ) (g : τ → σ)
    (hgf : ∀ x, g (f x) = x) :
    Refines (fun t => mapSt f (back (g t))) (fun t => mapSt f (next (g t)))
      (fun t => inv (g t)) (fun t => (abs (g t)).reverse) where
  next_ok := fun t e hi hn => R.back_ok (g t) e hi ((mapSt_ok f _).1 e hn)
  next_none := fun t hi hn => by
    simp only [R.back_none (g t) hi ((mapSt_ok f _).2.1 hn), List.reverse_nil]
  next_some := fun t x t' hi hn => by
    obtain ⟨s', hb, rfl⟩ := (mapSt_ok f _).2.2 x t' hn
    obtain ⟨hi', ha⟩ := R.back_some (g t) x s' hi hb
    simp only [hgf]
    exact ⟨hi', by rw [ha]; simp⟩
  back_ok := fun t e hi hn => R.next_ok (g t) e hi ((mapSt_ok f _).1 e hn)
  back_none := fun t hi hn => by
    simp only [R.next_none (g t) hi ((mapSt_ok f _).2.1 hn), List.reverse_nil]
  back_some := fun t x t' hi hn => by
    obtain ⟨s', hb, rfl⟩ := (mapSt_ok f _).2.2 x t' hn
    obtain ⟨hi', ha⟩ := R.next_some (g t) x s' hi hb
    simp only [hgf]
    exact ⟨hi', by rw [ha]; simp⟩

theorem rchars_refines (s : List Nat) :
    Refines (RChars.next s) (RChars.nextBack s) (fun t => CInv s t.rev)
      (fun t => (cabs s t.rev).reverse) :=
  refines_rev (chars_refines s) Chars.rev RChars.rev (fun _ => rfl)

theorem rci_refines (s : List Nat) :
    Refines (RCharIndices.next s) (RCharIndices.nextBack s) (fun t => CIInv s t.rev)
      (fun t => (ciabs s t.rev).reverse) :=
  refines_rev (ci_refines s) CharIndices.rev RCharIndices.rev (fun _ => rfl)

end Konst.Lemmas.Chars
