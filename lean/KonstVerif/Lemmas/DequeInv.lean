import KonstVerif.Lemmas.Deque
import KonstVerif.Model.Hist
import KonstVerif.Spec.Chars
/-
  Using the generic deque refinement (`Lemmas/Deque.lean`: `DE`, `refine`) for step functions that
  (a) may panic and (b) satisfy the one-step facts only on states satisfying an invariant
  (e.g. "the remaining bytes are valid UTF-8").

  `Refines next back inv abs`   the one-step facts under the invariant
  `guard R : DE σ ι`            the total `DE` obtained by answering `none` outside the invariant
  `items_refine`                items of every history = `runDeque` of the abstraction  (via `refine`)
  `steps_refine`                items AND abstraction of the state after every step = `dequeSteps`
  `steps_inv`                   the invariant holds in every state a history reaches
-/
namespace Konst.Deque

open Konst Konst.Hist Konst.Spec.Chars

structure Refines {ε σ ι : Type} (next back : StepFn ε σ ι) (inv : σ → Prop) (abs : σ → List ι) :
    Prop where
  next_ok : ∀ s e, inv s → next s ≠ .error e
  next_none : ∀ s, inv s → next s = .ok none → abs s = []
  next_some : ∀ s x s', inv s → next s = .ok (some (x, s')) → inv s' ∧ abs s = x :: abs s'
  back_ok : ∀ s e, inv s → back s ≠ .error e
  back_none : ∀ s, inv s → back s = .ok none → abs s = []
  back_some : ∀ s x s', inv s → back s = .ok (some (x, s')) → inv s' ∧ abs s = abs s' ++ [x]

section
variable {ε σ ι : Type} {next back : StepFn ε σ ι} {inv : σ → Prop} {abs : σ → List ι}

/-- panic-free view of a step -/
def okPart (r : Except ε (Option (ι × σ))) : Option (ι × σ) :=
  match r with
  | .ok r => r
  | .error _ => none

open Classical in
/-- the `DE` of the prototype: outside the invariant the iterator is treated as exhausted and
    abstracts to the empty deque, so the four one-step facts hold for every state -/
noncomputable def guard (R : Refines next back inv abs) : DE σ ι where
  next s := if inv s then okPart (next s) else none
  nextBack s := if inv s then okPart (back s) else none
  abs s := if inv s then abs s else []
  next_none := by
    intro s h
    by_cases hi : inv s
    · simp only [hi, if_true] at h ⊢
      cases hn : next s with
      | error e => exact absurd hn (R.next_ok s e hi)
      | ok r => rw [hn] at h; simp only [okPart] at h; subst h; exact R.next_none s hi hn
    · simp [hi]
  next_some := by
    intro s x s' h
    by_cases hi : inv s
    · simp only [hi, if_true] at h ⊢
      cases hn : next s with
      | error e => exact absurd hn (R.next_ok s e hi)
      | ok r =>
        rw [hn] at h; simp only [okPart] at h; subst h
        obtain ⟨hi', ha⟩ := R.next_some s x s' hi hn
        simp [hi', ha]
    · simp [hi] at h
  back_none := by
    intro s h
    by_cases hi : inv s
    · simp only [hi, if_true] at h ⊢
      cases hn : back s with
      | error e => exact absurd hn (R.back_ok s e hi)
      | ok r => rw [hn] at h; simp only [okPart] at h; subst h; exact R.back_none s hi hn
    · simp [hi]
  back_some := by
    intro s x s' h
    by_cases hi : inv s
    · simp only [hi, if_true] at h ⊢
      cases hn : back s with
      | error e => exact absurd hn (R.back_ok s e hi)
      | ok r =>
        rw [hn] at h; simp only [okPart] at h; subst h
        obtain ⟨hi', ha⟩ := R.back_some s x s' hi hn
        simp [hi', ha]
    · simp [hi] at h

/-- on states satisfying the invariant the raw (panic-aware) run shows what the guarded `DE` shows -/
theorem steps_eq_runImpl (R : Refines next back inv abs) : ∀ (h : List Dir) (s : σ), inv s →
    (steps next back s h).map (·.1) = (runImpl (guard R) s h).map Obs.ofOption := by
  intro h
  induction h with
  | nil => intro s _; simp [steps, runImpl]
  | cons d h ih =>
    intro s hi
    cases d with
    | f =>
      simp only [steps, pick, runImpl, guard, hi, if_true]
      cases hn : next s with
      | error e => exact absurd hn (R.next_ok s e hi)
      | ok r =>
        cases r with
        | none => simp only [okPart, List.map_cons, Obs.ofOption]; rw [ih s hi]; rfl
        | some p =>
          obtain ⟨x, s'⟩ := p
          have hi' := (R.next_some s x s' hi hn).1
          simp only [okPart, List.map_cons, Obs.ofOption]; rw [ih s' hi']; rfl
    | b =>
      simp only [steps, pick, runImpl, guard, hi, if_true]
      cases hn : back s with
      | error e => exact absurd hn (R.back_ok s e hi)
      | ok r =>
        cases r with
        | none => simp only [okPart, List.map_cons, Obs.ofOption]; rw [ih s hi]; rfl
        | some p =>
          obtain ⟨x, s'⟩ := p
          have hi' := (R.back_some s x s' hi hn).1
          simp only [okPart, List.map_cons, Obs.ofOption]; rw [ih s' hi']; rfl

/-- every front/back history: the observed items are those of the deque `abs s` (no panic, `None`
    exactly when the deque is empty) — by the generic `refine` -/
theorem items_refine (R : Refines next back inv abs) (h : List Dir) (s : σ) (hi : inv s) :
    (steps next back s h).map (·.1) = (runDeque (abs s) h).map Obs.ofOption := by
  rw [steps_eq_runImpl R h s hi, refine (guard R) h s]
  simp [guard, hi]

theorem dequeSteps_fst {ι : Type} : ∀ (h : List Dir) (q : List ι),
    (dequeSteps q h).map (·.1) = runDeque q h := by
  intro h
  induction h with
  | nil => intro q; cases q <;> simp [dequeSteps, runDeque]
  | cons d h ih =>
    intro q
    cases q with
    | nil => simp [dequeSteps, runDeque, ih]
    | cons x xs => cases d <;> simp [dequeSteps, runDeque, ih]

/-- every history: item and abstraction of the state after every step are those of the deque -/
theorem steps_refine (R : Refines next back inv abs) : ∀ (h : List Dir) (s : σ), inv s →
    (steps next back s h).map (fun p => (p.1, abs p.2)) =
      (dequeSteps (abs s) h).map (fun p => (Obs.ofOption p.1, p.2)) := by
  intro h
  induction h with
  | nil => intro s _; cases hs : abs s <;> simp [steps, dequeSteps]
  | cons d h ih =>
    intro s hi
    cases d with
    | f =>
      simp only [steps, pick]
      cases hn : next s with
      | error e => exact absurd hn (R.next_ok s e hi)
      | ok r =>
        cases r with
        | none =>
          have ha := R.next_none s hi hn
          have := ih s hi
          rw [ha] at this ⊢
          simp only [List.map_cons, dequeSteps, ha]; rw [this]; rfl
        | some p =>
          obtain ⟨x, s'⟩ := p
          obtain ⟨hi', ha⟩ := R.next_some s x s' hi hn
          simp only [List.map_cons, ha, dequeSteps]; rw [ih s' hi']; rfl
    | b =>
      simp only [steps, pick]
      cases hn : back s with
      | error e => exact absurd hn (R.back_ok s e hi)
      | ok r =>
        cases r with
        | none =>
          have ha := R.back_none s hi hn
          have := ih s hi
          rw [ha] at this ⊢
          simp only [List.map_cons, dequeSteps, ha]; rw [this]; rfl
        | some p =>
          obtain ⟨x, s'⟩ := p
          obtain ⟨hi', ha⟩ := R.back_some s x s' hi hn
          cases hq : abs s with
          | nil => rw [hq] at ha; simp at ha
          | cons y ys =>
            have h1 : (y :: ys).getLast (by simp) = x := by simp [← hq, ha]
            have h2 : (y :: ys).dropLast = abs s' := by simp [← hq, ha]
            simp only [List.map_cons, dequeSteps, h1, h2]; rw [ih s' hi']; rfl

/-- the invariant holds in every state reached -/
theorem steps_inv (R : Refines next back inv abs) : ∀ (h : List Dir) (s : σ), inv s →
    ∀ p ∈ steps next back s h, inv p.2 := by
  intro h
  induction h with
  | nil => intro s _ p hp; simp [steps] at hp
  | cons d h ih =>
    intro s hi p hp
    have key : ∀ (fn : StepFn ε σ ι), (∀ e, fn s ≠ .error e) →
        (∀ x s', fn s = .ok (some (x, s')) → inv s') →
        p ∈ (match fn s with
          | .error _ => [(Obs.panic, s)]
          | .ok none => (Obs.done, s) :: steps next back s h
          | .ok (some (x, s')) => (Obs.item x, s') :: steps next back s' h) → inv p.2 := by
      intro fn hok hsome hp
      cases hn : fn s with
      | error e => exact absurd hn (hok e)
      | ok r =>
        rw [hn] at hp
        cases r with
        | none =>
          simp only [List.mem_cons] at hp
          rcases hp with rfl | hp
          · exact hi
          · exact ih s hi p hp
        | some q =>
          obtain ⟨x, s'⟩ := q
          simp only [List.mem_cons] at hp
          rcases hp with rfl | hp
          · exact hsome x s' hn
          · exact ih s' (hsome x s' hn) p hp
    cases d with
    | f => exact key next (fun e => R.next_ok s e hi) (fun x s' hn => (R.next_some s x s' hi hn).1) hp
    | b => exact key back (fun e => R.back_ok s e hi) (fun x s' hn => (R.back_some s x s' hi hn).1) hp

end
end Konst.Deque
