import KonstVerif.Spec.SliceIter
/-
  Facts about the std specification lists of Spec/SliceIter.lean: how each list decomposes at its
  front and at its back (these are what `next` / `next_back` of the model are compared with).
  No model definitions here.
-/
namespace Konst.Spec

variable {α : Type}

/-! ### arithmetic -/

theorem sub_mod_self' (a n : Nat) (h : n ≤ a) : (a - n) % n = a % n := by
  have : a = (a - n) + n := by omega
  conv => rhs; rw [this, Nat.add_mod_right]

theorem le_of_mod_zero {a n : Nat} (hpos : 0 < a) (hm : a % n = 0) : n ≤ a := by
  apply Nat.le_of_not_lt
  intro hlt
  rw [Nat.mod_eq_of_lt hlt] at hm
  omega

theorem sub_mod_eq_div_mul (a n : Nat) : a - a % n = a / n * n := by
  have := Nat.div_add_mod a n
  rw [Nat.mul_comm] at this
  omega

/-! ### chunks -/

theorem chunksSpec_nil (n : Nat) : chunksSpec n ([] : List α) = [] := by
  rw [chunksSpec]; simp

theorem chunksSpec_cons (n : Nat) (l : List α) (hl : l ≠ []) (hn : 0 < n) :
    chunksSpec n l = l.take n :: chunksSpec n (l.drop n) := by
  rw [chunksSpec]; simp [hl]; omega

/-- the last chunk is `drop ((len-1)/n*n)`, the ones before it are the chunks of `take …` -/
theorem chunksSpec_last (n : Nat) (hn : 0 < n) : ∀ (k : Nat) (l : List α), l.length = k → l ≠ [] →
    chunksSpec n l =
      chunksSpec n (l.take ((l.length - 1) / n * n)) ++ [l.drop ((l.length - 1) / n * n)] := by
  intro k
  induction k using Nat.strongRecOn with
  | _ k ih =>
    intro l hk hl
    have hpos : 0 < l.length := List.length_pos_iff.mpr hl
    by_cases hle : l.length ≤ n
    · -- single chunk
      have hdiv : (l.length - 1) / n = 0 := Nat.div_eq_of_lt (by omega)
      rw [hdiv]
      simp only [Nat.zero_mul, List.take_zero, List.drop_zero, chunksSpec_nil, List.nil_append]
      rw [chunksSpec_cons n l hl hn, List.take_of_length_le hle, List.drop_eq_nil_of_le hle, chunksSpec_nil]
    · -- peel the first chunk
      have hgt : n < l.length := by omega
      have hdl : (l.drop n).length = l.length - n := by simp
      have hne : l.drop n ≠ [] := by
        intro e; have := congrArg List.length e; simp at this; omega
      have hdiv : (l.length - 1) / n = (l.length - n - 1) / n + 1 := by
        have : l.length - 1 = (l.length - n - 1) + n := by omega
        rw [this, Nat.add_div_right _ hn]
      have IH := ih (l.length - n) (by omega) (l.drop n) (by simp) hne
      rw [chunksSpec_cons n l hl hn, IH, hdl, hdiv]
      have hmul : ((l.length - n - 1) / n + 1) * n = (l.length - n - 1) / n * n + n := by
        rw [Nat.add_mul, Nat.one_mul]
      rw [hmul]
      have hat : (l.length - n - 1) / n * n ≤ l.length - n := by
        have := Nat.div_mul_le_self (l.length - n - 1) n; omega
      have htake : l.take ((l.length - n - 1) / n * n + n) = l.take n ++ (l.drop n).take ((l.length - n - 1) / n * n) := by
        rw [Nat.add_comm, List.take_add]
      have hdrop : l.drop ((l.length - n - 1) / n * n + n) = (l.drop n).drop ((l.length - n - 1) / n * n) := by
        rw [List.drop_drop, Nat.add_comm]
      rw [htake, hdrop]
      have hlen : (l.take n).length = n := by
        rw [List.length_take]; omega
      have hne2 : l.take n ++ (l.drop n).take ((l.length - n - 1) / n * n) ≠ [] := by
        intro e
        have := congrArg List.length e
        rw [List.length_append, hlen] at this
        simp at this; omega
      rw [chunksSpec_cons n _ hne2 hn]
      have ht1 : (l.take n ++ (l.drop n).take ((l.length - n - 1) / n * n)).take n = l.take n :=
        List.take_left' hlen
      have ht2 : (l.take n ++ (l.drop n).take ((l.length - n - 1) / n * n)).drop n
          = (l.drop n).take ((l.length - n - 1) / n * n) :=
        List.drop_left' hlen
      rw [ht1, ht2]
      simp

/-! ### rchunks -/

theorem rchunksSpec_nil (n : Nat) : rchunksSpec n ([] : List α) = [] := by
  rw [rchunksSpec]; simp

theorem rchunksSpec_cons (n : Nat) (l : List α) (hl : l ≠ []) (hn : 0 < n) :
    rchunksSpec n l = l.drop (l.length - n) :: rchunksSpec n (l.take (l.length - n)) := by
  rw [rchunksSpec]; simp [hl]; omega

/-- the item `rchunks` yields LAST is the front piece of length `len % n` (or `n` when that is 0);
    the items before it are the rchunks of the rest -/
theorem rchunksSpec_last (n : Nat) (hn : 0 < n) : ∀ (k : Nat) (l : List α), l.length = k → l ≠ [] →
    rchunksSpec n l =
      rchunksSpec n (l.drop (if l.length % n = 0 then n else l.length % n))
        ++ [l.take (if l.length % n = 0 then n else l.length % n)] := by
  intro k
  induction k using Nat.strongRecOn with
  | _ k ih =>
    intro l hk hl
    have hpos : 0 < l.length := List.length_pos_iff.mpr hl
    by_cases hle : l.length ≤ n
    · -- a single item
      have hat : l.length ≤ (if l.length % n = 0 then n else l.length % n) := by
        by_cases he : l.length = n
        · simp [he]
        · have : l.length < n := by omega
          rw [Nat.mod_eq_of_lt this]
          have : l.length ≠ 0 := by omega
          simp [this]
      rw [List.drop_eq_nil_of_le hat, List.take_of_length_le hat, rchunksSpec_nil, List.nil_append,
        rchunksSpec_cons n l hl hn]
      have : l.length - n = 0 := by omega
      rw [this]
      simp [rchunksSpec_nil]
    · have hgt : n < l.length := by omega
      have hmod : (l.length - n) % n = l.length % n := sub_mod_self' _ _ (by omega)
      have hl'len : (l.take (l.length - n)).length = l.length - n := by
        rw [List.length_take]; omega
      have hl'ne : l.take (l.length - n) ≠ [] := by
        intro e; have := congrArg List.length e; rw [hl'len] at this; simp at this; omega
      have IH := ih (l.length - n) (by omega) (l.take (l.length - n)) hl'len hl'ne
      rw [hl'len, hmod] at IH
      generalize hat : (if l.length % n = 0 then n else l.length % n) = at_ at IH ⊢
      have hatle : at_ ≤ l.length - n := by
        by_cases hz : l.length % n = 0
        · simp only [hz, if_true] at hat
          have := le_of_mod_zero (a := l.length - n) (n := n) (by omega) (by rw [hmod]; exact hz)
          omega
        · simp only [hz, if_false] at hat
          have := Nat.mod_le (l.length - n) n
          omega
      have hdne : l.drop at_ ≠ [] := by
        intro e; have := congrArg List.length e; simp at this; omega
      rw [rchunksSpec_cons n l hl hn, IH, rchunksSpec_cons n (l.drop at_) hdne hn]
      have h1 : (l.drop at_).drop ((l.drop at_).length - n) = l.drop (l.length - n) := by
        rw [List.drop_drop, List.length_drop]
        congr 1; omega
      have h2 : (l.drop at_).take ((l.drop at_).length - n) = (l.take (l.length - n)).drop at_ := by
        rw [List.drop_take, List.length_drop]
        congr 1; omega
      have h3 : (l.take (l.length - n)).take at_ = l.take at_ := by
        rw [List.take_take, Nat.min_eq_left hatle]
      rw [h1, h2, h3]
      simp

/-! ### chunks_exact -/

theorem chunksExact_of_lt (n : Nat) (l : List α) (h : l.length < n) : chunksExact n l = [] := by
  rw [chunksExact]; simp [h]

theorem chunksExact_nil (n : Nat) (hn : 0 < n) : chunksExact n ([] : List α) = [] :=
  chunksExact_of_lt n [] (by simpa using hn)

theorem chunksExact_cons (n : Nat) (l : List α) (hn : 0 < n) (h : n ≤ l.length) :
    chunksExact n l = l.take n :: chunksExact n (l.drop n) := by
  rw [chunksExact]
  have : ¬ (n = 0 ∨ l.length < n) := by omega
  simp [this]

/-- back decomposition when the length is a multiple of `n` -/
theorem chunksExact_last (n : Nat) (hn : 0 < n) : ∀ (k : Nat) (l : List α), l.length = k →
    l.length % n = 0 → n ≤ l.length →
    chunksExact n l = chunksExact n (l.take (l.length - n)) ++ [l.drop (l.length - n)] := by
  intro k
  induction k using Nat.strongRecOn with
  | _ k ih =>
    intro l hk hm hle
    by_cases he : l.length = n
    · rw [he, Nat.sub_self, List.take_zero, List.drop_zero, chunksExact_nil n hn,
        chunksExact_cons n l hn (by omega), List.take_of_length_le (by omega),
        List.drop_eq_nil_of_le (by omega), chunksExact_nil n hn]
      rfl
    · have hmod : (l.length - n) % n = 0 := by rw [sub_mod_self' _ _ hle]; exact hm
      have h2 : n ≤ l.length - n := le_of_mod_zero (by omega) hmod
      have hdl : (l.drop n).length = l.length - n := by simp
      have IH := ih (l.length - n) (by omega) (l.drop n) hdl (by rw [hdl]; exact hmod) (by rw [hdl]; exact h2)
      rw [chunksExact_cons n l hn hle, IH, hdl]
      have htl : (l.take (l.length - n)).length = l.length - n := by
        rw [List.length_take]; omega
      rw [chunksExact_cons n (l.take (l.length - n)) hn (by rw [htl]; exact h2)]
      have h3 : (l.take (l.length - n)).take n = l.take n := by
        rw [List.take_take, Nat.min_eq_left h2]
      have h4 : (l.take (l.length - n)).drop n = (l.drop n).take (l.length - n - n) := by
        rw [List.drop_take]
      have h5 : (l.drop n).drop (l.length - n - n) = l.drop (l.length - n) := by
        rw [List.drop_drop]; congr 1; omega
      rw [h3, h4, h5]
      simp

/-- the full pieces do not depend on the trailing `len % n` elements -/
theorem chunksExact_take_full (n : Nat) (hn : 0 < n) : ∀ (k : Nat) (l : List α), l.length = k →
    chunksExact n (l.take (l.length - l.length % n)) = chunksExact n l := by
  intro k
  induction k using Nat.strongRecOn with
  | _ k ih =>
    intro l hk
    by_cases hlt : l.length < n
    · rw [Nat.mod_eq_of_lt hlt, Nat.sub_self, List.take_zero, chunksExact_nil n hn,
        chunksExact_of_lt n l hlt]
    · have hle : n ≤ l.length := by omega
      have hmod : (l.length - n) % n = l.length % n := sub_mod_self' _ _ hle
      have hml := Nat.mod_le (l.length - n) n
      have hm2 := Nat.mod_le l.length n
      have htl : (l.take (l.length - l.length % n)).length = l.length - l.length % n := by
        rw [List.length_take]; omega
      have hdl : (l.drop n).length = l.length - n := by simp
      have IH := ih (l.length - n) (by omega) (l.drop n) hdl
      rw [hdl, hmod] at IH
      rw [chunksExact_cons n l hn hle, chunksExact_cons n _ hn (by rw [htl]; omega)]
      have h3 : (l.take (l.length - l.length % n)).take n = l.take n := by
        rw [List.take_take, Nat.min_eq_left (by omega)]
      have h4 : (l.take (l.length - l.length % n)).drop n = (l.drop n).take (l.length - n - l.length % n) := by
        rw [List.drop_take]; congr 1; omega
      rw [h3, h4, IH]

/-! ### rchunks_exact -/

theorem rchunksExactSpec_of_lt (n : Nat) (l : List α) (h : l.length < n) : rchunksExactSpec n l = [] := by
  rw [rchunksExactSpec]; simp [h]

theorem rchunksExactSpec_nil (n : Nat) (hn : 0 < n) : rchunksExactSpec n ([] : List α) = [] :=
  rchunksExactSpec_of_lt n [] (by simpa using hn)

theorem rchunksExactSpec_cons (n : Nat) (l : List α) (hn : 0 < n) (h : n ≤ l.length) :
    rchunksExactSpec n l = l.drop (l.length - n) :: rchunksExactSpec n (l.take (l.length - n)) := by
  rw [rchunksExactSpec]
  have : ¬ (n = 0 ∨ l.length < n) := by omega
  simp [this]

/-- back decomposition (the item yielded last is the first `n` elements) when `n ∣ len` -/
theorem rchunksExactSpec_last (n : Nat) (hn : 0 < n) : ∀ (k : Nat) (l : List α), l.length = k →
    l.length % n = 0 → n ≤ l.length →
    rchunksExactSpec n l = rchunksExactSpec n (l.drop n) ++ [l.take n] := by
  intro k
  induction k using Nat.strongRecOn with
  | _ k ih =>
    intro l hk hm hle
    by_cases he : l.length = n
    · rw [rchunksExactSpec_cons n l hn hle, he, Nat.sub_self, List.take_zero, List.drop_zero,
        rchunksExactSpec_nil n hn, List.drop_eq_nil_of_le (by omega), rchunksExactSpec_nil n hn,
        List.take_of_length_le (by omega)]
      rfl
    · have hmod : (l.length - n) % n = 0 := by rw [sub_mod_self' _ _ hle]; exact hm
      have h2 : n ≤ l.length - n := le_of_mod_zero (by omega) hmod
      have htl : (l.take (l.length - n)).length = l.length - n := by
        rw [List.length_take]; omega
      have hdl : (l.drop n).length = l.length - n := by simp
      have IH := ih (l.length - n) (by omega) (l.take (l.length - n)) htl (by rw [htl]; exact hmod)
        (by rw [htl]; exact h2)
      rw [rchunksExactSpec_cons n l hn hle, IH, rchunksExactSpec_cons n (l.drop n) hn (by rw [hdl]; exact h2), hdl]
      have h3 : (l.take (l.length - n)).take n = l.take n := by
        rw [List.take_take, Nat.min_eq_left h2]
      have h4 : (l.take (l.length - n)).drop n = (l.drop n).take (l.length - n - n) := by
        rw [List.drop_take]
      have h5 : (l.drop n).drop (l.length - n - n) = l.drop (l.length - n) := by
        rw [List.drop_drop]; congr 1; omega
      rw [h3, h4, h5]
      simp

/-- the full pieces do not depend on the leading `len % n` elements -/
theorem rchunksExactSpec_drop_rem (n : Nat) (hn : 0 < n) : ∀ (k : Nat) (l : List α), l.length = k →
    rchunksExactSpec n (l.drop (l.length % n)) = rchunksExactSpec n l := by
  intro k
  induction k using Nat.strongRecOn with
  | _ k ih =>
    intro l hk
    by_cases hlt : l.length < n
    · rw [Nat.mod_eq_of_lt hlt, List.drop_eq_nil_of_le (Nat.le_refl _), rchunksExactSpec_nil n hn,
        rchunksExactSpec_of_lt n l hlt]
    · have hle : n ≤ l.length := by omega
      have hmod : (l.length - n) % n = l.length % n := sub_mod_self' _ _ hle
      have hml := Nat.mod_le (l.length - n) n
      have htl : (l.take (l.length - n)).length = l.length - n := by
        rw [List.length_take]; omega
      have hdl : (l.drop (l.length % n)).length = l.length - l.length % n := by simp
      have IH := ih (l.length - n) (by omega) (l.take (l.length - n)) htl
      rw [htl, hmod] at IH
      rw [rchunksExactSpec_cons n l hn hle, rchunksExactSpec_cons n _ hn (by rw [hdl]; omega), hdl]
      have h3 : (l.drop (l.length % n)).drop (l.length - l.length % n - n) = l.drop (l.length - n) := by
        rw [List.drop_drop]; congr 1; omega
      have h4 : (l.drop (l.length % n)).take (l.length - l.length % n - n)
          = (l.take (l.length - n)).drop (l.length % n) := by
        rw [List.drop_take]; congr 1; omega
      rw [h3, h4, IH]

/-! ### windows -/

theorem windowsSpec_of_lt (n : Nat) (l : List α) (h : l.length < n) : windowsSpec n l = [] := by
  unfold windowsSpec
  have : l.length + 1 - n = 0 := by omega
  simp [this]

/-- front decomposition -/
theorem windowsSpec_cons (n : Nat) (l : List α) (hn : 0 < n) (h : n ≤ l.length) :
    windowsSpec n l = l.take n :: windowsSpec n (l.drop 1) := by
  unfold windowsSpec
  have hn0 : n ≠ 0 := by omega
  simp only [hn0, if_false, List.length_drop]
  have : l.length + 1 - n = (l.length - 1 + 1 - n) + 1 := by omega
  rw [this, List.range_succ_eq_map, List.map_cons, List.map_map]
  simp only [List.drop_zero, List.drop_drop]
  congr 1
  apply List.map_congr_left
  intro i _
  simp only [Function.comp, Nat.succ_eq_add_one]
  congr 2
  omega

/-- back decomposition -/
theorem windowsSpec_last (n : Nat) (l : List α) (hn : 0 < n) (h : n ≤ l.length) :
    windowsSpec n l = windowsSpec n (l.take (l.length - 1)) ++ [l.drop (l.length - n)] := by
  unfold windowsSpec
  have hn0 : n ≠ 0 := by omega
  simp only [hn0, if_false, List.length_take]
  have h1 : l.length + 1 - n = (l.length - n) + 1 := by omega
  have h2 : min (l.length - 1) l.length + 1 - n = l.length - n := by omega
  rw [h1, h2, List.range_succ, List.map_append, List.map_singleton]
  congr 1
  · apply List.map_congr_left
    intro i hi
    rw [List.mem_range] at hi
    rw [List.drop_take, List.take_take, Nat.min_eq_left (by omega)]
  · congr 1
    apply List.take_of_length_le
    simp; omega

end Konst.Spec
