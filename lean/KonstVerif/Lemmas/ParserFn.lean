import KonstVerif.Lemmas.ParserSplit
/-
  Helper lemmas for C14: a successful `Parser` step leaves the remainder its free function computes
  (`FnOk`), by unfolding each method to the call of the modelled free function; the flag lemmas.
-/
set_option linter.unusedSimpArgs false
namespace Konst.Lemmas.ParserFn
open Konst Konst.Parser Konst.Spec.Utf8 Konst.Spec.Bytes Konst.Lemmas.Utf8 Konst.Lemmas.Parser

/-- what a successful step `p ↦ p'` of `op` says about the free function applied to `p`'s remainder:
    it found exactly `p'`'s remainder — or (`split`, `rsplit`, `split_keep` only) it found nothing
    and the method handed out the rest once: empty remainder, flag set -/
def FnOk (op : Op) (p p' : Parser) : Prop :=
  ∀ fr, freeFn op p.str = some fr →
    fr = .found p'.str ∨
    (fr = .notFound ∧ op.yieldsRest = true ∧ p'.str = [] ∧ p'.yieldedLastSplit = true)

theorem strFrom_apply {s : List Nat} {k : Nat} {v : View} (h : Utf8.strFrom s k = .ok v) :
    v.apply s = s.drop k := by
  unfold Utf8.strFrom at h
  split at h
  · cases h; exact sliceFrom_apply' s k
  · cases h

theorem strUpTo_apply {s : List Nat} {k : Nat} {v : View} (h : Utf8.strUpTo s k = .ok v) :
    v.apply s = s.take k := by
  unfold Utf8.strUpTo at h
  split at h
  · cases h; exact sliceUpTo_apply' s k
  · cases h

theorem splitAt_apply {s : List Nat} {k : Nat} {a b : View} (h : Utf8.splitAt s k = .ok (a, b)) :
    a.apply s = s.take k ∧ b.apply s = s.drop k := by
  unfold Utf8.splitAt at h
  cases h1 : Utf8.strUpTo s k with
  | error e => simp [h1, bind, Except.bind] at h
  | ok x =>
    cases h2 : Utf8.strFrom s k with
    | error e => simp [h1, h2, bind, Except.bind] at h
    | ok y =>
      simp only [h1, h2, bind, Except.bind, pure, Except.pure, Except.ok.injEq, Prod.mk.injEq] at h
      rw [← h.1, ← h.2]
      exact ⟨strUpTo_apply h1, strFrom_apply h2⟩

theorem stripPrefix_fn (p : Parser) (m : List Nat) (p' : Parser) (v : Value)
    (h : step (.stripPrefix m) p = .ok p' v) : FnOk (.stripPrefix m) p p' := by
  intro fr hfr
  simp only [freeFn, Option.some.injEq] at hfr
  subst hfr
  simp only [step, stripPrefix, tryParsing] at h
  cases hx : StrFns.stripPrefix p.str m with
  | none => simp [hx] at h
  | some x =>
    simp only [hx, Res.ok.injEq] at h
    left
    simp [FnRes.ofOptView, ← h.1, enableIfStartAdd, Parser.setStr]

theorem stripSuffix_fn (p : Parser) (m : List Nat) (p' : Parser) (v : Value)
    (h : step (.stripSuffix m) p = .ok p' v) : FnOk (.stripSuffix m) p p' := by
  intro fr hfr
  simp only [freeFn, Option.some.injEq] at hfr
  subst hfr
  simp only [step, stripSuffix, tryParsing] at h
  cases hx : StrFns.stripSuffix p.str m with
  | none => simp [hx] at h
  | some x =>
    simp only [hx, Res.ok.injEq] at h
    left
    simp [FnRes.ofOptView, ← h.1, enableIfStartAdd, Parser.setStr]

theorem findSkip_fn (p : Parser) (m : List Nat) (p' : Parser) (v : Value)
    (h : step (.findSkip m) p = .ok p' v) : FnOk (.findSkip m) p p' := by
  intro fr hfr
  simp only [freeFn, Option.some.injEq] at hfr
  subst hfr
  simp only [step, findSkip, tryParsing] at h
  cases hx : StrFns.findSkip p.str m with
  | none => simp [hx] at h
  | some x =>
    simp only [hx, Res.ok.injEq] at h
    left
    simp [FnRes.ofOptView, ← h.1, enableIfStartAdd, Parser.setStr]

theorem rfindSkip_fn (p : Parser) (m : List Nat) (p' : Parser) (v : Value)
    (h : step (.rfindSkip m) p = .ok p' v) : FnOk (.rfindSkip m) p p' := by
  intro fr hfr
  simp only [freeFn, Option.some.injEq] at hfr
  subst hfr
  simp only [step, rfindSkip, tryParsing] at h
  cases hx : StrFns.rfindSkip p.str m with
  | none => simp [hx] at h
  | some x =>
    simp only [hx, Res.ok.injEq] at h
    left
    simp [FnRes.ofOptView, ← h.1, enableIfStartAdd, Parser.setStr]

theorem trimStart_fn (p p' : Parser) (v : Value) (h : step .trimStart p = .ok p' v) : FnOk .trimStart p p' := by
  intro fr hfr
  simp only [freeFn, Option.some.injEq] at hfr
  subst hfr
  simp only [step, trimStart, parsing, Res.ok.injEq] at h
  left
  simp [← h.1, enableIfStartAdd, Parser.setStr]

theorem trimEnd_fn (p p' : Parser) (v : Value) (h : step .trimEnd p = .ok p' v) : FnOk .trimEnd p p' := by
  intro fr hfr
  simp only [freeFn, Option.some.injEq] at hfr
  subst hfr
  simp only [step, trimEnd, parsing, Res.ok.injEq] at h
  left
  simp [← h.1, enableIfStartAdd, Parser.setStr]

theorem trimStartMatches_fn (p : Parser) (m : List Nat) (p' : Parser) (v : Value)
    (h : step (.trimStartMatches m) p = .ok p' v) : FnOk (.trimStartMatches m) p p' := by
  intro fr hfr
  simp only [freeFn, Option.some.injEq] at hfr
  subst hfr
  simp only [step, trimStartMatches, parsing, Res.ok.injEq] at h
  left
  simp [← h.1, enableIfStartAdd, Parser.setStr]

theorem trimEndMatches_fn (p : Parser) (m : List Nat) (p' : Parser) (v : Value)
    (h : step (.trimEndMatches m) p = .ok p' v) : FnOk (.trimEndMatches m) p p' := by
  intro fr hfr
  simp only [freeFn, Option.some.injEq] at hfr
  subst hfr
  simp only [step, trimEndMatches, parsing, Res.ok.injEq] at h
  left
  simp [← h.1, enableIfStartAdd, Parser.setStr]

/-- `Parser::trim` trims the start then the end, `string::trim` the end then the start: same result -/
theorem trim_fn (p p' : Parser) (v : Value) (h : step .trim p = .ok p' v) : FnOk .trim p p' := by
  intro fr hfr
  simp only [freeFn, Option.some.injEq] at hfr
  subst hfr
  simp only [step, trim, Res.ok.injEq] at h
  left
  rw [← h.1]
  simp only []
  change FnRes.found ((Bytes.bytesTrim p.str).apply p.str) = FnRes.found
    ((Bytes.bytesTrimEnd ((Bytes.bytesTrimStart p.str).apply p.str)).apply ((Bytes.bytesTrimStart p.str).apply p.str))
  rw [(Props.C05.bytesTrim_eq _).1, (Props.C05.bytesTrimStart_eq _).1, (Props.C05.bytesTrimEnd_eq _).1]
  rfl

theorem trimMatches_fn (p : Parser) (m : List Nat) (p' : Parser) (v : Value)
    (h : step (.trimMatches m) p = .ok p' v) : FnOk (.trimMatches m) p p' := by
  intro fr hfr
  simp only [freeFn, Option.some.injEq] at hfr
  subst hfr
  simp only [step, trimMatches, Res.ok.injEq] at h
  left
  rw [← h.1]
  simp only []
  change FnRes.found ((Bytes.trimMatches p.str m).apply p.str) = FnRes.found
    ((Bytes.trimEndMatches ((Bytes.trimStartMatches p.str m).apply p.str) m).apply
      ((Bytes.trimStartMatches p.str m).apply p.str))
  rw [(Props.C05.trimMatches_eq_spec _ _).1, (Props.C05.trimStartMatches_eq_spec _ _).1,
    (Props.C05.trimEndMatches_eq_spec _ _).1]
  rfl

theorem split_fn (p : Parser) (d : List Nat) (p' : Parser) (v : Value)
    (h : step (.split d) p = .ok p' v) : FnOk (.split d) p p' := by
  intro fr hfr
  simp only [freeFn, Option.some.injEq] at hfr
  subst hfr
  simp only [step, split, tryParsing] at h
  by_cases hfl : p.yieldedLastSplit = true
  · simp [hfl] at h
  · simp only [hfl, Bool.false_eq_true, if_false] at h
    cases hs : StrFns.splitOnce p.str d with
    | error e => simp [hs] at h
    | ok r =>
      cases r with
      | none =>
        simp only [hs, strFrom_ok (bnd_len p.str), Res.ok.injEq] at h
        right
        refine ⟨rfl, rfl, ?_, ?_⟩
        · simp [← h.1, enableIfStartAdd, Parser.setStr, sliceFrom_apply']
        · simp [← h.1, enableIfStartAdd, Parser.setStr]
      | some ab =>
        obtain ⟨a, b⟩ := ab
        simp only [hs, Res.ok.injEq] at h
        left
        simp [← h.1, enableIfStartAdd, Parser.setStr]

theorem splitTerminator_fn (p : Parser) (d : List Nat) (p' : Parser) (v : Value)
    (h : step (.splitTerminator d) p = .ok p' v) : FnOk (.splitTerminator d) p p' := by
  intro fr hfr
  simp only [freeFn, Option.some.injEq] at hfr
  subst hfr
  simp only [step, splitTerminator, tryParsing] at h
  by_cases hfl : (p.str.isEmpty || p.yieldedLastSplit) = true
  · simp [hfl] at h
  · simp only [hfl, Bool.false_eq_true, if_false] at h
    cases hs : StrFns.splitOnce p.str d with
    | error e => simp [hs] at h
    | ok r =>
      cases r with
      | none => simp [hs] at h
      | some ab =>
        obtain ⟨a, b⟩ := ab
        simp only [hs, Res.ok.injEq] at h
        left
        simp [← h.1, enableIfStartAdd]

theorem rsplit_fn (p : Parser) (d : List Nat) (p' : Parser) (v : Value)
    (h : step (.rsplit d) p = .ok p' v) : FnOk (.rsplit d) p p' := by
  intro fr hfr
  simp only [freeFn, Option.some.injEq] at hfr
  subst hfr
  simp only [step, rsplit, tryParsing] at h
  by_cases hfl : p.yieldedLastSplit = true
  · simp [hfl] at h
  · simp only [hfl, Bool.false_eq_true, if_false] at h
    cases hs : StrFns.rsplitOnce p.str d with
    | error e => simp [hs] at h
    | ok r =>
      cases r with
      | none =>
        simp only [hs] at h
        cases hu : Utf8.strUpTo p.str 0 with
        | error e => simp [hu] at h
        | ok x =>
          simp only [hu, Res.ok.injEq] at h
          right
          refine ⟨rfl, rfl, ?_, ?_⟩
          · simp [← h.1, enableIfStartAdd, Parser.setStr, strUpTo_apply hu]
          · simp [← h.1, enableIfStartAdd, Parser.setStr]
      | some ab =>
        obtain ⟨a, b⟩ := ab
        simp only [hs, Res.ok.injEq] at h
        left
        simp [← h.1, enableIfStartAdd, Parser.setStr]

theorem rsplitTerminator_fn (p : Parser) (d : List Nat) (p' : Parser) (v : Value)
    (h : step (.rsplitTerminator d) p = .ok p' v) : FnOk (.rsplitTerminator d) p p' := by
  intro fr hfr
  simp only [freeFn, Option.some.injEq] at hfr
  subst hfr
  simp only [step, rsplitTerminator, tryParsing] at h
  by_cases hfl : (p.str.isEmpty || p.yieldedLastSplit) = true
  · simp [hfl] at h
  · simp only [hfl, Bool.false_eq_true, if_false] at h
    cases hs : StrFns.rsplitOnce p.str d with
    | error e => simp [hs] at h
    | ok r =>
      cases r with
      | none => simp [hs] at h
      | some ab =>
        obtain ⟨a, b⟩ := ab
        simp only [hs, Res.ok.injEq] at h
        left
        simp [← h.1, enableIfStartAdd]

theorem splitKeep_fn (p : Parser) (d : List Nat) (p' : Parser) (v : Value)
    (h : step (.splitKeep d) p = .ok p' v) : FnOk (.splitKeep d) p p' := by
  intro fr hfr
  simp only [freeFn, Option.some.injEq] at hfr
  subst hfr
  simp only [step, splitKeep, tryParsing] at h
  by_cases hfl : p.yieldedLastSplit = true
  · simp [hfl] at h
  · simp only [hfl, Bool.false_eq_true, if_false] at h
    have hfk : StrFns.findKeep p.str d =
        if d.isEmpty then some ⟨0, p.str.length⟩ else
          match StrFns.find p.str d with
          | some pos => some (Slice.sliceFrom p.str.length pos)
          | none => none := rfl
    cases hf : StrFns.find p.str d with
    | none =>
      have hde : d.isEmpty = false := by
        cases d with
        | nil =>
          have : StrFns.find p.str [] = some 0 := Props.C04.find_empty p.str
          rw [this] at hf; cases hf
        | cons a t => rfl
      simp only [hf, strFrom_ok (bnd_len p.str), Res.ok.injEq] at h
      right
      refine ⟨by simp [hfk, hf, hde, FnRes.ofOptView], rfl, ?_, ?_⟩
      · simp [← h.1, enableIfStartAdd, Parser.setStr, sliceFrom_apply']
      · simp [← h.1, enableIfStartAdd, Parser.setStr]
    | some pos =>
      simp only [hf] at h
      cases hsa : Utf8.splitAt p.str pos with
      | error e => simp [hsa] at h
      | ok ab =>
        obtain ⟨a, b⟩ := ab
        simp only [hsa, Res.ok.injEq] at h
        left
        have hb := (splitAt_apply hsa).2
        by_cases hde : d.isEmpty = true
        · have hd0 : d = [] := List.isEmpty_iff.mp hde
          subst hd0
          have : StrFns.find p.str [] = some 0 := Props.C04.find_empty p.str
          rw [this] at hf; cases hf
          have hw : (View.mk 0 p.str.length).apply p.str = p.str := Lemmas.ParserSplit.whole_apply p.str
          simp only [hfk, List.isEmpty_nil, if_true, FnRes.ofOptView, ← h.1, enableIfStartAdd, Parser.setStr, hb, hw,
            List.drop_zero]
        · simp [hfk, hf, hde, FnRes.ofOptView, ← h.1, enableIfStartAdd, Parser.setStr, hb, sliceFrom_apply']

theorem parseInt_fn (p : Parser) (sg : Bool) (bits : Nat) (p' : Parser) (v : Value)
    (h : step (.parseInt sg bits) p = .ok p' v) : FnOk (.parseInt sg bits) p p' := by
  intro fr hfr
  simp only [freeFn, Option.some.injEq] at hfr
  subst hfr
  simp only [step, parseInt, tryParsing] at h
  cases hx : ParseInt.parseIntegerPrefix sg bits p.str with
  | none => simp [hx] at h
  | some vn =>
    obtain ⟨num, n⟩ := vn
    simp only [hx] at h
    cases hsf : Utf8.strFrom p.str n with
    | error e => simp [hsf] at h
    | ok x =>
      simp only [hsf, Res.ok.injEq] at h
      left
      simp [← h.1, enableIfStartAdd, Parser.setStr, strFrom_apply hsf]

theorem parseBool_fn (p p' : Parser) (v : Value)
    (h : step .parseBool p = .ok p' v) : FnOk .parseBool p p' := by
  intro fr hfr
  simp only [freeFn, Option.some.injEq] at hfr
  subst hfr
  simp only [step, parseBool, tryParsing] at h
  cases hx : ParseInt.parseBoolPrefix p.str with
  | none => simp [hx] at h
  | some vn =>
    obtain ⟨num, n⟩ := vn
    simp only [hx] at h
    cases hsf : Utf8.strFrom p.str n with
    | error e => simp [hsf] at h
    | ok x =>
      simp only [hsf, Res.ok.injEq] at h
      left
      simp [← h.1, enableIfStartAdd, Parser.setStr, strFrom_apply hsf]

/-- every operation: a successful step leaves the remainder its free function computes -/
theorem step_fn (op : Op) (p p' : Parser) (v : Value) (h : step op p = .ok p' v) : FnOk op p p' := by
  cases op with
  | splitTerminator d => exact splitTerminator_fn p d p' v h
  | rsplitTerminator d => exact rsplitTerminator_fn p d p' v h
  | split d => exact split_fn p d p' v h
  | rsplit d => exact rsplit_fn p d p' v h
  | splitKeep d => exact splitKeep_fn p d p' v h
  | stripPrefix m => exact stripPrefix_fn p m p' v h
  | stripSuffix m => exact stripSuffix_fn p m p' v h
  | trim => exact trim_fn p p' v h
  | trimStart => exact trimStart_fn p p' v h
  | trimEnd => exact trimEnd_fn p p' v h
  | trimMatches m => exact trimMatches_fn p m p' v h
  | trimStartMatches m => exact trimStartMatches_fn p m p' v h
  | trimEndMatches m => exact trimEndMatches_fn p m p' v h
  | findSkip m => exact findSkip_fn p m p' v h
  | rfindSkip m => exact rfindSkip_fn p m p' v h
  | skip n => intro fr hfr; simp [freeFn] at hfr
  | skipBack n => intro fr hfr; simp [freeFn] at hfr
  | parseInt s b => exact parseInt_fn p s b p' v h
  | parseBool => exact parseBool_fn p p' v h

/-! ### the one-shot flag -/

theorem enable_flag (d : ParseDirection) (c s : Parser) :
    (enableIfStartAdd d c s).yieldedLastSplit = s.yieldedLastSplit := by
  cases d <;> rfl

theorem tryParsing_flag (p : Parser) (d : ParseDirection) (code : Parser → Body) (p' : Parser) (v : Value)
    (hc : ∀ ret self', code { p with dir := d } = .done ret self' → self'.yieldedLastSplit = p.yieldedLastSplit)
    (h : tryParsing p d code = .ok p' v) : p'.yieldedLastSplit = p.yieldedLastSplit := by
  unfold tryParsing at h
  simp only [] at h
  cases hcode : code { p with dir := d } with
  | throw k => simp [hcode] at h
  | panic => simp [hcode] at h
  | done ret self' =>
    simp only [hcode, Res.ok.injEq] at h
    rw [← h.1, enable_flag]; exact hc ret self' hcode

theorem parsing_flag (p : Parser) (d : ParseDirection) (code : Parser → Option Parser) (p' : Parser) (v : Value)
    (hc : ∀ self', code { p with dir := d } = some self' → self'.yieldedLastSplit = p.yieldedLastSplit)
    (h : parsing p d code = .ok p' v) : p'.yieldedLastSplit = p.yieldedLastSplit := by
  unfold parsing at h
  simp only [] at h
  cases hcode : code { p with dir := d } with
  | none => simp [hcode] at h
  | some self' =>
    simp only [hcode, Res.ok.injEq] at h
    rw [← h.1, enable_flag]; exact hc self' hcode

theorem flag_unchanged (op : Op) (p p' : Parser) (v : Value) (hns : op.isSplitFamily = false)
    (h : step op p = .ok p' v) : p'.yieldedLastSplit = p.yieldedLastSplit := by
  cases op with
  | splitTerminator d => simp [Op.isSplitFamily] at hns
  | rsplitTerminator d => simp [Op.isSplitFamily] at hns
  | split d => simp [Op.isSplitFamily] at hns
  | rsplit d => simp [Op.isSplitFamily] at hns
  | splitKeep d => simp [Op.isSplitFamily] at hns
  | stripPrefix m =>
    unfold step at h; simp only [] at h
    first | unfold stripPrefix at h | unfold stripSuffix at h | unfold findSkip at h | unfold rfindSkip at h | unfold Parser.trimStart at h | unfold Parser.trimEnd at h | unfold Parser.trimStartMatches at h | unfold Parser.trimEndMatches at h | unfold parseInt at h | unfold parseBool at h
    refine tryParsing_flag p _ _ p' v ?_ h
    intro ret self' hc
    simp only [] at hc
    cases hx : StrFns.stripPrefix p.str m <;> simp [hx] at hc
    rw [← hc.2]; rfl
  | stripSuffix m =>
    unfold step at h; simp only [] at h
    first | unfold stripPrefix at h | unfold stripSuffix at h | unfold findSkip at h | unfold rfindSkip at h | unfold Parser.trimStart at h | unfold Parser.trimEnd at h | unfold Parser.trimStartMatches at h | unfold Parser.trimEndMatches at h | unfold parseInt at h | unfold parseBool at h
    refine tryParsing_flag p _ _ p' v ?_ h
    intro ret self' hc
    simp only [] at hc
    cases hx : StrFns.stripSuffix p.str m <;> simp [hx] at hc
    rw [← hc.2]; rfl
  | findSkip m =>
    unfold step at h; simp only [] at h
    first | unfold stripPrefix at h | unfold stripSuffix at h | unfold findSkip at h | unfold rfindSkip at h | unfold Parser.trimStart at h | unfold Parser.trimEnd at h | unfold Parser.trimStartMatches at h | unfold Parser.trimEndMatches at h | unfold parseInt at h | unfold parseBool at h
    refine tryParsing_flag p _ _ p' v ?_ h
    intro ret self' hc
    simp only [] at hc
    cases hx : StrFns.findSkip p.str m <;> simp [hx] at hc
    rw [← hc.2]; rfl
  | rfindSkip m =>
    unfold step at h; simp only [] at h
    first | unfold stripPrefix at h | unfold stripSuffix at h | unfold findSkip at h | unfold rfindSkip at h | unfold Parser.trimStart at h | unfold Parser.trimEnd at h | unfold Parser.trimStartMatches at h | unfold Parser.trimEndMatches at h | unfold parseInt at h | unfold parseBool at h
    refine tryParsing_flag p _ _ p' v ?_ h
    intro ret self' hc
    simp only [] at hc
    cases hx : StrFns.rfindSkip p.str m <;> simp [hx] at hc
    rw [← hc.2]; rfl
  | trim => simp only [step, trim, Res.ok.injEq] at h; rw [← h.1]
  | trimMatches m => simp only [step, trimMatches, Res.ok.injEq] at h; rw [← h.1]
  | trimStart =>
    unfold step at h; simp only [] at h
    first | unfold stripPrefix at h | unfold stripSuffix at h | unfold findSkip at h | unfold rfindSkip at h | unfold Parser.trimStart at h | unfold Parser.trimEnd at h | unfold Parser.trimStartMatches at h | unfold Parser.trimEndMatches at h | unfold parseInt at h | unfold parseBool at h
    refine parsing_flag p _ _ p' v ?_ h
    intro self' hc; simp only [Option.some.injEq] at hc; rw [← hc]; rfl
  | trimEnd =>
    unfold step at h; simp only [] at h
    first | unfold stripPrefix at h | unfold stripSuffix at h | unfold findSkip at h | unfold rfindSkip at h | unfold Parser.trimStart at h | unfold Parser.trimEnd at h | unfold Parser.trimStartMatches at h | unfold Parser.trimEndMatches at h | unfold parseInt at h | unfold parseBool at h
    refine parsing_flag p _ _ p' v ?_ h
    intro self' hc; simp only [Option.some.injEq] at hc; rw [← hc]; rfl
  | trimStartMatches m =>
    unfold step at h; simp only [] at h
    first | unfold stripPrefix at h | unfold stripSuffix at h | unfold findSkip at h | unfold rfindSkip at h | unfold Parser.trimStart at h | unfold Parser.trimEnd at h | unfold Parser.trimStartMatches at h | unfold Parser.trimEndMatches at h | unfold parseInt at h | unfold parseBool at h
    refine parsing_flag p _ _ p' v ?_ h
    intro self' hc; simp only [Option.some.injEq] at hc; rw [← hc]; rfl
  | trimEndMatches m =>
    unfold step at h; simp only [] at h
    first | unfold stripPrefix at h | unfold stripSuffix at h | unfold findSkip at h | unfold rfindSkip at h | unfold Parser.trimStart at h | unfold Parser.trimEnd at h | unfold Parser.trimStartMatches at h | unfold Parser.trimEndMatches at h | unfold parseInt at h | unfold parseBool at h
    refine parsing_flag p _ _ p' v ?_ h
    intro self' hc; simp only [Option.some.injEq] at hc; rw [← hc]; rfl
  | skip n =>
    simp only [step, skip] at h
    split at h
    · cases h
    · simp only [Res.ok.injEq] at h; rw [← h.1]; rfl
  | skipBack n =>
    simp only [step, skipBack] at h
    split at h
    · cases h
    · split at h
      · cases h
      · simp only [Res.ok.injEq] at h; rw [← h.1]; rfl
  | parseInt s b =>
    unfold step at h; simp only [] at h
    first | unfold stripPrefix at h | unfold stripSuffix at h | unfold findSkip at h | unfold rfindSkip at h | unfold Parser.trimStart at h | unfold Parser.trimEnd at h | unfold Parser.trimStartMatches at h | unfold Parser.trimEndMatches at h | unfold parseInt at h | unfold parseBool at h
    refine tryParsing_flag p _ _ p' v ?_ h
    intro ret self' hc
    simp only [] at hc
    split at hc
    · cases hc
    · split at hc
      · cases hc
      · simp only [Body.done.injEq] at hc; rw [← hc.2]; rfl
  | parseBool =>
    unfold step at h; simp only [] at h
    first | unfold stripPrefix at h | unfold stripSuffix at h | unfold findSkip at h | unfold rfindSkip at h | unfold Parser.trimStart at h | unfold Parser.trimEnd at h | unfold Parser.trimStartMatches at h | unfold Parser.trimEndMatches at h | unfold parseInt at h | unfold parseBool at h
    refine tryParsing_flag p _ _ p' v ?_ h
    intro ret self' hc
    simp only [] at hc
    split at hc
    · cases hc
    · split at hc
      · cases hc
      · simp only [Body.done.injEq] at hc; rw [← hc.2]; rfl

/-- with the flag set, every method of the split family fails with `SplitExhausted` -/
theorem exhausted_fails (op : Op) (p : Parser) (hsf : op.isSplitFamily = true) (hfl : p.yieldedLastSplit = true) :
    ∃ e, step op p = .err e ∧ e.kind = .splitExhausted ∧ e.dir = op.direction := by
  cases op <;> simp [Op.isSplitFamily] at hsf
  · exact ⟨_, by simp [step, splitTerminator, tryParsing, hfl]; rfl, rfl, rfl⟩
  · exact ⟨_, by simp [step, rsplitTerminator, tryParsing, hfl]; rfl, rfl, rfl⟩
  · exact ⟨_, by simp [step, split, tryParsing, hfl]; rfl, rfl, rfl⟩
  · exact ⟨_, by simp [step, rsplit, tryParsing, hfl]; rfl, rfl, rfl⟩
  · exact ⟨_, by simp [step, splitKeep, tryParsing, hfl]; rfl, rfl, rfl⟩

/-- a method of the split family sets the flag only together with an empty remainder -/
theorem splitfam_flag_empty (op : Op) (p p' : Parser) (v : Value) (hsf : op.isSplitFamily = true)
    (h : step op p = .ok p' v) (hfl' : p'.yieldedLastSplit = true) : p'.str = [] := by
  have hfl : p.yieldedLastSplit = false := by
    cases hp : p.yieldedLastSplit with
    | false => rfl
    | true =>
      obtain ⟨e, he, _⟩ := exhausted_fails op p hsf hp
      rw [he] at h; cases h
  cases op with
  | splitTerminator d =>
    simp only [step, splitTerminator, tryParsing, hfl, Bool.or_false] at h
    by_cases he : p.str.isEmpty = true
    · simp [he] at h
    · simp only [he, Bool.false_eq_true, if_false] at h
      cases hs : StrFns.splitOnce p.str d with
      | error e => simp [hs] at h
      | ok r =>
        cases r with
        | none => simp [hs] at h
        | some ab =>
          obtain ⟨a, b⟩ := ab
          simp only [hs, Res.ok.injEq] at h
          rw [← h.1] at hfl' ⊢
          simpa [enableIfStartAdd] using hfl'
  | rsplitTerminator d =>
    simp only [step, rsplitTerminator, tryParsing, hfl, Bool.or_false] at h
    by_cases he : p.str.isEmpty = true
    · simp [he] at h
    · simp only [he, Bool.false_eq_true, if_false] at h
      cases hs : StrFns.rsplitOnce p.str d with
      | error e => simp [hs] at h
      | ok r =>
        cases r with
        | none => simp [hs] at h
        | some ab =>
          obtain ⟨a, b⟩ := ab
          simp only [hs, Res.ok.injEq] at h
          rw [← h.1] at hfl' ⊢
          simpa [enableIfStartAdd] using hfl'
  | split d =>
    simp only [step, split, tryParsing, hfl, Bool.false_eq_true, if_false] at h
    cases hs : StrFns.splitOnce p.str d with
    | error e => simp [hs] at h
    | ok r =>
      cases r with
      | none =>
        simp only [hs, strFrom_ok (bnd_len p.str), Res.ok.injEq] at h
        rw [← h.1]; simp [enableIfStartAdd, Parser.setStr, sliceFrom_apply']
      | some ab =>
        obtain ⟨a, b⟩ := ab
        simp only [hs, Res.ok.injEq] at h
        rw [← h.1] at hfl'; simp [enableIfStartAdd, Parser.setStr, hfl] at hfl'
  | rsplit d =>
    simp only [step, rsplit, tryParsing, hfl, Bool.false_eq_true, if_false] at h
    cases hs : StrFns.rsplitOnce p.str d with
    | error e => simp [hs] at h
    | ok r =>
      cases r with
      | none =>
        simp only [hs] at h
        cases hu : Utf8.strUpTo p.str 0 with
        | error e => simp [hu] at h
        | ok x =>
          simp only [hu, Res.ok.injEq] at h
          rw [← h.1]; simp [enableIfStartAdd, Parser.setStr, strUpTo_apply hu]
      | some ab =>
        obtain ⟨a, b⟩ := ab
        simp only [hs, Res.ok.injEq] at h
        rw [← h.1] at hfl'; simp [enableIfStartAdd, Parser.setStr, hfl] at hfl'
  | splitKeep d =>
    simp only [step, splitKeep, tryParsing, hfl, Bool.false_eq_true, if_false] at h
    cases hf : StrFns.find p.str d with
    | none =>
      simp only [hf, strFrom_ok (bnd_len p.str), Res.ok.injEq] at h
      rw [← h.1]; simp [enableIfStartAdd, Parser.setStr, sliceFrom_apply']
    | some pos =>
      simp only [hf] at h
      cases hsa : Utf8.splitAt p.str pos with
      | error e => simp [hsa] at h
      | ok ab =>
        obtain ⟨a, b⟩ := ab
        simp only [hsa, Res.ok.injEq] at h
        rw [← h.1] at hfl'; simp [enableIfStartAdd, Parser.setStr, hfl] at hfl'
  | _ => simp [Op.isSplitFamily] at hsf

end Konst.Lemmas.ParserFn
