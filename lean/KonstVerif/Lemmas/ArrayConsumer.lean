import KonstVerif.Model.ArrayConsumer
import KonstVerif.Lemmas.ArrayBuilder
/-
  Helper lemmas for C15: the refinement relation between the `ArrayConsumer` state machine and
  "the elements it still owns, in order" (a deque).
-/
namespace Konst.ArrayConsumer
open Konst.ArrayBuilder (readInit readInit_map_some mapFrom mapFrom_length)
variable {α : Type}

/-- the consumer owns exactly `rem`, stored in `slots[taken_front .. N - taken_back]`; the slots before
    and after are never looked at again (their content is irrelevant) -/
def Wf (c : Consumer α) (rem : List α) : Prop :=
  ∃ pre post : List (Option α),
    c.slots = pre ++ rem.map some ++ post ∧ pre.length = c.takenFront ∧ post.length = c.takenBack ∧
    c.n = pre.length + rem.length + post.length

theorem wf_new (xs : List α) : Wf (new xs) xs :=
  ⟨[], [], by simp [new], rfl, rfl, by simp [new]⟩

theorem wf_empty (n : Nat) : Wf (empty n : Consumer α) [] :=
  ⟨List.replicate n none, [], by simp [empty], by simp [empty], rfl, by simp [empty]⟩

theorem wf_sliceLen {c : Consumer α} {rem : List α} (h : Wf c rem) : sliceLen c = rem.length := by
  obtain ⟨pre, post, _, hp, hq, hn⟩ := h
  unfold sliceLen; omega

theorem wf_slots_window {c : Consumer α} {rem : List α} (h : Wf c rem) :
    (c.slots.drop c.takenFront).take (sliceLen c) = rem.map some := by
  rw [wf_sliceLen h]
  obtain ⟨pre, post, hs, hp, _, _⟩ := h
  rw [hs, ← hp, List.append_assoc, List.drop_left, List.take_left' (by simp)]

theorem wf_asSlice {c : Consumer α} {rem : List α} (h : Wf c rem) : asSlice c = some rem := by
  unfold asSlice; rw [wf_slots_window h]; exact readInit_map_some rem

theorem wf_dropped {c : Consumer α} {rem : List α} (h : Wf c rem) : dropped c = some rem :=
  wf_asSlice h

theorem wf_next_nil {c : Consumer α} (h : Wf c []) : next c = .none := by
  simp [next, isEmpty, wf_sliceLen h]

theorem wf_nextBack_nil {c : Consumer α} (h : Wf c []) : nextBack c = .none := by
  simp [nextBack, isEmpty, wf_sliceLen h]

theorem wf_next_cons {c : Consumer α} {x : α} {rem : List α} (h : Wf c (x :: rem)) :
    next c = .some x { c with takenFront := c.takenFront + 1 } ∧
      Wf { c with takenFront := c.takenFront + 1 } rem := by
  have hl := wf_sliceLen h
  obtain ⟨pre, post, hs, hp, hq, hn⟩ := h
  constructor
  · have : c.slots[c.takenFront]? = some (some x) := by
      rw [hs, ← hp]; simp
    simp [next, isEmpty, hl, this]
  · exact ⟨pre ++ [some x], post, by simp [hs], by simp [hp], hq, by simp at hn ⊢; omega⟩

theorem wf_nextBack_snoc {c : Consumer α} {x : α} {rem : List α} (h : Wf c (rem ++ [x])) :
    nextBack c = .some x { c with takenBack := c.takenBack + 1 } ∧
      Wf { c with takenBack := c.takenBack + 1 } rem := by
  have hl := wf_sliceLen h
  obtain ⟨pre, post, hs, hp, hq, hn⟩ := h
  constructor
  · have hidx : c.n - c.takenBack - 1 = (pre ++ rem.map some).length := by
      simp at hn ⊢; omega
    have : c.slots[c.n - c.takenBack - 1]? = some (some x) := by
      rw [hs, hidx]
      have : pre ++ List.map some (rem ++ [x]) ++ post = (pre ++ rem.map some) ++ (some x :: post) := by
        simp
      rw [this, List.getElem?_append_right (Nat.le_refl _)]
      simp
    simp [nextBack, isEmpty, hl, this]
  · exact ⟨pre, some x :: post, by simp [hs], hp, by simp [hq], by simp at hn ⊢; omega⟩

theorem wf_cloneLoop (fresh : Nat → α → α) (l : List α) :
    ∀ (done : List α) (k : Nat),
      ∃ c, cloneLoop fresh l done.length
            ⟨done.length + l.length + k, done.map some ++ List.replicate (l.length + k) none, 0, l.length + k⟩ = c ∧
        c.n = done.length + l.length + k ∧ c.takenFront = 0 ∧ c.takenBack = k ∧
        c.slots = (done ++ mapFrom fresh done.length l).map some ++ List.replicate k none := by
  induction l with
  | nil => intro done k; exact ⟨_, rfl, by simp [cloneLoop], rfl, by simp [cloneLoop], by simp [mapFrom, cloneLoop]⟩
  | cons x r ih =>
    intro done k
    obtain ⟨c, hc, h1, h2, h3, h4⟩ := ih (done ++ [fresh done.length x]) k
    refine ⟨c, ?_, by simp at h1 ⊢; omega, h2, h3, by simpa [mapFrom] using h4⟩
    rw [← hc]
    simp only [cloneLoop, List.length_cons, List.length_append, List.length_nil]
    congr 1
    · congr 1
      · omega
      · have : r.length + 1 + k = (r.length + k) + 1 := by omega
        rw [this, List.replicate_succ, List.set_append_right _ _ (by simp)]
        simp
      · omega

theorem wf_clone (fresh : Nat → α → α) {c : Consumer α} {rem : List α} (h : Wf c rem) :
    ∃ c', clone fresh c = some c' ∧ Wf c' (mapFrom fresh 0 rem) ∧ c'.n = c.n := by
  have hl := wf_sliceLen h
  obtain ⟨pre, post, hs, hp, hq, hn⟩ := h
  have hk : c.n = rem.length + (pre.length + post.length) := by omega
  obtain ⟨c', hc, h1, h2, h3, h4⟩ := wf_cloneLoop fresh rem [] (pre.length + post.length)
  refine ⟨c', ?_, ?_, ?_⟩
  · have ha : asSlice c = some rem := wf_asSlice ⟨pre, post, hs, hp, hq, hn⟩
    simp only [clone, ha]
    rw [← hc]
    simp [hk]
  · refine ⟨[], List.replicate (pre.length + post.length) none, by simpa using h4, by simp [h2],
      by simp [h3], by simp at h1 ⊢; omega⟩
  · simp at h1; omega

end Konst.ArrayConsumer
