import KonstVerif.Lemmas.ArrayBuilder
import KonstVerif.Lemmas.ArrayConsumer
import KonstVerif.Spec.ArrayStd
/-
  Refinement of whole histories (C11 builder_history, C15 ledgers): the `ArrayBuilder` state machine
  refines the bounded vector, the `ArrayConsumer` state machine refines the deque.
-/
namespace Konst.Histories
open Konst.ArrayBuilder (mapFrom mapFrom_length mapFrom_id)
open Konst.Spec.ArrayStd
variable {α : Type}

/-! ### builder -/

theorem bld_step (fresh : Nat → α → α) {b : ArrayBuilder.Builder α} {acc : List α} (k : Nat)
    (h : ArrayBuilder.Wf b acc) (op : ArrayBuilder.Op α) :
    ArrayBuilder.Wf (ArrayBuilder.step fresh (b, k) op).1.1 (bvStep fresh b.n (acc, k) op).1.1 ∧
    (ArrayBuilder.step fresh (b, k) op).1.1.n = b.n ∧
    (ArrayBuilder.step fresh (b, k) op).1.2 = (bvStep fresh b.n (acc, k) op).1.2 ∧
    (ArrayBuilder.step fresh (b, k) op).2 = (bvStep fresh b.n (acc, k) op).2 := by
  cases op with
  | push v =>
    by_cases hlt : acc.length < b.n
    · obtain ⟨b', hp, hw, hn⟩ := ArrayBuilder.wf_push_ok h v hlt
      simp [ArrayBuilder.step, bvStep, bvPush, hp, hlt, hw, hn]
    · have hfull : acc.length = b.n := by have := h.1; omega
      simp [ArrayBuilder.step, bvStep, bvPush, ArrayBuilder.wf_push_full h v hfull, hlt, h]
  | clone =>
    obtain ⟨c, hc, hw, hn⟩ := ArrayBuilder.wf_clone (fun i => fresh (k + i)) h
    simp [ArrayBuilder.step, bvStep, hc, ArrayBuilder.wf_dropped h, hw, hn, h.2.1]
  | cloneDrop =>
    obtain ⟨c, hc, hw, hn⟩ := ArrayBuilder.wf_clone (fun i => fresh (k + i)) h
    simp [ArrayBuilder.step, bvStep, hc, ArrayBuilder.wf_dropped hw, h, h.2.1]

theorem bld_run (fresh : Nat → α → α) (ops : List (ArrayBuilder.Op α)) :
    ∀ (b : ArrayBuilder.Builder α) (acc : List α) (k : Nat), ArrayBuilder.Wf b acc →
      ArrayBuilder.Wf (ArrayBuilder.run fresh (b, k) ops).1.1 (bvRun fresh b.n (acc, k) ops).1.1 ∧
      (ArrayBuilder.run fresh (b, k) ops).1.1.n = b.n ∧
      (ArrayBuilder.run fresh (b, k) ops).1.2 = (bvRun fresh b.n (acc, k) ops).1.2 ∧
      (ArrayBuilder.run fresh (b, k) ops).2 = (bvRun fresh b.n (acc, k) ops).2 := by
  induction ops with
  | nil => intro b acc k h; exact ⟨h, rfl, rfl, rfl⟩
  | cons op r ih =>
    intro b acc k h
    obtain ⟨h1, h2, h3, h4⟩ := bld_step fresh k h op
    have hst : ArrayBuilder.step fresh (b, k) op =
        (((ArrayBuilder.step fresh (b, k) op).1.1, (bvStep fresh b.n (acc, k) op).1.2),
          (bvStep fresh b.n (acc, k) op).2) := by
      rw [← h3, ← h4]
    have hsp : (bvStep fresh b.n (acc, k) op).1 =
        ((bvStep fresh b.n (acc, k) op).1.1, (bvStep fresh b.n (acc, k) op).1.2) := rfl
    obtain ⟨g1, g2, g3, g4⟩ := ih _ _ (bvStep fresh b.n (acc, k) op).1.2 h1
    simp only [ArrayBuilder.run, bvRun]
    rw [hst]
    simp only []
    rw [h2] at g1 g2 g3 g4
    rw [hsp]
    exact ⟨g1, g2, g3, by rw [g4]⟩

/-- with value-preserving clones the bounded vector holds the first `n` pushes -/
theorem bvRun_values (n : Nat) (ops : List (ArrayBuilder.Op α)) :
    ∀ (acc : List α) (k : Nat), acc.length ≤ n →
      (bvRun (fun _ x => x) n (acc, k) ops).1.1 = (acc ++ pushes ops).take n := by
  induction ops with
  | nil => intro acc k h; simp [bvRun, pushes, List.take_of_length_le h]
  | cons op r ih =>
    intro acc k h
    cases op with
    | push v =>
      by_cases hlt : acc.length < n
      · simp only [bvRun, bvStep, bvPush, hlt, if_true, pushes]
        rw [ih (acc ++ [v]) (k + 1) (by simp; omega)]
        simp
      · have : acc.length = n := by omega
        simp only [bvRun, bvStep, bvPush, hlt, if_false, pushes]
        rw [ih acc (k + 1) h]
        rw [List.take_append_of_le_length (by omega), List.take_append_of_le_length (by omega)]
    | clone =>
      simp only [bvRun, bvStep, pushes, mapFrom_id]
      exact ih acc _ h
    | cloneDrop =>
      simp only [bvRun, bvStep, pushes]
      exact ih acc _ h

/-! ### consumer -/

theorem cons_step (fresh : Nat → α → α) {c : ArrayConsumer.Consumer α} {rem : List α} (k : Nat)
    (h : ArrayConsumer.Wf c rem) (op : ArrayConsumer.Op) :
    ArrayConsumer.Wf (ArrayConsumer.step fresh (c, k) op).1.1 (dqStep fresh (rem, k) op).1.1 ∧
    (ArrayConsumer.step fresh (c, k) op).1.2 = (dqStep fresh (rem, k) op).1.2 ∧
    (ArrayConsumer.step fresh (c, k) op).2 = (dqStep fresh (rem, k) op).2 := by
  cases op with
  | next =>
    cases rem with
    | nil => simp [ArrayConsumer.step, dqStep, dqNext, ArrayConsumer.wf_next_nil h, h]
    | cons x r =>
      obtain ⟨hn, hw⟩ := ArrayConsumer.wf_next_cons h
      simp [ArrayConsumer.step, dqStep, dqNext, hn, hw]
  | nextBack =>
    rcases List.eq_nil_or_concat rem with rfl | ⟨r, x, rfl⟩
    · simp [ArrayConsumer.step, dqStep, dqNextBack, ArrayConsumer.wf_nextBack_nil h, h]
    · have h' : ArrayConsumer.Wf c (r ++ [x]) := by simpa using h
      obtain ⟨hn, hw⟩ := ArrayConsumer.wf_nextBack_snoc h'
      simp [ArrayConsumer.step, dqStep, dqNextBack, hn, hw]
  | clone =>
    obtain ⟨c', hc, hw, _⟩ := ArrayConsumer.wf_clone (fun i => fresh (k + i)) h
    simp [ArrayConsumer.step, dqStep, hc, ArrayConsumer.wf_dropped h, hw, ArrayConsumer.wf_sliceLen h]
  | cloneDrop =>
    obtain ⟨c', hc, hw, _⟩ := ArrayConsumer.wf_clone (fun i => fresh (k + i)) h
    simp [ArrayConsumer.step, dqStep, hc, ArrayConsumer.wf_dropped hw, h, ArrayConsumer.wf_sliceLen h]

theorem cons_run (fresh : Nat → α → α) (ops : List ArrayConsumer.Op) :
    ∀ (c : ArrayConsumer.Consumer α) (rem : List α) (k : Nat), ArrayConsumer.Wf c rem →
      ArrayConsumer.Wf (ArrayConsumer.run fresh (c, k) ops).1.1 (dqRun fresh (rem, k) ops).1.1 ∧
      (ArrayConsumer.run fresh (c, k) ops).1.2 = (dqRun fresh (rem, k) ops).1.2 ∧
      (ArrayConsumer.run fresh (c, k) ops).2 = (dqRun fresh (rem, k) ops).2 := by
  induction ops with
  | nil => intro c rem k h; exact ⟨h, rfl, rfl⟩
  | cons op r ih =>
    intro c rem k h
    obtain ⟨h1, h3, h4⟩ := cons_step fresh k h op
    have hst : ArrayConsumer.step fresh (c, k) op =
        (((ArrayConsumer.step fresh (c, k) op).1.1, (dqStep fresh (rem, k) op).1.2),
          (dqStep fresh (rem, k) op).2) := by
      rw [← h3, ← h4]
    have hsp : (dqStep fresh (rem, k) op).1 =
        ((dqStep fresh (rem, k) op).1.1, (dqStep fresh (rem, k) op).1.2) := rfl
    obtain ⟨g1, g3, g4⟩ := ih _ _ (dqStep fresh (rem, k) op).1.2 h1
    simp only [ArrayConsumer.run, dqRun]
    rw [hst]
    simp only []
    rw [hsp]
    exact ⟨g1, g3, by rw [g4]⟩

theorem cons_finish {c : ArrayConsumer.Consumer α} {rem : List α} (h : ArrayConsumer.Wf c rem)
    (e : ArrayConsumer.End) : ArrayConsumer.finish c e = some (dqFinish rem e) := by
  cases e with
  | drop => simp [ArrayConsumer.finish, dqFinish, ArrayConsumer.wf_dropped h]
  | forget => simp [ArrayConsumer.finish, dqFinish, ArrayConsumer.wf_asSlice h]
  | assertEmpty =>
    cases rem with
    | nil => simp [ArrayConsumer.finish, dqFinish, ArrayConsumer.isEmpty, ArrayConsumer.wf_sliceLen h]
    | cons x r =>
      simp [ArrayConsumer.finish, dqFinish, ArrayConsumer.isEmpty, ArrayConsumer.wf_sliceLen h,
        ArrayConsumer.wf_dropped h]

/-- clone-free deque history: what was handed out from the front, what is left, and what was handed
    out from the back partition the initial content in order -/
theorem dq_ledger (fresh : Nat → α → α) (ops : List ArrayConsumer.Op)
    (hops : ∀ op ∈ ops, op = .next ∨ op = .nextBack) :
    ∀ (rem : List α) (k : Nat),
      fronts (dqRun fresh (rem, k) ops).2 ++ (dqRun fresh (rem, k) ops).1.1 ++
        (backs (dqRun fresh (rem, k) ops).2).reverse = rem := by
  induction ops with
  | nil => intro rem k; simp [dqRun, fronts, backs]
  | cons op r ih =>
    intro rem k
    have hr : ∀ op ∈ r, op = .next ∨ op = .nextBack := fun o ho => hops o (List.mem_cons_of_mem _ ho)
    rcases hops op List.mem_cons_self with rfl | rfl
    · cases rem with
      | nil =>
        simp only [dqRun, dqStep, dqNext, fronts, backs]
        exact ih hr [] k
      | cons x rest =>
        simp only [dqRun, dqStep, dqNext, fronts, backs]
        have := ih hr rest k
        simp only [List.cons_append, this]
    · rcases List.eq_nil_or_concat rem with rfl | ⟨rest, x, rfl⟩
      · simp only [dqRun, dqStep, dqNextBack, List.getLast?_nil, fronts, backs]
        exact ih hr [] k
      · simp only [List.concat_eq_append, dqRun, dqStep, dqNextBack, List.getLast?_append, List.getLast?_singleton,
          Option.some_or, List.dropLast_concat, fronts, backs, List.reverse_cons]
        have := ih hr rest k
        rw [← List.append_assoc, this]

end Konst.Histories
